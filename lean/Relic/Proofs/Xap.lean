/-
  Lemmas about `Relic.Model.Xap`: the framing bytes, `removeSignature`, the tar walk on the framing `ZipToTar` writes,
  and the two directions of the locator of `Verify` (what it finds on a framed file; what a success implies).
-/
import Relic.Model.Xap
import Relic.Proofs.Codec
namespace Relic.Xap
open Relic

/-! ### framing bytes -/

@[simp] theorem header_length (u1 u2 n : Nat) : (header u1 u2 n).length = 8 := by simp [header]
@[simp] theorem trailer_length (u t : Nat) : (trailer u t).length = 10 := by simp [trailer]
@[simp] theorem sigBlock_length (s : Bytes) : (sigBlock s).length = s.length + 18 := by
  simp [sigBlock]; omega

theorem take_append_len {α} (a b : List α) (n : Nat) (h : a.length = n) : (a ++ b).take n = a := by
  subst h; simp

theorem drop_append_len {α} (a b : List α) (n : Nat) (h : a.length = n) : (a ++ b).drop n = b := by
  subst h; simp

theorem trailer_magic (u t : Nat) : leVal ((trailer u t).take 4) = trailerMagic := by
  unfold trailer
  rw [List.append_assoc, take_append_len _ _ 4 (by simp), leVal_leBytes]
  decide

theorem trailer_unknown (u t : Nat) : leVal (((trailer u t).drop 4).take 2) = u % 65536 := by
  unfold trailer
  rw [List.append_assoc, drop_append_len _ _ 4 (by simp), take_append_len _ _ 2 (by simp), leVal_leBytes]

theorem trailer_size (u t : Nat) : leVal (((trailer u t).drop 6).take 4) = t % 4294967296 := by
  unfold trailer
  rw [drop_append_len _ _ 6 (by simp), List.take_of_length_le (by simp), leVal_leBytes]

theorem header_u1 (u1 u2 n : Nat) : leVal ((header u1 u2 n).take 2) = u1 % 65536 := by
  unfold header
  rw [List.append_assoc, take_append_len _ _ 2 (by simp), leVal_leBytes]

theorem header_u2 (u1 u2 n : Nat) : leVal (((header u1 u2 n).drop 2).take 2) = u2 % 65536 := by
  unfold header
  rw [List.append_assoc, drop_append_len _ _ 2 (by simp), take_append_len _ _ 2 (by simp), leVal_leBytes]

theorem header_size (u1 u2 n : Nat) : leVal (((header u1 u2 n).drop 4).take 4) = n % 4294967296 := by
  unfold header
  rw [drop_append_len _ _ 4 (by simp), List.take_of_length_le (by simp), leVal_leBytes]

theorem leVal_lt' (b : Bytes) : leVal b < 256 ^ b.length := by
  induction b with
  | nil => simp [leVal]
  | cons x xs ih =>
    have hx := x.toNat_lt
    simp only [leVal, List.length_cons, Nat.pow_succ]
    omega

/-! ### `int64` wrap-around -/

theorem w64_id (x : Int) (h1 : -9223372036854775808 ≤ x) (h2 : x < 9223372036854775808) : w64 x = x := by
  unfold w64; omega

/-! ### the two read primitives on `pre ++ mid ++ post` -/

theorem readSection_mid (pre mid post : Bytes) (h : 0 < mid.length) :
    readSection (pre ++ (mid ++ post)) (pre.length : Int) mid.length = .ok mid := by
  unfold readSection
  have h1 : ¬ ((pre.length : Int) < 0) := by omega
  have h2 : ¬ ((pre ++ (mid ++ post)).length ≤ (pre.length : Int).toNat) := by simp; omega
  have h3 : ¬ ((pre ++ (mid ++ post)).length < (pre.length : Int).toNat + mid.length) := by simp
  rw [if_neg h1, if_neg h2, if_neg h3]
  simp

theorem readAt_mid (pre mid post : Bytes) (h : 0 < (mid ++ post).length) :
    readAt (pre ++ (mid ++ post)) (pre.length : Int) mid.length = .ok mid := by
  unfold readAt
  have h1 : ¬ ((pre.length : Int) < 0) := by omega
  have h2 : ¬ ((pre ++ (mid ++ post)).length ≤ (pre.length : Int).toNat) := by
    simp only [List.length_append, Int.toNat_natCast] at *; omega
  have h3 : ¬ ((pre ++ (mid ++ post)).length < (pre.length : Int).toNat + mid.length) := by simp
  rw [if_neg h1, if_neg h2, if_neg h3]
  simp

theorem readSection_of_eq (f pre mid post : Bytes) (hf : f = pre ++ (mid ++ post)) (hm : 0 < mid.length)
    (off : Int) (ho : off = pre.length) (n : Nat) (hn : n = mid.length) : readSection f off n = .ok mid := by
  subst hf ho hn; exact readSection_mid pre mid post hm

theorem readAt_of_eq (f pre mid post : Bytes) (hf : f = pre ++ (mid ++ post)) (hm : 0 < (mid ++ post).length)
    (off : Int) (ho : off = pre.length) (n : Nat) (hn : n = mid.length) : readAt f off n = .ok mid := by
  subst hf ho hn; exact readAt_mid pre mid post hm

theorem bind_ok {α β} (a : α) (f : α → Res β) : (Res.ok a).bind f = f a := rfl

/-! ### the locator on a file that ends in a consistent frame -/

/-- `base`, then a header, a blob and a trailer whose two size fields agree with the blob -/
def framed (base : Bytes) (u1 u2 u3 : Nat) (blob : Bytes) : Bytes :=
  base ++ (header u1 u2 blob.length ++ (blob ++ trailer u3 (blob.length + 8)))

theorem framed_length (base : Bytes) (u1 u2 u3 : Nat) (blob : Bytes) :
    (framed base u1 u2 u3 blob).length = base.length + blob.length + 18 := by
  simp [framed]; omega

theorem append_sigBlock (base s : Bytes) : base ++ sigBlock s = framed base 1 1 1 s := by
  simp [sigBlock, framed]

/-- **locate_framed.** On a file that ends in header ++ blob ++ trailer with `SignatureSize = |blob|`, `TrailerSize = |blob| + 8`
    (no `uint32` wrap, file below 2^63 bytes) the locator returns exactly the blob and the length of what precedes the
    header – whatever the three `Unknown` fields hold. -/
theorem locate_framed (base blob : Bytes) (u1 u2 u3 : Nat) (hb : blob.length + 8 < 4294967296)
    (hl : (framed base u1 u2 u3 blob).length < 9223372036854775808) :
    locate (framed base u1 u2 u3 blob) ((framed base u1 u2 u3 blob).length : Int) =
      .ok ⟨blob, base.length, u1 % 65536, u2 % 65536, u3 % 65536⟩ := by
  have hlen := framed_length base u1 u2 u3 blob
  rw [hlen] at hl
  have p1 : (base ++ (header u1 u2 blob.length ++ blob)).length = base.length + 8 + blob.length := by
    simp; omega
  have r1 : readSection (framed base u1 u2 u3 blob) (w64 (((framed base u1 u2 u3 blob).length : Int) - 10)) 10 =
      .ok (trailer u3 (blob.length + 8)) := by
    apply readSection_of_eq _ (base ++ (header u1 u2 blob.length ++ blob)) _ []
    · simp [framed]
    · simp
    · rw [p1, hlen, w64_id] <;> omega
    · simp
  have r2 : readSection (framed base u1 u2 u3 blob) (base.length : Int) 8 = .ok (header u1 u2 blob.length) := by
    apply readSection_of_eq _ base _ (blob ++ trailer u3 (blob.length + 8))
    · simp [framed]
    · simp
    · rfl
    · simp
  have r3 : readAt (framed base u1 u2 u3 blob) (w64 ((base.length : Int) + 8)) blob.length = .ok blob := by
    apply readAt_of_eq _ (base ++ header u1 u2 blob.length) _ (trailer u3 (blob.length + 8))
    · simp [framed]
    · simp
    · rw [w64_id] <;> (try simp only [List.length_append, header_length, Int.natCast_add]) <;> omega
    · rfl
  have hm : (blob.length + 8) % 4294967296 = blob.length + 8 := Nat.mod_eq_of_lt hb
  have hs : w64 (((framed base u1 u2 u3 blob).length : Int) - (((blob.length + 8 : Nat) : Int) + 10)) = (base.length : Int) := by
    rw [hlen, w64_id] <;> omega
  unfold locate
  rw [r1, bind_ok, if_neg (by rw [trailer_magic]; exact fun h => h rfl)]
  simp only [trailer_size, trailer_unknown, hm, hs]
  unfold locateHdr
  rw [r2, bind_ok]
  simp only [header_size, header_u1, header_u2]
  have hn : blob.length % 4294967296 = blob.length := Nat.mod_eq_of_lt (by omega)
  have hc : (blob.length + 8 + 4294967296 - 8) % 4294967296 = blob.length := by omega
  rw [hn, hc, if_neg (fun h => h rfl), r3, bind_ok, Int.toNat_natCast]

/-! ### `removeSignatureOrig` (before the repair of FX1) -/

theorem removeSignatureOrig_cases (cd : Bytes) :
    (removeSignatureOrig cd = cd ∧ ¬ (10 ≤ cd.length ∧ trMagic cd = trailerMagic ∧ trSize cd + 10 ≤ cd.length)) ∨
    (removeSignatureOrig cd = cd.take (cd.length - (trSize cd + 10)) ∧
      10 ≤ cd.length ∧ trMagic cd = trailerMagic ∧ trSize cd + 10 ≤ cd.length) := by
  unfold removeSignatureOrig
  by_cases h1 : cd.length < 10
  · left; rw [if_pos h1]; exact ⟨rfl, by omega⟩
  · rw [if_neg h1]
    by_cases h2 : trMagic cd = trailerMagic
    · rw [if_pos h2]
      by_cases h3 : cd.length < trSize cd + 10
      · left; rw [if_pos h3]; exact ⟨rfl, by omega⟩
      · right; rw [if_neg h3]; exact ⟨rfl, by omega, h2, by omega⟩
    · left; rw [if_neg h2]; exact ⟨rfl, fun h => h2 h.2.1⟩

theorem removeSignatureOrig_take (cd : Bytes) : removeSignatureOrig cd = cd.take (removeSignatureOrig cd).length := by
  rcases removeSignatureOrig_cases cd with ⟨h, _⟩ | ⟨h, _⟩
  · rw [h]; simp
  · rw [h]; simp

theorem trMagic_append_trailer (c : Bytes) (u t : Nat) : trMagic (c ++ trailer u t) = trailerMagic := by
  unfold trMagic
  rw [drop_append_len c _ _ (by simp)]
  exact trailer_magic u t

theorem trSize_append_trailer (c : Bytes) (u t : Nat) : trSize (c ++ trailer u t) = t % 4294967296 := by
  unfold trSize
  rw [drop_append_len c _ _ (by simp)]
  exact trailer_size u t

/-! ### `frameSize` / `removeSignature` (repaired) -/

/-- what `frameSize f = k` with `k ≠ 0` means, field by field -/
theorem frameSize_pos (f : Bytes) (h : frameSize f ≠ 0) :
    18 ≤ f.length ∧ trMagic f = trailerMagic ∧ 8 ≤ trSize f ∧ trSize f + 10 ≤ f.length ∧
    leVal ((f.drop (f.length - (trSize f + 10) + 4)).take 4) = trSize f - 8 ∧ frameSize f = trSize f + 10 := by
  unfold frameSize at h ⊢
  by_cases h1 : f.length < 18
  · rw [if_pos h1] at h; exact absurd rfl h
  rw [if_neg h1] at h ⊢
  by_cases h2 : trMagic f ≠ trailerMagic ∨ trSize f < 8
  · rw [if_pos h2] at h; exact absurd rfl h
  rw [if_neg h2] at h ⊢
  by_cases h3 : f.length < trSize f + 10
  · rw [if_pos h3] at h; exact absurd rfl h
  rw [if_neg h3] at h ⊢
  by_cases h4 : leVal ((f.drop (f.length - (trSize f + 10) + 4)).take 4) ≠ trSize f - 8
  · rw [if_pos h4] at h; exact absurd rfl h
  rw [if_neg h4]
  have hm : trMagic f = trailerMagic := Classical.byContradiction fun c => h2 (Or.inl c)
  exact ⟨by omega, hm, by omega, by omega, Classical.not_not.mp h4, rfl⟩

theorem frameSize_le (f : Bytes) : frameSize f ≤ f.length := by
  by_cases h : frameSize f = 0
  · omega
  · obtain ⟨_, _, _, h4, _, h6⟩ := frameSize_pos f h; omega

/-- the result is a prefix of the argument -/
theorem removeSignature_take (cd : Bytes) : removeSignature cd = cd.take (removeSignature cd).length := by
  unfold removeSignature; simp

theorem removeSignature_length (cd : Bytes) : (removeSignature cd).length = cd.length - frameSize cd := by
  unfold removeSignature; simp

theorem removeSignature_length_le (cd : Bytes) : (removeSignature cd).length ≤ cd.length := by
  rw [removeSignature_length]; omega

/-- on a blob that ends in a consistent frame (no wrap) `frameSize` is the length of that frame -/
theorem frameSize_framed (c : Bytes) (u1 u2 u3 : Nat) (blob : Bytes) (hb : blob.length + 8 < 4294967296) :
    frameSize (framed c u1 u2 u3 blob) = blob.length + 18 := by
  have e : framed c u1 u2 u3 blob = (c ++ (header u1 u2 blob.length ++ blob)) ++ trailer u3 (blob.length + 8) := by
    simp [framed]
  have e2 : framed c u1 u2 u3 blob =
      (c ++ leBytes 2 u1 ++ leBytes 2 u2) ++ (leBytes 4 blob.length ++ (blob ++ trailer u3 (blob.length + 8))) := by
    simp [framed, header]
  have hl := framed_length c u1 u2 u3 blob
  have hm : trMagic (framed c u1 u2 u3 blob) = trailerMagic := by rw [e]; exact trMagic_append_trailer _ _ _
  have hs : trSize (framed c u1 u2 u3 blob) = blob.length + 8 := by
    rw [e, trSize_append_trailer, Nat.mod_eq_of_lt hb]
  have hd : leVal (((framed c u1 u2 u3 blob).drop (c.length + 4)).take 4) = blob.length := by
    rw [e2, drop_append_len _ _ _ (by simp), take_append_len _ _ _ (by simp), leVal_leBytes]
    exact Nat.mod_eq_of_lt (by omega)
  unfold frameSize
  rw [if_neg (by omega), hm, hs, if_neg (by omega), if_neg (by omega), hl]
  have : c.length + blob.length + 18 - (blob.length + 8 + 10) + 4 = c.length + 4 := by omega
  rw [this, hd, if_neg (by omega)]

/-- **removeSignature_framed.** A blob that ends in header ++ blob ++ trailer (sizes consistent, no wrap) loses exactly that frame. -/
theorem removeSignature_framed (c : Bytes) (u1 u2 u3 : Nat) (blob : Bytes) (hb : blob.length + 8 < 4294967296) :
    removeSignature (framed c u1 u2 u3 blob) = c := by
  unfold removeSignature
  rw [frameSize_framed c u1 u2 u3 blob hb, framed_length]
  have : c.length + blob.length + 18 - (blob.length + 18) = c.length := by omega
  rw [this]
  simp [framed]

theorem leBytes_leVal (b : Bytes) : leBytes b.length (leVal b) = b := by
  induction b with
  | nil => rfl
  | cons x xs ih =>
    have hx := x.toNat_lt
    simp only [leVal, List.length_cons, leBytes]
    have e1 : (x.toNat + 256 * leVal xs) % 256 = x.toNat := by omega
    have e2 : (x.toNat + 256 * leVal xs) / 256 = leVal xs := by omega
    rw [e1, e2, ih]
    simp

theorem eq_leBytes (x : Bytes) (n : Nat) (h : x.length = n) : x = leBytes n (leVal x) := by
  subst h; exact (leBytes_leVal x).symm

/-- **frameSize_pos_framed.** The converse: whenever `frameSize f ≠ 0`, the last `frameSize f` bytes of `f` *are* a header, a
    blob and a trailer whose size fields agree with the blob (for some values of the three `Unknown` fields): nothing but a
    complete signature frame is ever cut off by the repaired `removeSignature`. -/
theorem frameSize_pos_framed (f : Bytes) (h : frameSize f ≠ 0) :
    ∃ u1 u2 u3 : Nat, ∃ blob : Bytes, f = framed (f.take (f.length - frameSize f)) u1 u2 u3 blob ∧
      frameSize f = blob.length + 18 ∧ blob.length + 8 < 4294967296 := by
  obtain ⟨h18, hm, h8, hfit, hsz, hk⟩ := frameSize_pos f h
  generalize hts : trSize f = ts at *
  rw [hk]
  have hn : f.length - (ts + 10) + (ts + 10) = f.length := by omega
  generalize hnn : f.length - (ts + 10) = n at *
  -- the three pieces behind the prefix
  obtain ⟨H, hHd⟩ : ∃ H, H = (f.drop n).take 8 := ⟨_, rfl⟩
  obtain ⟨B, hBd⟩ : ∃ B, B = (f.drop (n + 8)).take (ts - 8) := ⟨_, rfl⟩
  obtain ⟨T, hTd⟩ : ∃ T, T = f.drop (n + ts) := ⟨_, rfl⟩
  have hH : H.length = 8 := by rw [hHd]; simp; omega
  have hB : B.length = ts - 8 := by rw [hBd]; simp; omega
  have hT : T.length = 10 := by rw [hTd]; simp; omega
  have hsplit : f = f.take n ++ (H ++ (B ++ T)) := by
    have a1 : f = f.take n ++ f.drop n := (List.take_append_drop n f).symm
    have a2 : f.drop n = H ++ (f.drop n).drop 8 := by rw [hHd]; exact (List.take_append_drop 8 (f.drop n)).symm
    have a3 : (f.drop n).drop 8 = f.drop (n + 8) := by rw [List.drop_drop]
    have a4 : f.drop (n + 8) = B ++ (f.drop (n + 8)).drop (ts - 8) := by rw [hBd]; exact (List.take_append_drop (ts - 8) _).symm
    have a5 : (f.drop (n + 8)).drop (ts - 8) = T := by
      rw [List.drop_drop, hTd]; congr 1; omega
    rw [a5] at a4
    rw [a3, a4] at a2
    rw [a2] at a1
    exact a1
  -- the header
  have hH4 : H.drop 4 = (f.drop (n + 4)).take 4 := by
    rw [hHd, List.drop_take, List.drop_drop]
  have hHsz : leVal (H.drop 4) = ts - 8 := by rw [hH4]; exact hsz
  have hHeq : H = header (leVal (H.take 2)) (leVal ((H.drop 2).take 2)) (ts - 8) := by
    unfold header
    have p1 : H = H.take 2 ++ ((H.drop 2).take 2 ++ H.drop 4) := by
      have b1 : H = H.take 2 ++ H.drop 2 := (List.take_append_drop 2 H).symm
      have b2 : H.drop 2 = (H.drop 2).take 2 ++ (H.drop 2).drop 2 := (List.take_append_drop 2 _).symm
      rw [List.drop_drop] at b2
      rw [b2] at b1; exact b1
    rw [← hHsz, List.append_assoc,
      ← eq_leBytes (H.take 2) 2 (by simp [hH]), ← eq_leBytes ((H.drop 2).take 2) 2 (by simp [hH]),
      ← eq_leBytes (H.drop 4) 4 (by simp [hH])]
    exact p1
  -- the trailer
  have hTm : leVal (T.take 4) = trailerMagic := by
    have : f.length - 10 = n + ts := by omega
    unfold trMagic at hm; rw [this, ← hTd] at hm; exact hm
  have hTs : leVal (T.drop 6) = ts := by
    have : f.length - 10 = n + ts := by omega
    unfold trSize at hts; rw [this, ← hTd] at hts
    have l4 : (T.drop 6).length = 4 := by simp [hT]
    rw [List.take_of_length_le (by omega)] at hts
    exact hts
  have hTeq : T = trailer (leVal ((T.drop 4).take 2)) ts := by
    unfold trailer
    have p1 : T = T.take 4 ++ ((T.drop 4).take 2 ++ T.drop 6) := by
      have b1 : T = T.take 4 ++ T.drop 4 := (List.take_append_drop 4 T).symm
      have b2 : T.drop 4 = (T.drop 4).take 2 ++ (T.drop 4).drop 2 := (List.take_append_drop 2 _).symm
      rw [List.drop_drop] at b2
      rw [b2] at b1; exact b1
    rw [← hTm, List.append_assoc]
    conv => rhs; rw [← hTs]
    rw [← eq_leBytes (T.take 4) 4 (by simp [hT]), ← eq_leBytes ((T.drop 4).take 2) 2 (by simp [hT]),
      ← eq_leBytes (T.drop 6) 4 (by simp [hT])]
    exact p1
  have hts32 : ts < 4294967296 := by
    rw [← hTs]
    have := leVal_lt' (T.drop 6)
    have l4 : (T.drop 6).length = 4 := by simp [hT]
    rw [l4] at this; omega
  refine ⟨leVal (H.take 2), leVal ((H.drop 2).take 2), leVal ((T.drop 4).take 2), B, ?_, by omega, by omega⟩
  have hnn' : f.length - (ts + 10) = n := hnn
  have e8 : ts - 8 = B.length := hB.symm
  have e10 : ts = B.length + 8 := by omega
  unfold framed
  rw [← e8]
  have e88 : ts - 8 + 8 = ts := by omega
  rw [e88, ← hHeq, ← hTeq]
  exact hsplit

/-- the repaired function strips only where the original did, and then the same bytes -/
theorem removeSignature_eq_or (cd : Bytes) : removeSignature cd = cd ∨ removeSignature cd = removeSignatureOrig cd := by
  by_cases h : frameSize cd = 0
  · left; unfold removeSignature; rw [h]; simp
  · right
    obtain ⟨h18, hm, h8, hfit, _, hk⟩ := frameSize_pos cd h
    rcases removeSignatureOrig_cases cd with ⟨_, hn⟩ | ⟨e, _⟩
    · exact absurd ⟨by omega, hm, hfit⟩ hn
    · rw [e]; unfold removeSignature; rw [hk]

/-! ### what a success of the read primitives and of `bind` implies -/

theorem bind_eq_ok {α β} {r : Res α} {f : α → Res β} {b : β} (h : r.bind f = .ok b) : ∃ a, r = .ok a ∧ f a = .ok b := by
  cases r with
  | ok a => exact ⟨a, rfl, h⟩
  | err e => cases h
  | panic s => cases h
  | diverge => cases h

theorem readSection_ok {f : Bytes} {off : Int} {n : Nat} {b : Bytes} (h : readSection f off n = .ok b) :
    0 ≤ off ∧ off.toNat < f.length ∧ off.toNat + n ≤ f.length ∧ b = (f.drop off.toNat).take n := by
  unfold readSection at h
  by_cases h1 : off < 0
  · rw [if_pos h1] at h; cases h
  rw [if_neg h1] at h
  by_cases h2 : f.length ≤ off.toNat
  · rw [if_pos h2] at h; cases h
  rw [if_neg h2] at h
  by_cases h3 : f.length < off.toNat + n
  · rw [if_pos h3] at h; cases h
  rw [if_neg h3] at h
  cases h
  exact ⟨by omega, by omega, by omega, rfl⟩

theorem readAt_ok {f : Bytes} {off : Int} {n : Nat} {b : Bytes} (h : readAt f off n = .ok b) :
    0 ≤ off ∧ off.toNat < f.length ∧ off.toNat + n ≤ f.length ∧ b = (f.drop off.toNat).take n := by
  unfold readAt at h
  by_cases h1 : off < 0
  · rw [if_pos h1] at h; cases h
  rw [if_neg h1] at h
  by_cases h2 : f.length ≤ off.toNat
  · rw [if_pos h2] at h; cases h
  rw [if_neg h2] at h
  by_cases h3 : f.length < off.toNat + n
  · rw [if_pos h3] at h; cases h
  rw [if_neg h3] at h
  cases h
  exact ⟨by omega, by omega, by omega, rfl⟩

/-! ### bytes of a little-endian field -/

/-- the byte at index `i` (0 beyond the end) as a number -/
def byteAt (f : Bytes) (i : Nat) : Nat := (f.getD i 0).toNat

theorem byteAt_lt (f : Bytes) (i : Nat) : byteAt f i < 256 := UInt8.toNat_lt _

theorem leVal_take_succ (l : Bytes) (k : Nat) :
    leVal (l.take (k + 1)) = (l.headD 0).toNat + 256 * leVal (l.tail.take k) := by
  cases l with
  | nil => simp [leVal]
  | cons a t => simp [leVal]

theorem headD_drop (f : Bytes) (i : Nat) : ((f.drop i).headD 0).toNat = byteAt f i := by
  unfold byteAt
  simp [List.headD_eq_head?_getD, List.head?_drop, List.getD_eq_getElem?_getD]

theorem leVal_drop_take4 (f : Bytes) (i : Nat) :
    leVal ((f.drop i).take 4) =
      byteAt f i + 256 * byteAt f (i + 1) + 65536 * byteAt f (i + 2) + 16777216 * byteAt f (i + 3) := by
  rw [leVal_take_succ, headD_drop, List.tail_drop, leVal_take_succ, headD_drop, List.tail_drop,
    leVal_take_succ, headD_drop, List.tail_drop, leVal_take_succ, headD_drop]
  simp only [Nat.add_assoc, Nat.reduceAdd, leVal, List.take_zero, Nat.mul_zero, Nat.add_zero]
  omega

theorem leVal_drop_take4_lt (f : Bytes) (i : Nat) : leVal ((f.drop i).take 4) < 4294967296 := by
  rw [leVal_drop_take4]
  have := byteAt_lt f i; have := byteAt_lt f (i + 1); have := byteAt_lt f (i + 2); have := byteAt_lt f (i + 3)
  omega

theorem sub_take_drop {α} (l : List α) (a b n : Nat) (h : a + b ≤ n) : ((l.take n).drop a).take b = (l.drop a).take b := by
  rw [List.drop_take, List.take_take]
  congr 1
  omega

/-! ### what a success of the locator implies -/

/-- **hdr_wrap_excluded.** `hdr.SignatureSize != tr.TrailerSize-8` is a `uint32` comparison, so a `TrailerSize` below 8 asks
    for a `SignatureSize` of `2^32 - 8 + TrailerSize`.  The header is then read from a range that overlaps the trailer
    itself (it starts `TrailerSize` bytes before it), and the trailer's own bytes – "XapS", then `TrailerSize` as the last
    four – cannot spell that value: the test always fails, for every file. -/
theorem hdr_wrap_excluded (f : Bytes) (k ts : Nat) (hts : ts < 8) (hk : ts ≤ k)
    (hm : leVal ((f.drop k).take 4) = trailerMagic) (hsz : leVal ((f.drop (k + 6)).take 4) = ts) :
    leVal ((f.drop (k - ts + 4)).take 4) ≠ ts + 4294967296 - 8 := by
  intro hsig
  obtain ⟨j, rfl⟩ : ∃ j, k = j + ts := ⟨k - ts, by omega⟩
  rw [Nat.add_sub_cancel, leVal_drop_take4] at hsig
  rw [leVal_drop_take4] at hm hsz
  unfold trailerMagic at hm
  have b0 := byteAt_lt f (j + 4); have b1 := byteAt_lt f (j + 5); have b2 := byteAt_lt f (j + 6); have b3 := byteAt_lt f (j + 7)
  have c0 := byteAt_lt f (j + 8); have c1 := byteAt_lt f (j + 9); have c2 := byteAt_lt f (j + 10); have c3 := byteAt_lt f (j + 11)
  have d0 := byteAt_lt f (j + 12); have d1 := byteAt_lt f (j + 13); have d2 := byteAt_lt f (j + 14); have d3 := byteAt_lt f (j + 15)
  have d4 := byteAt_lt f (j + 16)
  have a0 := byteAt_lt f j; have a1 := byteAt_lt f (j + 1); have a2 := byteAt_lt f (j + 2); have a3 := byteAt_lt f (j + 3)
  have hcases : ts = 0 ∨ ts = 1 ∨ ts = 2 ∨ ts = 3 ∨ ts = 4 ∨ ts = 5 ∨ ts = 6 ∨ ts = 7 := by omega
  rcases hcases with rfl | rfl | rfl | rfl | rfl | rfl | rfl | rfl <;>
    simp only [Nat.add_assoc, Nat.reduceAdd, Nat.add_zero] at hm hsz hsig <;> omega

/-- **locate_ok.** What `Verify` has established when it reaches `pkcs7.Unmarshal` (file below 2^63 bytes, `size` an
    `int64`): `size` lies inside the file, the ten bytes before `size` are a trailer with the magic, its `TrailerSize`
    is at least 8 and fits, the eight bytes `TrailerSize + 10` before `size` carry `SignatureSize = TrailerSize - 8`, the
    blob is the `SignatureSize` bytes between that header and the trailer, and the digest covers everything in front of
    the header. -/
theorem locate_ok (f : Bytes) (size : Int) (l : Located) (hf : f.length < 9223372036854775808)
    (hs1 : -9223372036854775808 ≤ size) (hs2 : size < 9223372036854775808) (h : locate f size = .ok l) :
    ∃ N ts : Nat, size = (N : Int) ∧ N ≤ f.length ∧ ts + 10 ≤ N ∧ 8 ≤ ts ∧
      leVal ((f.drop (N - 10)).take 4) = trailerMagic ∧
      leVal ((f.drop (N - 4)).take 4) = ts ∧
      l.n = N - 10 - ts ∧
      leVal ((f.drop (l.n + 4)).take 4) = ts - 8 ∧
      l.blob = (f.drop (l.n + 8)).take (ts - 8) ∧ l.blob.length = ts - 8 := by
  unfold locate at h
  obtain ⟨tr, htr, h⟩ := bind_eq_ok h
  obtain ⟨o1, o2, o3, rfl⟩ := readSection_ok htr
  have hw : w64 (size - 10) = size - 10 := by
    unfold w64 at o1 o3 ⊢; omega
  rw [hw] at o1 o2 o3 h
  obtain ⟨N, rfl⟩ : ∃ N : Nat, size = (N : Int) := ⟨size.toNat, by omega⟩
  have hN : ((N : Int) - 10).toNat = N - 10 := by omega
  rw [hN] at o2 o3 h
  have hN10 : 10 ≤ N := by omega
  by_cases hm : leVal (((f.drop (N - 10)).take 10).take 4) ≠ trailerMagic
  · rw [if_pos hm] at h
    obtain ⟨m, _, h2⟩ := bind_eq_ok h
    split at h2 <;> cases h2
  rw [if_neg hm] at h
  have hm' : leVal ((f.drop (N - 10)).take 4) = trailerMagic := by
    have := Classical.not_not.mp hm
    rwa [List.take_take] at this
  have e6 : (((f.drop (N - 10)).take 10).drop 6).take 4 = (f.drop (N - 4)).take 4 := by
    rw [sub_take_drop _ 6 4 10 (by omega), List.drop_drop]
    congr 2; omega
  have e4 : (((f.drop (N - 10)).take 10).drop 4).take 2 = (f.drop (N - 6)).take 2 := by
    rw [sub_take_drop _ 4 2 10 (by omega), List.drop_drop]
    congr 2; omega
  simp only [] at h
  rw [e6, e4] at h
  generalize hts : leVal ((f.drop (N - 4)).take 4) = ts at h
  have hts32 : ts < 4294967296 := by rw [← hts]; exact leVal_drop_take4_lt f _
  unfold locateHdr at h
  obtain ⟨hd, hhd, h⟩ := bind_eq_ok h
  obtain ⟨p1, p2, p3, rfl⟩ := readSection_ok hhd
  have hw2 : w64 ((N : Int) - ((ts : Int) + 10)) = (N : Int) - ((ts : Int) + 10) := by
    unfold w64 at p1 p3 ⊢; omega
  rw [hw2] at p1 p2 p3 h
  have hfit : ts + 10 ≤ N := by omega
  have hoff : ((N : Int) - ((ts : Int) + 10)).toNat = N - 10 - ts := by omega
  rw [hoff] at p2 p3 h
  have e44 : (((f.drop (N - 10 - ts)).take 8).drop 4).take 4 = (f.drop (N - 10 - ts + 4)).take 4 := by
    rw [sub_take_drop _ 4 4 8 (by omega), List.drop_drop]
  simp only [] at h
  rw [e44] at h
  by_cases hc : leVal ((f.drop (N - 10 - ts + 4)).take 4) ≠ (ts + 4294967296 - 8) % 4294967296
  · rw [if_pos hc] at h; cases h
  rw [if_neg hc] at h
  have hc' := Classical.not_not.mp hc
  -- TrailerSize < 8 is impossible
  have h8 : 8 ≤ ts := by
    refine Classical.byContradiction fun hlt => ?_
    have hlt : ts < 8 := by omega
    have hmod : (ts + 4294967296 - 8) % 4294967296 = ts + 4294967296 - 8 := Nat.mod_eq_of_lt (by omega)
    rw [hmod] at hc'
    refine hdr_wrap_excluded f (N - 10) ts hlt (by omega) hm' ?_ ?_
    · have : N - 10 + 6 = N - 4 := by omega
      rw [this]; exact hts
    · have : N - 10 - ts + 4 = N - 10 - ts + 4 := rfl
      exact hc'
  have hmod : (ts + 4294967296 - 8) % 4294967296 = ts - 8 := by omega
  rw [hmod] at hc'
  rw [hc'] at h
  obtain ⟨blob, hblob, h⟩ := bind_eq_ok h
  obtain ⟨q1, q2, q3, rfl⟩ := readAt_ok hblob
  have hw3 : w64 ((N : Int) - ((ts : Int) + 10) + 8) = (N : Int) - ((ts : Int) + 10) + 8 := by
    unfold w64; omega
  rw [hw3] at q1 q2 q3 h
  have hoff3 : ((N : Int) - ((ts : Int) + 10) + 8).toNat = N - 10 - ts + 8 := by omega
  rw [hoff3] at q2 q3 h
  cases h
  refine ⟨N, ts, rfl, by omega, hfit, h8, hm', hts, rfl, hc', rfl, ?_⟩
  simp only [List.length_take, List.length_drop]
  omega

end Relic.Xap

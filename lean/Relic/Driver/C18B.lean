/- line-protocol handler for the byte-level comdoc writer model (C18 `wbm`: sessions of AddFile/DeleteFile + Close,
   the model's predicted file bytes after every session) -/
import Relic.Model.CfbBytes
import Relic.Model.CfbBytesInv
import Relic.Spec.Cfb
namespace Relic.Driver.C18B
open Relic Relic.CfbB

/-- UTF-16LE bytes → code units -/
def unitsOfBytes : Bytes → Option (List Nat)
  | [] => some []
  | [_] => none
  | a :: b :: rest => do
    let r ← unitsOfBytes rest
    pure ((a.toNat + 256 * b.toNat) :: r)

/-- `k` steps: `a <namehex> <datahex>` | `d <namehex>` -/
def parseSteps : Nat → List String → Option (List Op × List String)
  | 0, rest => some ([], rest)
  | k + 1, "a" :: nm :: d :: rest => do
    let u ← (fromHex nm).bind unitsOfBytes
    let data ← fromHex d
    let (ops, r) ← parseSteps k rest
    pure (.add u data :: ops, r)
  | k + 1, "d" :: nm :: rest => do
    let u ← (fromHex nm).bind unitsOfBytes
    let (ops, r) ← parseSteps k rest
    pure (.del u :: ops, r)
  | _, _ => none

def parseSessions : Nat → List String → Option (List (List Op))
  | 0, [] => some []
  | n + 1, "s" :: k :: rest => do
    let k ← k.toNat?
    let (ops, r) ← parseSteps k rest
    let more ← parseSessions n r
    pure (ops :: more)
  | _, _ => none

def classOf {α} : Res α → String
  | .ok _ => "ok" | .err e => "err:" ++ e | .panic p => "panic:" ++ p | .diverge => "diverge"

/-- `v` = the bytes are a valid compound file per `Spec.Cfb.validate`; `i` = the state `openFile` builds from them
    satisfies the executable invariant `invB` (hypothesis of the C18 byte-level theorems); `-` = not opened -/
def bridge (b : Bytes) : String :=
  let v := if Spec.Cfb.validB b.toArray then "v" else "n"
  match openFile b.toArray with
  | .ok st => v ++ (if invB st then "i" else "x")
  | _ => v ++ "-"

/-- run the sessions one after the other, each on the bytes the previous one left -/
def runSessions : Nat → Bytes → List (List Op) → List String → List String → String
  | _, b, [], acc, br => "ok ok " ++ " ".intercalate acc.reverse ++ " #br=" ++ ",".intercalate (bridge b :: br).reverse
  | i, b, ops :: rest, acc, br =>
    match session b.toArray ops with
    | .ok b' => runSessions (i + 1) b' rest (toHex b' :: acc) (bridge b :: br)
    | r => s!"ok {classOf r}@s{i} " ++ " ".intercalate acc.reverse ++ " #br=" ++ ",".intercalate (bridge b :: br).reverse

def handle : List String → String
  | fh :: n :: rest =>
    match fromHex fh, n.toNat? with
    | some b, some n =>
      match parseSessions n rest with
      | some ss => ((runSessions 0 b ss [] []).replace "  " " ").trimAscii.toString
      | none => "bad-op"
    | _, _ => "bad-op"
  | _ => "bad-op"

end Relic.Driver.C18B

/- helper lemmas about Relic.Model.Xar: int64 wrap-around, plans, the etree side of `Sign` on arbitrary trees -/
import Relic.Model.Xar
namespace Relic.Xar
open Relic

/-! ### int64 -/

theorem w64_inI64 (i : Int) : inI64 (w64 i) := by
  unfold inI64 w64
  have h1 := Int.emod_nonneg (i + 2 ^ 63) (b := 2 ^ 64) (by decide)
  have h2 := Int.emod_lt_of_pos (i + 2 ^ 63) (b := 2 ^ 64) (by decide)
  omega

theorem w64_id {i : Int} (h : inI64 i) : w64 i = i := by
  unfold inI64 at h
  unfold w64
  have : (i + 2 ^ 63) % 2 ^ 64 = i + 2 ^ 63 := Int.emod_eq_of_lt (by omega) (by omega)
  omega

theorem w64_add_w64 (a b : Int) : w64 (w64 a + b) = w64 (a + b) := by
  unfold w64
  have : (((a + 2 ^ 63) % 2 ^ 64 - 2 ^ 63 + b + 2 ^ 63) % 2 ^ 64 : Int) = (a + b + 2 ^ 63) % 2 ^ 64 := by
    have e : (a + 2 ^ 63) % 2 ^ 64 - 2 ^ 63 + b + 2 ^ 63 = (a + 2 ^ 63) % 2 ^ 64 + b := by omega
    rw [e, Int.emod_add_emod]
    congr 1
    omega
  omega

theorem w64_w64 (a : Int) : w64 (w64 a) = w64 a := w64_id (w64_inI64 a)

/-! ### plans -/

theorem runChecks_append {α} (C : Crypto) (xs ys : List Check) (r : Res α) :
    runChecks C (xs ++ ys) r = (match runChecks C xs (.ok ()) with
      | .ok _ => runChecks C ys r
      | .err e => .err e
      | .panic s => .panic s
      | .diverge => .diverge) := by
  induction xs with
  | nil => simp [runChecks]
  | cons c cs ih =>
    simp only [List.cons_append, runChecks]
    split
    · exact ih
    · rfl

theorem runChecks_ok_iff {α} (C : Crypto) (cs : List Check) (r : Res α) (a : α) :
    runChecks C cs r = .ok a ↔ (∀ c ∈ cs, c.holds C = true) ∧ r = .ok a := by
  induction cs with
  | nil => simp [runChecks]
  | cons c cs ih =>
    simp only [runChecks, List.mem_cons, forall_eq_or_imp]
    split
    · rename_i h
      simp [ih, h]
    · rename_i h
      simp [h]

theorem runChecks_all {α} (C : Crypto) (cs : List Check) (r : Res α) (h : ∀ c ∈ cs, c.holds C = true) :
    runChecks C cs r = r := by
  induction cs with
  | nil => rfl
  | cons c cs ih =>
    simp only [runChecks, h c (List.mem_cons_self), ↓reduceIte]
    exact ih fun c hc => h c (List.mem_cons_of_mem _ hc)

theorem run_ok_iff {α} (C : Crypto) (p : Plan α) (a : α) :
    p.run C = .ok a ↔ (∀ c ∈ p.checks, c.holds C = true) ∧ p.final = .ok a := runChecks_ok_iff C p.checks p.final a

/-- a failing comparison never turns into a panic: a plan run panics only if its final outcome is that panic -/
theorem runChecks_panic {α} (C : Crypto) (cs : List Check) (r : Res α) (s : String) (h : runChecks C cs r = .panic s) :
    r = .panic s := by
  induction cs with
  | nil => exact h
  | cons c cs ih =>
    simp only [runChecks] at h
    split at h
    · exact ih h
    · cases h

theorem runChecks_diverge {α} (C : Crypto) (cs : List Check) (r : Res α) (h : runChecks C cs r = .diverge) :
    r = .diverge := by
  induction cs with
  | nil => exact h
  | cons c cs ih =>
    simp only [runChecks] at h
    split at h
    · exact ih h
    · cases h

theorem bind_checks_final {α β} (p : Plan α) (f : α → Plan β) (a : α) (h : p.final = .ok a) :
    (p.bind f).checks = p.checks ++ (f a).checks ∧ (p.bind f).final = (f a).final := by
  simp [Plan.bind, h]

theorem bind_final_ok {α β} (p : Plan α) (f : α → Plan β) (b : β) (h : (p.bind f).final = .ok b) :
    ∃ a, p.final = .ok a ∧ (f a).final = .ok b ∧ (p.bind f).checks = p.checks ++ (f a).checks := by
  unfold Plan.bind at h ⊢
  split at h <;> rename_i hp
  · exact ⟨_, hp, h, by simp [hp]⟩
  all_goals cases h

/-! ### lists of nodes -/

@[simp] theorem isTx_tx (s : String) : (Xml.tx s).isTx = true := rfl
@[simp] theorem isTx_el (n : String) (a : List (String × String)) (k : List Xml) : (Xml.el n a k).isTx = false := rfl
@[simp] theorem kids_el (n : String) (a : List (String × String)) (k : List Xml) : (Xml.el n a k).kids = k := rfl
@[simp] theorem kids_tx (s : String) : (Xml.tx s).kids = [] := rfl
@[simp] theorem attrs_el (n : String) (a : List (String × String)) (k : List Xml) : (Xml.el n a k).attrs = a := rfl
@[simp] theorem isEl_tx (n s : String) : (Xml.tx s).isEl n = false := rfl
@[simp] theorem isEl_el (n m : String) (a : List (String × String)) (k : List Xml) : (Xml.el m a k).isEl n = (m == n) := rfl

theorem etext_adjustKids (N : Num) (ea : Bool) (d : Int) (b : Bool) : ∀ ks, etext (adjustKids N ea d b ks) = etext ks
  | [] => by simp [adjustKids]
  | .tx s :: ks => by simp [adjustKids, adjust, etext, etext_adjustKids N ea d b ks]
  | .el n as k :: ks => by
    simp only [adjustKids, adjust]
    split
    · split <;> simp [etext]
    · simp [etext]

theorem adjust_tx (N : Num) (ea : Bool) (d : Int) (b : Bool) (s : String) : adjust N ea d b (.tx s) = .tx s := by simp [adjust]

theorem adjustKids_append (N : Num) (ea : Bool) (d : Int) (b : Bool) : ∀ xs ys, adjustKids N ea d b (xs ++ ys) = adjustKids N ea d b xs ++ adjustKids N ea d b ys
  | [], ys => by simp [adjustKids]
  | x :: xs, ys => by simp [adjustKids, adjustKids_append N ea d b xs ys]

theorem adjustKids_cons (N : Num) (ea : Bool) (d : Int) (b : Bool) (x : Xml) (xs : List Xml) :
    adjustKids N ea d b (x :: xs) = adjust N ea d b x :: adjustKids N ea d b xs := by simp [adjustKids]

/-- the name of an element survives `adjust` -/
theorem adjust_isEl (N : Num) (ea : Bool) (d : Int) (b : Bool) (n : String) (x : Xml) : (adjust N ea d b x).isEl n = x.isEl n := by
  cases x with
  | tx s => simp [adjust]
  | el m as ks =>
    simp only [adjust]
    split
    · split <;> simp [Xml.isEl]
    · simp [Xml.isEl]

theorem adjust_isTx (N : Num) (ea : Bool) (d : Int) (b : Bool) (x : Xml) : (adjust N ea d b x).isTx = x.isTx := by
  cases x with
  | tx s => simp [adjust]
  | el m as ks =>
    simp only [adjust]
    split
    · split <;> simp [Xml.isTx]
    · simp [Xml.isTx]

theorem etext_dropWhile_isTx : ∀ ks : List Xml, etext (ks.dropWhile (·.isTx)) = ""
  | [] => by simp [etext]
  | .tx s :: ks => by simp [List.dropWhile, etext_dropWhile_isTx ks]
  | .el n as k :: ks => by simp [List.dropWhile, etext]

theorem dropWhile_dropWhile_isTx (ks : List Xml) : (ks.dropWhile (·.isTx)).dropWhile (·.isTx) = ks.dropWhile (·.isTx) := by
  induction ks with
  | nil => rfl
  | cons k ks ih =>
    cases k with
    | tx s => simpa [List.dropWhile] using ih
    | el n as k => simp [List.dropWhile]

theorem etext_setText (s : String) (ks : List Xml) : etext (setText s ks) = s := by
  simp [setText, etext, etext_dropWhile_isTx]

theorem setText_setText (s t : String) (ks : List Xml) : setText t (setText s ks) = setText t ks := by
  simp [setText, List.dropWhile, dropWhile_dropWhile_isTx]

/-! ### two shifts in a row are one shift (every tree) -/

mutual
theorem adjust_adjust (N : Num) (ea : Bool) (hN : N.Laws) (d1 d2 : Int) (b : Bool) :
    ∀ x, adjust N ea d2 b (adjust N ea d1 b x) = adjust N ea (d1 + d2) b x
  | .tx s => by simp [adjust]
  | .el n as ks => by
    have ih := adjustKids_adjustKids N ea hN d1 d2 (isRef ea n) ks
    simp only [adjust]
    by_cases hc : (b && n == "offset") = true
    · simp only [hc, ↓reduceIte, etext_adjustKids]
      by_cases hp : (N.atoi (etext ks)).2 = true
      · simp only [hp, ↓reduceIte, adjust, hc]
        -- after the first shift the text is the formatted number; it parses back
        have e1 : adjustKids N ea d2 (isRef ea n) (setText (N.fmt (w64 ((N.atoi (etext ks)).1 + d1))) (adjustKids N ea d1 (isRef ea n) ks))
            = setText (N.fmt (w64 ((N.atoi (etext ks)).1 + d1))) (adjustKids N ea (d1 + d2) (isRef ea n) ks) := by
          simp only [setText, adjustKids_cons, adjust_tx]
          congr 1
          rw [← ih]
          generalize adjustKids N ea d1 (isRef ea n) ks = l
          induction l with
          | nil => simp [adjustKids]
          | cons k l ihl =>
            cases k with
            | tx s => simpa [List.dropWhile, adjustKids_cons, adjust_tx] using ihl
            | el m as2 k2 =>
              have := adjust_isTx N ea d2 (isRef ea n) (.el m as2 k2)
              simp only [isTx_el] at this
              simp [adjustKids_cons, List.dropWhile, this]
        rw [e1, etext_setText, hN.rt _ (w64_inI64 _)]
        simp only [↓reduceIte, setText_setText, w64_add_w64]
        rw [Int.add_assoc]
      · simp only [hp, adjust, hc, ↓reduceIte, etext_adjustKids, Bool.false_eq_true, ih]
    · simp only [hc, adjust, ↓reduceIte, ih, Bool.false_eq_true]
theorem adjustKids_adjustKids (N : Num) (ea : Bool) (hN : N.Laws) (d1 d2 : Int) (b : Bool) :
    ∀ ks, adjustKids N ea d2 b (adjustKids N ea d1 b ks) = adjustKids N ea (d1 + d2) b ks
  | [] => by simp [adjustKids]
  | k :: ks => by
    simp only [adjustKids]
    rw [adjust_adjust N ea hN d1 d2 b k, adjustKids_adjustKids N ea hN d1 d2 b ks]
end

/-! ### elements without `<data>` (`<ea>`) below them are not touched -/

theorem isRef_false (ea : Bool) (n : String) (h1 : n ≠ "data") (h2 : n ≠ "ea") : isRef ea n = false := by
  cases ea <;> simp [isRef, h1, h2]

mutual
/-- no element whose `<offset>` child `adjustOffsets` shifts (`<data>`; with `ea` also `<ea>`) at or below -/
def noRef (ea : Bool) : Xml → Bool
  | .tx _ => true
  | .el n _ ks => !isRef ea n && noRefL ea ks
def noRefL (ea : Bool) : List Xml → Bool
  | [] => true
  | k :: ks => noRef ea k && noRefL ea ks
end

/-- no element named `data` at or below (the original `adjustOffsets`) -/
abbrev noData (x : Xml) : Bool := noRef false x

mutual
theorem adjust_noRef (N : Num) (ea : Bool) (d : Int) : ∀ x, noRef ea x = true → adjust N ea d false x = x
  | .tx s, _ => by simp [adjust]
  | .el n as ks, h => by
    simp only [noRef, Bool.and_eq_true, Bool.not_eq_eq_eq_not, Bool.not_true] at h
    simp only [adjust, Bool.false_and, Bool.false_eq_true, ↓reduceIte, h.1]
    rw [adjustKids_noRef N ea d ks h.2]
theorem adjustKids_noRef (N : Num) (ea : Bool) (d : Int) : ∀ ks, noRefL ea ks = true → adjustKids N ea d false ks = ks
  | [], _ => by simp [adjustKids]
  | k :: ks, h => by
    simp only [noRefL, Bool.and_eq_true] at h
    simp only [adjustKids]
    rw [adjust_noRef N ea d k h.1, adjustKids_noRef N ea d ks h.2]
end

theorem noRefL_certs (ea : Bool) (cs : List String) : noRefL ea (cs.map fun c => Xml.el "X509Certificate" [] [.tx c]) = true := by
  induction cs with
  | nil => rfl
  | cons c cs ih => simp [noRefL, noRef, ih, isRef_false ea "X509Certificate" (by decide) (by decide)]

theorem noRef_newSigElement (N : Num) (ea : Bool) (key style : String) (o sz : Int) (cs : Option (List String))
    (hk : key ≠ "data") (hk2 : key ≠ "ea") : noRef ea (newSigElement N key style o sz cs) = true := by
  have e1 := isRef_false ea "size" (by decide) (by decide)
  have e2 := isRef_false ea "offset" (by decide) (by decide)
  have e3 := isRef_false ea "KeyInfo" (by decide) (by decide)
  have e4 := isRef_false ea "X509Data" (by decide) (by decide)
  have e5 := isRef_false ea key hk hk2
  cases cs with
  | none => simp [newSigElement, noRef, noRefL, e1, e2, e5]
  | some cs => simp [newSigElement, noRef, noRefL, e1, e2, e3, e4, e5, noRefL_certs]

theorem noRefL_reserve (N : Num) (ea : Bool) (hk : HK) (ki : KeyInfo) : noRefL ea (reserve N hk ki).1 = true := by
  unfold reserve
  cases ki.rsaSize <;> simp [noRefL, noRef_newSigElement]

/-! ### `removeSigs` -/

theorem removeSigs_append (N : Num) : ∀ xs ys, removeSigs N (xs ++ ys) =
    ((removeSigs N xs).1 + (removeSigs N ys).1, (removeSigs N xs).2 ++ (removeSigs N ys).2)
  | [], ys => by simp [removeSigs]
  | .tx s :: xs, ys => by simp [removeSigs, removeSigs_append N xs ys]
  | .el n as ks :: xs, ys => by
    simp only [List.cons_append, removeSigs, removeSigs_append N xs ys]
    split <;> simp [Int.add_assoc]

theorem removeSigs_nosig (N : Num) : ∀ ks, (∀ k ∈ ks, k.isSig = false) → removeSigs N ks = (0, ks)
  | [], _ => by simp [removeSigs]
  | .tx s :: ks, h => by
    simp [removeSigs, removeSigs_nosig N ks fun k hk => h k (List.mem_cons_of_mem _ hk)]
  | .el n as k :: ks, h => by
    have h1 : isSigName n = false := by simpa [Xml.isSig] using h _ List.mem_cons_self
    simp [removeSigs, h1, removeSigs_nosig N ks fun k hk => h k (List.mem_cons_of_mem _ hk)]

theorem removeSigs_snd_nosig (N : Num) : ∀ ks, ∀ k ∈ (removeSigs N ks).2, k.isSig = false
  | [], k, hk => by simp [removeSigs] at hk
  | .tx s :: ks, k, hk => by
    simp only [removeSigs, List.mem_cons] at hk
    rcases hk with rfl | hk
    · rfl
    · exact removeSigs_snd_nosig N ks k hk
  | .el n as c :: ks, k, hk => by
    simp only [removeSigs] at hk
    split at hk
    · exact removeSigs_snd_nosig N ks k hk
    · rename_i hn
      simp only [List.mem_cons] at hk
      rcases hk with rfl | hk
      · simpa [Xml.isSig] using hn
      · exact removeSigs_snd_nosig N ks k hk

theorem first_adjustKids (N : Num) (ea : Bool) (d : Int) (b : Bool) (n : String) : ∀ ks,
    first n (adjustKids N ea d b ks) = (first n ks).map (adjust N ea d b)
  | [] => by simp [adjustKids, first]
  | k :: ks => by
    simp only [adjustKids, first, adjust_isEl]
    split
    · simp
    · exact first_adjustKids N ea d b n ks

theorem kids_adjust_etext (N : Num) (ea : Bool) (d : Int) (b : Bool) (x : Xml) : etext (adjust N ea d b x).kids = etext x.kids ∨
    (∃ n as ks, x = .el n as ks ∧ (b && n == "offset") = true) := by
  cases x with
  | tx s => left; simp [adjust]
  | el n as ks =>
    by_cases hc : (b && n == "offset") = true
    · right; exact ⟨n, as, ks, rfl, hc⟩
    · left
      simp [adjust, hc, Xml.kids, etext_adjustKids]

/-- the `<size>` a signature element announces is not changed by shifting offsets (it is no `<data><offset>`) -/
theorem sizeOfSigEl_adjustKids (N : Num) (ea : Bool) (d : Int) (ks : List Xml) :
    sizeOfSigEl N (adjustKids N ea d false ks) = sizeOfSigEl N ks := by
  unfold sizeOfSigEl
  rw [first_adjustKids]
  cases h : first "size" ks with
  | none => simp
  | some se =>
    cases se with
    | tx s => simp [adjust, Xml.kids]
    | el n as c => simp [adjust, Xml.kids, etext_adjustKids]

theorem removeSigs_adjustKids (N : Num) (ea : Bool) (d : Int) : ∀ ks, removeSigs N (adjustKids N ea d false ks) =
    ((removeSigs N ks).1, adjustKids N ea d false (removeSigs N ks).2)
  | [] => by simp [adjustKids, removeSigs]
  | .tx s :: ks => by simp [adjustKids, adjust, removeSigs, removeSigs_adjustKids N ea d ks]
  | .el n as c :: ks => by
    have ih := removeSigs_adjustKids N ea d ks
    by_cases hs : isSigName n = true
    · have hd : (isRef ea n) = false := by
        simp only [isSigName, Bool.or_eq_true, decide_eq_true_eq] at hs
        rcases hs with (rfl | rfl) | rfl <;> exact isRef_false ea _ (by decide) (by decide)
      simp only [adjustKids, adjust, Bool.false_and, Bool.false_eq_true, ↓reduceIte, removeSigs, hs, ih, hd,
        sizeOfSigEl_adjustKids]
    · simp only [adjustKids, adjust, Bool.false_and, Bool.false_eq_true, ↓reduceIte, removeSigs, hs, ih]

theorem splitFirst_adjustKids (N : Num) (ea : Bool) (d : Int) (b : Bool) (n : String) : ∀ ks,
    splitFirst n (adjustKids N ea d b ks) =
      (splitFirst n ks).map fun r => (adjustKids N ea d b r.1, adjust N ea d b r.2.1, adjustKids N ea d b r.2.2)
  | [] => by simp [adjustKids, splitFirst]
  | k :: ks => by
    simp only [adjustKids, splitFirst, adjust_isEl]
    split
    · simp [adjustKids]
    · rw [splitFirst_adjustKids N ea d b n ks]
      cases splitFirst n ks <;> simp [adjustKids]

theorem splitFirst_eq (n : String) : ∀ ks pre t post, splitFirst n ks = some (pre, t, post) →
    ks = pre ++ t :: post ∧ t.isEl n = true ∧ ∀ k ∈ pre, k.isEl n = false
  | [], _, _, _, h => by simp [splitFirst] at h
  | k :: ks, pre, t, post, h => by
    simp only [splitFirst] at h
    split at h
    · rename_i hk
      simp only [Option.some.injEq, Prod.mk.injEq] at h
      obtain ⟨rfl, rfl, rfl⟩ := h
      simp [hk]
    · rename_i hk
      cases hs : splitFirst n ks with
      | none => simp [hs] at h
      | some r =>
        obtain ⟨p, t', q⟩ := r
        simp only [hs, Option.map_some, Option.some.injEq, Prod.mk.injEq] at h
        obtain ⟨rfl, rfl, rfl⟩ := h
        obtain ⟨e, ht, hp⟩ := splitFirst_eq n ks p t' q hs
        refine ⟨by rw [e]; rfl, ht, ?_⟩
        intro x hx
        simp only [List.mem_cons] at hx
        rcases hx with rfl | hx
        · simpa using hk
        · exact hp x hx

theorem splitFirst_build (n : String) : ∀ (pre : List Xml) (t : Xml) (post : List Xml), t.isEl n = true →
    (∀ k ∈ pre, k.isEl n = false) → splitFirst n (pre ++ t :: post) = some (pre, t, post)
  | [], t, post, ht, _ => by simp [splitFirst, ht]
  | k :: pre, t, post, ht, hp => by
    have hk : k.isEl n = false := hp k List.mem_cons_self
    simp [splitFirst, hk, splitFirst_build n pre t post ht fun x hx => hp x (List.mem_cons_of_mem _ hx)]

/-! ### the shift only matters modulo 2^64 -/

theorem w64_congr (a b : Int) (h : (a - b) % 2 ^ 64 = 0) (v : Int) : w64 (v + a) = w64 (v + b) := by
  unfold w64
  have : (v + a + 2 ^ 63) % 2 ^ 64 = (v + b + 2 ^ 63) % 2 ^ 64 := by
    have e : v + a + 2 ^ 63 = (v + b + 2 ^ 63) + (a - b) := by omega
    rw [e, Int.add_emod, h]
    simp
  omega

mutual
theorem adjust_congr (N : Num) (ea : Bool) (a b : Int) (h : ∀ v, w64 (v + a) = w64 (v + b)) (i : Bool) :
    ∀ x, adjust N ea a i x = adjust N ea b i x
  | .tx s => by simp [adjust]
  | .el n as ks => by
    simp only [adjust, adjustKids_congr N ea a b h (isRef ea n) ks, h]
theorem adjustKids_congr (N : Num) (ea : Bool) (a b : Int) (h : ∀ v, w64 (v + a) = w64 (v + b)) (i : Bool) :
    ∀ ks, adjustKids N ea a i ks = adjustKids N ea b i ks
  | [] => by simp [adjustKids]
  | k :: ks => by simp only [adjustKids, adjust_congr N ea a b h i k, adjustKids_congr N ea a b h i ks]
end

/-! ### the sizes of the new signature elements -/

/-- what the theorems need from the signing key: sizes that fit an int64 comfortably -/
def KeyInfo.small (ki : KeyInfo) : Prop := ki.derTotal < 2 ^ 32 ∧ ∀ n, ki.rsaSize = some n → n < 2 ^ 32

theorem HK.size_le (k : HK) : k.size ≤ 64 := by cases k <;> decide

theorem sizeOf_newSigElement (N : Num) (hN : N.Laws) (key style : String) (o sz : Int) (cs : Option (List String))
    (h : inI64 sz) : sizeOfSigEl N (newSigElement N key style o sz cs).kids = sz ∧
      (newSigElement N key style o sz cs) = .el key [("style", style)] (newSigElement N key style o sz cs).kids := by
  cases cs <;> simp [newSigElement, sizeOfSigEl, first, Xml.kids, etext, hN.rt sz h]

theorem removeSigs_reserve (N : Num) (hN : N.Laws) (hk : HK) (ki : KeyInfo) (hki : ki.small) :
    removeSigs N (reserve N hk ki).1 = ((reserve N hk ki).2, []) := by
  have hs := hk.size_le
  obtain ⟨hd, hr⟩ := hki
  have i1 : inI64 (hk.size : Int) := by unfold inI64; omega
  have i3 : inI64 (6144 + ki.derTotal : Int) := by unfold inI64; omega
  unfold reserve
  cases hrs : ki.rsaSize with
  | none =>
    simp only []
    obtain ⟨a1, b1⟩ := sizeOf_newSigElement N hN "checksum" hk.name 0 hk.size none i1
    obtain ⟨a3, b3⟩ := sizeOf_newSigElement N hN "x-signature" "CMS" hk.size (6144 + ki.derTotal) (some ki.certTexts) i3
    rw [b1, b3]
    simp only [removeSigs, isSigName, decide_true, Bool.or_true, Bool.true_or, ↓reduceIte]
    simp [a1, a3]
  | some n =>
    have hn := hr n hrs
    have i2 : inI64 (n : Int) := by unfold inI64; omega
    simp only []
    obtain ⟨a1, b1⟩ := sizeOf_newSigElement N hN "checksum" hk.name 0 hk.size none i1
    obtain ⟨a2, b2⟩ := sizeOf_newSigElement N hN "signature" "RSA" hk.size n (some ki.certTexts) i2
    obtain ⟨a3, b3⟩ := sizeOf_newSigElement N hN "x-signature" "CMS" (hk.size + n) (6144 + ki.derTotal) (some ki.certTexts) i3
    rw [b1, b2, b3]
    simp only [removeSigs, isSigName, decide_true, Bool.or_true, Bool.true_or, ↓reduceIte]
    simp [a1, a2, a3]
    omega

theorem reserve_size_bounds (N : Num) (hk : HK) (ki : KeyInfo) (hki : ki.small) :
    0 ≤ (reserve N hk ki).2 ∧ (reserve N hk ki).2 < 2 ^ 34 := by
  have hs := hk.size_le
  obtain ⟨hd, hr⟩ := hki
  unfold reserve
  cases hrs : ki.rsaSize with
  | none => simp only []; omega
  | some n => have := hr n hrs; simp only []; omega

/-! ### signing what `Sign` produced: the old signature leaves no trace in the new document -/

theorem isEl_true_iff (n : String) (x : Xml) : x.isEl n = true ↔ ∃ as ks, x = .el n as ks := by
  cases x with
  | tx s => simp
  | el m as ks =>
    simp only [isEl_el, beq_iff_eq, Xml.el.injEq]
    constructor
    · rintro rfl; exact ⟨as, ks, rfl, rfl, rfl⟩
    · rintro ⟨_, _, h, _, _⟩; exact h

/-- the explicit value of `prep` -/
theorem prep_some (N : Num) (hk : HK) (ki : KeyInfo) (t : Xml) (p : Prep) (h : prep N hk ki t = some p) :
    ∃ ras pre tas tks post, t = .el "xar" ras (pre ++ .el "toc" tas tks :: post) ∧ (∀ k ∈ pre, k.isEl "toc" = false) ∧
      p = ⟨.el "xar" ras (pre ++ .el "toc" tas ((reserve N hk ki).1 ++ (removeSigs N tks).2) :: post),
           w64 (removeSigs N tks).1, (reserve N hk ki).2⟩ := by
  cases t with
  | tx s => simp [prep] at h
  | el rn ras rks =>
    simp only [prep] at h
    split at h
    · cases h
    · rename_i hrn
      have hrn : rn = "xar" := by simpa using hrn
      subst hrn
      split at h
      · cases h
      · rename_i pre tocEl post hs
        obtain ⟨e, ht, hp⟩ := splitFirst_eq "toc" rks pre tocEl post hs
        obtain ⟨tas, tks, rfl⟩ := (isEl_true_iff "toc" tocEl).mp ht
        refine ⟨ras, pre, tas, tks, post, by rw [e], hp, ?_⟩
        simpa [Xml.kids, Xml.attrs] using h.symm

theorem prep_build (N : Num) (hk : HK) (ki : KeyInfo) (ras : List (String × String)) (pre : List Xml)
    (tas : List (String × String)) (tks post : List Xml) (hp : ∀ k ∈ pre, k.isEl "toc" = false) :
    prep N hk ki (.el "xar" ras (pre ++ .el "toc" tas tks :: post)) =
      some ⟨.el "xar" ras (pre ++ .el "toc" tas ((reserve N hk ki).1 ++ (removeSigs N tks).2) :: post),
            w64 (removeSigs N tks).1, (reserve N hk ki).2⟩ := by
  simp [prep, splitFirst_build "toc" pre (.el "toc" tas tks) post (by simp) hp, Xml.kids, Xml.attrs]

theorem adjust_doc (N : Num) (ea : Bool) (d : Int) (ras : List (String × String)) (pre : List Xml) (tas : List (String × String))
    (tks post : List Xml) :
    adjust N ea d false (.el "xar" ras (pre ++ .el "toc" tas tks :: post)) =
      .el "xar" ras (adjustKids N ea d false pre ++ .el "toc" tas (adjustKids N ea d false tks) :: adjustKids N ea d false post) := by
  have h1 := isRef_false ea "xar" (by decide) (by decide)
  have h2 := isRef_false ea "toc" (by decide) (by decide)
  simp [adjust, adjustKids_append, adjustKids_cons, h1, h2]

theorem isEl_adjustKids_false (N : Num) (ea : Bool) (d : Int) (b : Bool) (n : String) : ∀ (ks : List Xml), (∀ k ∈ ks, k.isEl n = false) →
    ∀ k ∈ adjustKids N ea d b ks, k.isEl n = false
  | [], _, k, hk => by simp [adjustKids] at hk
  | x :: xs, hp, k, hk => by
    simp only [adjustKids, List.mem_cons] at hk
    rcases hk with rfl | hk
    · rw [adjust_isEl]; exact hp x List.mem_cons_self
    · exact isEl_adjustKids_false N ea d b n xs (fun y hy => hp y (List.mem_cons_of_mem _ hy)) k hk

theorem w64_emod (x : Int) : (w64 x - x) % 2 ^ 64 = 0 := by
  unfold w64; omega

/-- **Re-signing at the level of documents.**  Let `Sign` with key 1 turn document `t` into `p1.tree`.  Running `Sign` with
    key 2 on that result finds exactly the space key 1 reserved as the old signature size, and serialises the very document
    it serialises when it is run on `t` directly: nothing of the first signature (elements, sizes, offset shift) is left. -/
theorem prep_resign (N : Num) (ea : Bool) (hN : N.Laws) (hk1 hk2 : HK) (ki1 ki2 : KeyInfo) (h1 : ki1.small) (t : Xml) (p1 p2 : Prep)
    (e1 : prep N hk1 ki1 t = some p1) (e2 : prep N hk2 ki2 t = some p2) :
    ∃ p2', prep N hk2 ki2 (p1.tree N ea) = some p2' ∧ p2'.origSig = p1.newSig ∧ p2'.newSig = p2.newSig ∧
      p2'.tree N ea = p2.tree N ea := by
  obtain ⟨ras, pre, tas, tks, post, rfl, hp, rfl⟩ := prep_some N hk1 ki1 t p1 e1
  rw [prep_build N hk2 ki2 ras pre tas tks post hp] at e2
  cases e2
  have hpre : ∀ d, ∀ k ∈ adjustKids N ea d false pre, k.isEl "toc" = false := fun d => isEl_adjustKids_false N ea d false "toc" pre hp
  have hb := reserve_size_bounds N hk1 ki1 h1
  have hrs : ∀ d, removeSigs N ((reserve N hk1 ki1).1 ++ adjustKids N ea d false (removeSigs N tks).2) =
      ((reserve N hk1 ki1).2, adjustKids N ea d false (removeSigs N tks).2) := by
    intro d
    rw [removeSigs_append, removeSigs_reserve N hN hk1 ki1 h1, removeSigs_adjustKids,
      removeSigs_nosig N _ (removeSigs_snd_nosig N tks)]
    simp
  have hprep : prep N hk2 ki2 (Prep.tree N ea ⟨.el "xar" ras (pre ++ .el "toc" tas ((reserve N hk1 ki1).1 ++ (removeSigs N tks).2) :: post),
      w64 (removeSigs N tks).1, (reserve N hk1 ki1).2⟩) = some ⟨.el "xar" ras
        (adjustKids N ea (w64 ((reserve N hk1 ki1).2 - w64 (removeSigs N tks).1)) false pre ++
          .el "toc" tas ((reserve N hk2 ki2).1 ++ adjustKids N ea (w64 ((reserve N hk1 ki1).2 - w64 (removeSigs N tks).1)) false (removeSigs N tks).2) ::
          adjustKids N ea (w64 ((reserve N hk1 ki1).2 - w64 (removeSigs N tks).1)) false post),
        w64 (reserve N hk1 ki1).2, (reserve N hk2 ki2).2⟩ := by
    simp only [Prep.tree, adjust_doc, adjustKids_append, adjustKids_noRef N ea _ _ (noRefL_reserve N ea hk1 ki1)]
    rw [prep_build N hk2 ki2 ras _ tas _ _ (hpre _), hrs]
  refine ⟨_, hprep, ?_, rfl, ?_⟩
  · simp only
    exact w64_id (by unfold inI64; omega)
  · simp only [Prep.tree, adjust_doc, adjustKids_append, adjustKids_noRef N ea _ _ (noRefL_reserve N ea hk2 ki2),
      adjustKids_adjustKids N ea hN]
    have hc : ∀ v, w64 (v + (w64 ((reserve N hk1 ki1).2 - w64 (removeSigs N tks).1) +
        w64 ((reserve N hk2 ki2).2 - w64 (reserve N hk1 ki1).2))) =
        w64 (v + w64 ((reserve N hk2 ki2).2 - w64 (removeSigs N tks).1)) := by
      intro v
      apply w64_congr
      have a := w64_emod ((reserve N hk1 ki1).2 - w64 (removeSigs N tks).1)
      have b := w64_emod ((reserve N hk2 ki2).2 - w64 (reserve N hk1 ki1).2)
      have c := w64_emod ((reserve N hk2 ki2).2 - w64 (removeSigs N tks).1)
      have d : w64 (reserve N hk1 ki1).2 = (reserve N hk1 ki1).2 := w64_id (by unfold inI64; omega)
      rw [d] at b ⊢
      omega
    rw [adjustKids_congr N ea _ _ hc false pre, adjustKids_congr N ea _ _ hc false post,
      adjustKids_congr N ea _ _ hc false (removeSigs N tks).2]

/-- the shift `Sign` applies depends on the old signature size only modulo 2^64 -/
theorem tree_congr (N : Num) (ea : Bool) (p : Prep) (s : Int) (h : p.origSig = w64 s) :
    adjust N ea (w64 (p.newSig - s)) false p.doc1 = p.tree N ea := by
  unfold Prep.tree
  apply adjust_congr
  apply w64_congr
  have a := w64_emod (p.newSig - s)
  have b := w64_emod (p.newSig - p.origSig)
  have c := w64_emod s
  rw [h] at b ⊢
  omega

theorem tocKids_build (ras : List (String × String)) (pre : List Xml) (tas : List (String × String)) (tks post : List Xml)
    (hp : ∀ k ∈ pre, k.isEl "toc" = false) : tocKids (.el "xar" ras (pre ++ .el "toc" tas tks :: post)) = some tks := by
  simp [tocKids, splitFirst_build "toc" pre (.el "toc" tas tks) post (by simp [Xml.isEl]) hp]

/-- the `<toc>` children of what `Sign` serialises: the old `removeSigs` sums exactly the reserved space over them -/
theorem tree_tocKids (N : Num) (ea : Bool) (hN : N.Laws) (hk : HK) (ki : KeyInfo) (hki : ki.small) (t : Xml) (p : Prep)
    (e : prep N hk ki t = some p) : ∃ tks', tocKids (p.tree N ea) = some tks' ∧ (removeSigs N tks').1 = p.newSig := by
  obtain ⟨ras, pre, tas, tks, post, rfl, hp, rfl⟩ := prep_some N hk ki t p e
  have hpre : ∀ d, ∀ k ∈ adjustKids N ea d false pre, k.isEl "toc" = false := fun d => isEl_adjustKids_false N ea d false "toc" pre hp
  refine ⟨(reserve N hk ki).1 ++ adjustKids N ea (w64 ((reserve N hk ki).2 - w64 (removeSigs N tks).1)) false (removeSigs N tks).2, ?_, ?_⟩
  · simp only [Prep.tree, adjust_doc, adjustKids_append, adjustKids_noRef N ea _ _ (noRefL_reserve N ea hk ki)]
    exact tocKids_build _ _ _ _ _ (hpre _)
  · rw [removeSigs_append, removeSigs_reserve N hN hk ki hki, removeSigs_adjustKids,
      removeSigs_nosig N _ (removeSigs_snd_nosig N tks)]
    simp

end Relic.Xar

"""C08 — see DESIGN.md section 5; format models: PE (more to come)."""
from composite import install
TIE = "corr:pe"
TIE_THEOREM = "Relic.Props.C08 (models Relic.Model.PE vs lib/authenticode)"
UNPROVED = []  # vsix_resign_total_full: proved (Props/C08_VsixTotal.lean vsix_resign_total); appx_resign_replaces_full: provable but vacuous as stated (appx_resign_replaces_vacuous), the meaningful statement is appx_resign_idempotent (Props/C08_AppxFull.lean)
IMPL_PARALLEL = 16
install(globals(), "C08", ["pe", "e2e", "cab", "ps", "jar", "apk", "ziprw", "xsig", "deb", "appx", "pgp", "macho", "vsix", "xap", "msisign", "dmg", "cosign", "xar", "csvfy", "rpm"])
UNPROVED += ['Relic.Props.C08.cat_history assumes every identity\'s output stays below 2^31 bytes (Fits) and a chain of DER certificates (Signer.WF); catalogs that were not signed by relic before are covered by cat_resign_preserves_content only through their first signing']


import csvfy as _csvfy  # Apple code signatures: PatchSignature arithmetic and signing histories (lean/Relic/Props/C08_MachOLinkedit.lean)
UNPROVED += _csvfy.UNPROVED_C08
UNPROVED += ['Relic.Props.C08.xar_history_full (that every later Sign call succeeds on relic\'s own output, for regular documents, keys whose blobs fit the 10^6 limit on a <size>, TOCs within Sign\'s own limits; the layout part is now decided by Sign itself and proved: xar_resign_layout_accepted (the reserved elements tile [0, newSig)), xar_sigarea_is_sum; still missing: the forward-only member check of Sign passes on the shifted heap whenever it passed on the original; proved with the success hypotheses: xar_history_partial, xar_resign_replaces; executed per hist op)']
import rpm as _rpm  # RPM signer (checklib/models/rpm.py; lean/Relic/Props/C08_Rpm.lean)
UNPROVED = list(UNPROVED) + _rpm.UNPROVED["C08"]

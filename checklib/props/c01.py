"""C01 — see DESIGN.md section 5; format models: PE (more to come)."""
from composite import install
TIE = "corr:pe"
TIE_THEOREM = "Relic.Props.C01 (models Relic.Model.PE vs lib/authenticode)"
UNPROVED = []
IMPL_PARALLEL = 16
install(globals(), "C01", ["pe", "e2e", "cab", "ps", "jar", "apk", "xsig", "apkv"])

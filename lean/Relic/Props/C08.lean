/-
  C08 — Re-signing replaces the signature; digests ignore existing signatures.
  PE/COFF part, over `Relic.Model.PE` (model of lib/authenticode/pedigest.go, pesign.go).
  Other formats add their theorems in `Relic/Props/C08_*.lean`.
-/
import Relic.Proofs.PESign
import Relic.Proofs.PEFrame
import Relic.Props.C12
namespace Relic.Props.C08
open Relic Relic.PE

/-- **pe_signed_file.** What `Sign → Apply` writes for a PE whose digest succeeded: the original with the
    certificate-table directory entry rewritten and (padding +) the new certificate table appended in
    place of any old one; obtained through the *real* patch path (`Add`, `Dump`-order, rewrite loop). -/
theorem pe_signed_file (f : Bytes) (d : Digest) (sig : Bytes) (ps : List Binpatch.Patch)
    (hp : 64 ≤ u32 f 0x3c) (e : DigestPE f = .ok d) (hm : makePatch d sig = .ok ps) (M : Nat) :
    Binpatch.applyRewrite f (Binpatch.build M ps) = .ok (signedBytes f d sig) := by
  have H := DigestPE_spec f d hp e
  rw [C12.add_spec M f ps (makePatch_constructible f d sig ps H hm), sem_makePatch f d sig ps H hm]

/-- **pe_digest_ignores_signature (partial).** The stream hashed for the signed file equals the stream
    hashed for the input, whenever the re-digest succeeds. -/
theorem pe_digest_ignores_signature_partial (f : Bytes) (d d' : Digest) (sig : Bytes) (hp : 64 ≤ u32 f 0x3c)
    (e : DigestPE f = .ok d) (hcs : d.certStart < 2 ^ 32) (hsig : 8 + ceil8 sig.length < 2 ^ 32)
    (e' : DigestPE (signedBytes f d sig) = .ok d') : d'.hashed = d.hashed :=
  (redigest_same_stream f d d' sig hp e hcs hsig e').1

/-- **pe_digest_ignores_signature.** The full statement, success of the re-digest included: for every file
    `DigestPE` accepts (with `e_lfanew ≥ 64`) and every signature blob `MakePatch` accepts, digesting the signed
    file succeeds and feeds the image hash exactly the stream hashed for the input.  (Success rests on the frame
    property of the header parser, `Relic.PE.readHeaders_frame`.) -/
theorem pe_digest_ignores_signature (f : Bytes) (d : Digest) (sig : Bytes) (hp : 64 ≤ u32 f 0x3c)
    (e : DigestPE f = .ok d) (hcs : d.certStart < 2 ^ 32) (hsig : 8 + ceil8 sig.length < 2 ^ 32) :
    ∃ d', DigestPE (signedBytes f d sig) = .ok d' ∧ d'.hashed = d.hashed := by
  obtain ⟨d', e'⟩ := DigestPE_signed_ok f d sig hp e hcs hsig
  exact ⟨d', e', (redigest_same_stream f d d' sig hp e hcs hsig e').1⟩

/-- **pe_resign_replaces.** Signing relic's own output again yields exactly what signing the original
    with the new signature yields: the earlier signature is gone, nothing else moved. -/
theorem pe_resign_replaces (f : Bytes) (d d' : Digest) (s1 s2 : Bytes) (hp : 64 ≤ u32 f 0x3c)
    (e : DigestPE f = .ok d) (hcs : d.certStart < 2 ^ 32) (hs1 : 8 + ceil8 s1.length < 2 ^ 32)
    (e' : DigestPE (signedBytes f d s1) = .ok d') :
    signedBytes (signedBytes f d s1) d' s2 = signedBytes f d s2 :=
  resign_replaces f d d' s1 s2 hp e hcs hs1 e'

/-- one signing round on the model: digest, build the patch, apply it -/
def signRound (f sig : Bytes) : Res Bytes :=
  match DigestPE f with
  | .ok d => match makePatch d sig with
    | .ok _ => .ok (signedBytes f d sig)
    | .err e => .err e
    | .panic p => .panic p
    | .diverge => .diverge
  | .err e => .err e
  | .panic p => .panic p
  | .diverge => .diverge

/-- **pe_history.** For every history of signing rounds `s₁ … sₙ` applied to relic's own output: as long as
    each round succeeds, the artifact after the last round is the original signed *once* with the last
    signature (so: one certificate table, original payload), whatever happened in between. -/
theorem pe_history (f : Bytes) (d : Digest) (hp : 64 ≤ u32 f 0x3c) (e : DigestPE f = .ok d)
    (hcs : d.certStart < 2 ^ 32) :
    ∀ (sigs : List Bytes) (cur : Bytes) (last : Bytes), cur = signedBytes f d last → 8 + ceil8 last.length < 2 ^ 32 →
      (∀ s ∈ sigs, 8 + ceil8 s.length < 2 ^ 32) →
      ∀ g, sigs.foldlM signRound cur = .ok g → g = signedBytes f d ((last :: sigs).getLast (by simp)) := by
  intro sigs
  induction sigs with
  | nil =>
    intro cur last hc _ _ g hg
    have : g = cur := by simpa [List.foldlM, pure] using hg.symm
    simp [this, hc]
  | cons s rest ih =>
    intro cur last hc hl hs g hg
    simp only [List.foldlM] at hg
    cases hr : signRound cur s with
    | ok nxt =>
      have hb : (signRound cur s >>= fun b => List.foldlM signRound b rest) = List.foldlM signRound nxt rest := by
        rw [hr]; rfl
      rw [hb] at hg
      -- the round on `cur = signedBytes f d last`
      unfold signRound at hr
      cases hd : DigestPE cur with
      | ok d' =>
        simp only [hd] at hr
        cases hmk : makePatch d' s with
        | ok ps =>
          simp only [hmk] at hr
          injection hr with hr
          subst hc
          have rr := resign_replaces f d d' last s hp e hcs hl hd
          rw [rr] at hr
          have := ih nxt s hr.symm (hs s (by simp)) (fun x hx => hs x (by simp [hx])) g hg
          rw [this]
          simp [List.getLast_cons]
        | err _ => simp [hmk] at hr
        | panic _ => simp [hmk] at hr
        | diverge => simp [hmk] at hr
      | err _ => simp [hd] at hr
      | panic _ => simp [hd] at hr
      | diverge => simp [hd] at hr
    | err x =>
      have : (signRound cur s >>= fun b => List.foldlM signRound b rest) = Res.err x := by rw [hr]; rfl
      rw [this] at hg; contradiction
    | panic x =>
      have : (signRound cur s >>= fun b => List.foldlM signRound b rest) = Res.panic x := by rw [hr]; rfl
      rw [this] at hg; contradiction
    | diverge =>
      have : (signRound cur s >>= fun b => List.foldlM signRound b rest) = Res.diverge := by rw [hr]; rfl
      rw [this] at hg; contradiction

/-- one more round on relic's own output always succeeds and replaces the signature -/
theorem signRound_signed (f : Bytes) (d : Digest) (last s : Bytes) (hp : 64 ≤ u32 f 0x3c) (e : DigestPE f = .ok d)
    (hcs : d.certStart < 2 ^ 32) (hl : 8 + ceil8 last.length < 2 ^ 32) :
    signRound (signedBytes f d last) s = .ok (signedBytes f d s) := by
  obtain ⟨d', e'⟩ := DigestPE_signed_ok f d last hp e hcs hl
  obtain ⟨_, _, c', _, _⟩ := redigest_same_stream f d d' last hp e hcs hl e'
  have rr := resign_replaces f d d' last s hp e hcs hl e'
  have hmk : ∃ ps, makePatch d' s = .ok ps := by
    unfold makePatch
    rw [if_neg (by omega)]
    exact ⟨_, rfl⟩
  obtain ⟨ps, hmk⟩ := hmk
  unfold signRound
  rw [e']
  simp only [hmk, rr]

/-- **pe_history_total.** Every history of signing rounds `s₁ … sₙ` applied to relic's own output *succeeds*, and
    the artifact after the last round is the original signed once with the last signature. -/
theorem pe_history_total (f : Bytes) (d : Digest) (hp : 64 ≤ u32 f 0x3c) (e : DigestPE f = .ok d)
    (hcs : d.certStart < 2 ^ 32) :
    ∀ (sigs : List Bytes) (last : Bytes), 8 + ceil8 last.length < 2 ^ 32 →
      (∀ s ∈ sigs, 8 + ceil8 s.length < 2 ^ 32) →
      sigs.foldlM signRound (signedBytes f d last) = .ok (signedBytes f d ((last :: sigs).getLast (by simp))) := by
  intro sigs
  induction sigs with
  | nil => intro last _ _; rfl
  | cons s rest ih =>
    intro last hl hs
    rw [List.foldlM_cons, signRound_signed f d last s hp e hcs hl]
    have := ih s (hs s (by simp)) (fun x hx => hs x (by simp [hx]))
    rw [List.getLast_cons (by simp)]
    exact this

/-! ### non-vacuity -/

/-- a minimal PE32 image: DOS header (`e_lfanew = 64`), COFF header without sections, 224-byte optional
    header with 16 data directories, `SizeOfHeaders = 312`, 3 bytes of overlay -/
def minimalPE : Bytes :=
  [0x4d, 0x5a] ++ List.replicate 58 0 ++ [64, 0, 0, 0] ++
  [0x50, 0x45, 0, 0] ++ [0x4c, 0x01, 0, 0] ++ List.replicate 12 0 ++ [224, 0] ++ [0, 0] ++
  [0x0b, 0x01] ++ List.replicate 58 0 ++ [0x38, 0x01, 0, 0] ++ List.replicate 28 0 ++ [16, 0, 0, 0] ++
  List.replicate 128 0 ++ [1, 2, 3]

/-- digest succeeds, signing succeeds, the signed file digests again and its signature (zero-padded to 8,
    as `MakePatch` stores it) is located; a second round replaces it -/
def minimalPE_ok : Bool :=
  match DigestPE minimalPE with
  | .ok d => d.origSize == 315 && d.certStart == 320 &&
      (match signRound minimalPE [9, 9, 9] with
       | .ok g => (DigestPE g).isOk && (locate g == .ok [[9, 9, 9, 0, 0, 0, 0, 0]]) &&
           (match signRound g [7] with | .ok g2 => locate g2 == .ok [[7, 0, 0, 0, 0, 0, 0, 0]] | _ => false)
       | _ => false)
  | _ => false

set_option maxRecDepth 100000 in
example : 64 ≤ u32 minimalPE 0x3c ∧ minimalPE_ok = true := by decide

/-- the hypotheses of `pe_digest_ignores_signature` / `pe_history_total` hold for `minimalPE` and a 3-byte blob -/
def minimalPE_hyps : Bool :=
  match DigestPE minimalPE with
  | .ok d => decide (d.certStart < 2 ^ 32) && decide (8 + ceil8 [9, 9, 9].length < 2 ^ 32)
  | _ => false

set_option maxRecDepth 100000 in
example : minimalPE_hyps = true := by decide

end Relic.Props.C08

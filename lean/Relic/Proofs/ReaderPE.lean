/-
  Relic.Proofs.ReaderPE — the reader program `digestPE pg`, run on a whole file, is the whole-buffer model
  `Relic.PE.DigestPE` (sizes, markers, bytes hashed) and, with page hashes, `Relic.PE.pageHashInputs`.
-/
import Relic.Proofs.ReaderFlat
namespace Relic.Rd
open Relic
open Relic.PE (seg seg_length seg_append seg_self u16 u32 Section Markers rawSections fixSections gapOf pageChunks
  readSectionData readHeaders Headers)

/-! ### pages -/

/-- one entry of the page-hash table: (offset label, page padded with zeroes) -/
def pageOf (f : Bytes) (ps : Nat) (c : Nat × Nat × Nat) : Nat × Bytes :=
  (c.1, seg f c.2.1 (c.2.1 + c.2.2) ++ List.replicate (ps - c.2.2) 0)

/-- `h.lastPage` after the chunks `cs` (unchanged when there are none) -/
def lastOf (cs : List (Nat × Nat × Nat)) (dflt : Nat) : Nat :=
  match cs.getLast? with
  | some (pos, _, n) => (pos + n) % 2 ^ 32
  | none => dflt

theorem lastOf_nil (d : Nat) : lastOf [] d = d := rfl

theorem lastOf_append (a b : List (Nat × Nat × Nat)) (d : Nat) : lastOf (a ++ b) d = lastOf b (lastOf a d) := by
  unfold lastOf
  cases hb : b.getLast? with
  | some x =>
    have : (a ++ b).getLast? = some x := by
      rw [List.getLast?_append, hb]; rfl
    rw [this]
  | none =>
    have hbn : b = [] := List.getLast?_eq_none_iff.mp hb
    subst hbn
    simp

theorem lastOf_cons (c : Nat × Nat × Nat) (r : List (Nat × Nat × Nat)) (d : Nat) :
    lastOf (c :: r) d = lastOf r ((c.1 + c.2.2) % 2 ^ 32) := by
  have := lastOf_append [c] r d
  simp only [List.singleton_append] at this
  rw [this]
  rfl

theorem pageChunks_zero (ps pos phys : Nat) : pageChunks ps pos phys 0 = [] := by
  rw [pageChunks]; simp

theorem pageChunks_pos (ps pos phys rem : Nat) (hps : 0 < ps) (hr : 0 < rem) :
    pageChunks ps pos phys rem =
      (pos % 2 ^ 32, phys, (if rem > ps then ps else rem)) ::
        pageChunks ps (pos + (if rem > ps then ps else rem)) (phys + (if rem > ps then ps else rem))
          (rem - (if rem > ps then ps else rem)) := by
  rw [pageChunks]
  simp [hps, hr]

theorem obs_pageLoop {α} (f : Bytes) (ps fuel pos phys rem : Nat) (acc : List (Nat × Bytes)) (last : Nat)
    (k : List (Nat × Bytes) → Nat → Prog α) (hps : 0 < ps) (hfuel : rem ≤ fuel) (hphys : phys ≤ f.length) :
    obs (runFlat (pageLoop ps fuel pos rem acc last k) (at_ f phys)) =
      if phys + rem ≤ f.length then
        pre hashSink (seg f phys (phys + rem))
          (obs (runFlat (k (acc ++ (pageChunks ps pos phys rem).map (pageOf f ps)) (lastOf (pageChunks ps pos phys rem) last))
            (at_ f (phys + rem))))
      else .err "eof" := by
  induction fuel generalizing pos phys rem acc last with
  | zero =>
    have : rem = 0 := by omega
    subst this
    simp only [pageLoop, Nat.add_zero, hphys, ↓reduceIte, pageChunks_zero, List.map_nil, List.append_nil, lastOf_nil,
      seg_self, pre_nil]
  | succ fuel ih =>
    simp only [pageLoop]
    by_cases hr : 0 < rem
    · have hc : 0 < ps ∧ 0 < rem := ⟨hps, hr⟩
      rw [if_pos hc]
      generalize hn : (if rem > ps then ps else rem) = n
      have hn1 : 0 < n := by rw [← hn]; split <;> omega
      have hn2 : n ≤ rem := by rw [← hn]; split <;> omega
      rw [obs_readFullE f phys n _ hphys]
      by_cases h1 : phys + n ≤ f.length
      · rw [if_pos h1, obs_emit, ih (pos + n) (phys + n) (rem - n) _ _ (by omega) h1]
        have e : phys + n + (rem - n) = phys + rem := by omega
        rw [e]
        by_cases h2 : phys + rem ≤ f.length
        · rw [if_pos h2, if_pos h2, pre_pre_same, seg_append f phys (phys + n) (phys + rem) (by omega) (by omega)]
          rw [pageChunks_pos ps pos phys rem hps hr, hn]
          simp only [List.map_cons, lastOf_cons, List.append_assoc, List.singleton_append]
          have : (pos % 2 ^ 32 + n) % 2 ^ 32 = (pos + n) % 2 ^ 32 := by omega
          rw [this]
          rfl
        · rw [if_neg h2, if_neg h2]; rfl
      · rw [if_neg h1]
        have h2 : ¬ phys + rem ≤ f.length := by omega
        rw [if_neg h2]
    · have hr0 : rem = 0 := by omega
      subst hr0
      have hc : ¬ (0 < ps ∧ 0 < 0) := by omega
      rw [if_neg hc]
      simp only [Nat.add_zero, hphys, ↓reduceIte, pageChunks_zero, List.map_nil, List.append_nil, lastOf_nil, seg_self,
        pre_nil]

/-! ### sections -/

/-- all page chunks of the section extents -/
def chunksOf (ps : Nat) (ex : List (Nat × Nat × Nat)) : List (Nat × Nat × Nat) :=
  ex.flatMap fun e => pageChunks ps e.1 e.2.1 e.2.2

theorem readSectionData_bounds (flen : Nat) (ss : List Section) (i cur next c n : Nat) (ex : List (Nat × Nat × Nat))
    (hcur : cur ≤ flen) (h : readSectionData flen ss i cur next = .ok (c, n, ex)) : cur ≤ c ∧ c ≤ flen := by
  induction ss generalizing i cur next c n ex with
  | nil =>
    simp only [readSectionData, Res.ok.injEq, Prod.mk.injEq] at h
    omega
  | cons s rest ih =>
    simp only [readSectionData] at h
    by_cases h0 : s.size = 0
    · rw [if_pos h0] at h
      exact ih _ _ _ _ _ _ hcur h
    · rw [if_neg h0] at h
      by_cases h1 : s.ptr ≠ next
      · rw [if_pos h1] at h; cases h
      · rw [if_neg h1] at h
        by_cases h2 : flen < cur + s.size
        · rw [if_pos h2] at h; cases h
        · rw [if_neg h2] at h
          cases hr : readSectionData flen rest (i + 1) (cur + s.size) (next + s.size) with
          | ok v =>
            obtain ⟨c', n', ex'⟩ := v
            simp only [hr, Res.ok.injEq, Prod.mk.injEq] at h
            have := ih _ _ _ _ _ _ (by omega) hr
            omega
          | err e => simp [hr] at h
          | panic p => simp [hr] at h
          | diverge => simp [hr] at h

theorem readSectionData_ne_panic (flen : Nat) (ss : List Section) (i cur next : Nat) (p : String) :
    readSectionData flen ss i cur next ≠ .panic p := by
  induction ss generalizing i cur next p with
  | nil => simp [readSectionData]
  | cons s rest ih =>
    simp only [readSectionData]
    by_cases h0 : s.size = 0
    · rw [if_pos h0]; exact ih _ _ _ _
    · rw [if_neg h0]
      by_cases h1 : s.ptr ≠ next
      · rw [if_pos h1]; simp
      · rw [if_neg h1]
        by_cases h2 : flen < cur + s.size
        · rw [if_pos h2]; simp
        · rw [if_neg h2]
          cases hr : readSectionData flen rest (i + 1) (cur + s.size) (next + s.size) with
          | ok v => simp
          | err e => simp
          | panic q => exact absurd hr (ih _ _ _ _)
          | diverge => simp

theorem readSectionData_mono (flen : Nat) (ss : List Section) (i cur next c n : Nat) (ex : List (Nat × Nat × Nat))
    (hcur : cur ≤ flen) (h : readSectionData flen ss i cur next = .ok (c, n, ex)) : cur ≤ c :=
  (readSectionData_bounds flen ss i cur next c n ex hcur h).1

/-- the section loop reads what `readSectionData` says it reads -/
theorem obs_peSections {α} (f : Bytes) (pg : Bool) (ps : Nat) (ss : List Section) (i cur next : Nat)
    (acc : List (Nat × Bytes)) (last : Nat) (k : Nat → List (Nat × Bytes) → Nat → Prog α)
    (hps : 0 < ps) (hcur : cur ≤ f.length) :
    obs (runFlat (peSections pg ps ss next acc last k) (at_ f cur)) =
      match readSectionData f.length ss i cur next with
      | .ok (c, n, ex) =>
        pre hashSink (seg f cur c)
          (obs (runFlat (k n (if pg then acc ++ (chunksOf ps ex).map (pageOf f ps) else acc)
              (if pg then lastOf (chunksOf ps ex) last else last)) (at_ f c)))
      | .err e => .err e
      | .panic p => .panic p
      | .diverge => .diverge := by
  induction ss generalizing i cur next acc last with
  | nil =>
    simp only [peSections, readSectionData, chunksOf, List.flatMap_nil, List.map_nil, List.append_nil, lastOf_nil,
      seg_self, pre_nil, ite_self]
  | cons s rest ih =>
    simp only [peSections, readSectionData]
    by_cases h0 : s.size = 0
    · rw [if_pos h0, if_pos h0]
      exact ih (i + 1) cur next acc last hcur
    · rw [if_neg h0, if_neg h0]
      by_cases h1 : s.ptr ≠ next
      · rw [if_pos h1, if_pos h1]; rfl
      · rw [if_neg h1, if_neg h1]
        have tailEq : ∀ (acc' : List (Nat × Bytes)) (last' : Nat) (hacc : pg = false → acc' = acc ∧ last' = last)
            (hacc2 : pg = true → acc' = acc ++ (pageChunks ps s.ptr cur s.size).map (pageOf f ps) ∧
              last' = lastOf (pageChunks ps s.ptr cur s.size) last) (hfit : cur + s.size ≤ f.length),
            pre hashSink (seg f cur (cur + s.size))
              (obs (runFlat (peSections pg ps rest (next + s.size) acc' last' k) (at_ f (cur + s.size)))) =
            match (match readSectionData f.length rest (i + 1) (cur + s.size) (next + s.size) with
              | .ok (c, n, ex) => Res.ok (c, n, (s.ptr, cur, s.size) :: ex)
              | e => e) with
            | .ok (c, n, ex) =>
              pre hashSink (seg f cur c)
                (obs (runFlat (k n (if pg then acc ++ (chunksOf ps ex).map (pageOf f ps) else acc)
                    (if pg then lastOf (chunksOf ps ex) last else last)) (at_ f c)))
            | .err e => .err e
            | .panic p => .panic p
            | .diverge => .diverge := by
          intro acc' last' hacc hacc2 hfit
          rw [ih (i + 1) (cur + s.size) (next + s.size) acc' last' hfit]
          cases hr : readSectionData f.length rest (i + 1) (cur + s.size) (next + s.size) with
          | ok v =>
            obtain ⟨c, n, ex⟩ := v
            have hm := readSectionData_mono _ _ _ _ _ _ _ _ hfit hr
            simp only
            rw [pre_pre_same, seg_append f cur (cur + s.size) c (by omega) hm]
            cases pg with
            | false =>
              obtain ⟨e1, e2⟩ := hacc rfl
              subst e1; subst e2
              rfl
            | true =>
              obtain ⟨e1, e2⟩ := hacc2 rfl
              subst e1; subst e2
              simp only [↓reduceIte, chunksOf, List.flatMap_cons, List.map_append, List.append_assoc, lastOf_append]
          | err e => rfl
          | panic p => rfl
          | diverge => rfl
        by_cases h2 : f.length < cur + s.size
        · rw [if_pos h2]
          cases pg with
          | true =>
            simp only [↓reduceIte]
            rw [obs_pageLoop f ps s.size s.ptr cur s.size acc last _ hps (Nat.le_refl _) hcur]
            rw [if_neg (by omega)]
          | false =>
            simp only [Bool.false_eq_true, ↓reduceIte]
            rw [obs_copyNTo f cur s.size _ _ _ hcur, if_neg h0, if_neg (by omega)]
        · rw [if_neg h2]
          have hfit : cur + s.size ≤ f.length := by omega
          cases pg with
          | true =>
            simp only [↓reduceIte]
            rw [obs_pageLoop f ps s.size s.ptr cur s.size acc last _ hps (Nat.le_refl _) hcur, if_pos hfit]
            exact tailEq _ _ (fun h => by cases h) (fun _ => ⟨rfl, rfl⟩) hfit
          | false =>
            simp only [Bool.false_eq_true, ↓reduceIte]
            rw [obs_copyNTo f cur s.size _ _ _ hcur, if_neg h0, if_pos hfit]
            exact tailEq _ _ (fun _ => ⟨rfl, rfl⟩) (fun h => by cases h) hfit

/-! ### headers -/

theorem rawSections_seg (f : Bytes) (a b t n : Nat) (h : t + 40 * n ≤ b - a) (hb : b ≤ f.length) :
    rawSections (seg f a b) t n = rawSections f (a + t) n := by
  induction n generalizing t with
  | zero => rfl
  | succ n ih =>
    simp only [rawSections]
    rw [u32_seg f a b (t + 20) (by omega) hb, u32_seg f a b (t + 16) (by omega) hb, ih (t + 40) (by omega)]
    simp only [Nat.add_assoc]

theorem fixSections_panic (secTblEnd fa : Nat) (ss : List Section) (soh : Nat) (p : String)
    (h : fixSections secTblEnd fa ss soh = .panic p) : p = "align32:divide-by-zero" := by
  induction ss generalizing soh with
  | nil => simp [fixSections] at h
  | cons s rest ih =>
    simp only [fixSections] at h
    split at h
    · split at h <;> try contradiction
      rename_i heq
      injection h with h; subst h
      exact ih _ heq
    · split at h
      · contradiction
      · split at h
        · contradiction
        · split at h
          · injection h with h; exact h.symm
          · split at h <;> try contradiction
            rename_i heq
            injection h with h; subst h
            exact ih _ heq

/-- the repaired code returns these errors where the model of the original code records a panic -/
def guardP (p : String) : String := if p = "readOptHeader:buf[:2]" then "eof" else "filealign-zero"

theorem int_sub_cast (a b : Nat) (h : b ≤ a) : (a : Int) - (b : Int) = ((a - b : Nat) : Int) := by omega

theorem obs_peHeaders {α} (f : Bytes) (k : PEHdr → Prog α) :
    obs (runFlat (peHeaders k) (at_ f 0)) =
      match readHeaders f with
      | .ok h => obs (runFlat (k ⟨h.m, h.sections, h.hashed⟩) (at_ f h.cur))
      | .err e => .err e
      | .panic p => .err (guardP p)
      | .diverge => .diverge := by
  unfold peHeaders readHeaders
  rw [obs_readAndHash f 0 64 _ (Nat.zero_le _)]
  by_cases h64 : 0 + 64 ≤ f.length
  case neg =>
    have hlt : f.length < 64 := by omega
    simp only [h64, hlt, ↓reduceIte]
  have hnl_h64 : ¬ f.length < 64 := by omega
  simp only [h64, hnl_h64, ↓reduceIte]
  have h64' : 64 ≤ f.length := by omega
  simp only [Nat.zero_add]
  have eMZ : seg (seg f 0 64) 0 2 = seg f 0 2 := by have := seg_seg f 0 64 0 2 (by omega) h64'; simpa using this
  have ePE : u32 (seg f 0 64) 0x3c = u32 f 0x3c := by have := u32_seg f 0 64 0x3c (by omega) h64'; simpa using this
  rw [eMZ, ePE]
  by_cases hmz : seg f 0 2 ≠ [0x4d, 0x5a]
  · rw [if_pos hmz, if_pos hmz]; rfl
  rw [if_neg hmz, if_neg hmz]
  generalize hP : u32 f 0x3c = P
  -- position after the stub
  have hpad : ∀ (k2 : Bytes → Prog α),
      obs (runFlat (copyN ((P : Int) - 64) schedReadAll k2) (at_ f 64)) =
        if (if 64 ≤ P then P else 64) ≤ f.length then
          obs (runFlat (k2 (seg f 64 (if 64 ≤ P then P else 64))) (at_ f (if 64 ≤ P then P else 64)))
        else .err "eof" := by
    intro k2
    by_cases hp : 64 ≤ P
    · have e : (P : Int) - 64 = ((P - 64 : Nat) : Int) := by omega
      rw [e, obs_copyN f 64 (P - 64) _ _ h64']
      have : 64 + (P - 64) = P := by omega
      simp only [hp, ↓reduceIte, this]
    · rw [obs_copyN_neg _ (by omega)]
      simp only [hp, ↓reduceIte, h64', seg_self]
  rw [hpad]
  generalize hc0 : (if 64 ≤ P then P else 64) = c0
  have hc0ge : 64 ≤ c0 := by rw [← hc0]; split <;> omega
  by_cases hl0 : c0 ≤ f.length
  case neg =>
    have hlt : f.length < c0 := by omega
    simp only [hl0, hlt, ↓reduceIte]
  have hnl_hl0 : ¬ f.length < c0 := by omega
  simp only [hl0, hnl_hl0, ↓reduceIte]
  rw [obs_readAndHash f c0 4 _ hl0]
  by_cases hl4 : c0 + 4 ≤ f.length
  case neg =>
    have hlt : f.length < c0 + 4 := by omega
    simp only [hl4, hlt, ↓reduceIte]
  have hnl_hl4 : ¬ f.length < c0 + 4 := by omega
  simp only [hl4, hnl_hl4, ↓reduceIte]
  by_cases hpe : seg f c0 (c0 + 4) ≠ [0x50, 0x45, 0, 0]
  · rw [if_pos hpe, if_pos hpe]; rfl
  rw [if_neg hpe, if_neg hpe]
  rw [obs_readAndHash f (c0 + 4) 20 _ hl4]
  have e24 : c0 + 4 + 20 = c0 + 24 := by omega
  rw [e24]
  by_cases hl24 : c0 + 24 ≤ f.length
  case neg =>
    have hlt : f.length < c0 + 24 := by omega
    simp only [hl24, hlt, ↓reduceIte]
  have hnl_hl24 : ¬ f.length < c0 + 24 := by omega
  simp only [hl24, hnl_hl24, ↓reduceIte]
  have eM : u16 (seg f (c0 + 4) (c0 + 24)) 0 = u16 f (c0 + 4) := by
    have := u16_seg f (c0 + 4) (c0 + 24) 0 (by omega) hl24; simpa using this
  have eN : u16 (seg f (c0 + 4) (c0 + 24)) 2 = u16 f (c0 + 6) := by
    have := u16_seg f (c0 + 4) (c0 + 24) 2 (by omega) hl24; simpa [Nat.add_assoc] using this
  have eS : u16 (seg f (c0 + 4) (c0 + 24)) 16 = u16 f (c0 + 20) := by
    have := u16_seg f (c0 + 4) (c0 + 24) 16 (by omega) hl24; simpa [Nat.add_assoc] using this
  simp only [eM, eN, eS]
  generalize hS : u16 f (c0 + 20) = S
  generalize hN : u16 f (c0 + 6) = N
  generalize hMach : u16 f (c0 + 4) = Mach
  rw [obs_readFullE f (c0 + 24) S _ hl24]
  by_cases hlS : c0 + 24 + S ≤ f.length
  case neg =>
    have hlt : f.length < c0 + 24 + S := by omega
    simp only [hlS, hlt, ↓reduceIte]
  have hnl_hlS : ¬ f.length < c0 + 24 + S := by omega
  simp only [hlS, hnl_hlS, ↓reduceIte]
  by_cases hS2 : S < 2
  · rw [if_pos hS2, if_pos hS2]; rfl
  rw [if_neg hS2, if_neg hS2]
  have eMag : u16 (seg f (c0 + 24) (c0 + 24 + S)) 0 = u16 f (c0 + 24) := by
    have := u16_seg f (c0 + 24) (c0 + 24 + S) 0 (by omega) hlS; simpa using this
  rw [eMag]
  generalize hvar : (if u16 f (c0 + 24) = 0x10b then some ((224 : Nat), (92 : Nat), (128 : Nat))
    else if u16 f (c0 + 24) = 0x20b then some (240, 108, 144) else none) = variant
  have hvar_ok : ∀ need nrva dd4, variant = some (need, nrva, dd4) → nrva + 4 ≤ need ∧ dd4 + 8 ≤ need ∧ 64 ≤ need ∧ 68 ≤ dd4 := by
    intro need nrva dd4 hv
    rw [← hvar] at hv
    split at hv
    · injection hv with hv; injection hv with a b; injection b with b c; omega
    · split at hv
      · injection hv with hv; injection hv with a b; injection b with b c; omega
      · cases hv
  cases variant with
  | none => rfl
  | some v =>
    obtain ⟨need, nrva, dd4⟩ := v
    obtain ⟨hv1, hv2, hv3, hv4⟩ := hvar_ok need nrva dd4 rfl
    simp only
    by_cases hneed : S < need
    · rw [if_pos hneed, if_pos hneed]; rfl
    rw [if_neg hneed, if_neg hneed]
    have eOpt : ∀ off, off + 4 ≤ S → u32 (seg f (c0 + 24) (c0 + 24 + S)) off = u32 f (c0 + 24 + off) :=
      fun off ho => u32_seg f (c0 + 24) (c0 + 24 + S) off (by omega) hlS
    rw [eOpt nrva (by omega), eOpt dd4 (by omega), eOpt (dd4 + 4) (by omega), eOpt 60 (by omega), eOpt 36 (by omega)]
    by_cases hroom : u32 f (c0 + 24 + nrva) < 5
    · rw [if_pos hroom, if_pos hroom]; rfl
    rw [if_neg hroom, if_neg hroom]
    by_cases hov : u32 f (c0 + 24 + 60) < P + 24 + S + N * 40
    · rw [if_pos hov, if_pos hov]; rfl
    rw [if_neg hov, if_neg hov]
    rw [obs_readAndHash f (c0 + 24 + S) (N * 40) _ hlS]
    by_cases hlT : c0 + 24 + S + N * 40 ≤ f.length
    case neg =>
      have hlt : f.length < c0 + 24 + S + N * 40 := by omega
      simp only [hlT, hlt, ↓reduceIte]
    have hnl_hlT : ¬ f.length < c0 + 24 + S + N * 40 := by omega
    simp only [hlT, hnl_hlT, ↓reduceIte]
    have eRaw : rawSections (seg f (c0 + 24 + S) (c0 + 24 + S + N * 40)) 0 N = rawSections f (c0 + 24 + S) N := by
      have := rawSections_seg f (c0 + 24 + S) (c0 + 24 + S + N * 40) 0 N (by omega) hlT
      simpa using this
    rw [eRaw]
    cases hfix : fixSections (P + 24 + S + N * 40) (u32 f (c0 + 24 + 36)) (rawSections f (c0 + 24 + S) N)
        (u32 f (c0 + 24 + 60)) with
    | err e => rfl
    | panic p =>
      -- the only panic of fixSections is align32's
      have := fixSections_panic _ _ _ _ _ hfix
      subst this
      rfl
    | diverge => rfl
    | ok v =>
      obtain ⟨sections, sizeOfHdr⟩ := v
      simp only
      have hge := PE.fixSections_ge _ _ _ _ _ _ hfix (by omega)
      rw [int_sub_cast sizeOfHdr (P + 24 + S + N * 40) hge, obs_copyN f _ _ _ _ hlT]
      by_cases hl4 : c0 + 24 + S + N * 40 + (sizeOfHdr - (P + 24 + S + N * 40)) ≤ f.length
      case neg =>
        have hlt : f.length < c0 + 24 + S + N * 40 + (sizeOfHdr - (P + 24 + S + N * 40)) := by omega
        simp only [hl4, hlt, ↓reduceIte]
      have hnl4 : ¬ f.length < c0 + 24 + S + N * 40 + (sizeOfHdr - (P + 24 + S + N * 40)) := by omega
      simp only [hl4, hnl4, ↓reduceIte]
      -- the record handed to the continuation
      have hhash : seg f 0 64 ++ seg f 64 c0 ++ seg f c0 (c0 + 4) ++ seg f (c0 + 4) (c0 + 24) ++
            ((seg f (c0 + 24) (c0 + 24 + S)).take 64 ++ seg (seg f (c0 + 24) (c0 + 24 + S)) 68 dd4 ++
              (seg f (c0 + 24) (c0 + 24 + S)).drop (dd4 + 8)) ++
            seg f (c0 + 24 + S) (c0 + 24 + S + N * 40) ++
            seg f (c0 + 24 + S + N * 40) (c0 + 24 + S + N * 40 + (sizeOfHdr - (P + 24 + S + N * 40))) =
          seg f 0 (c0 + 24 + 64) ++ seg f (c0 + 24 + 68) (c0 + 24 + dd4) ++
            seg f (c0 + 24 + dd4 + 8) (c0 + 24 + S + N * 40 + (sizeOfHdr - (P + 24 + S + N * 40))) := by
        have t1 : (seg f (c0 + 24) (c0 + 24 + S)).take 64 = seg f (c0 + 24) (c0 + 24 + 64) := by
          have := seg_seg f (c0 + 24) (c0 + 24 + S) 0 64 (by omega) hlS
          rw [seg_zero_take] at this; simpa using this
        have t2 : seg (seg f (c0 + 24) (c0 + 24 + S)) 68 dd4 = seg f (c0 + 24 + 68) (c0 + 24 + dd4) :=
          seg_seg f (c0 + 24) (c0 + 24 + S) 68 dd4 (by omega) hlS
        have t3 : (seg f (c0 + 24) (c0 + 24 + S)).drop (dd4 + 8) = seg f (c0 + 24 + dd4 + 8) (c0 + 24 + S) := by
          have hl := seg_length f (c0 + 24) (c0 + 24 + S) hlS
          have := seg_seg f (c0 + 24) (c0 + 24 + S) (dd4 + 8) S (by omega) hlS
          have e2 : seg (seg f (c0 + 24) (c0 + 24 + S)) (dd4 + 8) S = (seg f (c0 + 24) (c0 + 24 + S)).drop (dd4 + 8) := by
            unfold seg
            rw [List.take_of_length_le]
            simp only [List.length_drop, List.length_take]
            omega
          rw [← e2, this]
          congr 1
        rw [t1, t2, t3]
        rw [seg_append f 0 64 c0 (by omega) (by omega), seg_append f 0 c0 (c0 + 4) (by omega) (by omega),
          seg_append f 0 (c0 + 4) (c0 + 24) (by omega) (by omega)]
        simp only [← List.append_assoc]
        rw [seg_append f 0 (c0 + 24) (c0 + 24 + 64) (by omega) (by omega)]
        simp only [List.append_assoc]
        rw [seg_append f (c0 + 24 + S) (c0 + 24 + S + N * 40) _ (by omega) (by omega),
          seg_append f (c0 + 24 + dd4 + 8) (c0 + 24 + S) _ (by omega) (by omega)]
      simp only [hhash]
      rfl

def HdrFacts (f : Bytes) (r : Res Headers) : Prop :=
  match r with
  | .ok h => h.cur ≤ f.length ∧ 0 < h.m.pageSize
  | _ => True

theorem readHeaders_facts (f : Bytes) : HdrFacts f (readHeaders f) := by
  unfold readHeaders
  by_cases c1 : f.length < 64
  · simp only [c1, ↓reduceIte]; trivial
  simp only [c1, ↓reduceIte]
  by_cases c2 : seg f 0 2 ≠ [77, 90]
  · rw [if_pos c2]; trivial
  rw [if_neg c2]
  generalize u32 f 0x3c = P
  generalize (if 64 ≤ P then P else 64) = c0
  by_cases c3 : f.length < c0
  · simp only [c3, ↓reduceIte]; trivial
  simp only [c3, ↓reduceIte]
  by_cases c4 : f.length < c0 + 4
  · simp only [c4, ↓reduceIte]; trivial
  simp only [c4, ↓reduceIte]
  by_cases c5 : seg f c0 (c0 + 4) ≠ [80, 69, 0, 0]
  · rw [if_pos c5]; trivial
  rw [if_neg c5]
  by_cases c6 : f.length < c0 + 24
  · simp only [c6, ↓reduceIte]; trivial
  simp only [c6, ↓reduceIte]
  generalize u16 f (c0 + 20) = S
  generalize u16 f (c0 + 6) = N
  by_cases c7 : f.length < c0 + 24 + S
  · simp only [c7, ↓reduceIte]; trivial
  simp only [c7, ↓reduceIte]
  by_cases c8 : S < 2
  · simp only [c8, ↓reduceIte]; trivial
  simp only [c8, ↓reduceIte]
  generalize (if u16 f (c0 + 24) = 0x10b then some ((224 : Nat), (92 : Nat), (128 : Nat))
    else if u16 f (c0 + 24) = 0x20b then some (240, 108, 144) else none) = variant
  cases variant with
  | none => trivial
  | some v =>
    obtain ⟨need, nrva, dd4⟩ := v
    simp only
    by_cases d1 : S < need
    · simp only [d1, ↓reduceIte]; trivial
    simp only [d1, ↓reduceIte]
    by_cases d2 : u32 f (c0 + 24 + nrva) < 5
    · simp only [d2, ↓reduceIte]; trivial
    simp only [d2, ↓reduceIte]
    by_cases d3 : u32 f (c0 + 24 + 60) < P + 24 + S + N * 40
    · simp only [d3, ↓reduceIte]; trivial
    simp only [d3, ↓reduceIte]
    by_cases d4 : f.length < c0 + 24 + S + N * 40
    · simp only [d4, ↓reduceIte]; trivial
    simp only [d4, ↓reduceIte]
    cases hfix : fixSections (P + 24 + S + N * 40) (u32 f (c0 + 24 + 36)) (rawSections f (c0 + 24 + S) N) (u32 f (c0 + 24 + 60)) with
    | err _ => trivial
    | panic _ => trivial
    | diverge => trivial
    | ok v =>
      obtain ⟨sections, soh'⟩ := v
      simp only
      by_cases d5 : f.length < c0 + 24 + S + N * 40 + (soh' - (P + 24 + S + N * 40))
      · simp only [d5, ↓reduceIte]; trivial
      simp only [d5, ↓reduceIte, HdrFacts]
      constructor
      · omega
      · split <;> omega

theorem readHeaders_ok_facts (f : Bytes) (h : Headers) (e : readHeaders f = .ok h) :
    h.cur ≤ f.length ∧ 0 < h.m.pageSize := by
  have := readHeaders_facts f
  rw [e] at this
  exact this

/-! ### trailer -/

theorem obs_copyNToE_u {α} (f : Bytes) (c n : Nat) (s : Nat) (sc : Sched) (fe : Term → Fail) (e : String)
    (hfe : fe .eof = .err e) (k : Bytes → Prog α) (hc : c ≤ f.length) :
    obs (runFlat (copyNToE s (n : Int) sc fe k) (at_ f c)) =
      if c + n ≤ f.length then pre s (seg f c (c + n)) (obs (runFlat (k (seg f c (c + n))) (at_ f (c + n))))
      else .err e := by
  rw [obs_copyNToE f c n s sc fe e hfe k hc]
  by_cases h0 : n = 0
  · subst h0
    simp only [↓reduceIte, Nat.add_zero, hc, seg_self, pre_nil]
  · rw [if_neg h0]

theorem at_len (f : Bytes) : at_ f f.length = ⟨[], .eof, none⟩ := by simp [at_]

theorem obs_peTrailer {α} (f : Bytes) (cur2 next2 cs cz : Nat) (k : Nat → Prog α) (hc : cur2 ≤ f.length) :
    obs (runFlat (peTrailer next2 cs cz k) (at_ f cur2)) =
      if cz = 0 then
        pre hashSink (seg f cur2 f.length) (obs (runFlat (k (next2 + (f.length - cur2))) ⟨[], .eof, none⟩))
      else if cs < next2 then .err "sigoverlap"
      else if f.length < cur2 + (cs - next2) then .err "eof"
      else if f.length < cur2 + (cs - next2) + cz then .err "eof"
      else if cur2 + (cs - next2) + cz < f.length then .err "trailing"
      else pre hashSink (seg f cur2 (cur2 + (cs - next2))) (obs (runFlat (k cs) ⟨[], .eof, none⟩)) := by
  unfold peTrailer
  by_cases hz : cz = 0
  · rw [if_pos hz, if_pos hz]
    simp only [runFlat, at_, flatCopy]
    have e1 : List.drop cur2 f = seg f cur2 f.length := by
      unfold seg
      rw [List.take_of_length_le (by simp)]
    have e2 : (List.drop cur2 f).length = f.length - cur2 := by simp
    rw [e2, e1]
    exact obs_emit _ _ _ _
  · rw [if_neg hz, if_neg hz]
    by_cases ho : cs < next2
    · rw [if_pos ho, if_pos ho]; rfl
    rw [if_neg ho, if_neg ho]
    have e : (cs : Int) - (next2 : Int) = ((cs - next2 : Nat) : Int) := by omega
    rw [e, copyNTo, obs_copyNToE_u f cur2 (cs - next2) _ _ _ "eof" rfl _ hc]
    by_cases h1 : cur2 + (cs - next2) ≤ f.length
    · have h1' : ¬ f.length < cur2 + (cs - next2) := by omega
      rw [if_pos h1, if_neg h1', obs_copyN f _ cz _ _ h1]
      by_cases h2 : cur2 + (cs - next2) + cz ≤ f.length
      · have h2' : ¬ f.length < cur2 + (cs - next2) + cz := by omega
        rw [if_pos h2, if_neg h2']
        simp only [runFlat, at_, flatCopy, List.length_drop]
        by_cases h3 : cur2 + (cs - next2) + cz < f.length
        · have h3' : 0 < f.length - (cur2 + (cs - next2) + cz) := by omega
          rw [if_pos h3', if_pos h3]
          rfl
        · have h3' : ¬ 0 < f.length - (cur2 + (cs - next2) + cz) := by omega
          rw [if_neg h3', if_neg h3]
      · have h2' : f.length < cur2 + (cs - next2) + cz := by omega
        rw [if_neg h2, if_pos h2']
        rfl
    · have h1' : f.length < cur2 + (cs - next2) := by omega
      rw [if_neg h1, if_pos h1']

/-! ### the whole digester -/

open Relic.PE (DigestPE pageHashInputs)

def toObsPE (pg : Bool) (f : Bytes) (r : Res PE.Digest) : Obs PEOut :=
  match r with
  | .ok d => .ok (⟨d.origSize, d.certStart, d.m, d.hdrLen, if pg then pageHashInputs f d else none⟩, d.hashed, [])
  | .err e => .err e
  | .panic p => .err (guardP p)
  | .diverge => .diverge

/-- what the whole-buffer model says `DigestPE(r, hash, pg)` returns: sizes, markers, the page-hash table inputs, the bytes
    fed to the image hash; where the model of the original code panics the repaired code returns `guardP`'s error; and
    the repaired code refuses page hashes when the headers exceed a page (before reading on) -/
def peObs (pg : Bool) (f : Bytes) : Obs PEOut :=
  match readHeaders f with
  | .ok h => if pg ∧ h.m.pageSize < h.m.sizeOfHdr then .err "pagehash-headers" else toObsPE pg f (DigestPE f)
  | _ => toObsPE pg f (DigestPE f)

def finishObs (pg : Bool) (f : Bytes) (h : Headers) (extents : List (Nat × Nat × Nat)) (origSize cur3 : Nat) : Obs PEOut :=
  toObsPE pg f (.ok { hashed := h.hashed ++ seg f h.cur cur3 ++ List.replicate (if origSize % 8 = 0 then 0 else 8 - origSize % 8) 0,
                      origSize, certStart := origSize + (if origSize % 8 = 0 then 0 else 8 - origSize % 8), m := h.m,
                      extents, hdrLen := h.hashed.length })

/-- the model after the headers, as an observation -/
def peAfter (pg : Bool) (f : Bytes) (h : Headers) : Obs PEOut :=
  if f.length < h.cur + gapOf h.sections h.m.sizeOfHdr then .err "eof" else
  match readSectionData f.length h.sections 0 (h.cur + gapOf h.sections h.m.sizeOfHdr)
      (if gapOf h.sections h.m.sizeOfHdr = 0 then h.m.sizeOfHdr else h.m.sizeOfHdr + gapOf h.sections h.m.sizeOfHdr) with
  | .err e => .err e
  | .panic p => .err (guardP p)
  | .diverge => .diverge
  | .ok (cur2, next2, extents) =>
    if h.m.certSize = 0 then finishObs pg f h extents (next2 + (f.length - cur2)) f.length
    else if h.m.certStart < next2 then .err "sigoverlap"
    else if f.length < cur2 + (h.m.certStart - next2) then .err "eof"
    else if f.length < cur2 + (h.m.certStart - next2) + h.m.certSize then .err "eof"
    else if cur2 + (h.m.certStart - next2) + h.m.certSize < f.length then .err "trailing"
    else finishObs pg f h extents h.m.certStart (cur2 + (h.m.certStart - next2))

theorem model_after (pg : Bool) (f : Bytes) (h : Headers) (hr : readHeaders f = .ok h) :
    toObsPE pg f (DigestPE f) = peAfter pg f h := by
  unfold DigestPE peAfter
  rw [hr]
  simp only
  by_cases g1 : f.length < h.cur + gapOf h.sections h.m.sizeOfHdr
  · rw [if_pos g1, if_pos g1]; rfl
  rw [if_neg g1, if_neg g1]
  cases hs : readSectionData f.length h.sections 0 (h.cur + gapOf h.sections h.m.sizeOfHdr)
      (if gapOf h.sections h.m.sizeOfHdr = 0 then h.m.sizeOfHdr else h.m.sizeOfHdr + gapOf h.sections h.m.sizeOfHdr) with
  | err e => rfl
  | panic p => rfl
  | diverge => rfl
  | ok v =>
    obtain ⟨cur2, next2, extents⟩ := v
    simp only [apply_ite (toObsPE pg f), finishObs]
    rfl

theorem chunksOf_eq (ps : Nat) (ex : List (Nat × Nat × Nat)) :
    (ex.flatMap fun (x : Nat × Nat × Nat) => match x with | (ptr, phys, size) => pageChunks ps ptr phys size) = chunksOf ps ex := by
  unfold chunksOf
  congr 1

theorem pageOf_eq (f : Bytes) (ps : Nat) (cs : List (Nat × Nat × Nat)) :
    (cs.map fun (x : Nat × Nat × Nat) => match x with
      | (pos, phys, n) => (pos, seg f phys (phys + n) ++ List.replicate (ps - n) 0)) = cs.map (pageOf f ps) := by
  apply List.map_congr_left
  intro x _
  obtain ⟨a, b, c⟩ := x
  rfl

theorem pageInputs_eq (f : Bytes) (d : PE.Digest) (hdr : Bytes) (_hlen : d.hdrLen = hdr.length)
    (htake : d.hashed.take d.hdrLen = hdr) (hsz : ¬ d.m.pageSize < d.m.sizeOfHdr) :
    pageHashInputs f d =
      some ([(0, hdr ++ List.replicate (d.m.pageSize - d.m.sizeOfHdr) 0)] ++ (chunksOf d.m.pageSize d.extents).map (pageOf f d.m.pageSize) ++
        [(lastOf (chunksOf d.m.pageSize d.extents) 0, [])]) := by
  unfold pageHashInputs
  simp only
  have e1 : ((d.m.pageSize : Int) - d.hdrLen - ((d.m.sizeOfHdr : Int) - d.hdrLen)) = ((d.m.pageSize - d.m.sizeOfHdr : Nat) : Int) := by omega
  rw [e1]
  have c : ¬ ((((d.m.pageSize - d.m.sizeOfHdr : Nat) : Int) < 0) ∨ ((d.m.pageSize : Int) < ((d.m.pageSize - d.m.sizeOfHdr : Nat) : Int))) := by omega
  rw [if_neg c, chunksOf_eq, pageOf_eq, htake, Int.toNat_natCast]
  simp only [List.cons_append, List.nil_append, Option.some.injEq, List.cons.injEq, true_and]
  congr 1

theorem finish_eq (pg : Bool) (f : Bytes) (h : Headers) (ex : List (Nat × Nat × Nat)) (origSize cur1 cur2 cur3 : Nat)
    (hps : ¬ (pg = true ∧ h.m.pageSize < h.m.sizeOfHdr)) (h1 : h.cur ≤ cur1) (h2 : cur1 ≤ cur2) (h3 : cur2 ≤ cur3) :
    pre hashSink h.hashed (pre hashSink (seg f h.cur cur1) (pre hashSink (seg f cur1 cur2) (pre hashSink (seg f cur2 cur3)
      (pre hashSink (List.replicate (if origSize % 8 = 0 then 0 else 8 - origSize % 8) 0)
        (.ok (⟨origSize, origSize + (if origSize % 8 = 0 then 0 else 8 - origSize % 8), h.m, h.hashed.length,
              if pg then some ((if pg then ([(0, h.hashed ++ List.replicate (h.m.pageSize - h.m.sizeOfHdr) 0)] ++
                  (chunksOf h.m.pageSize ex).map (pageOf f h.m.pageSize)) else []) ++ [(if pg then lastOf (chunksOf h.m.pageSize ex) 0 else 0, [])])
              else none⟩, [], [])))))) =
    finishObs pg f h ex origSize cur3 := by
  unfold finishObs toObsPE
  simp only [pre, hashSink, patchedSink, ↓reduceIte, List.append_nil, Nat.reduceEqDiff]
  have hh : h.hashed ++ (seg f h.cur cur1 ++ (seg f cur1 cur2 ++ (seg f cur2 cur3 ++
      List.replicate (if origSize % 8 = 0 then 0 else 8 - origSize % 8) 0))) =
      h.hashed ++ seg f h.cur cur3 ++ List.replicate (if origSize % 8 = 0 then 0 else 8 - origSize % 8) 0 := by
    rw [← seg_append f h.cur cur2 cur3 (by omega) h3, ← seg_append f h.cur cur1 cur2 h1 h2]
    simp only [List.append_assoc]
  cases pg with
  | false => simp [hh]
  | true =>
    have hsz : ¬ h.m.pageSize < h.m.sizeOfHdr := fun x => hps ⟨rfl, x⟩
    simp only [↓reduceIte]
    rw [pageInputs_eq f _ h.hashed rfl (by simp) hsz]
    simp [hh]

theorem prog_after (pg : Bool) (f : Bytes) (h : Headers) (hcur : h.cur ≤ f.length) (hpos : 0 < h.m.pageSize)
    (hps : ¬ (pg = true ∧ h.m.pageSize < h.m.sizeOfHdr)) :
    obs (runFlat (peBody pg ⟨h.m, h.sections, h.hashed⟩) (at_ f h.cur)) = peAfter pg f h := by
  unfold peBody peAfter
  simp only
  rw [if_neg hps, obs_emit]
  generalize hg : gapOf h.sections h.m.sizeOfHdr = gap
  rw [obs_copyNToE_u f h.cur gap _ _ _ "eof" rfl _ hcur]
  by_cases g1 : h.cur + gap ≤ f.length
  · have g1' : ¬ f.length < h.cur + gap := by omega
    rw [if_pos g1, if_neg g1']
    have enext : (if gap = 0 then h.m.sizeOfHdr else h.m.sizeOfHdr + gap) = h.m.sizeOfHdr + gap := by
      split <;> omega
    rw [enext, obs_peSections f pg h.m.pageSize h.sections 0 (h.cur + gap) (h.m.sizeOfHdr + gap) _ _ _ hpos g1]
    cases hs : readSectionData f.length h.sections 0 (h.cur + gap) (h.m.sizeOfHdr + gap) with
    | err e => rfl
    | panic p => exact absurd hs (readSectionData_ne_panic _ _ _ _ _ _)
    | diverge => rfl
    | ok v =>
      obtain ⟨cur2, next2, ex⟩ := v
      obtain ⟨b1, b2⟩ := readSectionData_bounds _ _ _ _ _ _ _ _ g1 hs
      simp only
      rw [obs_peTrailer f cur2 next2 _ _ _ b2]
      by_cases t0 : h.m.certSize = 0
      · rw [if_pos t0, if_pos t0]
        simp only [obs_emit, obs_ret]
        have := finish_eq pg f h ex (next2 + (f.length - cur2)) (h.cur + gap) cur2 f.length hps (by omega) b1 b2
        cases pg <;> simpa using this
      · rw [if_neg t0, if_neg t0]
        by_cases t1 : h.m.certStart < next2
        · rw [if_pos t1, if_pos t1]; rfl
        rw [if_neg t1, if_neg t1]
        by_cases t2 : f.length < cur2 + (h.m.certStart - next2)
        · rw [if_pos t2, if_pos t2]; rfl
        rw [if_neg t2, if_neg t2]
        by_cases t3 : f.length < cur2 + (h.m.certStart - next2) + h.m.certSize
        · rw [if_pos t3, if_pos t3]; rfl
        rw [if_neg t3, if_neg t3]
        by_cases t4 : cur2 + (h.m.certStart - next2) + h.m.certSize < f.length
        · rw [if_pos t4, if_pos t4]; rfl
        rw [if_neg t4, if_neg t4]
        simp only [obs_emit, obs_ret]
        have := finish_eq pg f h ex h.m.certStart (h.cur + gap) cur2 (cur2 + (h.m.certStart - next2)) hps (by omega) b1 (by omega)
        cases pg <;> simpa using this
  · have g1' : f.length < h.cur + gap := by omega
    rw [if_neg g1, if_pos g1']
    rfl

/-- **the reader program of `DigestPE`, on a whole file, is the model `DigestPE` (+ `pageHashInputs`)** -/
theorem pe_flat (pg : Bool) (f : Bytes) : obs (runFlat (digestPE pg) (Flat.raw f .eof)) = peObs pg f := by
  unfold digestPE peObs
  rw [← at_zero, obs_peHeaders]
  cases hr : readHeaders f with
  | err e =>
    simp only
    unfold DigestPE
    rw [hr]; rfl
  | panic p =>
    simp only
    unfold DigestPE
    rw [hr]; rfl
  | diverge =>
    simp only
    unfold DigestPE
    rw [hr]; rfl
  | ok h =>
    obtain ⟨hcur, hpos⟩ := readHeaders_ok_facts f h hr
    simp only
    by_cases hps : pg = true ∧ h.m.pageSize < h.m.sizeOfHdr
    · rw [if_pos hps]
      unfold peBody
      rw [if_pos hps]
      rfl
    · rw [if_neg hps, model_after pg f h hr]
      exact prog_after pg f h hcur hpos hps

end Relic.Rd

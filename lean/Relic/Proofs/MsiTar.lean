/-
  Relic.Proofs.MsiTar — the tar path (`MsiToTar` then `DigestMsiTar`) feeds the hash what `DigestMSI` feeds it.
  Core tactics only.
-/
import Relic.Proofs.MsiTree
namespace Relic.MsiDigest
open Relic
set_option linter.unusedSimpArgs false
set_option linter.unusedVariables false

variable (H : Bytes → Bytes) (ext : Bool)

theorem digestMsiTar_append (a b : List Member) :
    digestMsiTar H ext (a ++ b) = digestMsiTar H ext a ++ digestMsiTar H ext b := by
  simp [digestMsiTar]

/-- how a child's contribution on the tar path relates to its contribution on the direct path: in the root storage a
    signature entry contributes nothing on either side -/
def PayRel (isRoot : Bool) (m : Meta) (rh : Res Bytes) (rt : Res (List Member)) : Prop :=
  if (isRoot && isSig m) = true then ∃ ms, rt = .ok ms ∧ digestMsiTar H ext ms = []
  else RelRes (fun b ms => digestMsiTar H ext ms = b) rh rt

def ItemRel (isRoot : Bool) (a : Item Bytes) (b : Item (List Member)) : Prop :=
  a.1 = b.1 ∧ PayRel H ext isRoot a.1 a.2 b.2

/-- the filter of `hashMsiDir` under a name (so that `simp` leaves it alone) -/
def keepB (isRoot : Bool) (it : Item Bytes) : Bool := !(isRoot && isSig it.1)

theorem hashDirOf_keep (isRoot : Bool) (clsid : Bytes) (items : List (Item Bytes)) :
    hashDirOf isRoot clsid items = (do
      let s ← sortItems items
      let body ← catRes ((s.filter (keepB isRoot)).map (·.2))
      pure (body ++ clsid)) := rfl

theorem catRes_rel (isRoot : Bool) : ∀ (s1 : List (Item Bytes)) (s2 : List (Item (List Member))),
    All2 (ItemRel H ext isRoot) s1 s2 →
    RelRes (fun b ms => digestMsiTar H ext ms = b)
      (catRes ((s1.filter (keepB isRoot)).map (·.2))) (catRes (s2.map (·.2))) := by
  intro s1 s2 h
  induction h with
  | nil => simp [catRes, RelRes, digestMsiTar]
  | @cons a b l1 l2 hab _ ih =>
    obtain ⟨hm, hp⟩ := hab
    unfold PayRel at hp
    by_cases hs : (isRoot && isSig a.1) = true
    · have hk : keepB isRoot a = false := by simp [keepB, hs]
      simp only [hs, if_true] at hp
      obtain ⟨ms, hms, hd⟩ := hp
      simp only [List.filter_cons, hk, Bool.false_eq_true, if_false, List.map_cons, catRes, hms, Res.bind_ok']
      revert ih
      cases catRes (List.map (·.2) (List.filter (keepB isRoot) l1)) <;>
        cases catRes (List.map (·.2) l2) <;> simp [RelRes]
      intro ih
      rw [digestMsiTar_append, hd, ih]; rfl
    · have hs' : (isRoot && isSig a.1) = false := by simpa using hs
      have hk : keepB isRoot a = true := by simp [keepB, hs']
      simp only [hs', Bool.false_eq_true, if_false] at hp
      simp only [List.filter_cons, hk, if_true, List.map_cons, catRes]
      revert hp
      cases a.2 <;> cases b.2 <;> simp [RelRes]
      · intro hp
        revert ih
        cases catRes (List.map (·.2) (List.filter (keepB isRoot) l1)) <;>
          cases catRes (List.map (·.2) l2) <;> simp [RelRes]
        intro ih
        rw [digestMsiTar_append, hp, ih]
      all_goals (intro hp; exact hp)

theorem uid_name_plain (path : List Nat) :
    path ++ storageUidName ≠ exmetaName ∧ path ++ storageUidName ≠ sigName ∧ path ++ storageUidName ≠ sigExName := by
  have key : ∀ X : List Nat, X.reverse.head? ≠ some 100 → path ++ storageUidName ≠ X := by
    intro X hX e
    apply hX
    rw [← e]
    simp [storageUidName]
  exact ⟨key _ (by decide), key _ (by decide), key _ (by decide)⟩

theorem tarDirOf_rel (isRoot : Bool) (path : List Nat) (clsid : Bytes) (l1 : List (Item Bytes))
    (l2 : List (Item (List Member))) (h : All2 (ItemRel H ext isRoot) l1 l2) :
    RelRes (fun b ms => digestMsiTar H ext ms = b) (hashDirOf isRoot clsid l1) (tarDirOf path clsid l2) := by
  have hs := sortRes_rel (ItemRel H ext isRoot) (fun a b : Item Bytes => less a.1 b.1)
    (fun a b : Item (List Member) => less a.1 b.1)
    (fun a1 a2 b1 b2 ha hb => by rw [ha.1, hb.1]) l1 l2 h
  rw [hashDirOf_keep]
  unfold tarDirOf sortItems
  revert hs
  cases sortRes (fun a b : Item Bytes => less a.1 b.1) l1 <;>
    cases sortRes (fun a b : Item (List Member) => less a.1 b.1) l2 <;> simp [RelRes]
  intro hs
  have hc := catRes_rel H ext isRoot _ _ hs
  revert hc
  rename_i s1 s2
  cases catRes (List.map (·.2) (List.filter (keepB isRoot) s1)) <;>
    cases catRes (List.map (·.2) s2) <;> simp [RelRes]
  intro hc
  obtain ⟨u1, u2, u3⟩ := uid_name_plain path
  rw [digestMsiTar_append, hc]
  simp [digestMsiTar, tarContribution, u1, u2, u3]

/-- a tar name below the root holds a '/' and so is none of the three names `DigestMsiTar` treats specially -/
theorem slash_name_plain (path x : List Nat) (hp : 47 ∈ path) :
    path ++ x ≠ exmetaName ∧ path ++ x ≠ sigName ∧ path ++ x ≠ sigExName := by
  have key : ∀ X : List Nat, 47 ∉ X → path ++ x ≠ X := by
    intro X hX e
    apply hX
    rw [← e]
    exact List.mem_append_left _ hp
  exact ⟨key _ (by decide), key _ (by decide), key _ (by decide)⟩

mutual
/-- below the root the two paths agree on every entry, whatever its name -/
theorem tarItem_rel_nested : ∀ (path : List Nat) (n : Node), 47 ∈ path →
    ItemRel H ext false (hashItem n) (tarItem path n)
  | path, .mk m c kids, hp => by
    rw [hashItem, tarItem]
    refine ⟨rfl, ?_⟩
    unfold PayRel
    simp only [Bool.false_and, Bool.false_eq_true, if_false]
    by_cases h2 : m.typ = typStream
    · simp only [h2, if_true, RelRes]
      obtain ⟨u1, u2, u3⟩ := slash_name_plain path (msiDecodeName (goName m)) hp
      simp [digestMsiTar, tarContribution, u1, u2, u3]
    · by_cases h1 : m.typ = typStorage
      · simp only [h2, h1, if_true, if_false]
        exact tarDirOf_rel H ext false _ m.clsid _ _
          (tarItems_rel_nested _ kids (List.mem_append_right _ (List.mem_singleton.mpr rfl)))
      · simp only [h2, h1, if_false, RelRes]
        rfl
theorem tarItems_rel_nested : ∀ (path : List Nat) (ks : List Node), 47 ∈ path →
    All2 (ItemRel H ext false) (hashItems ks) (tarItems path ks)
  | path, [], _ => by rw [hashItems, tarItems]; exact All2.nil
  | path, n :: r, hp => by
    rw [hashItems, tarItems]
    exact All2.cons (tarItem_rel_nested path n hp) (tarItems_rel_nested path r hp)
end

/-- the test `checkMsiTarNames` makes on one entry of the root storage -/
def rootOkB (n : Node) : Bool :=
  if n.meta.typ = typStream then
    !(decide (msiDecodeName (goName n.meta) = exmetaName) ||
      (decide (msiDecodeName (goName n.meta) = sigName ∨ msiDecodeName (goName n.meta) = sigExName) &&
        decide (msiDecodeName (goName n.meta) ≠ goName n.meta)))
  else if n.meta.typ = typStorage then !isSig n.meta
  else true

theorem tarRootOkB_all (ks : List Node) : tarRootOkB ks = ks.all rootOkB := rfl

theorem msiDecodeName_sig : msiDecodeName sigName = sigName := by decide
theorem msiDecodeName_sigEx : msiDecodeName sigExName = sigExName := by decide

/-- in the root storage the two paths agree on every entry that `checkMsiTarNames` lets through -/
theorem tarItem_rel_root : ∀ (n : Node), rootOkB n = true → ItemRel H ext true (hashItem n) (tarItem [] n)
  | .mk m c kids, h => by
    rw [hashItem, tarItem]
    refine ⟨rfl, ?_⟩
    unfold PayRel
    simp only [Bool.true_and, List.nil_append]
    unfold rootOkB at h
    simp only [Node.meta] at h
    by_cases h2 : m.typ = typStream
    · simp only [h2, if_true, Bool.not_eq_true', Bool.or_eq_false_iff, Bool.and_eq_false_iff] at h
      have g1 : ¬ msiDecodeName (goName m) = exmetaName := of_decide_eq_false h.1
      have g2 : ¬ (msiDecodeName (goName m) = sigName ∨ msiDecodeName (goName m) = sigExName) ∨
          msiDecodeName (goName m) = goName m := by
        rcases h.2 with h' | h'
        · exact Or.inl (of_decide_eq_false h')
        · exact Or.inr (Classical.not_not.mp (of_decide_eq_false h'))
      simp only [h2, if_true]
      by_cases hs : isSig m = true
      · simp only [hs, if_true]
        refine ⟨_, rfl, ?_⟩
        have hn : msiDecodeName (goName m) = sigName ∨ msiDecodeName (goName m) = sigExName := by
          unfold isSig at hs
          simp only [Bool.or_eq_true, decide_eq_true_eq] at hs
          rcases hs with e | e
          · left; rw [e]; exact msiDecodeName_sig
          · right; rw [e]; exact msiDecodeName_sigEx
        simp [digestMsiTar, tarContribution, g1, hn]
      · have hs' : isSig m = false := by simpa using hs
        simp only [hs', Bool.false_eq_true, if_false, RelRes]
        have hn : ¬ (msiDecodeName (goName m) = sigName ∨ msiDecodeName (goName m) = sigExName) := by
          intro hh
          rcases g2 with h' | e
          · exact h' hh
          · unfold isSig at hs'
            simp only [Bool.or_eq_false_iff, decide_eq_false_iff_not] at hs'
            rcases hh with e1 | e1
            · exact hs'.1 (e ▸ e1)
            · exact hs'.2 (e ▸ e1)
        simp [digestMsiTar, tarContribution, g1, hn]
    · by_cases h1 : m.typ = typStorage
      · have hne : ¬ (typStorage = typStream) := by decide
        simp only [h2, h1, hne, if_true, if_false, Bool.not_eq_true'] at h ⊢
        simp only [h, Bool.false_eq_true, if_false]
        exact tarDirOf_rel H ext false _ m.clsid _ _
          (tarItems_rel_nested H ext _ kids (List.mem_append_right _ (List.mem_singleton.mpr rfl)))
      · simp only [h2, h1, if_false]
        by_cases hs : isSig m = true
        · simp only [hs, if_true]
          exact ⟨[], rfl, rfl⟩
        · have hs' : isSig m = false := by simpa using hs
          simp only [hs', Bool.false_eq_true, if_false, RelRes]
          rfl

theorem tarItems_rel_root : ∀ (ks : List Node), ks.all rootOkB = true →
    All2 (ItemRel H ext true) (hashItems ks) (tarItems [] ks)
  | [], _ => by rw [hashItems, tarItems]; exact All2.nil
  | n :: r, h => by
    simp only [List.all_cons, Bool.and_eq_true] at h
    rw [hashItems, tarItems]
    exact All2.cons (tarItem_rel_root H ext n h.1) (tarItems_rel_root r h.2)

/-- a successful `MsiToTar` passed `checkMsiTarNames` -/
theorem msiToTar_ok_rootOk (root : Node) (ms : List Member) (ht : msiToTar root = .ok ms) :
    tarRootOkB root.kids = true := by
  unfold msiToTar at ht
  cases h : tarRootOkB root.kids with
  | true => rfl
  | false => rw [h] at ht; simp at ht

theorem msiToTar_digest (root : Node) (ms : List Member)
    (ht : msiToTar root = .ok ms) : digestMSI H root ext = .ok (digestMsiTar H ext ms) := by
  have hsafe := msiToTar_ok_rootOk root ms ht
  unfold msiToTar at ht
  simp only [hsafe, Bool.not_true, Bool.false_eq_true, if_false] at ht
  cases hp : prehashMsiDir root with
  | ok pre =>
    rw [hp] at ht
    simp only [Res.bind_ok'] at ht
    have hr := tarDirOf_rel H ext true [] root.meta.clsid _ _ (tarItems_rel_root H ext root.kids hsafe)
    cases hb : tarDirOf [] root.meta.clsid (tarItems [] root.kids) with
    | ok body =>
      rw [hb] at ht hr
      simp only [Res.bind_ok', Res.pure_eq, Res.ok.injEq] at ht
      subst ht
      unfold digestMSI hashMsiDir
      revert hr
      cases hashDirOf true root.meta.clsid (hashItems root.kids) <;> simp [RelRes]
      intro hr
      rw [hp]
      cases ext with
      | true =>
        simp only [if_true, Res.bind_ok', Res.pure_eq]
        rw [← hr]
        simp [digestMsiTar, tarContribution]
      | false =>
        simp only [Bool.false_eq_true, if_false, Res.bind_ok', Res.pure_eq]
        rw [← hr]
        simp [digestMsiTar, tarContribution]
    | err e => rw [hb] at ht; simp at ht
    | panic e => rw [hb] at ht; simp at ht
    | diverge => rw [hb] at ht; simp at ht
  | err e => rw [hp] at ht; simp at ht
  | panic e => rw [hp] at ht; simp at ht
  | diverge => rw [hp] at ht; simp at ht

end Relic.MsiDigest

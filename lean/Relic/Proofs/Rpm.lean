/- helper lemmas for the RPM model: the tag map, the byte layout behind `readHeader` / `readBoth` -/
import Relic.Model.Rpm
namespace Relic.Rpm
open Relic

/-! ### the tag map -/

theorem get_ins_same (k : Int) (e : Entry) (m : EMap) : get k (ins k e m) = some e := by
  induction m with
  | nil => simp [ins, get]
  | cons p r ih =>
    obtain ⟨k', e'⟩ := p
    unfold ins
    by_cases h1 : k < k'
    · simp [h1, get]
    · by_cases h2 : k = k'
      · simp [h1, h2, get]
      · have : ¬ k' = k := fun h => h2 h.symm
        simp [h1, h2, get, this, ih]

theorem get_ins_other (k k' : Int) (e : Entry) (m : EMap) (h : k ≠ k') : get k (ins k' e m) = get k m := by
  induction m with
  | nil =>
    have : ¬ k' = k := fun x => h x.symm
    simp [ins, get, this]
  | cons p r ih =>
    obtain ⟨k2, e2⟩ := p
    have hn : ¬ k' = k := fun x => h x.symm
    unfold ins
    by_cases h1 : k' < k2
    · simp [h1, get, hn]
    · by_cases h2 : k' = k2
      · subst h2
        simp [h1, get, hn]
      · simp [h1, h2, get, ih]

theorem get_del_same (k : Int) (m : EMap) : get k (del k m) = none := by
  induction m with
  | nil => simp [del, get]
  | cons p r ih =>
    obtain ⟨k', e'⟩ := p
    unfold del at *
    by_cases h : k' = k
    · subst h; simp [List.filter_cons, ih]
    · have : (k' != k) = true := by simp [h]
      simp [List.filter_cons, this, get, h, ih]

theorem get_del_other (k k' : Int) (m : EMap) (h : k ≠ k') : get k (del k' m) = get k m := by
  induction m with
  | nil => simp [del, get]
  | cons p r ih =>
    obtain ⟨k2, e2⟩ := p
    unfold del at *
    by_cases h2 : k2 = k'
    · subst h2
      have : ¬ k2 = k := fun x => h x.symm
      simp [List.filter_cons, get, this, ih]
    · have : (k2 != k') = true := by simp [h2]
      simp [List.filter_cons, this, get, ih]

/-! ### `readHeader` splits its input -/

theorem readHeader_split (H : Nat → Bytes → Bytes) (sb : Bool) (chk : Option (Nat × Bytes)) (f : Bytes) (h : Hdr) (rest : Bytes)
    (hr : readHeader H sb chk f = .ok (h, rest)) : f = h.orig ++ rest := by
  unfold readHeader at hr
  simp only at hr
  repeat' (split at hr)
  all_goals (try (cases hr; done))
  simp only [Res.ok.injEq, Prod.mk.injEq] at hr
  obtain ⟨h1, h2⟩ := hr
  subst h1; subst h2
  simp only [List.drop_drop]
  exact (List.take_append_drop _ f).symm

theorem readBody_split (H : Nat → Bytes → Bytes) (body : Bytes) (sig gen : Hdr) (payload : Bytes)
    (hr : readBody H body = .ok (sig, gen, payload)) : body = sig.orig ++ gen.orig ++ payload := by
  unfold readBody at hr
  split at hr
  · rename_i s rest h1
    split at hr
    · rename_i chk h2
      split at hr
      · rename_i g pl h3
        simp only [Res.ok.injEq, Prod.mk.injEq] at hr
        obtain ⟨e1, e2, e3⟩ := hr
        subst e1; subst e2; subst e3
        rw [readHeader_split H true none body s rest h1, readHeader_split H false chk rest g pl h3, List.append_assoc]
      all_goals cases hr
    all_goals cases hr
  all_goals cases hr

/-- the layout `readBoth` finds: lead (96 bytes), signature header as read (padding included), general header, payload -/
theorem readBoth_layout (H : Nat → Bytes → Bytes) (f : Bytes) (p : Parsed) (hr : readBoth H f = .ok p) :
    f = p.lead ++ p.sig.orig ++ p.gen.orig ++ p.payload ∧ p.lead.length = 96 ∧ p.lead = f.take 96 := by
  unfold readBoth at hr
  split at hr
  · cases hr
  · rename_i hl
    split at hr
    · cases hr
    · split at hr
      · rename_i s g pl hb
        simp only [Res.ok.injEq] at hr
        subst hr
        have hs := readBody_split H _ s g pl hb
        refine ⟨?_, ?_, rfl⟩
        · simp only
          rw [List.append_assoc, List.append_assoc, ← List.append_assoc s.orig, ← hs]
          exact (List.take_append_drop 96 f).symm
        · simp only [List.length_take]; omega
      all_goals cases hr

end Relic.Rpm

/- helper lemmas for C06.log_lines_complete -/
import Relic.Model.AuditLog
namespace Relic.AuditLog

theorem flatten_all_nil {α : Type} (ls : List (List α)) (h : ∀ l ∈ ls, l = []) : ls.flatten = [] := by
  induction ls with
  | nil => rfl
  | cons a t ih =>
    have ha : a = [] := h a (by simp)
    have := ih (fun l hl => h l (by simp [hl]))
    simp [ha, this]

/-- an interleaving is a permutation of the concatenation -/
theorem Interleaving.perm {α : Type} {ls : List (List α)} {m : List α} (h : Interleaving ls m) :
    m.Perm ls.flatten := by
  induction h with
  | done ls hn => rw [flatten_all_nil ls hn]
  | step l1 x t l2 m _ ih =>
    have e1 : (l1 ++ (x :: t) :: l2).flatten = l1.flatten ++ x :: (t ++ l2.flatten) := by simp
    have e2 : (l1 ++ t :: l2).flatten = l1.flatten ++ (t ++ l2.flatten) := by simp
    rw [e1]
    rw [e2] at ih
    exact (List.Perm.cons x ih).trans List.perm_middle.symm

theorem payloads_append (a b : List Step) : payloads (a ++ b) = payloads a ++ payloads b := by
  induction a with
  | nil => rfl
  | cons x t ih => cases x <;> simp [payloads, ih]

theorem payloads_perm {a b : List Step} (h : a.Perm b) : (payloads a).Perm (payloads b) := by
  induction h with
  | nil => exact List.Perm.refl _
  | cons x _ ih => cases x <;> simp [payloads, ih]
  | swap x y l => cases x <;> cases y <;> simp [payloads, List.Perm.swap]
  | trans _ _ ih1 ih2 => exact ih1.trans ih2

theorem payloads_appenders (recs : List Bytes) :
    payloads (recs.map appender).flatten = recs.map (· ++ [nl]) := by
  induction recs with
  | nil => rfl
  | cons r t ih => simp [appender, payloads, ih]

theorem runFile_eq (f : Bytes) (m : List Step) : runFile f m = f ++ (payloads m).flatten := by
  induction m generalizing f with
  | nil => simp [runFile, payloads]
  | cons x t ih =>
    have : runFile f (x :: t) = runFile (stepFile f x) t := rfl
    rw [this, ih]
    cases x <;> simp [stepFile, payloads]

theorem splitLines_line (r rest : Bytes) (h : nl ∉ r) :
    splitLines (r ++ nl :: rest) = (r :: (splitLines rest).1, (splitLines rest).2) := by
  induction r with
  | nil => simp [splitLines]
  | cons b t ih =>
    have hb : b ≠ nl := fun e => h (by simp [e])
    have ht : nl ∉ t := fun e => h (by simp [e])
    have : (b :: t) ++ nl :: rest = b :: (t ++ nl :: rest) := rfl
    rw [this, splitLines, ih ht]
    simp [hb]

theorem splitLines_ofLines (ls : List Bytes) (h : ∀ r ∈ ls, nl ∉ r) : splitLines (ofLines ls) = (ls, []) := by
  induction ls with
  | nil => rfl
  | cons r t ih =>
    have e : ofLines (r :: t) = r ++ nl :: ofLines t := by simp [ofLines]
    rw [e, splitLines_line r _ (h r (by simp)), ih (fun x hx => h x (by simp [hx]))]

theorem ofLines_append (a b : List Bytes) : ofLines (a ++ b) = ofLines a ++ ofLines b := by
  simp [ofLines]

/-- a permutation of `recs.map g` is `order.map g` for a permutation `order` of `recs` -/
theorem perm_map_lines {ws : List Bytes} {recs : List Bytes} (h : ws.Perm (recs.map (· ++ [nl]))) :
    ∃ order : List Bytes, order.Perm recs ∧ ws = order.map (· ++ [nl]) := by
  refine ⟨ws.map List.dropLast, ?_, ?_⟩
  · have := h.map List.dropLast
    simpa [List.map_map, Function.comp_def] using this
  · have hm : ∀ w ∈ ws, w.dropLast ++ [nl] = w := by
      intro w hw
      have := (h.mem_iff).mp hw
      obtain ⟨r, _, hr⟩ := List.mem_map.mp this
      subst hr
      simp
    rw [List.map_map]
    symm
    calc ws.map ((· ++ [nl]) ∘ List.dropLast) = ws.map id := List.map_congr_left (fun w hw => by simpa using hm w hw)
      _ = ws := by simp

end Relic.AuditLog

"""xar / Apple flat package (.pkg) model glue: evaluation of the model's comparison plans with real hash functions and the
signature oracle of the op, and the per-property predicates evaluated on the implementation's output with this module's own
reader of the format (zlib + ElementTree; neither relic's code nor the harness's Go reader)."""
import hashlib, struct, zlib
import xml.etree.ElementTree as ET

TOKENS = ["XAR"]
RULE = ("XAR: archives from the harness's own xar writer (1-5 members in nested directories, zero-length and one-byte members, stored and "
        "zlib-encoded data, entry types file / directory / hardlink with link=original (owns data) / hardlink link=ID / fifo / symlink / "
        "unknown type strings with data, archived-checksum styles sha1/sha256/sha512 mixed, header hash SHA-1/256/512, pretty-printed or dense TOC, zlib level "
        "0/default/9, stray bytes in front of / between / behind members, heap order reversed) plus named irregular layouts (member "
        "without archived-checksum at depth 1 and 3, extended attribute stored in the heap, signature area or TOC checksum behind the "
        "members, unverifiable reserved signature of the same / another size, header size 29/32/64, two members sharing one heap range, "
        "a file with data and children, directories only, no members), relic-signed versions of them (RSA-2048, RSA-3072, P-256, "
        "RSA leaf + CA chain x SHA-1/256/512), classic-RSA-only archives over H(toc) and H(H(toc)), and functest/packages/dummy.pkg; "
        "ops: open (xar.Open on a real file: hash, TOC hash, certificates, both signature blobs, notary trailer), vfy (Open + Verify "
        "with and without digests), sign (xar.Sign, Dump -> ApplyBinPatch to the same or another path, output re-read with the "
        "harness's own reader: header, new TOC tree node for node, checksum bytes, zero padding, heap tail, every heap range of input "
        "and output; then Open + Verify), hist (signer module transform -> sign -> apply -> verify for 1-3 rounds with different "
        "keys/digests, alternately in place), mutate (C02: one-byte mutants of signed archives: every header byte, TOC, checksum, RSA "
        "signature, CMS DER, CMS padding, first / middle / last byte of every heap range the TOC names whatever the entry type, gaps, trailer); malformed stream: header fields through their boundary values, "
        "truncations, appended bytes, 22 kinds of TOC surgery (sizes/offsets/lengths through 36 int64 edge values, number spellings "
        "the two readers treat differently, dropped / duplicated elements incl. a second <toc>, styles, digest text, certificate "
        "text, <file>/<data> outside <toc>, nesting depth 40, signature elements without certificates), regression ops of the repaired "
        "defects (a62cce4 / 5d6eee4): <size> of <signature>/<x-signature> negative, above 2^48, 64-200 MiB; a TOC that inflates to 40 MiB "
        "under a header that declares that size, 1000 bytes, 1 MiB, 2*10^8; an old signature area of 2^40 bytes and one of 11 "
        "elements x 10^6 bytes that tile. Non-trivial = distinct op whose header passes magic/version/hash.")
TRUSTED = ["Relic.Model.Xar is hand-written from lib/fruit/xar/{xar,sign,verify,structs}.go and signers/xar/xar.go on top of "
           "Relic.Model.Binpatch; tied by differential execution on every run",
           "zlib, the XML tokenizer/serialiser (etree and encoding/xml read the same tokens), strconv, base64 + x509.ParseCertificate are "
           "parameters of the model; the op carries what the harness's own calls to these libraries return (tree of the TOC region, "
           "set of certificate texts that parse)",
           "hash values are computed by the check (hashlib) from the byte streams the model prints; CMS / PKCS#1 verdicts follow the "
           "op's oracle (the blob found in the file signs the stated digest); hashes and signature schemes are parameters in Lean"]
ASSUMPTIONS = ["the TOC has no comments / processing instructions / namespace prefixes; one root element; nesting below 10000",
               "the inflater consumes the whole compressed region (its zlib stream ends in the last 4096-byte chunk of the region)",
               "sort.Slice is modelled as a stable sort (true up to 12 members; beyond that and for equal offsets only accept/reject is compared)",
               "CMS and X.509 verification are outside the model (oracle per op)"]

HGO = {"3": "sha1", "5": "sha256", "7": "sha512"}
HHDR = {1: ("sha1", 20), 3: ("sha256", 32), 4: ("sha512", 64)}
BOUND_BASE, BOUND_PER = 64 << 20, 64


def _b(h):
    return b"" if h == "-" else bytes.fromhex(h)


def _declared(fhex):
    """UncompressedSize of the header (signed)"""
    return int.from_bytes(bytes.fromhex(fhex[32:48]), "big", signed=True) if len(fhex) >= 48 else 0


def _kv(s):
    return dict(p.split("=", 1) for p in s.split(" ") if "=" in p)


# ---------------------------------------------------------------------------------------------- plans

def _hold(check, base_checks, idx, oracle):
    """True / False / None (outside the model: a signature blob the oracle says nothing about)"""
    if check == "=":
        check = base_checks[idx]
    if check.startswith("h:"):
        head, alg, stream, exp = check.rsplit(":", 3)
        return hashlib.new(alg, _b(stream)).digest() == _b(exp), head[2:]
    p = check.split(":")
    if p[0] in ("c", "r"):
        o = oracle.split(":")
        if len(o) != 3 or o[0] != p[0] or hashlib.sha256(_b(p[3])).hexdigest() != o[1]:
            return None, "cms" if p[0] == "c" else "rsa"
        d = hashlib.new(p[1], _b(p[2])).digest()
        want = _b(o[2])
        if p[0] == "c":
            return d == want, "cms"
        return d == want or hashlib.new(p[1], d).digest() == want, "rsa"
    raise ValueError(check)


def _run(checks, final, oracle="-", base_checks=None):
    if checks != "-":
        for i, c in enumerate(checks.split(",")):
            ok, cls = _hold(c, base_checks, i, oracle)
            if ok is None:
                return "any"
            if not ok:
                return "err " + cls
    return final


def _split_plan(mres):
    """'plan=<checks> <rest>' -> (checks, rest)"""
    if not mres.startswith("plan="):
        return None, mres
    head, _, rest = mres.partition(" ")
    return head[5:], rest


def canon_model(op, mres):
    f = op.split(" ")
    k = f[1]
    if mres in ("bad-op", "diverge"):
        return mres
    if k in ("open", "vfy", "sign") and f[3] == "-" and len(f[2]) > 60000 and "err toc" in mres and _declared(f[2]) >= 16 << 20:
        return "any"     # a TOC too large for the op line to carry its tree, honestly declared: the model is not asked
        # (declared smaller than what the stream yields, `err toc` is the model's answer whatever the tree says)
    if k in ("open", "vfy", "hist"):
        checks, rest = _split_plan(mres)
        if checks is None:
            return mres
        ties = ""
        if " ties=" in rest:
            rest, _, t = rest.rpartition(" ties=")
            ties = t
        oracle = f[6] if k == "vfy" else "-"
        r = _run(checks, rest, oracle)
        if ties == "1" and r.startswith("err f"):
            return "err f*"
        return r
    if k == "sign":
        checks, rest = _split_plan(mres)
        if checks is None:
            return mres
        ties = "1" if " ties=1" in rest else "0"
        rest = rest.replace(" ties=1", "").replace(" ties=0", "")
        r = _run(checks, rest)
        if not r.startswith("ok "):
            return "err f*" if (ties == "1" and r.startswith("err f")) else r
        parts = r.split(" ")
        kv = _kv(r)
        v = _run(kv["vplan"], kv["vfinal"].replace("_", " "))
        if ties == "1" and v.startswith("err f"):
            v = "err f*"
        parts = [p for p in parts if not p.startswith(("vplan=", "vfinal="))]
        return " ".join(parts) + " verify=" + v.replace(" ", "_")
    if k == "mutate":
        if not mres.startswith("ok base="):
            return mres
        items = mres.split(" ")[1:]
        oracle = f[5]
        bchecks, bfinal = items[0][5:].split("|")
        base_list = bchecks.split(",") if bchecks != "-" else []
        out = ["base=" + _run(bchecks, bfinal.replace("_", " "), oracle).replace(" ", "_")]
        for it in items[1:]:
            if it in ("same", "bad"):
                out.append(it)
                continue
            c, fin = it.split("|")
            out.append(_run(c, fin.replace("_", " "), oracle, base_list).replace(" ", "_"))
        return "ok " + " ".join(out)
    return mres


def _strip_impl(il):
    return " ".join(p for p in il.split(" ") if not p.startswith(("min=", "mout=", "tables=")))


def _err_eq(a, b):
    """error lines: 'err f*' stands for any member-check class"""
    if a == b:
        return True
    return (a == "err f*" and b.startswith("err f")) or (b == "err f*" and a.startswith("err f"))


def equiv(op, il, mres):
    k = op.split(" ", 2)[1]
    il = _strip_impl(il)
    if il == mres:
        return True
    if mres == "any":
        return not il.startswith(("panic", "crash", "alloc", "timeout", "abort"))
    if il.startswith("err") and mres.startswith("err"):
        return _err_eq(il, mres)
    if k == "sign" and il.startswith("ok ") and mres.startswith("ok "):
        a, b = il.split(" "), mres.split(" ")
        if a[:-1] != b[:-1]:
            return False
        va, vb = a[-1].replace("verify=", "").replace("_", " ", 1), b[-1].replace("verify=", "").replace("_", " ", 1)
        return va == vb or vb == "any" or _err_eq(va, vb)
    if k == "mutate" and il.startswith("ok ") and mres.startswith("ok "):
        a, b = il.split(" ")[1:], mres.split(" ")[1:]
        if len(a) != len(b):
            return False
        for x, y in zip(a, b):
            if x == y or x.replace("base=", "") == y.replace("base=", ""):
                continue
            if y.endswith("any") and not x.startswith("panic"):
                continue
            if y == "err_toc" and x.startswith("err_"):
                continue     # a region the op's table does not describe: zlib + the hash decide, some error it is
            if _err_eq(x.replace("_", " ", 1).replace("base=", ""), y.replace("_", " ", 1).replace("base=", "")):
                continue
            return False
        return True
    return False


def weight(op):
    f = op.split(" ")
    return max(1, len(f) - 6) if f[1] == "mutate" else 1


def nontrivial(op, mres, tag):
    return mres.split(" ")[0:2] not in (["err", "magic"], ["err", "short"], ["err", "version"], ["err", "hash"], ["bad-op"])


def branch(op, mres, tag):
    f = op.split(" ")
    r = mres.split(" ")
    key = r[0] if r[0] == "ok" else " ".join(r[:2])
    if f[1] == "sign" and r[0] == "ok":
        v = [p for p in r if p.startswith("verify=")]
        key += ":" + (v[0].split("_")[0] + ("_" + v[0].split("_")[1] if "err" in v[0] else "") if v else "?")
    if f[1] == "vfy":
        key += ":skip=" + f[5]
    return "xar-" + f[1] + ":" + key


# ---------------------------------------------------------------------------------------------- own reader of the format

class Arch:
    """what the format says about a file: header, TOC, heap references (zlib + ElementTree)"""
    def __init__(self, f):
        self.ok = False
        self.f = f
        if len(f) < 28:
            return
        self.magic, self.hsize, self.version, self.clen, self.ulen, self.htype = struct.unpack(">IHHqqI", f[:28])
        if self.magic != 0x78617221 or self.htype not in HHDR or self.clen <= 0:
            return
        self.alg, self.hs = HHDR[self.htype]
        self.z = f[self.hsize:self.hsize + self.clen]
        try:
            d = zlib.decompressobj()
            x = d.decompress(self.z, 16 << 20)
            if d.unconsumed_tail or not d.eof:
                return
            self.root = ET.fromstring(x)
        except Exception:
            return
        self.base = self.hsize + self.clen
        self.toc = self.root.find("toc") if self.root.tag == "xar" else None
        if self.toc is None:
            return
        self.ok = True
        self.items = []
        self._walk("", self.toc.findall("file"))

    @staticmethod
    def _num(e, name):
        c = e.find(name) if e is not None else None
        try:
            return int((c.text or "").strip()) if c is not None else None
        except ValueError:
            return None

    def _item(self, path, kind, e):
        off, ln = self._num(e, "offset"), self._num(e, "length")
        ac = e.find("archived-checksum")
        self.items.append({"path": path, "kind": kind, "off": off, "len": ln,
                           "style": None if ac is None else ac.get("style", ""), "digest": None if ac is None else (ac.text or "")})

    def _walk(self, prefix, files):
        for i, fe in enumerate(files):
            n = fe.find("name")
            path = prefix + ((n.text if n is not None and n.text else "#%d" % i))
            d = fe.find("data")
            if d is not None:
                self._item(path, "data", d)
            for j, ea in enumerate(fe.findall("ea")):
                if ea.find("offset") is not None:
                    self._item("%s@ea%d" % (path, j), "ea", ea)
            self._walk(path + "/", fe.findall("file"))

    def sig_els(self):
        return [e for e in self.toc if e.tag in ("checksum", "signature", "x-signature")]

    def sig_sum(self):
        s = 0
        for e in self.sig_els():
            v = self._num(e, "size")
            s += v or 0
        return s

    def bytes_of(self, it):
        if it["off"] is None or it["len"] is None or it["off"] < 0 or it["len"] < 0:
            return None
        a = self.base + it["off"]
        if a + it["len"] > len(self.f):
            return None
        return self.f[a:a + it["len"]]

    def regular(self):
        """what the xar tools write and relic is expected to handle: 28-byte header, signature elements (each once, canonical
        numbers) laid out back to back from heap offset 0, every <data> with an archived-checksum of a supported style over its
        bytes, every member behind the signature area, members pairwise disjoint, no extended attributes in the heap"""
        if not self.ok or self.hsize != 28 or self.version != 1 or len(self.root.findall("toc")) != 1:
            return False
        names = [e.tag for e in self.sig_els()]
        if len(set(names)) != len(names) or "checksum" not in names:
            return False
        pos = 0
        for tag in ("checksum", "signature", "x-signature"):
            e = self.toc.find(tag)
            if e is None:
                continue
            o, s = self._num(e, "offset"), self._num(e, "size")
            if o != pos or s is None or s < 0 or (e.find("offset").text or "") != str(o) or (e.find("size").text or "") != str(s):
                return False
            pos += s
        if self._num(self.toc.find("checksum"), "size") != self.hs or self.base + pos > len(self.f):
            return False
        spans = []
        for it in self.items:
            if it["kind"] != "data":
                return False
            b = self.bytes_of(it)
            if b is None or it["off"] < pos:
                return False
            if it["style"] not in ("sha1", "sha256", "sha512"):
                return False
            try:
                if hashlib.new(it["style"], b).digest() != bytes.fromhex(it["digest"]):
                    return False
            except ValueError:
                return False
            if it["len"] > 0:
                spans.append((it["off"], it["off"] + it["len"]))
        spans.sort()
        if any(a[1] > b[0] for a, b in zip(spans, spans[1:])):
            return False
        # numbers spelled canonically everywhere below <data>; every <data> below a <file>, every <file> below <toc>/<file>
        for d in self.root.iter("data"):
            for n in ("offset", "length", "size"):
                c = d.find(n)
                if c is not None and ((c.text or "") != str(self._num(d, n)) or len(c)):
                    return False
        parents = {c: p for p in self.root.iter() for c in p}
        for d in self.root.iter("data"):
            if parents.get(d) is None or parents[d].tag != "file":
                return False
        for fe in self.root.iter("file"):
            if parents.get(fe) is None or parents[fe].tag not in ("toc", "file") or len(fe.findall("data")) > 1:
                return False
        return True


def _table(s):
    """the harness reader's table: path|kind|off|len|style|sha -> list of dicts"""
    out = []
    if s in ("-", "?", ""):
        return out
    for it in s.split(";"):
        p = it.split("|")
        out.append({"path": bytes.fromhex(p[0]).decode("utf-8", "replace"), "kind": p[1], "off": int(p[2]), "len": int(p[3]),
                    "style": "" if p[4] == "2d" else bytes.fromhex(p[4]).decode("utf-8", "replace"), "sha": p[5]})
    return out


def _tables_differ(tin, tout):
    """C03 on one signing: every heap range of the input is found in the output with the same bytes, all shifted alike"""
    if len(tin) != len(tout):
        return "the output names %d heap ranges, the input %d" % (len(tout), len(tin))
    delta = None
    for a, b in zip(tin, tout):
        if (a["path"], a["kind"], a["len"], a["style"]) != (b["path"], b["kind"], b["len"], b["style"]):
            return "heap range %s (%s) changed its description" % (a["path"], a["kind"])
        if a["sha"] == "x":
            continue     # not inside the input file to begin with
        if b["sha"] != a["sha"]:
            return "%s of %s no longer points at its bytes (offset %d -> %d, length %d)" % (
                "extended attribute" if a["kind"] == "ea" else "data", a["path"], a["off"], b["off"], a["len"])
        if a["len"] > 0:
            d = b["off"] - a["off"]
            if delta is None:
                delta = d
            elif d != delta:
                return "heap ranges moved by different amounts (%d and %d)" % (delta, d)
    return None


def _input(op):
    return Arch(_b(op.split(" ")[2]))


def predicate(prop, op, il, mres, tag):
    f = op.split(" ")
    k = f[1]
    if il.startswith(("crash", "not-run", "harness-error", "bad-op")):
        return ("Relic.Props.%s (xar)" % prop, mres, "implementation process died or harness failed: " + il[:200])
    if il.startswith("panic") and k != "mutate":
        return ("Relic.Props.C11.xar_open_never_panics" if k in ("open", "vfy") else "Relic.Props.C11.xar_sign_no_panic", "ok or err",
                "lib/fruit/xar panicked: " + il)
    if il.startswith(("alloc", "timeout", "abort")):
        return ("Relic.Props.C11.xar_alloc_bounded", "allocation <= 64 MiB + 64*len, answer within the deadline", "lib/fruit/xar: " + il[:120])
    kv = _kv(il)
    if k == "sign" and "ent" in kv and kv["ent"].isdigit() and int(kv["ent"]) > 1 + (len(f[2]) // 2) // 4294967295:
        return ("Relic.Props.C11.xar_sign_patch_entries_le", "one patch entry per 2^32-1 bytes of input",
                "Sign built a patch set of %s entries for an input of %d bytes (origTotal comes from the <size> values of the TOC)" % (kv["ent"], len(f[2]) // 2))
    if k in ("sign", "hist") and il.startswith("ok ") and mres.split(" ")[:2] in (["err", "ffront"], ["err", "fnosum"], ["err", "sigfield"], ["err", "sigtile"]):
        return ("Relic.Props.C01.xar_sign_refuses_bad_layouts", mres,
                "Sign accepted an archive it cannot re-sign correctly (%s): %s" % (
                    {"ffront": "a member begins in front of the end of the old signature area", "fnosum": "a member with data has no <archived-checksum>",
                     "sigfield": "a signature element has an unusable <size> / <offset>", "sigtile": "the old signature areas do not tile the start of the heap"}[mres.split(" ")[1]],
                    il[:160]))
    if k == "sign" and il.startswith("ok "):
        a = _input(op)
        verdict = kv.get("verify", "?")
        if prop in ("C01", "C08", "C03") and a.regular() and "reg=0" in tag:
            return ("Relic.Props.C01.xar_sign_then_verify (hypotheses)", "regularDoc = true",
                    "an archive the check's own reader calls regular is outside the class Relic.Xar.regularDoc the theorem is stated for")
        if prop in ("C01", "C08", "C03") and a.regular() and f[5] in HGO and not verdict.startswith("ok_"):
            return ("Relic.Props.C01.xar_sign_then_verify", "verify=ok", "relic's verifier rejects what relic signed: verify=" + verdict)
        if prop in ("C01", "C08") and verdict.startswith("ok_") and verdict.split("_")[1] != "hf=" + f[5]:
            return ("Relic.Props.C01.xar_sign_then_verify", "hf=" + f[5], "the verifier names another digest than the one requested: " + verdict)
        if prop in ("C01", "C08") and not verdict.startswith("ok_") and a.ok and any(it["kind"] == "data" and it["len"] and it["style"] is None for it in a.items):
            return ("Relic.Props.C01.xar_sign_then_verify", "verify=ok or the input is refused",
                    "Sign accepted an archive with a member without <archived-checksum>; Verify rejects the result: " + verdict)
        if prop == "C03":
            if any(kv.get(x) != "1" for x in ("lens", "cks", "pad", "tail")) or kv.get("hdr", "").split(",")[:2] != ["28", "1"]:
                return ("Relic.Props.C03.xar_written_layout", "header/TOC/checksum/padding/tail as laid out", "written file: " + " ".join(
                    "%s=%s" % (x, kv.get(x)) for x in ("hdr", "lens", "cks", "pad", "tail")))
            bad = _tables_differ(_table(kv.get("min", "-")), _table(kv.get("mout", "-")))
            if bad:
                return ("Relic.Props.C03.xar_payload_preserved", "every heap range keeps its bytes, or the input is refused", "signing reported success but " + bad)
    if k == "sign" and il.startswith("err") and prop in ("C01", "C08") and f[5] in HGO:
        a = _input(op)
        if a.regular():
            return ("Relic.Props.C01.xar_sign_then_verify", "ok", "a regular archive was refused: " + il)
    if k == "hist":
        a = _input(op)
        if il.startswith("err") and a.regular():
            return ("Relic.Props.C08.xar_history", "every round verifies", "signer module: " + il[:300])
        if il.startswith("ok ") and prop in ("C08", "C03"):
            tabs = [_table(t) for t in kv.get("tables", "").split("/")]
            for i, t in enumerate(tabs[1:]):
                bad = _tables_differ(tabs[0], t)
                if bad:
                    return ("Relic.Props.C08.xar_history", "every round keeps every heap range", "after round %d: %s" % (i + 1, bad))
    if k == "mutate":
        fs = _mutate_findings(f, il, mres)
        if fs and any(x[0] in ("panic", "tamper") for x in fs):
            fs.sort(key=lambda x: ["panic", "tamper", "child", "rsa"].index(x[0]))
            return fs[0][1]
        if not equiv(op, il, mres) and il.startswith("ok ") and mres.startswith("ok "):
            # the verifier's answer on one of the mutants is not the model's: name that mutant
            a, b = il.split(" ")[1:], mres.split(" ")[1:]
            for i, (x, y) in enumerate(zip(a, b)):
                if not equiv("XAR mutate", "ok " + x, "ok " + y):
                    return ("Relic.Props.C02.xar_checked_streams", y, "mutant %s: the verifier answers %s where the model of Open + Verify answers %s" % (
                        "(unmutated file)" if i == 0 else f[5 + i], x, y))
        if fs:
            fs.sort(key=lambda x: ["child", "rsa"].index(x[0]))
            return fs[0][1]
    return None


def _mutate_findings(f, il, mres):
    """(kind, finding) per mutant the verifier should have rejected"""
    out = []
    if not il.startswith("ok "):
        return out
    a = Arch(_b(f[2]))
    outs = il.split(" ")[1:]
    mouts = mres.split(" ")[1:] if mres.startswith("ok ") else []
    if not a.ok or not outs or not outs[0].startswith("base=ok"):
        return out
    prot, sigbytes, child = _protected(a)
    for i, (m, o) in enumerate(zip(f[6:], outs[1:])):
        pos = int(m.split(":")[0])
        if o.startswith("panic") and (i + 1 >= len(mouts) or mouts[i + 1] != o):
            out.append(("panic", ("Relic.Props.C02 (xar verify)", "fail", "verifier panicked on a mutated file: " + o)))
        elif o.startswith("ok_") and pos in child:
            out.append(("child", ("Relic.Props.C02.xar_tamper_evident_full", "fail", "byte %d lies in member %s, whose parent <file> carries data itself; the verifier accepted "
                                  "the mutant (gatherDataFiles does not descend below a file with data)" % (pos, child[pos]))))
        elif o.startswith("ok_") and pos in prot:
            out.append(("tamper", ("Relic.Props.C02.xar_tamper_evident", "fail", "byte %d (%s) lies in the protected set yet the verifier accepted the mutant" % (pos, prot[pos]))))
        elif o.startswith("ok_") and pos in sigbytes:
            out.append(("rsa", ("Relic.Props.C02.xar_signature_change_detected_full", "fail",
                                "byte %d lies in the classic RSA signature; the verifier accepted the mutant (the RSA signature is not looked at when a CMS "
                                "signature is present)" % pos)))
    return out


def _protected(a):
    """position -> what it belongs to, for the bytes the format's signature is meant to cover; and the classic signature bytes"""
    prot = {}
    for p in list(range(0, 16)) + list(range(24, 28)):
        prot[p] = "header"
    for p in range(a.hsize, a.hsize + a.clen):
        prot[p] = "table of contents"
    sig = {}
    for e in a.sig_els():
        o, s = a._num(e, "offset"), a._num(e, "size")
        if o is None or s is None:
            continue
        lo, hi = a.base + o, a.base + o + s
        if e.tag == "checksum":
            for p in range(lo, hi):
                prot[p] = "TOC checksum"
        elif e.tag == "x-signature":
            pass     # the CMS container has its own model (Relic.Model.Cms); bytes behind its DER are padding
        elif a.toc.find("x-signature") is not None:
            for p in range(lo, hi):
                sig[p] = True
        else:
            for p in range(lo, hi):
                prot[p] = "RSA signature"
    child = {}
    withdata = [it["path"] for it in a.items if it["kind"] == "data" and it["len"]]
    for it in a.items:
        if it["kind"] == "data" and it["style"] is not None and it["len"]:
            b = a.bytes_of(it)
            if b is None:
                continue
            below = any(it["path"].startswith(w + "/") for w in withdata)
            for p in range(a.base + it["off"], a.base + it["off"] + it["len"]):
                if below:
                    child.setdefault(p, it["path"])
                else:
                    prot.setdefault(p, "member " + it["path"])
    for p in prot:
        child.pop(p, None)
    return prot, sig, child


def _ber_len(b):
    if len(b) < 2:
        return len(b)
    l = b[1]
    if l < 0x80:
        return 2 + l
    n = l & 0x7f
    if n == 0 or n > 4 or len(b) < 2 + n:
        return len(b)
    return 2 + n + int.from_bytes(b[2:2 + n], "big")


def _inflates_to(fhex, want):
    """does the TOC region really inflate to exactly `want` bytes (own zlib call, bounded)"""
    f = _b(fhex)
    if len(f) < 28:
        return False
    hsize, clen = struct.unpack(">H", f[4:6])[0], int.from_bytes(f[8:16], "big", signed=True)
    if clen <= 0:
        return False
    try:
        d = zlib.decompressobj()
        x = d.decompress(f[hsize:hsize + clen], want + 1)
        return len(x) == want and d.eof
    except Exception:
        return False


def matches_known(k, op, il, mres, tag):
    """the listed findings that are still open.  (FXAR1/2/3, F12-panic-xar.Open, F13-alloc-xar.Open/Sign are fixed: the model
    follows the repaired code, the behaviour they describe is a violation again.)"""
    ident = k.get("identity", {})
    site = ident.get("site", "")
    if not site.startswith("xar."):
        return False
    f = op.split(" ")
    kind = f[1]
    if site == "xar.Open:alloc-declared-size":
        # the header declares an uncompressed size of 16 MiB .. 10^8 (maxTOCSize) and the TOC inflates to exactly that
        u = _declared(f[2])
        return kind in ("open", "vfy") and il.startswith("alloc ") and (16 << 20) <= u <= 100000000 and _inflates_to(f[2], u)
    if site in ("xar.Verify:rsa-ignored", "xar.gatherDataFiles:children-skipped"):
        want = "rsa" if site.endswith("rsa-ignored") else "child"
        fs = _mutate_findings(f, il, mres) if kind == "mutate" else []
        return bool(fs) and all(x[0] == want for x in fs) and equiv(op, il, mres)
    return False

"""Compression layer (lib/compresshttp + the response half of cmdline/remotecmd doRequest): glue for the CHTTP ops.
Serves C09, C11, C14.  Those properties keep their own runners; the CHTTP ops run as a second correspondence under the
pseudo-properties C09CH / C11CH / C14CH (`second`), like checklib/models/ident.py does for C06."""
import os, re, types
import runner

TOKENS = ["CHTTP"]
RULE = ("CHTTP: (neg) 49 hand-written + seeded header values (case, outer/inner white space incl. VT/FF, q-values, parameters, lists, `*`, near "
        "misses, empty elements) through the real CompressRequest (which Content-Encoding it sets) and DecompressRequest (which decoder a "
        "Content-Encoding value selects: three probe streams; ErrUnacceptableEncoding). (law) the real decoders (DecompressRequest) on streams "
        "built segment by segment (write + Flush; lengths 0,1,2,100,4095,4096,32767,32768,65535,65536 and mixtures) for gzip / x-snappy-framed / "
        "identity, cut at every segment boundary, in the middle of every segment, after 1 byte, 1 byte short, without the gzip trailer, followed by "
        "4 junk bytes, empty. (srv) hand-made requests over raw connections to an httptest server running the real Middleware around a scripted, "
        "recording handler: 20 Content-Encoding line sets (several lines, white space, case, lists, unknown, empty) x 3 actual codings, 18 "
        "Accept-Encoding line sets x 3 handler scripts, header-name spellings, every cut class with clean HTTP framing (chunked with seeded chunk "
        "sizes / Content-Length), every Content-Encoding x actual-coding pair incl. empty bodies, unterminated chunked bodies and short "
        "Content-Length bodies (connection-level cut), 34 handler scripts (WriteHeader 200..503, Write of 0..100000 bytes, echo, Flush first / "
        "between / last, 2xx without body, several WriteHeader) x 9 Accept-Encoding values with and without a Content-Length preset by an outer "
        "layer, seeded scripts; the answer is decoded with the real DecompressResponse. (cli) the real doRequest (hook) with the real "
        "fileProducer against 1..3 servers behind the real Middleware: 9 advertised-encoding strings x 15 event scripts (transport errors, 503, "
        "406, a server that does not know the coding = 415, 404) x file sizes 0..200000 x 6 handler scripts x retries {0,1,3,5}. "
        "(bomb, C11) 0 / 1 / 16 / 80 MiB of zeros under each coding through the real Middleware, the handler counts. (sbuf, C11) the real Sign of the "
        "appmanifest and cat signers on 0 / 1 / 1000 / limit / limit+1 / limit+2 zero bytes and on a stream that never ends: bytes taken from the "
        "stream and whether the input was refused for its size. (conc, C14) 2..32 requests "
        "released at once against one server (mixed codings, refused, cut, wrongly labelled), 6 rounds. Bodies are not shipped: ops carry segment "
        "lengths and a seed, the model runs on one-byte stand-ins with toy codecs and both sides print outcomes relative to what was sent "
        "(c:full, c:seg<j>, c:wire, failed, openerr). Non-trivial = distinct op that reaches a decoder, the middleware or the client loop.")
TRUSTED = ["Relic.Model.CompressHttp is hand-written from lib/compresshttp/{compress,middleware}.go and cmdline/remotecmd/client.go; tied by "
           "differential execution on every run and by the regenerated tables of tools/extractchttp (Relic.Generated.CompressHttp)",
           "compress/gzip and golang/snappy are parameters (Codec): dec(enc ws) = plainOf ws, the constructor check `opens`, `dec [] = some p -> p = []`; "
           "the laws and the cut behaviour are compared with the toy instances on every `law`/`srv` op (framing assumption: a proper prefix of a "
           "gzip stream never decodes - holds; of an x-snappy-framed stream - FALSE at chunk boundaries, see F-chttp-snappy-eos)",
           "all three readers pass an error of the underlying stream on, so a body whose HTTP framing does not end cleanly is never read to a clean "
           "end (net/http: unterminated chunked body / short Content-Length => io.ErrUnexpectedEOF); exercised by the cutchunk/clshort ops",
           "net/http: textproto trims SP/HTAB around field values, Header.Get returns the first line, the first WriteHeader wins and snapshots the "
           "header map, Write/Flush imply WriteHeader(200), http.Error (Go 1.23) drops Content-Length, Transport adds `Accept-Encoding: gzip` and "
           "undoes it when the caller set none",
           "tools/extractchttp (go/ast -> Lean tables)"]
ASSUMPTIONS = ["handlers do not set Content-Length themselves after the middleware has been entered (none in server/ does); a length set before is modelled (preCL)",
               "statuses 1xx, 204 and 304 are not used by handlers (net/http forbids a body there)",
               "header values stay in visible ASCII + SP/HTAB/VT/FF (strings.TrimSpace restricted to ASCII white space, as in Relic.Model.Transport)",
               "one script entry per call of http.Client.Do (Relic.Model.Transport); the handler reads the body to its end before answering"]
UNPROVED = ["clean_prefix_never_accepted_full (false for frame-sequence codecs: snappy_clean_prefix_accepted; proved for self-delimiting codecs in "
            "truncated_never_accepted)"]
UNPROVED_C11 = ["decompress_bounded_full (false of the middleware itself: decompress_unbounded; proved: decompress_bounded_by_expansion, and "
                "buffering_signers_bounded for the signers that read their input into memory)"]

GEN = os.path.join(runner.LEAN, "Relic", "Generated", "CompressHttp.lean")


def generate(ctx):
    """T-gen: tables of lib/compresshttp and the client's fall-back condition -> lean/Relic/Generated/CompressHttp.lean"""
    tool = runner.build_tool("extractchttp")
    if os.path.exists(GEN):
        os.remove(GEN)
    r = runner.sh([tool, runner.REPO, GEN])
    if r.returncode != 0 or not os.path.exists(GEN):
        open(GEN, "w").write("/- GENERATED: extractor failed: %s -/\nnamespace Relic.Generated.CompressHttp\nend Relic.Generated.CompressHttp\n"
                             % r.stdout.replace("-/", "- /")[-400:])
    return ["Relic.Props.C09.generated_prefs_eq (regenerated Relic.Generated.CompressHttp)", "Relic.Props.C09.generated_consts_eq",
            "Relic.Props.C09.generated_switch_eq", "Relic.Props.C09.generated_statuses_eq", "Relic.Props.C14.compresshttp_package_state_readonly",
            "Relic.Props.C11.generated_buffering_eq"]


# ---------------------------------------------------------------------------------------------
# helpers

def _f(op):
    return op.split(" ")


def _vals(s):
    if s == "-":
        return []
    return ["" if v == "." else bytes.fromhex(v).decode("latin-1") for v in s.split(",")]


def _kv(line):
    d = {}
    for p in line.replace(",", " ").split(" "):
        if "=" in p:
            k, v = p.split("=", 1)
            d[k] = v
    return d


SP = " \t\n\r\x0b\x0c"


def _tokens(a):
    return [e.split(";")[0].strip(SP) for e in a.split(",")]


def _select(a):
    t = _tokens(a)
    return "x-snappy-framed" if "x-snappy-framed" in t else "gzip" if "gzip" in t else ""


def _coding(v):
    return {"": "id", "identity": "id", "gzip": "gz", "x-snappy-framed": "sn"}.get(v)


def _first(vals):
    return vals[0].strip(" \t") if vals else ""


def canon_model(op, mres):
    return mres


def equiv(op, il, mres):
    if il == mres:
        return True
    f = _f(op)
    if f[1] == "bomb":
        return il.split(" ")[:2] == mres.split(" ")[:2]
    return False


def weight(op):
    f = _f(op)
    if f[1] == "conc":
        return max(1, op.count(";") + 1)
    return 1


def nontrivial(op, mres, tag):
    return mres.startswith("ok")


def branch(op, mres, tag):
    f = _f(op)
    k = f[1]
    if k == "neg":
        return "neg:" + " ".join(mres.split(" ")[1:])
    if k == "law":
        return "law:%s:%s:%s" % (f[2], re.sub(r"\d+", "", f[4]), mres.split(" ")[-1].rstrip("0123456789"))
    if k == "srv":
        d = _kv(mres)
        return "srv:st=%s:ce=%s:ran=%s:dec=%s" % (d.get("st"), "y" if d.get("ce", "-") != "-" else "n", re.sub(r"\d+", "", d.get("ran", "?")), d.get("dec"))
    if k == "cli":
        return "cli:" + ":".join(mres.split(" ")[-1].split(":")[:2] + mres.split(" ")[-1].split(":")[3:])
    if k == "bomb":
        return "bomb:" + f[2]
    if k == "sbuf":
        return "sbuf:%s:%s" % (f[2], mres.split("res=")[-1])
    if k == "conc":
        return "conc:n=" + f[2]
    return k


# ---------------------------------------------------------------------------------------------
# the properties, evaluated on what the implementation did

def _pred_exchange(prop, ce, ae, wc, segs, cut, xfer, pre, hops, res, where=""):
    """res: dict of the result fields of one exchange"""
    P = "Relic.Props.C09."
    st = int(res.get("st", "0"))
    ran, dec, rce = res.get("ran", "?"), res.get("dec", "?"), res.get("ce", "-")
    cev, aev = _vals(ce), _vals(ae)
    coding = _coding(_first(cev))
    # unknown_encoding_refused
    if coding is None and (st != 415 or ran != "-" or dec != "c:msg415"):
        return (P + "unknown_encoding_refused", "st=415 ran=- dec=c:msg415", where + "an unrecognised Content-Encoding was not refused with 415 before the handler ran")
    # truncated_never_accepted: connection-level cut
    if xfer in ("cutchunk", "clshort") and ran.startswith("c:"):
        return (P + "truncated_never_accepted", "ran=- or ran=failed", where + "a body whose HTTP framing does not end was read to a clean end: " + ran)
    # clean prefix of an encoded stream accepted as a shorter body
    if coding == wc and _proper(wc, _lens(segs), cut) and ran.startswith("c:"):
        return (P + "truncated_never_accepted", "ran=failed (or 400)", where + "a cleanly ended proper prefix of an encoded stream was accepted as body: " + ran)
    # roundtrip_request
    if coding == wc and cut == "full" and xfer in ("chunked", "cl") and coding is not None:
        if ran != "c:full":
            return (P + "roundtrip_request", "ran=c:full", where + "the handler did not read the bytes that were sent: " + ran)
        if res.get("rcl") != "-1":
            return (P + "roundtrip_request", "rcl=-1", where + "request.ContentLength is not -1 after DecompressRequest: " + str(res.get("rcl")))
    # response_encoding_only_if_accepted
    if rce != "-":
        v = bytes.fromhex(rce).decode("latin-1")
        if v not in ("gzip", "x-snappy-framed") or v not in _tokens(_first(aev)) or v != _select(_first(aev)):
            return (P + "response_encoding_only_if_accepted", "Content-Encoding absent or the selected listed token",
                    where + "the answer carries Content-Encoding %r for Accept-Encoding %r" % (v, _first(aev)))
    # error_responses_uncompressed
    if st >= 300 and rce != "-":
        return (P + "error_responses_uncompressed", "ce=-", where + "an answer with status %d carries a Content-Encoding" % st)
    # content_length_consistent
    if res.get("cl") != "ok":
        return (P + "content_length_consistent", "cl=ok", where + "Content-Length of the answer does not match its body")
    # roundtrip_response
    if ran != "-" and dec != "c:full":
        return (P + "roundtrip_response_partial", "dec=c:full", where + "relic's client does not read what the handler wrote: dec=" + dec)
    if ran == "-" and dec not in ("c:msg415", "c:msg400"):
        return (P + "roundtrip_response_partial", "the middleware's own text", where + "dec=" + dec)
    if res.get("ae") != "782d736e617070792d6672616d65642c20677a6970":
        return (P + "generated_consts_eq", "Accept-Encoding: x-snappy-framed, gzip on every answer", where + "ae=" + str(res.get("ae")))
    return None


def _lens(segs):
    return [] if segs == "-" else [int(x) for x in segs.split(",")]


def _proper(wc, lens, cut):
    """is the cut stream a proper prefix of the encoder's output? (gzip streams are never empty; an x-snappy-framed stream is its frames)"""
    if wc not in ("gz", "sn") or cut in ("full", "junk"):
        return False
    if wc == "gz":
        return True
    if cut in ("empty", "hdr1", "last1"):
        return any(n > 0 for n in lens)
    if cut.startswith("seg"):
        return any(n > 0 for n in lens[int(cut[3:]):])
    if cut.startswith("mid"):
        return any(n > 0 for n in lens[int(cut[3:]) - 1:])
    return False


def predicate(prop, op, il, mres, tag):
    f = _f(op)
    k = f[1]
    if il.startswith(("panic", "crash", "not-run")):
        return ("Relic.Props.C11.decompress_total", mres, "implementation crashed: " + il[:200])
    if not il.startswith("ok "):
        if prop == "C11" and k in ("srv", "law", "bomb", "sbuf"):
            return ("Relic.Props.C11.decompress_total", mres, "a malformed or huge stream was not answered in an orderly way: " + il[:200])
        return None
    if prop == "C11" and k not in ("bomb", "sbuf"):
        # C11 on these ops: no crash, no hang, the tie (outcome = model's outcome) and: a malformed stream is an error for the handler
        if k == "srv":
            d = _kv(il[3:])
            wc, cut, xfer, ran = f[4], f[6], f[7], d.get("ran", "?")
            malformed = xfer in ("cutchunk", "clshort") or (_coding(_first(_vals(f[2]))) == wc and (cut == "junk" and wc != "id" or _proper(wc, _lens(f[5]), cut)))
            # (an x-snappy-framed stream cut at a chunk boundary is a well-formed shorter stream: F-chttp-snappy-eos, listed under C09)
            boundary = wc == "sn" and (cut.startswith("seg") or cut == "empty") and xfer in ("chunked", "cl")
            if malformed and not boundary and ran.startswith("c:"):
                return ("Relic.Props.C09.truncated_never_accepted (C11: malformed stream)", "ran=- or ran=failed",
                        "a malformed / cut stream was handed to the handler as a complete body: " + ran)
        return None
    if k == "srv":
        return _pred_exchange(prop, f[2], f[3], f[4], f[5], f[6], f[7], f[8], f[9], _kv(il[3:]))
    if k == "conc":
        specs = f[3].split(";")
        rs = il[3:].split("|")
        ms = mres[3:].split("|")
        for i, (sp, r) in enumerate(zip(specs, rs)):
            p = sp.split("/")
            if i < len(ms) and r != ms[i]:
                bad = _pred_exchange(prop, p[0], p[1], p[2], p[3], p[4], "chunked", "-", p[5], _kv(r), "request %d of %d: " % (i, len(specs)))
                if bad is None or "F-" in bad[2]:
                    return ("Relic.Props.C14.codec_state_not_shared", ms[i], "request %d of %d got %s when served concurrently" % (i, len(specs), r))
                return ("Relic.Props.C14.codec_state_not_shared", bad[1], bad[2])
        return None
    if k == "law":
        wc, segs, cut = f[2], f[3], f[4]
        r = il[3:]
        if _proper(wc, _lens(segs), cut) and r.startswith("c:"):
            return ("Relic.Props.C09.truncated_never_accepted", "failed / openerr", "the real decoder reads a proper prefix of its own stream to a clean end: " + r)
        if cut == "full" and r != "c:full":
            return ("Relic.Props.C09.roundtrip_request", "c:full", "dec(enc x) != x for the real codec: " + r)
        return None
    if k == "cli":
        parts = il.split(" ")
        atts = [] if parts[1] == "-" else parts[1].split(",")
        for a in atts:
            if a.split(":")[2] not in ("full", "x"):
                return ("Relic.Props.C09.transport_preserves_digest", "every delivered body is the whole file", "attempt %s" % a)
        fin = parts[-1]
        if fin.startswith("resp:"):
            if atts and atts[-1].split(":")[2] != "full":
                return ("Relic.Props.C09.transport_preserves_digest", "the accepted attempt carried the whole file", atts[-1])
            if not fin.endswith(":c:full"):
                return ("Relic.Props.C09.remote_equals_standalone", "resp:…:c:full", "the caller of doRequest does not read what the server wrote: " + fin)
        # a server that cannot decode the chosen coding: the client should fall back, it gives up instead
        ev = f[5].split(",")
        if fin == "httperr:415" and len(atts) <= len(ev) and ev[len(atts) - 1] == "u":
            return ("Relic.Props.C09.fallback_on_415", "retry without compression (as on 406)",
                    "the server refused the request coding with 415; doRequest treats only 406 as a reason to resend uncompressed")
        if fin == "neterr" and mres.split(" ")[-1] == "neterr" and "#" not in mres:
            return None
        return None
    if k == "bomb":
        # the middleware itself hands on every decoded byte (Relic.Props.C11.decompress_unbounded): characterised by the tie, the
        # bound that matters is the one of the signers that buffer (sbuf ops)
        return None
    if k == "sbuf":
        d = _kv(il[3:])
        mx = {"appmanifest": 64 << 20, "cat": 256 << 20}.get(f[2])
        if mx is None:
            return None
        held = int(d.get("held", "-1"))
        n = None if f[3] == "inf" else int(f[3])
        if held > mx + 1:
            return ("Relic.Props.C11.buffering_signers_bounded", "held <= %d" % (mx + 1),
                    "the %s signer took %d bytes of its input into memory (nothing bounds the decoded size of an upload)" % (f[2], held))
        if (n is None or n > mx) and d.get("res") != "toolarge":
            return ("Relic.Props.C11.buffering_signers_bounded", "res=toolarge", "an input above the limit was handed to the parser")
        if n is not None and n <= mx and (d.get("res") != "parser" or held != n):
            return ("Relic.Props.C11.buffering_signers_bounded", "held=%d res=parser" % n, "an input within the limit was not handed to the parser whole")
        return None
    return None


def matches_known(kn, op, il, mres, tag):
    ident = kn.get("identity", {})
    site = ident.get("site", "")
    f = _f(op)
    k = f[1]
    if not il.startswith("ok "):
        return False
    def flush_first(hops):
        h = hops.split(",")
        i = 0
        while i < len(h) and h[i] == "F":
            i += 1
        return i > 0 and i < len(h)
    def no_body_2xx(hops):
        h = hops.split(",")
        return bool(h) and h[0].startswith("H") and h[0][1:].isdigit() and int(h[0][1:]) < 300 and not any(x[0] in "WE" for x in h)
    if site == "compresshttp.responseCompressor.Flush":
        if k == "srv":
            d = _kv(il[3:])
            return flush_first(f[9]) and _select(_first(_vals(f[3]))) != "" and d.get("ran", "-") == "c:full" and d.get("dec") in ("c:other", "failed", "error")
        if k == "cli":
            return flush_first(f[7]) and not il.split(" ")[-1].endswith(":c:full") and il.split(" ")[-1].startswith(("resp:", "neterr"))
        if k == "conc":
            return any(flush_first(s.split("/")[5]) for s in f[3].split(";"))
    if site == "compresshttp.responseCompressor.WriteHeader":
        if k == "srv":
            d = _kv(il[3:])
            return no_body_2xx(f[9]) and _select(_first(_vals(f[3]))) == "gzip" and d.get("ran", "-") == "c:full" and d.get("dec") == "error"
        if k == "cli":
            acc = _vals(f[2])
            return no_body_2xx(f[7]) and _select(acc[0] if acc else "") == "gzip" and il.split(" ")[-1] == "neterr"
    if site == "compresshttp.decompress(x-snappy-framed)":
        if k == "srv":
            d = _kv(il[3:])
            return f[4] == "sn" and _coding(_first(_vals(f[2]))) == "sn" and (f[6].startswith("seg") or f[6] == "empty") and \
                f[7] in ("chunked", "cl") and d.get("ran", "").startswith("c:seg")
        if k == "law":
            return f[2] == "sn" and (f[4].startswith("seg") or f[4] == "empty") and il[3:].startswith("c:seg")
    if site == "remotecmd.doRequest":
        return k == "cli" and il.split(" ")[-1] == "httperr:415" and "u" in f[5].split(",")
    if site == "compresshttp.DecompressRequest":
        return k == "bomb" and f[2] == "gz" and "decoded=" in il
    return False


# ---------------------------------------------------------------------------------------------
# second correspondence under a pseudo-property

def second(ctx, prop, pseudo, cov, findings, known):
    """run the CHTTP ops of `prop` (generator registered under `pseudo` in harness/cmd/vh/chttp.go) and merge the results"""
    from composite import install as _install
    rops = ctx.get("replay_ops")
    if rops and not all(o.startswith("CHTTP ") for o in rops):
        return cov, findings, known
    ns = {"TIE": "corr:chttp", "TIE_THEOREM": "Relic.Props.%s (fragment %s_CHttp.lean: model Relic.Model.CompressHttp vs lib/compresshttp and "
          "cmdline/remotecmd doRequest, real Middleware / DecompressResponse / doRequest in-process)" % (prop, prop), "IMPL_PARALLEL": 4}
    _install(ns, prop, ["chttp"])
    # the shared correspondence filters known findings by the property name it runs under
    orig = runner.load_known
    runner.load_known = lambda: [dict(k, property=pseudo) if k.get("property") == prop else k for k in orig()]
    try:
        c2, f2, k2 = runner.correspondence(pseudo, ctx, types.SimpleNamespace(**ns))
    finally:
        runner.load_known = orig
    for key in ("evaluations", "op_lines", "distinct_nontrivial", "traces_validated_against_impl"):
        cov[key] = cov.get(key, 0) + c2.get(key, 0)
    cov.setdefault("op_kinds", {}).update(c2.get("op_kinds", {}))
    cov.setdefault("model_branches", {}).update({"chttp " + k: v for k, v in list(c2.get("model_branches", {}).items())[:25]})
    if ns["RULE"] not in cov.get("rule", ""):
        cov["rule"] = (cov.get("rule", "") + " || " if cov.get("rule") else "") + ns["RULE"]
    k2 = [(dict(k, property=prop), op) for k, op in k2]
    return cov, findings + f2, known + k2


def replay_only_chttp(ctx):
    rops = ctx.get("replay_ops")
    return bool(rops) and all(o.startswith("CHTTP ") for o in rops)

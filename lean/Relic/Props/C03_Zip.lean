/-
  C03 (ZIP family) — JAR-style rewriting (`insertSignature`: added members in front, kept members
  re-emitted with `AddFile`, deleted members cut out, directory rewritten) preserves every kept member.
  Model: Relic.Model.ZipRewrite; lemmas: Relic/Proofs/ZipRewrite.lean.

  `zip_rewrite_preserves_members` is proved at the level of relic's own layout bookkeeping, for every
  method / descriptor / ZIP64 variant relic can measure: the directory that is serialised lists the
  requested members followed by the kept members in input order with unchanged metadata, and every
  offset in it points at the member's original bytes (header, name, extra, data, descriptor) in the
  output.  What is NOT proved is the last step to the independent reader — that `Relic.Spec.Zip.parse`
  of the serialised directory returns exactly these entries (`zip_rewrite_preserves_members_full`);
  it is checked by evaluation on concrete archives here and on every generated archive by the tie.

  F9: on the tree without fix-F9 the loop does not check the layout; `zip_prefix_breaks`.
-/
import Relic.Proofs.ZipRewrite
namespace Relic.Props.C03
open Relic Relic.Zip

/-- members laid out back to back from offset 0 up to the central directory, as relic measures
    them (`GetTotalSize`): the layout `AddFile`'s running offsets assume -/
def contiguous0 (ms : List Member) (d : Directory) : Prop := contigMs 0 ms d.dirLoc

instance (ms : List Member) (d : Directory) : Decidable (contiguous0 ms d) := by unfold contiguous0; infer_instance

/-- relic-readable (JAR path): the directory is found and parsed, the single forward pass measures
    every member (local header present, descriptor carries its signature and consistent sizes) and
    there is a manifest.  `ms` = the members as measured. -/
def relicReadable (z : Bytes) (d : Directory) (ms : List Member) : Prop := jarRead z = .ok (d, ms)

theorem readWithDirectory_dirLoc (size : Nat) (cd : Bytes) (d : Directory) (h : readWithDirectory size cd = .ok d) :
    d.dirLoc ≤ size := by
  unfold readWithDirectory at h
  split at h
  · simp only at h
    split at h
    · simp only [Res.ok.injEq] at h; subst h; exact Nat.sub_le _ _
    · split at h
      · simp only [Res.ok.injEq] at h; subst h; exact Nat.sub_le _ _
      · cases h
  all_goals cases h

/-- **relicReadable_meta.** What was read: the directory lies inside the file, and the forward pass
    measured one member per directory entry, in directory order, with name, method, flags, sizes,
    extra, comment and offset as the directory has them. -/
theorem relicReadable_meta (z : Bytes) (d : Directory) (ms : List Member) (hr : relicReadable z d ms) :
    d.dirLoc ≤ z.length ∧ ms.map (fun m => fileMeta m.file) = d.files.map fileMeta := by
  unfold relicReadable jarRead at hr
  split at hr
  · split at hr
    · cases hr
    · split at hr
      · rename_i d' hd
        split at hr
        · rename_i ms' hms
          split at hr
          · simp only [Res.ok.injEq, Prod.mk.injEq] at hr
            obtain ⟨rfl, rfl⟩ := hr
            exact ⟨readWithDirectory_dirLoc _ _ _ hd, passMembers_meta _ _ _ _ hms⟩
          · cases hr
        all_goals cases hr
      all_goals cases hr
  all_goals cases hr

/-- `AddFile` changes nothing of an entry but its offset (and the raw-re-emission marker) -/
theorem placed_meta (o : Nat) (m : Member) :
    (placed o m).name = m.file.name ∧ (placed o m).method = m.file.method ∧ (placed o m).flags = m.file.flags ∧
    (placed o m).crc = m.file.crc ∧ (placed o m).csize = m.file.csize ∧ (placed o m).usize = m.file.usize ∧
    (placed o m).extra = m.file.extra ∧ (placed o m).comment = m.file.comment ∧ (placed o m).offset = o := by
  simp [placed]

/-- what the rewrite is claimed to produce, with the kept members `shift` bytes further than the
    directory says (`shift = 0`: correct) -/
def Layout (z : Bytes) (ms : List Member) (news : List NewMember) (mt md : Nat) (shift : Nat) (out : Bytes) : Prop :=
  ∃ (nd : Directory),
    let added := newEntries mt md news 0
    let kept := assign jarKeep ms added.2.length
    -- the bytes: added members, (retained leading bytes), the kept members' extents back to back, the new directory
    out = added.2 ++ z.take shift ++ keptBytes z jarKeep ms ++ (writeDirectory nd false).1 ++ (writeDirectory nd false).2.1 ∧
    -- the directory that is serialised: requested members first, then the kept members in input order,
    -- each with the metadata it had (only `offset` and the raw-re-emission marker change)
    nd.files = added.1 ++ kept.map (fun p => placed p.1 p.2) ∧
    kept.map (·.2) = ms.filter (fun m => jarKeep m.file) ∧
    -- the recorded directory offset, against where the directory really starts
    nd.dirLoc + shift = (added.2 ++ z.take shift ++ keptBytes z jarKeep ms).length ∧
    -- every kept entry: the member's original bytes are at its offset (+ shift)
    locatedAt z out shift kept ∧
    -- every added entry is the requested one and its offset points at the requested bytes
    (∀ p ∈ added.1.zip news, (out.drop p.1.offset).take (newBytes mt md p.2).length = newBytes mt md p.2 ∧
      p.1 = newEntryAt mt md p.2 p.1.offset) ∧
    added.1.length = news.length

theorem assign_members (keep : File → Bool) : ∀ (ms : List Member) (o : Nat),
    (assign keep ms o).map (·.2) = ms.filter (fun m => keep m.file) := by
  intro ms
  induction ms with
  | nil => intro o; simp [assign]
  | cons m ms ih =>
    intro o
    by_cases hk : keep m.file = true
    · simp [assign, hk, ih]
    · simp [assign, hk, ih]

theorem newEntries_length (mt md : Nat) : ∀ (news : List NewMember) (o : Nat), (newEntries mt md news o).1.length = news.length := by
  intro news
  induction news with
  | nil => intro o; simp [newEntries]
  | cons n ns ih => intro o; simp [newEntries, ih]

/-- the common part: whatever variant of the loop ran, if the members are laid out back to back
    from `p` up to the directory, the result has the layout with shift `p` -/
theorem assemble_layout (fixed : Bool) (z : Bytes) (d : Directory) (ms : List Member) (news : List NewMember) (mt md p : Nat)
    (out : Bytes) (hlen : d.dirLoc ≤ z.length) (hc : contigMs p ms d.dirLoc)
    (h : jarAssemble fixed z d ms news mt md = .ok out) : Layout z ms news mt md p out := by
  unfold jarAssemble at h
  have hA := addNews_spec mt md news [] { files := [], size := 0, dirLoc := 0 }
  rcases hB : addNews mt md news ([], { files := [], size := 0, dirLoc := 0 }) with ⟨body, nd0⟩
  rw [hB] at h hA
  simp only [List.nil_append, Nat.zero_add] at hA
  obtain ⟨a1, a2, a3, _⟩ := hA
  simp only at h
  split at h
  · rename_i nd dels pos hw
    split at h
    · cases h
    · split at h
      · cases h
      obtain ⟨w1, w2, w3, _, _⟩ := walk_spec fixed true jarKeep ms 0 nd0 [] nd dels pos hw
      simp only [Res.ok.injEq] at h
      have hp : p ≤ d.dirLoc := contig_le ms p _ hc
      have hk : applyDels z 0 dels d.dirLoc = z.take p ++ keptBytes z jarKeep ms := by
        rw [w3, List.nil_append, applyDels_split z 0 p _ _ (Nat.zero_le _) (firstStart_ge jarKeep ms p _ hc),
          applyDels_contig z jarKeep ms p _ hc]
        simp
      have hkl := keptBytes_length z jarKeep ms p _ hc hlen
      have htl : (z.take p).length = p := by simp; omega
      refine ⟨nd, ?_, ?_, assign_members jarKeep ms _, ?_, ?_, ?_, newEntries_length mt md news 0⟩
      · rw [← h, hk, a1]; simp [List.append_assoc]
      · rw [w1, a2, a3]
      · rw [w2, a3]; simp only [List.length_append, hkl, htl]; omega
      · rw [← h, hk, a1]
        have := assign_located z jarKeep p ms p d.dirLoc ((newEntries mt md news 0).2 ++ z.take p)
          ((writeDirectory nd false).1 ++ (writeDirectory nd false).2.1) (newEntries mt md news 0).2.length hc hlen
          (by simp only [List.length_append, htl])
        simpa [List.append_assoc] using this
      · rw [← h, hk, a1]
        intro q hq
        have := newEntries_located mt md news 0 [] (z.take p ++ keptBytes z jarKeep ms ++ (writeDirectory nd false).1 ++
          (writeDirectory nd false).2.1) rfl q hq
        simpa [List.append_assoc] using this
  · cases h
  · cases h
  · cases h

/-- the code with fix-F9 only succeeds on contiguous input -/
theorem assemble_fixed_contig (z : Bytes) (d : Directory) (ms : List Member) (news : List NewMember) (mt md : Nat) (out : Bytes)
    (h : jarAssemble true z d ms news mt md = .ok out) : contiguous0 ms d := by
  unfold jarAssemble at h
  rcases hB : addNews mt md news ([], { files := [], size := 0, dirLoc := 0 }) with ⟨body, nd0⟩
  rw [hB] at h
  simp only at h
  split at h
  · rename_i nd dels pos hw
    obtain ⟨_, _, _, _, w5⟩ := walk_spec true true jarKeep ms 0 nd0 [] nd dels pos hw
    split at h
    · cases h
    · rename_i hne
      have : pos = d.dirLoc := by simpa using hne
      unfold contiguous0
      rw [← this]
      exact w5 rfl
  · cases h
  · cases h
  · cases h

/-- **zip_rewrite_preserves_members.**  JAR-style rewrite, code as it stands (with fix-F9).
    Hypotheses: the input was read by relic (`relicReadable z d ms`: directory parsed, every member
    measured in the forward pass, manifest present) and signing succeeded.  Conclusion: the input was
    `contiguous0`, and the output consists of exactly the requested members, then the kept members'
    original bytes in input order, then a directory that lists the requested members followed by
    the kept ones with unchanged metadata, every offset pointing at the member's bytes. -/
theorem zip_rewrite_preserves_members (z : Bytes) (d : Directory) (ms : List Member) (news : List NewMember) (mt md : Nat)
    (out : Bytes) (hr : relicReadable z d ms)
    (h : jarRewrite z news mt md = .ok out) :
    contiguous0 ms d ∧ Layout z ms news mt md 0 out := by
  have hlen := (relicReadable_meta z d ms hr).1
  have h' : jarAssemble true z d ms news mt md = .ok out := by
    unfold relicReadable at hr
    simpa [jarRewrite, jarRewriteWith, hr] using h
  have hc := assemble_fixed_contig z d ms news mt md out h'
  exact ⟨hc, assemble_layout true z d ms news mt md 0 out hlen hc h'⟩

/-- the same for the loop without the check (the tree before fix-F9), under the layout hypothesis of
    DESIGN.md: valid for `contiguous0` input -/
theorem zip_rewrite_preserves_members_orig (z : Bytes) (d : Directory) (ms : List Member) (news : List NewMember) (mt md : Nat)
    (out : Bytes) (hr : relicReadable z d ms) (hc : contiguous0 ms d)
    (h : jarRewriteOrig z news mt md = .ok out) : Layout z ms news mt md 0 out := by
  have hlen := (relicReadable_meta z d ms hr).1
  have h' : jarAssemble false z d ms news mt md = .ok out := by
    unfold relicReadable at hr
    simpa [jarRewriteOrig, jarRewriteWith, hr] using h
  exact assemble_layout false z d ms news mt md 0 out hlen hc h'

/-- **zip_prefix_breaks (general).**  Tree before fix-F9: if the members are laid out back to back
    starting at `p` (launcher prefix of `p` bytes, directory offsets adjusted), the rewrite succeeds
    whenever it would without the prefix, retains the prefix *after* the added members, and every kept
    member — and the directory itself — lies exactly `p` bytes after the offset recorded for it. -/
theorem zip_prefix_breaks (z : Bytes) (d : Directory) (ms : List Member) (news : List NewMember) (mt md p : Nat)
    (out : Bytes) (hr : relicReadable z d ms) (hc : contigMs p ms d.dirLoc)
    (h : jarRewriteOrig z news mt md = .ok out) : Layout z ms news mt md p out := by
  have hlen := (relicReadable_meta z d ms hr).1
  have h' : jarAssemble false z d ms news mt md = .ok out := by
    unfold relicReadable at hr
    simpa [jarRewriteOrig, jarRewriteWith, hr] using h
  exact assemble_layout false z d ms news mt md p out hlen hc h'

/-- **zip_prefix_refused.**  Code as it stands: such an input (`p > 0`) is refused. -/
theorem zip_prefix_refused (z : Bytes) (d : Directory) (ms : List Member) (news : List NewMember) (mt md p : Nat)
    (hr : relicReadable z d ms) (hp : p > 0) (hne : ms ≠ [] ∨ d.dirLoc ≠ 0) (hc : contigMs p ms d.dirLoc) :
    ∀ out, jarRewrite z news mt md ≠ .ok out := by
  intro out h
  have h' : jarAssemble true z d ms news mt md = .ok out := by
    unfold relicReadable at hr
    simpa [jarRewrite, jarRewriteWith, hr] using h
  have h0 := assemble_fixed_contig z d ms news mt md out h'
  unfold contiguous0 at h0
  cases ms with
  | nil =>
    simp only [contigMs] at h0 hc
    rcases hne with hne | hne
    · exact hne rfl
    · omega
  | cons m ms =>
    simp only [contigMs] at h0 hc
    omega

/-! ### the step to the independent reader: statement, and evaluation on concrete archives -/

/-- The full statement (NOT PROVED): for every `Spec.Zip`-valid input that relic reads and finds
    contiguous, the standard-reader view of the output is the requested members followed by the
    input's view restricted to the kept members.  Missing: `Spec.Zip.parse ∘ WriteDirectory` is the
    identity on relic's directories (central header codec incl. ZIP64 extras, end records), and
    locality of `Spec.Zip.memberOf` under moving a member's extent. -/
def zip_rewrite_preserves_members_full : Prop :=
  ∀ (z : Bytes) (d : Directory) (ms : List Member) (news : List NewMember) (mt md : Nat) (out : Bytes) (vin : List View),
    specView z = some vin → relicReadable z d ms → contiguous0 ms d →
    (∀ n ∈ news, n.name.length < 2 ^ 16 ∧ n.extra.length < 2 ^ 16 ∧ n.compd.length < 2 ^ 32 - 1 ∧ n.usize < 2 ^ 32 - 1 ∧
      n.crc < 2 ^ 32 ∧ (n.deflate = false → n.usize = n.compd.length)) →
    jarRewrite z news mt md = .ok out →
    specView out = some (news.map newView ++ vin.filter (fun v => jarKeepName v.name))

set_option maxRecDepth 1000000

/-- a small JAR: manifest, payload `a`, an old signature file, a directory entry -/
def zJar : Bytes := [80, 75, 3, 4, 20, 0, 0, 0, 0, 0, 0, 0, 0, 0, 160, 210, 111, 218, 1, 0, 0, 0, 1, 0, 0, 0, 20, 0, 0, 0, 77, 69, 84, 65, 45, 73, 78, 70, 47, 77, 65, 78, 73, 70, 69, 83, 84, 46, 77, 70, 77, 80, 75, 3, 4, 20, 0, 0, 0, 0, 0, 0, 0, 0, 0, 131, 22, 220, 140, 1, 0, 0, 0, 1, 0, 0, 0, 1, 0, 0, 0, 97, 120, 80, 75, 3, 4, 20, 0, 0, 0, 0, 0, 0, 0, 0, 0, 11, 207, 14, 27, 1, 0, 0, 0, 1, 0, 0, 0, 15, 0, 0, 0, 77, 69, 84, 65, 45, 73, 78, 70, 47, 79, 76, 68, 46, 83, 70, 115, 80, 75, 3, 4, 20, 0, 0, 0, 0, 0, 0, 0, 0, 0, 0, 0, 0, 0, 0, 0, 0, 0, 0, 0, 0, 0, 2, 0, 0, 0, 98, 47, 80, 75, 1, 2, 20, 0, 20, 0, 0, 0, 0, 0, 0, 0, 0, 0, 160, 210, 111, 218, 1, 0, 0, 0, 1, 0, 0, 0, 20, 0, 0, 0, 0, 0, 0, 0, 0, 0, 0, 0, 0, 0, 0, 0, 0, 0, 77, 69, 84, 65, 45, 73, 78, 70, 47, 77, 65, 78, 73, 70, 69, 83, 84, 46, 77, 70, 80, 75, 1, 2, 20, 0, 20, 0, 0, 0, 0, 0, 0, 0, 0, 0, 131, 22, 220, 140, 1, 0, 0, 0, 1, 0, 0, 0, 1, 0, 0, 0, 0, 0, 0, 0, 0, 0, 0, 0, 0, 0, 51, 0, 0, 0, 97, 80, 75, 1, 2, 20, 0, 20, 0, 0, 0, 0, 0, 0, 0, 0, 0, 11, 207, 14, 27, 1, 0, 0, 0, 1, 0, 0, 0, 15, 0, 0, 0, 0, 0, 0, 0, 0, 0, 0, 0, 0, 0, 83, 0, 0, 0, 77, 69, 84, 65, 45, 73, 78, 70, 47, 79, 76, 68, 46, 83, 70, 80, 75, 1, 2, 20, 0, 20, 0, 0, 0, 0, 0, 0, 0, 0, 0, 0, 0, 0, 0, 0, 0, 0, 0, 0, 0, 0, 0, 2, 0, 0, 0, 0, 0, 0, 0, 0, 0, 0, 0, 0, 0, 129, 0, 0, 0, 98, 47, 80, 75, 5, 6, 0, 0, 0, 0, 4, 0, 4, 0, 222, 0, 0, 0, 161, 0, 0, 0, 0, 0]
/-- the same behind the 3-byte prefix `#!\n`, directory offsets adjusted (`zip -A`) -/
def zJarPre : Bytes := [35, 33, 10, 80, 75, 3, 4, 20, 0, 0, 0, 0, 0, 0, 0, 0, 0, 160, 210, 111, 218, 1, 0, 0, 0, 1, 0, 0, 0, 20, 0, 0, 0, 77, 69, 84, 65, 45, 73, 78, 70, 47, 77, 65, 78, 73, 70, 69, 83, 84, 46, 77, 70, 77, 80, 75, 3, 4, 20, 0, 0, 0, 0, 0, 0, 0, 0, 0, 131, 22, 220, 140, 1, 0, 0, 0, 1, 0, 0, 0, 1, 0, 0, 0, 97, 120, 80, 75, 3, 4, 20, 0, 0, 0, 0, 0, 0, 0, 0, 0, 11, 207, 14, 27, 1, 0, 0, 0, 1, 0, 0, 0, 15, 0, 0, 0, 77, 69, 84, 65, 45, 73, 78, 70, 47, 79, 76, 68, 46, 83, 70, 115, 80, 75, 3, 4, 20, 0, 0, 0, 0, 0, 0, 0, 0, 0, 0, 0, 0, 0, 0, 0, 0, 0, 0, 0, 0, 0, 2, 0, 0, 0, 98, 47, 80, 75, 1, 2, 20, 0, 20, 0, 0, 0, 0, 0, 0, 0, 0, 0, 160, 210, 111, 218, 1, 0, 0, 0, 1, 0, 0, 0, 20, 0, 0, 0, 0, 0, 0, 0, 0, 0, 0, 0, 0, 0, 3, 0, 0, 0, 77, 69, 84, 65, 45, 73, 78, 70, 47, 77, 65, 78, 73, 70, 69, 83, 84, 46, 77, 70, 80, 75, 1, 2, 20, 0, 20, 0, 0, 0, 0, 0, 0, 0, 0, 0, 131, 22, 220, 140, 1, 0, 0, 0, 1, 0, 0, 0, 1, 0, 0, 0, 0, 0, 0, 0, 0, 0, 0, 0, 0, 0, 54, 0, 0, 0, 97, 80, 75, 1, 2, 20, 0, 20, 0, 0, 0, 0, 0, 0, 0, 0, 0, 11, 207, 14, 27, 1, 0, 0, 0, 1, 0, 0, 0, 15, 0, 0, 0, 0, 0, 0, 0, 0, 0, 0, 0, 0, 0, 86, 0, 0, 0, 77, 69, 84, 65, 45, 73, 78, 70, 47, 79, 76, 68, 46, 83, 70, 80, 75, 1, 2, 20, 0, 20, 0, 0, 0, 0, 0, 0, 0, 0, 0, 0, 0, 0, 0, 0, 0, 0, 0, 0, 0, 0, 0, 2, 0, 0, 0, 0, 0, 0, 0, 0, 0, 0, 0, 0, 0, 132, 0, 0, 0, 98, 47, 80, 75, 5, 6, 0, 0, 0, 0, 4, 0, 4, 0, 222, 0, 0, 0, 164, 0, 0, 0, 0, 0]

def wNews : List NewMember :=
  [⟨[77, 69, 84, 65, 45, 73, 78, 70, 47], [0xfe, 0xca, 0, 0], [], 0, 0, false, false⟩,
   ⟨[77, 69, 84, 65, 45, 73, 78, 70, 47, 77, 65, 78, 73, 70, 69, 83, 84, 46, 77, 70], [0xfe, 0xca, 0, 0], [78, 10], 2, 7, false, false⟩,
   ⟨[77, 69, 84, 65, 45, 73, 78, 70, 47, 82, 46, 83, 70], [], [83], 1, 9, false, false⟩,
   ⟨[77, 69, 84, 65, 45, 73, 78, 70, 47, 82, 46, 69, 67], [], [1, 2, 3], 3, 11, false, false⟩]

def okAnd {α} (r : Res α) (p : α → Bool) : Bool := match r with | .ok a => p a | _ => false

/-- **zip_rewrite_witness.**  On `zJar` the statement holds all the way to the independent reader:
    input and output are `Spec.Zip`-valid and the output's view is added ++ kept. -/
theorem zip_rewrite_witness :
    SpecZip.valid zJar ∧
    okAnd (jarRewrite zJar wNews 100 200) (fun out => decide (SpecZip.valid out) &&
      decide (specView out = (specView zJar).map fun vin => wNews.map newView ++ vin.filter (fun v => jarKeepName v.name)) &&
      decide (((specView out).map fun v => v.map (·.name)) =
        some (wNews.map (·.name) ++ [[97], [98, 47]]))) = true := by decide

/-- **zip_prefix_breaks_witness (F9).**  `zJarPre` is a valid archive for the independent reader;
    the tree before fix-F9 rewrites it (no error) into something that is not a valid archive and that
    relic itself cannot read back; the code as it stands refuses it. -/
theorem zip_prefix_breaks_witness :
    SpecZip.valid zJarPre ∧
    okAnd (jarRewriteOrig zJarPre wNews 100 200) (fun out => !decide (SpecZip.valid out) &&
      !(jarRead out).isOk) = true ∧
    jarRewrite zJarPre wNews 100 200 = .err "notcontig" := by decide

/-- the unfixed loop does not have the property: negation of "success ⇒ valid output" with the witness -/
theorem not_orig_refuse_or_preserve :
    ¬ (∀ z news mt md out, SpecZip.valid z → jarRewriteOrig z news mt md = .ok out → SpecZip.valid out) := by
  intro hall
  have hw := zip_prefix_breaks_witness
  obtain ⟨hv, ho, _⟩ := hw
  cases hr : jarRewriteOrig zJarPre wNews 100 200 with
  | ok out =>
    rw [hr] at ho
    have := hall zJarPre wNews 100 200 out hv hr
    simp [okAnd, this] at ho
  | err e => rw [hr] at ho; simp [okAnd] at ho
  | panic s => rw [hr] at ho; simp [okAnd] at ho
  | diverge => rw [hr] at ho; simp [okAnd] at ho

/-! ### non-vacuity of the hypotheses -/

example : okAnd (jarRead zJar) (fun p => decide (contiguous0 p.2 p.1) && decide (p.1.dirLoc ≤ zJar.length) &&
    decide (p.2.length = 4)) = true := by decide
example : okAnd (jarRead zJarPre) (fun p => decide (contigMs 3 p.2 p.1.dirLoc) && !decide (contiguous0 p.2 p.1)) = true := by decide

end Relic.Props.C03

/- C16 fragment: the framing loop of `SignedManifest.AddTimestamp` (lib/appmanifest/signmanifest.go).

   The token's DER bytes are written as base64 in lines of 64 characters, i.e. the loop cuts the bytes into pieces of at
   most 48 and encodes each piece by itself (`for len(siblob) > 0 { n := min(len, 48); chunk := siblob[:n]; siblob = siblob[n:] … }`).
   What a reader decodes is the concatenation of the pieces (48 is a multiple of 3, so every line but the last encodes
   without padding and the concatenated text is the base64 text of the concatenated bytes; base64 itself is a parameter
   of the framework).  The statements: no byte is lost or duplicated for ANY length (in particular the multiples of 48),
   every line but the last is full, no line is empty.

   Tie: the `C10 ts rfc manifest 0 1 padK` ops (K = 1..50: token lengths through every residue modulo 48) run the real
   signer and relic's verifier; C16 evaluates on them that the token found in the artefact is the issued one
   (checklib/models/mfpad.py). -/
namespace Relic.Props.C16

/-- the loop, with the remaining length as fuel -/
def wrapLines (n : Nat) : Nat → List UInt8 → List (List UInt8)
  | 0, _ => []
  | fuel + 1, b => if b.length = 0 then [] else b.take n :: wrapLines n fuel (b.drop n)

/-- **wrap_lines_complete** — the pieces, concatenated, are the token: nothing is lost at any length -/
theorem wrap_lines_complete (n : Nat) (hn : 0 < n) : ∀ (fuel : Nat) (b : List UInt8), b.length ≤ fuel →
    (wrapLines n fuel b).flatten = b
  | 0, b, h => by
    have : b = [] := List.eq_nil_of_length_eq_zero (by omega)
    subst this; rfl
  | fuel + 1, b, h => by
    unfold wrapLines
    split
    · next h0 => have : b = [] := List.eq_nil_of_length_eq_zero h0
                 subst this; rfl
    · next h0 =>
      have hd : (b.drop n).length ≤ fuel := by rw [List.length_drop]; omega
      rw [List.flatten_cons, wrap_lines_complete n hn fuel (b.drop n) hd, List.take_append_drop]

/-- **wrap_lines_nonempty** — no piece is empty and none is longer than a line -/
theorem wrap_lines_bounds (n : Nat) (hn : 0 < n) : ∀ (fuel : Nat) (b : List UInt8),
    ∀ l ∈ wrapLines n fuel b, 0 < l.length ∧ l.length ≤ n
  | 0, _, l, hl => by simp [wrapLines] at hl
  | fuel + 1, b, l, hl => by
    unfold wrapLines at hl
    split at hl
    · simp at hl
    · next h0 =>
      rcases List.mem_cons.mp hl with rfl | hl
      · rw [List.length_take]; omega
      · exact wrap_lines_bounds n hn fuel (b.drop n) l hl

/-- **wrap_lines_count** — as many lines as `(len + n − 1) / n` (the capacity `AddTimestamp` computes) -/
theorem wrap_lines_count (n : Nat) (hn : 0 < n) : ∀ (fuel : Nat) (b : List UInt8), b.length ≤ fuel →
    (wrapLines n fuel b).length = (b.length + n - 1) / n
  | 0, b, h => by
    have : b = [] := List.eq_nil_of_length_eq_zero (by omega)
    subst this
    simp [wrapLines]
    exact (Nat.div_eq_of_lt (by omega)).symm
  | fuel + 1, b, h => by
    unfold wrapLines
    split
    · next h0 =>
      rw [h0]; simp
      exact (Nat.div_eq_of_lt (by omega)).symm
    · next h0 =>
      have hd : (b.drop n).length ≤ fuel := by rw [List.length_drop]; omega
      rw [List.length_cons, wrap_lines_count n hn fuel (b.drop n) hd, List.length_drop]
      by_cases hle : b.length ≤ n
      · have h1 : b.length - n = 0 := by omega
        rw [h1]
        have : (0 + n - 1) / n = 0 := Nat.div_eq_of_lt (by omega)
        rw [this]
        have : (b.length + n - 1) / n = 1 := by
          apply Nat.div_eq_of_lt_le <;> omega
        omega
      · have : b.length + n - 1 = (b.length - n + n - 1) + n := by omega
        rw [this, Nat.add_div_right _ hn]

/-- a token whose length is a multiple of the line length keeps its last line (the case a seeded change lost) -/
example : (wrapLines 48 96 (List.replicate 96 0x41)).flatten.length = 96 := by
  rw [wrap_lines_complete 48 (by decide) 96 _ (by simp)]; simp

end Relic.Props.C16

/-
  Relic.Model.Rpm — executable model of /repo/signers/rpm/signer.go (`sign`, `verify`, `nevra`) and of the parts of
  github.com/sassoftware/go-rpmutils v0.4.0 it drives:
    rpmutils.go   readSignatureHeader (96-byte lead, magic edabeedb), getHeader
    header.go     readHeader (intro 8eade801, index entries, no bounds checks at all), GetStrings, GetBytes, getInts, GetNEVRA
    signatures.go SignRpmStream, getHashAndType, getPayloadDigest, insertSignatures
    writeheader.go WriteTo (sorted tags >= 64, region tag 62 with trailer, alignment of INT16/32/64, padding of the signature
                  header to 8), DumpSignatureHeader(sameSize = true) with the RESERVEDSPACE tag 1008
    verify.go / verify_digests.go  Verify, digestAndVerify, digestPayload
  What `readHeader` does not do: it never compares an offset or a count with the size of the data store before slicing
  (`data[tag.Offset:end]`), and it allocates `Entries*16` (wrapped to uint32) and `Size` bytes before reading them.
  `SignRpmStream` computes NO digest tag: SIG_SHA1 / SIG_SHA256 / SIG_MD5 / SIG_SIZE stay as found; it inserts
  SIG_PGP (1002, header+payload) and SIG_RSA (268, header only) and deletes SIG_GPG (1005) and SIG_DSA (267).
  Since f356386 (fix of F-RPM-1..3) `sign` and `verify` run under `defer guard(&err)`: a panic of the parser becomes the error
  "malformed RPM" (`recovered`), and `nevra()` returns "" when `GetNEVRA` fails (`nevraOf`); the code before is kept as
  `signOrig` / `verifyOrig` / `verifyCoreOrig` / `nevraOrig`.
  Parameters: `H alg stream` = lower-case hex digest (alg: OpenPGP ids 1 md5, 2 sha1, 8 sha256, 9 sha384, 10 sha512,
  11 sha224); `mk headerOnly stream` = the OpenPGP signature packet made over a stream; `pgp blob` = what
  `parseSignature` makes of a blob (key id, hash); `valid blob stream` = the packet verifies over the stream under the key
  found for its key id.
-/
import Relic.Base.Bytes
import Relic.Model.Binpatch
namespace Relic.Rpm
open Relic

/-! ### integers -/

def two32 : Nat := 4294967296

/-- `int32` read from 4 big-endian bytes -/
def i32 (b : Bytes) : Int :=
  let v := beVal b
  if v < 2147483648 then (v : Int) else (v : Int) - 4294967296

/-- 4 big-endian bytes of an `int32` / truncation of an `int` to 32 bits -/
def be32i (i : Int) : Bytes := beBytes 4 (i % 4294967296).toNat

def hexNib (n : Nat) : UInt8 := if n < 10 then UInt8.ofNat (48 + n) else UInt8.ofNat (87 + n)
/-- `hex.EncodeToString` -/
def hexBytes (b : Bytes) : Bytes := b.flatMap fun x => [hexNib (x.toNat / 16), hexNib (x.toNat % 16)]

def decNat (n : Nat) : Bytes := (Nat.toDigits 10 n).map fun c => UInt8.ofNat c.toNat

/-! ### the tag map (`map[int]entry`), kept sorted by key -/

structure Entry where
  typ : Int
  count : Int
  contents : Bytes
  deriving Repr, DecidableEq

abbrev EMap := List (Int × Entry)

def ins (k : Int) (e : Entry) : EMap → EMap
  | [] => [(k, e)]
  | (k', e') :: r =>
    if k < k' then (k, e) :: (k', e') :: r
    else if k = k' then (k, e) :: r
    else (k', e') :: ins k e r

def del (k : Int) (m : EMap) : EMap := m.filter fun p => p.1 != k

def get (k : Int) : EMap → Option Entry
  | [] => none
  | (k', e) :: r => if k' = k then some e else get k r

/-! ### tags -/

def tagRegionSig : Int := 62
def tagRegions : Int := 64
def tagDSA : Int := 267
def tagRSA : Int := 268
def tagSHA1 : Int := 269
def tagSHA256 : Int := 273
def tagPGP : Int := 1002
def tagMD5 : Int := 1004
def tagGPG : Int := 1005
def tagReserved : Int := 1008
def tagName : Int := 1000
def tagVersion : Int := 1001
def tagRelease : Int := 1002
def tagEpoch : Int := 1003
def tagArch : Int := 1022
def tagPayloadDigest : Int := 5092
def tagPayloadDigestAlgo : Int := 5093

/-- `typeSizes` -/
def typeSize (t : Int) : Option Nat :=
  if t = 0 then some 0 else if t = 1 then some 1 else if t = 2 then some 1 else if t = 3 then some 2
  else if t = 4 then some 4 else if t = 5 then some 8 else if t = 7 then some 1 else none

/-- `typeAlign` -/
def typeAlign (t : Int) : Nat := if t = 3 then 2 else if t = 4 then 4 else if t = 5 then 8 else 1

def isStrType (t : Int) : Bool := t == 6 || t == 8 || t == 9

/-! ### `readHeader` -/

/-- drop one NUL-terminated string -/
def skipStr : Bytes → Option Bytes
  | [] => none
  | c :: r => if c = 0 then some r else skipStr r

def skipStrs : Nat → Bytes → Option Bytes
  | 0, b => some b
  | n + 1, b =>
    match skipStr b with
    | none => none
    | some r => skipStrs n r

/-- one index entry against the data store.  Go: `end = Offset + typeSize*Count` resp. the scan for `Count` NULs, then
    `data[tag.Offset:end]` — no comparison with `len(data)` anywhere. -/
def parseEntry (data : Bytes) (e : Bytes) : Res (Int × Entry) :=
  let tag := i32 (e.take 4)
  let typ := i32 ((e.drop 4).take 4)
  let off := i32 ((e.drop 8).take 4)
  let cnt := i32 ((e.drop 12).take 4)
  match typeSize typ with
  | some ts =>
    let stop : Int := off + (ts : Int) * cnt
    if off < 0 ∨ stop < off ∨ (data.length : Int) < stop then .panic "slice:readHeader.contents"
    else .ok (tag, ⟨typ, cnt, (data.drop off.toNat).take (stop - off).toNat⟩)
  | none =>
    if off < 0 ∨ (data.length : Int) < off then .panic "slice:readHeader.strings"
    else
      let tail := data.drop off.toNat
      match skipStrs cnt.toNat tail with
      | none => .err "truncated"
      | some r => .ok (tag, ⟨typ, cnt, tail.take (tail.length - r.length)⟩)

/-- the loop `for i := 0; i < int(intro.Entries); i++` over the entry table that was read -/
def parseEntries (data : Bytes) : Nat → Bytes → EMap → Res EMap
  | 0, _, m => .ok m
  | n + 1, tb, m =>
    if tb.length < 16 then .err "eof"
    else
      match parseEntry data (tb.take 16) with
      | .ok (k, e) => parseEntries data n (tb.drop 16) (ins k e m)
      | .err x => .err x
      | .panic s => .panic s
      | .diverge => .diverge

structure Hdr where
  ents : EMap
  orig : Bytes
  deriving Repr, DecidableEq

def magicHdr : Nat := 0x8eade801

/-- number of index entries, table bytes read (`int(intro.Entries*16)` in uint32), data bytes read -/
def introN (f : Bytes) : Nat := beVal ((f.drop 8).take 4)
def tableLen (f : Bytes) : Nat := (introN f * 16) % two32
def dataLen (sigBlock : Bool) (f : Bytes) : Nat :=
  let s := beVal ((f.drop 12).take 4)
  if sigBlock then ((s + 7) % two32) / 8 * 8 else s

/-- the comparison `calculated != hash` of `readHeader` -/
def digestBad (H : Nat → Bytes → Bytes) (chk : Option (Nat × Bytes)) (orig : Bytes) : Bool :=
  match chk with
  | some (alg, hex) => H alg orig != hex
  | none => false

/-- `readHeader(f, hash, hashType, isSource, sigBlock)`; `chk` = the digest to compare (only when `len(hash) > 1`).
    Returns the header and the unread rest of the stream. -/
def readHeader (H : Nat → Bytes → Bytes) (sigBlock : Bool) (chk : Option (Nat × Bytes)) (f : Bytes) : Res (Hdr × Bytes) :=
  if f.length < 16 then .err "intro"
  else if beVal (f.take 4) ≠ magicHdr then .err "magic"
  else
    let tl := tableLen f
    let r1 := f.drop 16
    if r1.length < tl then .err "table"
    else
      let size := dataLen sigBlock f
      let r2 := r1.drop tl
      if r2.length < size then .err "data"
      else
        let data := r2.take size
        let orig := f.take (16 + tl + size)
        if digestBad H chk orig then .err "hdrdigest"
        else
          match parseEntries data (introN f) (r1.take tl) [] with
          | .ok m => .ok (⟨m, orig⟩, r2.drop size)
          | .err x => .err x
          | .panic s => .panic s
          | .diverge => .diverge

/-- the two `make([]byte, n)` requests of `readHeader`, issued before a single byte of the table / store is read -/
def hdrAllocs (sigBlock : Bool) (f : Bytes) : List Nat :=
  if f.length < 16 then [] else if beVal (f.take 4) ≠ magicHdr then []
  else if (f.drop 16).length < tableLen f then [tableLen f]
  else [tableLen f, dataLen sigBlock f]

/-! ### accessors -/

/-- `strings.Split(s, "\x00")` -/
def splitNul : Bytes → List Bytes
  | [] => [[]]
  | c :: cs =>
    if c = 0 then [] :: splitNul cs
    else match splitNul cs with
      | [] => [[c]]
      | h :: t => (c :: h) :: t

/-- `(*rpmHeader).GetStrings`: `strs[:ent.count]` panics for a negative count -/
def getStrings (m : EMap) (tag : Int) : Res (List Bytes) :=
  match get tag m with
  | none => .err "nosuchtag"
  | some e =>
    if !isStrType e.typ then .err "strtype"
    else
      let strs := splitNul e.contents
      if e.count < 0 ∨ strs.length < e.count.toNat then .panic "slice:GetStrings"
      else .ok (strs.take e.count.toNat)

/-- `getSha1` / `getSha256`: `vals[0]` on an entry with count 0 panics -/
def getSha (m : EMap) (tag : Int) : Res Bytes :=
  match getStrings m tag with
  | .err _ => .ok []
  | .ok [] => .panic "index:getSha"
  | .ok (v :: _) => .ok v
  | .panic s => .panic s
  | .diverge => .diverge

/-- `getHashAndType` and the caller's `len(hash) > 1` -/
def headerCheck (sig : EMap) : Res (Option (Nat × Bytes)) :=
  match getSha sig tagSHA256 with
  | .ok h256 =>
    if h256 ≠ [] then .ok (if h256.length > 1 then some (8, h256) else none)
    else match getSha sig tagSHA1 with
      | .ok h1 => .ok (if h1.length > 1 then some (2, h1) else none)
      | .err x => .err x
      | .panic s => .panic s
      | .diverge => .diverge
  | .err x => .err x
  | .panic s => .panic s
  | .diverge => .diverge

/-- `(*rpmHeader).GetBytes` -/
def getBytes (m : EMap) (tag : Int) : Res Bytes :=
  match get tag m with
  | none => .err "nosuchtag"
  | some e => if e.typ = 7 then .ok e.contents else .err "bintype"

/-- first value of `getInts` as far as its callers look at it: `none` = error or no element -/
def firstInt (e : Entry) : Option Nat :=
  let w : Nat := if e.typ = 1 ∨ e.typ = 2 then 1 else if e.typ = 3 then 2 else if e.typ = 4 then 4 else if e.typ = 5 then 8 else 0
  if w = 0 then none else if e.contents.length / w = 0 then none else some (beVal (e.contents.take w))

/-- `getPayloadDigest`: (hex digest, algorithm) -/
def payloadDigest (gen : EMap) : Res (Option (Bytes × Nat)) :=
  match getStrings gen tagPayloadDigest with
  | .panic s => .panic s
  | .diverge => .diverge
  | .err _ => .ok none
  | .ok [] => .ok none
  | .ok (d :: _) =>
    match get tagPayloadDigestAlgo gen with
    | none => .ok none
    | some e =>
      -- GetUint32s refuses INT64 ("too big for int type")
      if e.typ = 5 then .ok none else
      match firstInt e with
      | none => .ok none
      | some a => if a = 1 ∨ a = 2 ∨ a = 8 ∨ a = 9 ∨ a = 10 ∨ a = 11 then .ok (some (d, a)) else .ok none

/-- `digestPayload`: the payload digest of the general header, else the legacy MD5 over header + payload, else an error -/
def digestPayload (H : Nat → Bytes → Bytes) (sig : EMap) (gen : Hdr) (payload : Bytes) : Res Unit :=
  match payloadDigest gen.ents with
  | .panic s => .panic s
  | .diverge => .diverge
  | .err x => .err x
  | .ok (some (d, a)) => if H a payload = d then .ok () else .err "payloaddigest"
  | .ok none =>
    match getBytes sig tagMD5 with
    | .ok md5 =>
      if md5 = [] then .err "nodigest"
      else if H 1 (gen.orig ++ payload) = hexBytes md5 then .ok () else .err "md5"
    | _ => .err "nodigest"

/-! ### `WriteTo`, `DumpSignatureHeader` -/

def zeros (n : Nat) : Bytes := List.replicate n 0

/-- `writeTag` over the sorted keys: (index entries, data store) -/
def writeTags : EMap → Bytes → Bytes → Bytes × Bytes
  | [], tbl, blobs => (tbl, blobs)
  | (k, e) :: r, tbl, blobs =>
    let a := typeAlign e.typ
    let blobs1 := if blobs.length % a = 0 then blobs else blobs ++ zeros (a - blobs.length % a)
    writeTags r (tbl ++ be32i k ++ be32i e.typ ++ be32i blobs1.length ++ be32i e.count) (blobs1 ++ e.contents)

/-- the tags `WriteTo` keeps: `k >= RPMTAG_HEADERREGIONS` -/
def kept (m : EMap) : EMap := m.filter fun p => decide (tagRegions ≤ p.1)

def regionTrailer (n : Nat) : Bytes :=
  be32i tagRegionSig ++ be32i 7 ++ be32i (-16 * (1 + (n : Int))) ++ be32i 16

/-- `(*rpmHeader).WriteTo(out, RPMTAG_HEADERSIGNATURES)` -/
def writeTo (m : EMap) : Bytes :=
  let ks := kept m
  let tb := writeTags ks [] []
  let blobs := tb.2
  let intro := beBytes 4 magicHdr ++ beBytes 4 0 ++ beBytes 4 ((ks.length + 1) % two32) ++ beBytes 4 ((blobs.length + 16) % two32)
  let region := be32i tagRegionSig ++ be32i 7 ++ be32i blobs.length ++ be32i 16
  let blobs2 := blobs ++ regionTrailer ks.length
  let total := 96 + blobs2.length + tb.1.length
  intro ++ region ++ tb.1 ++ blobs2 ++ (if total % 8 = 0 then [] else zeros (8 - total % 8))

/-- the entries after `DumpSignatureHeader(true)` has adjusted the RESERVEDSPACE tag -/
def withReserved (sig : Hdr) : EMap :=
  let m1 := del tagReserved sig.ents
  let needed := (writeTo m1).length
  let available := sig.orig.length
  if needed + 16 ≤ available then ins tagReserved ⟨7, ((available - needed - 16 : Nat) : Int), zeros (available - needed - 16)⟩ m1
  else m1

def dumpSig (lead : Bytes) (sig : Hdr) : Bytes := lead ++ writeTo (withReserved sig)

/-! ### `nevra` -/

/-- `strings.ReplaceAll(s, "-0:", "-")` -/
def strip0 : Bytes → Bytes
  | [] => []
  | 45 :: 48 :: 58 :: r => 45 :: strip0 r
  | c :: r => c :: strip0 r

/-- `GetNEVRA` and the formatting of `nevra()`: `.err` = GetNEVRA returns (nil, err) -/
def getNevra (gen : EMap) : Res Bytes :=
  let gs (t : Int) : Res (List Bytes) :=
    getStrings gen t
  match gs tagName with
  | .ok name =>
    let epoch : Res Nat :=
      match get tagEpoch gen with
      | none => .ok 0
      | some e =>
        if e.typ = 1 ∨ e.typ = 2 ∨ e.typ = 3 ∨ e.typ = 4 ∨ e.typ = 5 then .ok ((firstInt e).getD 0) else .err "nevra"
    match epoch with
    | .ok ep =>
      match gs tagVersion with
      | .ok version =>
        match gs tagRelease with
        | .ok release =>
          match gs tagArch with
          | .ok arch =>
            match name, version, release, arch with
            | n :: _, v :: _, r :: _, a :: _ =>
              .ok (strip0 (n ++ [45] ++ decNat ep ++ [58] ++ v ++ [45] ++ r ++ [46] ++ a))
            | _, _, _, _ => .panic "index:GetNEVRA"
          | .err x => .err x | .panic s => .panic s | .diverge => .diverge
        | .err x => .err x | .panic s => .panic s | .diverge => .diverge
      | .err x => .err x | .panic s => .panic s | .diverge => .diverge
    | .err x => .err x | .panic s => .panic s | .diverge => .diverge
  | .err x => .err x | .panic s => .panic s | .diverge => .diverge

/-- `nevra()` before f356386: the error of `GetNEVRA` was ignored and `String()` called on the nil `*NEVRA` -/
def nevraOrig (gen : EMap) : Res Bytes :=
  match getNevra gen with
  | .err _ => .panic "nil:nevra"
  | r => r

/-- `nevra()` (current code): "" when `GetNEVRA` fails; a panic inside `GetNEVRA` (count 0 / negative count) still unwinds —
    to the `guard` of `sign` / `verify` -/
def nevraOf (gen : EMap) : Res Bytes :=
  match getNevra gen with
  | .err _ => .ok []
  | r => r

/-- `defer guard(&err)`: a panic below `sign` / `verify` becomes the error "malformed RPM: …" -/
def recovered {α : Type} : Res α → Res α
  | .panic _ => .err "malformed"
  | r => r

/-! ### reading the two headers (shared by sign and verify) -/

def magicLead : Nat := 0xedabeedb

structure Parsed where
  lead : Bytes
  sig : Hdr
  gen : Hdr
  payload : Bytes
  deriving Repr, DecidableEq

/-- everything behind the lead: signature header, `getHashAndType`, general header, payload -/
def readBody (H : Nat → Bytes → Bytes) (body : Bytes) : Res (Hdr × Hdr × Bytes) :=
  match readHeader H true none body with
  | .ok (sig, rest) =>
    match headerCheck sig.ents with
    | .ok chk =>
      match readHeader H false chk rest with
      | .ok (gen, payload) => .ok (sig, gen, payload)
      | .err x => .err x | .panic s => .panic s | .diverge => .diverge
    | .err x => .err x | .panic s => .panic s | .diverge => .diverge
  | .err x => .err x | .panic s => .panic s | .diverge => .diverge

/-- `readSignatureHeader` (lead: 96 bytes, only the magic is looked at) and the rest -/
def readBoth (H : Nat → Bytes → Bytes) (f : Bytes) : Res Parsed :=
  if f.length < 96 then .err "lead"
  else if beVal (f.take 4) ≠ magicLead then .err "notrpm"
  else
    match readBody H (f.drop 96) with
    | .ok (sig, gen, payload) => .ok ⟨f.take 96, sig, gen, payload⟩
    | .err x => .err x | .panic s => .panic s | .diverge => .diverge

/-- offset of the general header = `OriginalSignatureHeaderSize()` -/
def sigAreaLen (p : Parsed) : Nat := 96 + p.sig.orig.length

/-! ### `sign` -/

structure SignOut where
  old : Nat          -- the patch replaces `[0, old)`
  blob : Bytes
  nevra : Bytes
  md5 : Bytes        -- rpm.md5 (hex)
  sha1 : Bytes       -- rpm.sha1
  deriving Repr, DecidableEq

/-- `insertSignatures` -/
def insertSigs (m : EMap) (sigPgp sigRsa : Bytes) : EMap :=
  del tagDSA (del tagGPG (ins tagRSA ⟨7, sigRsa.length, sigRsa⟩ (ins tagPGP ⟨7, sigPgp.length, sigPgp⟩ m)))

/-- the signature header after `SignRpmStream` -/
def signedSig (mk : Bool → Bytes → Bytes) (p : Parsed) : Hdr :=
  ⟨insertSigs p.sig.ents (mk false (p.gen.orig ++ p.payload)) (mk true p.gen.orig), p.sig.orig⟩

/-- signer.go `sign` below the guard, `nv` = `nevra()`: SignRpmStream → DumpSignatureHeader(true) → one patch over `[0, OriginalSignatureHeaderSize)` →
    audit attributes -/
def signWith (nv : EMap → Res Bytes) (H : Nat → Bytes → Bytes) (mk : Bool → Bytes → Bytes) (f : Bytes) : Res SignOut :=
  match readBoth H f with
  | .ok p =>
    match digestPayload H p.sig.ents p.gen p.payload with
    | .ok _ =>
      let sig' := signedSig mk p
      let blob := dumpSig p.lead sig'
      let m' := withReserved sig'
      let md5 := match getBytes m' tagMD5 with
        | .ok b => hexBytes b
        | _ => []
      -- `GetString`: exactly one value, else ""
      match (match getStrings m' tagSHA1 with
              | .ok [v] => Res.ok v
              | .panic s => .panic s
              | _ => .ok []) with
      | .ok sha1 =>
        match nv p.gen.ents with
        | .ok nv => .ok ⟨sigAreaLen p, blob, nv, md5, sha1⟩
        | .err x => .err x | .panic s => .panic s | .diverge => .diverge
      | .err x => .err x | .panic s => .panic s | .diverge => .diverge
    | .err x => .err x | .panic s => .panic s | .diverge => .diverge
  | .err x => .err x | .panic s => .panic s | .diverge => .diverge

/-- signer.go `sign` (current code, f356386): guarded, `nevra()` tolerant -/
def sign (H : Nat → Bytes → Bytes) (mk : Bool → Bytes → Bytes) (f : Bytes) : Res SignOut :=
  recovered (signWith nevraOf H mk f)

/-- signer.go `sign` before f356386 -/
def signOrig (H : Nat → Bytes → Bytes) (mk : Bool → Bytes → Bytes) (f : Bytes) : Res SignOut :=
  signWith nevraOrig H mk f

/-- patch application (`binpatch.Apply` through the C12 model) -/
def applyPatch (f : Bytes) (o : SignOut) : Res Bytes :=
  Binpatch.applyRewrite f (Binpatch.build 4294967295 [⟨0, o.old, o.blob⟩])

/-- the file relic writes -/
def signedFile (f : Bytes) (o : SignOut) : Bytes := o.blob ++ f.drop o.old

/-! ### `verify` -/

structure SigInfo where
  keyid : Nat
  hash : Nat
  deriving Repr, DecidableEq

/-- one signature found: where, what the packet says, the stream it is checked against -/
structure Found where
  tag : Int
  blob : Bytes
  info : SigInfo
  stream : Bytes
  deriving Repr, DecidableEq

/-- `setupDigester` for the tags of one group, in order -/
def collect (pgp : Bytes → Res SigInfo) (sig : EMap) (stream : Bytes) : List Int → Res (List Found)
  | [] => .ok []
  | t :: ts =>
    match get t sig with
    | none => collect pgp sig stream ts
    | some e =>
      if e.typ ≠ 7 then .err "sigtype"
      else match pgp e.contents with
        | .ok i =>
          match collect pgp sig stream ts with
          | .ok r => .ok (⟨t, e.contents, i, stream⟩ :: r)
          | .err x => .err x | .panic s => .panic s | .diverge => .diverge
        | .err x => .err x | .panic s => .panic s | .diverge => .diverge

/-- `sig.validate(h)` for each signature, in order; `known = none` means no keyring was given: nothing is checked -/
def validateAll (valid : Bytes → Bytes → Bool) (known : Option (List Nat)) : List Found → Res Unit
  | [] => .ok ()
  | s :: r =>
    match known with
    | none => validateAll valid known r
    | some ks =>
      if !ks.contains s.info.keyid then .err "nokey"
      else if !valid s.blob s.stream then .err "badsig"
      else validateAll valid known r

/-- de-duplication by key id in signer.go `verify` -/
def dedupe : List Found → List Nat → List Found
  | [], _ => []
  | s :: r, seen => if seen.contains s.info.keyid then dedupe r seen else s :: dedupe r (s.info.keyid :: seen)

structure VerifyOut where
  sigs : List (Nat × Nat)     -- key id, hash, after de-duplication
  nevra : Bytes
  deriving Repr, DecidableEq

/-- what `rpmutils.Verify` does once both headers are read: the signatures it returns -/
def libVerifyCore (H : Nat → Bytes → Bytes) (pgp : Bytes → Res SigInfo) (valid : Bytes → Bytes → Bool) (known : Option (List Nat))
    (sig gen : Hdr) (payload : Bytes) : Res (List Found) :=
  match collect pgp sig.ents gen.orig [tagRSA, tagDSA] with
  | .ok hs =>
    match collect pgp sig.ents (gen.orig ++ payload) [tagPGP, tagGPG] with
    | .ok ps =>
      match digestPayload H sig.ents gen payload with
      | .ok _ =>
        match validateAll valid known (hs ++ ps) with
        | .ok _ => .ok (hs ++ ps)
        | .err x => .err x | .panic s => .panic s | .diverge => .diverge
      | .err x => .err x | .panic s => .panic s | .diverge => .diverge
    | .err x => .err x | .panic s => .panic s | .diverge => .diverge
  | .err x => .err x | .panic s => .panic s | .diverge => .diverge

/-- signer.go `verify` behind `readBoth`: the lead plays no part; `nv` = `nevra()` -/
def verifyCoreWith (nv : EMap → Res Bytes) (H : Nat → Bytes → Bytes) (pgp : Bytes → Res SigInfo) (valid : Bytes → Bytes → Bool)
    (known : Option (List Nat)) (noChain : Bool) (sig gen : Hdr) (payload : Bytes) : Res VerifyOut :=
  match libVerifyCore H pgp valid known sig gen payload with
  | .ok sigs =>
    if sigs = [] then .err "notsigned"
    else
      -- `Package: nevra(header)` is evaluated for the first signature before anything else
      match nv gen.ents with
      | .ok nv =>
        if known = none ∧ !noChain then .err "nokeychain"
        else .ok ⟨(dedupe sigs []).map fun s => (s.info.keyid, s.info.hash), nv⟩
      | .err x => .err x | .panic s => .panic s | .diverge => .diverge
  | .err x => .err x | .panic s => .panic s | .diverge => .diverge

/-- current code, below the guard -/
def verifyCore := verifyCoreWith nevraOf
/-- before f356386 -/
def verifyCoreOrig := verifyCoreWith nevraOrig

/-- `verify` without the guard -/
def verifyWith (nv : EMap → Res Bytes) (H : Nat → Bytes → Bytes) (pgp : Bytes → Res SigInfo) (valid : Bytes → Bytes → Bool)
    (known : Option (List Nat)) (noChain : Bool) (f : Bytes) : Res VerifyOut :=
  match readBoth H f with
  | .ok p => verifyCoreWith nv H pgp valid known noChain p.sig p.gen p.payload
  | .err x => .err x | .panic s => .panic s | .diverge => .diverge

/-- signer.go `verify` (current code, f356386) -/
def verify (H : Nat → Bytes → Bytes) (pgp : Bytes → Res SigInfo) (valid : Bytes → Bytes → Bool) (known : Option (List Nat))
    (noChain : Bool) (f : Bytes) : Res VerifyOut :=
  recovered (verifyWith nevraOf H pgp valid known noChain f)

/-- signer.go `verify` before f356386 -/
def verifyOrig (H : Nat → Bytes → Bytes) (pgp : Bytes → Res SigInfo) (valid : Bytes → Bytes → Bool) (known : Option (List Nat))
    (noChain : Bool) (f : Bytes) : Res VerifyOut :=
  verifyWith nevraOrig H pgp valid known noChain f

def verifyOk (H : Nat → Bytes → Bytes) (pgp : Bytes → Res SigInfo) (valid : Bytes → Bytes → Bool) (known : Option (List Nat))
    (f : Bytes) : Bool :=
  match verify H pgp valid known true f with
  | .ok _ => true
  | _ => false

/-! ### allocation requests (C11) -/

/-- every `make([]byte, n)` sized by a header field on the way through both headers -/
def allocs (H : Nat → Bytes → Bytes) (f : Bytes) : List Nat :=
  if f.length < 96 then [] else if beVal (f.take 4) ≠ magicLead then []
  else
    let a1 := hdrAllocs true (f.drop 96)
    match readHeader H true none (f.drop 96) with
    | .ok (_, rest) => a1 ++ hdrAllocs false rest
    | _ => a1

/-- the C11 oracle's bound: 64 MiB + 64 * len(input) -/
def allocBound (n : Nat) : Nat := 67108864 + 64 * n

def allocExceeds (H : Nat → Bytes → Bytes) (f : Bytes) : Bool := (allocs H f).any fun a => decide (allocBound f.length < a)

end Relic.Rpm

/-
  C01 fragment — MSI: what relic's msi signer writes, relic's `VerifyMSI` accepts.
  Model `Relic.Model.MsiSign` (signers/msi/signer.go, lib/authenticode/msisign.go + msiverify.go, lib/comdoc
  `AddFile`/`DeleteFile`) on top of the digest model `Relic.Model.MsiDigest`; `Reread` = what `Close` + `ReadFile` may change.
-/
import Relic.Proofs.MsiSign
import Relic.Props.C05_Msi
import Relic.Driver.MsiSign
import Relic.Proofs.Codec
namespace Relic.Props.C01
open Relic Relic.MsiDigest Relic.MsiSign

/-- **msi_insert_then_locate.** For every document of the class `DocOk`, every blob and every extended-signature value
    (empty = none): `InsertMSISignature` succeeds, and in every document that `ReadFile` may deliver after `Close` (any
    `ListDir` order, any tree links) `VerifyMSI`'s scan finds exactly that blob and exactly that value, both walks feed
    the hash the bytes they fed it before the insertion, and the document is again of the class. -/
theorem msi_insert_then_locate (d : Node) (hd : DocOk d) (pkcs ex : Bytes) (s₁ s₂ : Nat) :
    ∃ d₁, insertMSISignature d pkcs ex s₁ s₂ = .ok d₁ ∧ ∀ d', Reread d₁ d' →
      locate d'.kids [] none = .ok (pkcs, if ex.length > 0 then some ex else none) ∧
      hashMsiDir d' = hashMsiDir d ∧ prehashMsiDir d' = prehashMsiDir d ∧ DocOk d' := by
  refine ⟨_, hd.insertOk pkcs ex s₁ s₂, ?_⟩
  intro d' h
  obtain ⟨w1, w2⟩ := hd.walks pkcs ex s₁ s₂ d' h
  refine ⟨?_, ?_, ?_, (hd.afterInsert pkcs ex s₁ s₂).reread h⟩
  · exact locate_reread_inserted d.meta d.content d.kids pkcs ex s₁ s₂ hd.streams hd.noAlias d' h
  · rw [w1, hashMsiDir_eq d hd.ok]
  · rw [w2, prehashMsiDir_eq d hd.ok hd.root]

/-- **msi_sign_class_then_verify.** For every hash family `H`, every CMS layer that gives back what was signed (`cms (mk a x) =
    (a, x)`, blobs not empty), every document of the class `DocOk` without a reserved tar name in the root storage
    (`tarRootOkB`, what `checkMsiTarNames` tests), either value of `--no-extended-sig`, every digest algorithm: the signer
    module succeeds (totality), and on every re-reading of its
    output `VerifyMSI` locates exactly the blob that was made, the extended-signature stream is present exactly if an
    extended signature was asked for (and `H` is not empty-valued) and holds the pre-hash, `DigestMSI` recomputes the
    imprint that was signed – the hash of (pre-hash digest ++) the specification's stream of the *unsigned* document – and
    `VerifyMSI` accepts, with and without digest checking. -/
theorem msi_sign_class_then_verify (H : Nat → Bytes → Bytes) (mk : Nat → Bytes → Bytes) (cms : Bytes → Res CmsInfo)
    (hcms : ∀ a x, cms (mk a x) = .ok ⟨a, x⟩) (hne : ∀ a x, (mk a x).length ≠ 0)
    (d : Node) (hd : DocOk d) (hsafe : tarRootOkB d.kids = true) (alg : Nat) (noExt : Bool) (s₁ s₂ : Nat) :
    ∃ d₁, signMSI H mk alg noExt d s₁ s₂ = .ok d₁ ∧ ∀ d', Reread d₁ d' →
      let e := if noExt then [] else H alg (Spec.MsiDigest.prehashInput d)
      let imprint := H alg (e ++ Spec.MsiDigest.hashInput d)
      locate d'.kids [] none = .ok (mk alg imprint, if e.length > 0 then some e else none) ∧
      digestMSI2 (H alg) d' (decide (e.length > 0)) = .ok (imprint, e) ∧
      verifyMSI H cms d' false = .ok (mk alg imprint, ⟨alg, imprint⟩) ∧
      verifyMSI H cms d' true = .ok (mk alg imprint, ⟨alg, imprint⟩) := by
  obtain ⟨ms, hms, hdig⟩ := msiToTar_total d hd.ok hd.root hsafe
  have hp := prehashMsiDir_eq d hd.ok hd.root
  -- the imprint the signer computes from the tar form
  have hsum : digestMsiTar (H alg) (!noExt) ms =
      (if noExt then [] else H alg (Spec.MsiDigest.prehashInput d)) ++ Spec.MsiDigest.hashInput d := by
    rw [hdig]; unfold Spec.MsiDigest.digestInput; cases noExt <;> rfl
  have hsign : signMSI H mk alg noExt d s₁ s₂ =
      insertMSISignature d (mk alg (H alg ((if noExt then [] else H alg (Spec.MsiDigest.prehashInput d)) ++
        Spec.MsiDigest.hashInput d))) (if noExt then [] else H alg (Spec.MsiDigest.prehashInput d)) s₁ s₂ := by
    unfold signMSI
    simp only [hd.noAlias, Bool.not_true, Bool.false_eq_true, if_false]
    rw [hp, hms]
    cases noExt <;> simp only [Res.bind_ok', Res.pure_eq, hsum] <;> rfl
  rw [hsign]
  refine ⟨_, hd.insertOk _ _ s₁ s₂, ?_⟩
  intro d' h
  intro e imprint
  have hloc := locate_reread_inserted d.meta d.content d.kids (mk alg imprint) e s₁ s₂ hd.streams hd.noAlias d' h
  obtain ⟨w1, w2⟩ := hd.walks (mk alg imprint) e s₁ s₂ d' h
  have hdg : digestMSI2 (H alg) d' (decide (e.length > 0)) = .ok (imprint, e) := by
    unfold digestMSI2
    rw [w1, w2]
    by_cases he : e.length > 0
    · have hx : noExt = false := by
        cases hq : noExt with
        | false => rfl
        | true => simp [e, hq] at he
      have : H alg (Spec.MsiDigest.prehashInput d) = e := by simp [e, hx]
      simp only [he, decide_true, if_true, Res.bind_ok', Res.pure_eq, this]; rfl
    · have : e = [] := List.eq_nil_of_length_eq_zero (by omega)
      simp only [he, decide_false, Bool.false_eq_true, if_false, Res.bind_ok', Res.pure_eq]
      rw [show imprint = H alg (e ++ Spec.MsiDigest.hashInput d) from rfl, this]
  refine ⟨hloc, hdg, ?_, ?_⟩
  · unfold verifyMSI
    rw [hloc]
    simp only [Res.bind_ok']
    unfold verdictOf
    simp only [hne, if_false, hcms, Res.bind_ok', Bool.false_eq_true]
    have hsome : (if e.length > 0 then some e else none : Option Bytes).isSome = decide (e.length > 0) := by
      by_cases he : e.length > 0 <;> simp [he]
    rw [hsome, hdg]
    simp only [Res.bind_ok']
    by_cases he : e.length > 0
    · simp [he]
    · simp [he]
  · unfold verifyMSI
    rw [hloc]
    simp only [Res.bind_ok']
    unfold verdictOf
    simp only [hne, if_false, hcms, Res.bind_ok', if_true, Res.pure_eq]

/-- **msi_sign_then_verify.** Since the repairs of Fmsi-fold and Fmsi-tar, without the former hypotheses `noAliasB` /
    `tarSafeB` / `sigsAreStreamsB`: for every document in which, in each storage, the name fields are well formed and the
    names pairwise distinct (`Node.okAt`) with a root entry of type root, every hash family, every CMS layer that gives
    back what was signed, either flag, every algorithm: WHENEVER the signer module succeeds, every re-reading of its
    output is accepted by `VerifyMSI` (with and without digest checking), which locates exactly the blob that was made;
    the extended-signature stream is present exactly if asked for and holds the pre-hash; `DigestMSI` recomputes the
    signed imprint.  What remains excluded is only what `okAt` excludes: malformed name fields and two siblings of one name
    (C11's and C18's business).  The documents on which signing is *refused* are characterised by `msi_sign_ok_iff`. -/
theorem msi_sign_then_verify (H : Nat → Bytes → Bytes) (mk : Nat → Bytes → Bytes) (cms : Bytes → Res CmsInfo)
    (hcms : ∀ a x, cms (mk a x) = .ok ⟨a, x⟩) (hne : ∀ a x, (mk a x).length ≠ 0)
    (d : Node) (hok : Node.okAt true d) (hr : d.meta.typ = typRoot) (alg : Nat) (noExt : Bool) (s₁ s₂ : Nat)
    (d₁ : Node) (hs : signMSI H mk alg noExt d s₁ s₂ = .ok d₁) : ∀ d', Reread d₁ d' →
      let e := if noExt then [] else H alg (Spec.MsiDigest.prehashInput d)
      let imprint := H alg (e ++ Spec.MsiDigest.hashInput d)
      locate d'.kids [] none = .ok (mk alg imprint, if e.length > 0 then some e else none) ∧
      digestMSI2 (H alg) d' (decide (e.length > 0)) = .ok (imprint, e) ∧
      verifyMSI H cms d' false = .ok (mk alg imprint, ⟨alg, imprint⟩) ∧
      verifyMSI H cms d' true = .ok (mk alg imprint, ⟨alg, imprint⟩) := by
  obtain ⟨c1, c2, c3⟩ := sign_ok_class H mk alg noExt d d₁ s₁ s₂ hs
  obtain ⟨x, hx, hall⟩ := msi_sign_class_then_verify H mk cms hcms hne d ⟨hok, hr, c1, c2⟩ c3 alg noExt s₁ s₂
  rw [hs] at hx
  injection hx with hx
  subst hx
  exact hall

/-- **msi_sign_ok_iff.** On such a document the signer module succeeds exactly if (a) no entry of the root storage
    differs from a signature stream name only by case (`CheckMSISignatureNames`), (b) no entry of the root storage has a
    reserved tar name (`checkMsiTarNames`), (c) the entries carrying a signature name are streams (`DeleteFile`). -/
theorem msi_sign_ok_iff (H : Nat → Bytes → Bytes) (mk : Nat → Bytes → Bytes) (d : Node) (hok : Node.okAt true d)
    (hr : d.meta.typ = typRoot) (alg : Nat) (noExt : Bool) (s₁ s₂ : Nat) :
    (∃ d₁, signMSI H mk alg noExt d s₁ s₂ = .ok d₁) ↔
      (noAliasB d.kids = true ∧ sigsAreStreamsB d.kids = true ∧ tarRootOkB d.kids = true) := by
  constructor
  · rintro ⟨d₁, h⟩; exact sign_ok_class H mk alg noExt d d₁ s₁ s₂ h
  · rintro ⟨c1, c2, c3⟩; exact ⟨_, sign_eq H mk d ⟨hok, hr, c1, c2⟩ c3 alg noExt s₁ s₂⟩

/-- **msi_alias_refused.** A case-folding alias of a signature name in the root storage: the repaired signer refuses
    before anything is hashed or signed, and so does `InsertMSISignature`. -/
theorem msi_alias_refused (H : Nat → Bytes → Bytes) (mk : Nat → Bytes → Bytes) (d : Node) (h : noAliasB d.kids = false)
    (alg : Nat) (noExt : Bool) (pkcs ex : Bytes) (s₁ s₂ : Nat) :
    signMSI H mk alg noExt d s₁ s₂ = .err "alias" ∧ insertMSISignature d pkcs ex s₁ s₂ = .err "alias" := by
  unfold signMSI insertMSISignature
  simp [h]

/-! ### non-vacuity: a concrete hash family, CMS layer and document -/

/-- a toy hash family and CMS layer satisfying the hypotheses (the theorems are for every `H`, `mk`, `cms`) -/
def toyH (a : Nat) (x : Bytes) : Bytes :=
  [UInt8.ofNat a, UInt8.ofNat x.length, x.foldl (· + ·) 0, x.foldl (fun acc b => acc * 3 + b) 7]
def toyMk (a : Nat) (x : Bytes) : Bytes := UInt8.ofNat a :: x
def toyCms (b : Bytes) : Res CmsInfo :=
  match b with
  | [] => .err "cms"
  | a :: x => .ok ⟨a.toNat, x⟩

/-- the sample tree of C05 (streams "b", "a", "ab", a garbage signature stream, a sub-storage) is of the class -/
example : DocOk C05.sampleRoot :=
  ⟨okAtB_sound true _ (by decide), rfl, by decide, by decide⟩
example : tarRootOkB C05.sampleRoot.kids = true := by decide
example : ∀ a x, a < 256 → toyCms (toyMk a x) = .ok ⟨a, x⟩ := by
  intro a x h; simp [toyCms, toyMk, Nat.mod_eq_of_lt h]
set_option maxRecDepth 100000 in
/-- signing the sample extended, then without: one signature stream each time, the Ex stream only the first time -/
example : (match signMSI toyH toyMk 5 false C05.sampleRoot 0 0 with
    | .ok d => (sigCount d.kids, exCount d.kids, (verifyMSI toyH toyCms d false).isOk)
    | _ => (0, 0, false)) = (1, 1, true) := by decide
set_option maxRecDepth 100000 in
example : (match signMSI toyH toyMk 5 true C05.sampleRoot 0 0 with
    | .ok d => (sigCount d.kids, exCount d.kids, (verifyMSI toyH toyCms d false).isOk)
    | _ => (0, 0, false)) = (1, 0, true) := by decide

/-! ### outside the class: what the unchanged code does -/

/-- a root holding the payload stream "\005digitalsignature" (lower case) and the stream "B" -/
def aliasRoot : Node :=
  .mk (C05.mkMeta [82] 4 5) []
    [C05.leaf [5, 100, 105, 103, 105, 116, 97, 108, 115, 105, 103, 110, 97, 116, 117, 114, 101] [1, 2, 3], C05.leaf [66] [9]]

set_option maxRecDepth 100000 in
/-- **msi_fold_alias_breaks_verify.** FINDING Fmsi-fold (repaired), a statement about the ORIGINAL code.  `DeleteFile`
    compares names with `strings.EqualFold`, the digest code with `==`: the stream "\005digitalsignature" was payload for
    `PrehashMSI` / `DigestMsiTar` / `DigestMSI` and was deleted by `InsertMSISignature`.  The document satisfies every
    digest hypothesis (`okAt`, `tarSafeB`); the original signing succeeded; the payload stream was gone; the original
    `VerifyMSI` rejected relic's own output (extended: the pre-hash differs; plain: the imprint).  The repaired code
    refuses the document (`msi_alias_refused`). -/
theorem msi_fold_alias_breaks_verify :
    Node.okAt true aliasRoot ∧ tarSafeB [] aliasRoot.kids = true ∧ noAliasB aliasRoot.kids = false ∧
    (∃ d, signMSIOrig toyH toyMk 5 false aliasRoot 0 0 = .ok d ∧ verifyMSIOrig toyH toyCms d = .err "exmismatch" ∧
      (payload d.kids).length = 1) ∧
    (∃ d, signMSIOrig toyH toyMk 5 true aliasRoot 0 0 = .ok d ∧ verifyMSIOrig toyH toyCms d = .err "mismatch" ∧
      (payload d.kids).length = 1) ∧
    (payload aliasRoot.kids).length = 2 ∧
    signMSI toyH toyMk 5 false aliasRoot 0 0 = .err "alias" := by
  refine ⟨okAtB_sound true _ (by decide), by decide, by decide, ⟨_, rfl, by decide, by decide⟩,
    ⟨_, rfl, by decide, by decide⟩, by decide, by rfl⟩

/-- a storage carrying the signature name: `DeleteFile` refuses ("can't delete or replace storages"), nothing is written -/
def sigStorageRoot : Node :=
  .mk (C05.mkMeta [82] 4 5) [] [C05.dir sigName [C05.leaf [120] [1]], C05.leaf [66] [9]]

/-- **msi_sign_refuses_storage.** An entry of the root storage whose name folds to a signature name and that is not a
    stream makes `InsertMSISignature` fail, for every blob: with the storage error ("can't delete or replace storages")
    when no entry is a mere case variant of a signature name, with the alias error otherwise. -/
theorem msi_sign_refuses_storage (d : Node) (pkcs ex : Bytes) (s₁ s₂ : Nat) (n : Node) (hn : n ∈ d.kids)
    (hf : equalFold (goName n.meta) sigName = true ∨ equalFold (goName n.meta) sigExName = true)
    (ht : n.meta.typ ≠ typStream) :
    (noAliasB d.kids = true → insertMSISignature d pkcs ex s₁ s₂ = .err "storage") ∧
    (noAliasB d.kids = false → insertMSISignature d pkcs ex s₁ s₂ = .err "alias") := by
  unfold insertMSISignature
  constructor
  · intro h
    simp only [h, Bool.not_true, Bool.false_eq_true, if_false]
    exact insertOrig_err_of_nonstream d pkcs ex s₁ s₂ n hn hf ht
  · intro h; simp [h]

example : ∃ n ∈ sigStorageRoot.kids, equalFold (goName n.meta) sigName = true ∧ n.meta.typ ≠ typStream :=
  ⟨_, List.mem_cons_self, by decide, by decide⟩
example : noAliasB sigStorageRoot.kids = true := by decide
example : insertMSISignature sigStorageRoot [1] [2] 0 0 = .err "storage" := by rfl

/-! ### the instances the driver runs the model with -/

/-- **driver_hash_injective.** The "hash" the native driver instantiates the model with (marker, algorithm byte, length,
    pre-image) is injective: the verdicts it computes are those of any hash family that does not collide on the strings
    hashed in one op. -/
theorem driver_hash_injective (a b : Nat) (x y : Bytes) (h : Driver.MsiSign.Hsym a x = Driver.MsiSign.Hsym b y) :
    UInt8.ofNat a = UInt8.ofNat b ∧ x = y := by
  unfold Driver.MsiSign.Hsym at h
  have hl : (Driver.MsiSign.MARK ++ [UInt8.ofNat a] ++ leBytes 4 x.length).length =
      (Driver.MsiSign.MARK ++ [UInt8.ofNat b] ++ leBytes 4 y.length).length := by simp
  obtain ⟨h1, h2⟩ := List.append_inj h hl
  refine ⟨?_, h2⟩
  simp only [List.append_assoc] at h1
  have h3 := (List.append_inj h1 rfl).2
  simp only [List.cons_append, List.nil_append, List.cons.injEq] at h3
  exact h3.1

/-- **driver_cms_sound.** The CMS term of the driver gives back what was signed (the hypothesis `hcms` of
    `msi_sign_then_verify`) and is never empty. -/
theorem driver_cms_sound (a : Nat) (x : Bytes) (ha : a < 256) (hx : x.length < 256 ^ 4) :
    Driver.MsiSign.cmsSym (Driver.MsiSign.mkSym a x) = .ok ⟨a, x⟩ ∧ (Driver.MsiSign.mkSym a x).length ≠ 0 := by
  have hm : Driver.MsiSign.CMARK.length = 16 := by decide
  have e : Driver.MsiSign.mkSym a x = Driver.MsiSign.CMARK ++ (UInt8.ofNat a :: (leBytes 4 x.length ++ (x ++ [Driver.MsiSign.chk x]))) := by
    unfold Driver.MsiSign.mkSym; simp
  refine ⟨?_, by rw [e]; simp⟩
  unfold Driver.MsiSign.cmsSym
  have t16 : (Driver.MsiSign.mkSym a x).take 16 = Driver.MsiSign.CMARK := by
    rw [e, List.take_left' hm]
  have d16 : (Driver.MsiSign.mkSym a x).drop 16 = UInt8.ofNat a :: (leBytes 4 x.length ++ (x ++ [Driver.MsiSign.chk x])) := by
    rw [e, List.drop_left' hm]
  have d17 : (Driver.MsiSign.mkSym a x).drop 17 = leBytes 4 x.length ++ (x ++ [Driver.MsiSign.chk x]) := by
    have : (17 : Nat) = 16 + 1 := rfl
    rw [this, ← List.drop_drop, d16]; rfl
  have d21 : (Driver.MsiSign.mkSym a x).drop 21 = x ++ [Driver.MsiSign.chk x] := by
    have : (21 : Nat) = 17 + 4 := rfl
    rw [this, ← List.drop_drop, d17, List.drop_left' (leBytes_length 4 _)]
  have len : (Driver.MsiSign.mkSym a x).length = x.length + 22 := by rw [e]; simp [hm]; omega
  have l1 : (Driver.MsiSign.mkSym a x).getLast? = some (Driver.MsiSign.chk x) := by
    have e2 : Driver.MsiSign.mkSym a x =
        (Driver.MsiSign.CMARK ++ [UInt8.ofNat a] ++ leBytes 4 x.length ++ x) ++ [Driver.MsiSign.chk x] := rfl
    rw [e2]; apply List.getLast?_concat
  rw [t16, d16, d17, d21, len, l1]
  have tk : (x ++ [Driver.MsiSign.chk x]).take (x.length + 22 - 22) = x := by
    rw [Nat.add_sub_cancel, List.take_left' rfl]
  have lv : leVal ((leBytes 4 x.length ++ (x ++ [Driver.MsiSign.chk x])).take 4) = x.length := by
    rw [List.take_left' (leBytes_length 4 _), leVal_leBytes_of_lt 4 _ hx]
  rw [tk, lv]
  simp [UInt8.toNat_ofNat', Nat.mod_eq_of_lt ha]

end Relic.Props.C01

"""PE model glue: canonicalisation and the per-property predicates evaluated on the implementation's output."""
import hashlib, struct

TOKENS = ["PE"]
RULE = ("PE: structure-aware generator (PE32/PE32+, 0-6 sections, file alignment 64/512/1024, header slack, gap, overlay 0..513, "
        "truncated last section, 5..16 data directories, already carrying one or two certificate tables) plus a malformed stream "
        "(boundary values in every header field the parser reads, truncation at field boundaries, appended bytes); ops: digest "
        "(image hash stream [+ page hashes]), sign (MakePatch + real patch application + re-digest), locate (certificate table walk). "
        "Non-trivial = distinct op on which the model does not reject in the DOS/COFF header checks.")
TRUSTED = ["Relic.Model.PE is hand-written from lib/authenticode/{pedigest,pesign,peverify}.go; tied by differential execution",
           "SHA-256 of the model's byte stream is computed by the check (hashlib), never in Lean: hashes are parameters"]
ASSUMPTIONS = ["e_lfanew >= 64 in the theorems (the code does not check it; smaller values are exercised by the correspondence only)",
               "the cryptographic signature blob is opaque to the model"]


def _pagetable(body):
    tbl = b""
    for ent in body.split(","):
        off, hx = ent.split(":")
        tbl += struct.pack("<I", int(off))
        tbl += b"\0" * 32 if hx == "-" else hashlib.sha256(bytes.fromhex(hx)).digest()
    return tbl.hex()


def canon_model(op, mres):
    f = op.split()
    if f[1] == "pagespec" and mres.startswith("ok spec pages="):
        return "ok spec pagehashes=" + _pagetable(mres[len("ok spec pages="):])
    if f[1] == "digest" and mres.startswith("ok stream="):
        parts = mres.split(" ")
        stream = parts[1][len("stream="):]
        data = b"" if stream == "-" else bytes.fromhex(stream)
        out = "ok imprint=%s %s %s" % (hashlib.sha256(data).hexdigest(), parts[2], parts[3])
        if len(parts) > 4 and parts[4].startswith("pages="):
            body = parts[4][len("pages="):]
            if body == "PANIC":
                return "panic pagehash:zeroPage[:needzero]"
            tbl = b""
            for ent in body.split(","):
                off, hx = ent.split(":")
                tbl += struct.pack("<I", int(off))
                tbl += b"\0" * 32 if hx == "-" else hashlib.sha256(bytes.fromhex(hx)).digest()
            out += " pagehashes=" + tbl.hex()
        return out
    return mres


# fixes F12-readOptHeader / F12-align32: where the model of the parser says the *original* code panics, the repaired code
# returns these errors; the model keeps the panic outcome (its trigger is characterised by readHeaders_panic_iff)
GUARDED = {"panic readOptHeader:buf[:2]": ("err eof",),
           "panic align32:divide-by-zero": ("err other:PE_file_alignment_is_zero",),
           "panic pagehash:zeroPage[:needzero]": ("err other:PE_headers_are_larger_than_a_page,_cannot_compute_page_hashes",)}


def equiv(op, il, mres):
    if il == mres:
        return True
    if il in GUARDED.get(mres, ()):
        return True
    f = op.split()
    if f[1] == "pagespec":
        # "ok skip": image outside the class of pe_page_hashes_eq_spec; "ok spec none": headers larger than a page
        # (the description has no answer; the code panics or refuses) - nothing to compare
        if mres in ("ok skip", "ok spec none"):
            return il.startswith("ok spec pagehashes=") or il.startswith("panic") or il.startswith("err")
        return False
    # the locator found the blobs; the harness' fake blobs then fail PKCS#7 parsing, which is outside the model
    if f[1] == "locate" and il == "err pkcs7" and mres.startswith("ok"):
        return True
    if f[1] == "append" and il.startswith("ok") and mres == "ok any":
        return True
    if f[1] == "mutate" and il.startswith("ok") and mres.startswith("ok"):
        a, b = il.split(" ")[1:], mres.split(" ")[1:]
        # "any": the mutation hit the PKCS#7 blob itself, whose verification is outside the model
        return len(a) == len(b) and all(x == y or y == "any" for x, y in zip(a, b))
    return False


def weight(op):
    f = op.split(" ", 4)
    return int(f[3]) if f[1] == "mutate" else 1


def nontrivial(op, mres, tag):
    return not (mres in ("err notpe",) or (mres == "err eof" and len(op) < 300))


def branch(op, mres, tag):
    f = op.split()
    r = mres.split(" ")
    key = r[0] if r[0] == "ok" else " ".join(r[:2])
    if f[1] == "sign" and r[0] == "ok":
        key += ":" + r[2] + ":" + tag.split(" ")[0]
    return "pe-" + f[1] + ":" + key


def _kv(tag):
    return dict(p.split("=") for p in tag.split(" ") if "=" in p)


def predicate(prop, op, il, mres, tag):
    f = op.split()
    if il.startswith("crash") or il.startswith("not-run"):
        return ("Relic.Props.%s (pe)" % prop, mres, "implementation process died")
    if f[1] == "pagespec" and prop == "C05" and mres.startswith("ok spec pagehashes=") and il != mres:
        return ("Relic.Props.C05.pe_page_hashes_eq_spec", mres[:120],
                "the page-hash table the real code produced is not the table of Relic.Spec.PageHashes on a regular image: " + il[:120])
    if f[1] == "sign" and il.startswith("ok "):
        parts = il.split(" ")
        if prop in ("C08", "C01") and parts[2] != "same-digest":
            return ("Relic.Props.C08.pe_digest_ignores_signature", "same-digest",
                    "digest of the signed file differs from the digest that was signed: " + parts[2])
        if prop in ("C03", "C01") and mres.startswith("ok "):
            kv = _kv(tag)
            try:
                dd, orig, cs = int(kv["dd"]), int(kv["orig"]), int(kv["cs"])
            except KeyError:
                return None
            inp = bytes.fromhex(f[2])
            out = b"" if parts[1] == "-" else bytes.fromhex(parts[1])
            siglen = 0 if f[3] == "-" else len(f[3]) // 2
            ok = (out[:dd] == inp[:dd] and out[dd + 8:orig] == inp[dd + 8:orig] and out[orig:cs] == b"\0" * (cs - orig)
                  and len(out) == cs + 8 + (siglen + 7) // 8 * 8)
            if not ok:
                return ("Relic.Props.C03.pe_payload_preserved", "input bytes outside [dd,dd+8) below origSize unchanged",
                        "payload bytes moved or changed by signing")
    if f[1] == "digest" and prop == "C01" and len(f) > 4 and f[4].startswith("wf=") and f[4] != "wf=-":
        # a well-formed package must be accepted (or refused only for a combination the type does not support)
        if not il.startswith("ok"):
            return ("Relic.Props.C01 (well-formed PE accepted)", "ok", "well-formed image (%s) refused: %s" % (f[4], il))
    if f[1] == "append" and il == "ok pass":
        return ("Relic.Props.C02.pe_no_trailing", "fail",
                "content appended after the certificate table (size field enlarged by %s) and the verifier still accepts the file" % f[4])
    if f[1] == "mutate" and il.startswith("ok ") and mres.startswith("ok "):
        kv = _kv(tag)
        ck, dd, orig = int(kv["ck"]), int(kv["dd"]), int(kv["orig"])
        outs = il.split(" ")[1:]
        for m, o in zip(f[4:], outs):
            pos = int(m.split(":")[0])
            protected = pos < ck or ck + 4 <= pos < dd or dd + 8 <= pos < orig
            if protected and o == "pass":
                return ("Relic.Props.C02.pe_hashed_injective", "fail",
                        "byte %d lies in the protected set (hashed ranges) yet the verifier accepted the mutated file" % pos)
            if o.startswith("panic"):
                return ("Relic.Props.C02 (pe verify)", "fail", "verifier panicked on mutated file: " + o)
    if prop == "C11" and il.startswith("panic"):
        return ("Relic.Props.C11 (pe no_panic)", mres, "parser panicked: " + il)
    return None


def matches_known(k, op, il, mres, tag):
    ident = k.get("identity", {})
    f = op.split()
    if ident.get("pe_wf_prefix") and f[1] == "digest" and len(f) > 4:
        return f[4].startswith("wf=" + ident["pe_wf_prefix"]) and il == ident.get("observed") and il == mres
    site = ident.get("site", "")
    return il.startswith("panic") and mres.startswith("panic") and site and site in il and site in mres

/-
  Relic.Model.Vsix — model of /repo/signers/vsix (mangle.go, contenttypes.go, rels.go, oxmlsig.go, signer.go, consts.go)
  and of the part of /repo/lib/signappx/contenttypes.go it uses (`ContentTypes.Parse`, `Find`, `Marshal`): what VSIX / OPC
  package signing adds on top of the ZIP rewrite layer (`Relic.Model.ZipRewrite`: `Mangle`, `NewFile`, `MakePatch`) and of the
  XML-DSig layer (`Relic.Model.XmlSig`).

  A package is the list of its parts `(name, bytes)` in ZIP order; the ZIP layer is a black box that keeps the members
  the callback keeps, in order, and appends the members given to `NewFile`, in call order (zip_rewrite_preserves_members).
  `archive/zip`'s `files[f.Name] = f` and the signer's `m.digests[f.Name] = sum` are both "last member of that name wins".

  Everything that is text parsing or cryptography is a parameter (`Env`): digests (`dtext`, `digestCmp`), `encoding/xml` on
  relationship parts and on `[Content_Types].xml` (`parseRels`, `parseCT`, `marshalCT`), `x509.ParseCertificates`, and the enveloping
  XML signature as a whole (`xsign` = `xmldsig.SignEnveloping` + `WriteToBytes`, `xopen` = `ReadFromString` +
  `xmldsig.Verify(root, ".", certs)` + `checkTimestamp`).  What is modelled in full is the logic VSIX adds: which parts are kept /
  digested / dropped (`keepFile`), the content type lookup and its panic, the reference list and its order, the parts the
  signer adds and their order, the relationship chain the verifier follows (`path.Clean("./"+Target)`, `relPath`), the mapping
  from a Reference URI back to a part name (`path.Join("./"+URI)` cut at the first `?`), `encoding/xml`'s filling of `oxmlManifest`
  from the Object element, and the digest loop.

  The functions take `fx : Bool`: `true` = the code with the repairs for the findings of this model (a part without content
  type or extension is an error instead of an index panic; a part name the verifier's URI mapping would not find again is
  refused; two kept members of one name are refused by the signer and any two members of one name by the verifier; every
  member `keepFile` keeps must be named by a Reference), `false` = the code before them, kept for the gap / witness theorems.

  Core Lean only (linked into the native driver).
-/
import Relic.Model.XmlSig
import Relic.Model.Jar
namespace Relic.Vsix
open Relic Relic.Xml Relic.XmlSig

/-! ### constants (consts.go, rels.go) -/

/-- '[Content_Types].xml' -/
def sContentTypes : Bytes := [0x5b, 0x43, 0x6f, 0x6e, 0x74, 0x65, 0x6e, 0x74, 0x5f, 0x54, 0x79, 0x70, 0x65, 0x73, 0x5d, 0x2e, 0x78, 0x6d, 0x6c]
/-- '_rels/' -/
def sRootRelsDir : Bytes := [0x5f, 0x72, 0x65, 0x6c, 0x73, 0x2f]
/-- '_rels' -/
def sRelsSeg : Bytes := [0x5f, 0x72, 0x65, 0x6c, 0x73]
/-- 'package/services/digital-signature/' -/
def sDigSigSlash : Bytes := [0x70, 0x61, 0x63, 0x6b, 0x61, 0x67, 0x65, 0x2f, 0x73, 0x65, 0x72, 0x76, 0x69, 0x63, 0x65, 0x73, 0x2f, 0x64, 0x69, 0x67, 0x69, 0x74, 0x61, 0x6c, 0x2d, 0x73, 0x69, 0x67, 0x6e, 0x61, 0x74, 0x75, 0x72, 0x65, 0x2f]
/-- 'package/services/digital-signature/origin.psdor' -/
def sOrigin : Bytes := [0x70, 0x61, 0x63, 0x6b, 0x61, 0x67, 0x65, 0x2f, 0x73, 0x65, 0x72, 0x76, 0x69, 0x63, 0x65, 0x73, 0x2f, 0x64, 0x69, 0x67, 0x69, 0x74, 0x61, 0x6c, 0x2d, 0x73, 0x69, 0x67, 0x6e, 0x61, 0x74, 0x75, 0x72, 0x65, 0x2f, 0x6f, 0x72, 0x69, 0x67, 0x69, 0x6e, 0x2e, 0x70, 0x73, 0x64, 0x6f, 0x72]
/-- 'package/services/digital-signature/xml-signature' -/
def sXmlSigPath : Bytes := [0x70, 0x61, 0x63, 0x6b, 0x61, 0x67, 0x65, 0x2f, 0x73, 0x65, 0x72, 0x76, 0x69, 0x63, 0x65, 0x73, 0x2f, 0x64, 0x69, 0x67, 0x69, 0x74, 0x61, 0x6c, 0x2d, 0x73, 0x69, 0x67, 0x6e, 0x61, 0x74, 0x75, 0x72, 0x65, 0x2f, 0x78, 0x6d, 0x6c, 0x2d, 0x73, 0x69, 0x67, 0x6e, 0x61, 0x74, 0x75, 0x72, 0x65]
/-- 'package/services/digital-signature/certificate' -/
def sXmlCertPath : Bytes := [0x70, 0x61, 0x63, 0x6b, 0x61, 0x67, 0x65, 0x2f, 0x73, 0x65, 0x72, 0x76, 0x69, 0x63, 0x65, 0x73, 0x2f, 0x64, 0x69, 0x67, 0x69, 0x74, 0x61, 0x6c, 0x2d, 0x73, 0x69, 0x67, 0x6e, 0x61, 0x74, 0x75, 0x72, 0x65, 0x2f, 0x63, 0x65, 0x72, 0x74, 0x69, 0x66, 0x69, 0x63, 0x61, 0x74, 0x65]
/-- 'http://schemas.openxmlformats.org/package/2006/digital-signature' -/
def nsDigSig : Bytes := [0x68, 0x74, 0x74, 0x70, 0x3a, 0x2f, 0x2f, 0x73, 0x63, 0x68, 0x65, 0x6d, 0x61, 0x73, 0x2e, 0x6f, 0x70, 0x65, 0x6e, 0x78, 0x6d, 0x6c, 0x66, 0x6f, 0x72, 0x6d, 0x61, 0x74, 0x73, 0x2e, 0x6f, 0x72, 0x67, 0x2f, 0x70, 0x61, 0x63, 0x6b, 0x61, 0x67, 0x65, 0x2f, 0x32, 0x30, 0x30, 0x36, 0x2f, 0x64, 0x69, 0x67, 0x69, 0x74, 0x61, 0x6c, 0x2d, 0x73, 0x69, 0x67, 0x6e, 0x61, 0x74, 0x75, 0x72, 0x65]
/-- 'http://schemas.openxmlformats.org/package/2006/relationships/digital-signature/origin' -/
def sigOriginType : Bytes := [0x68, 0x74, 0x74, 0x70, 0x3a, 0x2f, 0x2f, 0x73, 0x63, 0x68, 0x65, 0x6d, 0x61, 0x73, 0x2e, 0x6f, 0x70, 0x65, 0x6e, 0x78, 0x6d, 0x6c, 0x66, 0x6f, 0x72, 0x6d, 0x61, 0x74, 0x73, 0x2e, 0x6f, 0x72, 0x67, 0x2f, 0x70, 0x61, 0x63, 0x6b, 0x61, 0x67, 0x65, 0x2f, 0x32, 0x30, 0x30, 0x36, 0x2f, 0x72, 0x65, 0x6c, 0x61, 0x74, 0x69, 0x6f, 0x6e, 0x73, 0x68, 0x69, 0x70, 0x73, 0x2f, 0x64, 0x69, 0x67, 0x69, 0x74, 0x61, 0x6c, 0x2d, 0x73, 0x69, 0x67, 0x6e, 0x61, 0x74, 0x75, 0x72, 0x65, 0x2f, 0x6f, 0x72, 0x69, 0x67, 0x69, 0x6e]
/-- 'http://schemas.openxmlformats.org/package/2006/relationships/digital-signature/signature' -/
def sigType : Bytes := [0x68, 0x74, 0x74, 0x70, 0x3a, 0x2f, 0x2f, 0x73, 0x63, 0x68, 0x65, 0x6d, 0x61, 0x73, 0x2e, 0x6f, 0x70, 0x65, 0x6e, 0x78, 0x6d, 0x6c, 0x66, 0x6f, 0x72, 0x6d, 0x61, 0x74, 0x73, 0x2e, 0x6f, 0x72, 0x67, 0x2f, 0x70, 0x61, 0x63, 0x6b, 0x61, 0x67, 0x65, 0x2f, 0x32, 0x30, 0x30, 0x36, 0x2f, 0x72, 0x65, 0x6c, 0x61, 0x74, 0x69, 0x6f, 0x6e, 0x73, 0x68, 0x69, 0x70, 0x73, 0x2f, 0x64, 0x69, 0x67, 0x69, 0x74, 0x61, 0x6c, 0x2d, 0x73, 0x69, 0x67, 0x6e, 0x61, 0x74, 0x75, 0x72, 0x65, 0x2f, 0x73, 0x69, 0x67, 0x6e, 0x61, 0x74, 0x75, 0x72, 0x65]
/-- 'http://schemas.openxmlformats.org/package/2006/relationships/digital-signature/certificate' -/
def certType : Bytes := [0x68, 0x74, 0x74, 0x70, 0x3a, 0x2f, 0x2f, 0x73, 0x63, 0x68, 0x65, 0x6d, 0x61, 0x73, 0x2e, 0x6f, 0x70, 0x65, 0x6e, 0x78, 0x6d, 0x6c, 0x66, 0x6f, 0x72, 0x6d, 0x61, 0x74, 0x73, 0x2e, 0x6f, 0x72, 0x67, 0x2f, 0x70, 0x61, 0x63, 0x6b, 0x61, 0x67, 0x65, 0x2f, 0x32, 0x30, 0x30, 0x36, 0x2f, 0x72, 0x65, 0x6c, 0x61, 0x74, 0x69, 0x6f, 0x6e, 0x73, 0x68, 0x69, 0x70, 0x73, 0x2f, 0x64, 0x69, 0x67, 0x69, 0x74, 0x61, 0x6c, 0x2d, 0x73, 0x69, 0x67, 0x6e, 0x61, 0x74, 0x75, 0x72, 0x65, 0x2f, 0x63, 0x65, 0x72, 0x74, 0x69, 0x66, 0x69, 0x63, 0x61, 0x74, 0x65]
/-- 'application/octet-stream' -/
def defaultContentType : Bytes := [0x61, 0x70, 0x70, 0x6c, 0x69, 0x63, 0x61, 0x74, 0x69, 0x6f, 0x6e, 0x2f, 0x6f, 0x63, 0x74, 0x65, 0x74, 0x2d, 0x73, 0x74, 0x72, 0x65, 0x61, 0x6d]
/-- 'YYYY-MM-DDThh:mm:ss.sTZD' -/
def tsFormatXML : Bytes := [0x59, 0x59, 0x59, 0x59, 0x2d, 0x4d, 0x4d, 0x2d, 0x44, 0x44, 0x54, 0x68, 0x68, 0x3a, 0x6d, 0x6d, 0x3a, 0x73, 0x73, 0x2e, 0x73, 0x54, 0x5a, 0x44]
/-- 'application/vnd.openxmlformats-package.digital-signature-certificate' -/
def ctCer : Bytes := [0x61, 0x70, 0x70, 0x6c, 0x69, 0x63, 0x61, 0x74, 0x69, 0x6f, 0x6e, 0x2f, 0x76, 0x6e, 0x64, 0x2e, 0x6f, 0x70, 0x65, 0x6e, 0x78, 0x6d, 0x6c, 0x66, 0x6f, 0x72, 0x6d, 0x61, 0x74, 0x73, 0x2d, 0x70, 0x61, 0x63, 0x6b, 0x61, 0x67, 0x65, 0x2e, 0x64, 0x69, 0x67, 0x69, 0x74, 0x61, 0x6c, 0x2d, 0x73, 0x69, 0x67, 0x6e, 0x61, 0x74, 0x75, 0x72, 0x65, 0x2d, 0x63, 0x65, 0x72, 0x74, 0x69, 0x66, 0x69, 0x63, 0x61, 0x74, 0x65]
/-- 'application/vnd.openxmlformats-package.digital-signature-origin' -/
def ctPsdor : Bytes := [0x61, 0x70, 0x70, 0x6c, 0x69, 0x63, 0x61, 0x74, 0x69, 0x6f, 0x6e, 0x2f, 0x76, 0x6e, 0x64, 0x2e, 0x6f, 0x70, 0x65, 0x6e, 0x78, 0x6d, 0x6c, 0x66, 0x6f, 0x72, 0x6d, 0x61, 0x74, 0x73, 0x2d, 0x70, 0x61, 0x63, 0x6b, 0x61, 0x67, 0x65, 0x2e, 0x64, 0x69, 0x67, 0x69, 0x74, 0x61, 0x6c, 0x2d, 0x73, 0x69, 0x67, 0x6e, 0x61, 0x74, 0x75, 0x72, 0x65, 0x2d, 0x6f, 0x72, 0x69, 0x67, 0x69, 0x6e]
/-- 'application/vnd.openxmlformats-package.digital-signature-xmlsignature+xml' -/
def ctPsdsxs : Bytes := [0x61, 0x70, 0x70, 0x6c, 0x69, 0x63, 0x61, 0x74, 0x69, 0x6f, 0x6e, 0x2f, 0x76, 0x6e, 0x64, 0x2e, 0x6f, 0x70, 0x65, 0x6e, 0x78, 0x6d, 0x6c, 0x66, 0x6f, 0x72, 0x6d, 0x61, 0x74, 0x73, 0x2d, 0x70, 0x61, 0x63, 0x6b, 0x61, 0x67, 0x65, 0x2e, 0x64, 0x69, 0x67, 0x69, 0x74, 0x61, 0x6c, 0x2d, 0x73, 0x69, 0x67, 0x6e, 0x61, 0x74, 0x75, 0x72, 0x65, 0x2d, 0x78, 0x6d, 0x6c, 0x73, 0x69, 0x67, 0x6e, 0x61, 0x74, 0x75, 0x72, 0x65, 0x2b, 0x78, 0x6d, 0x6c]
/-- 'application/vnd.openxmlformats-package.relationships+xml' -/
def ctRels : Bytes := [0x61, 0x70, 0x70, 0x6c, 0x69, 0x63, 0x61, 0x74, 0x69, 0x6f, 0x6e, 0x2f, 0x76, 0x6e, 0x64, 0x2e, 0x6f, 0x70, 0x65, 0x6e, 0x78, 0x6d, 0x6c, 0x66, 0x6f, 0x72, 0x6d, 0x61, 0x74, 0x73, 0x2d, 0x70, 0x61, 0x63, 0x6b, 0x61, 0x67, 0x65, 0x2e, 0x72, 0x65, 0x6c, 0x61, 0x74, 0x69, 0x6f, 0x6e, 0x73, 0x68, 0x69, 0x70, 0x73, 0x2b, 0x78, 0x6d, 0x6c]
/-- 'cer' -/
def xCer : Bytes := [0x63, 0x65, 0x72]
/-- 'psdor' -/
def xPsdor : Bytes := [0x70, 0x73, 0x64, 0x6f, 0x72]
/-- 'psdsxs' -/
def xPsdsxs : Bytes := [0x70, 0x73, 0x64, 0x73, 0x78, 0x73]
/-- 'rels' -/
def xRels : Bytes := [0x72, 0x65, 0x6c, 0x73]
/-- '.rels' -/
def extRels : Bytes := [0x2e, 0x72, 0x65, 0x6c, 0x73]
/-- '.psdsxs' -/
def extPsdsxs : Bytes := [0x2e, 0x70, 0x73, 0x64, 0x73, 0x78, 0x73]
/-- '.psdor' -/
def extPsdor : Bytes := [0x2e, 0x70, 0x73, 0x64, 0x6f, 0x72]
/-- '.cer' -/
def extCer : Bytes := [0x2e, 0x63, 0x65, 0x72]
/-- '?ContentType=' -/
def sQueryCT : Bytes := [0x3f, 0x43, 0x6f, 0x6e, 0x74, 0x65, 0x6e, 0x74, 0x54, 0x79, 0x70, 0x65, 0x3d]
/-- 'idPackageObject' -/
def sIdPackageObject : Bytes := [0x69, 0x64, 0x50, 0x61, 0x63, 0x6b, 0x61, 0x67, 0x65, 0x4f, 0x62, 0x6a, 0x65, 0x63, 0x74]
/-- 'Manifest' -/
def sManifest : Bytes := [0x4d, 0x61, 0x6e, 0x69, 0x66, 0x65, 0x73, 0x74]
/-- 'SignatureProperties' -/
def sSignatureProperties : Bytes := [0x53, 0x69, 0x67, 0x6e, 0x61, 0x74, 0x75, 0x72, 0x65, 0x50, 0x72, 0x6f, 0x70, 0x65, 0x72, 0x74, 0x69, 0x65, 0x73]
/-- 'SignatureProperty' -/
def sSignatureProperty : Bytes := [0x53, 0x69, 0x67, 0x6e, 0x61, 0x74, 0x75, 0x72, 0x65, 0x50, 0x72, 0x6f, 0x70, 0x65, 0x72, 0x74, 0x79]
/-- 'idSignatureTime' -/
def sIdSignatureTime : Bytes := [0x69, 0x64, 0x53, 0x69, 0x67, 0x6e, 0x61, 0x74, 0x75, 0x72, 0x65, 0x54, 0x69, 0x6d, 0x65]
/-- 'Target' -/
def sTarget : Bytes := [0x54, 0x61, 0x72, 0x67, 0x65, 0x74]
/-- 'SignatureTime' -/
def sSignatureTime : Bytes := [0x53, 0x69, 0x67, 0x6e, 0x61, 0x74, 0x75, 0x72, 0x65, 0x54, 0x69, 0x6d, 0x65]
/-- 'Format' -/
def sFormat : Bytes := [0x46, 0x6f, 0x72, 0x6d, 0x61, 0x74]
/-- '<?xml version="1.0" encoding="UTF-8"?>\n' -/
def xmlHeader : Bytes := [0x3c, 0x3f, 0x78, 0x6d, 0x6c, 0x20, 0x76, 0x65, 0x72, 0x73, 0x69, 0x6f, 0x6e, 0x3d, 0x22, 0x31, 0x2e, 0x30, 0x22, 0x20, 0x65, 0x6e, 0x63, 0x6f, 0x64, 0x69, 0x6e, 0x67, 0x3d, 0x22, 0x55, 0x54, 0x46, 0x2d, 0x38, 0x22, 0x3f, 0x3e, 0x0a]
/-- '<Relationships xmlns="http://schemas.openxmlformats.org/package/2006/relationships">' -/
def relsOpen : Bytes := [0x3c, 0x52, 0x65, 0x6c, 0x61, 0x74, 0x69, 0x6f, 0x6e, 0x73, 0x68, 0x69, 0x70, 0x73, 0x20, 0x78, 0x6d, 0x6c, 0x6e, 0x73, 0x3d, 0x22, 0x68, 0x74, 0x74, 0x70, 0x3a, 0x2f, 0x2f, 0x73, 0x63, 0x68, 0x65, 0x6d, 0x61, 0x73, 0x2e, 0x6f, 0x70, 0x65, 0x6e, 0x78, 0x6d, 0x6c, 0x66, 0x6f, 0x72, 0x6d, 0x61, 0x74, 0x73, 0x2e, 0x6f, 0x72, 0x67, 0x2f, 0x70, 0x61, 0x63, 0x6b, 0x61, 0x67, 0x65, 0x2f, 0x32, 0x30, 0x30, 0x36, 0x2f, 0x72, 0x65, 0x6c, 0x61, 0x74, 0x69, 0x6f, 0x6e, 0x73, 0x68, 0x69, 0x70, 0x73, 0x22, 0x3e]
/-- '</Relationships>' -/
def relsClose : Bytes := [0x3c, 0x2f, 0x52, 0x65, 0x6c, 0x61, 0x74, 0x69, 0x6f, 0x6e, 0x73, 0x68, 0x69, 0x70, 0x73, 0x3e]
/-- '<Relationship Target="' -/
def relOpen : Bytes := [0x3c, 0x52, 0x65, 0x6c, 0x61, 0x74, 0x69, 0x6f, 0x6e, 0x73, 0x68, 0x69, 0x70, 0x20, 0x54, 0x61, 0x72, 0x67, 0x65, 0x74, 0x3d, 0x22]
/-- '" Id="' -/
def relMid1 : Bytes := [0x22, 0x20, 0x49, 0x64, 0x3d, 0x22]
/-- '" Type="' -/
def relMid2 : Bytes := [0x22, 0x20, 0x54, 0x79, 0x70, 0x65, 0x3d, 0x22]
/-- '"></Relationship>' -/
def relClose : Bytes := [0x22, 0x3e, 0x3c, 0x2f, 0x52, 0x65, 0x6c, 0x61, 0x74, 0x69, 0x6f, 0x6e, 0x73, 0x68, 0x69, 0x70, 0x3e]

/-! ### Go's `path` package (the element stack of `path.Clean` is `Relic.Jar.cleanStack`) -/

def pathClean (p : Bytes) : Bytes := Jar.pathClean p
def pathBase (p : Bytes) : Bytes := Jar.pathBase p
def pathDir (p : Bytes) : Bytes := Jar.pathDir p
def pathExt (p : Bytes) : Bytes := Jar.pathExt p

/-- the buffer loop of `path.Join`: leading empty elements are skipped, later ones still add a slash -/
def joinBuf : Bytes → List Bytes → Bytes
  | buf, [] => buf
  | buf, e :: es =>
    if buf ≠ [] then joinBuf (buf ++ 47 :: e) es
    else if e ≠ [] then joinBuf e es
    else joinBuf buf es

/-- `path.Join` -/
def pathJoin (elems : List Bytes) : Bytes :=
  if elems.all (· = []) then [] else pathClean (joinBuf [] elems)

/-- `path.Clean("./" + t)` (`oxfRelationships.Find`, the certificate loop of `readSignature`) -/
def cleanRel (t : Bytes) : Bytes := pathClean (46 :: 47 :: t)

/-- `relPath` -/
def relPath (fp : Bytes) : Bytes :=
  let base := pathBase fp
  let base := if base = [46] then [] else base
  pathJoin [pathDir fp, sRelsSeg, base ++ extRels]

/-- `checkManifest`: `p := path.Join("./" + ref.URI)`, cut at the first `?` -/
def uriPath (uri : Bytes) : Bytes := (pathJoin [46 :: 47 :: uri]).takeWhile (· ≠ 63)

/-- `keepFile` -/
def keepFile (fp : Bytes) : Bool :=
  if fp = sRootRelsDir ∨ fp = sContentTypes then false
  else if pathExt fp = extRels ∨ pathExt fp = extPsdsxs ∨ pathExt fp = extPsdor then false
  else if sDigSigSlash.isPrefixOf fp then false
  else true

/-! ### Go maps with string keys and values (a missing key reads as "") -/

abbrev SMap := List (Bytes × Bytes)

def mset (m : SMap) (k v : Bytes) : SMap := m.filter (fun e => e.1 ≠ k) ++ [(k, v)]

def mget (m : SMap) (k : Bytes) : Bytes :=
  match m.find? (fun e => e.1 = k) with
  | some e => e.2
  | none => []

/-- `sort.Strings` over the keys (which are unique): insertion into an ascending list -/
def insSorted (k v : Bytes) : SMap → SMap
  | [] => [(k, v)]
  | e :: r => if bytesLt k e.1 then (k, v) :: e :: r else e :: insSorted k v r

def sortMap (m : SMap) : SMap := m.foldr (fun e acc => insSorted e.1 e.2 acc) []

/-! ### content types (lib/signappx/contenttypes.go, signers/vsix/contenttypes.go) -/

structure CT where
  byExt : SMap := []
  byOvr : SMap := []
  deriving Repr, DecidableEq

/-- `ContentTypes.Parse` after `xml.Unmarshal`: `ds` / `os` = the Default and Override elements in document order -/
def ctParse (c : CT) (ds os : List (Bytes × Bytes)) : CT :=
  { byExt := ds.foldl (fun m d => mset m d.1 d.2) c.byExt, byOvr := os.foldl (fun m d => mset m d.1 d.2) c.byOvr }

/-- `ContentTypes.Find` (`path.Ext` of a non-empty result always starts with a dot) -/
def ctFind (c : CT) (name : Bytes) : Bytes :=
  let ov := mget c.byOvr (47 :: name)
  if ov ≠ [] then ov
  else
    let ext := pathExt (pathBase name)
    if ext ≠ [] ∧ ext.head? = some 46 then mget c.byExt (ext.drop 1) else []

/-- the package-level table `contentTypes` of consts.go -/
def builtinCT (ext : Bytes) : Bytes :=
  if ext = xCer then ctCer else if ext = xPsdor then ctPsdor else if ext = xPsdsxs then ctPsdsxs
  else if ext = xRels then ctRels else []

/-- the content type `makeSignature` writes into the Reference URI; before the repair `ext[0]` on an empty `ext` panicked -/
def refCType (fx : Bool) (c : CT) (name : Bytes) : Res Bytes :=
  let ct := ctFind c name
  if ct ≠ [] then .ok ct
  else
    match pathExt (pathBase name) with
    | [] => if fx then .err "no-content-type" else .panic "vsix_(*mangler)_makeSignature"
    | d :: rest =>
      let ct := if d = 46 then builtinCT rest else []
      if ct ≠ [] then .ok ct else .ok defaultContentType

/-- `newCtypes(hasCer)` up to `Marshal` -/
def newCtypes (c : CT) (hasCer : Bool) : CT :=
  let m := c.byExt
  let m := if hasCer then mset m xCer ctCer else m
  { c with byExt := mset (mset (mset m xPsdor ctPsdor) xPsdsxs ctPsdsxs) xRels ctRels }

/-! ### relationships (rels.go) -/

structure Rel where
  target : Bytes
  id : Bytes
  type : Bytes
  deriving Repr, DecidableEq

/-- `xml.Marshal` of `oxfRelationships` behind `xml.Header`.  No escaping: the values the signer writes (constants and
    base32 file names) contain no character `encoding/xml` escapes. -/
def marshalRels (rs : List Rel) : Bytes :=
  xmlHeader ++ relsOpen ++ rs.flatMap (fun r => relOpen ++ r.target ++ relMid1 ++ r.id ++ relMid2 ++ r.type ++ relClose) ++ relsClose

/-- `oxfRelationships.Find` -/
def relsFind (rs : List Rel) (t : Bytes) : Option Bytes :=
  match rs.find? (fun r => r.type = t) with
  | some r => some (cleanRel r.target)
  | none => none

/-! ### parts, packages, the environment -/

structure Part where
  name : Bytes
  data : Bytes
  deriving Repr, DecidableEq

abbrev Pkg := List Part

/-- `files[name]` of `verify` (and `m.digests[name]` of `mangleZip`): the last member of that name -/
def findLast : Pkg → Bytes → Option Part
  | [], _ => none
  | p :: ps, n =>
    match findLast ps n with
    | some q => some q
    | none => if p.name = n then some p else none

inductive DCmp where
  | ok | badB64 | mismatch
  deriving Repr, DecidableEq

/-- what `xmldsig.Verify` (+ `checkTimestamp`) hands back to `verify` -/
structure Opened where
  /-- `xs.Reference`: the Object element -/
  reference : Node
  hash : HashId
  /-- `xs.PublicKey` -/
  key : Bytes
  /-- public keys of the X509Certificate elements inside KeyInfo -/
  embedded : List Bytes
  /-- error class of `checkTimestamp`, if it fails -/
  ts : Option String
  deriving Repr

structure Env where
  /-- base64 of the digest of a stream -/
  dtext : HashId → Bytes → Bytes
  /-- `base64.DecodeString(DigestValue)` and `hmac.Equal` against the digest of the part -/
  digestCmp : HashId → Bytes → Bytes → DCmp
  /-- `fmt.Sprintf("R%X", sha1(zipPath ‖ relType ‖ 0…)[:4])`, first value not yet used in the list -/
  relId : List Rel → Bytes → Bytes → Bytes
  /-- `xml.Unmarshal` into `oxfRelationships` -/
  parseRels : Bytes → Option (List Rel)
  /-- `xml.Unmarshal` into `xmlContentTypes`: (Default elements, Override elements) -/
  parseCT : Bytes → Option (List (Bytes × Bytes) × List (Bytes × Bytes))
  /-- `marshalXML` of the sorted Default / Override lists -/
  marshalCT : List (Bytes × Bytes) → List (Bytes × Bytes) → Bytes
  /-- `x509.ParseCertificates`: public keys -/
  parseCerts : Bytes → Option (List Bytes)
  /-- `xmldsig.SignEnveloping(pkg, hash, key, chain, {UseRecC14n, IncludeKeyValue, IncludeX509 = !detachCerts})` + `WriteToBytes` -/
  xsign : HashId → Bool → Node → Bytes
  /-- `doc.ReadFromString` + `xmldsig.Verify(root, ".", certs)` + `checkTimestamp` -/
  xopen : Bytes → List Bytes → Res Opened

/-! ### mangle.go -/

structure Mangled where
  kept : Pkg := []
  /-- `m.digests`: part name ↦ the stream that was digested -/
  digests : SMap := []
  ct : CT := {}
  deriving Repr

/-- the callback of `mangleZip`, member by member -/
def mangle (fx : Bool) (E : Env) : Pkg → Mangled → Res Mangled
  | [], m => .ok m
  | p :: ps, m =>
    if keepFile p.name then
      if fx && m.digests.any (fun e => e.1 = p.name) then .err "duplicate"
      else mangle fx E ps { m with kept := m.kept ++ [p], digests := mset m.digests p.name p.data }
    else if p.name = sContentTypes then
      match E.parseCT p.data with
      | none => .err "ctypes"
      | some t => mangle fx E ps { m with ct := ctParse m.ct t.1 t.2 }
    else mangle fx E ps m

/-! ### signer.go / oxmlsig.go: signing -/

structure Cfg where
  hash : HashId
  /-- `--detach-certs` -/
  detach : Bool
  /-- `calcFileName(cert.Leaf)` -/
  stem : Bytes
  /-- `(calcFileName(c), c.Raw)` for `c` in `cert.Chain()` -/
  chain : List (Bytes × Bytes)
  /-- `opts.Time.Format(tsFormatGo)` -/
  time : Bytes
  deriving Repr

def sigName (c : Cfg) : Bytes := pathJoin [sXmlSigPath, c.stem ++ extPsdsxs]
def certPath (stem : Bytes) : Bytes := pathJoin [sXmlCertPath, stem ++ extCer]

/-- `oxfRelationships.Append` -/
def appendRel (E : Env) (rs : List Rel) (zipPath relType : Bytes) : List Rel :=
  rs ++ [⟨pathClean (47 :: zipPath), E.relId rs zipPath relType, relType⟩]

/-- the relationship list of `addCerts` -/
def certRels (E : Env) : List (Bytes × Bytes) → List Rel → List Rel
  | [], rs => rs
  | x :: xs, rs => certRels E xs (appendRel E rs (certPath x.1) certType)

structure Ref where
  name : Bytes
  ctype : Bytes
  /-- the bytes whose digest is stored -/
  stream : Bytes
  deriving Repr, DecidableEq

def Ref.uri (r : Ref) : Bytes := 47 :: r.name ++ sQueryCT ++ r.ctype

/-- the loop over the sorted names in `makeSignature` -/
def mkRefs (fx : Bool) (c : CT) : SMap → Res (List Ref)
  | [] => .ok []
  | e :: es =>
    match refCType fx c e.1 with
    | .ok ct =>
      if fx && decide (uriPath (Ref.uri ⟨e.1, ct, e.2⟩) ≠ e.1) then .err "unreferencable" else
      match mkRefs fx c es with
      | .ok rs => .ok (⟨e.1, ct, e.2⟩ :: rs)
      | .err x => .err x
      | .panic s => .panic s
      | .diverge => .diverge
    | .err x => .err x
    | .panic s => .panic s
    | .diverge => .diverge

def refNode (E : Env) (h : HashId) (r : Ref) : Node :=
  el sReference [at_ sURI r.uri] [el sDigestMethod [at_ sAlgorithm (hashUri h)] [], el sDigestValue [] [txt (E.dtext h r.stream)]]

/-- the `Object` element `makeSignature` hands to `xmldsig.SignEnveloping` -/
def objectNode (E : Env) (h : HashId) (time : Bytes) (refs : List Ref) : Node :=
  el sObject [at_ sId sIdPackageObject] [
    el sManifest [] (refs.map (refNode E h)),
    el sSignatureProperties [] [
      el sSignatureProperty [at_ sId sIdSignatureTime, at_ sTarget []] [
        el sSignatureTime [at_ sXmlns nsDigSig] [el sFormat [] [txt tsFormatXML], el sValue [] [txt time]]]]]

structure Signed where
  /-- the package after `MakePatch` + apply: kept members, then the members added with `NewFile`, in call order -/
  parts : Pkg
  kept : Pkg
  /-- the Manifest, in order -/
  refs : List Ref
  obj : Node
  /-- the table written to `[Content_Types].xml` -/
  ctOut : CT
  deriving Repr

/-- the parts `sign` adds before the signature part -/
def fixedNews (E : Env) (c : Cfg) : Pkg :=
  [⟨relPath [], marshalRels (appendRel E [] sOrigin sigOriginType)⟩,
   ⟨relPath sOrigin, marshalRels (appendRel E [] (sigName c) sigType)⟩,
   ⟨sOrigin, []⟩]

/-- `addCerts` -/
def certNews (E : Env) (c : Cfg) : Pkg :=
  if c.detach then
    c.chain.map (fun x => ⟨certPath x.1, x.2⟩) ++ [⟨relPath (sigName c), marshalRels (certRels E c.chain [])⟩]
  else []

/-- `addFile` for the three digested new parts -/
def addDigests (m : SMap) (news : Pkg) : SMap := news.foldl (fun m p => mset m p.name p.data) m

/-- `sign` -/
def sign (fx : Bool) (E : Env) (c : Cfg) (pkg : Pkg) : Res Signed :=
  match mangle fx E pkg {} with
  | .ok m =>
    let digests := addDigests m.digests (fixedNews E c)
    match mkRefs fx m.ct (sortMap digests) with
    | .ok refs =>
      let obj := objectNode E c.hash c.time refs
      let ct' := newCtypes m.ct c.detach
      .ok { parts := m.kept ++ fixedNews E c ++ certNews E c ++
                     [⟨sigName c, E.xsign c.hash c.detach obj⟩,
                      ⟨sContentTypes, E.marshalCT (sortMap ct'.byExt) (sortMap ct'.byOvr)⟩],
            kept := m.kept, refs := refs, obj := obj, ctOut := ct' }
    | .err x => .err x
    | .panic s => .panic s
    | .diverge => .diverge
  | .err x => .err x
  | .panic s => .panic s
  | .diverge => .diverge

/-! ### oxmlsig.go / signer.go: verification -/

abbrev Files := Bytes → Option Part

/-- `readZip` -/
def readZip (files : Files) (p : Bytes) : Res Bytes :=
  match files p with
  | some f => .ok f.data
  | none => .err "missing"

/-- `parseRels` -/
def parseRelsAt (E : Env) (files : Files) (p : Bytes) : Res (List Rel) :=
  match readZip files p with
  | .ok b =>
    match E.parseRels b with
    | some rs => .ok rs
    | none => .err "rels"
  | .err x => .err x
  | .panic s => .panic s
  | .diverge => .diverge

/-- the certificate loop of `readSignature` -/
def readCerts (E : Env) (files : Files) : List Rel → Res (List Bytes)
  | [] => .ok []
  | r :: rs =>
    if r.type ≠ certType then readCerts E files rs
    else
      match readZip files (cleanRel r.target) with
      | .ok blob =>
        match E.parseCerts blob with
        | none => .err "badcert"
        | some ks =>
          match readCerts E files rs with
          | .ok rest => .ok (ks ++ rest)
          | .err x => .err x
          | .panic s => .panic s
          | .diverge => .diverge
      | .err x => .err x
      | .panic s => .panic s
      | .diverge => .diverge

/-- `readSignature`: (signature part, public keys of the detached certificates) -/
def readSignature (E : Env) (files : Files) : Res (Bytes × List Bytes) :=
  let top := relPath []
  if (files top).isNone then .err "notsigned" else
  match parseRelsAt E files top with
  | .ok r =>
    match relsFind r sigOriginType with
    | none => .err "notsigned"
    | some origin =>
      match parseRelsAt E files (relPath origin) with
      | .ok r2 =>
        match relsFind r2 sigType with
        | none => .err "notsigned"
        | some sigpath =>
          match readZip files sigpath with
          | .ok sigblob =>
            if (files (relPath sigpath)).isNone then .ok (sigblob, []) else
            match parseRelsAt E files (relPath sigpath) with
            | .ok r3 =>
              match readCerts E files r3 with
              | .ok certs => .ok (sigblob, certs)
              | .err x => .err x
              | .panic s => .panic s
              | .diverge => .diverge
            | .err x => .err x
            | .panic s => .panic s
            | .diverge => .diverge
          | .err x => .err x
          | .panic s => .panic s
          | .diverge => .diverge
      | .err x => .err x
      | .panic s => .panic s
      | .diverge => .diverge
  | .err x => .err x
  | .panic s => .panic s
  | .diverge => .diverge

/-- the Reference elements of one `<Manifest>` (`xml:"Manifest>Reference"`; a fresh struct per element) -/
def decodeRefs (acc : List RefInfo) : List Node → List RefInfo
  | [] => acc
  | .elem _ tag as ks :: rest =>
    if tag = sReference then decodeRefs (acc ++ [decRefKids { uri := attrVal sURI as [] } ks]) rest
    else decodeRefs acc rest
  | _ :: rest => decodeRefs acc rest

/-- children of the element handed to `checkManifest` -/
def decodeManifestKids (acc : List RefInfo) : List Node → List RefInfo
  | [] => acc
  | .elem _ tag _ ks :: rest =>
    if tag = sManifest then decodeManifestKids (decodeRefs acc ks) rest else decodeManifestKids acc rest
  | _ :: rest => decodeManifestKids acc rest

/-- `xml.Unmarshal(blob, &m)` of `checkManifest`: `m.References` -/
def decodeManifest (n : Node) : List RefInfo := decodeManifestKids [] (kidsOf n)

/-- the loop of `checkManifest`: (part looked up, bytes hashed) per Reference -/
def checkRefs (E : Env) (files : Files) : List RefInfo → Res (List (Bytes × Bytes))
  | [] => .ok []
  | r :: rs =>
    match files (uriPath r.uri) with
    | none => .err "file-not-found"
    | some f =>
      match hashOfName (stripNs r.digestAlg) with
      | none => .err "unsupported-digest"
      | some h =>
        match E.digestCmp h f.data r.digestValue with
        | .badB64 => .err "invalid-digest"
        | .mismatch => .err "digest-mismatch"
        | .ok =>
          match checkRefs E files rs with
          | .ok rest => .ok ((uriPath r.uri, f.data) :: rest)
          | .err x => .err x
          | .panic s => .panic s
          | .diverge => .diverge

structure Verdict where
  hash : HashId
  key : Bytes
  /-- (part name, bytes hashed) for every Reference of the Manifest, in order -/
  checked : List (Bytes × Bytes)
  deriving Repr, DecidableEq

/-- the walk over the archive after the reference loop (repair): a member `keepFile` keeps that no Reference names -/
def uncovered (names : List Bytes) (checked : List (Bytes × Bytes)) : Bool :=
  names.any fun n => keepFile n && !(checked.any fun x => x.1 = n)

/-- `readSignature`, `xmldsig.Verify`, the reference loop of `checkManifest` -/
def verifyCore (E : Env) (files : Files) : Res ((Bytes × List Bytes) × Opened × List (Bytes × Bytes)) :=
  match readSignature E files with
  | .ok sc =>
    match E.xopen sc.1 sc.2 with
    | .ok o =>
      match checkRefs E files (decodeManifest o.reference) with
      | .ok checked => .ok (sc, o, checked)
      | .err x => .err x
      | .panic s => .panic s
      | .diverge => .diverge
    | .err x => .err x
    | .panic s => .panic s
    | .diverge => .diverge
  | .err x => .err x
  | .panic s => .panic s
  | .diverge => .diverge

/-- `verify` on the name → member map; `names` = the member names of the archive -/
def verifyF (fx : Bool) (E : Env) (files : Files) (names : List Bytes) : Res Verdict :=
  match verifyCore E files with
  | .ok r =>
    if fx && uncovered names r.2.2 then .err "uncovered" else
    match r.2.1.ts with
    | some e => .err e
    | none =>
      if (r.1.2 ++ r.2.1.embedded).any (fun k => k = r.2.1.key) then .ok ⟨r.2.1.hash, r.2.1.key, r.2.2⟩ else .err "noleaf"
  | .err x => .err x
  | .panic s => .panic s
  | .diverge => .diverge

/-- two members of one name -/
def hasDup (pkg : Pkg) : Bool := !decide (pkg.map (·.name)).Nodup

/-- `verify` -/
def verify (fx : Bool) (E : Env) (pkg : Pkg) : Res Verdict :=
  if fx && hasDup pkg then .err "duplicate" else verifyF fx E (findLast pkg) (pkg.map (·.name))

/-! ### well-formedness conditions (decidable; evaluated by the driver for every op) -/

/-- names of the parts `sign` adds -/
def newNames (c : Cfg) : List Bytes :=
  [relPath [], relPath sOrigin, sOrigin] ++
  (if c.detach then c.chain.map (fun x => certPath x.1) ++ [relPath (sigName c)] else []) ++ [sigName c, sContentTypes]

/-- a relationship target written by `Append` leads `Find` back to the part -/
def targetBack (p : Bytes) : Bool := cleanRel (pathClean (47 :: p)) = p

/-- the signer's own part names are pairwise different, are not payload names, and are what the verifier computes
    from the relationship targets; without `--detach-certs` no part is named like the certificate relationships of the
    signature part (true for every base32 file name `calcFileName` can return) -/
def cfgOk (c : Cfg) : Bool :=
  (newNames c).all (fun n => !keepFile n) && decide (newNames c).Nodup &&
  !keepFile (relPath (sigName c)) && (c.detach || !(newNames c).contains (relPath (sigName c))) &&
  targetBack (sigName c) && c.chain.all (fun x => targetBack (certPath x.1))

/-- every Reference URI leads `checkManifest` back to the part it was made from -/
def refsOk (refs : List Ref) : Bool := refs.all (fun r => uriPath r.uri = r.name)

end Relic.Vsix

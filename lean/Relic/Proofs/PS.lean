/- lemmas about the PowerShell model: line splitting, the digest loop, the characterisation of a successful digest -/
import Relic.Model.PS
import Relic.Proofs.Codec
set_option linter.unusedSimpArgs false
namespace Relic.PS
open Relic

/-! ### line splitting (code after fix F8a) -/

def itemBytes : Item → Bytes
  | .line b _ => b
  | .bad => []

/-- the bytes of all lines, in order -/
def joinItems (l : List Item) : Bytes := l.flatMap itemBytes

/-- every item is a line whose physical size is its length (no "malformed utf16", no phantom zero byte) -/
def Good (l : List Item) : Prop := ∀ it ∈ l, ∃ b, it = .line b b.length

theorem lines8_join (cur f : Bytes) : joinItems (lines8 cur f) = cur ++ f ∧ Good (lines8 cur f) := by
  induction f generalizing cur with
  | nil =>
    refine ⟨by simp [lines8, joinItems, itemBytes], ?_⟩
    intro it hit
    simp [lines8] at hit
    exact ⟨cur, hit⟩
  | cons b bs ih =>
    simp only [lines8]
    split
    · rename_i hb
      obtain ⟨j, g⟩ := ih []
      refine ⟨?_, ?_⟩
      · simp only [joinItems, List.flatMap_cons, itemBytes] at j ⊢
        rw [j, hb]; simp
      · intro it hit
        rcases List.mem_cons.mp hit with h | h
        · exact ⟨cur ++ [10], by rw [h]; simp⟩
        · exact g it h
    · obtain ⟨j, g⟩ := ih (cur ++ [b])
      exact ⟨by rw [j]; simp, g⟩

theorem lines16_join (cur f : Bytes) : joinItems (lines16 cur f) = cur ++ f ∧ Good (lines16 cur f) := by
  fun_induction lines16 cur f with
  | case1 cur =>
    refine ⟨by simp [joinItems, itemBytes], ?_⟩
    intro it hit
    simp at hit
    exact ⟨cur, hit⟩
  | case2 cur b =>
    refine ⟨by simp [joinItems, itemBytes], ?_⟩
    intro it hit
    simp at hit
    exact ⟨cur ++ [b], by rw [hit]; simp⟩
  | case3 cur a b bs hab ih =>
    obtain ⟨j, g⟩ := ih
    obtain ⟨ha, hb⟩ := hab
    refine ⟨?_, ?_⟩
    · simp only [joinItems, List.flatMap_cons, itemBytes] at j ⊢
      rw [j, ha, hb]; simp
    · intro it hit
      rcases List.mem_cons.mp hit with h | h
      · exact ⟨cur ++ [10, 0], by rw [h]; simp⟩
      · exact g it h
  | case4 cur a b bs hab ih =>
    obtain ⟨j, g⟩ := ih
    exact ⟨by rw [j]; simp, g⟩

/-! ### the digest loop (code after fix F8b) -/

/-- sizes: text and signature block partition the file -/
theorem digestLoop_sizes (first : Bytes) (u16 : Bool) (k flen : Nat) (items : List Item) (saved h : Bytes) (ts pos : Nat)
    (H : Bytes) (T S : Nat) (e : digestLoop true true first u16 k flen items saved h ts pos = .ok (H, T, S))
    (hg : Good items) (hp : pos = ts + saved.length) (hl : pos + (joinItems items).length = flen) :
    T + S = flen ∧ ts ≤ T := by
  induction items generalizing saved h ts pos with
  | nil =>
    simp only [digestLoop] at e
    injection e with e; injection e with e1 e2; injection e2 with e2 e3
    simp [joinItems] at hl
    omega
  | cons it rest ih =>
    obtain ⟨l, hit⟩ := hg it (by simp)
    subst hit
    have hg' : Good rest := fun x hx => hg x (by simp [hx])
    simp only [joinItems, List.flatMap_cons, itemBytes, List.length_append] at hl
    simp only [digestLoop] at e
    split at e
    · split at e
      · simp at e
      · split at e
        · simp at e
        · injection e with e; injection e with e1 e2; injection e2 with e2 e3
          simp only [List.length_take] at e2
          omega
    · have := ih l (h ++ conv u16 saved) (ts + saved.length) (pos + l.length) e hg' (by omega)
        (by simp only [joinItems]; omega)
      omega

theorem take_mid (h saved r : Bytes) (n : Nat) (hn : n ≤ saved.length) :
    List.take (h.length + n) (h ++ (saved ++ r)) = h ++ List.take n saved := by
  rw [List.take_append]
  have e1 : List.take (h.length + n) h = h := List.take_of_length_le (by omega)
  have e2 : h.length + n - h.length = n := by omega
  rw [e1, e2, List.take_append]
  have e3 : n - saved.length = 0 := by omega
  rw [e3]
  simp

/-- UTF-16 text is hashed as it is: the stream is the file up to `TextSize` -/
theorem digestLoop_stream16 (first : Bytes) (k flen : Nat) (items : List Item) (saved h : Bytes) (ts pos : Nat)
    (H : Bytes) (T S : Nat) (e : digestLoop true true first true k flen items saved h ts pos = .ok (H, T, S))
    (F : Bytes) (hF : F = h ++ saved ++ joinItems items) (hts : ts = h.length) :
    H = F.take T := by
  induction items generalizing saved h ts pos with
  | nil =>
    simp only [digestLoop, conv, if_true] at e
    injection e with e; injection e with e1 e2; injection e2 with e2 e3
    subst hF; subst e1; subst e2; subst hts
    simp only [joinItems, List.flatMap_nil, List.append_nil]
    rw [← List.length_append, List.take_length]
  | cons it rest ih =>
    cases it with
    | bad => simp [digestLoop] at e
    | line l phys =>
      simp only [digestLoop] at e
      split at e
      · split at e
        · simp at e
        · split at e
          · simp at e
          · injection e with e; injection e with e1 e2; injection e2 with e2 e3
            subst hF; subst e1; subst e2; subst hts
            simp only [conv, if_true, List.length_take, List.append_assoc]
            have : min (saved.length - k) saved.length = saved.length - k := by omega
            rw [this, take_mid h saved _ _ (by omega)]
      · refine ih l (h ++ conv true saved) (ts + saved.length) (pos + phys) e ?_ ?_
        · subst hF; simp [joinItems, itemBytes, conv, List.append_assoc]
        · subst hts; simp [conv]

/-- the digest loop of the fixed code never panics -/
theorem digestLoop_no_panic (first : Bytes) (u16 : Bool) (k flen : Nat) (items : List Item) (saved h : Bytes) (ts pos : Nat)
    (s : String) : digestLoop true true first u16 k flen items saved h ts pos ≠ .panic s := by
  induction items generalizing saved h ts pos with
  | nil => simp [digestLoop]
  | cons it rest ih =>
    cases it with
    | bad => simp [digestLoop]
    | line l phys =>
      simp only [digestLoop]
      split
      · split
        · simp
        · split <;> simp
      · exact ih _ _ _ _

/-! ### the central characterisation -/

theorem items_join (f : Bytes) (u16 : Bool) :
    joinItems (if u16 then lines16 [] f else lines8 [] f) = f ∧ Good (if u16 then lines16 [] f else lines8 [] f) := by
  cases u16
  · simpa using lines8_join [] f
  · simpa using lines16_join [] f

/-- what a successful `DigestPowershell` guarantees: text and signature block partition the file, and UTF-16 text is
    hashed as it is – the stream is the file minus the signature block and the line break in front of it. -/
structure DigestOk (f : Bytes) (style : Nat) (d : Digest) : Prop where
  sizes : d.textSize + d.sigSize = f.length
  utf16 : d.utf16 = isUtf16 f
  known : ∃ se, styleOf style = some se
  styleEq : d.style = style
  stream16 : d.utf16 = true → d.hashed = f.take d.textSize

theorem DigestPS_spec (f : Bytes) (style : Nat) (d : Digest) (e : DigestPS f style = .ok d) : DigestOk f style d := by
  unfold DigestPS digestWith at e
  cases hs : styleOf style with
  | none => simp [hs] at e
  | some se =>
    obtain ⟨st, en⟩ := se
    simp only [hs] at e
    obtain ⟨hj, hg⟩ := items_join f (isUtf16 f)
    generalize hit : (if isUtf16 f = true then lines16 [] f else lines8 [] f) = items at e hj hg
    cases hl : digestLoop true true (firstLine st en (isUtf16 f)) (isUtf16 f) (if isUtf16 f = true then 4 else 2) f.length items [] [] 0 0 with
    | err _ => simp [hl] at e
    | panic _ => simp [hl] at e
    | diverge => simp [hl] at e
    | ok v =>
      obtain ⟨H, T, S⟩ := v
      simp only [hl] at e
      injection e with e
      subst e
      have hz := digestLoop_sizes _ _ _ _ _ _ _ _ _ H T S hl hg (by simp) (by rw [hj]; simp)
      refine ⟨hz.1, rfl, ⟨(st, en), hs⟩, rfl, ?_⟩
      intro hu
      simp only at hu
      rw [hu] at hl
      exact digestLoop_stream16 _ _ _ _ _ _ _ _ H T S hl f (by rw [hj]; simp) rfl

theorem DigestPS_no_panic (f : Bytes) (style : Nat) (s : String) : DigestPS f style ≠ .panic s := by
  unfold DigestPS digestWith
  cases styleOf style with
  | none => simp
  | some se =>
    obtain ⟨st, en⟩ := se
    simp only
    intro h
    split at h
    · cases h
    · cases h
    · rename_i p hp
      exact digestLoop_no_panic _ _ _ _ _ _ _ _ _ _ hp
    · cases h

/-! ### the signed script -/

/-- the signed script, as bytes: the text followed by the signature block -/
def signedBytes (f : Bytes) (d : Digest) (st en sig : Bytes) : Bytes := f.take d.textSize ++ block st en d.utf16 sig

theorem sem_makePatch (f : Bytes) (style : Nat) (d : Digest) (sig : Bytes) (ps : List Binpatch.Patch) (st en : Bytes)
    (H : DigestOk f style d) (hs : styleOf style = some (st, en)) (e : makePatch d sig = .ok ps) :
    Binpatch.sem f ps = signedBytes f d st en sig ∧ Binpatch.wfFrom f.length 0 ps = true := by
  unfold makePatch at e
  rw [H.styleEq, hs] at e
  injection e with e
  subst e
  have hz := H.sizes
  refine ⟨?_, ?_⟩
  · simp only [Binpatch.sem, List.foldr, splice, signedBytes]
    rw [hz, List.drop_length, List.append_nil]
  · simp [Binpatch.wfFrom]; omega

end Relic.PS

/-
  C02 — Any change to signed content or to the signature makes verification fail.   Security catalogs / pkcs.Verify.
  The container layer (what an accepted SignedData implies) is `Relic.Props.C02.cms_*` (C02_Cms.lean); here: which bytes of a
  catalog *file* reach the digest, and which do not.
-/
import Relic.Props.C01_Cat
import Relic.Props.C02_Cms
namespace Relic.Props.C02
open Relic Relic.Der Relic.CatSign

/-- **cat_content_change_rejected.**  `s` = a signed catalog; `f` = any file in which the verifier finds other content octets
    `c' ≠ s.content` (a member hash changed, an entry added or removed, …).  If the hash does not collide on the two, the digest
    the verifier computes for `f` differs from the one the signature value was made over – so `f` is accepted only if the
    signature primitive accepts one signature value for two different digests (`cms_content_change_rejected` then says the
    same about `SignedData.Verify` as a whole). -/
theorem cat_content_change_rejected (H : Bytes → Bytes) (k : Signer) (x : Bytes) (s : Signed) (f c' : Bytes)
    (h : sign H k x = .ok s) (hk : k.WF) (hfit : C08.Fits k s.ci)
    (hf : C01.verifyInput f = .ok c') (hne : c' ≠ s.content) (hcf : H c' = H s.content → c' = s.content) :
    C01.verifyInput s.out = .ok s.content ∧ s.sig = k.sign (H s.content) ∧ H c' ≠ H s.content := by
  obtain ⟨a, b⟩ := C01.cat_sign_then_verify H k x s h hk hfit
  exact ⟨a, b, fun e => hne (hcf e)⟩

/-- the digest input is a function of the ContentInfo element alone -/
theorem cat_verify_input_of_ci (f g : Bytes) (h : unmarshalCI f = unmarshalCI g) : C01.verifyInput f = C01.verifyInput g := by
  unfold C01.verifyInput; rw [h]

open Relic.Cms in
/-- **pkcs_verify_content_rule.**  `pkcs.Verify` and `--content`: with `--no-digests` the file is not even read; otherwise a
    structure with embedded content `c` and a content file holding other bytes is refused ("internal and external content were
    both provided but are not equal"), a detached structure without a content file is refused ("missing content"), and a
    detached structure is judged over the content file's bytes, whatever they are. -/
theorem pkcs_verify_content_rule {C : Crypto} (H : Alg → Bytes → Bytes) (sd : SignedData C) (c e : Bytes) :
    (∀ arg, externalContent true arg = none) ∧
    (sd.content = some c → e ≠ c → pkcsVerify H sd false (some e) = .err "content-mismatch") ∧
    (sd.content = none → pkcsVerify H sd false none = .err "missing-content") ∧
    (sd.content = none → pkcsVerify H sd false (some e) = verifyAll H (some sd.contentType) e false sd.certs sd.badCerts sd.signers none) := by
  refine ⟨fun _ => rfl, ?_, ?_, ?_⟩
  · intro hc hne
    exact cms_external_embedded_must_agree H sd c e hc hne
  · intro hc
    simp [pkcsVerify, externalContent, verifySignedData, verifySignedDataWith, resolveContent, hc]
  · intro hc
    simp [pkcsVerify, externalContent, verifySignedData, verifySignedDataWith, resolveContent, hc]

/-! ### what is *not* covered (PKCS#7 digests the content octets only; relic's reader is lenient about what surrounds them) -/

/-- **cat_inner_header_unprotected.**  Identifier and length octets of the element inside `[0]` are not digested (RFC 2315
    9.3) – and `ContentInfo.Bytes()` does not check the identifier either: a SEQUENCE re-tagged as SET yields the same digest input. -/
theorem cat_inner_header_unprotected :
    ciBytes [0x30, 0x11, 0x06, 0x09, 0x2b, 0x06, 0x01, 0x04, 0x01, 0x82, 0x37, 0x0a, 0x01, 0xA0, 0x04, 0x30, 0x02, 0x05, 0x00] = .ok (some [0x05, 0x00]) ∧
    ciBytes [0x30, 0x11, 0x06, 0x09, 0x2b, 0x06, 0x01, 0x04, 0x01, 0x82, 0x37, 0x0a, 0x01, 0xA0, 0x04, 0x31, 0x02, 0x05, 0x00] = .ok (some [0x05, 0x00]) := by
  decide

/-- **cat_wrapper_unchecked.**  Neither the wrapper's identifier (`[0]` is not required) nor bytes after the first element
    inside the wrapper, nor further elements after the wrapper, are looked at: all of these yield the digest input `05 00`. -/
theorem cat_wrapper_unchecked :
    ciBytes [0x30, 0x11, 0x06, 0x09, 0x2b, 0x06, 0x01, 0x04, 0x01, 0x82, 0x37, 0x0a, 0x01, 0x04, 0x04, 0x30, 0x02, 0x05, 0x00] = .ok (some [0x05, 0x00]) ∧
    ciBytes [0x30, 0x13, 0x06, 0x09, 0x2b, 0x06, 0x01, 0x04, 0x01, 0x82, 0x37, 0x0a, 0x01, 0xA0, 0x06, 0x30, 0x02, 0x05, 0x00, 0xFF, 0xFF] = .ok (some [0x05, 0x00]) ∧
    ciBytes [0x30, 0x13, 0x06, 0x09, 0x2b, 0x06, 0x01, 0x04, 0x01, 0x82, 0x37, 0x0a, 0x01, 0xA0, 0x04, 0x30, 0x02, 0x05, 0x00, 0x05, 0x00] = .ok (some [0x05, 0x00]) := by
  decide

open Relic.Cms in
/-- **cat_contenttype_unprotected.**  `cat.sign` adds no authenticated attributes, so nothing in the signed catalog names the
    eContentType: the verdict of `SignedData.Verify` on what it built is the same for every other content type
    (instance of `cms_contenttype_unprotected_without_attrs`; Microsoft's own catalogs carry signed attributes). -/
theorem cat_contenttype_unprotected {C : Crypto} (H : Alg → Bytes → Bytes) (alg : Alg) (sa : SigAlg) (leaf : Cert C)
    (more : List (Cert C)) (content : Bytes) (sig : C.Sig) (ct' : Bytes) (ext : Option Bytes) (skip : Bool) :
    verifySignedData H { C01.builtSD C leaf more alg sa content sig with contentType := ct' } ext skip =
      verifySignedData H (C01.builtSD C leaf more alg sa content sig) ext skip := by
  apply cms_contenttype_unprotected_without_attrs
  intro si hsi
  simp only [C01.builtSD, List.mem_singleton] at hsi
  subst hsi
  rfl

/-- **cat_trailing_zeros_accepted.**  `pkcs7.Unmarshal` trims NUL bytes after the structure: a signed catalog followed by
    zero bytes is the same catalog to the verifier; anything else after it is refused. -/
theorem cat_trailing_zeros_accepted (blob ci : Bytes) (n : Nat) (h : unmarshalCI blob = .ok ci)
    (hb : ∃ t c, blob = tlv t c ∧ highTag t = false ∧ c.length < 2 ^ 31) :
    unmarshalCI (blob ++ List.replicate n 0) = .ok ci := by
  obtain ⟨t, c, rfl, ht, hc⟩ := hb
  have h0 : untlv (tlv t c) = .ok (t, c, []) := by simpa using untlv_tlv t c [] ht hc
  have h1 : untlv (tlv t c ++ List.replicate n 0) = .ok (t, c, List.replicate n 0) := untlv_tlv t c _ ht hc
  unfold unmarshalCI at h ⊢
  rw [h0] at h
  rw [h1]
  simp only at h ⊢
  split
  · rename_i ht30; rw [if_pos ht30] at h; cases h
  · rename_i ht30
    rw [if_neg ht30] at h
    cases hw : walkOuter c with
    | ok a =>
      rw [hw] at h
      simp only [allZero, List.all_nil, if_true] at h
      simp [allZero, h]
    | err e => rw [hw] at h; cases h
    | panic e => rw [hw] at h; cases h
    | diverge => rw [hw] at h; cases h

end Relic.Props.C02

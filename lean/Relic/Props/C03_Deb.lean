/-
  C03 — Signing never corrupts or alters the payload.   DEB part (model `Relic.Model.Deb`).
-/
import Relic.Proofs.DebSign
import Relic.Props.C12
namespace Relic.Props.C03
open Relic Relic.Deb

/-- what a successful `Sign` returns, given what the reader made of the file -/
theorem deb_sign_ok (H1 H2 cs ctl) (mt signer date role f : Bytes) (o : SignOut) (es : List Entry)
    (he : entries f = (es, .eof)) (hs : sign H1 H2 cs ctl mt signer date role f = .ok o) :
    o = signOf H1 H2 cs mt signer date role f.length es ∧ signFail ctl es = none ∧ hasCtl es = true := by
  unfold sign at hs
  rw [he] at hs
  simp only at hs
  cases hf : signFail ctl es with
  | some x => rw [hf] at hs; cases x <;> simp at hs
  | none =>
    rw [hf] at hs
    simp only at hs
    by_cases hc : hasCtl es = true
    · rw [if_pos hc] at hs
      simp only [Res.ok.injEq] at hs
      exact ⟨hs.symm, rfl, hc⟩
    · rw [if_neg hc] at hs; cases hs

/-- the bytes `Sign` asks `binpatch` to write -/
def signedBytes (f : Bytes) (o : SignOut) : Bytes := splice f o.off o.old o.blob

/-- **deb_patch_constructible.** For a tight archive the patch `Sign` emits lies inside the file, so C12's exactness
    theorems apply: the file written is `signedBytes`, whatever strategy `Apply` picks. -/
theorem deb_patch_constructible (H1 H2 cs ctl) (mt signer date role f : Bytes) (o : SignOut) (es : List Entry)
    (h8 : 8 ≤ f.length) (he : entries f = (es, .eof)) (ht : Tight (f.drop 8) es)
    (hs : sign H1 H2 cs ctl mt signer date role f = .ok o) :
    C12.Constructible f.length [⟨o.off, o.old, o.blob⟩] ∧ applyPatch f o = .ok (signedBytes f o) := by
  obtain ⟨ho, _, _⟩ := deb_sign_ok H1 H2 cs ctl mt signer date role f o es he hs
  have hsl := signOf_slot H1 H2 cs mt signer date role f.length es
  rw [← ho] at hsl
  have hc : C12.Constructible f.length [⟨o.off, o.old, o.blob⟩] := by
    have hbound : o.off + o.old ≤ f.length := by
      have e1 : o.off = (slotOf role f.length es).1 := by rw [← hsl]
      have e2 : o.old = (slotOf role f.length es).2 := by rw [← hsl]
      rw [e1, e2]
      cases hsig : sigSlot role 8 es with
      | none => unfold slotOf; rw [hsig]; simp
      | some s =>
        obtain ⟨off, len⟩ := s
        obtain ⟨es1, e, es2, h1, _, _, h4, h5⟩ := sigSlot_some role es 8 off len hsig
        subst h1
        have hes : 0 ≤ e.size := ht.1 e (by simp)
        have hlen : len = (adv e.size : Int) := by rw [h5, slotLen_nonneg _ hes]
        have hsum := ht.2
        rw [advSum_append] at hsum
        simp only [advSum, List.length_drop] at hsum
        unfold slotOf; rw [hsig]
        have hne : ¬ off = 0 := by omega
        have : (0 : Int) ≤ (adv e.size : Int) := by omega
        simp [hne, hlen, this, h4]
        omega
    simp [C12.Constructible, Binpatch.wfFrom]
    exact hbound
  refine ⟨hc, ?_⟩
  unfold applyPatch
  rw [C12.add_spec 4294967295 f _ hc]
  simp [Binpatch.sem, signedBytes]

/-- **deb_payload_preserved.** For every tight archive the model's reader accepts (`entries f = (es, eof)`, all members
    complete) on which `Sign` succeeds: the file written keeps the 8-byte global header, and the reader finds in it exactly
    the members of the input — same order, identical 60-byte headers, names, sizes and bodies — except that the last member whose
    cleaned name is `_gpg<role>` has been exchanged for the new signature member; when there was none the new member is
    appended.  The output is tight again.  (`ReadsBack`: the header `Sign` writes is read back with the name and size written.) -/
theorem deb_payload_preserved (H1 H2 cs ctl) (mt signer date role f : Bytes) (o : SignOut) (es : List Entry)
    (h8 : 8 ≤ f.length) (he : entries f = (es, .eof)) (ht : Tight (f.drop 8) es)
    (hs : sign H1 H2 cs ctl mt signer date role f = .ok o)
    (hrb : ReadsBack (gpg ++ role) mt (cs (message H1 H2 signer date role (linesOf es)))) :
    let S := cs (message H1 H2 signer date role (linesOf es))
    let ne := newEntry (gpg ++ role) mt S
    let g := signedBytes f o
    g.take 8 = f.take 8 ∧
    ((sigSlot role 8 es = none ∧ g = f ++ o.blob ∧ entries g = (es ++ [ne], .eof)) ∨
     (∃ es1 e es2, es = es1 ++ e :: es2 ∧ pathClean e.name = gpg ++ role ∧ (∀ x ∈ es2, pathClean x.name ≠ gpg ++ role) ∧
        o.off = 8 + advSum es1 ∧ o.old = adv e.size ∧ entries g = (es1 ++ ne :: es2, .eof))) ∧
    Tight (g.drop 8) (entries g).1 := by
  intro S ne g
  obtain ⟨ho, _, _⟩ := deb_sign_ok H1 H2 cs ctl mt signer date role f o es he hs
  have hsl := signOf_slot H1 H2 cs mt signer date role f.length es
  rw [← ho] at hsl
  have hblob : o.blob = member (gpg ++ role) mt S := by rw [ho]; rfl
  obtain ⟨pm, tm⟩ := parse_member (gpg ++ role) mt S hrb
  have key := signed_entries f es role o.blob ne h8 he ht (by rw [hblob]; exact pm) (by rw [hblob]; exact tm)
  simp only at key
  have e1 : (slotOf role f.length es).1 = o.off := by rw [← hsl]
  have e2 : (slotOf role f.length es).2 = o.old := by rw [← hsl]
  rw [e1, e2] at key
  obtain ⟨_, k2, k3, k4⟩ := key
  refine ⟨k2, ?_, k4⟩
  rcases k3 with ⟨a, b, c⟩ | ⟨es1, e, es2, a, b, c, d, e'⟩
  · left
    refine ⟨a, ?_, c⟩
    have : o.off = f.length ∧ o.old = 0 := by
      rw [← e1, ← e2, b]; exact ⟨rfl, rfl⟩
    show splice f o.off o.old o.blob = _
    rw [this.1, this.2]; unfold splice
    simp [List.take_of_length_le, List.drop_of_length_le]
  · right
    have : o.off = 8 + advSum es1 ∧ o.old = adv e.size := by
      rw [← e1, ← e2, d]; exact ⟨rfl, rfl⟩
    exact ⟨es1, e, es2, a, b, c, this.1, this.2, e'⟩

/-- **deb_refusal_is_clean.** When `Sign` does not succeed there is no patch: nothing is written. -/
theorem deb_refusal_is_clean (H1 H2 cs ctl) (mt signer date role f : Bytes) :
    (∃ o, sign H1 H2 cs ctl mt signer date role f = .ok o) ∨
    (∀ o, sign H1 H2 cs ctl mt signer date role f ≠ .ok o) := by
  cases h : sign H1 H2 cs ctl mt signer date role f with
  | ok o => exact Or.inl ⟨o, rfl⟩
  | err _ => right; intro o h'; cases h'
  | panic _ => right; intro o h'; cases h'
  | diverge => right; intro o h'; cases h'

/-- `tightB` decides the hypotheses of the theorems above -/
theorem tight_of_tightB (f : Bytes) (h : tightB f = true) :
    8 ≤ f.length ∧ (entries f).2 = .eof ∧ Tight (f.drop 8) (entries f).1 := by
  unfold tightB at h
  simp only [Bool.and_eq_true, beq_iff_eq, List.all_eq_true, decide_eq_true_eq] at h
  obtain ⟨⟨h1, h2⟩, h3⟩ := h
  refine ⟨by omega, h1, h2, ?_⟩
  simp [List.length_drop]; omega

def sampleSigned : Bytes :=
  [33, 60, 97, 114, 99, 104, 62, 10, 100, 101, 98, 105, 97, 110, 45, 98, 105, 110, 97, 114, 121, 32, 32, 32, 49, 55, 48, 48, 48, 48, 48, 48, 48, 48, 32, 32, 48, 32, 32, 32, 32, 32, 48, 32, 32, 32, 32, 32, 49, 48, 48, 54, 52, 52, 32, 32, 52, 32, 32, 32, 32, 32, 32, 32, 32, 32, 96, 10, 50, 46, 48, 10, 99, 111, 110, 116, 114, 111, 108, 46, 116, 97, 114, 32, 32, 32, 32, 32, 49, 55, 48, 48, 48, 48, 48, 48, 48, 48, 32, 32, 48, 32, 32, 32, 32, 32, 48, 32, 32, 32, 32, 32, 49, 48, 48, 54, 52, 52, 32, 32, 51, 32, 32, 32, 32, 32, 32, 32, 32, 32, 96, 10, 99, 116, 108, 10, 95, 103, 112, 103, 98, 117, 105, 108, 100, 101, 114, 32, 32, 32, 32, 32, 49, 55, 48, 48, 48, 48, 48, 48, 48, 48, 32, 32, 48, 32, 32, 32, 32, 32, 48, 32, 32, 32, 32, 32, 49, 48, 48, 54, 52, 52, 32, 32, 52, 32, 32, 32, 32, 32, 32, 32, 32, 32, 96, 10, 111, 108, 100, 33]

def sampleUnsigned : Bytes :=
  [33, 60, 97, 114, 99, 104, 62, 10, 100, 101, 98, 105, 97, 110, 45, 98, 105, 110, 97, 114, 121, 32, 32, 32, 49, 55, 48, 48, 48, 48, 48, 48, 48, 48, 32, 32, 48, 32, 32, 32, 32, 32, 48, 32, 32, 32, 32, 32, 49, 48, 48, 54, 52, 52, 32, 32, 52, 32, 32, 32, 32, 32, 32, 32, 32, 32, 96, 10, 50, 46, 48, 10, 99, 111, 110, 116, 114, 111, 108, 46, 116, 97, 114, 32, 32, 32, 32, 32, 49, 55, 48, 48, 48, 48, 48, 48, 48, 48, 32, 32, 48, 32, 32, 32, 32, 32, 48, 32, 32, 32, 32, 32, 49, 48, 48, 54, 52, 52, 32, 32, 51, 32, 32, 32, 32, 32, 32, 32, 32, 32, 96, 10, 99, 116, 108, 10]

def sampleTruncated : Bytes :=
  [33, 60, 97, 114, 99, 104, 62, 10, 100, 101, 98, 105, 97, 110, 45, 98, 105, 110, 97, 114, 121, 32, 32, 32, 49, 55, 48, 48, 48, 48, 48, 48, 48, 48, 32, 32, 48, 32, 32, 32, 32, 32, 48, 32, 32, 32, 32, 32, 49, 48, 48, 54, 52, 52, 32, 32, 52, 32, 32, 32, 32, 32, 32, 32, 32, 32, 96, 10, 50, 46, 48, 10, 99, 111, 110, 116, 114, 111, 108, 46, 116, 97, 114, 32, 32, 32, 32, 32, 49, 55, 48, 48, 48, 48, 48, 48, 48, 48, 32, 32, 48, 32, 32, 32, 32, 32, 48, 32, 32, 32, 32, 32, 49, 48, 48, 54, 52, 52, 32, 32, 49, 48, 32, 32, 32, 32, 32, 32, 32, 32, 96, 10, 99, 116, 108]


set_option maxRecDepth 100000 in
/-- non-vacuity: a signed and an unsigned archive satisfy the hypotheses, `Sign` succeeds on them, the written header reads back -/
example : tightB sampleSigned = true ∧ tightB sampleUnsigned = true ∧
    (sign (fun _ => [48]) (fun _ => [49]) (fun m => m) (fun _ _ => true) [49] [65] [64] [98, 117, 105, 108, 100, 101, 114] sampleSigned).isOk = true ∧
    (sigSlot [98, 117, 105, 108, 100, 101, 114] 8 (entries sampleSigned).1).isSome = true ∧
    (sigSlot [98, 117, 105, 108, 100, 101, 114] 8 (entries sampleUnsigned).1).isSome = false := by decide

/-! ### the hypothesis `Tight` is needed: what the unchanged code does otherwise -/

set_option maxRecDepth 100000 in
/-- **deb_truncated_not_refused.** An archive whose last member is cut short (size field 10, 3 bytes present) is read to its
    "end" without complaint, `Sign` succeeds and appends the new member at the end of the file — inside the truncated member.
    The reader then takes the first 7 bytes of the new header for member data and finds no signature member at all:
    the "refuse or preserve" statement fails for such inputs. -/
theorem deb_truncated_not_refused :
    ∃ o, sign (fun _ => [48]) (fun _ => [49]) (fun m => m) (fun _ _ => true) [49] [65] [64] [98] sampleTruncated = .ok o ∧
      o.off = sampleTruncated.length ∧ o.old = 0 ∧
      (entries sampleTruncated).2 = .eof ∧ tightB sampleTruncated = false ∧
      sigsOf (entries (signedBytes sampleTruncated o)).1 = [] := by
  refine ⟨_, rfl, by decide, by decide, by decide, by decide, by decide⟩

end Relic.Props.C03

import Relic.Base.Bytes
import Relic.Model.Binpatch

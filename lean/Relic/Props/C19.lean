/-
  C19 — XML signatures depend on canonical meaning, not on serialisation.
  Property theorems about `Relic.Model.Xml` (model of /repo/lib/xmldsig/canonicalize.go + etree's canonical writer),
  `Relic.Model.EcdsaPack` (lib/x509tools EcdsaSignature.Pack/PackCurve/UnpackEcdsaSignature) and
  `Relic.Spec.ExcC14N` (Exclusive C14N 1.0 transcribed from the W3C text).
  Helper lemmas live in Relic/Proofs/Xml.lean.
-/
import Relic.Model.EcdsaPack
import Relic.Model.Xml
import Relic.Spec.ExcC14N
import Relic.Proofs.Codec
import Relic.Proofs.Xml
import Relic.Proofs.XmlSort
import Relic.Proofs.XmlPerm
namespace Relic.Props.C19
open Relic Relic.EcdsaPack Relic.Xml

/-! ## ECDSA `r ‖ s` (F17) -/

/-- **ecdsa_fixed_width.** Packing to the curve's byte length `w` (the repaired `PackCurve`) always gives `2w`
    bytes and `UnpackEcdsaSignature` returns the two numbers, for every `r, s < 256^w`. -/
theorem ecdsa_fixed_width (w r s : Nat) (hr : r < 256 ^ w) (hs : s < 256 ^ w) :
    ∃ p, packW w r s = .ok p ∧ p.length = 2 * w ∧ unpack p = .ok (r, s) := by
  refine ⟨beBytes w r ++ beBytes w s, ?_, ?_, ?_⟩
  · simp [packW, hr, hs]
  · simp only [List.length_append, beBytes_length]; omega
  · have h2 : (beBytes w r ++ beBytes w s).length = w * 2 := by
      simp only [List.length_append, beBytes_length]; omega
    have h3 : w * 2 / 2 = w := by omega
    unfold unpack
    simp only [h2, h3, ne_eq, not_true_eq_false, ↓reduceIte]
    rw [List.take_left' (beBytes_length w r), List.drop_left' (beBytes_length w r),
      beVal_beBytes_of_lt w r hr, beVal_beBytes_of_lt w s hs]

example : ∃ p, packW 32 1 (256 ^ 32 - 1) = .ok p ∧ p.length = 64 ∧ unpack p = .ok (1, 256 ^ 32 - 1) :=
  ecdsa_fixed_width 32 1 _ (by decide) (by decide)

/-- **ecdsa_pack_unfixed_not_fixed_width.** The packing on the unchanged tree (`Pack`, width from
    `max (bitlen r) (bitlen s)`) is *not* fixed-width: `r = s = 1` is a legal P-256 signature value pair and packs
    to 2 bytes instead of 64.  (Replayed on the real code by the `ecdsa` ops of the harness: F17.) -/
theorem ecdsa_pack_unfixed_not_fixed_width :
    ¬ ∀ bits r s : Nat, 0 < r → 0 < s → r < 2 ^ bits → s < 2 ^ bits →
        (packUnfixed r s).length = 2 * curveBytes bits := by
  intro h
  have := h 256 1 1 (by decide) (by decide) (by decide) (by decide)
  revert this
  decide

/-- the length the unchanged code produces is a function of the values, not of the curve -/
theorem packUnfixed_length (r s : Nat) :
    (packUnfixed r s).length = 2 * (((if bitLen s > bitLen r then bitLen s else bitLen r) + 7) / 8) := by
  simp only [packUnfixed, List.length_append, beBytes_length]; omega


/-! ## the canonicaliser -/

/-- **canon_ignores_comments_pis.** Removing every comment, processing instruction and directive, at any depth
    below the apex, does not change relic's canonical form.  (For comments this is what Exclusive C14N "without
    comments" asks for; for processing instructions it is a *deviation*: Canonical XML keeps them — finding F16-pi.) -/
theorem canon_ignores_comments_pis (ctx : List (List Attr)) (root : Node) :
    canon ctx (strip root) = canon ctx root := by
  unfold canon pullDown
  rw [pullDownWith_strip, walk_strip]

/-- two documents that differ only in comments / PIs / directives have the same canonical form -/
theorem canon_eq_of_strip_eq (ctx : List (List Attr)) (t t' : Node) (h : strip t = strip t') :
    canon ctx t = canon ctx t' := by
  rw [← canon_ignores_comments_pis ctx t, ← canon_ignores_comments_pis ctx t', h]

example : strip (.elem [] [97] [] [.comment [120], .text [121] false, .procinst [112] [], .elem [] [98] [] [.comment []]]) =
    .elem [] [97] [] [.text [121] false, .elem [] [98] [] []] := by simp [strip, stripKids]

/-- **sort_unique.** `sort.Slice` is not stable and its algorithm is not modelled; but on attributes with pairwise
    distinct names the comparator of `walkAttributes` is a strict total order, so *every* sorted permutation of the
    attribute list is the list the model's insertion sort returns. -/
theorem sort_unique (l q : List Attr) (hn : NamesNodup l) (hp : q.Perm l) (hs : Sorted q) : q = sortAttrs l :=
  sorted_perm_unique q (sortAttrs l) hs (sortAttrs_sorted l hn) (hp.trans (sortAttrs_perm_self l).symm)
    ((hp.pairwise_iff (fun {_ _} h hs => h (sameName_symm hs))).mpr hn)

/-- **sort_multiset.** The sorted attribute list is a function of the multiset of attributes. -/
theorem sort_multiset (l l' : List Attr) (hp : l.Perm l') (hn : NamesNodup l) : sortAttrs l = sortAttrs l' :=
  sortAttrs_perm_invariant l l' hp hn

/-- full statement: any permutation of the attributes of any element of the subtree, for any ancestor context -/
def canon_invariant_under_attr_perm_full : Prop :=
  ∀ (ctx : List (List Attr)) (sp tag : Bytes) (l l' : List Attr) (kids : List Node),
    l.Perm l' → NamesNodup l → canon ctx (.elem sp tag l kids) = canon ctx (.elem sp tag l' kids)

/-- **canon_invariant_under_attr_perm_partial.** At the apex of a document-element canonicalisation (no ancestors:
    the case of `xmldsig.Sign(root, root, …)` on a manifest), exchanging two neighbouring attributes of which one is
    not a namespace declaration does not change the canonical form, provided attribute names are pairwise distinct.
    Every permutation that keeps the relative order of the namespace declarations is a product of such exchanges.
    Not proved: exchanging two declarations (their push-down order changes the attribute order of descendants, which
    the descendants' own sort then has to absorb), permutations below the apex, non-empty ancestor context. -/
theorem canon_invariant_under_attr_perm_partial (sp tag : Bytes) (pre post : List Attr) (a b : Attr) (kids : List Node)
    (hab : getDecl a = none ∨ getDecl b = none) (hn : NamesNodup (pre ++ a :: b :: post)) :
    canon [] (.elem sp tag (pre ++ a :: b :: post) kids) = canon [] (.elem sp tag (pre ++ b :: a :: post) kids) := by
  have e : ∀ n, canon [] n = ser (walk n) := fun n => rfl
  rw [e, e]
  rcases hab with ha | hb
  · rw [walk_swap sp tag pre post a b kids ha hn]
  · have hn' : NamesNodup (pre ++ b :: a :: post) :=
      ((List.Perm.append_left pre (List.Perm.swap b a post)).pairwise_iff
        (fun {_ _} h hs => h (sameName_symm hs))).mp hn
    rw [← walk_swap sp tag pre post b a kids hb hn']

example : getDecl ⟨[], [98], [49]⟩ = none ∧ NamesNodup ([] ++ ⟨[], [98], [49]⟩ :: ⟨sXmlns, [112], [117]⟩ :: []) := by
  refine ⟨by decide, ?_⟩
  simp [NamesNodup, sameName, sXmlns]

/-- **canon_sensitive (escaping).** Canonical text and attribute-value escaping are injective: two different character
    data strings / attribute values never get the same canonical spelling. -/
theorem escText_injective (a b : Bytes) (h : escText a = escText b) : a = b :=
  (escText_append_inj a b [] [] (by simpa using h) rfl).1

theorem escAttr_injective (a b : Bytes) (h : escAttr a = escAttr b) : a = b :=
  (escAttr_append_inj a b [] [] (by simpa using h) rfl).1

example : escText [0x26] ≠ escText [0x26, 0x61, 0x6d, 0x70, 0x3b] := by decide

/-- full statement of sensitivity: the canonical form determines the tree up to the erased information -/
def canon_sensitive_full : Prop :=
  ∀ (ctx : List (List Attr)) (t t' : Node), canon ctx t = canon ctx t' → walk (pullDown ctx t) = walk (pullDown ctx t')

/-- full statement of agreement with the standard; false (see the witnesses replayed by the harness: attribute order by
    prefix, redundant declarations, `xmlns=""`, processing instructions) -/
def canon_eq_excc14n_full : Prop :=
  ∀ (ctx : List (List Attr)) (root : Node), canon ctx root = ExcC14N.excC14N ctx root

/-! ### witnesses separating relic's canonical form from Exclusive C14N (F16); each is replayed on the real code
    by the harness (`canon` / `pair` witness ops) -/

/-- `<e xmlns:a="urn:z" xmlns:b="urn:y" a:x="1" b:y="2"/>` (here with one-letter URIs `z`, `y`) -/
def wAttrOrder : Node :=
  .elem [] [101] [⟨sXmlns, [97], [122]⟩, ⟨sXmlns, [98], [121]⟩, ⟨[97], [120], [49]⟩, ⟨[98], [121], [50]⟩] []
/-- `<a>t<?pi d?></a>` -/
def wPi : Node := .elem [] [97] [] [.text [116] false, .procinst [112, 105] [100]]
/-- `<p:a xmlns:p="u"><p:b xmlns:p="u"/></p:a>` -/
def wRedundant : Node := .elem [112] [97] [⟨sXmlns, [112], [117]⟩] [.elem [112] [98] [⟨sXmlns, [112], [117]⟩] []]
/-- `<a><b xmlns=""/></a>` -/
def wEmptyDefault : Node := .elem [] [97] [] [.elem [] [98] [⟨[], sXmlns, []⟩] []]

theorem wAttrOrder_walk : walk wAttrOrder = wAttrOrder := by
  unfold wAttrOrder
  rw [walk]
  simp [walkLoop, getDecl, usesSpace, sXmlns, sortAttrs, insertAttr, attrLess, bytesLt, walkKids]
theorem wPi_walk : walk wPi = .elem [] [97] [] [.text [116] false] := by
  unfold wPi
  simp [walk, walkLoop, sortAttrs, walkKids]
theorem wRedundant_walk : walk wRedundant = wRedundant := by
  unfold wRedundant
  simp [walk, walkLoop, getDecl, usesSpace, sXmlns, sortAttrs, insertAttr, walkKids]
theorem wEmptyDefault_walk : walk wEmptyDefault = wEmptyDefault := by
  unfold wEmptyDefault
  simp [walk, walkLoop, getDecl, usesSpace, sXmlns, sortAttrs, insertAttr, walkKids]

/-- (i) attributes are ordered by prefix, the standard orders them by namespace URI -/
theorem canon_ne_excc14n_attr_order : canon [] wAttrOrder ≠ ExcC14N.excC14N [] wAttrOrder := by
  have e : canon [] wAttrOrder = ser (walk wAttrOrder) := rfl
  rw [e, wAttrOrder_walk]; decide
/-- processing instructions are dropped, the standard keeps them -/
theorem canon_ne_excc14n_pi : canon [] wPi ≠ ExcC14N.excC14N [] wPi := by
  have e : canon [] wPi = ser (walk wPi) := rfl
  rw [e, wPi_walk]; decide
/-- a declaration repeating what an output ancestor rendered is kept, the standard omits it -/
theorem canon_ne_excc14n_redundant_decl : canon [] wRedundant ≠ ExcC14N.excC14N [] wRedundant := by
  have e : canon [] wRedundant = ser (walk wRedundant) := rfl
  rw [e, wRedundant_walk]; decide
/-- `xmlns=""` with no default namespace to undo is kept, the standard omits it -/
theorem canon_ne_excc14n_empty_default : canon [] wEmptyDefault ≠ ExcC14N.excC14N [] wEmptyDefault := by
  have e : canon [] wEmptyDefault = ser (walk wEmptyDefault) := rfl
  rw [e, wEmptyDefault_walk]; decide

/-- **canon_eq_excc14n_full is false** on the unchanged code (F16) -/
theorem canon_eq_excc14n_full_false : ¬ canon_eq_excc14n_full :=
  fun h => canon_ne_excc14n_attr_order (h [] wAttrOrder)

/-- every witness lies outside the class `Agree`, i.e. the classifier names its trigger -/
example : ExcC14N.devs [] wAttrOrder = ["attr-order"] ∧ ExcC14N.devs [] wPi = ["pi"] ∧
    ExcC14N.devs [] wRedundant = ["redundant-decl"] ∧ ExcC14N.devs [] wEmptyDefault = ["empty-default"] := by decide

/-- agreement on the class `Agree` (no deviation trigger present): tested on every generated document by the
    correspondence run, not proved -/
def canon_eq_excc14n_on_agree : Prop :=
  ∀ (ctx : List (List Attr)) (sp tag : Bytes) (attrs : List Attr) (kids : List Node),
    ExcC14N.agree ctx (.elem sp tag attrs kids) = true →
    canon ctx (.elem sp tag attrs kids) = ExcC14N.excC14N ctx (.elem sp tag attrs kids)

end Relic.Props.C19

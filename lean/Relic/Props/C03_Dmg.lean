/-
  C03 — Signing never corrupts or alters the payload.   Apple disk image (UDIF) part.
  The output of a successful signing is `image[0:bundle] ++ signature ++ trailer'` where `bundle = XMLOffset+XMLLength`
  and `trailer'` is the input trailer with SignatureOffset := bundle, SignatureLength := |signature| and the three
  blank ranges zeroed.  Everything in front of `bundle` keeps its bytes and its place.  What lies BEHIND `bundle` in
  front of the trailer is replaced — for the layout the image tools write (forks, then plist, then at most a signature)
  that is exactly the old signature.  Before fix-sign any other layout was accepted too and lost its payload (finding
  F-DMG-1: theorems about `planOrig` below); the repaired `dmg.Sign` refuses every header that describes a fork ending
  behind the plist, has no plist, or lacks the koly magic (`dmg_sign_refuses_unsafe_layouts`), and with that the full
  statement holds: every payload item the header describes keeps its bytes (`dmg_payload_preserved_full`).
-/
import Relic.Proofs.Dmg
namespace Relic.Props.C03
open Relic Relic.Dmg Relic.CodeDir

/-- **dmg_payload_preserved.** For every trailer `t`, image `f`, blob: if `dmg.Sign` accepts (guards and the `fits` test),
    then in the written image
    * every byte in front of `bundle` is the input's byte at the same offset,
    * the signature follows at `bundle`, the rewritten trailer behind it, nothing else;
    * the rewritten trailer equals the input trailer in [0,232) (magic … XMLLength) and [352,500) (master checksum,
      image variant, sector count); SignatureOffset = bundle, SignatureLength = |blob|; the blank ranges [232,296),
      [312,352), [500,512) are zero. -/
theorem dmg_payload_preserved (t f : Bytes) (pl : Plan) (blob : Bytes) (h : plan t f = .ok pl)
    (hfit : pl.fits f.length = true) :
    let g := written f pl blob
    (∀ i, i < pl.bundle.toNat → g[i]? = f[i]?) ∧
    g.length = pl.bundle.toNat + blob.length + 512 ∧
    (g.drop pl.bundle.toNat).take blob.length = blob ∧
    g.drop (pl.bundle.toNat + blob.length) =
      sl t 0 232 ++ zeros 64 ++ beBytes 8 (u64 pl.bundle) ++ beBytes 8 blob.length ++ zeros 40 ++ sl t 352 148 ++ zeros 12 := by
  obtain ⟨_, h0, _⟩ := plan_safe t f pl h
  have h1 : pl.bundle.toNat ≤ f.length := by have := (fits_iff pl f.length h0).mp hfit; omega
  replace h := (plan_orig t f pl h).1
  intro g
  have wf := plan_koly_wf t f pl h
  have hel := enc_length (pl.newKoly blob.length) wf.head wf.tail
  have hpl : (f.take pl.bundle.toNat).length = pl.bundle.toNat := by simp [List.length_take]; omega
  have hw : g = f.take pl.bundle.toNat ++ (blob ++ (pl.newKoly blob.length).enc) := by
    show f.take _ ++ blob ++ _ = _; rw [List.append_assoc]
  refine ⟨?_, ?_, ?_, ?_⟩
  · intro i hi
    rw [hw, List.getElem?_append_left (by rw [hpl]; exact hi), List.getElem?_take_of_lt hi]
  · rw [hw]; simp only [List.length_append, hpl, hel]; omega
  · rw [hw]
    have : (f.take pl.bundle.toNat ++ (blob ++ (pl.newKoly blob.length).enc)).drop pl.bundle.toNat = blob ++ (pl.newKoly blob.length).enc := by
      conv => lhs; arg 1; rw [← hpl]
      exact List.drop_left
    rw [this, List.take_left]
  · have hw2 : g = (f.take pl.bundle.toNat ++ blob) ++ (pl.newKoly blob.length).enc := rfl
    have : pl.bundle.toNat + blob.length = (f.take pl.bundle.toNat ++ blob).length := by simp [hpl]
    rw [hw2, this, List.drop_left]
    exact newKoly_enc t f pl h blob.length

/-- byte-wise form of the last clause: outside SignatureOffset/Length and the blank ranges the trailer keeps its bytes -/
theorem dmg_trailer_kept (t f : Bytes) (pl : Plan) (n : Nat) (h : plan t f = .ok pl) (i : Nat)
    (hi : i < 232 ∨ (352 ≤ i ∧ i < 500)) : (pl.newKoly n).enc[i]? = t[i]? := by
  replace h := (plan_orig t f pl h).1
  have hl := (plan_ok t f pl h).1
  have l (a m : Nat) (hh : a + m ≤ 512) : (sl t a m).length = m := sl_length t a m (by omega)
  rw [newKoly_enc t f pl h n]
  rcases hi with hi | ⟨ha, hb⟩
  · simp only [List.append_assoc]
    rw [List.getElem?_append_left (by rw [l 0 232 (by omega)]; exact hi), sl_getElem? t 0 232 i hi, Nat.zero_add]
  · have e : sl t 0 232 ++ zeros 64 ++ beBytes 8 (u64 pl.bundle) ++ beBytes 8 n ++ zeros 40 ++ sl t 352 148 ++ zeros 12 =
        (sl t 0 232 ++ zeros 64 ++ beBytes 8 (u64 pl.bundle) ++ beBytes 8 n ++ zeros 40) ++ (sl t 352 148 ++ zeros 12) := by
      simp only [List.append_assoc]
    have hlen : (sl t 0 232 ++ zeros 64 ++ beBytes 8 (u64 pl.bundle) ++ beBytes 8 n ++ zeros 40).length = 352 := by
      simp [l 0 232 (by omega), zeros]
    rw [e, List.getElem?_append_right (by rw [hlen]; exact ha), hlen,
      List.getElem?_append_left (by rw [l 352 148 (by omega)]; omega), sl_getElem? t 352 148 (i - 352) (by omega)]
    have e2 : 352 + (i - 352) = i := by omega
    rw [e2]

/-- **dmg_regular_nothing_lost.** The layout the image tools write — `bundle` bytes of forks and plist, an optional
    old signature, the trailer: the output is the same forks and plist, the new signature, the trailer; every input
    byte that is not signature or trailer is kept. -/
theorem dmg_regular_nothing_lost (pre old t : Bytes) (pl : Plan) (blob : Bytes) (h : plan t (pre ++ old ++ t) = .ok pl)
    (hb : pl.bundle = pre.length) : written (pre ++ old ++ t) pl blob = pre ++ blob ++ (pl.newKoly blob.length).enc := by
  have : pl.bundle.toNat = pre.length := by omega
  simp only [written, this, List.append_assoc, List.take_left']

/-- **dmg_behind_plist_lost** (finding F-DMG-1, general form; about the tree BEFORE fix-sign).  The output depends on the input image only through its
    first `bundle` bytes and its trailer: two unsigned images that differ only between the end of the plist and the
    trailer are accepted alike and signed into the same file.  Whatever was there — a data or resource fork stored
    behind the plist, or all of the image when there is no plist and `bundle = 0` — is gone, with a success status. -/
theorem dmg_behind_plist_lost (t f f' : Bytes) (pl : Plan) (blob : Bytes) (h : planOrig t f = .ok pl)
    (hu : (decode t).sigOffset = 0) (hf : f.take pl.bundle.toNat = f'.take pl.bundle.toNat) :
    ∃ pl', planOrig t f' = .ok pl' ∧ written f' pl' blob = written f pl blob := by
  obtain ⟨hl, hk, hb, hs, hr, _⟩ := plan_ok t f pl h
  have hl' : ¬ t.length < 512 := by omega
  refine ⟨⟨decode t, (decode t).bundle, f'.take (decode t).bundle.toNat, ({ decode t with sigOffset := u64 (decode t).bundle }).forHashing, none⟩,
    by simp [planOrig, hl', hu], ?_⟩
  have e : written f pl blob = f.take pl.bundle.toNat ++ blob ++ (pl.newKoly blob.length).enc := rfl
  rw [e, hf, hb]
  simp only [written, Plan.newKoly, hk, hb]

/-- (before fix-sign) no plist at all (`XMLOffset = XMLLength = 0`): the whole image was replaced by signature and trailer -/
theorem dmg_no_plist_replaced (t f : Bytes) (pl : Plan) (blob : Bytes) (h : planOrig t f = .ok pl)
    (hx : (decode t).xmlOffset = 0 ∧ (decode t).xmlLength = 0) : written f pl blob = blob ++ (pl.newKoly blob.length).enc := by
  obtain ⟨_, _, hb, _⟩ := plan_ok t f pl h
  have : pl.bundle = 0 := by rw [hb]; simp [Koly.bundle, hx.1, hx.2, toI64]
  simp [written, this]

/-- **dmg_gap_refused.** An input that names a signature which does not start at the end of the plist is refused
    (before and after fix-sign). -/
theorem dmg_gap_refused (t f : Bytes) (h : 512 ≤ t.length) (hso : (decode t).sigOffset ≠ 0)
    (hne : toI64 (decode t).sigOffset ≠ (decode t).bundle) : planOrig t f = .err "overlap" ∧ ∀ pl, plan t f ≠ .ok pl := by
  have hl : ¬ t.length < 512 := by omega
  have e : planOrig t f = .err "overlap" := by simp [planOrig, hl, hso, hne]
  refine ⟨e, ?_⟩
  intro pl hp
  rw [(plan_orig t f pl hp).1] at e
  cases e

/-! ### the repaired code: what is refused, and the full statement -/

/-- **dmg_sign_refuses_unsafe_layouts.** Exact characterisation of the repaired `dmg.Sign` before `csblob.Sign` runs, for
    every trailer of at least 512 bytes and every image: which error, and exactly when it is accepted.
    `bundle = XMLOffset+XMLLength` (int64); `forkEnd` = end of a fork, 0 if absent, 2^63−1 if not representable. -/
theorem dmg_sign_refuses_unsafe_layouts (t f : Bytes) (h : 512 ≤ t.length) :
    let k := decode t
    (plan t f = .err "magic" ↔ k.magic ≠ kolyMagic) ∧
    (plan t f = .err "noplist" ↔ k.magic = kolyMagic ∧ (toI64 k.xmlOffset < 0 ∨ toI64 k.xmlLength ≤ 0 ∨ k.bundle < 0)) ∧
    (plan t f = .err "behind" ↔ k.magic = kolyMagic ∧ ¬ (toI64 k.xmlOffset < 0 ∨ toI64 k.xmlLength ≤ 0 ∨ k.bundle < 0) ∧
        (forkEnd k.dataOff k.dataLen > k.bundle ∨ forkEnd k.rsrcOff k.rsrcLen > k.bundle)) ∧
    (plan t f = .err "overlap" ↔ Safe k ∧ k.sigOffset ≠ 0 ∧ toI64 k.sigOffset ≠ k.bundle) ∧
    ((∃ pl, plan t f = .ok pl) ↔ Safe k ∧ (k.sigOffset = 0 ∨ toI64 k.sigOffset = k.bundle)) := by
  intro k
  have hl : ¬ t.length < 512 := by omega
  -- the original planning step on a header of full length: overlap or a plan
  have horig : (planOrig t f = .err "overlap" ∧ k.sigOffset ≠ 0 ∧ toI64 k.sigOffset ≠ k.bundle) ∨
      ((∃ pl, planOrig t f = .ok pl) ∧ (k.sigOffset = 0 ∨ toI64 k.sigOffset = k.bundle)) := by
    by_cases c1 : k.sigOffset = 0
    · right; exact ⟨⟨_, by simp [planOrig, hl, k, c1] at *; rfl⟩, Or.inl c1⟩
    · by_cases c2 : toI64 k.sigOffset = k.bundle
      · right
        refine ⟨⟨⟨k, k.bundle, f.take k.bundle.toNat, ({ k with sigOffset := u64 k.bundle }).forHashing,
          some ((f.drop (f.take k.bundle.toNat).length).take (toI64 k.sigLength).toNat)⟩, ?_⟩, Or.inr c2⟩
        have c1' : (decode t).sigOffset ≠ 0 := c1
        have c2' : toI64 (decode t).sigOffset = (decode t).bundle := c2
        simp [planOrig, hl, c1', c2', k]
      · left
        have c1' : (decode t).sigOffset ≠ 0 := c1
        have c2' : ¬ toI64 (decode t).sigOffset = (decode t).bundle := c2
        exact ⟨by simp [planOrig, hl, c1', c2'], c1, c2⟩
  cases hg : guards k with
  | some e =>
    have hp : plan t f = .err e := by simp only [plan, hl, ↓reduceIte]; rw [show guards (decode t) = some e from hg]
    have hns : ¬ Safe k := fun hs => by rw [(guards_none_iff k).mpr hs] at hg; cases hg
    unfold guards at hg
    split at hg
    · rename_i hm
      injection hg with hg; subst hg
      have hm' : k.magic ≠ kolyMagic := hm
      simp [hp, hm', hns]
    · rename_i hm
      have hm' : k.magic = kolyMagic := by simpa using hm
      split at hg
      · rename_i hc
        injection hg with hg; subst hg
        simp [hp, hm', hc, hns]
      · rename_i hc
        split at hg
        · rename_i hb
          injection hg with hg; subst hg
          simp [hp, hm', hc, hb, hns]
        · cases hg
  | none =>
    have hs := (guards_none_iff k).mp hg
    have hp : plan t f = planOrig t f := plan_of_guards t f h hg
    have c2 : ¬ (toI64 k.xmlOffset < 0 ∨ toI64 k.xmlLength ≤ 0 ∨ k.bundle < 0) := by
      have := hs.xo; have := hs.xl; have := hs.bundle; omega
    have c3 : ¬ (forkEnd k.dataOff k.dataLen > k.bundle ∨ forkEnd k.rsrcOff k.rsrcLen > k.bundle) := by
      have := hs.data; have := hs.rsrc; omega
    rcases horig with ⟨e, a, b⟩ | ⟨⟨pl, e⟩, a⟩
    · have n5 : ¬ (k.sigOffset = 0 ∨ toI64 k.sigOffset = k.bundle) := by
        rintro (x | x)
        · exact a x
        · exact b x
      simp [hp, e, hs.magic, c2, c3, hs, a, b, n5]
    · have n4 : ¬ (k.sigOffset ≠ 0 ∧ toI64 k.sigOffset ≠ k.bundle) := by
        rintro ⟨x, y⟩
        rcases a with z | z
        · exact x z
        · exact y z
      simp [hp, e, hs.magic, c2, c3, hs, a, n4]

/-- the test behind `csblob.Sign`: a successful `sign` has its plist end in front of the last 512 bytes of the input -/
theorem dmg_sign_fits (t f : Bytes) (p : SignParams) (so : SignOut) (h : Dmg.sign t f p = .ok so) :
    plan t f = .ok so.plan ∧ so.plan.fits f.length = true := by
  unfold Dmg.sign at h
  split at h
  · cases h
  · cases h
  · cases h
  · rename_i pl hpl
    split at h
    · cases h
    · cases h
    · cases h
    · split at h
      · split at h
        · rename_i hf
          injection h with h; subst h
          exact ⟨hpl, hf⟩
        · cases h
      · cases h
      · cases h
      · cases h

/-- the payload items a UDIF header describes: data fork, resource fork, plist, as (offset, length) int64 patterns -/
def payloadItems (k : Koly) : List (Nat × Nat) :=
  [(k.dataOff, k.dataLen), (k.rsrcOff, k.rsrcLen), (k.xmlOffset, k.xmlLength)]

/-- **dmg_payload_preserved_full** (repaired code, full strength).  Whenever `dmg.Sign` succeeds, every payload item the
    header describes — data fork, resource fork, plist; an item of non-positive length is absent — has a non-negative
    offset, ends at or in front of the signature offset, lies in front of the last 512 bytes of the input, and has in
    the output exactly the bytes it had in the input, at the same offset (`hlen`: the input length is an int64, as in Go).  Together with `dmg_payload_preserved` (the
    header keeps every descriptor) the output is a disk image with the same forks and plist.  What is still NOT kept,
    by construction: bytes between the end of the plist and the header that no descriptor names
    (`dmg_undescribed_bytes_dropped`) — in particular an old signature. -/
theorem dmg_payload_preserved_full (t f : Bytes) (p : SignParams) (so : SignOut) (blob : Bytes)
    (h : Dmg.sign t f p = .ok so) (hlen : f.length < 2 ^ 63) :
    ∀ item ∈ payloadItems (decode t), 0 < toI64 item.2 →
      0 ≤ toI64 item.1 ∧ toI64 item.1 + toI64 item.2 ≤ so.plan.bundle ∧ so.plan.bundle.toNat + 512 ≤ f.length ∧
      sl (written f so.plan blob) (toI64 item.1).toNat (toI64 item.2).toNat = sl f (toI64 item.1).toNat (toI64 item.2).toNat := by
  obtain ⟨hp, hfit⟩ := dmg_sign_fits t f p so h
  obtain ⟨ho, hg, hl⟩ := plan_orig t f so.plan hp
  obtain ⟨_, hk, hb, _⟩ := plan_ok t f so.plan ho
  have hs := (guards_none_iff _).mp hg
  have wf := decode_wf t hl
  have h0 : 0 ≤ so.plan.bundle := by rw [hb]; exact hs.bundle
  have hfl := (fits_iff so.plan f.length h0).mp hfit
  have hsum := safe_bundle _ hs wf.xo wf.xl
  -- an item inside [0, bundle) keeps its bytes
  have keep : ∀ (o l : Int), 0 ≤ o → 0 ≤ l → o + l ≤ so.plan.bundle →
      sl (written f so.plan blob) o.toNat l.toNat = sl f o.toNat l.toNat := by
    intro o l h1 h2 h3
    have hpl : (f.take so.plan.bundle.toNat).length = so.plan.bundle.toNat := by simp [List.length_take]; omega
    have hw : written f so.plan blob = f.take so.plan.bundle.toNat ++ (blob ++ (so.plan.newKoly blob.length).enc) := by
      show f.take _ ++ blob ++ _ = _; rw [List.append_assoc]
    apply List.ext_getElem?
    intro i
    by_cases hi : i < l.toNat
    · rw [sl_getElem? _ _ _ _ hi, sl_getElem? _ _ _ _ hi, hw,
        List.getElem?_append_left (by rw [hpl]; omega), List.getElem?_take_of_lt (by omega)]
    · rw [List.getElem?_eq_none_iff.mpr (by simp only [sl, List.length_take]; omega),
        List.getElem?_eq_none_iff.mpr (by simp only [sl, List.length_take]; omega)]
  -- the fork test in readable form
  have fork : ∀ (off len : Nat), forkEnd off len ≤ (decode t).bundle → 0 < toI64 len →
      0 ≤ toI64 off ∧ toI64 off + toI64 len ≤ (decode t).bundle := by
    intro off len hle hpos
    unfold forkEnd at hle
    have hbb : (decode t).bundle < 2 ^ 63 - 1 := by rw [← hb]; omega
    have c1 : ¬ toI64 len ≤ 0 := by omega
    simp only [c1, ↓reduceIte] at hle
    split at hle <;> omega
  intro item hmem hpos
  simp only [payloadItems, List.mem_cons, List.mem_nil_iff, or_false] at hmem
  rcases hmem with rfl | rfl | rfl
  · obtain ⟨a, b⟩ := fork _ _ hs.data hpos
    exact ⟨a, by rw [hb]; exact b, hfl, keep _ _ a (by omega) (by rw [hb]; exact b)⟩
  · obtain ⟨a, b⟩ := fork _ _ hs.rsrc hpos
    exact ⟨a, by rw [hb]; exact b, hfl, keep _ _ a (by omega) (by rw [hb]; exact b)⟩
  · have a := hs.xo
    have b : toI64 (decode t).xmlOffset + toI64 (decode t).xmlLength ≤ so.plan.bundle := by rw [hb, hsum]; omega
    exact ⟨a, b, hfl, keep _ _ a (by omega) b⟩

/-- **dmg_undescribed_bytes_dropped** (what the full statement excludes, repaired code).  The output depends on the image
    only through its first `bundle` bytes: bytes between the end of the plist and the header that no descriptor of the
    header names (stray bytes, an old signature) are not carried over. -/
theorem dmg_undescribed_bytes_dropped (t f f' : Bytes) (pl : Plan) (blob : Bytes) (h : plan t f = .ok pl)
    (hu : (decode t).sigOffset = 0) (hf : f.take pl.bundle.toNat = f'.take pl.bundle.toNat) :
    ∃ pl', plan t f' = .ok pl' ∧ written f' pl' blob = written f pl blob := by
  obtain ⟨ho, hg, hl⟩ := plan_orig t f pl h
  obtain ⟨pl', hp', hw⟩ := dmg_behind_plist_lost t f f' pl blob ho hu hf
  exact ⟨pl', by rw [plan_of_guards t f' hl hg]; exact hp', hw⟩

/-- the statement for the tree BEFORE fix-sign — every successful signing keeps every byte range in front of the
    header: FALSE there (`dmg_behind_plist_lost`, `dmg_no_plist_replaced`, C01.`dmg_sign_ignores_magic`; replay:
    corpus/C03/dmg-payload-behind-plist.ops, now refused). -/
def dmg_payload_preserved_orig_full : Prop :=
  ∀ (t f : Bytes) (pl : Plan) (blob : Bytes) (off len : Nat), planOrig t f = .ok pl →
    off + len + 512 ≤ f.length → sl (written f pl blob) off len = sl f off len

/-! ### non-vacuity and the witnesses -/

set_option maxRecDepth 100000 in
example : (∀ i, i < 8 → (written sampleImage samplePlan [9])[i]? = sampleImage[i]?) :=
  (dmg_payload_preserved _ _ _ [9] samplePlan_ok_fixed (by decide)).1

/-- plist (2 bytes) in front of the data fork (3 bytes), header without fork descriptors: the original code accepted and
    dropped the fork -/
def behindImage : Bytes := [60, 62, 1, 2, 3] ++ (sampleKoly 0 2 0 0).enc

set_option maxRecDepth 100000 in
example : ∃ pl, planOrig (sampleKoly 0 2 0 0).enc behindImage = .ok pl ∧
    written behindImage pl [9] = [60, 62, 9] ++ (sampleKoly 0 2 2 1).enc :=
  ⟨⟨sampleKoly 0 2 0 0, 2, [60, 62], (sampleKoly 0 2 2 0).enc, none⟩, by decide, by decide⟩

set_option maxRecDepth 100000 in
example : ¬ dmg_payload_preserved_orig_full := by
  intro hfull
  have := hfull (sampleKoly 0 2 0 0).enc behindImage ⟨sampleKoly 0 2 0 0, 2, [60, 62], (sampleKoly 0 2 2 0).enc, none⟩ [9] 2 3
    (by decide) (by decide)
  exact absurd this (by decide)

set_option maxRecDepth 100000 in
/-- the same image with a header that describes its data fork [2,5): refused by the repaired code; so are an image
    without plist and a header without magic -/
example : plan (sampleKolyD 2 3 0 2 0 0).enc ([60, 62, 1, 2, 3] ++ (sampleKolyD 2 3 0 2 0 0).enc) = .err "behind" ∧
    plan (sampleKolyD 0 3 0 0 0 0).enc ([1, 2, 3] ++ (sampleKolyD 0 3 0 0 0 0).enc) = .err "noplist" ∧
    plan (zeros 512) ([1, 2, 3] ++ zeros 512) = .err "magic" := by decide

set_option maxRecDepth 100000 in
/-- data fork [0,3), plist [3,8): accepted, and `sign` succeeds -/
example : (Dmg.sign (sampleKolyD 0 3 3 5 0 0).enc ([1, 2, 3, 4, 5, 6, 7, 8] ++ (sampleKolyD 0 3 3 5 0 0).enc)
    { hash := 5, flags := 0, ident := [97], team := [], execBase := 0, execLimit := 0, execFlags := 0, requirements := none,
      entitlement := none, entitlementDER := none, infoPlist := none, resources := none, repSpecific := none }).isOk = true := by decide

end Relic.Props.C03

/-
  Relic.Model.PS — executable model of /repo/lib/authenticode/powershell.go: `DigestPowershell` (the byte stream fed
  to the hash, `TextSize`, `SigSize`), `PsDigest.MakePatch` and the line scan of `VerifyPowershell` (the locator).

  The model follows the code *after* the two F8 fixes and the F-ps-eol fix:
    F8a  `readLine` reads UTF-16 text by code units (a line ends at the code unit U+000A), so a code unit whose low
         or high byte is 0x0A (U+4E0A, U+010A, U+0A41 …) no longer ends a line or raises "malformed utf16";
    F8b  a marker line that is not preceded by a line long enough to hold the end-of-line it is about to strip is an
         error ("malformed powershell signature") instead of a slice panic.
    F-ps-eol  the bytes cut off in front of a begin-marker line are compared with the CRLF that ends the marker line itself
         (`saved[len(saved)-eol:] != first[len(first)-eol:]`); when they differ the script is refused ("malformed
         powershell signature") instead of losing its last character.
  The code as it was before the F8 fixes is kept as `linesOrig16` / `DigestPSOrig`, with the witnesses that refute
  the properties for it (Props/C01_PS.lean: `ps_orig_refuses_bmp`, `ps_orig_marker_first_panics`); the code after F8 and
  before F-ps-eol is `DigestPSEolOrig` (Props/C03_PSEol.lean: `ps_mixed_eol_loses_text_orig`).

  Styles: 1 = "# …" (ps1, psd1, psm1), 2 = "<!-- … -->" (ps1xml, psc1, cdxml), 3 = "/* … */" (mof).
-/
import Relic.Base.Bytes
import Relic.Model.Binpatch
namespace Relic.PS
open Relic

def ascii (s : String) : Bytes := s.toList.map fun c => UInt8.ofNat c.toNat

/-- `psStyles[style]`: (start, end) -/
def styleOf : Nat → Option (Bytes × Bytes)
  | 1 => some (ascii "# ", [])
  | 2 => some (ascii "<!-- ", ascii " -->")
  | 3 => some (ascii "/* ", ascii " */")
  | _ => none

def psBegin : Bytes := ascii "SIG # Begin signature block"
def psEnd : Bytes := ascii "SIG # End signature block"
def crlf : Bytes := [13, 10]

/-- `toUtf16` on ASCII text: every byte followed by a zero byte -/
def widen (b : Bytes) : Bytes := b.flatMap fun x => [x, 0]

/-- `detectUtf16`: `br.Peek(2)` succeeded and returned FF FE -/
def isUtf16 : Bytes → Bool
  | 0xff :: 0xfe :: _ => true
  | _ => false

def firstLine (st en : Bytes) (u16 : Bool) : Bytes :=
  let l := st ++ psBegin ++ en ++ crlf
  if u16 then widen l else l

def lastLine (st en : Bytes) (u16 : Bool) : Bytes :=
  let l := st ++ psEnd ++ en ++ crlf
  if u16 then widen l else l

/-! ### `readLine` -/

/-- what successive `readLine` calls return -/
inductive Item where
  /-- a line; `phys` = bytes consumed from the file -/
  | line (b : Bytes) (phys : Nat)
  /-- `errors.New("malformed utf16")` -/
  | bad
  deriving Repr, DecidableEq

/-- UTF-8 (and any non-UTF-16) text: `br.ReadString('\n')`.  The last item is the one returned together with `io.EOF`. -/
def lines8 : Bytes → Bytes → List Item
  | cur, [] => [.line cur cur.length]
  | cur, b :: bs => if b = 10 then .line (cur ++ [10]) (cur.length + 1) :: lines8 [] bs else lines8 (cur ++ [b]) bs

/-- UTF-16LE text after fix F8a: code units are read two bytes at a time; a line ends with the unit 0A 00.  A trailing
    odd byte belongs to the last line (returned with `io.EOF`). -/
def lines16 : Bytes → Bytes → List Item
  | cur, [] => [.line cur cur.length]
  | cur, [b] => [.line (cur ++ [b]) (cur.length + 1)]
  | cur, a :: b :: bs =>
    if a = 10 ∧ b = 0 then .line (cur ++ [10, 0]) (cur.length + 2) :: lines16 [] bs else lines16 (cur ++ [a, b]) bs

/-- UTF-16LE text in the original code: `ReadString('\n')` stops at the first 0x0A *byte*, then one more byte is read and
    must be zero; at end of input a zero is appended anyway. -/
def linesOrig16 : Bytes → Bytes → List Item
  | cur, [] => [.line cur cur.length]
  | cur, [b] => if b = 10 then [.line (cur ++ [10, 0]) (cur.length + 1)] else [.line (cur ++ [b]) (cur.length + 1)]
  | cur, a :: b :: bs =>
    if a = 10 then
      if b ≠ 0 then [.bad] else .line (cur ++ [10, 0]) (cur.length + 2) :: linesOrig16 [] bs
    else linesOrig16 (cur ++ [a]) (b :: bs)

/-! ### `writeUtf16` for UTF-8 input: `utf16.Encode([]rune(x))`, little-endian -/

/-- Go's `utf8.DecodeRuneInString` on `x :: rest`: (rune, size); invalid ⇒ (U+FFFD, 1) -/
def decodeRune (x : UInt8) (rest : Bytes) : Nat × Nat :=
  let x0 := x.toNat
  let cont (b : Nat) : Bool := 0x80 ≤ b ∧ b ≤ 0xBF
  if x0 < 0x80 then (x0, 1) else
  -- (size, lo, hi) of the accept range for the second byte
  let cls : Option (Nat × Nat × Nat) :=
    if x0 < 0xC2 then none
    else if x0 < 0xE0 then some (2, 0x80, 0xBF)
    else if x0 = 0xE0 then some (3, 0xA0, 0xBF)
    else if x0 = 0xED then some (3, 0x80, 0x9F)
    else if x0 < 0xF0 then some (3, 0x80, 0xBF)
    else if x0 = 0xF0 then some (4, 0x90, 0xBF)
    else if x0 < 0xF4 then some (4, 0x80, 0xBF)
    else if x0 = 0xF4 then some (4, 0x80, 0x8F)
    else none
  match cls with
  | none => (0xFFFD, 1)
  | some (size, lo, hi) =>
    if rest.length + 1 < size then (0xFFFD, 1) else
    match rest with
    | b1 :: r1 =>
      if b1.toNat < lo ∨ hi < b1.toNat then (0xFFFD, 1) else
      if size = 2 then ((x0 % 32) * 64 + b1.toNat % 64, 2) else
      match r1 with
      | b2 :: r2 =>
        if !cont b2.toNat then (0xFFFD, 1) else
        if size = 3 then ((x0 % 16) * 4096 + (b1.toNat % 64) * 64 + b2.toNat % 64, 3) else
        match r2 with
        | b3 :: _ =>
          if !cont b3.toNat then (0xFFFD, 1) else
          ((x0 % 8) * 262144 + (b1.toNat % 64) * 4096 + (b2.toNat % 64) * 64 + b3.toNat % 64, 4)
        | [] => (0xFFFD, 1)
      | [] => (0xFFFD, 1)
    | [] => (0xFFFD, 1)

/-- `utf16.Encode` of one rune, little-endian bytes -/
def encUnit (r : Nat) : Bytes :=
  if r < 0x10000 then leBytes 2 r
  else leBytes 2 (0xd800 + (r - 0x10000) / 1024) ++ leBytes 2 (0xdc00 + (r - 0x10000) % 1024)

/-- `skip` = bytes of the current rune still to be passed over -/
def toUtf16 : Nat → Bytes → Bytes
  | _, [] => []
  | skip + 1, _ :: rest => toUtf16 skip rest
  | 0, x :: rest =>
    let (r, size) := decodeRune x rest
    encUnit r ++ toUtf16 (size - 1) rest

/-- what `writeUtf16(d, x, isUtf16)` feeds to the hash -/
def conv (u16 : Bool) (x : Bytes) : Bytes := if u16 then x else toUtf16 0 x

/-! ### `DigestPowershell` -/

structure Digest where
  hashed : Bytes
  textSize : Nat
  sigSize : Nat
  utf16 : Bool
  style : Nat
  deriving Repr, DecidableEq

/-- the `for` loop.  `k` = size of the end-of-line stripped before the marker (2 or 4), `pos` = bytes consumed so far,
    `guard` = fix F8b present, `chk` = fix F-ps-eol present (the `k` bytes to be cut off must be the last `k` bytes of the
    marker line, i.e. its CRLF). -/
def digestLoop (guard chk : Bool) (first : Bytes) (u16 : Bool) (k flen : Nat) :
    List Item → (saved hashed : Bytes) → (textSize pos : Nat) → Res (Bytes × Nat × Nat)
  | [], saved, h, ts, _ => .ok (h ++ conv u16 saved, ts + saved.length, 0)
  | .bad :: _, _, _, _, _ => .err "malformed"
  | .line l phys :: rest, saved, h, ts, pos =>
    if l = first then
      if saved.length < k then (if guard then .err "badsig" else .panic "DigestPowershell:saved[:len-eol]") else
      if chk ∧ saved.drop (saved.length - k) ≠ first.drop (first.length - k) then .err "badsig" else
      let saved' := saved.take (saved.length - k)
      .ok (h ++ conv u16 saved', ts + saved'.length, k + l.length + (flen - (pos + phys)))
    else digestLoop guard chk first u16 k flen rest l (h ++ conv u16 saved) (ts + saved.length) (pos + phys)

def digestWith (guard chk : Bool) (split16 : Bytes → Bytes → List Item) (f : Bytes) (style : Nat) : Res Digest :=
  match styleOf style with
  | none => .err "style"
  | some (st, en) =>
    let u16 := isUtf16 f
    let items := if u16 then split16 [] f else lines8 [] f
    match digestLoop guard chk (firstLine st en u16) u16 (if u16 then 4 else 2) f.length items [] [] 0 0 with
    | .ok (h, ts, ss) => .ok ⟨h, ts, ss, u16, style⟩
    | .err e => .err e
    | .panic p => .panic p
    | .diverge => .diverge

/-- `DigestPowershell` (with fixes F8a, F8b, F-ps-eol) -/
def DigestPS (f : Bytes) (style : Nat) : Res Digest := digestWith true true lines16 f style

/-- `DigestPowershell` after the F8 fixes and before fix F-ps-eol: the end-of-line in front of the marker is cut off
    without being looked at -/
def DigestPSEolOrig (f : Bytes) (style : Nat) : Res Digest := digestWith true false lines16 f style

/-- `DigestPowershell` as it was before all fixes -/
def DigestPSOrig (f : Bytes) (style : Nat) : Res Digest := digestWith false false linesOrig16 f style

/-! ### `PsDigest.MakePatch` -/

def b64char (n : Nat) : UInt8 :=
  if n < 26 then UInt8.ofNat (65 + n) else if n < 52 then UInt8.ofNat (71 + n)
  else if n < 62 then UInt8.ofNat (n - 4) else if n = 62 then 43 else 47

/-- `base64.StdEncoding.EncodeToString` -/
def base64 : Bytes → Bytes
  | a :: b :: c :: rest =>
    let n := a.toNat * 65536 + b.toNat * 256 + c.toNat
    [b64char (n / 262144), b64char (n / 4096 % 64), b64char (n / 64 % 64), b64char (n % 64)] ++ base64 rest
  | [a, b] =>
    let n := a.toNat * 65536 + b.toNat * 256
    [b64char (n / 262144), b64char (n / 4096 % 64), b64char (n / 64 % 64), 61]
  | [a] =>
    let n := a.toNat * 65536
    [b64char (n / 262144), b64char (n / 4096 % 64), 61, 61]
  | [] => []

/-- the `for i := 0; i < len(b64); i += 64` loop: one comment line per 64 characters (fuel = number of characters) -/
def sigLines (st en : Bytes) : Nat → Bytes → Bytes
  | 0, _ => []
  | fuel + 1, b => if b.isEmpty then [] else st ++ b.take 64 ++ en ++ crlf ++ sigLines st en fuel (b.drop 64)

/-- the text block written after the script -/
def block (st en : Bytes) (u16 : Bool) (sig : Bytes) : Bytes :=
  let b64 := base64 sig
  let txt := crlf ++ st ++ psBegin ++ en ++ crlf ++ sigLines st en b64.length b64 ++ st ++ psEnd ++ en ++ crlf
  if u16 then widen txt else txt

def makePatch (d : Digest) (sig : Bytes) : Res (List Binpatch.Patch) :=
  match styleOf d.style with
  | none => .err "style"
  | some (st, en) => .ok [⟨d.textSize, d.sigSize, block st en d.utf16 sig⟩]

/-! ### the verifier's locator: the line scan of `VerifyPowershell` -/

/-- `utf16.Decode` + `string(runes)`: UTF-16LE bytes to UTF-8 (`fromUtf16`; an odd trailing byte is dropped) -/
def encUtf8 (r : Nat) : Bytes :=
  if r < 0x80 then [UInt8.ofNat r]
  else if r < 0x800 then [UInt8.ofNat (0xC0 + r / 64), UInt8.ofNat (0x80 + r % 64)]
  else if r < 0x10000 then [UInt8.ofNat (0xE0 + r / 4096), UInt8.ofNat (0x80 + r / 64 % 64), UInt8.ofNat (0x80 + r % 64)]
  else [UInt8.ofNat (0xF0 + r / 262144), UInt8.ofNat (0x80 + r / 4096 % 64), UInt8.ofNat (0x80 + r / 64 % 64),
        UInt8.ofNat (0x80 + r % 64)]

def fromUtf16 : Bytes → Bytes
  | a :: b :: c :: d :: rest =>
    let u := a.toNat + 256 * b.toNat
    let v := c.toNat + 256 * d.toNat
    if 0xd800 ≤ u ∧ u < 0xdc00 ∧ 0xdc00 ≤ v ∧ v < 0xe000 then
      encUtf8 (0x10000 + (u - 0xd800) * 1024 + (v - 0xdc00)) ++ fromUtf16 rest
    else if 0xd800 ≤ u ∧ u < 0xe000 then encUtf8 0xFFFD ++ fromUtf16 (c :: d :: rest)
    else encUtf8 u ++ fromUtf16 (c :: d :: rest)
  | [a, b] =>
    let u := a.toNat + 256 * b.toNat
    if 0xd800 ≤ u ∧ u < 0xe000 then encUtf8 0xFFFD else encUtf8 u
  | [a, b, _] =>
    let u := a.toNat + 256 * b.toNat
    if 0xd800 ≤ u ∧ u < 0xe000 then encUtf8 0xFFFD else encUtf8 u
  | _ => []

def hasPrefix (s p : Bytes) : Bool := s.take p.length == p
def hasSuffix (s p : Bytes) : Bool := p.length ≤ s.length && s.drop (s.length - p.length) == p

def isB64 (c : UInt8) : Bool :=
  (65 ≤ c && c ≤ 90) || (97 ≤ c && c ≤ 122) || (48 ≤ c && c ≤ 57) || c == 43 || c == 47

/-- does `base64.StdEncoding.DecodeString` accept the text (CR and LF already removed: the decoder skips them)?
    Quanta of four alphabet characters, the last one possibly `xx==` or `xxx=`, nothing after the padding. -/
def b64okF : Bytes → Bool
  | [] => true
  | a :: b :: c :: d :: rest =>
    if rest.isEmpty then isB64 a && isB64 b && ((c == 61 && d == 61) || (isB64 c && (d == 61 || isB64 d)))
    else isB64 a && isB64 b && isB64 c && isB64 d && b64okF rest
  | _ => false

def b64ok (t : Bytes) : Bool := b64okF (t.filter fun c => c != 10 && c != 13)

/-- the scan; returns the base64 text of each signature line (decoding them is `encoding/base64`'s; the model only
    decides *whether* a line decodes, because a line that does not aborts the scan).
    `guard` = the `i > j` test added with the fixes. -/
def locateLoop (guard : Bool) (st en first last : Bytes) (u16 : Bool) : List Item → Bool → List Bytes → Res (List Bytes)
  | [], _, _ => .err "unreachable"
  | .bad :: _, _, _ => .err "malformed"
  | .line l _ :: rest, found, acc =>
    -- the last item is the line returned together with io.EOF
    if rest.isEmpty then (if found then .err "eof" else .err "notsigned") else
    if found ∧ l = last then .ok acc.reverse
    else if found then
      let lstr := if u16 then fromUtf16 l else l
      if !(hasPrefix lstr st) || !(hasSuffix lstr (en ++ crlf)) then .err "badsig" else
      let i := st.length
      let j := lstr.length - en.length - 2
      if j < i then (if guard then .err "badsig" else .panic "VerifyPowershell:lstr[i:j]") else
      let payload := (lstr.drop i).take (j - i)
      if !(b64ok payload) then .err "base64" else
      locateLoop guard st en first last u16 rest true (payload :: acc)
    else if l = first then locateLoop guard st en first last u16 rest true acc
    else locateLoop guard st en first last u16 rest false acc

def locateWith (guard : Bool) (split16 : Bytes → Bytes → List Item) (f : Bytes) (style : Nat) : Res (List Bytes) :=
  match styleOf style with
  | none => .err "style"
  | some (st, en) =>
    let u16 := isUtf16 f
    let items := if u16 then split16 [] f else lines8 [] f
    locateLoop guard st en (firstLine st en u16) (lastLine st en u16) u16 items false []

def locate (f : Bytes) (style : Nat) : Res (List Bytes) := locateWith true lines16 f style
def locateOrig (f : Bytes) (style : Nat) : Res (List Bytes) := locateWith false linesOrig16 f style

/-- the 64-character pieces `MakePatch` writes for a blob -/
def chunks64 : Nat → Bytes → List Bytes
  | 0, _ => []
  | fuel + 1, b => if b.isEmpty then [] else b.take 64 :: chunks64 fuel (b.drop 64)

end Relic.PS

/-
  C20 (fragment) — "closing the server ends its background checking", at the daemon layer:
  Daemon.Close → (Shutdown) → server.Close → close(s.closeCh) → healthCheckLoop takes `<-s.Closed` and returns
  (the loop itself: Relic.Model.HealthLoop, term regenerated from source, Relic.Props.C20.relic_health_loop_exits_on_close).
  Also: the paths on which the health goroutine is left running (Serve fails by itself; daemon.New fails after server.New).
-/
import Relic.Proofs.Daemon
import Relic.Props.C20
namespace Relic.Props.C20
open Relic Relic.Daemon

/-- **close_closes_channel.** In every interleaving (within the Shutdown bound): as soon as any Close() goroutine is past
    the `if s.closeCh != nil` of server.Close – in particular when a Close() has returned – the Closed channel is closed. -/
theorem close_closes_channel (n : Nat) (evs : List Ev) (h : NoExpire evs) (c : CSt) (hc : c ∈ (run (init n) evs).closers)
    (hl : c.late = true) : (run (init n) evs).closedCh = true :=
  (inv_run evs (init n) h (inv_init n)).late (List.any_eq_true.mpr ⟨c, hc, hl⟩)

example : CSt.late (.returned false) = true := rfl

/-- the channel is closed even when Shutdown timed out (Close goes on to server.Close) -/
theorem close_closes_channel_after_timeout :
    (run (init 1) [Ev.serve, .lstart 0, .accept 0 1, .close, .expire 0, .shutdownRet 0, .chk 0, .closeCh 0]).closedCh = true := by decide

/-- **close_ends_health_loop.** Once the channel is closed the loop's `<-s.Closed` case is enabled for ever (the machine
    takes it: `healthExit`), and for the loop regenerated from the current `healthCheckLoop` that case returns from the
    function without another health check, in the very iteration that picks it – for every schedule before and after. -/
theorem close_ends_health_loop (s : St) (h : s.closedCh = true) :
    (step s .healthExit).healthRunning = false ∧
    ∃ i, HealthLoop.closedIdx HealthLoop.closedChan Relic.Generated.HealthLoop.term = some i ∧
      ∀ (sched : List Nat) (calls : List String), HealthLoop.run Relic.Generated.HealthLoop.term sched = (.running, calls) →
        ∀ rest : List Nat, ∃ more, HealthLoop.run Relic.Generated.HealthLoop.term (sched ++ i :: rest) = (.exited, calls ++ more) ∧
          HealthLoop.hcName ∉ more :=
  ⟨by simp [step, h], loop_exits_on_close _ _ _ relic_health_loop_exits_on_close⟩

/-- the loop cannot end before the channel is closed -/
theorem health_loop_runs_until_close (s : St) (h : s.closedCh = false) : step s .healthExit = s := by
  simp [step, h]

/-- a complete Close() in the machine: the loop has ended -/
example : (settle (run (init 1) [Ev.serve, .lstart 0, .close])).healthRunning = false := by decide

/-- FULL statement wanted: whenever Serve returns an error the server has been closed. -/
def serve_error_closes_server_full : Prop :=
  ∀ (n : Nat) (evs : List Ev) (e : String), (run (init n) evs).serveRet = some (some e) → (run (init n) evs).closedCh = true

/-- **serve_error_leaves_server_open** (refutes it): when every listener fails by itself, Serve returns the first error
    while nobody has called Close: the tokens stay open and the health goroutine keeps running (`relic serve` then exits
    the process, which is what ends it). -/
theorem serve_error_leaves_server_open : ¬ serve_error_closes_server_full := by
  intro h
  have := h 2 [Ev.serve, .lstart 0, .lstart 1, .lfail 0, .lfail 1, .serveRet] "accept" (by decide)
  exact absurd this (by decide)

/-- **new_error_after_server_new_leaks.** Every error return of daemon.New after server.New succeeded (TLS configuration,
    any listener, "no listeners configured") leaves the server open: tokens opened, health goroutine running, and
    the listeners opened so far stay open. Only `test` mode closes it. -/
theorem new_error_after_server_new_leaks (i : NewIn) (e : String) (h : (new i).res = .err e) (hl : i.loggingOk = true) (hs : i.serverOk = true) :
    (new i).serverOpen = true := by
  unfold new at h ⊢
  cases hL : i.cfg.listen <;> cases hT : i.tlsOk <;> cases hTest : i.test <;>
    simp only [hl, hs, hL, hT, hTest, Bool.not_true, Bool.not_false, Bool.false_eq_true, if_false, if_true, false_and, true_and, and_self, and_false] at h ⊢ <;>
    first
      | rfl
      | cases h
      | (split
         · rfl
         · split
           · rfl
           · split <;> rfl)

theorem new_test_closes_server (i : NewIn) (h : (new i).res = .testOk) : (new i).serverOpen = false := by
  unfold new at h ⊢
  cases hl : i.loggingOk <;> cases hs : i.serverOk <;> cases hL : i.cfg.listen <;> cases hT : i.tlsOk <;> cases hTest : i.test <;>
    simp only [hl, hs, hL, hT, hTest, Bool.not_true, Bool.not_false, Bool.false_eq_true, if_false, if_true, false_and, true_and, and_self, and_false] at h ⊢ <;>
    first
      | rfl
      | cases h
      | (exfalso
         split at h
         · cases h
         · split at h
           · cases h
           · split at h <;> cases h)

/-- witness: plaintext listener only, net.Listen fails -/
def leakWitness : NewIn :=
  { cfg := ⟨false, true, false⟩, test := false, loggingOk := true, serverOk := true, tlsOk := true,
    netListenOk := fun _ => false, world := ⟨[], 1, 0, fun _ => .bad⟩ }

example : new leakWitness = ⟨.err "listen", true, 0⟩ := by decide

end Relic.Props.C20

/-
  C01 — detached OpenPGP signatures (signers/pgp without --inline / --clearsign; `relic verify --content`):
  the verifier hashes the stream the signer hashed, for both signature types (binary, and text = --textmode),
  however either side received the document.  Before fix b49f687 (F49) VerifyDetached ignored the signature type:
  `pgp_detached_text_orig_rejects` states exactly which text-mode signatures relic then rejected itself.
-/
import Relic.Proofs.PgpDetached
namespace Relic.Props.C01
open Relic Relic.PgpDetached

/-- **pgp_detached_sign_then_verify.** For every document, every way of delivering it to the signer and to the
    verifier, with or without --textmode: the verifier's hash input equals the signer's.  (The signature value then
    verifies by the SigScheme parameter; key lookup and the trailer are the library's.) -/
theorem pgp_detached_sign_then_verify (textmode : Bool) (chunksS chunksV : List Bytes)
    (h : chunksS.flatten = chunksV.flatten) :
    verifyHashed (sigTypeOf textmode) chunksV = signHashed (sigTypeOf textmode) chunksS := by
  cases textmode <;> simp [sigTypeOf, verifyHashed, signHashed, canonWrites_eq, h]

/-- **pgp_detached_text_orig_rejects.** The verifier as it was before the repair hashed another stream than the signer
    for EVERY text-mode signature of a document holding a line feed that does not follow an (unconsumed) carriage
    return: the streams differ in length, so under any hash the digests are those of different messages. -/
theorem pgp_detached_text_orig_rejects (pre post : Bytes) (hpre : (canonStep false pre).2 = false) :
    verifyHashedOrig .text [pre ++ 10 :: post] ≠ signHashed .text [pre ++ 10 :: post] := by
  intro h
  have hl := congrArg List.length h
  have := canonStep_bare_lf_longer pre post hpre
  simp [verifyHashedOrig, signHashed, canonWrites, canonText] at hl
  simp at this
  omega

/-- … and it agreed with the signer exactly on binary signatures and on documents without line feeds. -/
theorem pgp_detached_orig_agrees_partial (t : SigType) (doc : Bytes) (h : t = .binary ∨ ∀ b ∈ doc, b ≠ 10) :
    verifyHashedOrig t [doc] = signHashed t [doc] := by
  cases t with
  | binary => simp [verifyHashedOrig, signHashed]
  | text =>
    rcases h with h | h
    · cases h
    · simp [verifyHashedOrig, signHashed, canonWrites, canonStep_no_lf false doc h]

/-- non-vacuity / witness: "a\n" is hashed as "a\r\n" by the text signer, as "a\n" by the old verifier -/
example : signHashed .text [[97, 10]] = [97, 13, 10] ∧ verifyHashedOrig .text [[97, 10]] = [97, 10] ∧
    verifyHashed .text [[97], [10]] = [97, 13, 10] := by decide
/-- the library's quirk is kept: CR CR LF gets a CR inserted (state 1 is left by any byte) -/
example : canonText [13, 13, 10] = [13, 13, 13, 10] ∧ canonText [13, 10] = [13, 10] := by decide

end Relic.Props.C01

/-
  C18 — the DIFAT written by `writeMSAT`, for ANY number of DIFAT sectors and any sector size.

  `writeMSATB` puts into the `j`-th DIFAT sector the entries `[109 + j·(spb−1), 109 + (j+1)·(spb−1))` of the padded table followed by
  the number of the next DIFAT sector (`difat_parses_back`, C18_Bytes.lean, states this on the bytes of the closed file).
  What a reader gets by concatenating the 109 header slots and the first `spb−1` entries of each DIFAT sector is therefore the
  padded table itself: every FAT sector number, in order, none lost and none repeated, then FREESECT only
  (`difat_entries_complete`).  A writer that hands `spb` entries to each non-final sector (seeded change C18d-1) loses one FAT
  sector per such sector; the check reaches two and three DIFAT sectors with 128-byte sectors (harness/c18/difat2.go) and
  judges the written file with an independent reader.
-/
import Relic.Model.CfbBytes
import Relic.Props.C18
namespace Relic.Props.C18
open Relic Relic.CfbW Relic.CfbB

/-- consecutive chunks of `m` entries cover a list of `k·m` entries exactly -/
theorem chunks_join (m : Nat) : ∀ (k : Nat) (l : List Int), l.length = k * m →
    ((List.range k).map (fun j => (l.drop (j * m)).take m)).flatten = l := by
  intro k
  induction k with
  | zero =>
    intro l h
    have : l = [] := List.eq_nil_of_length_eq_zero (by simpa using h)
    simp [this]
  | succ k ih =>
    intro l h
    rw [List.range_succ_eq_map, List.map_cons, List.flatten_cons, List.map_map]
    have hc : (List.range k).map ((fun j => (l.drop (j * m)).take m) ∘ Nat.succ) =
        (List.range k).map (fun j => ((l.drop m).drop (j * m)).take m) := by
      apply List.map_congr_left
      intro j _
      simp only [Function.comp, List.drop_drop]
      have : (j + 1) * m = m + j * m := by rw [Nat.succ_mul]; omega
      rw [this]
    rw [hc, ih (l.drop m) (by rw [List.length_drop, h, Nat.succ_mul]; omega)]
    simp

/-- **difat_entries_complete.**  Header slots plus the entry part of every DIFAT sector, in chain order, give the padded table
    back; its first `msat.length` entries are the FAT sector numbers, everything behind them is FREESECT.  Holds for every
    sector size (`spb` entries per sector) and every number of DIFAT sectors that can hold the table. -/
theorem difat_entries_complete (spb : Nat) (msat ml : List Int) (hfit : msat.length ≤ 109 + ml.length * (spb - 1)) :
    let P := msatPadded spb msat ml
    P.take 109 ++ ((List.range ml.length).map (fun j => ((P.drop 109).drop (j * (spb - 1))).take (spb - 1))).flatten = P ∧
    P.take msat.length = msat ∧ (∀ x ∈ P.drop msat.length, x = FREE) ∧ P.length = 109 + ml.length * (spb - 1) := by
  intro P
  have hP : P = msat ++ List.replicate (109 + ml.length * (spb - 1) - msat.length) FREE := by
    show msatPadded spb msat ml = _
    unfold msatPadded
    simp only
    rw [List.take_of_length_le hfit]
  have hlen : P.length = 109 + ml.length * (spb - 1) := by
    rw [hP, List.length_append, List.length_replicate]; omega
  refine ⟨?_, ?_, ?_, hlen⟩
  · rw [chunks_join (spb - 1) ml.length (P.drop 109) (by rw [List.length_drop, hlen]; omega), List.take_append_drop]
  · rw [hP, List.take_left']; rfl
  · intro x hx
    rw [hP, List.drop_left'] at hx
    · exact List.eq_of_mem_replicate hx
    · rfl

-- three DIFAT sectors of 31 entries (128-byte sectors), 175 FAT sectors: nothing is lost
set_option maxRecDepth 1000000 in
example : let P := msatPadded 32 ((List.range 175).map Int.ofNat) [900, 901, 902]
    P.length = 202 ∧ P.take 175 = (List.range 175).map Int.ofNat ∧ (P.drop 109).length = 3 * 31 := by
  decide

end Relic.Props.C18

/-
  Relic.Model.XmlSig — model of /repo/lib/xmldsig/sign.go (`Sign`, `buildSignedInfo`, `finishSignature`, `RemoveElements`,
  `hashAlgs`) and /repo/lib/xmldsig/verify.go (`Verify`, `parseAlgs`, the part of `encoding/xml.Unmarshal` that fills the
  `signature` struct of structs.go), on the element trees of `Relic.Model.Xml`, and of /repo/lib/appmanifest
  (`Sign`: `setAssemblyIdentity`, `setPublisherIdentity`, `makeLicense`, `makeManifestHash`, `setSigIds`; `Verify`).

  Cryptography is a parameter (`Scheme`): the model produces the canonical byte *streams* that are hashed and asks the
  scheme for the texts that end up in the document (`dtext` = base64 of the digest, `sigtext` = base64 of the signature)
  and for the verifier's decisions (`digestOk`, `sigOk`).  The native driver instantiates the scheme symbolically
  (Dolev–Yao style: the "digest" of a stream is the stream itself between markers), the harness masks the real values
  the same way, so model and implementation print comparable lines without any hash being run in Lean.

  `xml.Unmarshal` fills struct fields from *every* matching element: a string field keeps the last occurrence, a slice
  accumulates, a struct field keeps the last attribute value seen (`decodeSig` below), whereas `Verify` hashes the
  *first* `SignedInfo` child (`SelectElement`).  The model follows the code.

  Core Lean only (linked into the native driver).
-/
import Relic.Model.Xml
namespace Relic.XmlSig
open Relic Relic.Xml

/-- "Signature" -/
def sSignature : Bytes := [0x53, 0x69, 0x67, 0x6e, 0x61, 0x74, 0x75, 0x72, 0x65]
/-- "SignedInfo" -/
def sSignedInfo : Bytes := [0x53, 0x69, 0x67, 0x6e, 0x65, 0x64, 0x49, 0x6e, 0x66, 0x6f]
/-- "CanonicalizationMethod" -/
def sCanonMethod : Bytes := [0x43, 0x61, 0x6e, 0x6f, 0x6e, 0x69, 0x63, 0x61, 0x6c, 0x69, 0x7a, 0x61, 0x74, 0x69, 0x6f, 0x6e, 0x4d, 0x65, 0x74, 0x68, 0x6f, 0x64]
/-- "SignatureMethod" -/
def sSignatureMethod : Bytes := [0x53, 0x69, 0x67, 0x6e, 0x61, 0x74, 0x75, 0x72, 0x65, 0x4d, 0x65, 0x74, 0x68, 0x6f, 0x64]
/-- "Reference" -/
def sReference : Bytes := [0x52, 0x65, 0x66, 0x65, 0x72, 0x65, 0x6e, 0x63, 0x65]
/-- "Transforms" -/
def sTransforms : Bytes := [0x54, 0x72, 0x61, 0x6e, 0x73, 0x66, 0x6f, 0x72, 0x6d, 0x73]
/-- "Transform" -/
def sTransform : Bytes := [0x54, 0x72, 0x61, 0x6e, 0x73, 0x66, 0x6f, 0x72, 0x6d]
/-- "DigestMethod" -/
def sDigestMethod : Bytes := [0x44, 0x69, 0x67, 0x65, 0x73, 0x74, 0x4d, 0x65, 0x74, 0x68, 0x6f, 0x64]
/-- "DigestValue" -/
def sDigestValue : Bytes := [0x44, 0x69, 0x67, 0x65, 0x73, 0x74, 0x56, 0x61, 0x6c, 0x75, 0x65]
/-- "SignatureValue" -/
def sSignatureValue : Bytes := [0x53, 0x69, 0x67, 0x6e, 0x61, 0x74, 0x75, 0x72, 0x65, 0x56, 0x61, 0x6c, 0x75, 0x65]
/-- "KeyInfo" -/
def sKeyInfo : Bytes := [0x4b, 0x65, 0x79, 0x49, 0x6e, 0x66, 0x6f]
/-- "KeyValue" -/
def sKeyValue : Bytes := [0x4b, 0x65, 0x79, 0x56, 0x61, 0x6c, 0x75, 0x65]
/-- "RSAKeyValue" -/
def sRSAKeyValue : Bytes := [0x52, 0x53, 0x41, 0x4b, 0x65, 0x79, 0x56, 0x61, 0x6c, 0x75, 0x65]
/-- "Modulus" -/
def sModulus : Bytes := [0x4d, 0x6f, 0x64, 0x75, 0x6c, 0x75, 0x73]
/-- "Exponent" -/
def sExponent : Bytes := [0x45, 0x78, 0x70, 0x6f, 0x6e, 0x65, 0x6e, 0x74]
/-- "X509Data" -/
def sX509Data : Bytes := [0x58, 0x35, 0x30, 0x39, 0x44, 0x61, 0x74, 0x61]
/-- "X509Certificate" -/
def sX509Certificate : Bytes := [0x58, 0x35, 0x30, 0x39, 0x43, 0x65, 0x72, 0x74, 0x69, 0x66, 0x69, 0x63, 0x61, 0x74, 0x65]
/-- "ECDSAKeyValue" -/
def sECDSAKeyValue : Bytes := [0x45, 0x43, 0x44, 0x53, 0x41, 0x4b, 0x65, 0x79, 0x56, 0x61, 0x6c, 0x75, 0x65]
/-- "DomainParameters" -/
def sDomainParameters : Bytes := [0x44, 0x6f, 0x6d, 0x61, 0x69, 0x6e, 0x50, 0x61, 0x72, 0x61, 0x6d, 0x65, 0x74, 0x65, 0x72, 0x73]
/-- "NamedCurve" -/
def sNamedCurve : Bytes := [0x4e, 0x61, 0x6d, 0x65, 0x64, 0x43, 0x75, 0x72, 0x76, 0x65]
/-- "PublicKey" -/
def sPublicKey : Bytes := [0x50, 0x75, 0x62, 0x6c, 0x69, 0x63, 0x4b, 0x65, 0x79]
/-- "X" -/
def sX : Bytes := [0x58]
/-- "Y" -/
def sY : Bytes := [0x59]
/-- "Value" -/
def sValue : Bytes := [0x56, 0x61, 0x6c, 0x75, 0x65]
/-- "URN" -/
def sURN : Bytes := [0x55, 0x52, 0x4e]
/-- "Algorithm" -/
def sAlgorithm : Bytes := [0x41, 0x6c, 0x67, 0x6f, 0x72, 0x69, 0x74, 0x68, 0x6d]
/-- "URI" -/
def sURI : Bytes := [0x55, 0x52, 0x49]
/-- "Type" -/
def sType : Bytes := [0x54, 0x79, 0x70, 0x65]
/-- "Id" -/
def sId : Bytes := [0x49, 0x64]
/-- "xsi" -/
def sXsi : Bytes := [0x78, 0x73, 0x69]
/-- "type" -/
def sTypeLc : Bytes := [0x74, 0x79, 0x70, 0x65]
/-- "PrimeFieldElemType" -/
def sPrimeField : Bytes := [0x50, 0x72, 0x69, 0x6d, 0x65, 0x46, 0x69, 0x65, 0x6c, 0x64, 0x45, 0x6c, 0x65, 0x6d, 0x54, 0x79, 0x70, 0x65]
/-- "http://www.w3.org/2000/09/xmldsig#" -/
def nsXMLDsig : Bytes := [0x68, 0x74, 0x74, 0x70, 0x3a, 0x2f, 0x2f, 0x77, 0x77, 0x77, 0x2e, 0x77, 0x33, 0x2e, 0x6f, 0x72, 0x67, 0x2f, 0x32, 0x30, 0x30, 0x30, 0x2f, 0x30, 0x39, 0x2f, 0x78, 0x6d, 0x6c, 0x64, 0x73, 0x69, 0x67, 0x23]
/-- "http://www.w3.org/2001/04/xmldsig-more#" -/
def nsXMLDsigMore : Bytes := [0x68, 0x74, 0x74, 0x70, 0x3a, 0x2f, 0x2f, 0x77, 0x77, 0x77, 0x2e, 0x77, 0x33, 0x2e, 0x6f, 0x72, 0x67, 0x2f, 0x32, 0x30, 0x30, 0x31, 0x2f, 0x30, 0x34, 0x2f, 0x78, 0x6d, 0x6c, 0x64, 0x73, 0x69, 0x67, 0x2d, 0x6d, 0x6f, 0x72, 0x65, 0x23]
/-- "http://www.w3.org/2001/04/xmlenc#" -/
def nsXMLEnc : Bytes := [0x68, 0x74, 0x74, 0x70, 0x3a, 0x2f, 0x2f, 0x77, 0x77, 0x77, 0x2e, 0x77, 0x33, 0x2e, 0x6f, 0x72, 0x67, 0x2f, 0x32, 0x30, 0x30, 0x31, 0x2f, 0x30, 0x34, 0x2f, 0x78, 0x6d, 0x6c, 0x65, 0x6e, 0x63, 0x23]
/-- "http://www.w3.org/2001/XMLSchema-instance" -/
def nsXsi : Bytes := [0x68, 0x74, 0x74, 0x70, 0x3a, 0x2f, 0x2f, 0x77, 0x77, 0x77, 0x2e, 0x77, 0x33, 0x2e, 0x6f, 0x72, 0x67, 0x2f, 0x32, 0x30, 0x30, 0x31, 0x2f, 0x58, 0x4d, 0x4c, 0x53, 0x63, 0x68, 0x65, 0x6d, 0x61, 0x2d, 0x69, 0x6e, 0x73, 0x74, 0x61, 0x6e, 0x63, 0x65]
/-- "http://www.w3.org/2001/10/xml-exc-c14n#" -/
def algExcC14n : Bytes := [0x68, 0x74, 0x74, 0x70, 0x3a, 0x2f, 0x2f, 0x77, 0x77, 0x77, 0x2e, 0x77, 0x33, 0x2e, 0x6f, 0x72, 0x67, 0x2f, 0x32, 0x30, 0x30, 0x31, 0x2f, 0x31, 0x30, 0x2f, 0x78, 0x6d, 0x6c, 0x2d, 0x65, 0x78, 0x63, 0x2d, 0x63, 0x31, 0x34, 0x6e, 0x23]
/-- "http://www.w3.org/TR/2001/REC-xml-c14n-20010315" -/
def algExcC14nRec : Bytes := [0x68, 0x74, 0x74, 0x70, 0x3a, 0x2f, 0x2f, 0x77, 0x77, 0x77, 0x2e, 0x77, 0x33, 0x2e, 0x6f, 0x72, 0x67, 0x2f, 0x54, 0x52, 0x2f, 0x32, 0x30, 0x30, 0x31, 0x2f, 0x52, 0x45, 0x43, 0x2d, 0x78, 0x6d, 0x6c, 0x2d, 0x63, 0x31, 0x34, 0x6e, 0x2d, 0x32, 0x30, 0x30, 0x31, 0x30, 0x33, 0x31, 0x35]
/-- "http://www.w3.org/2000/09/xmldsig#enveloped-signature" -/
def algEnveloped : Bytes := [0x68, 0x74, 0x74, 0x70, 0x3a, 0x2f, 0x2f, 0x77, 0x77, 0x77, 0x2e, 0x77, 0x33, 0x2e, 0x6f, 0x72, 0x67, 0x2f, 0x32, 0x30, 0x30, 0x30, 0x2f, 0x30, 0x39, 0x2f, 0x78, 0x6d, 0x6c, 0x64, 0x73, 0x69, 0x67, 0x23, 0x65, 0x6e, 0x76, 0x65, 0x6c, 0x6f, 0x70, 0x65, 0x64, 0x2d, 0x73, 0x69, 0x67, 0x6e, 0x61, 0x74, 0x75, 0x72, 0x65]
/-- "sha1" -/
def sSha1 : Bytes := [0x73, 0x68, 0x61, 0x31]
/-- "sha224" -/
def sSha224 : Bytes := [0x73, 0x68, 0x61, 0x32, 0x32, 0x34]
/-- "sha256" -/
def sSha256 : Bytes := [0x73, 0x68, 0x61, 0x32, 0x35, 0x36]
/-- "sha384" -/
def sSha384 : Bytes := [0x73, 0x68, 0x61, 0x33, 0x38, 0x34]
/-- "sha512" -/
def sSha512 : Bytes := [0x73, 0x68, 0x61, 0x35, 0x31, 0x32]
/-- "rsa" -/
def sRsa : Bytes := [0x72, 0x73, 0x61]
/-- "ecdsa" -/
def sEcdsa : Bytes := [0x65, 0x63, 0x64, 0x73, 0x61]
/-- "Object" -/
def sObject : Bytes := [0x4f, 0x62, 0x6a, 0x65, 0x63, 0x74]
/-- "assemblyIdentity" -/
def sAssemblyIdentity : Bytes := [0x61, 0x73, 0x73, 0x65, 0x6d, 0x62, 0x6c, 0x79, 0x49, 0x64, 0x65, 0x6e, 0x74, 0x69, 0x74, 0x79]
/-- "publisherIdentity" -/
def sPublisherIdentity : Bytes := [0x70, 0x75, 0x62, 0x6c, 0x69, 0x73, 0x68, 0x65, 0x72, 0x49, 0x64, 0x65, 0x6e, 0x74, 0x69, 0x74, 0x79]
/-- "publicKeyToken" -/
def sPublicKeyToken : Bytes := [0x70, 0x75, 0x62, 0x6c, 0x69, 0x63, 0x4b, 0x65, 0x79, 0x54, 0x6f, 0x6b, 0x65, 0x6e]
/-- "name" -/
def sName : Bytes := [0x6e, 0x61, 0x6d, 0x65]
/-- "issuerKeyHash" -/
def sIssuerKeyHash : Bytes := [0x69, 0x73, 0x73, 0x75, 0x65, 0x72, 0x4b, 0x65, 0x79, 0x48, 0x61, 0x73, 0x68]
/-- "license" -/
def sLicense : Bytes := [0x6c, 0x69, 0x63, 0x65, 0x6e, 0x73, 0x65]
/-- "r" -/
def sR : Bytes := [0x72]
/-- "as" -/
def sAs : Bytes := [0x61, 0x73]
/-- "msrel" -/
def sMsrel : Bytes := [0x6d, 0x73, 0x72, 0x65, 0x6c]
/-- "grant" -/
def sGrant : Bytes := [0x67, 0x72, 0x61, 0x6e, 0x74]
/-- "ManifestInformation" -/
def sManifestInformation : Bytes := [0x4d, 0x61, 0x6e, 0x69, 0x66, 0x65, 0x73, 0x74, 0x49, 0x6e, 0x66, 0x6f, 0x72, 0x6d, 0x61, 0x74, 0x69, 0x6f, 0x6e]
/-- "Hash" -/
def sHash : Bytes := [0x48, 0x61, 0x73, 0x68]
/-- "Description" -/
def sDescription : Bytes := [0x44, 0x65, 0x73, 0x63, 0x72, 0x69, 0x70, 0x74, 0x69, 0x6f, 0x6e]
/-- "Url" -/
def sUrl : Bytes := [0x55, 0x72, 0x6c]
/-- "SignedBy" -/
def sSignedBy : Bytes := [0x53, 0x69, 0x67, 0x6e, 0x65, 0x64, 0x42, 0x79]
/-- "AuthenticodePublisher" -/
def sAuthenticodePublisher : Bytes := [0x41, 0x75, 0x74, 0x68, 0x65, 0x6e, 0x74, 0x69, 0x63, 0x6f, 0x64, 0x65, 0x50, 0x75, 0x62, 0x6c, 0x69, 0x73, 0x68, 0x65, 0x72]
/-- "X509SubjectName" -/
def sX509SubjectName : Bytes := [0x58, 0x35, 0x30, 0x39, 0x53, 0x75, 0x62, 0x6a, 0x65, 0x63, 0x74, 0x4e, 0x61, 0x6d, 0x65]
/-- "issuer" -/
def sIssuer : Bytes := [0x69, 0x73, 0x73, 0x75, 0x65, 0x72]
/-- "RelData" -/
def sRelData : Bytes := [0x52, 0x65, 0x6c, 0x44, 0x61, 0x74, 0x61]
/-- "StrongNameSignature" -/
def sStrongNameSignature : Bytes := [0x53, 0x74, 0x72, 0x6f, 0x6e, 0x67, 0x4e, 0x61, 0x6d, 0x65, 0x53, 0x69, 0x67, 0x6e, 0x61, 0x74, 0x75, 0x72, 0x65]
/-- "StrongNameKeyInfo" -/
def sStrongNameKeyInfo : Bytes := [0x53, 0x74, 0x72, 0x6f, 0x6e, 0x67, 0x4e, 0x61, 0x6d, 0x65, 0x4b, 0x65, 0x79, 0x49, 0x6e, 0x66, 0x6f]
/-- "AuthenticodeSignature" -/
def sAuthenticodeSignature : Bytes := [0x41, 0x75, 0x74, 0x68, 0x65, 0x6e, 0x74, 0x69, 0x63, 0x6f, 0x64, 0x65, 0x53, 0x69, 0x67, 0x6e, 0x61, 0x74, 0x75, 0x72, 0x65]
/-- "http://schemas.microsoft.com/windows/rel/2005/reldata" -/
def nsMsRel : Bytes := [0x68, 0x74, 0x74, 0x70, 0x3a, 0x2f, 0x2f, 0x73, 0x63, 0x68, 0x65, 0x6d, 0x61, 0x73, 0x2e, 0x6d, 0x69, 0x63, 0x72, 0x6f, 0x73, 0x6f, 0x66, 0x74, 0x2e, 0x63, 0x6f, 0x6d, 0x2f, 0x77, 0x69, 0x6e, 0x64, 0x6f, 0x77, 0x73, 0x2f, 0x72, 0x65, 0x6c, 0x2f, 0x32, 0x30, 0x30, 0x35, 0x2f, 0x72, 0x65, 0x6c, 0x64, 0x61, 0x74, 0x61]
/-- "urn:mpeg:mpeg21:2003:01-REL-R-NS" -/
def nsMpeg21 : Bytes := [0x75, 0x72, 0x6e, 0x3a, 0x6d, 0x70, 0x65, 0x67, 0x3a, 0x6d, 0x70, 0x65, 0x67, 0x32, 0x31, 0x3a, 0x32, 0x30, 0x30, 0x33, 0x3a, 0x30, 0x31, 0x2d, 0x52, 0x45, 0x4c, 0x2d, 0x52, 0x2d, 0x4e, 0x53]
/-- "http://schemas.microsoft.com/windows/pki/2005/Authenticode" -/
def nsAuthenticode : Bytes := [0x68, 0x74, 0x74, 0x70, 0x3a, 0x2f, 0x2f, 0x73, 0x63, 0x68, 0x65, 0x6d, 0x61, 0x73, 0x2e, 0x6d, 0x69, 0x63, 0x72, 0x6f, 0x73, 0x6f, 0x66, 0x74, 0x2e, 0x63, 0x6f, 0x6d, 0x2f, 0x77, 0x69, 0x6e, 0x64, 0x6f, 0x77, 0x73, 0x2f, 0x70, 0x6b, 0x69, 0x2f, 0x32, 0x30, 0x30, 0x35, 0x2f, 0x41, 0x75, 0x74, 0x68, 0x65, 0x6e, 0x74, 0x69, 0x63, 0x6f, 0x64, 0x65]

/-! ### algorithms -/

inductive HashId where
  | sha1 | sha224 | sha256 | sha384 | sha512
  deriving DecidableEq, Repr

inductive KeyType where
  | rsa | ecdsa
  deriving DecidableEq, Repr

/-- `hashNames` -/
def hashName : HashId → Bytes
  | .sha1 => sSha1 | .sha224 => sSha224 | .sha256 => sSha256 | .sha384 => sSha384 | .sha512 => sSha512

/-- `HashUris` -/
def hashUri : HashId → Bytes
  | .sha1 => nsXMLDsig ++ sSha1
  | .sha224 => nsXMLDsigMore ++ sSha224
  | .sha256 => nsXMLEnc ++ sSha256
  | .sha384 => nsXMLDsigMore ++ sSha384
  | .sha512 => nsXMLEnc ++ sSha512

def keyName : KeyType → Bytes
  | .rsa => sRsa | .ecdsa => sEcdsa

structure SignOptions where
  msCompat : Bool
  useRec : Bool
  includeX509 : Bool
  includeKeyValue : Bool
  deriving Repr, DecidableEq

def c14nNs (o : SignOptions) : Bytes := if o.useRec then algExcC14nRec else algExcC14n

def dash : Bytes := [0x2d]

/-- `hashAlgs` (the two refusals — unsupported hash, unsupported key type — are outside `HashId`/`KeyType`) -/
def hashAlgs (h : HashId) (kt : KeyType) (o : SignOptions) : Bytes × Bytes :=
  let hashAlg := if o.msCompat then nsXMLDsig ++ hashName h else hashUri h
  let sigAlg :=
    if kt = .rsa ∧ (h = .sha1 ∨ o.msCompat = true) then nsXMLDsig ++ keyName kt ++ dash ++ hashName h
    else nsXMLDsigMore ++ keyName kt ++ dash ++ hashName h
  (hashAlg, sigAlg)

/-- the loop over `nsPrefixes`: strip the first prefix that matches -/
def stripNs (s : Bytes) : Bytes :=
  if nsXMLDsig.isPrefixOf s then s.drop nsXMLDsig.length
  else if nsXMLDsigMore.isPrefixOf s then s.drop nsXMLDsigMore.length
  else if nsXMLEnc.isPrefixOf s then s.drop nsXMLEnc.length
  else s

def hashOfName (n : Bytes) : Option HashId :=
  if n = sSha1 then some .sha1 else if n = sSha224 then some .sha224 else if n = sSha256 then some .sha256
  else if n = sSha384 then some .sha384 else if n = sSha512 then some .sha512 else none

/-- `parseAlgs` -/
def parseAlgs (hashAlg sigAlg : Bytes) : Res (HashId × KeyType) :=
  let hn := stripNs hashAlg
  match hashOfName hn with
  | none => .err "unsupported-digest"
  | some h =>
    let sa := stripNs sigAlg
    let suf := dash ++ hn
    if suf.length ≤ sa.length ∧ sa.drop (sa.length - suf.length) = suf then
      let kn := sa.take (sa.length - suf.length)
      if kn = sRsa then .ok (h, .rsa) else if kn = sEcdsa then .ok (h, .ecdsa) else .err "unsupported-sigalg"
    else .err "unsupported-sigalg"

/-! ### the cryptographic parameters -/

/-- the string fields of `keyValue` (structs.go) -/
structure KV where
  modulus : Bytes := []
  exponent : Bytes := []
  urn : Bytes := []
  x : Bytes := []
  y : Bytes := []
  deriving Repr, DecidableEq

structure Scheme where
  /-- base64 of the digest of a stream -/
  dtext : HashId → Bytes → Bytes
  /-- hex of the byte-reversed digest of a stream (`makeManifestHash`) -/
  rtext : HashId → Bytes → Bytes
  /-- base64 of the signature the signer returns for the digest of a stream (ECDSA: repacked r‖s) -/
  sigtext : HashId → Bytes → Bytes
  /-- children of `<KeyInfo>` created by `addKeyInfo` / `addCerts` for the signer's key and chain -/
  keyInfo : SignOptions → List Node
  /-- `base64.StdEncoding.DecodeString` succeeds -/
  b64ok : Bytes → Bool
  /-- the decoded DigestValue has the length of the hash -/
  digestLen : HashId → Bytes → Bool
  /-- the decoded DigestValue equals the digest of the stream -/
  digestOk : HashId → Bytes → Bytes → Bool
  /-- `parseKey`: `none` = "invalid public key" / unsupported curve -/
  parseKey : KeyType → KV → Option Bytes
  /-- base64 + `x509.ParseCertificate`: the certificate's public key -/
  parseCert : Bytes → Option Bytes
  /-- ECDSA unpack + `x509tools.Verify` on the digest of the stream and the decoded SignatureValue -/
  sigOk : Bytes → KeyType → HashId → Bytes → Bytes → Bool

/-! ### tree helpers -/

def isElemTag (tag : Bytes) : Node → Bool
  | .elem _ t _ _ => t = tag
  | _ => false

def kidsOf : Node → List Node
  | .elem _ _ _ ks => ks
  | _ => []

def attrsOf : Node → List Attr
  | .elem _ _ as _ => as
  | _ => []

/-- `RemoveElements(root, tag)` on the child list -/
def removeElements (tag : Bytes) (kids : List Node) : List Node := kids.filter fun n => !isElemTag tag n

/-- apply `f` to the child list of the element reached by the index path (indices into `Child`) -/
def mapKidsAt : List Nat → (List Node → List Node) → Node → Node
  | [], f, .elem sp tag as ks => .elem sp tag as (f ks)
  | i :: p, f, .elem sp tag as ks => .elem sp tag as (ks.modify i (mapKidsAt p f))
  | _, _, n => n

def getAt : List Nat → Node → Option Node
  | [], n => some n
  | i :: p, .elem _ _ _ ks => match ks[i]? with
    | some k => getAt p k
    | none => none
  | _ :: _, _ => none

/-- attribute lists of the elements on the path, the addressed element included, nearest first -/
def attrsAlong : List Nat → Node → List (List Attr)
  | [], n => [attrsOf n]
  | i :: p, .elem _ _ as ks => match ks[i]? with
    | some k => attrsAlong p k ++ [as]
    | none => [as]
  | _ :: _, _ => []

/-- attribute lists of the proper ancestors of the addressed node, nearest first -/
def ancestorsAttrs (p : List Nat) (root : Node) : List (List Attr) := (attrsAlong p root).drop 1

/-- `elem.Text()`-like: what `xml.Unmarshal` stores into a string field: the character data directly inside -/
def textOf (kids : List Node) : Bytes := kids.flatMap fun n => match n with
  | .text d _ => d
  | _ => []

def txt (d : Bytes) : Node := .text d false
def el (tag : Bytes) (attrs : List Attr) (kids : List Node) : Node := .elem [] tag attrs kids
def at_ (key value : Bytes) : Attr := ⟨[], key, value⟩

/-! ### sign.go -/

/-- `buildSignedInfo` for `refId == ""` (enveloped) or an enveloping reference `#refId` -/
def signedInfo (o : SignOptions) (refId hashAlg sigAlg digestText : Bytes) : Node :=
  el sSignedInfo [] [
    el sCanonMethod [at_ sAlgorithm (c14nNs o)] [],
    el sSignatureMethod [at_ sAlgorithm sigAlg] [],
    el sReference (if refId = [] then [at_ sURI []] else [at_ sURI (0x23 :: refId), at_ sType (nsXMLDsig ++ sObject)]) [
      el sTransforms [] ((if refId = [] then [el sTransform [at_ sAlgorithm algEnveloped] []] else []) ++
        [el sTransform [at_ sAlgorithm (c14nNs o)] []]),
      el sDigestMethod [at_ sAlgorithm hashAlg] [],
      el sDigestValue [] [txt digestText]]]

def xmlnsAttr : Attr := ⟨[], sXmlns, nsXMLDsig⟩

/-- the `<Signature>` element as `finishSignature` leaves it -/
def signatureNode (S : Scheme) (o : SignOptions) (si : Node) (sigText : Bytes) : Node :=
  el sSignature [xmlnsAttr] ([si, el sSignatureValue [] [txt sigText]] ++
    (if (S.keyInfo o).isEmpty then [] else [el sKeyInfo [] (S.keyInfo o)]))

structure Signed where
  refStream : Bytes
  siStream : Bytes
  out : Node
  deriving Repr

/-- `Sign(root, parent, …)`: `path` leads from `root` to `parent`; `ctx0` = attribute lists of `root`'s ancestors.
    (a `path` that does not address an element leaves the tree unchanged; no such call exists) -/
def sign (S : Scheme) (ctx0 : List (List Attr)) (root : Node) (path : List Nat) (h : HashId) (kt : KeyType) (o : SignOptions) :
    Signed :=
  let root1 := mapKidsAt path (removeElements sSignature) root
  let refStream := canon ctx0 root1
  let algs := hashAlgs h kt o
  let si := signedInfo o [] algs.1 algs.2 (S.dtext h refStream)
  let siStream := canon ([xmlnsAttr] :: (attrsAlong path root1 ++ ctx0)) si
  let sigNode := signatureNode S o si (S.sigtext h siStream)
  { refStream := refStream, siStream := siStream, out := mapKidsAt path (· ++ [sigNode]) root1 }

/-! ### verify.go -/

/-- one path segment over a child list: `i` = index of the first listed child -/
def findIn (tag : Bytes) (f : Node → List (List Nat)) : Nat → List Node → List (List Nat)
  | _, [] => []
  | i, k :: ks => (if isElemTag tag k then (f k).map (i :: ·) else []) ++ findIn tag f (i + 1) ks

/-- `root.FindElements("t1/t2/…")` for a relative path of plain tag names: index paths in document order
    (a path segment without prefix matches every prefix) -/
def findElems : List Bytes → Node → List (List Nat)
  | [], _ => [[]]
  | tag :: rest, n => findIn tag (findElems rest) 0 (kidsOf n)

/-- last attribute named `key` (any prefix) wins; no such attribute: the field keeps its value -/
def attrVal (key : Bytes) (attrs : List Attr) (old : Bytes) : Bytes :=
  attrs.foldl (fun acc a => if a.key = key then a.value else acc) old

structure RefInfo where
  uri : Bytes := []
  transforms : List Bytes := []
  digestAlg : Bytes := []
  digestValue : Bytes := []
  deriving Repr, DecidableEq

structure SigInfo where
  c14nAlg : Bytes := []
  sigAlg : Bytes := []
  ref : RefInfo := {}
  sigValue : Bytes := []
  keyValue : Option KV := none
  certs : List Bytes := []
  deriving Repr, DecidableEq

/-- `Transforms>Transform` under one `<Transforms>` -/
def decTransforms (acc : List Bytes) : List Node → List Bytes
  | [] => acc
  | .elem _ tag as _ :: rest =>
    if tag = sTransform then decTransforms (acc ++ [attrVal sAlgorithm as []]) rest else decTransforms acc rest
  | _ :: rest => decTransforms acc rest

/-- children of one `<Reference>` -/
def decRefKids (r : RefInfo) : List Node → RefInfo
  | [] => r
  | .elem _ tag as ks :: rest =>
    if tag = sTransforms then decRefKids { r with transforms := decTransforms r.transforms ks } rest
    else if tag = sDigestMethod then decRefKids { r with digestAlg := attrVal sAlgorithm as r.digestAlg } rest
    else if tag = sDigestValue then decRefKids { r with digestValue := textOf ks } rest
    else decRefKids r rest
  | _ :: rest => decRefKids r rest

/-- children of one `<SignedInfo>` -/
def decSignedInfoKids (s : SigInfo) : List Node → SigInfo
  | [] => s
  | .elem _ tag as ks :: rest =>
    if tag = sCanonMethod then decSignedInfoKids { s with c14nAlg := attrVal sAlgorithm as s.c14nAlg } rest
    else if tag = sSignatureMethod then decSignedInfoKids { s with sigAlg := attrVal sAlgorithm as s.sigAlg } rest
    else if tag = sReference then
      decSignedInfoKids { s with ref := decRefKids { s.ref with uri := attrVal sURI as s.ref.uri } ks } rest
    else decSignedInfoKids s rest
  | _ :: rest => decSignedInfoKids s rest

/-- `first>second` two-level path into a string / attribute: fold over the children named `tag` -/
def foldTag {α} (tag : Bytes) (f : α → List Attr → List Node → α) (acc : α) : List Node → α
  | [] => acc
  | .elem _ t as ks :: rest => if t = tag then foldTag tag f (f acc as ks) rest else foldTag tag f acc rest
  | _ :: rest => foldTag tag f acc rest

/-- children of one `<KeyValue>` -/
def decKeyValue (kv : KV) (kids : List Node) : KV :=
  let kv := foldTag sRSAKeyValue (fun kv _ ks =>
    let kv := foldTag sModulus (fun (kv : KV) _ ks => { kv with modulus := textOf ks }) kv ks
    foldTag sExponent (fun (kv : KV) _ ks => { kv with exponent := textOf ks }) kv ks) kv kids
  foldTag sECDSAKeyValue (fun kv _ ks =>
    let kv := foldTag sDomainParameters (fun kv _ ks =>
      foldTag sNamedCurve (fun (kv : KV) as _ => { kv with urn := attrVal sURN as kv.urn }) kv ks) kv ks
    foldTag sPublicKey (fun kv _ ks =>
      let kv := foldTag sX (fun (kv : KV) as _ => { kv with x := attrVal sValue as kv.x }) kv ks
      foldTag sY (fun (kv : KV) as _ => { kv with y := attrVal sValue as kv.y }) kv ks) kv ks) kv kids

/-- children of one `<KeyInfo>` -/
def decKeyInfoKids (s : SigInfo) : List Node → SigInfo
  | [] => s
  | .elem _ tag _ ks :: rest =>
    if tag = sKeyValue then decKeyInfoKids { s with keyValue := some (decKeyValue (s.keyValue.getD {}) ks) } rest
    else if tag = sX509Data then
      decKeyInfoKids { s with certs := foldTag sX509Certificate (fun acc _ ks => acc ++ [textOf ks]) s.certs ks } rest
    else decKeyInfoKids s rest
  | _ :: rest => decKeyInfoKids s rest

/-- children of `<Signature>` -/
def decSigKids (s : SigInfo) : List Node → SigInfo
  | [] => s
  | .elem _ tag _ ks :: rest =>
    if tag = sSignedInfo then decSigKids (decSignedInfoKids s ks) rest
    else if tag = sSignatureValue then decSigKids { s with sigValue := textOf ks } rest
    else if tag = sKeyInfo then decSigKids (decKeyInfoKids s ks) rest
    else decSigKids s rest
  | _ :: rest => decSigKids s rest

/-- namespace name the decoder gives the element: own declaration of its prefix, an unknown prefix stays as it is -/
def elemNs (sp : Bytes) (attrs : List Attr) : Bytes :=
  if sp = [] then (attrs.find? fun a => a.space = [] ∧ a.key = sXmlns).elim [] (·.value)
  else (attrs.find? fun a => a.space = sXmlns ∧ a.key = sp).elim sp (·.value)

/-- `xml.Unmarshal(SerializeCanonical(sigEl), &sig)` on the canonical tree: `none` = the XMLName check fails -/
def decodeSig : Node → Option SigInfo
  | .elem sp tag attrs kids =>
    if tag = sSignature ∧ elemNs sp attrs = nsXMLDsig then some (decSigKids {} kids) else none
  | _ => none

/-- `SerializeCanonical` up to the writer: the tree whose serialisation is the canonical form -/
def canonTree (ctx : List (List Attr)) (n : Node) : Node := walk (pullDown ctx n)

def isC14n (a : Bytes) : Bool := a = algExcC14n ∨ a = algExcC14nRec

/-- remove the child addressed by the index path (`sigEl.Parent().RemoveChild(sigEl)`) -/
def removeAt : List Nat → Node → Node
  | [], n => n
  | [i], .elem sp tag as ks => .elem sp tag as (ks.eraseIdx i)
  | i :: p, .elem sp tag as ks => .elem sp tag as (ks.modify i (removeAt p))
  | _, n => n

def parseCerts (S : Scheme) : List Bytes → Option (List Bytes)
  | [] => some []
  | c :: cs => match S.parseCert c, parseCerts S cs with
    | some k, some ks => some (k :: ks)
    | _, _ => none

structure Verified where
  hash : HashId
  keyType : KeyType
  key : Bytes
  siStream : Bytes
  refStream : Bytes
  deriving Repr, DecidableEq

/-- `Verify(root, sigpath, extraCerts = nil)`; `root.Copy()` cuts the element off its ancestors, so the reference is
    canonicalised without ancestor context -/
def verify (S : Scheme) (root : Node) (sigpath : List Bytes) : Res Verified :=
  match findElems sigpath root with
  | [] => .err "notsigned"
  | _ :: _ :: _ => .err "multiple"
  | [p] =>
    match getAt p root with
    | none => .panic "findElems"
    | some sigEl =>
      match decodeSig (canonTree (ancestorsAttrs p root) sigEl) with
      | none => .err "xml"
      | some sig =>
        if !isC14n sig.c14nAlg then .err "unsupported-c14n" else
        match parseAlgs sig.ref.digestAlg sig.sigAlg with
        | .err e => .err e
        | .panic s => .panic s
        | .diverge => .diverge
        | .ok (h, kt) =>
          let key? : Res (Option Bytes) := match sig.keyValue with
            | none => .ok none
            | some kv => match S.parseKey kt kv with
              | none => .err "badkey"
              | some k => .ok (some k)
          match key? with
          | .err e => .err e
          | .panic s => .panic s
          | .diverge => .diverge
          | .ok key =>
            match parseCerts S sig.certs with
            | none => .err "badcert"
            | some certs =>
              match (kidsOf sigEl).filter (isElemTag sSignedInfo) with
              | [] => .err "invalid"
              | _ :: _ :: _ => .err "invalid"
              | [signedinfo] =>
                let siStream := canon (attrsOf sigEl :: ancestorsAttrs p root) signedinfo
                if !S.b64ok sig.sigValue then .err "invalid" else
                let who : Res Bytes := match key with
                  | some k => if S.sigOk k kt h siStream sig.sigValue then .ok k else .err "badsig"
                  | none => match certs with
                    | [] => .err "nokey"
                    | _ => match certs.find? (fun k => S.sigOk k kt h siStream sig.sigValue) with
                      | some k => .ok k
                      | none => .err "badsig"
                match who with
                | .err e => .err e
                | .panic s => .panic s
                | .diverge => .diverge
                | .ok k =>
                  if sig.ref.uri = [] then
                    if sig.ref.transforms.length ≠ 2 ∨ sig.ref.transforms[0]? ≠ some algEnveloped ∨
                        !((sig.ref.transforms[1]?).elim false isC14n) then .err "unsupported-transform" else
                    if p = [] then .err "no-enclosing-document" else   -- (was a nil dereference before the c11b repair)
                    let refStream := canon [] (removeAt p root)
                    if !S.b64ok sig.ref.digestValue ∨ !S.digestLen h sig.ref.digestValue then .err "invalid" else
                    if !S.digestOk h refStream sig.ref.digestValue then .err "digest" else
                    .ok { hash := h, keyType := kt, key := k, siStream := siStream, refStream := refStream }
                  else
                    if sig.ref.transforms.length ≠ 1 ∨ !((sig.ref.transforms[0]?).elim false isC14n) then
                      .err "unsupported-transform" else
                    if sig.ref.uri.head? ≠ some 0x23 then .err "unsupported-uri" else
                    .err "enveloping-not-modelled"

end Relic.XmlSig

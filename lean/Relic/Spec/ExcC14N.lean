/-
  Relic.Spec.ExcC14N — Exclusive XML Canonicalization 1.0 (W3C REC 2002-07-18), without comments, empty
  InclusiveNamespaces PrefixList, applied to the complete subtree below an apex element; transcribed from the
  W3C text onto the tree type of `Relic.Model.Xml` with namespace prefixes resolved against the
  declarations in scope (`ctx` = attribute lists of the apex's ancestors, nearest first).

  * a namespace declaration is rendered on an element iff its prefix is *visibly utilised* there (by the
    element's own name, or by one of its attributes; an unprefixed attribute utilises nothing) and the nearest
    output ancestor that rendered this prefix did not render the same URI (exc-c14n section 3, rules 1-4);
    `xmlns=""` is rendered only to undo a non-empty default namespace of an output ancestor;
    the `xml` prefix is never declared;
  * namespace declarations come first (default first, then by prefix), then the attributes sorted by
    (namespace URI, local name), unqualified attributes first (Canonical XML 1.0 section 4.3 "document order");
  * text: `& < > #xD` escaped; attribute values: `& < " #x9 #xA #xD` escaped; CDATA sections are replaced by
    their character content; comments are dropped; processing instructions are *kept* (Canonical XML 2.3).

  Also: the executable classifier `devs` naming the trigger conditions under which relic's canonicaliser
  is known (or suspected) to deviate; `devs = []` is the class `Agree` of `Props.C19`.
  Core Lean only (linked into the native driver).
-/
import Relic.Model.Xml
namespace Relic.ExcC14N
open Relic Relic.Xml

/-- prefix ↦ URI, most recent binding first -/
abbrev NsMap := List (Bytes × Bytes)

def lookup (m : NsMap) (p : Bytes) : Option Bytes :=
  match m with
  | [] => none
  | (k, v) :: r => if k = p then some v else lookup r p

/-- "xml" -/
def sXml : Bytes := [0x78, 0x6d, 0x6c]
/-- "http://www.w3.org/XML/1998/namespace" -/
def xmlUri : Bytes :=
  [104,116,116,112,58,47,47,119,119,119,46,119,51,46,111,114,103,47,88,77,76,47,49,57,57,56,47,110,97,109,101,115,112,97,99,101]

def bindDecls (m : NsMap) (attrs : List Attr) : NsMap :=
  attrs.foldl (fun m a => match getDecl a with | some p => (p, a.value) :: m | none => m) m

/-- the namespace context the apex inherits (farthest ancestor bound first, nearest last) -/
def ctxMap (ctx : List (List Attr)) : NsMap := ctx.foldr (fun attrs m => bindDecls m attrs) []

def insBy {α} (lt : α → α → Bool) (a : α) : List α → List α
  | [] => [a]
  | b :: bs => if lt a b then a :: b :: bs else b :: insBy lt a bs

def sortBy {α} (lt : α → α → Bool) : List α → List α
  | [] => []
  | a :: as => insBy lt a (sortBy lt as)

def dedup : List Bytes → List Bytes
  | [] => []
  | a :: as => if as.contains a then dedup as else a :: dedup as

def attrUri (m : NsMap) (a : Attr) : Bytes :=
  if a.space = [] then [] else if a.space = sXml then xmlUri else (lookup m a.space).getD []

/-- order of attribute nodes: namespace URI first, local name second -/
def attrLt (m : NsMap) (x y : Attr) : Bool :=
  if attrUri m x ≠ attrUri m y then bytesLt (attrUri m x) (attrUri m y) else bytesLt x.key y.key

def plainAttrs (attrs : List Attr) : List Attr := attrs.filter fun a => !isDecl a

/-- prefixes visibly utilised by an element, sorted, without `xml` -/
def utilised (esp : Bytes) (attrs : List Attr) : List Bytes :=
  sortBy bytesLt (dedup ((esp :: ((plainAttrs attrs).filter (·.space ≠ [])).map (·.space)).filter (· ≠ sXml)))

/-- namespace declarations to render for the utilised prefixes: (rendered-context', output attributes) -/
def renderNs (inScope : NsMap) : NsMap → List Bytes → NsMap × List Attr
  | rendered, [] => (rendered, [])
  | rendered, p :: ps =>
    let uri := (lookup inScope p).getD []
    let emit : Bool := if p = [] then uri ≠ (lookup rendered p).getD [] else lookup rendered p ≠ some uri
    if emit then
      let r := renderNs inScope ((p, uri) :: rendered) ps
      (r.1, ⟨(declName p).1, (declName p).2, uri⟩ :: r.2)
    else renderNs inScope rendered ps

mutual
def render (inScope rendered : NsMap) : Node → Bytes
  | .elem sp tag attrs kids =>
    let inScope' := bindDecls inScope attrs
    let ns := renderNs inScope' rendered (utilised sp attrs)
    0x3c :: fullName sp tag ++ serAttrs ns.2 ++ serAttrs (sortBy (attrLt inScope') (plainAttrs attrs)) ++
      0x3e :: renderKids inScope' ns.1 kids ++ [0x3c, 0x2f] ++ fullName sp tag ++ [0x3e]
  | .text d _ => escText d
  | .comment _ => []
  | .procinst t i => [0x3c, 0x3f] ++ t ++ (if i = [] then [] else 0x20 :: i) ++ [0x3f, 0x3e]
  | .directive _ => []
def renderKids (inScope rendered : NsMap) : List Node → Bytes
  | [] => []
  | n :: ns => render inScope rendered n ++ renderKids inScope rendered ns
end

/-- Exclusive C14N (without comments) of the subtree `root` whose ancestors carry the attribute lists `ctx` -/
def excC14N (ctx : List (List Attr)) (root : Node) : Bytes := render (ctxMap ctx) [] root

/-! ### trigger conditions of the known deviations (the complement of class `Agree`) -/

def sortedBy {α} [DecidableEq α] (lt : α → α → Bool) (l : List α) : Bool := sortBy lt l == l

/-- per-element triggers, given the namespace context in scope (own declarations bound) and the context
    rendered by the output ancestors -/
def elemDevs (inScope' rendered : NsMap) (sp : Bytes) (attrs : List Attr) : List String :=
  let used := (sp :: ((plainAttrs attrs).filter (·.space ≠ [])).map (·.space)).filter (fun p => p ≠ sXml ∧ p ≠ [])
  (if used.any (fun p => (lookup inScope' p).isNone) then ["undeclared"] else []) ++
  (if sortBy (attrLt inScope') (plainAttrs attrs) ≠ sortAttrs (plainAttrs attrs) then ["attr-order"] else []) ++
  (if attrs.any (fun a => match getDecl a with
      | some p => a.value ≠ [] ∧ lookup rendered p = some a.value
      | none => false) then ["redundant-decl"] else []) ++
  (if attrs.any (fun a => getDecl a = some [] ∧ a.value = []) then ["empty-default"] else []) ++
  (if attrs.any (fun a => (a.space = sXmlns ∧ a.key = sXmlns) ∨ (a.space ≠ [] ∧ a.key = sXmlns)) then ["xmlns-name"] else [])

mutual
def nodeDevs (inScope rendered : NsMap) : Node → List String
  | .elem sp _ attrs kids =>
    let inScope' := bindDecls inScope attrs
    let ns := renderNs inScope' rendered (utilised sp attrs)
    elemDevs inScope' rendered sp attrs ++ kidsDevs inScope' ns.1 kids
  | .text _ c => if c then ["cdata"] else []
  | .comment _ => []
  | .procinst _ _ => ["pi"]
  | .directive _ => ["directive"]
def kidsDevs (inScope rendered : NsMap) : List Node → List String
  | [] => []
  | n :: ns => nodeDevs inScope rendered n ++ kidsDevs inScope rendered ns
end

def dedupS : List String → List String
  | [] => []
  | a :: as => if as.contains a then dedupS as else a :: dedupS as

/-- the deviation triggers present in (`ctx`, `root`) -/
def devs (ctx : List (List Attr)) (root : Node) : List String :=
  dedupS ((if ctx.any (fun attrs => attrs.any fun a => getDecl a = some [] ∧ a.value = [])
           then ["ctx-empty-default"] else []) ++
          (if ctx.any (fun attrs => attrs.any fun a => (a.space = sXmlns ∧ a.key = sXmlns) ∨ (a.space ≠ [] ∧ a.key = sXmlns))
           then ["xmlns-name"] else []) ++ nodeDevs (ctxMap ctx) [] root)

/-- the class on which relic's canonical form is claimed to equal Exclusive C14N -/
def agree (ctx : List (List Attr)) (root : Node) : Bool := (devs ctx root).isEmpty

end Relic.ExcC14N

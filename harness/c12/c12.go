// Package c12: generator and implementation runner for property C12 (lib/binpatch).
package c12

import (
	"bufio"
	"bytes"
	"errors"
	"fmt"
	"io"
	"os"
	"path/filepath"
	"strings"
	"syscall"

	"github.com/sassoftware/relic/v8/lib/binpatch"
	"github.com/sassoftware/relic/v8/signers"

	"verifharness/hx"
)

type call struct {
	off, old int64
	blob     []byte
}

func fmtCalls(cs []call) string {
	var sb strings.Builder
	fmt.Fprintf(&sb, "%d", len(cs))
	for _, c := range cs {
		fmt.Fprintf(&sb, " %d %d %s", c.off, c.old, hx.Hex(c.blob))
	}
	return sb.String()
}

func fileOf(n int) []byte {
	f := make([]byte, n)
	for i := range f {
		f[i] = byte(0x10 + i)
	}
	return f
}

func permutations(n int) [][]int {
	if n == 0 {
		return [][]int{{}}
	}
	var out [][]int
	for _, p := range permutations(n - 1) {
		for i := 0; i <= len(p); i++ {
			q := append(append(append([]int{}, p[:i]...), n-1), p[i:]...)
			out = append(out, q)
		}
	}
	return out
}

var modes = []string{"same", "other", "otherexists", "hardlink"}

// Gen writes the op list for one run.
func Gen(w *bufio.Writer, seed uint64, tier string) {
	// (a) exhaustive small scope
	maxN, maxCalls := 4, 2
	if tier == "thorough" {
		maxN, maxCalls = 4, 3
	}
	blobs := func(tag byte) [][]byte {
		return [][]byte{nil, {0xa0 + tag}, {0xa0 + tag, 0xb0 + tag}}
	}
	for n := 0; n <= maxN; n++ {
		f := fileOf(n)
		var rec func(start int64, cs []call)
		emit := func(cs []call) {
			for _, perm := range permutations(len(cs)) {
				pc := make([]call, len(cs))
				for i, j := range perm {
					pc[i] = cs[j]
				}
				for _, via := range []string{"direct", "dump"} {
					for _, mode := range modes {
						// keep the cross product of the rarer modes on a deterministic subsample
						if (mode == "otherexists" || mode == "hardlink") && len(cs) == 3 && via == "dump" {
							continue
						}
						fmt.Fprintf(w, "C12 apply %s %s %s %s\n", hx.Hex(f), mode, via, fmtCalls(pc))
					}
				}
			}
		}
		rec = func(start int64, cs []call) {
			emit(cs)
			if len(cs) == maxCalls || (len(cs) == 2 && n > 3) {
				return
			}
			for off := start; off <= int64(n)+1; off++ {
				for old := int64(0); off+old <= int64(n)+1; old++ {
					for _, b := range blobs(byte(len(cs))) {
						rec(off+old, append(append([]call{}, cs...), call{off, old, b}))
					}
				}
			}
		}
		rec(0, nil)
	}
	// (b) random: larger files, more calls, ascending and deliberately unsorted / overlapping
	r := hx.NewRng(seed)
	nrand := 400
	if tier == "thorough" {
		nrand = 6000
	}
	for i := 0; i < nrand; i++ {
		flen := r.Pick(0, 1, 7, 64, 300, 4096, 5000, 70000)
		if tier != "thorough" && flen > 5000 {
			flen = 5000
		}
		f := r.Bytes(flen)
		ncalls := 1 + r.Intn(12)
		var cs []call
		pos := int64(0)
		for k := 0; k < ncalls; k++ {
			gap := int64(r.Pick(0, 0, 1, 3, 50, 1000))
			old := int64(r.Pick(0, 0, 1, 2, 8, 100))
			off := pos + gap
			if r.Intn(10) == 0 { // overlapping / out-of-order / past-EOF material
				off = int64(r.Intn(flen + 3))
			}
			bl := r.Pick(0, 1, 1, 2, 8, 100, 1024)
			if r.Intn(3) == 0 {
				bl = int(old) // size-preserving, so that the in-place path is reachable
			}
			cs = append(cs, call{off, old, r.Bytes(bl)})
			pos = off + old
		}
		if r.Intn(4) == 0 && len(cs) > 0 { // make the last one end exactly at EOF
			last := &cs[len(cs)-1]
			if last.off <= int64(flen) {
				last.old = int64(flen) - last.off
			}
		}
		if r.Intn(6) == 0 { // shuffle call order
			for k := len(cs) - 1; k > 0; k-- {
				j := r.Intn(k + 1)
				cs[k], cs[j] = cs[j], cs[k]
			}
		}
		via := []string{"direct", "dump"}[r.Intn(2)]
		mode := modes[r.Intn(len(modes))]
		fmt.Fprintf(w, "C12 apply %s %s %s %s\n", hx.Hex(f), mode, via, fmtCalls(cs))
	}
	// (c) Load on every prefix of valid dumps, bad versions, lying counts, trailing bytes
	for i := 0; i < 40; i++ {
		p := binpatch.New()
		pos := int64(0)
		for k := 0; k < 1+r.Intn(4); k++ {
			off := pos + int64(r.Intn(5)) + 1
			old := int64(r.Intn(4))
			p.Add(off, old, r.Bytes(r.Intn(6)))
			pos = off + old
		}
		d := p.Dump()
		for cut := 0; cut <= len(d); cut++ {
			fmt.Fprintf(w, "C12 load %s\n", hx.Hex(d[:cut]))
		}
		fmt.Fprintf(w, "C12 load %s\n", hx.Hex(append(append([]byte{}, d...), 0xee, 0xff)))
		for k := 0; k < 6; k++ {
			m := append([]byte{}, d...)
			pos := r.Intn(len(m))
			if pos >= 4 && pos < 6 { // keep NumPatches below 2^16: larger counts are C11's allocation question
				pos = 7
			}
			m[pos] = byte(r.Pick(0, 1, 2, 0x7f, 0xff))
			fmt.Fprintf(w, "C12 load %s\n", hx.Hex(m))
		}
	}
	// (d) Add at the real uint32Max thresholds, lengths only (blob lengths stay small)
	const M = 0xffffffff
	olds := []int64{0, 1, M - 1, M, M + 1, 2*M - 1, 2 * M, 2*M + 1, 3*M + 7}
	for _, o1 := range olds {
		for _, o2 := range olds {
			for _, gap := range []int64{0, 1} {
				for _, b1 := range []int{0, 3} {
					for _, b2 := range []int{0, 2} {
						fmt.Fprintf(w, "C12 add 2 %d %d %d %d %d %d\n", 5, o1, b1, 5+o1+gap, o2, b2)
					}
				}
			}
		}
	}
	for i := 0; i < 200; i++ {
		n := 1 + r.Intn(5)
		var sb strings.Builder
		pos := int64(r.Intn(10))
		for k := 0; k < n; k++ {
			old := olds[r.Intn(len(olds))]
			if r.Bool() {
				old = int64(r.Intn(10))
			}
			gap := int64(r.Pick(0, 0, 0, 1, 9))
			fmt.Fprintf(&sb, " %d %d %d", pos+gap, old, r.Intn(4))
			pos += gap + old
		}
		fmt.Fprintf(w, "C12 add %d%s\n", n, sb.String())
	}
	// (e) dump of unsorted input: byte-exact serialisation
	for i := 0; i < 200; i++ {
		n := 1 + r.Intn(5)
		offs := map[int64]bool{}
		var cs []call
		for k := 0; k < n; k++ {
			off := int64(r.Intn(1 << uint(r.Pick(4, 8, 20, 40))))
			for offs[off] || offs[off-1] || offs[off+1] { // distinct, non-touching offsets: sort order is unique
				off += 3
			}
			offs[off] = true
			cs = append(cs, call{off, int64(r.Pick(0, 1, 200, 70000)), r.Bytes(r.Intn(5))})
		}
		// ranges may overlap here; Dump does not care. Avoid accidental coalescing only.
		fmt.Fprintf(w, "C12 dump %s\n", fmtCalls(cs))
	}
}

func classify(err error) string {
	switch {
	case err == nil:
		return ""
	case strings.Contains(err.Error(), "out of order"):
		return "outoforder"
	case errors.Is(err, io.EOF) || errors.Is(err, io.ErrUnexpectedEOF):
		return "short"
	case strings.Contains(err.Error(), "unsupported binpatch version"):
		return "version"
	}
	return "other:" + strings.ReplaceAll(err.Error(), " ", "_")
}

// parseCalls: the blobs are handed to Add the way relic's callers hand them over (lib/fruit/machos: sub-slices of one
// header buffer): slices of ONE arena with spare capacity behind them, laid out in reverse call order, so that whatever
// Add writes behind a blob it was given lands in the bytes of another patch.  Add keeps the caller's slice; it must not
// write through it.  arenaIntact reports whether the caller's memory still holds what the caller put there.
func parseCalls(fields []string) []call {
	n := int(hx.Atoi(fields[0]))
	cs := make([]call, n)
	raw := make([][]byte, n)
	total := 0
	for i := 0; i < n; i++ {
		raw[i] = hx.MustUnHex(fields[3+3*i])
		total += len(raw[i])
	}
	arena := make([]byte, total+16)
	pos := 0
	for i := n - 1; i >= 0; i-- {
		copy(arena[pos:], raw[i])
		cs[i] = call{hx.Atoi(fields[1+3*i]), hx.Atoi(fields[2+3*i]), arena[pos : pos+len(raw[i])]}
		pos += len(raw[i])
	}
	lastArena, lastArenaCopy = arena, append([]byte(nil), arena...)
	return cs
}

var lastArena, lastArenaCopy []byte

func arenaIntact() bool { return bytes.Equal(lastArena, lastArenaCopy) }

func inode(path string) uint64 {
	st, err := os.Lstat(path)
	if err != nil {
		return 0
	}
	return st.Sys().(*syscall.Stat_t).Ino
}

// Handle runs the real code on one op.
func Handle(f []string) string {
	{
		switch f[0] {
		case "apply":
			dir, err := os.MkdirTemp("", "vh-c12-")
			if err != nil {
				panic(err)
			}
			defer os.RemoveAll(dir)
			return doApply(dir, hx.MustUnHex(f[1]), f[2], f[3], parseCalls(f[4:]))
		case "add":
			n := int(hx.Atoi(f[1]))
			p := binpatch.New()
			for i := 0; i < n; i++ {
				p.Add(hx.Atoi(f[2+3*i]), hx.Atoi(f[3+3*i]), make([]byte, hx.Atoi(f[4+3*i])))
			}
			var parts []string
			for i, h := range p.Patches {
				if int(h.NewSize) != len(p.Blobs[i]) {
					return "newsize-mismatch"
				}
				parts = append(parts, fmt.Sprintf("%d:%d:%d", h.Offset, h.OldSize, h.NewSize))
			}
			return "ok " + strings.Join(parts, " ")
		case "dump":
			p := binpatch.New()
			for _, c := range parseCalls(f[1:]) {
				p.Add(c.off, c.old, c.blob)
			}
			d := p.Dump()
			if !arenaIntact() {
				return "ok " + hx.Hex(d) + " caller-buffer-changed"
			}
			return "ok " + hx.Hex(d)
		case "load":
			p, err := binpatch.Load(hx.MustUnHex(f[1]))
			if err != nil {
				c := classify(err)
				return "err " + c
			}
			parts := []string{fmt.Sprintf("ok %d", len(p.Patches))}
			for i, h := range p.Patches {
				parts = append(parts, fmt.Sprintf("%d:%d:%s", h.Offset, h.OldSize, hx.Hex(p.Blobs[i])))
			}
			return strings.Join(parts, " ")
		}
		return "bad-op"
	}
}

func doApply(dir string, orig []byte, mode, via string, cs []call) string {
	inpath := filepath.Join(dir, "in.bin")
	if err := os.WriteFile(inpath, orig, 0o644); err != nil {
		panic(err)
	}
	outpath := inpath
	expectNames := map[string]bool{"in.bin": true}
	var prevOut []byte
	prevExists := true
	switch mode {
	case "same":
		prevOut = orig
	case "other":
		outpath = filepath.Join(dir, "out.bin")
		prevExists = false
	case "otherexists":
		outpath = filepath.Join(dir, "out.bin")
		prevOut = []byte("previous content of the destination")
		if err := os.WriteFile(outpath, prevOut, 0o644); err != nil {
			panic(err)
		}
	case "hardlink":
		if err := os.Link(inpath, filepath.Join(dir, "link.bin")); err != nil {
			panic(err)
		}
		expectNames["link.bin"] = true
		prevOut = orig
	default:
		return "bad-op"
	}
	p := binpatch.New()
	for _, c := range cs {
		p.Add(c.off, c.old, c.blob)
	}
	inoBefore := inode(outpath)
	infile, err := os.OpenFile(inpath, os.O_RDWR, 0)
	if err != nil {
		panic(err)
	}
	defer infile.Close()
	if via == "dump" {
		// the production path: serialised patch -> signers.ApplyBinPatch (Load + Apply)
		err = signers.ApplyBinPatch(infile, outpath, bytes.NewReader(p.Dump()))
	} else {
		err = p.Apply(infile, outpath)
	}
	suffix := ""
	if !arenaIntact() {
		suffix += " caller-buffer-changed"
	}
	// no temporary files may remain, whatever happened
	ents, _ := os.ReadDir(dir)
	for _, e := range ents {
		if !expectNames[e.Name()] && e.Name() != "out.bin" {
			suffix += " leftover:" + e.Name()
		}
	}
	if err != nil {
		// the target must be untouched
		got, rerr := os.ReadFile(outpath)
		if prevExists && (rerr != nil || !bytes.Equal(got, prevOut)) {
			suffix += " target-touched"
		}
		if !prevExists && rerr == nil {
			suffix += " target-created"
		}
		c := classify(err)
		if c == "short" {
			c = "shortcopy"
		}
		return "err " + c + suffix
	}
	if st, serr := os.Stat(outpath); serr == nil && st.Size() > 64<<20 {
		// never read back a runaway output (e.g. a size computed with wrapped arithmetic)
		return fmt.Sprintf("ok size=%d", st.Size()) + suffix
	}
	got, rerr := os.ReadFile(outpath)
	if rerr != nil {
		return "err output-missing" + suffix
	}
	strategy := "rewrite"
	if inoBefore != 0 && inode(outpath) == inoBefore {
		strategy = "inplace"
	}
	if mode == "hardlink" {
		other, _ := os.ReadFile(filepath.Join(dir, "link.bin"))
		if !bytes.Equal(other, orig) {
			suffix += " link-changed"
		}
	}
	if mode == "other" || mode == "otherexists" {
		src, _ := os.ReadFile(inpath)
		if !bytes.Equal(src, orig) {
			suffix += " input-changed"
		}
	}
	return "ok " + hx.Hex(got) + " " + strategy + suffix
}

"""Reader calculus (ops with first token RD), served under C09: split independence of the streaming digesters.

`install(g)` extends the C09 property module in place (its own ops keep going through its own functions)."""
import hashlib, os, struct

import runner

TOKENS = ["RD"]
RULE = (" readers (RD ops): the reader programs of Relic.Model.ReaderProgs (DigestPE with and without page hashes, cabfile.Digest, "
        "DigestPowershell, DigestXapTar and DigestMsiTar over plain tar headers, csblob.hashPages, the ar walk of signdeb.Sign, and "
        "zipslicer.ReadZipTar with scripted ReadAt calls on the streamReaderAt it builds: hook Directory.VerifReaderAt) and the real digesters run on the same scripted reader (exact chunk list incl. empty reads, io.EOF or an "
        "injected error at the end, optionally delivered with the last bytes): generated PE images (sections around the 4096/8192 page "
        "size, signed, with trailing bytes, headers beyond a page, e_lfanew < 64, mutated), cabinets (reserve areas, signed, 1 and 3 "
        "bytes of garbage), scripts (UTF-8/UTF-16, lines of 4094..4097 and 8192 bytes around bufio's buffer, with signature block), each "
        "cut whole / 1 / 7 / 4095 / 4097 bytes / at every offset where the code asks for more (recorded from a whole run), one byte "
        "before and after those / seeded cuts / one byte then everything / with empty reads in front, between and behind / EOF with the "
        "last byte / failing after everything or after a prefix / 99 and 100 empty reads in a row (PowerShell); result, sizes, SHA-256 of "
        "the hashed stream and the page-hash table compared, and chunked vs whole compared on both sides (split=same). frag: 16 digester "
        "inputs (PE/DLL with and without page hashes, ps1, ps1xml, mof, generated scripts, CAB, JAR x3, APK, XAP, MSI, MSI extended) x 10 "
        "read-size patterns (1, 7, 4095, 4096, 4097, seeded, one byte then everything, empty reads interleaved, EOF with the last bytes "
        "whole and byte-wise) must equal the unfragmented digest. e2e: every signer type (pe-coff, msi, cab, ps, jar, apk, appx, vsix, "
        "xap, deb, rpm, dmg, xar, mach-o, cat): transform -> fragmenting reader -> Sign -> Apply -> relic's own verifier on the patched "
        "file must accept. http: cabfile.Digest behind a real net/http server (Content-Length and chunked) vs the file.")
TRUSTED = ["reader calculus: Stream.read / readFull / copy / bufio.Reader's fill, Peek, ReadByte, ReadString, WriteTo are hand transcriptions "
           "of Go's io and bufio packages (go1.23), tied to the real library only through the RD run ops",
           "tools/extractreaders (go/ast, syntactic: identifiers tracked by name within a function)",
           "archive/tar, blakesmith/ar, compress/flate as derived readers (their own calls on the source are not listed)"]
ASSUMPTIONS = ["streams are finite chunk lists: a reader that answers `0, nil` for ever is outside the model (Go's io.ReadFull would spin)",
               "bufio.Reader: fewer than 100 consecutive empty reads (Stream.NoStall); beyond that Peek/ReadString return io.ErrNoProgress and "
               "DigestPowershell may mis-detect UTF-16 (bufio_stall_not_split_independent; ops with stall=1 are not judged)",
               "sink writes (hash.Hash, bytes.Buffer) never fail",
               "reader programs model the code after fixes a618e41, 7a9b915, af1f153 (errors where the PE model records the original panics) "
               "and after fix F-rd-cab-tail (cabfile.Digest drains the reader; the original one-byte probe is kept as digestCabOrig with "
               "cab_reader_split_dependent)"]
UNPROVED = [
            "xap_reader_split_independent_full / msi_reader_split_independent_full (no Lean statement; proved for plain tar headers: "
            "xap/msi_reader_split_independent_partial; PAX/GNU records, sparse members, checksums and the refinement to the member-list models open)",
            "jar_reader_refines_model_full (no Lean statement; JAR, APK, AppX, VSIX over ReadZipTar are split independent for every consumer of "
            "the io.ReaderAt: jar_reader_split_independent, covering tar framing + zipTarReader + streamReaderAt; naming flate / CRC / manifest "
            "logic as one consumer and refining it to Relic.Model.Jar / Appx / ApkSign is open)",
            "deb_reader_split_independent_full (no Lean statement; member walk proved: deb_reader_split_independent_partial; the control-tarball "
            "parser behind the io.Pipe open)",
            "macho_reader_split_independent_full (no Lean statement; page hashing proved: macho_pages_reader_split_independent; scanFile and the "
            "MultiReader/LimitReader composition of machos.Sign open)"]

GEN = os.path.join(runner.LEAN, "Relic", "Generated", "Readers.lean")


def generate(ctx):
    """T-gen: the call inventory of the digester functions -> lean/Relic/Generated/Readers.lean"""
    tool = runner.build_tool("extractreaders")
    if os.path.exists(GEN):
        os.remove(GEN)
    r = runner.sh([tool, runner.REPO, GEN])
    if r.returncode != 0:
        raise runner.Broken("extractreaders failed on the digester sources", r.stdout[-2000:])
    return ["Relic.Props.C09.readers_generated_ok (regenerated Relic.Generated.Readers)"]


def canon_model(op, mres):
    """the model prints the hashed *stream* and the page-hash inputs; hash them as the implementation does"""
    if not mres.startswith("ok"):
        return mres
    out = []
    for p in mres.split(" "):
        if p.startswith("hashed="):
            h = p[7:]
            out.append("imprint=" + hashlib.sha256(b"" if h == "-" else bytes.fromhex(h)).hexdigest())
        elif p.startswith("pages=") and op.split()[2] == "hashpages":
            sl = b""
            if p[6:] != ".":
                for hx in p[6:].split(","):
                    sl += hashlib.sha256(b"" if hx == "-" else bytes.fromhex(hx)).digest()
            out.append("slots=" + (sl.hex() if sl else "-"))
        elif p.startswith("segs="):
            d = hashlib.sha256()
            if p[5:] != "-":
                for seg in p[5:].split(","):
                    k, hx = seg.split(":")
                    b = b"" if hx == "-" else bytes.fromhex(hx)
                    d.update(hashlib.sha256(b).digest() if k == "p" else b)
            out.append("imprint=" + d.hexdigest())
        elif p.startswith("files="):
            fs = []
            if p[6:] != ".":
                for ent in p[6:].split(","):
                    n, sz, hx = ent.split(":")
                    b = b"" if hx == "-" else bytes.fromhex(hx)
                    fs.append("%s:%s:%s:%s" % (hashlib.md5(b).hexdigest(), hashlib.sha1(b).hexdigest(), sz, n))
            out.append("files=" + (",".join(fs) if fs else "."))
        elif p.startswith("pages="):
            tbl = b""
            for ent in p[6:].split(","):
                off, hx = ent.split(":")
                tbl += struct.pack("<I", int(off))
                tbl += b"\0" * 32 if hx == "-" else hashlib.sha256(bytes.fromhex(hx)).digest()
            out.append("pagehashes=" + tbl.hex())
        else:
            out.append(p)
    return " ".join(out)


THM = {"pe": "Relic.Props.C09.pe_reader_split_independent", "pepage": "Relic.Props.C09.pe_reader_split_independent",
       "cab": "Relic.Props.C09.cab_reader_split_independent", "ps": "Relic.Props.C09.ps_reader_split_independent",
       "xap": "Relic.Props.C09.xap_reader_split_independent_partial", "msi": "Relic.Props.C09.msi_reader_split_independent_partial",
       "msiex": "Relic.Props.C09.msi_reader_split_independent_partial",
       "hashpages": "Relic.Props.C09.macho_pages_reader_split_independent", "ziptar": "Relic.Props.C09.jar_reader_split_independent", "deb": "Relic.Props.C09.deb_reader_split_independent_partial"}


def equiv(op, il, mres):
    """signdeb.Sign also feeds the control tarball to a gzip/tar parser (for the audit record) and reports that parser's
    error as soon as the member has been copied: outside the reader program.  Such an answer (control:*, or the bare
    unexpected-EOF of a truncated gzip stream where the member walk itself sees no error) is not compared beyond the
    chunked-vs-whole verdict."""
    if il == mres:
        return True
    f = op.split()
    if f[1] == "run" and f[2] == "ziptar" and f[4] != "eof":
        # a failing stream: which "the stream is over" answer (io.EOF / the transport error) a zero-byte read at the end of the
        # last member gets depends on whether the error arrived with the last data (FA14); data reads are compared in full
        def cut(s):
            s = s.replace("|-:read:injected", "|-:eof")
            i = s.find("|-:eof")
            return (s[:i + 6] if i >= 0 else s.rsplit(" split=", 1)[0]) + " " + s.rsplit(" ", 1)[-1]
        if cut(il) == cut(mres):
            return True
    if f[1] == "run" and f[2] == "deb":
        if il.startswith("err control:") or (il.startswith("err eof") and not mres.startswith("err eof")):
            return il.split(" ")[-1] == mres.split(" ")[-1]
    return False


def _tagv(tag, key):
    for t in tag.split():
        if t.startswith(key + "="):
            return t[len(key) + 1:]
    return ""


def nontrivial(op, mres, tag):
    f = op.split()
    if f[1] == "run":
        return f[6] != "."
    return True


def branch(op, mres, tag):
    f = op.split()
    if f[1] == "run":
        r = mres.split(" ")
        res = r[0] if r[0] == "ok" else " ".join(r[:2])
        return "rd:run:%s:%s:%s:plain=%s" % (f[2], res, "DIFF" if "split=DIFF" in mres else "same", _tagv(tag, "plain"))
    return "rd:%s:%s" % (f[1], f[2])


def predicate(op, il, mres, tag):
    """the property itself on the implementation's behaviour: the digest must not depend on the delivery"""
    f = op.split()
    k = f[1]
    if il.startswith("panic") or il.startswith("crash"):
        return ("Relic.Props.C09.run_split_independent", mres, "implementation crashed")
    if k == "run":
        if "split=DIFF" in il:
            if f[2] == "ps" and _tagv(tag, "stall") == "1":
                return None  # outside the stated side condition (100 empty reads in a row)
            return (THM.get(f[2], "Relic.Props.C09.run_split_independent"), "split=same",
                    "the real digester gives a different answer on this delivery than on the whole buffer: " + il[:200])
    elif k in ("frag", "e2e", "http"):
        if il != "ok same":
            thm = {"frag": "Relic.Props.C09.run_split_independent (digesters without reader program: implementation oracle)",
                   "e2e": "stream_digest_eq_file_digest (implementation oracle: relic's verifier on the patched file)",
                   "http": "Relic.Props.C09.cab_reader_split_independent"}[k]
            return (thm, "ok same", il)
    return None


def matches_known(kn, op, il, mres, tag):
    """F-rd-cab-tail (repaired; the entry is `fixed`, so this matcher is only used if the entry is set back to `known`):
    cabfile.Digest's end-of-input probe; identity = cab digester + a delivery that is not Plain where the
    probe happens (empty read pending, or the terminal error delivered with data) + only the trailing verdict differs"""
    ident = kn.get("identity", {})
    if ident.get("site") != "cabfile.Digest:end-of-input probe r.Read(make([]byte, 1))":
        return False
    f = op.split()
    k = f[1]
    if k == "run":
        return f[2] == "cab" and "split=DIFF" in il and _tagv(tag, "plain") == "0"
    if k == "frag":
        return f[2] == "cab" and f[3] in ("empties", "eager", "eagerone") and "trailing_garbage_after_cabinet" in il
    if k == "e2e":
        return f[2] == "cab" and (f[5] in ("empties",) or f[5].startswith("eager")) and "trailing_garbage_after_cabinet" in il
    if k == "http":
        return f[2] == "cab" and f[3] == "1" and il.startswith("ok DIFF ok/err:trailing")
    return False


def install(g):
    base = {n: g.get(n) for n in ("nontrivial", "branch", "predicate", "matches_known", "canon_model", "generate")}

    base_equiv = g.get("equiv")

    def is_rd(op):
        return op.startswith("RD ")

    g["nontrivial"] = lambda op, mres, tag: nontrivial(op, mres, tag) if is_rd(op) else base["nontrivial"](op, mres, tag)
    g["branch"] = lambda op, mres, tag: branch(op, mres, tag) if is_rd(op) else base["branch"](op, mres, tag)
    g["predicate"] = lambda op, il, mres, tag: predicate(op, il, mres, tag) if is_rd(op) else base["predicate"](op, il, mres, tag)
    g["matches_known"] = lambda kn, op, il, mres, tag: (matches_known(kn, op, il, mres, tag) if is_rd(op)
                                                       else base["matches_known"](kn, op, il, mres, tag))
    g["equiv"] = lambda op, il, mres: equiv(op, il, mres) if is_rd(op) else (base_equiv(op, il, mres) if base_equiv else il == mres)
    g["canon_model"] = lambda op, mres: (canon_model(op, mres) if is_rd(op)
                                        else (base["canon_model"](op, mres) if base["canon_model"] else mres))

    def gen(ctx):
        out = list(base["generate"](ctx)) if base["generate"] else []
        return out + generate(ctx)
    g["generate"] = gen
    g["RULE"] = g.get("RULE", "") + RULE
    g["TRUSTED"] = list(g.get("TRUSTED", [])) + TRUSTED
    g["ASSUMPTIONS"] = list(g.get("ASSUMPTIONS", [])) + ASSUMPTIONS
    g["UNPROVED"] = [u for u in g.get("UNPROVED", []) if not u.startswith("pe_reader_split_independent")] + UNPROVED
    g["TIE"] = g.get("TIE", "") + "+readers(gen+corr)"
    g["TIE_THEOREM"] = g.get("TIE_THEOREM", "") + (" / Relic.Props.C09.run_split_independent, pe_reader_split_independent, "
                                                   "cab_reader_split_independent, ps_reader_split_independent, readers_generated_ok "
                                                   "(Relic.Model.Reader / ReaderProgs vs lib/authenticode, lib/cabfile)")

/-
  A syntactic class of part names and content types on which the Reference URI round trip of `checkManifest` is the
  identity: names made of slash-separated segments that are non-empty, not `.` or `..`, and contain no `?`; content types
  without a `..` segment after the first slash.
-/
import Relic.Proofs.Vsix
namespace Relic.Vsix
open Relic

/-- a path segment `path.Clean` keeps, and that cannot be mistaken for the start of the query -/
def normalSeg (s : Bytes) : Prop := s ≠ [] ∧ s ≠ [46] ∧ s ≠ [46, 46] ∧ 47 ∉ s ∧ 63 ∉ s

instance (s : Bytes) : Decidable (normalSeg s) := by unfold normalSeg; infer_instance

theorem splitOnSlash_ne_nil : ∀ b : Bytes, Jar.splitOnSlash b ≠ []
  | [] => by simp [Jar.splitOnSlash]
  | x :: r => by
    simp only [Jar.splitOnSlash]
    split
    · simp
    · split <;> simp

/-- a slash-free prefix joins the first segment of what follows -/
theorem splitOnSlash_append_noslash : ∀ (a b : Bytes), 47 ∉ a →
    Jar.splitOnSlash (a ++ b) = (a ++ (Jar.splitOnSlash b).headD []) :: (Jar.splitOnSlash b).tail
  | [], b, _ => by
    simp only [List.nil_append]
    cases h : Jar.splitOnSlash b with
    | nil => exact absurd h (splitOnSlash_ne_nil b)
    | cons x xs => simp
  | c :: a, b, hn => by
    have hc : c ≠ 47 := fun e => hn (by simp [e])
    have ha : 47 ∉ a := fun h => hn (List.mem_cons_of_mem _ h)
    have ih := splitOnSlash_append_noslash a b ha
    simp only [List.cons_append, Jar.splitOnSlash]
    have : (c == 47) = false := by simp [hc]
    rw [this, ih]
    simp

theorem splitOnSlash_slash (a b : Bytes) (hn : 47 ∉ a) : Jar.splitOnSlash (a ++ 47 :: b) = a :: Jar.splitOnSlash b := by
  rw [splitOnSlash_append_noslash a _ hn]
  simp [Jar.splitOnSlash]

theorem joinSlash_cons_ne (p : Bytes) : ∀ (l : List Bytes), l ≠ [] → Jar.joinSlash (p :: l) = p ++ 47 :: Jar.joinSlash l
  | [], h => absurd rfl h
  | _ :: _, _ => by simp [Jar.joinSlash]

/-- all segments but the last are separate; the last one joins what follows -/
theorem splitOnSlash_join : ∀ (pre : List Bytes) (last b : Bytes), (∀ s ∈ pre, 47 ∉ s) → 47 ∉ last →
    Jar.splitOnSlash (Jar.joinSlash (pre ++ [last]) ++ b) =
      pre ++ (last ++ (Jar.splitOnSlash b).headD []) :: (Jar.splitOnSlash b).tail
  | [], last, b, _, hl => by simp [Jar.joinSlash, splitOnSlash_append_noslash last b hl]
  | p :: pre, last, b, hp, hl => by
    have hp0 : 47 ∉ p := hp p List.mem_cons_self
    have ih := splitOnSlash_join pre last b (fun s hs => hp s (List.mem_cons_of_mem _ hs)) hl
    have hj : Jar.joinSlash (p :: (pre ++ [last])) = p ++ 47 :: Jar.joinSlash (pre ++ [last]) :=
      joinSlash_cons_ne p _ (by simp)
    simp only [List.cons_append] at hj ⊢
    rw [hj, List.append_assoc, List.cons_append, splitOnSlash_slash p _ hp0, ih]

theorem joinSlash_snoc_append : ∀ (pre : List Bytes) (a b : Bytes),
    Jar.joinSlash (pre ++ [a ++ b]) = Jar.joinSlash (pre ++ [a]) ++ b
  | [], a, b => by simp [Jar.joinSlash]
  | p :: pre, a, b => by
    have ih := joinSlash_snoc_append pre a b
    have h1 : ∀ x : Bytes, Jar.joinSlash (p :: (pre ++ [x])) = p ++ 47 :: Jar.joinSlash (pre ++ [x]) :=
      fun x => joinSlash_cons_ne p _ (by simp)
    simp only [List.cons_append]
    rw [h1, h1, ih]
    simp

theorem joinSlash_append_cons : ∀ (xs : List Bytes) (y : Bytes) (ys : List Bytes), xs ≠ [] →
    Jar.joinSlash (xs ++ y :: ys) = Jar.joinSlash xs ++ 47 :: Jar.joinSlash (y :: ys)
  | [], _, _, h => absurd rfl h
  | [x], y, ys, _ => by simp [Jar.joinSlash]
  | x :: x' :: xs, y, ys, _ => by
    have ih := joinSlash_append_cons (x' :: xs) y ys (by simp)
    simp only [List.cons_append] at ih ⊢
    simp only [Jar.joinSlash]
    rw [ih]
    simp [Jar.joinSlash]

theorem no63_joinSlash : ∀ (l : List Bytes), (∀ s ∈ l, 63 ∉ s) → 63 ∉ Jar.joinSlash l
  | [], _ => by simp [Jar.joinSlash]
  | [a], h => by simpa [Jar.joinSlash] using h a (by simp)
  | a :: b :: r, h => by
    have ih := no63_joinSlash (b :: r) (fun s hs => h s (List.mem_cons_of_mem _ hs))
    simp only [Jar.joinSlash, List.mem_append, List.mem_cons, not_or]
    exact ⟨h a List.mem_cons_self, by decide, ih⟩

/-- the element loop on segments it keeps -/
theorem cleanStack_normal : ∀ (segs rest st : List Bytes), (∀ s ∈ segs, s ≠ [] ∧ s ≠ [46] ∧ s ≠ [46, 46]) →
    Jar.cleanStack false (segs ++ rest) st = Jar.cleanStack false rest (segs.reverse ++ st)
  | [], _, _, _ => by simp
  | s :: segs, rest, st, h => by
    obtain ⟨h1, h2, h3⟩ := h s List.mem_cons_self
    have ih := cleanStack_normal segs rest (s :: st) (fun x hx => h x (List.mem_cons_of_mem _ hx))
    simp only [List.cons_append, Jar.cleanStack]
    have e1 : (s.isEmpty || s == [46]) = false := by
      cases s with
      | nil => exact absurd rfl h1
      | cons a r =>
        simp only [List.isEmpty_cons, Bool.false_or, beq_eq_false_iff_ne, ne_eq]
        exact h2
    have e2 : (s == Jar.dotdot) = false := by simp [Jar.dotdot, h3]
    simp only [e1, e2, Bool.false_eq_true, if_false, ih]
    simp

/-- segments that survive among the tail of a content type -/
def keptSegs (cs : List Bytes) : List Bytes := cs.filter fun c => !(c.isEmpty || c == [46])

theorem cleanStack_nodotdot : ∀ (cs st : List Bytes), [46, 46] ∉ cs →
    Jar.cleanStack false cs st = (keptSegs cs).reverse ++ st
  | [], st, _ => by simp [Jar.cleanStack, keptSegs]
  | c :: cs, st, h => by
    have hc : c ≠ [46, 46] := fun e => h (by simp [e])
    have hcs : [46, 46] ∉ cs := fun x => h (List.mem_cons_of_mem _ x)
    simp only [Jar.cleanStack]
    by_cases he : (c.isEmpty || c == [46]) = true
    · simp only [he, if_true, cleanStack_nodotdot cs st hcs, keptSegs, List.filter_cons, Bool.not_true, Bool.false_eq_true, if_false]
    · have he' : (c.isEmpty || c == [46]) = false := by simpa using he
      have e2 : (c == Jar.dotdot) = false := by simp [Jar.dotdot, hc]
      simp only [he', e2, Bool.false_eq_true, if_false, cleanStack_nodotdot cs (c :: st) hcs, keptSegs, List.filter_cons,
        Bool.not_false, if_true, List.reverse_cons, List.append_assoc, List.singleton_append]

theorem takeWhile_append_63 (x y : Bytes) (h : 63 ∉ x) : (x ++ 63 :: y).takeWhile (· ≠ 63) = x := by
  induction x with
  | nil => simp
  | cons a r ih =>
    have ha : a ≠ 63 := fun e => h (by simp [e])
    simp only [List.cons_append, List.takeWhile_cons, ne_eq, ha, not_false_eq_true, decide_true, if_true]
    rw [ih (fun hh => h (List.mem_cons_of_mem _ hh))]

/-- a name made of normal segments; `pre` may be empty -/
def SimpleName (n : Bytes) : Prop := ∃ pre last, (∀ s ∈ pre, normalSeg s) ∧ normalSeg last ∧ n = Jar.joinSlash (pre ++ [last])

/-- no `..` segment after the first slash of the content type -/
def CtOk (ct : Bytes) : Prop := [46, 46] ∉ (Jar.splitOnSlash ct).tail

instance (ct : Bytes) : Decidable (CtOk ct) := by unfold CtOk; infer_instance

/-- **the URI round trip on simple names** -/
theorem uriPath_simple (n ct : Bytes) (hn : SimpleName n) (hc : CtOk ct) : uriPath (47 :: n ++ sQueryCT ++ ct) = n := by
  obtain ⟨pre, last, hpre, hlast, rfl⟩ := hn
  have hq : 47 ∉ sQueryCT := by decide
  -- the segments of the query part
  have hsq : Jar.splitOnSlash (sQueryCT ++ ct) = (sQueryCT ++ (Jar.splitOnSlash ct).headD []) :: (Jar.splitOnSlash ct).tail :=
    splitOnSlash_append_noslash _ _ hq
  unfold CtOk at hc
  generalize hc0 : (Jar.splitOnSlash ct).headD [] = c0 at hsq
  generalize hct : (Jar.splitOnSlash ct).tail = ctail at hsq hc
  -- the string handed to path.Clean
  have hx : (46 :: 47 :: (47 :: Jar.joinSlash (pre ++ [last]) ++ sQueryCT ++ ct)) =
      [46] ++ 47 :: ([] ++ 47 :: (Jar.joinSlash (pre ++ [last]) ++ (sQueryCT ++ ct))) := by simp
  have hsplit : Jar.splitOnSlash (46 :: 47 :: (47 :: Jar.joinSlash (pre ++ [last]) ++ sQueryCT ++ ct)) =
      [46] :: [] :: (pre ++ (last ++ (sQueryCT ++ c0)) :: ctail) := by
    rw [hx, splitOnSlash_slash [46] _ (by decide), splitOnSlash_slash [] _ (by simp),
      splitOnSlash_join pre last _ (fun s hs => (hpre s hs).2.2.2.1) hlast.2.2.2.1, hsq]
    simp
  have hbig : ∀ s ∈ pre ++ [last ++ (sQueryCT ++ c0)], s ≠ [] ∧ s ≠ [46] ∧ s ≠ [46, 46] := by
    intro s hs
    rcases List.mem_append.mp hs with h | h
    · exact ⟨(hpre s h).1, (hpre s h).2.1, (hpre s h).2.2.1⟩
    · simp only [List.mem_singleton] at h
      subst h
      have hlen : 13 ≤ (last ++ (sQueryCT ++ c0)).length := by simp [sQueryCT]; omega
      refine ⟨?_, ?_, ?_⟩ <;> intro e <;> rw [e] at hlen <;> simp at hlen
  have hstack : Jar.cleanStack false ([46] :: [] :: (pre ++ (last ++ (sQueryCT ++ c0)) :: ctail)) [] =
      (keptSegs ctail).reverse ++ ((pre ++ [last ++ (sQueryCT ++ c0)]).reverse) := by
    have e0 : Jar.cleanStack false ([46] :: [] :: (pre ++ (last ++ (sQueryCT ++ c0)) :: ctail)) [] =
        Jar.cleanStack false ((pre ++ [last ++ (sQueryCT ++ c0)]) ++ ctail) [] := by
      simp [Jar.cleanStack]
    rw [e0, cleanStack_normal _ _ _ hbig, cleanStack_nodotdot _ _ hc]
    simp
  have hne : (46 :: 47 :: (47 :: Jar.joinSlash (pre ++ [last]) ++ sQueryCT ++ ct)) ≠ [] := by simp
  unfold uriPath pathJoin
  simp only [List.all_cons, List.all_nil, Bool.and_true, joinBuf]
  simp only [ne_eq, not_true_eq_false, if_false, reduceCtorEq, not_false_eq_true, if_true, decide_false, Bool.false_eq_true]
  unfold pathClean Jar.pathClean
  have h47 : ((some (46 : UInt8)) == some 47) = false := by decide
  simp only [List.isEmpty_cons, Bool.false_eq_true, if_false, List.head?_cons, h47, hsplit, hstack, List.reverse_append,
    List.reverse_reverse]
  -- the cleaned path is `name ++ "?ContentType=" ++ …`
  have hbody : ∃ y, Jar.joinSlash ((pre ++ [last ++ (sQueryCT ++ c0)]) ++ keptSegs ctail) = Jar.joinSlash (pre ++ [last]) ++ 63 :: y := by
    have hsq0 : sQueryCT ++ c0 = 63 :: (sQueryCT.drop 1 ++ c0) := by simp [sQueryCT]
    cases hk : keptSegs ctail with
    | nil =>
      rw [List.append_nil, joinSlash_snoc_append, hsq0]
      exact ⟨_, rfl⟩
    | cons y ys =>
      rw [joinSlash_append_cons _ _ _ (by simp), joinSlash_snoc_append, hsq0]
      exact ⟨(List.drop 1 sQueryCT ++ c0) ++ 47 :: Jar.joinSlash (y :: ys), by simp⟩
  obtain ⟨y, hy⟩ := hbody
  rw [hy]
  have hno : 63 ∉ Jar.joinSlash (pre ++ [last]) := by
    apply no63_joinSlash
    intro s hs
    rcases List.mem_append.mp hs with h | h
    · exact (hpre s h).2.2.2.2
    · simp only [List.mem_singleton] at h; subst h; exact hlast.2.2.2.2
  have hnonempty : (Jar.joinSlash (pre ++ [last]) ++ 63 :: y).isEmpty = false := by simp
  simp only [hnonempty, Bool.false_eq_true, if_false]
  exact takeWhile_append_63 _ _ hno

end Relic.Vsix

package csvfy

import (
	"bufio"
	"bytes"
	"crypto"
	"encoding/asn1"
	"encoding/binary"
	"fmt"
	"strings"

	"github.com/sassoftware/relic/v8/lib/pkcs7"

	"verifharness/hx"
	"verifharness/macho"
)

var emptyReqSet = []byte{0xfa, 0xde, 0x0c, 0x01, 0, 0, 0, 12, 0, 0, 0, 0}

// reqOfLen: a requirement set blob of the given length (>= 12); csblob.Sign re-wraps it without reading it
func reqOfLen(n int) []byte {
	if n < 12 {
		n = 12
	}
	b := make([]byte, n)
	copy(b, emptyReqSet)
	binary.BigEndian.PutUint32(b[4:], uint32(n))
	return b
}

func entOfLen(n int) []byte {
	if n == 0 {
		return nil
	}
	s := "<?xml version=\"1.0\"?><plist version=\"1.0\"><dict><key>k</key><string>"
	for len(s) < n {
		s += "x"
	}
	return []byte(s[:n])
}

func optHex(b []byte) string {
	if b == nil {
		return "n"
	}
	return hx.Hex(b)
}

func unOpt(s string) []byte {
	if s == "n" {
		return nil
	}
	if s == "-" {
		return []byte{}
	}
	return hx.MustUnHex(s)
}

// imgParams: small regular thin images around the page boundaries
func imgParams(r *hx.Rng) macho.Params {
	return macho.Params{
		Is64:     r.Intn(6) != 0,
		BE:       false,
		TextSize: r.Pick(4095, 4096, 4097, 8192, 8200),
		Slack:    r.Pick(16, 17, 24, 64),
		LinkEdit: r.Pick(0, 1, 7, 8, 9, 100),
		Extra:    r.Pick(0, 0, 1),
		Sections: r.Pick(1, 1, 2, 0),
	}
}

// base: a really signed image taken apart
type base struct {
	name   string
	f      []byte
	ss, sl int
	magic  uint32
	items  []item
	key    string
	hash   crypto.Hash
	info   []byte
	res    []byte
}

func takeApart(name string, f []byte, o signOpts) *base {
	ss, sl, ok := locateLC(f)
	if !ok {
		return nil
	}
	magic, items, ok := splitSuper(f[ss : ss+sl])
	if !ok {
		return nil
	}
	return &base{name: name, f: f, ss: ss, sl: sl, magic: magic, items: items, key: o.key, hash: o.hash, info: o.info, res: o.res}
}

func (b *base) dir0() []byte { return findItem(b.items, 0) }

// with: the image with the signature slot holding these items
func (b *base) with(items []item) []byte { return embed(b.f, b.ss, b.sl, joinSuper(b.magic, items)) }

type emitter struct {
	w    *bufio.Writer
	n    int
	seen map[string]bool
}

func (e *emitter) verify(mut string, prot int, f []byte, info, res []byte, skip bool) {
	if f == nil {
		return
	}
	desc := "!"
	if ss, sl, ok := locateLC(f); ok {
		desc = describeBlob(f[ss : ss+sl])
	}
	sk := "0"
	if skip {
		sk = "1"
	}
	fmt.Fprintf(e.w, "CSV verify %s %d macho %s %s %s n - %s %s\n", mut, prot, hx.Hex(f), optHex(info), optHex(res), sk, desc)
	e.n++
}

func (e *emitter) blob(mut string, prot int, blob, rep, page []byte, skip bool) {
	sk := "0"
	if skip {
		sk = "1"
	}
	fmt.Fprintf(e.w, "CSV verify %s %d blob %s n n %s %s %s %s\n", mut, prot, hx.Hex(blob), optHex(rep), hx.Hex(page), sk, describeBlob(blob))
	e.n++
}

// altered: the image with one code byte changed (inside the first section, far from the load commands)
func altered(f []byte, ss int) []byte {
	g := append([]byte(nil), f...)
	g[ss-3] ^= 0x55
	return g
}

// ---------------------------------------------------------------------------------------------------- the catalogue

// structural: mutations that keep the CMS of the signer (what anybody can do to a signed file)
func structural(e *emitter, r *hx.Rng, b *base) {
	n := b.name
	info, res := b.info, b.res
	put := func(mut string, prot int, items []item) { e.verify(n+":"+mut, prot, b.with(items), info, res, false) }
	putF := func(mut string, prot int, f []byte) { e.verify(n+":"+mut, prot, f, info, res, false) }
	d0 := b.dir0()
	cms := findItem(b.items, 0x10000)
	h0 := dirHash(d0)
	flags := binary.BigEndian.Uint32(d0[12:])
	ident := "com.example.verif"

	putF("none", 0, b.f)
	// --- the same CMS value in BER forms (Apple's own tools write indefinite lengths): the signature stays valid
	if len(cms) > 8 {
		for _, kind := range []string{"apple", "inner", "nonmin", "deep"} {
			put("cms-ber-"+kind, 0, replaced(b.items, 0x10000, wrapBlob(0xfade0b01, berVariant(cms[8:], kind))))
		}
	}
	e.verify(n+":none-skipdigests", 0, b.f, info, res, true)
	// --- code
	putF("code-flip", 1, altered(b.f, b.ss))
	e.verify(n+":code-flip-skipdigests", 0, altered(b.f, b.ss), info, res, true)
	putF("header-flip", 1, flipAt(b.f, 5))
	// --- an alternate code directory nobody vouched for, matching altered code (the downgrade / upgrade attack)
	alt := altered(b.f, b.ss)
	for _, h := range []crypto.Hash{crypto.SHA384, crypto.SHA256, crypto.SHA1} {
		for _, slot := range []uint32{0x1000, 0x1005} {
			ad := newDir(alt[:b.ss], h, flags, ident, specialsOf(b.items, info, res, nil), false)
			its := append(append([]item(nil), b.items...), item{slot, ad})
			g := embed(alt, b.ss, b.sl, joinSuper(b.magic, its))
			putF(fmt.Sprintf("alt-dir-unvouched-%d-%x-code-altered", int(h), slot), 1, g)
			if slot == 0x1000 {
				put(fmt.Sprintf("alt-dir-unvouched-%d-code-same", int(h)), 1, append(append([]item(nil), b.items...), item{slot, newDir(b.f[:b.ss], h, flags, ident, specialsOf(b.items, info, res, nil), false)}))
				// in front of the signed directory in the index (the sort brings slot 0 first anyway)
				putF(fmt.Sprintf("alt-dir-unvouched-%d-listed-first", int(h)), 1, embed(alt, b.ss, b.sl, joinSuper(b.magic, append([]item{{slot, ad}}, b.items...))))
			}
		}
	}
	// the attacker's directory INSTEAD of the signed one
	{
		ad := newDir(alt[:b.ss], h0, flags, ident, specialsOf(b.items, info, res, nil), false)
		putF("dir-replaced-code-altered", 1, embed(alt, b.ss, b.sl, joinSuper(b.magic, replaced(b.items, 0, ad))))
		// a second slot-0 item: after the stable sort the first one is signed, both are hashed into the same map entry
		putF("dir-dup-slot0-attacker-second", 1, embed(alt, b.ss, b.sl, joinSuper(b.magic, append(append([]item(nil), b.items...), item{0, ad}))))
		putF("dir-dup-slot0-attacker-first", 1, embed(alt, b.ss, b.sl, joinSuper(b.magic, append([]item{{0, ad}}, b.items...))))
		put("dir-dup-slot0-same", 1, append(append([]item(nil), b.items...), item{0, d0}))
	}
	// --- directory slot and order
	{
		moved := replaced(b.items, 0, d0)
		for k := range moved {
			if moved[k].typ == 0 {
				moved[k].typ = 0x1000
			}
		}
		put("dir-moved-to-0x1000", 0, moved) // the slot number is not bound: stated gap
		moved2 := append([]item(nil), moved...)
		for k := range moved2 {
			if moved2[k].typ == 0x1000 {
				moved2[k].typ = 0x1006 // not a directory slot: an unknown item
			}
		}
		put("dir-moved-to-0x1006", 1, moved2)
		rev := append([]item(nil), b.items...)
		for i, j := 0, len(rev)-1; i < j; i, j = i+1, j-1 {
			rev[i], rev[j] = rev[j], rev[i]
		}
		put("items-reversed", 0, rev)
	}
	put("dir-removed", 1, without(b.items, 0))
	put("dir-flag-flip", 1, replaced(b.items, 0, flipAt(d0, 15)))
	put("dir-codeslot-flip", 1, replaced(b.items, 0, flipAt(d0, len(d0)-1)))
	put("dir-ident-flip", 1, replaced(b.items, 0, flipAt(d0, 90)))
	{
		// first special slot bytes (slot −nSpecial): just behind ident/team strings
		ho := int(binary.BigEndian.Uint32(d0[16:]))
		put("dir-specialslot-flip", 1, replaced(b.items, 0, flipAt(d0, ho-1)))
	}
	// --- CMS item
	put("cms-removed", 1, without(b.items, 0x10000))
	put("cms-empty-wrapper", 1, replaced(b.items, 0x10000, wrapBlob(0xfade0b01, nil)))
	put("cms-then-empty-wrapper", 1, append(append([]item(nil), b.items...), item{0x10000, wrapBlob(0xfade0b01, nil)}))
	put("empty-wrapper-then-cms", 0, append([]item{{0x10000, wrapBlob(0xfade0b01, nil)}}, b.items...))
	put("cms-garbage", 1, replaced(b.items, 0x10000, wrapBlob(0xfade0b01, []byte("garbage-not-der"))))
	put("cms-sig-flip", 1, replaced(b.items, 0x10000, flipAt(cms, len(cms)-5)))
	// --- hashed special blobs
	for _, t := range []uint32{2, 5, 7} {
		d := findItem(b.items, t)
		if d != nil {
			put(fmt.Sprintf("blob%d-flip", t), 1, replaced(b.items, t, flipAt(d, len(d)-1)))
			put(fmt.Sprintf("blob%d-removed", t), 1, without(b.items, t))
			put(fmt.Sprintf("blob%d-truncated", t), 1, replaced(b.items, t, wrapBlob(binary.BigEndian.Uint32(d), d[8:len(d)-1])))
			bad := flipAt(d, len(d)-1)
			put(fmt.Sprintf("blob%d-dup-bad-last", t), 1, append(append([]item(nil), b.items...), item{t, bad}))
			put(fmt.Sprintf("blob%d-dup-bad-first", t), 0, append([]item{{t, bad}}, b.items...)) // shadowed: the last item wins
		} else {
			// a blob no directory binds: stated gap (special_blob_unbound_accepted)
			put(fmt.Sprintf("blob%d-added-unbound", t), 0, append(append([]item(nil), b.items...), item{t, wrapBlob(map[uint32]uint32{2: 0xfade0c01, 5: 0xfade7171, 7: 0xfade7172}[t], []byte("<plist>added</plist>"))}))
		}
	}
	if e5, e7 := findItem(b.items, 5), findItem(b.items, 7); e5 != nil && e7 != nil {
		sw := replaced(replaced(b.items, 5, e7), 7, e5)
		put("blob5-blob7-swapped", 1, sw)
	}
	// --- items relic does not interpret
	put("unknown-item-added", 0, append(append([]item(nil), b.items...), item{0x10001, wrapBlob(0xfade0c11, []byte("id"))}))
	put("unknown-item-short", 0, append(append([]item(nil), b.items...), item{0x4242, []byte{1, 2, 3, 4, 0, 0, 0, 8}}))
	put("ticket-added", 0, append(append([]item(nil), b.items...), item{0x10002, wrapBlob(0xfade0b02, []byte("ticket"))}))
	// --- superblob header
	{
		bl := joinSuper(0xfade0cc1, b.items)
		putF("magic-detached", 0, embed(b.f, b.ss, b.sl, bl))
		bl = joinSuper(0xfade0c01, b.items)
		putF("magic-other", 1, embed(b.f, b.ss, b.sl, bl))
	}
	// --- bundle parameters
	if b.info != nil {
		e.verify(n+":info-plist-altered", 1, b.f, flipAt(b.info, 3), res, false)
		e.verify(n+":info-plist-not-given", 0, b.f, nil, res, false)
		e.verify(n+":info-plist-empty", 1, b.f, []byte{}, res, false)
	} else {
		e.verify(n+":info-plist-given-unbound", 0, b.f, []byte("<plist>x</plist>"), res, false)
	}
	if b.res != nil {
		e.verify(n+":resources-altered", 1, b.f, info, flipAt(b.res, 3), false)
		e.verify(n+":resources-not-given", 0, b.f, info, nil, false)
	}
}

// resigned: variations the key holder can produce (the CMS is made anew with the test key)
func resigned(e *emitter, r *hx.Rng, b *base) {
	n := b.name
	info, res := b.info, b.res
	d0 := b.dir0()
	h0 := dirHash(d0)
	flags := binary.BigEndian.Uint32(d0[12:])
	ident := "com.example.verif"
	put := func(mut string, prot int, items []item) { e.verify(n+":"+mut, prot, b.with(items), info, res, false) }
	withCMS := func(o cmsOpts) []item { return replaced(b.items, 0x10000, mkCMS(o)) }
	std := func() cmsOpts { return stdCMS(b.key, b.hash, [][]byte{d0}) }
	dg := digestOf(h0, d0)

	put("resign-same", 0, withCMS(std()))
	// --- the plist attribute
	o := std()
	o.plist = plistXML([][]byte{dg[:20], dg[:20]})
	put("plist-extra-entry", 1, withCMS(o))
	o = std()
	o.plist = plistXML(nil)
	put("plist-empty-list", 1, withCMS(o))
	o = std()
	o.plist = plistXML([][]byte{flipAt(dg[:20], 0)})
	put("plist-hash-flip", 1, withCMS(o))
	o = std()
	o.plist = plistXML([][]byte{dg})
	put("plist-hash-untruncated", boolInt(len(dg) > 20), withCMS(o))
	o = std()
	o.plist = plistXML([][]byte{dg[:19]})
	put("plist-hash-short", 1, withCMS(o))
	o = std()
	o.plist = []byte("<?xml version=\"1.0\"?><plist version=\"1.0\"><dict><key>cdhashes</key><array><data>")
	put("plist-malformed", 1, withCMS(o))
	o = std()
	o.plist = []byte("<?xml version=\"1.0\" encoding=\"UTF-8\"?>\n<plist version=\"1.0\">\n<dict>\n<key>other</key>\n<array>\n</array>\n</dict>\n</plist>\n")
	put("plist-key-missing", 1, withCMS(o))
	o = std()
	o.plistTwo = true
	put("plist-two-values", 1, withCMS(o))
	// --- the CDHashes2 attribute
	o = std()
	o.cdh = []cdhEntry{{oidSHA256, flipAt(dg, 1)}}
	if h0 != crypto.SHA256 {
		o.cdh = []cdhEntry{{oidOfHash(h0), flipAt(dg, 1)}}
	}
	put("cdh-digest-flip", 1, withCMS(o))
	o = std()
	o.cdh = append(o.cdh, cdhEntry{oidSHA512, make([]byte, 64)})
	put("cdh-extra-alg-without-dir", 1, withCMS(o))
	o = std()
	o.cdh = append(o.cdh, cdhEntry{oidJunk, dg})
	put("cdh-unknown-oid", 1, withCMS(o))
	o = std()
	o.cdh = append([]cdhEntry{{oidMD5, make([]byte, 16)}}, o.cdh...)
	put("cdh-md5-first", 1, withCMS(o))
	o = std()
	o.cdh = append(o.cdh, o.cdh[0])
	put("cdh-entry-twice", 0, withCMS(o))
	// --- one attribute only / none: what protects alternates then
	alt := altered(b.f, b.ss)
	sp := specialsOf(b.items, info, res, nil)
	other := crypto.SHA384
	if h0 == crypto.SHA384 {
		other = crypto.SHA256
	}
	lower := crypto.SHA1
	if h0 == crypto.SHA1 {
		lower = 0
	}
	for _, v := range []struct {
		name       string
		plist, cdh bool
	}{{"only-plist", true, false}, {"only-cdh", false, true}, {"no-cdhash-attrs", false, false}} {
		o = std()
		if !v.plist {
			o.plist = nil
		}
		if !v.cdh {
			o.cdh = nil
		}
		its := withCMS(o)
		put(v.name, 0, its)
		// an unvouched alternate of a stronger type over altered code.  With the plist attribute the count catches it;
		// without it nothing did on the original code (finding F-CSV-1, repaired by 994e09d: more than one directory
		// needs the signed plist).  prot=1: it must be rejected
		ad := newDir(alt[:b.ss], other, flags, ident, sp, false)
		e.verify(n+":"+v.name+"+alt-dir-stronger-code-altered", 1, embed(alt, b.ss, b.sl, joinSuper(b.magic, append(append([]item(nil), its...), item{0x1000, ad}))), info, res, false)
		// the same type as the signed one: CDHashes2 (a map by hash function) trips over it, nothing else does
		ad = newDir(alt[:b.ss], h0, flags, ident, sp, false)
		e.verify(n+":"+v.name+"+alt-dir-sametype-code-altered", 1, embed(alt, b.ss, b.sl, joinSuper(b.magic, append(append([]item(nil), its...), item{0x1000, ad}))), info, res, false)
		if lower != 0 {
			// a weaker type: never the best directory, the pages stay bound to the signed one
			ad = newDir(alt[:b.ss], lower, flags, ident, sp, false)
			e.verify(n+":"+v.name+"+alt-dir-weaker-code-altered", 1, embed(alt, b.ss, b.sl, joinSuper(b.magic, append(append([]item(nil), its...), item{0x1000, ad}))), info, res, false)
			e.verify(n+":"+v.name+"+alt-dir-weaker-code-same", boolInt(v.plist), b.with(append(append([]item(nil), its...), item{0x1000, newDir(b.f[:b.ss], lower, flags, ident, sp, false)})), info, res, false)
		}
	}
	// --- the CMS itself
	o = std()
	o.content = flipAt(d0, 15)
	put("cms-over-other-content", 1, withCMS(o))
	o = std()
	o.embedded = true
	put("cms-embedded-content-equal", 0, withCMS(o))
	o = std()
	o.embedded = true
	o.content = flipAt(d0, 15)
	put("cms-embedded-content-other", 1, withCMS(o))
	o = std()
	o.noAttrs = true
	put("cms-no-attrs", 0, withCMS(o))
	o = std()
	o.noAttrs = true
	o.content = flipAt(d0, 15)
	put("cms-no-attrs-other-content", 1, withCMS(o))
	o = std()
	o.post = func(p *pkcs7.ContentInfoSignedData) { p.Content.SignerInfos = nil }
	put("cms-no-signers", 1, withCMS(o))
	o = std()
	o.post = func(p *pkcs7.ContentInfoSignedData) {
		p.Content.SignerInfos[0].DigestAlgorithm.Algorithm = oidJunk
	}
	put("cms-unknown-digest-alg", 1, withCMS(o))
	o = std()
	o.post = func(p *pkcs7.ContentInfoSignedData) {
		p.Content.SignerInfos[0].EncryptedDigest[3] ^= 1
	}
	put("cms-signature-flip", 1, withCMS(o))
	o = std()
	o.post = func(p *pkcs7.ContentInfoSignedData) { p.Content.Certificates = nil }
	put("cms-no-certificates", 1, withCMS(o))
	for i, oid := range []asn1.ObjectIdentifier{oidTSToken, oidSpcTSToken, oidCounterSign} {
		o = std()
		oid := oid
		o.post = func(p *pkcs7.ContentInfoSignedData) {
			_ = p.Content.SignerInfos[0].UnauthenticatedAttributes.Add(oid, 5) // an INTEGER where a token / signer info belongs
		}
		put(fmt.Sprintf("cms-undecodable-timestamp-%d", i), 0, withCMS(o))
	}
	{
		// two signer infos: both are verified, the attributes of the LAST one (in the order of the DER SET, which
		// encoding/asn1 sorts) are read: stated gap when the other one lists something else
		good := std()
		bad := std()
		bad.plist = plistXML([][]byte{flipAt(dg[:20], 0)})
		var second pkcs7.SignerInfo
		bad.post = func(p *pkcs7.ContentInfoSignedData) { second = p.Content.SignerInfos[0] }
		mkCMS(bad)
		good.post = func(p *pkcs7.ContentInfoSignedData) { p.Content.SignerInfos = append(p.Content.SignerInfos, second) }
		its := withCMS(good)
		desc := describeBlob(joinSuper(b.magic, its))
		lastGood := strings.HasSuffix(desc, "p="+hx.Hex(dg[:20])) // one CMS item: the description ends with the last signer info
		put("cms-two-signers-one-bad-plist", boolInt(!lastGood), its)
	}
	// --- directories the key holder signs that bind less
	code := b.f[:b.ss]
	redo := func(mut string, prot int, f []byte, d []byte) {
		its := replaced(b.items, 0, d)
		its = replaced(its, 0x10000, mkCMS(stdCMS(b.key, b.hash, [][]byte{d})))
		e.verify(n+":"+mut, prot, embed(f, b.ss, b.sl, joinSuper(b.magic, its)), info, res, false)
	}
	setU32 := func(d []byte, off int, v uint32) []byte {
		c := append([]byte(nil), d...)
		binary.BigEndian.PutUint32(c[off:], v)
		return c
	}
	full := newDir(code, h0, flags, ident, sp, false)
	redo("redo-same", 0, b.f, full)
	// no code slots at all: nothing binds the code (stated gap: the slot count is the signer's statement)
	redo("redo-zero-code-slots", 0, alt, setU32(full, 28, 0))
	// code limit one page short with all slots: the last slot meets remaining <= 0
	if b.ss > 4096 {
		redo("redo-codelimit-short-all-slots", 0, b.f, setU32(full, 32, 4096))
		// one slot, limit 4096: the tail is outside (stated gap macho_outside_codeLimit)
		short := newDir(code[:4096], h0, flags, ident, sp, false)
		redo("redo-limit-4096-tail-altered", 0, alt, short)
	}
	redo("redo-codelimit-beyond-file", 0, b.f, setU32(full, 32, uint32(len(b.f)+4096)))
	{
		c := append([]byte(nil), full...)
		c[39] = 25
		redo("redo-pageshift-25", 0, b.f, c)
		c = append([]byte(nil), full...)
		c[39] = 13
		redo("redo-pageshift-13", 0, b.f, c)
		c = append([]byte(nil), full...)
		c[39] = 0
		redo("redo-pageshift-0-many-slots", 0, b.f, c)
	}
	redo("redo-single-page", 0, b.f, newDir(code, h0, flags, ident, sp, true))
	redo("redo-single-page-code-altered", 1, alt, newDir(code, h0, flags, ident, sp, true))
	{
		// an all-zero code slot is nil after parsing: never equal
		ho := int(binary.BigEndian.Uint32(full[16:]))
		c := append([]byte(nil), full...)
		for i := ho; i < ho+h0.Size(); i++ {
			c[i] = 0
		}
		redo("redo-zero-code-slot", 0, b.f, c)
		// an all-zero special slot is "absent": the blob is then unbound
		if findItem(b.items, 2) != nil {
			c = append([]byte(nil), full...)
			for i := ho - 2*h0.Size(); i < ho-h0.Size(); i++ {
				c[i] = 0
			}
			its := replaced(b.items, 0, c)
			its = replaced(its, 0x10000, mkCMS(stdCMS(b.key, b.hash, [][]byte{c})))
			req := findItem(b.items, 2)
			its = replaced(its, 2, flipAt(req, len(req)-1))
			e.verify(n+":redo-zero-req-slot-req-altered", 0, b.with(its), info, res, false)
		}
	}
	// rep-specific slot bound in a Mach-O: machos.Verify passes no rep-specific data
	redo("redo-rep-specific-bound", 0, b.f, newDir(code, h0, flags, ident, specialsOf(b.items, info, res, []byte("koly")), false))
}

func boolInt(b bool) int {
	if b {
		return 1
	}
	return 0
}

// twoDirs: an Apple-style signature with a SHA-1 directory in slot 0 and a SHA-256 alternate, both vouched for
func twoDirs(e *emitter, r *hx.Rng, b *base) {
	n := b.name + "-2dirs"
	info, res := b.info, b.res
	d0 := b.dir0()
	flags := binary.BigEndian.Uint32(d0[12:])
	ident := "com.example.verif"
	sp := specialsOf(b.items, info, res, nil)
	code := b.f[:b.ss]
	a := newDir(code, crypto.SHA1, flags, ident, sp, false)
	c := newDir(code, crypto.SHA256, flags, ident, sp, false)
	rest := without(without(b.items, 0), 0x10000)
	mk := func(dirs []item, cms []byte) []item {
		return append(append(append([]item(nil), dirs...), rest...), item{0x10000, cms})
	}
	cmsAC := mkCMS(stdCMS(b.key, crypto.SHA256, [][]byte{a, c}))
	put := func(mut string, prot int, f []byte, items []item) {
		e.verify(n+":"+mut, prot, embed(f, b.ss, b.sl, joinSuper(b.magic, items)), info, res, false)
	}
	alt := altered(b.f, b.ss)
	put("none", 0, b.f, mk([]item{{0, a}, {0x1000, c}}, cmsAC))
	put("code-flip", 1, alt, mk([]item{{0, a}, {0x1000, c}}, cmsAC))
	put("alt-removed", 1, b.f, mk([]item{{0, a}}, cmsAC)) // stripping the stronger directory
	put("primary-removed", 1, b.f, mk([]item{{0x1000, c}}, cmsAC))
	put("slots-swapped", 1, b.f, mk([]item{{0, c}, {0x1000, a}}, cmsAC))
	put("alt-in-slot-0x1003", 0, b.f, mk([]item{{0, a}, {0x1003, c}}, cmsAC))
	put("alt-listed-first", 0, b.f, mk([]item{{0x1000, c}, {0, a}}, cmsAC))
	// the alternate replaced by the attacker's over altered code
	ac := newDir(alt[:b.ss], crypto.SHA256, flags, ident, sp, false)
	put("alt-replaced-code-altered", 1, alt, mk([]item{{0, a}, {0x1000, ac}}, cmsAC))
	// a third, stronger, unvouched one
	a384 := newDir(alt[:b.ss], crypto.SHA384, flags, ident, sp, false)
	put("third-dir-unvouched-code-altered", 1, alt, mk([]item{{0, a}, {0x1000, c}, {0x1001, a384}}, cmsAC))
	// the vouched alternate twice: map by hash function, count 3 vs 2
	put("alt-twice", 1, b.f, mk([]item{{0, a}, {0x1000, c}, {0x1001, c}}, cmsAC))
	// weaker primary altered only: pages are checked against the best (SHA-256) directory, the CMS binds the SHA-1 one
	aBad := newDir(alt[:b.ss], crypto.SHA1, flags, ident, sp, false)
	put("primary-replaced", 1, b.f, mk([]item{{0, aBad}, {0x1000, c}}, cmsAC))
	// the signer lists the hashes in the other order / lists only one
	o := stdCMS(b.key, crypto.SHA256, [][]byte{a, c})
	dga, dgc := digestOf(crypto.SHA1, a), digestOf(crypto.SHA256, c)
	o.plist = plistXML([][]byte{dgc[:20], dga[:20]})
	put("plist-order-swapped", 0, b.f, mk([]item{{0, a}, {0x1000, c}}, mkCMS(o)))
	o = stdCMS(b.key, crypto.SHA256, [][]byte{a, c})
	o.plist = plistXML([][]byte{dga[:20]})
	put("plist-lists-primary-only", 1, b.f, mk([]item{{0, a}, {0x1000, c}}, mkCMS(o)))
	o = stdCMS(b.key, crypto.SHA256, [][]byte{a, c})
	o.cdh = o.cdh[:1]
	put("cdh-lists-primary-only", 0, b.f, mk([]item{{0, a}, {0x1000, c}}, mkCMS(o)))
	o = stdCMS(b.key, crypto.SHA256, [][]byte{a, c})
	o.cdh = []cdhEntry{o.cdh[1], o.cdh[0]}
	put("cdh-order-swapped", 0, b.f, mk([]item{{0, a}, {0x1000, c}}, mkCMS(o)))
	// two directories of the SAME hash type, both listed by a (careless) signer: the map keeps the last one, so the
	// listed pair must be (last, last) — the first position then vouches for nothing: stated gap plist_same_alg
	c2 := newDir(code, crypto.SHA256, flags|0x100, ident, sp, false)
	o = stdCMS(b.key, crypto.SHA256, [][]byte{c, c2})
	put("same-alg-pair-listed-as-signed", 0, b.f, mk([]item{{0, c}, {0x1000, c2}}, mkCMS(o)))
	dg2 := digestOf(crypto.SHA256, c2)
	o = stdCMS(b.key, crypto.SHA256, [][]byte{c, c2})
	o.plist = plistXML([][]byte{dg2[:20], dg2[:20]})
	o.cdh = o.cdh[1:]
	put("same-alg-pair-listed-last-twice", 0, b.f, mk([]item{{0, c}, {0x1000, c2}}, mkCMS(o)))
	// stated gap same_alg_unvouched_directory_accepted: a signer that lists its SHA-256 digest TWICE lets an attacker's
	// SHA-256 directory (over altered code) sit between the primary and the signer's alternate: position 2 of the list
	// is compared with computed[SHA-256] = the LAST SHA-256 directory, the middle one is covered by nothing and is bestDir
	o = stdCMS(b.key, crypto.SHA256, [][]byte{a, c})
	o.plist = plistXML([][]byte{dga[:20], dgc[:20], dgc[:20]})
	put("same-alg-middle-dir-unvouched-list-repeats", 0, alt, mk([]item{{0, a}, {0x1000, ac}, {0x1001, c}}, mkCMS(o)))
	// the same superblob under the signer's ordinary list: count 3 vs 2
	put("same-alg-middle-dir-unvouched", 1, alt, mk([]item{{0, a}, {0x1000, ac}, {0x1001, c}}, cmsAC))
}

// blobMode: csblob.Verify + VerifyPages as lib/fruit/dmg uses them (rep-specific parameter, one page)
func blobMode(e *emitter, r *hx.Rng) {
	page := r.Bytes(r.Pick(1, 100, 4096, 5000))
	rep := r.Bytes(512)
	for _, h := range []crypto.Hash{crypto.SHA256, crypto.SHA1, crypto.SHA384} {
		n := fmt.Sprintf("blob-%d", int(h))
		req := wrapBlob(0xfade0c01, emptyReqSet[8:])
		its := []item{{2, req}}
		d := newDir(page, h, 0, "dmg.ident", specialsOf(its, nil, nil, rep), true)
		mk := func(d []byte) []byte {
			return joinSuper(0xfade0cc0, []item{{0, d}, {2, req}, {0x10000, mkCMS(stdCMS("rsa", h, [][]byte{d}))}})
		}
		e.blob(n+":none", 0, mk(d), rep, page, false)
		e.blob(n+":page-flip", 1, mk(d), rep, flipAt(page, 0), false)
		e.blob(n+":page-flip-skipdigests", 0, mk(d), rep, flipAt(page, 0), true)
		e.blob(n+":page-longer", 1, mk(d), rep, append(append([]byte(nil), page...), 0), false)
		e.blob(n+":page-shorter", 1, mk(d), rep, page[:len(page)-1], false)
		e.blob(n+":rep-flip", 1, mk(d), flipAt(rep, 7), page, false)
		e.blob(n+":rep-nil", 1, mk(d), nil, page, false)
		e.blob(n+":rep-unbound", 0, mk(newDir(page, h, 0, "dmg.ident", specialsOf(its, nil, nil, nil), true)), flipAt(rep, 7), page, false)
		// paged directory over the same reader (not cut at the code size)
		pd := newDir(page, h, 0, "dmg.ident", specialsOf(its, nil, nil, rep), false)
		e.blob(n+":paged", 0, mk(pd), rep, page, false)
		e.blob(n+":paged-reader-longer", 0, mk(pd), rep, append(append([]byte(nil), page...), 1, 2, 3), false)
		e.blob(n+":paged-reader-shorter", 1, mk(pd), rep, page[:len(page)-1], false)
	}
}

// fuzzOps: random corruption of really signed images outside the CMS item (the PKCS#7 layer has its own model)
func fuzzOps(e *emitter, r *hx.Rng, b *base, count int) {
	// positions: superblob header and index, directory header fields, special blobs
	var cmsLo, cmsHi int
	off := 12 + 8*len(b.items)
	var spans [][2]int
	for _, it := range b.items {
		if it.typ == 0x10000 {
			cmsLo, cmsHi = b.ss+off, b.ss+off+len(it.data)
		} else {
			spans = append(spans, [2]int{b.ss + off, b.ss + off + len(it.data)})
		}
		off += len(it.data)
	}
	blobEnd := b.ss + off
	for k := 0; k < count; k++ {
		g := append([]byte(nil), b.f...)
		nm := 1 + r.Intn(2)
		var desc []string
		for m := 0; m < nm; m++ {
			var q int
			switch r.Intn(5) {
			case 0:
				q = b.ss + r.Intn(12+8*len(b.items))
			case 1, 2:
				sp := spans[r.Intn(len(spans))]
				q = sp[0] + r.Intn(min(sp[1]-sp[0], 100))
			case 3:
				sp := spans[r.Intn(len(spans))]
				q = sp[0] + r.Intn(sp[1]-sp[0])
			default:
				q = b.ss + r.Intn(blobEnd-b.ss)
			}
			if q >= cmsLo && q < cmsHi {
				continue
			}
			// nCodeSlots / nSpecialSlots upper bytes size allocations before any check (listed F12-abort): leave them
			skip := false
			o2 := 12 + 8*len(b.items)
			for _, it := range b.items {
				if isDirSlot(it.typ) {
					d := b.ss + o2
					if q >= d+24 && q < d+31 && q != d+27 {
						skip = true
					}
				}
				o2 += len(it.data)
			}
			if skip {
				continue
			}
			v := byte(r.U64())
			switch r.Intn(4) {
			case 0:
				v = 0
			case 1:
				v = 0xff
			case 2:
				v = g[q] ^ byte(1<<uint(r.Intn(8)))
			}
			g[q] = v
			desc = append(desc, fmt.Sprintf("%d=%02x", q-b.ss, v))
		}
		if len(desc) == 0 || bytes.Equal(g, b.f) {
			continue
		}
		e.verify(b.name+":fuzz:"+strings.Join(desc, "+"), 0, g, b.info, b.res, false)
	}
}

// bases: really signed images with different hash types and hashed items
func bases(r *hx.Rng, n int) []*base {
	var out []*base
	variants := []signOpts{
		{hash: crypto.SHA256, flags: 0x10000, ident: "com.example.verif", req: emptyReqSet, key: "rsa"},
		{hash: crypto.SHA256, flags: 0x10000, ident: "com.example.verif", req: emptyReqSet, ent: []byte("<plist><dict><key>a</key><true/></dict></plist>"), entDER: []byte{0x70, 3, 1, 2, 3}, key: "p256"},
		{hash: crypto.SHA1, flags: 0, ident: "com.example.verif", req: emptyReqSet, key: "rsa"},
		{hash: crypto.SHA384, flags: 0x10000, ident: "com.example.verif", req: emptyReqSet, ent: []byte("<plist/>"), key: "rsa"},
		{hash: crypto.SHA256, flags: 0x10000, ident: "com.example.verif", req: emptyReqSet, info: []byte("<plist><dict><key>CFBundleIdentifier</key><string>com.example.verif</string></dict></plist>"), res: []byte("<plist><dict><key>files</key><dict/></dict></plist>"), key: "rsa"},
	}
	for i := 0; i < n; i++ {
		o := variants[i%len(variants)]
		f := macho.Build(r, imgParams(r), nil)
		s, err := signImg(f, o)
		if err != nil {
			continue
		}
		if b := takeApart(fmt.Sprintf("b%d", i), s, o); b != nil && b.dir0() != nil && findItem(b.items, 0x10000) != nil {
			out = append(out, b)
		}
	}
	return out
}

// history ops: re-signing rounds with growing signature slots
func genHistory(e *emitter, r *hx.Rng, n int) {
	rounds := []string{
		"3:0:12,5:0:12,6:0:12,6:0:12",    // SHA-1 → SHA-256 → SHA-384 → SHA-384
		"5:0:12,5:300:12,5:300:12,6:0:12", // entitlements added on re-sign; then dropped from the parameters (copied from the old signature)
		"5:0:12,5:0:200,6:500:200",        // requirements grow, then entitlements
		"6:0:12,5:0:12,3:0:12",            // shrinking estimates: the slot is reused
		"3:0:12,6:0:12,6:100:12,6:100:400,6:100:400",
	}
	for i := 0; i < n; i++ {
		p := imgParams(r)
		if i%2 == 1 {
			p.TextSize = r.Pick(8192, 12288, 16384, 20000)
		}
		f := macho.Build(r, p, nil)
		fmt.Fprintf(e.w, "CSV history %s %s\n", hx.Hex(f), rounds[i%len(rounds)])
		e.n++
	}
}

// wrapper ops: verifyFat / verifyIPA on thin and fat executables of a bundle
func genWrap(e *emitter, r *hx.Rng, positiveOnly bool) {
	info := []byte("<?xml version=\"1.0\" encoding=\"UTF-8\"?>\n<plist version=\"1.0\"><dict><key>CFBundleExecutable</key><string>app</string><key>CFBundleIdentifier</key><string>com.example.verif</string></dict></plist>\n")
	res := []byte("<plist><dict><key>files</key><dict/></dict></plist>")
	o := signOpts{hash: crypto.SHA256, flags: 0x10000, ident: "com.example.verif", req: emptyReqSet, info: info, res: res, key: "rsa"}
	var slices [][]byte
	for len(slices) < 2 {
		p := imgParams(r)
		p.TextSize = 4096
		p.Is64 = len(slices) == 0
		img := macho.Build(r, p, nil)
		if len(slices) == 1 { // another architecture: debug/macho refuses a fat file with the same cpu twice
			binary.LittleEndian.PutUint32(img[4:], 0x0100000c)
			binary.LittleEndian.PutUint32(img[8:], 0)
		}
		s, err := signImg(img, o)
		if err != nil {
			return
		}
		slices = append(slices, s)
	}
	desc := func(f []byte) string {
		ss, sl, _ := locateLC(f)
		return describeBlob(f[ss : ss+sl])
	}
	emit := func(mut string, prot int, fat bool, info, res []byte, sl ...[]byte) {
		if positiveOnly && !strings.HasSuffix(mut, ":none") {
			return
		}
		var parts []string
		for _, s := range sl {
			parts = append(parts, hx.Hex(s), desc(s))
		}
		fmt.Fprintf(e.w, "CSV wrap %s %d %d %s %s %s\n", mut, prot, boolInt(fat), optHex(info), optHex(res), strings.Join(parts, " "))
		e.n++
	}
	emit("thin:none", 0, false, info, res, slices[0])
	emit("thin:info-plist-altered", 1, false, bytes.Replace(info, []byte("com.example.verif"), []byte("com.example.verig"), 1), res, slices[0])
	emit("thin:resources-altered", 1, false, info, flipAt(res, 20), slices[0])
	ss0, _, _ := locateLC(slices[0])
	emit("thin:code-flip", 1, false, info, res, altered(slices[0], ss0))
	emit("fat1:none", 0, true, info, res, slices[0])
	emit("fat2:none", 0, true, info, res, slices[0], slices[1])
	// finding F-CSV-2 (repaired by 91159af): the original code did not check the bundle's Info.plist / CodeResources for
	// the slices of a fat executable
	emit("fat1:info-plist-altered", 1, true, bytes.Replace(info, []byte("com.example.verif"), []byte("com.example.verig"), 1), res, slices[0])
	emit("fat2:resources-altered", 1, true, info, flipAt(res, 20), slices[0], slices[1])
	ss, _, _ := locateLC(slices[1])
	emit("fat2:second-slice-code-flip", 1, true, info, res, slices[0], altered(slices[1], ss))
}

// Gen writes the CSV ops of a property.
func Gen(w *bufio.Writer, seed uint64, tier string, prop string) {
	r := hx.NewRng(seed ^ 0x435356)
	thorough := tier == "thorough"
	pick := func(q, t int) int {
		if thorough {
			return t
		}
		return q
	}
	e := &emitter{w: w}
	switch prop {
	case "C02":
		bs := bases(r, pick(5, 20))
		for i, b := range bs {
			structural(e, r, b)
			if i < pick(3, 10) {
				resigned(e, r, b)
			}
			if i%5 == 1 || i%5 == 2 {
				twoDirs(e, r, b)
			}
			fuzzOps(e, r, b, pick(6, 60))
		}
		blobMode(e, r)
		genWrap(e, r, false)
	case "C01":
		// sign → verify: what relic's signer writes is accepted by the decision model and by the verifier
		for _, b := range bases(r, pick(5, 20)) {
			e.verify(b.name+":none", 0, b.f, b.info, b.res, false)
			e.verify(b.name+":resign-same", 0, b.with(replaced(b.items, 0x10000, mkCMS(stdCMS(b.key, b.hash, [][]byte{b.dir0()})))), b.info, b.res, false)
		}
		genWrap(e, r, true)
		genHistory(e, r, pick(2, 10))
	case "C08":
		genHistory(e, r, pick(6, 40))
	case "C11":
		for _, b := range bases(r, pick(3, 15)) {
			fuzzOps(e, r, b, pick(40, 400))
		}
	}
}

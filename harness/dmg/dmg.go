// Package dmg: synthetic UDIF (Apple disk image) generator and implementation runner for the DMG model
// (lib/fruit/dmg, signers/dmg on top of lib/fruit/csblob).
package dmg

import (
	"bufio"
	"bytes"
	"context"
	"crypto"
	_ "crypto/sha1"
	_ "crypto/sha256"
	_ "crypto/sha512"
	"encoding/binary"
	"errors"
	"fmt"
	"io"
	"os"
	"path/filepath"
	"runtime"
	"strconv"
	"strings"
	"sync"

	"github.com/sassoftware/relic/v8/lib/fruit/csblob"
	rdmg "github.com/sassoftware/relic/v8/lib/fruit/dmg"
	"github.com/sassoftware/relic/v8/signers"

	"verifharness/hx"
	"verifharness/sg"
)

// ---------------------------------------------------------------------------------------------- images

// Params of a synthetic image.  relic never looks inside the forks or the plist: they are opaque byte ranges
// described by the trailer.
type Params struct {
	Data     int  // data fork length
	Rsrc     int  // resource fork length
	XML      int  // plist length
	Layout   int  // 0: data | rsrc | plist (what hdiutil writes)   1: plist | data | rsrc   2: no plist (XMLOffset = XMLLength = 0)
	Gap      int  // stray bytes in front of the trailer
	Reserved bool // non-zero bytes in the blank ranges of the trailer
	Old      int  // 0 unsigned   1 ad-hoc style signature (no CMS)   2 SignatureOffset set, SignatureLength zero
	OldHash  crypto.Hash
	OldEnt   bool // old signature carries entitlements
}

const (
	offXML  = 216
	offSig  = 296
	offSigL = 304
)

var emptyReqSet = []byte{0xfa, 0xde, 0x0c, 0x01, 0, 0, 0, 12, 0, 0, 0, 0}

func plist(r *hx.Rng, n int) []byte {
	head := []byte("<?xml version=\"1.0\" encoding=\"UTF-8\"?>\n<plist version=\"1.0\"><dict><key>resource-fork</key><dict><key>blkx</key><array>")
	tail := []byte("</array></dict></dict></plist>\n")
	out := make([]byte, 0, n)
	out = append(out, head...)
	for len(out)+len(tail) < n {
		out = append(out, "ABCDEFGHIJKLMNOPQRSTUVWXYZabcdefghijklmnopqrstuvwxyz0123456789+/\n"[r.Intn(65)])
	}
	out = append(out, tail...)
	if len(out) > n {
		out = out[len(out)-n:]
	}
	return out
}

// trailer writes the 512-byte koly block.
func trailer(r *hx.Rng, dfo, dfl, rfo, rfl, xo, xl, so, sl int64, reserved bool) []byte {
	t := make([]byte, 512)
	copy(t, "koly")
	be := binary.BigEndian
	be.PutUint32(t[4:], 4)
	be.PutUint32(t[8:], 512)
	be.PutUint32(t[12:], 1)
	be.PutUint64(t[24:], uint64(dfo))
	be.PutUint64(t[32:], uint64(dfl))
	be.PutUint64(t[40:], uint64(rfo))
	be.PutUint64(t[48:], uint64(rfl))
	be.PutUint32(t[56:], 1)
	be.PutUint32(t[60:], 1)
	copy(t[64:80], r.Bytes(16))
	be.PutUint32(t[80:], 2)
	be.PutUint32(t[84:], 32)
	copy(t[88:92], r.Bytes(4))
	be.PutUint64(t[offXML:], uint64(xo))
	be.PutUint64(t[offXML+8:], uint64(xl))
	be.PutUint64(t[offSig:], uint64(so))
	be.PutUint64(t[offSigL:], uint64(sl))
	be.PutUint32(t[352:], 2)
	be.PutUint32(t[356:], 32)
	copy(t[360:364], r.Bytes(4))
	be.PutUint32(t[488:], 1)
	be.PutUint64(t[492:], uint64((dfl+511)/512))
	if reserved {
		copy(t[232:296], r.Bytes(64))
		copy(t[312:352], r.Bytes(40))
		copy(t[500:512], r.Bytes(12))
	}
	return t
}

// FakeSig builds a parseable embedded signature without CMS over `pages` with the rep-specific slot over `rep`.
func FakeSig(pages, rep []byte, hash crypto.Hash, ent []byte) []byte {
	slots, n, lim, _ := csblob.VerifHashPages(hash, bytes.NewReader(pages), true)
	reqItem := csblob.VerifMarshalSuper(0, []csblob.VerifSuperItem{{Magic: 0xfade0c01, Data: emptyReqSet[8:]}}, []bool{true})[20:]
	var entItem []byte
	if ent != nil {
		entItem = csblob.VerifMarshalSuper(0, []csblob.VerifSuperItem{{Magic: 0xfade7171, Data: ent}}, []bool{true})[20:]
	}
	raw, _, err := csblob.VerifNewCodeDirectory(csblob.VerifCodeDirParams{
		Flags: 0x100, SigningIdentity: "old.image", Specials: [][]byte{rep, entItem, nil, nil, reqItem, nil},
		CodeSlots: slots, CodeSlotCount: n, HashFunc: hash, CodeLimit: lim, SinglePage: true,
	})
	if err != nil {
		panic(err)
	}
	items := []csblob.VerifSuperItem{{Magic: 0xfade0c02, IType: 0, Data: raw}, {Magic: 0xfade0c01, IType: 2, Data: reqItem}}
	wrap := []bool{false, false}
	if ent != nil {
		items = append(items, csblob.VerifSuperItem{Magic: 0xfade7171, IType: 5, Data: entItem})
		wrap = append(wrap, false)
	}
	items = append(items, csblob.VerifSuperItem{Magic: 0xfade0b01, Data: nil})
	wrap = append(wrap, true)
	return csblob.VerifMarshalSuper(0xfade0cc0, items, wrap)
}

// Build assembles an image.
func Build(r *hx.Rng, p Params) []byte {
	data, rsrc := r.Bytes(p.Data), r.Bytes(p.Rsrc)
	var xml []byte
	if p.Layout != 2 {
		xml = plist(r, p.XML)
	}
	var body []byte
	var dfo, rfo, xo int64
	switch p.Layout {
	case 1:
		body = append(append(append(body, xml...), data...), rsrc...)
		dfo, rfo = int64(len(xml)), int64(len(xml)+len(data))
	default:
		body = append(append(append(body, data...), rsrc...), xml...)
		rfo, xo = int64(len(data)), int64(len(data)+len(rsrc))
	}
	if len(rsrc) == 0 {
		rfo = 0
	}
	if p.Layout == 2 {
		xo = 0
	}
	bundle := xo + int64(len(xml))
	var so, sl int64
	var sig []byte
	switch p.Old {
	case 1:
		so = bundle
		seedT := r.U64()
		t0 := trailer(hx.NewRng(seedT), dfo, int64(len(data)), rfo, int64(len(rsrc)), xo, int64(len(xml)), so, 0, p.Reserved)
		k, err := rdmg.VerifParseKoly(t0)
		if err != nil {
			panic(err)
		}
		var ent []byte
		if p.OldEnt {
			ent = []byte("<plist/>")
		}
		pages := body
		if int(bundle) < len(pages) {
			pages = pages[:bundle]
		}
		sig = FakeSig(pages, k.ForHashing, p.OldHash, ent)
		sl = int64(len(sig))
		t := trailer(hx.NewRng(seedT), dfo, int64(len(data)), rfo, int64(len(rsrc)), xo, int64(len(xml)), so, sl, p.Reserved)
		out := append(append([]byte{}, body...), sig...) // layout 0 only: the bundle is the whole body
		out = append(out, r.Bytes(p.Gap)...)
		return append(out, t...)
	case 2:
		so = bundle
	}
	t := trailer(r, dfo, int64(len(data)), rfo, int64(len(rsrc)), xo, int64(len(xml)), so, sl, p.Reserved)
	out := append(body, r.Bytes(p.Gap)...)
	return append(out, t...)
}

// Regular: data | plist | (signature) | trailer with nothing else.
func regular(r *hx.Rng) Params {
	return Params{
		Data: r.Pick(0, 1, 511, 512, 513, 4095, 4096, 4097, 8191, 8192, 700+r.Intn(9000)),
		XML:  r.Pick(150, 151, 511, 512, 513, 200+r.Intn(3000)),
		Rsrc: r.Pick(0, 0, 0, 0, 64),
	}
}

func anyParams(r *hx.Rng) Params {
	p := regular(r)
	p.Layout = r.Pick(0, 0, 0, 0, 1, 2)
	p.Gap = r.Pick(0, 0, 0, 1, 7, 512)
	p.Reserved = r.Intn(3) == 0
	p.Old = r.Pick(0, 0, 0, 1, 1, 2)
	p.OldHash = []crypto.Hash{crypto.SHA256, crypto.SHA256, crypto.SHA1, crypto.SHA384}[r.Intn(4)]
	p.OldEnt = r.Intn(4) == 0
	if p.Layout == 2 && p.Rsrc == 0 {
		p.Rsrc = 64 // an image without plist keeps its block map in the resource fork
	}
	if p.Layout != 0 && p.Old == 1 {
		p.Old = r.Pick(0, 2) // an existing signature is generated for the regular layout only
	}
	return p
}

var keys = []string{"p256", "rsa", "p384", "p521"}

func fixture() []byte {
	repo := os.Getenv("VERIF_REPO")
	if repo == "" {
		repo = "/repo"
	}
	b, err := os.ReadFile(filepath.Join(repo, "functest", "packages", "dummy.dmg"))
	if err != nil {
		return nil
	}
	return b
}

func signOp(w *bufio.Writer, r *hx.Rng, f []byte, t string) {
	req := hx.Hex(emptyReqSet)
	switch r.Intn(14) {
	case 0:
		req = hx.Hex(append([]byte{0xfa, 0xde, 0x0c, 0x00, 0, 0, 0, 16}, r.Bytes(8)...)) // a single requirement
	case 1:
		req = hx.Hex(r.Bytes(r.Pick(3, 8, 12))) // refused
	}
	fmt.Fprintf(w, "DMG sign %s %s %d %s %s %s %d\n", hx.Hex(f), t, r.Pick(5, 5, 5, 5, 5, 5, 3, 3, 6, 6, 6, 7), hx.Hex([]byte("com.example.image")), req,
		keys[r.Intn(len(keys))], r.Intn(2))
}

// signReal: dmg.Sign + the binpatch glue in memory-backed temp files; the result must verify.
func signReal(f []byte, key string, hash crypto.Hash) ([]byte, error) {
	res := runSign(f, f[max(0, len(f)-512):], hash, "com.example.image", emptyReqSet, key, false)
	if res.err != nil {
		return nil, res.err
	}
	if res.verify != "ok" {
		return nil, fmt.Errorf("verify after sign: %s", res.verify)
	}
	return res.out, nil
}

func genImages(w *bufio.Writer, r *hx.Rng, n int, irregular bool) {
	for i := 0; i < n; i++ {
		p := regular(r)
		if irregular {
			p = anyParams(r)
		} else {
			p.Reserved = r.Intn(4) == 0
			p.Old = r.Pick(0, 0, 1)
			p.OldHash = []crypto.Hash{crypto.SHA256, crypto.SHA1, crypto.SHA384}[r.Intn(3)]
			p.OldEnt = r.Intn(3) == 0
		}
		signOp(w, r, Build(r, p), "=")
	}
}

func setU64(f []byte, off int, v uint64) []byte {
	g := append([]byte{}, f...)
	binary.BigEndian.PutUint64(g[len(g)-512+off:], v)
	return g
}

// entries the patch builder would append for this trailer (computed independently of relic: keeps the sign ops tame)
func tame(f []byte) bool {
	if len(f) < 512 {
		return true
	}
	t := f[len(f)-512:]
	bundle := int64(binary.BigEndian.Uint64(t[offXML:]) + binary.BigEndian.Uint64(t[offXML+8:]))
	old := int64(len(f)) - bundle
	if old > 3*4294967295 {
		return false
	}
	// a signature offset far behind the end makes Apply seek; harmless, but 4 GiB sparse writes are not wanted
	return bundle < int64(len(f))+(1<<31)
}

// genMalformed: every trailer field the code interprets moved through its boundaries, truncations, damaged blobs
func genMalformed(w *bufio.Writer, r *hx.Rng, n int) {
	for i := 0; i < n; i++ {
		p := anyParams(r)
		p.Data = r.Pick(0, 1, 100, 600)
		p.XML = r.Pick(150, 300)
		f := Build(r, p)
		if p.Old != 1 && r.Bool() {
			if s, err := signReal(f, keys[r.Intn(2)], crypto.SHA256); err == nil {
				f = s
			}
		}
		L := uint64(len(f))
		vals := []uint64{0, 1, 2, 8, 511, 512, 513, L - 513, L - 512, L - 511, L - 1, L, L + 1, L / 2, 1<<31 - 1, 1 << 31, 1<<32 - 1, 1 << 32,
			9999999, 10000000, 10000001, 1<<63 - 1, 1 << 63, 1<<63 + 1, ^uint64(0) - 511, ^uint64(0), ^uint64(0) - L + 1, r.U64()}
		var g []byte
		cms := "i"
		switch r.Intn(10) {
		case 0, 1, 2:
			g = setU64(f, []int{offXML, offXML + 8}[r.Intn(2)], vals[r.Intn(len(vals))])
		case 3, 4:
			g = setU64(f, offSig, vals[r.Intn(len(vals))])
		case 5, 6:
			g = setU64(f, offSigL, vals[r.Intn(len(vals))])
		case 7:
			cut := r.Pick(0, 1, 4, 511, 512, 513, len(f)-513, len(f)-512, len(f)-1, len(f)-r.Intn(len(f)))
			if cut < 0 {
				cut = 0
			}
			if r.Bool() {
				g = append([]byte{}, f[len(f)-cut:]...) // keep the tail
			} else {
				g = append([]byte{}, f[:cut]...)
			}
		case 8:
			g = append(append([]byte{}, f...), r.Bytes(r.Pick(1, 8, 512))...)
		default:
			g = append([]byte{}, f...)
			t := g[len(g)-512:]
			so, sl := binary.BigEndian.Uint64(t[offSig:]), binary.BigEndian.Uint64(t[offSigL:])
			if sl > 12 && so+sl <= L {
				// the superblob header, its index, item headers, the code directory and the hashed items; the inside of the CMS
				// item is left alone (its decoding is outside the model)
				lim := int(sl)
				if cnt := int(binary.BigEndian.Uint32(g[so+8:])); cnt < 16 && 12+8*cnt <= int(sl) {
					for k := 0; k < cnt; k++ {
						if binary.BigEndian.Uint32(g[int(so)+12+8*k:]) == 0x10000 {
							if o := int(binary.BigEndian.Uint32(g[int(so)+16+8*k:])); o+8 < lim {
								lim = o + 8
							}
						}
					}
				}
				q := int(so) + r.Pick(0, 3, 4, 5, 6, 7, 8, 9, 10, 11, 12, 15, 16, 19, 20, 23, 24, 27, r.Intn(lim))
				if q < len(g) {
					g[q] = byte(r.Pick(0, 1, 0x7f, 0x80, 0xff, int(r.U64()&255)))
					cms = "x" // what the CMS layer makes of a changed code directory is outside the model
				}
			} else {
				g[len(g)-512+r.Intn(4)] ^= 1 // magic
			}
		}
		fmt.Fprintf(w, "DMG open %s\n", hx.Hex(g))
		fmt.Fprintf(w, "DMG vfy %s %d %s\n", hx.Hex(g), r.Intn(2), cms)
		if tame(g) {
			signOp(w, r, g, "=")
		}
	}
	// systematic: one unsigned and one signed image, every interpreted field through every boundary value
	for round := 0; round < 2; round++ {
		p := regular(r)
		p.Data, p.XML = 600, 200
		f := Build(r, p)
		if round == 1 {
			if s, err := signReal(f, "p256", crypto.SHA256); err == nil {
				f = s
			}
		}
		L := uint64(len(f))
		vals := []uint64{0, 1, 511, 512, 513, L - 513, L - 512, L - 511, L - 1, L, L + 1, 1<<31 - 1, 1 << 31, 1<<32 - 1, 1 << 32,
			9999999, 10000000, 10000001, 1<<63 - 1, 1 << 63, 1<<63 + 1, ^uint64(0) - 511, ^uint64(0), ^uint64(0) - L + 1}
		for _, off := range []int{offXML, offXML + 8, offSig, offSigL} {
			for _, v := range vals {
				g := setU64(f, off, v)
				fmt.Fprintf(w, "DMG open %s\n", hx.Hex(g))
				if off == offXML || off == offXML+8 || round == 1 {
					fmt.Fprintf(w, "DMG vfy %s 0 i\n", hx.Hex(g))
				}
				if (off == offXML || off == offXML+8) && tame(g) {
					signOp(w, r, g, "=")
				}
			}
		}
	}
	genForkSweep(w, r)
	// trailer handed over separately from the image (the upload tar carries both): lengths around 512, foreign trailer
	for i := 0; i < n/6+1; i++ {
		f := Build(r, regular(r))
		other := Build(r, regular(r))
		var t []byte
		switch r.Intn(4) {
		case 0:
			t = other[len(other)-512:]
		case 1:
			t = f[len(f)-r.Pick(0, 1, 511):]
		case 2:
			t = append(append([]byte{}, f[len(f)-512:]...), r.Bytes(r.Pick(1, 512))...)
		default:
			t = r.Bytes(512)
			copy(t[offXML:offXML+16], make([]byte, 16))
			binary.BigEndian.PutUint64(t[offXML+8:], uint64(r.Intn(len(f)+2)))
			binary.BigEndian.PutUint64(t[offSig:], 0)
		}
		if len(t) < 512 || tame(append(append([]byte{}, f...), t[:512]...)) {
			signOp(w, r, f, hx.Hex(t))
		}
	}
}

// genForkSweep: the fork descriptors the layout guards of dmg.Sign read, offset and length of both forks around the
// bundle size of a regular unsigned image
func genForkSweep(w *bufio.Writer, r *hx.Rng) {
	p := regular(r)
	p.Data, p.XML, p.Rsrc = 600, 200, 64
	f := Build(r, p)
	L := uint64(len(f))
	b := L - 512 // the bundle size of a regular unsigned image
	vals := []uint64{0, 1, b - 601, b - 600, b - 599, b - 65, b - 64, b - 63, b - 1, b, b + 1, L, 1<<63 - 1 - b, 1<<63 - b, 1<<63 - 1, 1 << 63, ^uint64(0) - b, ^uint64(0)}
	for _, off := range []int{24, 32, 40, 48} {
		for _, v := range vals {
			signOp(w, hx.NewRng(uint64(off)*1000+v%997), setU64(f, off, v), "=")
		}
	}
}

func genKoly(w *bufio.Writer, r *hx.Rng, n int) {
	for i := 0; i < n; i++ {
		var t []byte
		switch r.Intn(4) {
		case 0:
			t = r.Bytes(r.Pick(512, 512, 511, 513, 0, 600))
		default:
			f := Build(r, anyParams(r))
			t = f[len(f)-512:]
		}
		fmt.Fprintf(w, "DMG koly %s\n", hx.Hex(t))
	}
}

// genSigned: really signed images for the verifier ops, re-signing and (C02) one-byte mutants
func genSigned(w *bufio.Writer, r *hx.Rng, files, per int, prop string) {
	for i := 0; i < files; i++ {
		p := regular(r)
		p.Data = r.Pick(0, 1, 512, 1000+r.Intn(3000))
		p.Reserved = i%3 == 1
		if i%4 == 3 {
			p.Old, p.OldHash = 1, crypto.SHA256
		}
		f := Build(r, p)
		hash := []crypto.Hash{crypto.SHA256, crypto.SHA1, crypto.SHA384}[i%3]
		signed, err := signReal(f, keys[i%len(keys)], hash)
		if err != nil {
			fmt.Fprintf(w, "DMG signfail %s %s\n", hx.Hex(f), strings.ReplaceAll(err.Error(), " ", "_"))
			continue
		}
		if i%3 == 2 {
			// stray bytes between the signature and the trailer
			signed = append(append(append([]byte{}, signed[:len(signed)-512]...), r.Bytes(r.Pick(1, 16))...), signed[len(signed)-512:]...)
		}
		fmt.Fprintf(w, "DMG vfy %s 0 i\n", hx.Hex(signed))
		fmt.Fprintf(w, "DMG vfy %s 1 i\n", hx.Hex(signed))
		fmt.Fprintf(w, "DMG open %s\n", hx.Hex(signed))
		if prop != "C02" {
			signOp(w, r, signed, "=") // re-sign relic's own output
			continue
		}
		L := len(signed)
		t := signed[L-512:]
		bundle := int(binary.BigEndian.Uint64(t[offXML:]) + binary.BigEndian.Uint64(t[offXML+8:]))
		so, sl := int(binary.BigEndian.Uint64(t[offSig:])), int(binary.BigEndian.Uint64(t[offSigL:]))
		var pos []int
		for q := L - 512; q < L; q++ { // every byte of the trailer
			pos = append(pos, q)
		}
		for _, q := range []int{0, 1, 511, 512, bundle / 2, bundle - 2, bundle - 1, bundle, bundle + 1, so + 3, so + 4, so + 7, so + 8, so + 11, so + 12, so + 15,
			so + 16, so + 19, so + 20, so + 40, so + 100, so + 200, so + sl - 1, so + sl, L - 513} {
			pos = append(pos, q)
		}
		for len(pos) < per {
			switch r.Intn(3) {
			case 0:
				pos = append(pos, so+r.Intn(sl))
			case 1:
				pos = append(pos, r.Intn(max(bundle, 1)))
			default:
				pos = append(pos, r.Intn(L))
			}
		}
		// nCodeSlots of the code directories drives make([][]byte, n) before any check (listed finding
		// F12-abort-csblob.parseCodeDirectory): its upper bytes are left alone, as is the top byte of SignatureLength's
		// low half (a 16 MiB-scale allocation per mutant is legal but slow)
		noTouch := map[int]bool{}
		if cnt := int(binary.BigEndian.Uint32(signed[so+8:])); cnt < 32 {
			for k := 0; k < cnt && so+20+8*k <= L; k++ {
				if ty := binary.BigEndian.Uint32(signed[so+12+8*k:]); ty == 0 || (ty >= 0x1000 && ty < 0x1006) {
					o := so + int(binary.BigEndian.Uint32(signed[so+16+8*k:]))
					noTouch[o+28], noTouch[o+29] = true, true
				}
			}
		}
		var sb strings.Builder
		n := 0
		for _, q := range pos {
			if q < 0 || q >= L || noTouch[q] {
				continue
			}
			nb := signed[q] ^ byte(1<<uint(r.Intn(8)))
			if r.Intn(4) == 0 {
				nb = byte(r.U64())
			}
			fmt.Fprintf(&sb, " %d:%d", q, nb)
			n++
		}
		fmt.Fprintf(w, "DMG mutate %s %d%s\n", hx.Hex(signed), n, sb.String())
	}
}

func genRealsign(w *bufio.Writer, r *hx.Rng, n int) {
	rounds := []string{"p256:5:1", "rsa:5:0,p256b:5:1", "p384:6:1,rsa:3:1,p521:5:0", "rsa:5:1,rsa:5:1"}
	if fx := fixture(); fx != nil {
		fmt.Fprintf(w, "DMG realsign %s %s\n", hx.Hex(fx), "rsa:5:0,p256:5:1")
		signOp(w, hx.NewRng(11), fx, "=")
	}
	for i := 0; i < n; i++ {
		p := regular(r)
		p.Reserved = i%2 == 1
		if i%3 == 2 {
			p.Old, p.OldHash = 1, crypto.SHA256
		}
		fmt.Fprintf(w, "DMG realsign %s %s\n", hx.Hex(Build(r, p)), rounds[i%len(rounds)])
	}
}

func Gen(w *bufio.Writer, seed uint64, tier string, prop string) {
	r := hx.NewRng(seed ^ 0x444d47)
	thorough := tier == "thorough"
	pick := func(q, t int) int {
		if thorough {
			return t
		}
		return q
	}
	switch prop {
	case "C02":
		genSigned(w, r, pick(6, 40), pick(620, 1500), prop)
		genKoly(w, r, pick(20, 300))
	case "C11":
		genMalformed(w, r, pick(100, 3000))
		genKoly(w, r, pick(20, 300))
	case "C03":
		genImages(w, r, pick(30, 500), false)
		genImages(w, r, pick(40, 600), true)
		genForkSweep(w, r)
		genSigned(w, r, pick(3, 30), 0, prop)
		genRealsign(w, r, pick(3, 30))
		genKoly(w, r, pick(30, 300))
	default: // C01, C08
		genImages(w, r, pick(60, 900), false)
		genSigned(w, r, pick(4, 40), 0, prop)
		genRealsign(w, r, pick(4, 40))
		if prop == "C08" {
			genKoly(w, r, pick(30, 300))
		}
	}
}

// ---------------------------------------------------------------------------------------------- implementation runner

func classify(err error) string {
	s := err.Error()
	switch {
	case strings.Contains(s, "dmg file magic not found"):
		return "magic"
	case strings.Contains(s, "unreasonably large dmg signature"):
		return "toolarge"
	case strings.Contains(s, "udif header"):
		return "udif"
	case strings.Contains(s, "dmg has no XML plist"):
		return "noplist"
	case strings.Contains(s, "dmg data lies behind the XML plist"):
		return "behind"
	case strings.Contains(s, "extends into the UDIF header"):
		return "trailer"
	case strings.Contains(s, "overlap or gap between bundle and signature"):
		return "overlap"
	case strings.Contains(s, "contains no signatures"):
		return "notsigned"
	case strings.Contains(s, "parsing old signature"):
		return "oldsig"
	case strings.Contains(s, "requirements blob must be"):
		return "requirements"
	case strings.Contains(s, "unsupported hash type"):
		return "hashtype"
	case strings.Contains(s, "scatterOffset"):
		return "scatter"
	case strings.Contains(s, "unknown hash type") || strings.Contains(s, "expected size"):
		return "hash"
	case strings.Contains(s, "short read in signature blob"):
		return "short"
	case strings.Contains(s, "invalid length in signature blob"):
		return "length"
	case strings.Contains(s, "expected embedded signature"):
		return "magic"
	case strings.Contains(s, "not enough hash slots"):
		return "fewslots"
	case strings.Contains(s, "expected 1 hash slot"):
		return "slots1"
	case strings.Contains(s, "expected code size"):
		return "size"
	case strings.Contains(s, "unreasonable page size"):
		return "pagesize"
	case strings.Contains(s, "digest mismatch"):
		return "mismatch"
	case strings.Contains(s, "no valid code dir") || strings.Contains(s, "has no code directory"):
		return "nodir"
	case strings.Contains(s, "possibly an adhoc signature"):
		return "adhoc"
	case strings.Contains(s, "seek") && strings.Contains(s, "invalid argument"):
		return "seek"
	case strings.Contains(s, "negative offset") || strings.HasPrefix(s, "read ") || strings.HasPrefix(s, "readat "):
		return "read"
	case errors.Is(err, io.EOF) || errors.Is(err, io.ErrUnexpectedEOF) || strings.HasSuffix(s, "EOF"):
		return "eof"
	}
	return "other:" + strings.ReplaceAll(s, " ", "_")
}

func panicSite(v interface{}) string {
	kind := "other"
	msg := fmt.Sprint(v)
	switch {
	case strings.Contains(msg, "makeslice"):
		kind = "makeslice"
	case strings.Contains(msg, "slice bounds out of range"):
		kind = "slice"
	case strings.Contains(msg, "index out of range"):
		kind = "index"
	case strings.Contains(msg, "nil pointer"):
		kind = "nil"
	}
	pcs := make([]uintptr, 64)
	n := runtime.Callers(3, pcs)
	frames := runtime.CallersFrames(pcs[:n])
	for {
		fr, more := frames.Next()
		fn := fr.Function
		switch {
		case strings.HasSuffix(fn, "/lib/fruit/dmg.Open"):
			return "dmg.Open:" + kind
		case strings.Contains(fn, "csblob.parseCodeDirectory"):
			return "csblob.parseCodeDirectory:slice"
		case strings.Contains(fn, "/lib/fruit/") || strings.Contains(fn, "/lib/binpatch"):
			return fn[strings.LastIndex(fn, "/")+1:] + ":" + kind
		}
		if !more {
			break
		}
	}
	return "other:" + kind
}

var (
	scratchOnce sync.Once
	scratchDir  string
	scratchN    int
	scratchMu   sync.Mutex
)

func tmpPath(name string) string {
	scratchOnce.Do(func() {
		d, err := os.MkdirTemp("", "vh-dmg-")
		if err != nil {
			panic(err)
		}
		scratchDir = d
		hx.OnExit(func() { os.RemoveAll(d) })
	})
	scratchMu.Lock()
	scratchN++
	n := scratchN
	scratchMu.Unlock()
	return filepath.Join(scratchDir, fmt.Sprintf("%d-%s", n, name))
}

func withFile(content []byte, f func(*os.File) string) string {
	p := tmpPath("in.dmg")
	if err := os.WriteFile(p, content, 0o644); err != nil {
		return "harness-error " + err.Error()
	}
	defer os.Remove(p)
	fh, err := os.Open(p)
	if err != nil {
		return "harness-error " + err.Error()
	}
	defer fh.Close()
	return f(fh)
}

func verifyClass(content []byte, skip bool) string {
	return withFile(content, func(fh *os.File) string {
		d, err := rdmg.Open(fh)
		if err != nil {
			return "err " + classify(err)
		}
		if _, err := d.Verify(skip); err != nil {
			return "err " + classify(err)
		}
		return "ok"
	})
}

type signResult struct {
	err    error
	stage  string
	out    []byte
	verify string
}

// runSign: dmg.Sign on (t, f) with a real key, Dump → ApplyBinPatch on real files (same path or another path), verify.
func runSign(f, t []byte, hash crypto.Hash, ident string, req []byte, key string, inplace bool) signResult {
	params := &rdmg.SignatureParams{HashFunc: hash, Requirements: req, SigningIdentity: ident}
	patch, _, err := rdmg.Sign(context.Background(), t, bytes.NewReader(f), sg.Cert(key), params)
	if err != nil {
		return signResult{err: err, stage: "sign"}
	}
	in := tmpPath("in.dmg")
	if err := os.WriteFile(in, f, 0o644); err != nil {
		return signResult{err: err, stage: "harness"}
	}
	defer os.Remove(in)
	outPath := in
	mode := os.O_RDWR
	if !inplace {
		outPath = tmpPath("out.dmg")
		mode = os.O_RDONLY
		defer os.Remove(outPath)
	}
	src, err := os.OpenFile(in, mode, 0)
	if err != nil {
		return signResult{err: err, stage: "harness"}
	}
	err = signers.ApplyBinPatch(src, outPath, bytes.NewReader(patch.Dump()))
	src.Close()
	if err != nil {
		return signResult{err: err, stage: "apply"}
	}
	out, err := os.ReadFile(outPath)
	if err != nil {
		return signResult{err: err, stage: "harness"}
	}
	return signResult{out: out, verify: verifyClass(out, false)}
}

func parseHash(s string) crypto.Hash { return crypto.Hash(hx.Atoi(s)) }

func unOpt(s string) []byte {
	if s == "n" {
		return nil
	}
	b := hx.MustUnHex(s)
	if b == nil {
		b = []byte{}
	}
	return b
}

// cut reads the trailer of an output image without relic: signature offset and length, trailer with the length zeroed
func cut(out []byte) (so, sl int64, tz []byte, ok bool) {
	if len(out) < 512 {
		return 0, 0, nil, false
	}
	t := out[len(out)-512:]
	so, sl = int64(binary.BigEndian.Uint64(t[offSig:])), int64(binary.BigEndian.Uint64(t[offSigL:]))
	tz = append([]byte{}, t...)
	copy(tz[offSigL:offSigL+8], make([]byte, 8))
	ok = so >= 0 && sl >= 0 && so <= int64(len(out)-512) && so+sl == int64(len(out)-512)
	return
}

// Handle runs one op on the real code.
func Handle(f []string) (res string) {
	defer func() {
		if v := recover(); v != nil {
			res = "panic " + panicSite(v)
		}
	}()
	switch f[0] {
	case "koly":
		k, err := rdmg.VerifParseKoly(hx.MustUnHex(f[1]))
		if err != nil {
			return "err udif"
		}
		return fmt.Sprintf("ok fh=%s full=%s xo=%d xl=%d so=%d sl=%d magic=%d", hx.Hex(k.ForHashing), hx.Hex(k.Full), uint64(k.XMLOffset),
			uint64(k.XMLLength), uint64(k.SignatureOffset), uint64(k.SignatureLength), k.Magic)
	case "open":
		return withFile(hx.MustUnHex(f[1]), func(fh *os.File) string {
			d, err := rdmg.Open(fh)
			if err != nil {
				c := classify(err)
				if c == "eof" {
					c = "read" // the only reader left after the 512-byte header is ReadAt on the signature region
				}
				return "err " + c
			}
			uo, blob := d.VerifSigBlob()
			return fmt.Sprintf("ok uo=%d blob=%s", uo, hx.Hex(blob))
		})
	case "vfy":
		return verifyClass(hx.MustUnHex(f[1]), f[2] == "1")
	case "signfail":
		return "err " + f[2]
	case "sign":
		img := hx.MustUnHex(f[1])
		t := img[max(0, len(img)-512):]
		if f[2] != "=" {
			t = hx.MustUnHex(f[2])
		}
		r := runSign(img, t, parseHash(f[3]), string(hx.MustUnHex(f[4])), unOpt(f[5]), f[6], f[7] == "1")
		if r.err != nil {
			if r.stage == "apply" {
				return "err apply"
			}
			if r.stage == "harness" {
				return "harness-error " + strings.ReplaceAll(r.err.Error(), " ", "_")
			}
			return "err " + classify(r.err)
		}
		so, sl, tz, ok := cut(r.out)
		if !ok {
			return fmt.Sprintf("ok so=%d slok=0 verify=%s", so, strings.Replace(r.verify, "err ", "fail:", 1))
		}
		_, items, err := csblob.VerifParseSuper(r.out[so : so+sl])
		if err != nil {
			return "err reparse-" + classify(err)
		}
		var cd []byte
		var hashed []string
		for _, it := range items {
			switch it.IType {
			case 0:
				cd = it.Data
			case 2, 5, 7:
				hashed = append(hashed, fmt.Sprintf("%d:%s", it.IType, hx.Hex(it.Data)))
			}
		}
		if len(cd) < 88 {
			return "err nocd"
		}
		hj := "-"
		if len(hashed) > 0 {
			hj = strings.Join(hashed, ",")
		}
		lim := uint64(binary.BigEndian.Uint32(cd[32:]))
		if l64 := binary.BigEndian.Uint64(cd[56:]); l64 != 0 {
			lim = l64
		}
		verdict := "verify=ok"
		if r.verify != "ok" {
			verdict = "verify=fail:" + r.verify[4:]
		}
		return fmt.Sprintf("ok so=%d n=%d lim=%d cd=%s items=%s pre=%s trailer=%s slok=1 %s", so, binary.BigEndian.Uint32(cd[28:]), lim, hx.Hex(cd), hj,
			hx.Hex(r.out[:so]), hx.Hex(tz), verdict)
	case "realsign":
		return realsign(hx.MustUnHex(f[1]), f[2])
	case "mutate":
		img := hx.MustUnHex(f[1])
		var out []string
		for _, m := range f[3:] {
			parts := strings.SplitN(m, ":", 2)
			pos, nb := int(hx.Atoi(parts[0])), byte(hx.Atoi(parts[1]))
			if img[pos] == nb {
				out = append(out, "same")
				continue
			}
			g := append([]byte{}, img...)
			g[pos] = nb
			r := func() (r string) {
				defer func() {
					if v := recover(); v != nil {
						r = "panic:" + panicSite(v)
					}
				}()
				if verifyClass(g, false) != "ok" {
					return "fail"
				}
				return "pass"
			}()
			out = append(out, r)
		}
		return "ok " + strings.Join(out, " ")
	}
	return "bad-op"
}

// realsign drives the signer module (transform → tar → sign → binpatch → Apply) for several rounds; every round must
// verify through the module, keep the image part and the trailer (signature length aside), and answer the is-signed probe.
func realsign(img []byte, rounds string) string {
	p := tmpPath("rs.dmg")
	if err := os.WriteFile(p, img, 0o644); err != nil {
		return "harness-error " + err.Error()
	}
	defer os.Remove(p)
	mod := signers.ByName("dmg")
	probe := func(path string) string {
		fh, err := os.Open(path)
		if err != nil {
			return "?"
		}
		defer fh.Close()
		ok, err := mod.IsSigned(fh)
		if err != nil {
			return "e"
		}
		if ok {
			return "1"
		}
		return "0"
	}
	probes := probe(p)
	cur := p
	var pre0, tz0 []byte
	var so0 int64
	n := 0
	for i, rd := range strings.Split(rounds, ",") {
		q := strings.Split(rd, ":")
		if len(q) != 3 {
			return "bad-op"
		}
		h, _ := strconv.Atoi(q[1])
		dest := cur
		if q[2] != "1" {
			dest = tmpPath("rs-out.dmg")
			defer os.Remove(dest)
		}
		cert := sg.Cert(q[0])
		if err := sg.Sign("dmg", cur, dest, cert, crypto.Hash(h), map[string]string{"bundle-id": "com.example.image"}); err != nil {
			return fmt.Sprintf("err round%d-%s", i, strings.ReplaceAll(err.Error(), " ", "_"))
		}
		sigs, err := sg.Verify("dmg", dest, cert, false)
		if err != nil {
			return fmt.Sprintf("err round%d-verify-%s", i, strings.ReplaceAll(err.Error(), " ", "_"))
		}
		if len(sigs) != 1 || sigs[0].Hash != crypto.Hash(h) || sigs[0].X509Signature == nil || sigs[0].X509Signature.Certificate == nil ||
			!sigs[0].X509Signature.Certificate.Equal(cert.Leaf) {
			return fmt.Sprintf("err round%d-wrong-signer-or-digest", i)
		}
		out, err := os.ReadFile(dest)
		if err != nil {
			return "harness-error " + err.Error()
		}
		so, _, tz, ok := cut(out)
		if !ok {
			return fmt.Sprintf("err round%d-layout", i)
		}
		if i == 0 {
			so0, pre0, tz0 = so, out[:so], tz
		} else if so != so0 || !bytes.Equal(out[:so], pre0) || !bytes.Equal(tz, tz0) {
			return "err rounds-differ"
		}
		probes += probe(dest)
		cur = dest
		n++
	}
	return fmt.Sprintf("ok so=%d pre=%s trailer=%s rounds=%d probe=%s", so0, hx.Hex(pre0), hx.Hex(tz0), n, probes)
}

/-
  C02 — Any change to signed content makes verification fail.   Apple disk image (UDIF) part.
  Protected by the two hashes the verifier recomputes:
    * every byte of the image in front of `bundle = XMLOffset+XMLLength` (code slot, `dmg_data_protected`);
    * the trailer ranges [0,232) (magic, version, flags, fork descriptors, segment fields, data checksum, XMLOffset,
      XMLLength), [296,304) (SignatureOffset) and [352,500) (master checksum, image variant, sector count)
      (special slot −6, `dmg_trailer_protected`) — provided the CMS-signed code directory HAS a non-zero slot −6
      (`C01.dmg_verify_rep_slot`); a directory without it leaves the whole trailer unprotected (signer's responsibility).
  NOT protected, each a theorem below: the three blank ranges of the trailer, the SignatureLength field (it selects the
  blob; a changed blob is the CMS layer's matter), any bytes between the end of the signature and the trailer.
  The code-directory and superblob layer is C02_MachO.
-/
import Relic.Proofs.Dmg
namespace Relic.Props.C02
open Relic Relic.Dmg Relic.CodeDir

/-- positions of the trailer that reach the rep-specific hash -/
def protectedIdx (i : Nat) : Prop := i < 232 ∨ (296 ≤ i ∧ i < 304) ∨ (352 ≤ i ∧ i < 500)

instance (i : Nat) : Decidable (protectedIdx i) := by unfold protectedIdx; infer_instance

/-- **forHashing_eq_iff.** Two trailers are hashed alike exactly when they agree on the three protected ranges. -/
theorem forHashing_eq_iff (t t' : Bytes) (h : 512 ≤ t.length) (h' : 512 ≤ t'.length) :
    (decode t).forHashing = (decode t').forHashing ↔
      (sl t 0 232 = sl t' 0 232 ∧ sl t 296 8 = sl t' 296 8 ∧ sl t 352 148 = sl t' 352 148) := by
  have l (a n : Nat) (hh : a + n ≤ 512) : (sl t a n).length = n := sl_length t a n (by omega)
  have l' (a n : Nat) (hh : a + n ≤ 512) : (sl t' a n).length = n := sl_length t' a n (by omega)
  rw [forHashing_decode t h, forHashing_decode t' h']
  constructor
  · intro e
    simp only [List.append_assoc] at e
    have e1 := List.append_inj e (by rw [l 0 232 (by omega), l' 0 232 (by omega)])
    have e2 := List.append_inj e1.2 rfl
    have e3 := List.append_inj e2.2 (by rw [l 296 8 (by omega), l' 296 8 (by omega)])
    have e4 := List.append_inj e3.2 rfl
    have e5 := List.append_inj e4.2 rfl
    have e6 := List.append_inj e5.2 (by rw [l 352 148 (by omega), l' 352 148 (by omega)])
    exact ⟨e1.1, e3.1, e6.1⟩
  · rintro ⟨a, b, c⟩
    rw [a, b, c]

/-- **dmg_trailer_protected.** Two trailers that differ at a protected position are hashed differently: for every hash
    function that does not collide on these two 512-byte strings the recomputed slot −6 differs from the signed one and
    `csblob.Verify` fails with "rep_specific: digest mismatch". -/
theorem dmg_trailer_protected (t t' : Bytes) (h : 512 ≤ t.length) (h' : 512 ≤ t'.length) (i : Nat) (hp : protectedIdx i)
    (hd : t[i]? ≠ t'[i]?) : (decode t).forHashing ≠ (decode t').forHashing := by
  intro e
  obtain ⟨a, b, c⟩ := (forHashing_eq_iff t t' h h').mp e
  apply hd
  rcases hp with hi | ⟨h1, h2⟩ | ⟨h1, h2⟩
  · have e1 : (sl t 0 232)[i]? = (sl t' 0 232)[i]? := by rw [a]
    rw [sl_getElem? t 0 232 i hi, sl_getElem? t' 0 232 i hi, Nat.zero_add] at e1
    exact e1
  · have e1 : (sl t 296 8)[i - 296]? = (sl t' 296 8)[i - 296]? := by rw [b]
    have e2 : 296 + (i - 296) = i := by omega
    rw [sl_getElem? t 296 8 (i - 296) (by omega), sl_getElem? t' 296 8 (i - 296) (by omega), e2] at e1
    exact e1
  · have e1 : (sl t 352 148)[i - 352]? = (sl t' 352 148)[i - 352]? := by rw [c]
    have e2 : 352 + (i - 352) = i := by omega
    rw [sl_getElem? t 352 148 (i - 352) (by omega), sl_getElem? t' 352 148 (i - 352) (by omega), e2] at e1
    exact e1

/-- **dmg_data_protected.** Two images with the same bundle size that differ at a position in front of it deliver
    different sections to `VerifyPages`; with the single code slot of a disk image the verifier's one page comparison has
    the same expected value and a different stream (so it fails for every hash function that does not collide on the
    two), or the length test fails first. -/
theorem dmg_data_protected (d : Dir) (c : Bytes) (f g : Bytes) (b : Int) (p : Nat) (h0 : 0 ≤ b) (hp : p < b.toNat)
    (hdiff : f[p]? ≠ g[p]?) (hps : d.hdr.pageShift = 0) (hc : d.code = [c]) :
    sectionOf f b ≠ sectionOf g b ∧
    ((verifyPagesOn d (sectionOf f b)).checks = [⟨sectionOf f b, c⟩] ∨ (verifyPagesOn d (sectionOf f b)).final = .err "size") ∧
    ((verifyPagesOn d (sectionOf g b)).checks = [⟨sectionOf g b, c⟩] ∨ (verifyPagesOn d (sectionOf g b)).final = .err "size") := by
  have hn : ¬ b < 0 := by omega
  have hs : sectionOf f b ≠ sectionOf g b := by
    intro e
    apply hdiff
    have := congrArg (fun x => x[p]?) e
    simpa [sectionOf, hn, List.getElem?_take_of_lt hp] using this
  refine ⟨hs, ?_, ?_⟩
  · by_cases hl : codeSize d.hdr = (sectionOf f b).length
    · left; simp [verifyPagesOn, hps, hc, hl]
    · right
      have : ¬ (((sectionOf f b).length : Int) = codeSize d.hdr) := fun h => hl h.symm
      simp [verifyPagesOn, hps, hc, this]
  · by_cases hl : codeSize d.hdr = (sectionOf g b).length
    · left; simp [verifyPagesOn, hps, hc, hl]
    · right
      have : ¬ (((sectionOf g b).length : Int) = codeSize d.hdr) := fun h => hl h.symm
      simp [verifyPagesOn, hps, hc, this]

/-- the header `Open` reads from an image -/
def headerOf (f : Bytes) : Koly := decode (f.drop (f.length - 512))

/-- **dmg_tamper_evident.** The protected byte set of a signed disk image, stated on the file: let `f` and `g` be images
    of the same length (at least 512) that differ at position `p`, where `p` is either a protected position of the
    trailer (`protectedIdx`: everything but SignatureLength and the blank ranges) or lies in front of `f`'s bundle size.
    Then the verifier hashes something different for `g`: the rep-specific bytes differ, or (they agree, hence so do the
    bundle sizes, and) the sections handed to `VerifyPages` differ.  With the single code slot and special slot −6 of a
    disk-image signature (`C01.dmg_verify_single_slot`, `dmg_verify_rep_slot`) a comparison of `g`'s plan has the same
    expected value as `f`'s and a different stream, so it fails for every hash function that does not collide on the
    two streams. -/
theorem dmg_tamper_evident (f g : Bytes) (hl : f.length = g.length) (h512 : 512 ≤ f.length) (p : Nat) (hd : f[p]? ≠ g[p]?)
    (hprot : (f.length - 512 ≤ p ∧ protectedIdx (p - (f.length - 512))) ∨
             (0 ≤ (headerOf f).bundle ∧ p < (headerOf f).bundle.toNat)) :
    (headerOf f).forHashing ≠ (headerOf g).forHashing ∨
    ((headerOf f).bundle = (headerOf g).bundle ∧ sectionOf f (headerOf f).bundle ≠ sectionOf g (headerOf g).bundle) := by
  have lf : (f.drop (f.length - 512)).length = 512 := by simp only [List.length_drop]; omega
  have lg : (g.drop (g.length - 512)).length = 512 := by simp only [List.length_drop]; omega
  by_cases he : (headerOf f).forHashing = (headerOf g).forHashing
  · right
    obtain ⟨a, b, c⟩ := (forHashing_eq_iff _ _ (by omega) (by omega)).mp he
    obtain ⟨_, _, e3, e4, _⟩ := decode_of_ranges _ _ a c
    have hb : (headerOf f).bundle = (headerOf g).bundle := by
      simp only [headerOf, Koly.bundle, e3, e4]
    refine ⟨hb, ?_⟩
    rcases hprot with ⟨h1, hp⟩ | ⟨h0, hp⟩
    · -- a protected trailer position cannot differ when the rep-specific bytes agree
      exfalso
      refine dmg_trailer_protected _ _ (by omega) (by omega) (p - (f.length - 512)) hp ?_ he
      rw [List.getElem?_drop, List.getElem?_drop, ← hl]
      have e : f.length - 512 + (p - (f.length - 512)) = p := by omega
      rw [e]; exact hd
    · rw [← hb]
      intro e
      apply hd
      have hn : ¬ (headerOf f).bundle < 0 := by omega
      have e1 : (sectionOf f (headerOf f).bundle)[p]? = (sectionOf g (headerOf f).bundle)[p]? := by rw [e]
      simpa [sectionOf, hn, List.getElem?_take_of_lt hp] using e1
  · left; exact he

/-- **dmg_verify_inputs.** The verifier's answer is a function of three things read from the file: the signature blob,
    the re-serialised trailer, the section in front of the bundle size. -/
theorem dmg_verify_inputs (f g : Bytes) (o o' : Opened) (skip : Bool) (hf : openFile f = .ok o) (hg : openFile g = .ok o')
    (hb : o.sigBlob = o'.sigBlob) (hr : o.koly.forHashing = o'.koly.forHashing)
    (hs : sectionOf f o.koly.bundle = sectionOf g o'.koly.bundle) : verify f skip = verify g skip := by
  unfold openFile at hf hg
  simp only [verify, verifyG, hf, hg, hb, hr, hs]

/-- **dmg_blank_unprotected** (gap 1).  Trailers that differ only inside the blank ranges [232,296), [312,352),
    [500,512) — or in the SignatureLength field — are hashed alike. -/
theorem dmg_blank_unprotected (t t' : Bytes) (h : 512 ≤ t.length) (h' : 512 ≤ t'.length)
    (hA : sl t 0 232 = sl t' 0 232) (hO : sl t 296 8 = sl t' 296 8) (hB : sl t 352 148 = sl t' 352 148) :
    (decode t).forHashing = (decode t').forHashing :=
  (forHashing_eq_iff t t' h h').mpr ⟨hA, hO, hB⟩

/-- **dmg_gap_unprotected** (gap 2).  Bytes inserted between the end of the signature and the trailer change nothing
    the verifier looks at: the trailer is found from the end, everything else by absolute offsets. -/
theorem dmg_gap_unprotected (pre blob junk : Bytes) (k : Koly) (skip : Bool) (wf : k.WF) (hm : k.magic = kolyMagic)
    (hso : k.sigOffset = pre.length) (hsl : k.sigLength = blob.length) (hne : blob ≠ []) (hmax : blob.length ≤ maxSig)
    (hpre : pre.length < 2 ^ 63) (hb : k.bundle = pre.length) :
    verify (pre ++ blob ++ junk ++ k.enc) skip = verify (pre ++ blob ++ k.enc) skip := by
  have a := openFile_gap pre blob junk k wf hm hso hsl hne hmax hpre
  have b := openFile_built pre blob k wf hm hso hsl hne hmax hpre
  refine dmg_verify_inputs _ _ _ _ skip a b rfl rfl ?_
  have hn : ¬ ((pre.length : Int) < 0) := by omega
  simp only [sectionOf, hb, hn, ↓reduceIte, Int.toNat_natCast, List.append_assoc, List.take_left']

/-- the statement "every byte of a signed image is protected": false (`dmg_blank_unprotected`, `dmg_gap_unprotected`) -/
def dmg_every_byte_protected_full : Prop :=
  ∀ (f g : Bytes) (skip : Bool), f.length = g.length → f ≠ g → (∃ o, openFile f = .ok o ∧ o.sigBlob ≠ []) →
    verify f skip ≠ verify g skip

/-! ### non-vacuity -/

set_option maxRecDepth 100000 in
/-- the first byte of the data fork of the sample image changed -/
example : (headerOf sampleImage).forHashing ≠ (headerOf (sampleImage.set 0 77)).forHashing ∨
    ((headerOf sampleImage).bundle = (headerOf (sampleImage.set 0 77)).bundle ∧
     sectionOf sampleImage (headerOf sampleImage).bundle ≠ sectionOf (sampleImage.set 0 77) (headerOf (sampleImage.set 0 77)).bundle) :=
  dmg_tamper_evident _ _ (by decide) (by decide) 0 (by decide) (Or.inr ⟨by decide, by decide⟩)

example : protectedIdx 300 ∧ ¬ protectedIdx 310 ∧ ¬ protectedIdx 240 ∧ protectedIdx 499 ∧ ¬ protectedIdx 500 := by decide

set_option maxRecDepth 100000 in
/-- XMLLength changed from 5 to 6 (position 231) -/
example : (decode (sampleKoly 3 5 8 2).enc).forHashing ≠ (decode (sampleKoly 3 6 8 2).enc).forHashing :=
  dmg_trailer_protected _ _ (by decide) (by decide) 231 (by decide) (by decide)

set_option maxRecDepth 100000 in
/-- only the SignatureLength differs -/
example : (decode (sampleKoly 3 5 8 2).enc).forHashing = (decode (sampleKoly 3 5 8 77).enc).forHashing :=
  dmg_blank_unprotected _ _ (by decide) (by decide) (by decide) (by decide) (by decide)

set_option maxRecDepth 100000 in
example : ¬ dmg_every_byte_protected_full := by
  intro hfull
  -- a stray byte in front of the trailer: 7 vs 8
  have wf : (sampleKoly 0 1 1 1).WF := ⟨by decide, by decide, by decide, by decide, by decide, by decide, by decide⟩
  have e1 := dmg_gap_unprotected [1] [9] [7] (sampleKoly 0 1 1 1) false wf rfl rfl rfl (by decide) (by decide) (by decide) (by decide)
  have e2 := dmg_gap_unprotected [1] [9] [8] (sampleKoly 0 1 1 1) false wf rfl rfl rfl (by decide) (by decide) (by decide) (by decide)
  have o := openFile_gap [1] [9] [7] (sampleKoly 0 1 1 1) wf rfl rfl rfl (by decide) (by decide) (by decide)
  refine hfull ([1] ++ [9] ++ [7] ++ (sampleKoly 0 1 1 1).enc) ([1] ++ [9] ++ [8] ++ (sampleKoly 0 1 1 1).enc) false (by simp) ?_ ⟨_, o, by decide⟩ (e1.trans e2.symm)
  intro e
  have := congrArg (fun x => x[2]?) e
  simp at this

end Relic.Props.C02

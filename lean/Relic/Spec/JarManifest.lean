/-
  Relic.Spec.JarManifest — what the JAR File Specification ("JAR Manifest", "Signed JAR File", "Signature File")
  prescribes about sections and about the digests in a signature file, written independently of the model of
  relic's code (no definition of Relic.Model.Jar is used here).

  * A manifest is a main section followed by individual sections; every section is a run of header lines
    terminated by an empty line (`newline newline`, newline = CR LF | LF).
  * In the .SF file: `x-Digest-Manifest-Main-Attributes` is the digest of the main attributes *including the
    empty line that ends them*; the `x-Digest` of an individual section is the digest of that section of the
    manifest: its header lines and the empty line that ends it; `x-Digest-Manifest` is the digest of the
    whole manifest.
  * No line may be longer than 72 bytes; a longer value is continued on extra lines each starting with one SPACE.
-/
import Relic.Base.Bytes
namespace Relic.Spec.JarManifest
open Relic

def blankCRLF : Bytes := [13, 10, 13, 10]
def blankLF : Bytes := [10, 10]

/-- the byte string ends with the line end of its last header line followed by an empty line -/
def EndsWithEmptyLine (s : Bytes) : Prop := (∃ b, s = b ++ blankCRLF) ∨ (∃ b, s = b ++ blankLF)

/-- `secs` is a division of the manifest `m` into sections: consecutive, covering every byte, each ending with
    its empty line.  (Minimality – the empty line occurs nowhere else in a section – is
    `Props.C05.jar_sections_minimal` / `jar_sections_first_blank_line`.) -/
structure Sectioning (m : Bytes) (secs : List Bytes) : Prop where
  whole : secs.flatten = m
  ends : ∀ s ∈ secs, EndsWithEmptyLine s

/-- the signature file the specification prescribes, for a manifest divided into `main :: entries`, where
    `entries` pairs each individual section with the value of its `Name` attribute; `attr k v` is the writer of one
    (folded) attribute, `hash` the digest-as-base64 function -/
def sfText (attr : Bytes → Bytes → Bytes) (hash : Bytes → Bytes) (mainAttrs : List (Bytes × Bytes))
    (keyEntry : Bytes) (entries : List (Bytes × Bytes)) : Bytes :=
  mainAttrs.flatMap (fun kv => attr kv.1 kv.2) ++ [13, 10] ++
  entries.flatMap (fun e => attr [78, 97, 109, 101] e.1 ++ attr keyEntry (hash e.2) ++ [13, 10])

/-- a physical line respects the 72-byte rule (line end included) -/
def LineOk (line : Bytes) : Prop := line.length + 2 ≤ 72

end Relic.Spec.JarManifest

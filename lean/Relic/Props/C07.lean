/-
  C07 — Signatures are only issued under a certificate that matches the key.
  Theorems about `Relic.Model.KeyMatch`; every `theorem` here is audited with `#print axioms`.
-/
import Relic.Model.KeyMatch
namespace Relic.Props.C07
open Relic Relic.KeyMatch

/-! ### `x509tools.SameKey` -/

/-- the exact exception of `SameKey`: two ECDSA keys with the same affine point on different curves -/
def CurveException (a b : PubKey) : Prop :=
  ∃ c1 c2 x y, c1 ≠ c2 ∧ a = .ecdsa c1 x y ∧ b = .ecdsa c2 x y

/-- `SameKey` accepts only equal keys, except that the curve of ECDSA keys is not compared -/
theorem sameKey_sound (a b : PubKey) (h : sameKeyPub a b = true) : a = b ∨ CurveException a b := by
  cases a with
  | rsa n1 e1 =>
    cases b with
    | rsa n2 e2 =>
      simp [sameKeyPub] at h
      obtain ⟨h1, h2⟩ := h
      subst h1 h2; exact .inl rfl
    | ecdsa _ _ _ => simp [sameKeyPub] at h
    | other _ => simp [sameKeyPub] at h
  | ecdsa c1 x1 y1 =>
    cases b with
    | rsa _ _ => simp [sameKeyPub] at h
    | ecdsa c2 x2 y2 =>
      simp [sameKeyPub] at h
      obtain ⟨h1, h2⟩ := h
      subst h1 h2
      by_cases hc : c1 = c2
      · subst hc; exact .inl rfl
      · exact .inr ⟨c1, c2, x1, y1, hc, rfl, rfl⟩
    | other _ => simp [sameKeyPub] at h
  | other _ => simp [sameKeyPub] at h

example : sameKeyPub (.rsa 77 65537) (.rsa 77 65537) = true := by decide

/-- the exception is real: the model (like the Go code) accepts this pair of different keys -/
theorem sameKey_curve_ignored :
    sameKeyPub (.ecdsa 256 5 9) (.ecdsa 384 5 9) = true ∧ PubKey.ecdsa 256 5 9 ≠ PubKey.ecdsa 384 5 9 := by
  decide

/-- full-strength soundness (no exception) does **not** hold for the code as written -/
def sameKey_sound_full : Prop := ∀ a b, sameKeyPub a b = true → a = b

theorem sameKey_sound_full_false : ¬ sameKey_sound_full := by
  intro h
  exact sameKey_curve_ignored.2 (h _ _ sameKey_curve_ignored.1)

/-- two keys of which at most one curve is in play: the exception cannot arise -/
def NoSharedPoint (a b : PubKey) : Prop :=
  ∀ c1 c2 x y, a = .ecdsa c1 x y → b = .ecdsa c2 x y → c1 = c2

theorem sameKey_sound_partial (a b : PubKey) (hp : NoSharedPoint a b) (h : sameKeyPub a b = true) : a = b := by
  rcases sameKey_sound a b h with h | ⟨c1, c2, x, y, hne, ha, hb⟩
  · exact h
  · exact absurd (hp c1 c2 x y ha hb) hne

example : NoSharedPoint (.ecdsa 256 5 9) (.ecdsa 256 5 9) := by
  intro c1 c2 x y h1 h2; cases h1; cases h2; rfl

/-- RSA and ECDSA keys are accepted against themselves; nothing else is -/
theorem sameKey_complete (a : PubKey) : sameKeyPub a a = supportedKey a := by
  cases a <;> simp [sameKeyPub, supportedKey]

theorem sameKey_symm (a b : PubKey) : sameKeyPub a b = sameKeyPub b a := by
  cases a <;> cases b <;> simp only [sameKeyPub] <;> rw [Bool.eq_iff_iff] <;> simp <;> omega

/-- private keys are compared through `Public()` -/
theorem sameKey_through_public (a b : KeyArg) : sameKey a b = sameKeyPub a.public b.public := rfl

/-- the mismatch classes named by the property -/
theorem sameKey_rejects (n e c x y t : Nat) (k : PubKey) :
    sameKeyPub (.rsa n e) (.ecdsa c x y) = false ∧ sameKeyPub (.ecdsa c x y) (.rsa n e) = false ∧
    sameKeyPub (.other t) k = false ∧ sameKeyPub k (.other t) = false := by
  refine ⟨rfl, rfl, rfl, ?_⟩
  cases k <;> rfl

theorem sameKey_rejects_other_point (c c' x1 y1 x2 y2 : Nat) (h : x1 ≠ x2 ∨ y1 ≠ y2) :
    sameKeyPub (.ecdsa c x1 y1) (.ecdsa c' x2 y2) = false := by
  simp [sameKeyPub]; omega

theorem sameKey_rejects_other_rsa (n1 e1 n2 e2 : Nat) (h : n1 ≠ n2 ∨ e1 ≠ e2) :
    sameKeyPub (.rsa n1 e1) (.rsa n2 e2) = false := by
  simp [sameKeyPub]; omega

example : sameKeyPub (.ecdsa 256 3 103) (.ecdsa 256 3 203) = false := sameKey_rejects_other_point _ _ _ _ _ _ (.inr (by decide))
example : sameKeyPub (.rsa 1 65537) (.rsa 1 3) = false := sameKey_rejects_other_rsa _ _ _ _ (.inr (by decide))

/-! ### `Certificate.Chain()` -/

theorem mem_chainRest (leaf : Option PCert) (cs : List PCert) (i : Nat) (x : PCert)
    (h : x ∈ chainRest leaf i cs) :
    x ∈ cs ∧ leaf.map (·.ptr) ≠ some x.ptr ∧ (i > 0 → x.cert.selfSigned = false) := by
  induction cs generalizing i with
  | nil => simp [chainRest] at h
  | cons c cs ih =>
    unfold chainRest at h
    split at h
    · have := ih (i + 1) h
      exact ⟨List.mem_cons_of_mem _ this.1, this.2.1, fun _ => this.2.2 (by omega)⟩
    · rename_i h1
      split at h
      · have := ih (i + 1) h
        exact ⟨List.mem_cons_of_mem _ this.1, this.2.1, fun _ => this.2.2 (by omega)⟩
      · rename_i h2
        rcases List.mem_cons.mp h with rfl | h
        · refine ⟨List.mem_cons_self, ?_, ?_⟩
          · intro hh; simp [hh] at h2
          · intro hi
            simp [hi] at h1
            exact h1
        · have := ih (i + 1) h
          exact ⟨List.mem_cons_of_mem _ this.1, this.2.1, fun _ => this.2.2 (by omega)⟩

theorem chainRest_skip_leaf (l : PCert) (c : Cert) (cs : List PCert) :
    chainRest (some l) 0 (⟨l.ptr, c⟩ :: cs) = chainRest (some l) 1 cs := by
  rw [chainRest]; simp

/-- a bundle as produced by the parsers: the leaf is the first certificate, pointer 0 -/
def WF (b : Bundle) : Prop :=
  match b.leaf with
  | some l => ∃ cs, l.ptr = 0 ∧ b.certs = enumFrom 0 (l.cert :: cs)
  | none => b.certs = []

/-- `Chain()` begins with the leaf, never repeats the leaf *pointer*, takes its other members from
    `Certificates` after the first, and omits self-signed certificates -/
theorem chain_leaf_first (b : Bundle) (l : PCert) (hl : b.leaf = some l) (hwf : WF b) :
    ∃ rest, chain b = l :: rest ∧ l.ptr ∉ rest.map (·.ptr) ∧
      ∀ x ∈ rest, x ∈ b.certs.tail ∧ x.cert.selfSigned = false := by
  unfold WF at hwf
  rw [hl] at hwf
  obtain ⟨cs, hp, hc⟩ := hwf
  have hl0 : l = ⟨0, l.cert⟩ := by cases l; simp_all
  refine ⟨chainRest (some l) 1 (enumFrom 1 cs), ?_, ?_, ?_⟩
  · unfold chain
    rw [hl, hc]
    simp only [enumFrom]
    have h := chainRest_skip_leaf l l.cert (enumFrom 1 cs)
    rw [hp] at h
    show [l] ++ chainRest (some l) 0 (⟨0, l.cert⟩ :: enumFrom 1 cs) = _
    rw [h]; rfl
  · intro hmem
    obtain ⟨x, hx, hxp⟩ := List.mem_map.mp hmem
    have := (mem_chainRest _ _ _ _ hx).2.1
    simp [hxp] at this
  · intro x hx
    have := mem_chainRest _ _ _ _ hx
    refine ⟨?_, this.2.2 (by omega)⟩
    rw [hc]; simpa [enumFrom] using this.1

/-- the leaf's *content* can recur in the chain when the file lists the same certificate twice
    (the test in `Chain()` is pointer equality): exact witness -/
theorem chain_content_duplicate :
    let c : Cert := ⟨7, 1, 2, .rsa 1 65537⟩
    ∃ b, parseCertificates (.parsed [c, c]) = .ok b ∧ (chain b).map (·.cert) = [c, c] := by
  exact ⟨_, rfl, by decide⟩

/-! ### loaders -/

theorem parse_ok (src : CertSrc) (b : Bundle) (h : parseCertificates src = .ok b) :
    ∃ c cs, src = .parsed (c :: cs) ∧ b.leaf = some ⟨0, c⟩ ∧ WF b ∧ b.pgp = none := by
  cases src with
  | missing => simp [parseCertificates] at h
  | garbage => simp [parseCertificates] at h
  | parsed l =>
    cases l with
    | nil => simp [parseCertificates] at h
    | cons c cs =>
      simp only [parseCertificates, Res.ok.injEq] at h
      subst h
      exact ⟨c, cs, rfl, rfl, ⟨cs, rfl, rfl⟩, rfl⟩

theorem tokenX509_ok (key : PubKey) (src : Option CertSrc) (b : Bundle) (h : tokenX509 key src = .ok b) :
    b.priv = some key ∧ WF b ∧ b.pgp = none ∧
    (∀ l, b.leaf = some l → sameKeyPub key l.cert.pub = true ∧ ∃ cs, src = some (.parsed (l.cert :: cs))) ∧
    (b.leaf = none → src = none) := by
  unfold tokenX509 at h
  split at h
  · rename_i s
    split at h
    · rename_i b0 hb0
      obtain ⟨c, cs, hs, hleaf, hwf, hpg⟩ := parse_ok _ _ hb0
      split at h
      · rename_i l hl0
        split at h
        · rename_i hsk
          simp only [Res.ok.injEq] at h
          subst h
          refine ⟨rfl, ?_, hpg, ?_, ?_⟩
          · unfold WF at hwf ⊢; exact hwf
          · intro l' hl'
            have h1 : b0.leaf = some l' := hl'
            rw [hl0] at h1
            simp only [Option.some.injEq] at h1
            subst h1
            rw [hl0] at hleaf
            simp only [Option.some.injEq] at hleaf
            subst hleaf
            exact ⟨hsk, cs, by rw [hs]⟩
          · intro hn
            have h1 : b0.leaf = none := hn
            rw [hl0] at h1; simp at h1
        · simp at h
      · simp at h
    · simp at h
    · simp at h
    · simp at h
  · simp only [Res.ok.injEq] at h
    subst h
    exact ⟨rfl, rfl, rfl, fun l hl => by simp at hl, fun _ => rfl⟩

theorem tokenPgp_ok (key : PubKey) (b0 : Bundle) (pgp : Option PgpSrc) (b : Bundle) (h : tokenPgp key b0 pgp = .ok b) :
    b.leaf = b0.leaf ∧ b.certs = b0.certs ∧ b.priv = b0.priv ∧ b.keyName = b0.keyName ∧
    ((pgp = none ∧ b.pgp = b0.pgp) ∨ ∃ e, pgp = some (.parsed [e]) ∧ b.pgp = some e ∧ sameKeyPub key e.pub = true) := by
  unfold tokenPgp at h
  split at h
  · simp only [Res.ok.injEq] at h
    subst h
    exact ⟨rfl, rfl, rfl, rfl, .inl ⟨rfl, rfl⟩⟩
  · rename_i p
    split at h
    · rename_i e hp
      split at h
      · rename_i hsk
        simp only [Res.ok.injEq] at h
        subst h
        refine ⟨rfl, rfl, rfl, rfl, .inr ⟨e, ?_, rfl, hsk⟩⟩
        cases p <;> simp [parsePGP] at hp
        subst hp; rfl
      · simp at h
    · simp at h
    · simp at h
    · simp at h
    · simp at h

/-- what a successful `LoadTokenCertificates` guarantees -/
theorem loadToken_ok (key : PubKey) (file blob : Option CertSrc) (pgp : Option PgpSrc) (b : Bundle)
    (h : loadTokenCertificates key file blob pgp = .ok b) :
    b.priv = some key ∧ WF b ∧
    (∀ l, b.leaf = some l → sameKeyPub key l.cert.pub = true ∧
        ∃ cs, effective file blob = some (.parsed (l.cert :: cs))) ∧
    (b.leaf = none → effective file blob = none) ∧
    (∀ e, b.pgp = some e → sameKeyPub key e.pub = true ∧ pgp = some (.parsed [e])) ∧
    (b.pgp = none → pgp = none) := by
  unfold loadTokenCertificates at h
  split at h
  · rename_i bx hbx
    obtain ⟨hpriv, hwf, hpg, hleaf, hnoleaf⟩ := tokenX509_ok _ _ _ hbx
    obtain ⟨h1, h2, h3, _, h5⟩ := tokenPgp_ok _ _ _ _ h
    refine ⟨by rw [h3, hpriv], ?_, ?_, ?_, ?_, ?_⟩
    · unfold WF at hwf ⊢; rw [h1, h2]; exact hwf
    · intro l hl; exact hleaf l (by rw [← h1]; exact hl)
    · intro hn; exact hnoleaf (by rw [← h1]; exact hn)
    · intro e he
      rcases h5 with ⟨_, hb⟩ | ⟨e', hp, hb, hs⟩
      · rw [hb, hpg] at he; simp at he
      · rw [hb] at he; simp only [Option.some.injEq] at he; subst he; exact ⟨hs, hp⟩
    · intro hn
      rcases h5 with ⟨hp, _⟩ | ⟨e', _, hb, _⟩
      · exact hp
      · rw [hb] at hn; simp at hn
  · simp at h
  · simp at h
  · simp at h

example : ∃ b, loadTokenCertificates (.rsa 1 65537)
    (some (.parsed [⟨10, 1, 2, .rsa 1 65537⟩, ⟨11, 2, 2, .rsa 2 65537⟩])) none none = .ok b := ⟨_, rfl⟩

theorem loadX509KeyPair_ok (key : KeySrc) (src : CertSrc) (b : Bundle) (h : loadX509KeyPair key src = .ok b) :
    ∃ k l cs, key = .key k ∧ b.priv = some k ∧ b.leaf = some l ∧ WF b ∧
      src = .parsed (l.cert :: cs) ∧ sameKeyPub l.cert.pub k = true := by
  unfold loadX509KeyPair at h
  split at h
  · simp at h
  · simp at h
  · simp at h
  · rename_i _ _ k _
    split at h
    · rename_i b0 hb0
      obtain ⟨c0, cs, hs, hleaf, hwf, _⟩ := parse_ok _ _ hb0
      split at h
      · rename_i l hl0
        split at h
        · rename_i hsk
          simp only [Res.ok.injEq] at h
          subst h
          rw [hl0] at hleaf
          simp only [Option.some.injEq] at hleaf
          subst hleaf
          refine ⟨k, ⟨0, c0⟩, cs, rfl, rfl, hl0, ?_, hs, hsk⟩
          unfold WF at hwf ⊢; exact hwf
        · simp at h
      · simp at h
    · simp at h
    · simp at h
    · simp at h

example : ∃ b, loadX509KeyPair (.key (.ecdsa 256 3 103)) (.parsed [⟨10, 1, 1, .ecdsa 256 3 103⟩]) = .ok b := ⟨_, rfl⟩

/-! ### the redundant guards, each on its own -/

/-- `SignatureBuilder.Sign` emits only when the first certificate matches the key; it embeds `certs` as given -/
theorem builder_guard (key : PubKey) (certs : List Cert) (hc hh : Bool) (a : Artefact)
    (h : builderSign key certs hc hh = .ok a) :
    ∃ rest, certs = a.leaf :: rest ∧ a.embedded = certs ∧ a.signedBy = key ∧
      sameKeyPub key a.leaf.pub = true := by
  unfold builderSign at h
  split at h
  · simp at h
  · split at h
    · simp at h
    · split at h
      · simp at h
      · rename_i c rest
        split at h
        · rename_i hsk
          simp only [Res.ok.injEq] at h
          subst h
          exact ⟨rest, rfl, rfl, rfl, hsk⟩
        · simp at h

/-- … and rejects every mismatched pair, whatever the loader did -/
theorem builder_guard_rejects (key : PubKey) (certs : List Cert) (hc hh : Bool)
    (hm : certs = [] ∨ ∃ c rest, certs = c :: rest ∧ sameKeyPub key c.pub = false) :
    ∃ e, builderSign key certs hc hh = .err e := by
  unfold builderSign
  split
  · exact ⟨_, rfl⟩
  · split
    · exact ⟨_, rfl⟩
    · rcases hm with rfl | ⟨c, rest, rfl, hf⟩
      · exact ⟨_, rfl⟩
      · simp [sameKey, KeyArg.public, hf]

example : ∃ a, builderSign (.rsa 1 65537) [⟨10, 1, 2, .rsa 1 65537⟩, ⟨11, 2, 3, .rsa 2 65537⟩] true true = .ok a := ⟨_, rfl⟩
example : builderSign (.rsa 1 65537) [⟨11, 2, 3, .rsa 2 65537⟩, ⟨10, 1, 2, .rsa 1 65537⟩] true true = .err "mismatch" := rfl

theorem xmldsig_guard (key : PubKey) (certs : List Cert) (a : Artefact)
    (h : xmldsigSign key certs = .ok a) :
    ∃ rest, certs = a.leaf :: rest ∧ a.embedded = certs ∧ a.signedBy = key ∧
      sameKeyPub key a.leaf.pub = true := by
  unfold xmldsigSign at h
  split at h
  · simp at h
  · rename_i c rest
    split at h
    · rename_i hsk
      split at h
      · simp only [Res.ok.injEq] at h
        subst h
        exact ⟨rest, rfl, rfl, rfl, hsk⟩
      · simp at h
    · simp at h

theorem xmldsig_guard_rejects (key : PubKey) (certs : List Cert)
    (hm : certs = [] ∨ ∃ c rest, certs = c :: rest ∧ sameKeyPub key c.pub = false) :
    xmldsigSign key certs = .err "mismatch" := by
  unfold xmldsigSign
  rcases hm with rfl | ⟨c, rest, rfl, hf⟩
  · rfl
  · simp [sameKey, KeyArg.public, hf]

example : ∃ a, xmldsigSign (.ecdsa 384 5 105) [⟨10, 1, 2, .ecdsa 384 5 105⟩] = .ok a := ⟨_, rfl⟩
example : xmldsigSign (.ecdsa 256 3 103) [⟨10, 1, 2, .ecdsa 256 4 104⟩] = .err "mismatch" := rfl

/-! ### end to end: lookup, load, sign -/

theorem init_ok (c : Config) (n : String) (need : CertType) (b : Bundle) (h : init c n need = .ok b) :
    initKey c n = .ok b ∧ (need = .x509 → b.leaf.isSome) ∧ (need = .pgp → b.pgp.isSome) := by
  unfold init at h
  split at h
  · rename_i b0 hb0
    split at h
    · simp at h
    · rename_i h1
      split at h
      · simp at h
      · rename_i h2
        simp only [Res.ok.injEq] at h
        subst h
        refine ⟨hb0, ?_, ?_⟩
        · intro hn; subst hn
          cases hh : b0.leaf <;> simp_all
        · intro hn; subst hn
          cases hh : b0.pgp <;> simp_all
  · simp at h
  · simp at h
  · simp at h

/-- the certificate source that decides: the configured file, else the PKCS#12 bundle's chain -/
def cfgSource (kc : KeyConf) (k : PubKey) : Option CertSrc :=
  effective kc.x509file (kc.p12.map fun p => .parsed ((chain (parsePKCS12 k p.1 p.2)).map (·.cert)))

theorem initKey_ok (c : Config) (n : String) (b : Bundle) (h : initKey c n = .ok b) :
    ∃ kc k, c.getKey n = .ok kc ∧ kc.key = .key k ∧ b.keyName = n ∧ b.priv = some k ∧ WF b ∧
      (∀ l, b.leaf = some l → sameKeyPub k l.cert.pub = true ∧
          ∃ cs, cfgSource kc k = some (.parsed (l.cert :: cs))) ∧
      (∀ e, b.pgp = some e → sameKeyPub k e.pub = true ∧ kc.pgpfile = some (.parsed [e])) := by
  unfold initKey at h
  split at h
  · rename_i k blob hfk
    split at h
    · rename_i kc hkc
      split at h
      · rename_i b1 hb1
        simp only [Res.ok.injEq] at h
        subst h
        obtain ⟨hpriv, hwf, hleaf, _, hpgp, _⟩ := loadToken_ok _ _ _ _ _ hb1
        -- relate blob to the configuration
        unfold fileGetKey at hfk
        rw [hkc] at hfk
        simp only at hfk
        split at hfk
        · simp at hfk
        · simp at hfk
        · rename_i k' hk'
          have hblob : k' = k ∧ blob = kc.p12.map fun p => .parsed ((chain (parsePKCS12 k p.1 p.2)).map (·.cert)) := by
            split at hfk
            · rename_i l rest hp
              simp only [Res.ok.injEq, Prod.mk.injEq] at hfk
              obtain ⟨h1, h2⟩ := hfk
              subst h1
              exact ⟨rfl, by rw [hp, ← h2]; rfl⟩
            · rename_i hp
              simp only [Res.ok.injEq, Prod.mk.injEq] at hfk
              obtain ⟨h1, h2⟩ := hfk
              subst h1
              exact ⟨rfl, by rw [hp, ← h2]; rfl⟩
          obtain ⟨hkk, hbl⟩ := hblob
          subst hkk
          refine ⟨kc, k', hkc, hk', rfl, hpriv, by simpa [WF] using hwf, ?_, hpgp⟩
          intro l hl
          obtain ⟨hs, cs, he⟩ := hleaf l hl
          exact ⟨hs, cs, by unfold cfgSource; rw [← hbl]; exact he⟩
      · simp at h
      · simp at h
      · simp at h
    · simp at h
    · simp at h
    · simp at h
  · simp at h
  · simp at h
  · simp at h

/-- **C07, main statement.**  For every configuration, requested key name and X.509 signer kind: if an
    artefact is emitted then (1) the key that signed is the key of the configuration entry the name
    resolves to, and the bundle is labelled with the requested name; (2) the designated leaf is the
    bundle's leaf and `SameKey` holds between the signing key and the leaf's public key; (3) the embedded
    certificates begin with the leaf; (4) in `Chain()` the leaf pointer is not repeated. -/
theorem emitted_leaf_matches_key (c : Config) (n : String) (kind : SignerKind) (b : Bundle) (a : Artefact)
    (h : signCfg c n kind = .ok (b, a)) :
    ∃ kc k l rest,
      c.getKey n = .ok kc ∧ kc.key = .key k ∧ b.keyName = n ∧
      b.priv = some k ∧ a.signedBy = k ∧
      b.leaf = some l ∧ a.leaf = l.cert ∧ sameKeyPub k a.leaf.pub = true ∧
      a.embedded = a.leaf :: rest ∧
      (∃ cs, cfgSource kc k = some (.parsed (a.leaf :: cs))) ∧
      (∃ crest, chain b = l :: crest ∧ l.ptr ∉ crest.map (·.ptr)) := by
  unfold signCfg at h
  split at h
  · rename_i b0 hb0
    split at h
    · rename_i a0 ha0
      simp only [Res.ok.injEq, Prod.mk.injEq] at h
      obtain ⟨hb, ha⟩ := h
      subst hb ha
      obtain ⟨hik, hx, _⟩ := init_ok _ _ _ _ hb0
      obtain ⟨kc, k, hkc, hkey, hname, hpriv, hwf, hleaf, _⟩ := initKey_ok _ _ _ hik
      have hsome := hx rfl
      obtain ⟨l, hl⟩ := Option.isSome_iff_exists.mp hsome
      obtain ⟨hsk, cs, hsrc⟩ := hleaf l hl
      obtain ⟨crest, hchain, hnot, _⟩ := chain_leaf_first _ _ hl hwf
      have hmapchain : (chain b0).map (·.cert) = l.cert :: crest.map (·.cert) := by rw [hchain]; rfl
      have hcerts : ∃ r, b0.certs.map (·.cert) = l.cert :: r := by
        unfold WF at hwf; rw [hl] at hwf
        obtain ⟨cs', _, hc'⟩ := hwf
        rw [hc']; exact ⟨_, rfl⟩
      unfold signX509 at ha0
      rw [hpriv] at ha0
      simp only at ha0
      cases kind with
      | builderChain =>
        simp only at ha0
        obtain ⟨rest, h1, h2, h3, h4⟩ := builder_guard _ _ _ _ _ ha0
        have hemb : a0.embedded = a0.leaf :: rest := h2.trans h1
        rw [hmapchain] at h1
        have hle : a0.leaf = l.cert := by injection h1 with h1 _; exact h1.symm
        exact ⟨kc, k, l, rest, hkc, hkey, hname, hpriv, h3, hl, hle, h4, hemb,
          ⟨cs, by rw [hle]; exact hsrc⟩, ⟨crest, hchain, hnot⟩⟩
      | builderCerts =>
        simp only at ha0
        obtain ⟨rest, h1, h2, h3, h4⟩ := builder_guard _ _ _ _ _ ha0
        have hemb : a0.embedded = a0.leaf :: rest := h2.trans h1
        obtain ⟨r, hr⟩ := hcerts
        rw [hr] at h1
        have hle : a0.leaf = l.cert := by injection h1 with h1 _; exact h1.symm
        exact ⟨kc, k, l, rest, hkc, hkey, hname, hpriv, h3, hl, hle, h4, hemb,
          ⟨cs, by rw [hle]; exact hsrc⟩, ⟨crest, hchain, hnot⟩⟩
      | xmlChain =>
        simp only at ha0
        obtain ⟨rest, h1, h2, h3, h4⟩ := xmldsig_guard _ _ _ ha0
        have hemb : a0.embedded = a0.leaf :: rest := h2.trans h1
        rw [hmapchain] at h1
        have hle : a0.leaf = l.cert := by injection h1 with h1 _; exact h1.symm
        exact ⟨kc, k, l, rest, hkc, hkey, hname, hpriv, h3, hl, hle, h4, hemb,
          ⟨cs, by rw [hle]; exact hsrc⟩, ⟨crest, hchain, hnot⟩⟩
      | rawChain =>
        simp only [hl] at ha0
        simp only [Res.ok.injEq] at ha0
        subst ha0
        exact ⟨kc, k, l, crest.map (·.cert), hkc, hkey, hname, hpriv, rfl, hl, rfl, hsk, hmapchain,
          ⟨cs, hsrc⟩, ⟨crest, hchain, hnot⟩⟩
    · simp at h
    · simp at h
    · simp at h
  · simp at h
  · simp at h
  · simp at h

/-- PGP: the entity embedded as issuer carries a public key that `SameKey` accepts against the signing key -/
theorem emitted_pgp_matches_key (c : Config) (n : String) (b : Bundle) (k : PubKey) (e : PgpEntity)
    (h : signCfgPgp c n = .ok (b, k, e)) :
    ∃ kc, c.getKey n = .ok kc ∧ kc.key = .key k ∧ b.keyName = n ∧ b.priv = some k ∧ b.pgp = some e ∧
      sameKeyPub k e.pub = true ∧ kc.pgpfile = some (.parsed [e]) := by
  unfold signCfgPgp at h
  split at h
  · rename_i b0 hb0
    split at h
    · rename_i r hr
      simp only [Res.ok.injEq, Prod.mk.injEq] at h
      obtain ⟨hb, hk⟩ := h
      subst hb hk
      obtain ⟨hik, _, _⟩ := init_ok _ _ _ _ hb0
      obtain ⟨kc, k0, hkc, hkey, hname, hpriv, _, _, hpgp⟩ := initKey_ok _ _ _ hik
      unfold signPgp at hr
      rw [hpriv] at hr
      cases hp : b0.pgp with
      | none => simp [hp] at hr
      | some e0 =>
        simp only [hp, Res.ok.injEq, Prod.mk.injEq] at hr
        obtain ⟨hr1, hr2⟩ := hr
        subst hr1 hr2
        obtain ⟨h1, h2⟩ := hpgp e0 hp
        exact ⟨kc, hkc, hkey, hname, hpriv, rfl, h1, h2⟩
    · simp at h
    · simp at h
    · simp at h
  · simp at h
  · simp at h
  · simp at h

/-! non-vacuity: a two-key configuration with an alias; leaf + intermediate + root in the file -/
def exLeaf : Cert := ⟨10, 1, 2, .rsa 1 65537⟩
def exInter : Cert := ⟨11, 2, 3, .rsa 2 65537⟩
def exRoot : Cert := ⟨12, 3, 3, .ecdsa 256 4 104⟩
def exCfg : Config :=
  [ { name := "k0", key := .key (.rsa 1 65537), p12 := none, x509file := some (.parsed [exLeaf, exInter, exRoot]), pgpfile := none },
    { name := "k1", key := .key (.rsa 2 65537), p12 := some (exInter, [exRoot]), x509file := none,
      pgpfile := some (.parsed [⟨1, .rsa 2 65537⟩]) },
    { name := "al", alias := "k1", token := "", key := .missing, p12 := none, x509file := none, pgpfile := none } ]

example : ∃ b a, signCfg exCfg "k0" .builderChain = .ok (b, a) ∧ a.embedded = [exLeaf, exInter] ∧ a.leaf = exLeaf :=
  ⟨_, _, rfl, rfl, rfl⟩
example : ∃ b a, signCfg exCfg "k0" .builderCerts = .ok (b, a) ∧ a.embedded = [exLeaf, exInter, exRoot] :=
  ⟨_, _, rfl, rfl⟩
example : ∃ b a, signCfg exCfg "al" .rawChain = .ok (b, a) ∧ a.leaf = exInter ∧ b.keyName = "al" ∧ a.signedBy = .rsa 2 65537 :=
  ⟨_, _, rfl, rfl, rfl, rfl⟩
example : ∃ b e, signCfgPgp exCfg "al" = .ok (b, .rsa 2 65537, e) := ⟨_, _, rfl⟩

/-! ### mismatched configurations are errors -/

/-- **C07, negative half.**  Whatever the configuration entry otherwise contains: when the first
    certificate of the deciding source is not accepted by `SameKey` against the entry's key, signing
    returns `err mismatch` – no bundle, no artefact – for every signer kind. -/
theorem mismatch_is_error (c : Config) (n : String) (kind : SignerKind) (kc : KeyConf) (k : PubKey)
    (c0 : Cert) (cs : List Cert)
    (hkc : c.getKey n = .ok kc) (hkey : kc.key = .key k)
    (hsrc : cfgSource kc k = some (.parsed (c0 :: cs)))
    (hm : sameKeyPub k c0.pub = false) :
    signCfg c n kind = .err "mismatch" ∧ signCfgPgp c n = .err "mismatch" := by
  have hload : initKey c n = .err "mismatch" := by
    unfold initKey fileGetKey
    rw [hkc]
    simp only [hkey]
    have hl : ∀ blob, effective kc.x509file blob = some (.parsed (c0 :: cs)) →
        loadTokenCertificates k kc.x509file blob kc.pgpfile = .err "mismatch" := by
      intro blob he
      simp [loadTokenCertificates, tokenX509, he, parseCertificates, sameKey, KeyArg.public, hm]
    unfold cfgSource at hsrc
    cases hp : kc.p12 with
    | none =>
      rw [hp] at hsrc
      simp only [Option.map] at hsrc
      simp only [hl none hsrc]
    | some p =>
      obtain ⟨l, rest⟩ := p
      rw [hp] at hsrc
      simp only [Option.map] at hsrc
      simp only [hl _ hsrc]
  constructor
  · unfold signCfg init; rw [hload]
  · unfold signCfgPgp init; rw [hload]

/-- instances named in the property text, on a one-entry configuration -/
def oneKey (k : PubKey) (file : CertSrc) : Config :=
  [ { name := "k", key := .key k, p12 := none, x509file := some file, pgpfile := none } ]

theorem mismatch_cases (kind : SignerKind) :
    -- certificate of another RSA key
    signCfg (oneKey (.rsa 1 65537) (.parsed [⟨10, 1, 1, .rsa 2 65537⟩])) "k" kind = .err "mismatch" ∧
    -- RSA key, ECDSA certificate and vice versa
    signCfg (oneKey (.rsa 1 65537) (.parsed [⟨10, 1, 1, .ecdsa 256 3 103⟩])) "k" kind = .err "mismatch" ∧
    signCfg (oneKey (.ecdsa 256 3 103) (.parsed [⟨10, 1, 1, .rsa 1 65537⟩])) "k" kind = .err "mismatch" ∧
    -- same curve, different point (other key; negated point)
    signCfg (oneKey (.ecdsa 256 3 103) (.parsed [⟨10, 1, 1, .ecdsa 256 4 104⟩])) "k" kind = .err "mismatch" ∧
    signCfg (oneKey (.ecdsa 256 3 103) (.parsed [⟨10, 1, 1, .ecdsa 256 3 203⟩])) "k" kind = .err "mismatch" ∧
    -- chain file with the CA first, the matching leaf second
    signCfg (oneKey (.rsa 1 65537) (.parsed [⟨11, 2, 2, .rsa 2 65537⟩, ⟨10, 1, 2, .rsa 1 65537⟩])) "k" kind = .err "mismatch" ∧
    -- empty certificate file, unreadable file, unparsable file, no certificate configured at all
    signCfg (oneKey (.rsa 1 65537) (.parsed [])) "k" kind = .err "nocerts" ∧
    signCfg (oneKey (.rsa 1 65537) .missing) "k" kind = .err "io" ∧
    signCfg (oneKey (.rsa 1 65537) .garbage) "k" kind = .err "parse" ∧
    signCfg [ { name := "k", key := .key (.rsa 1 65537), p12 := none, x509file := none, pgpfile := none } ] "k" kind = .err "nocert" ∧
    -- a name that is not configured
    signCfg (oneKey (.rsa 1 65537) (.parsed [⟨10, 1, 1, .rsa 1 65537⟩])) "other" kind = .err "config" := by
  cases kind <;> exact ⟨rfl, rfl, rfl, rfl, rfl, rfl, rfl, rfl, rfl, rfl, rfl⟩

/-- PGP: certificate of another key, an ECDSA entity (go-crypto's own key type), zero or two entities -/
theorem mismatch_cases_pgp :
    let cfg (k : PubKey) (p : PgpSrc) : Config :=
      [ { name := "k", key := .key k, p12 := none, x509file := none, pgpfile := some p } ]
    signCfgPgp (cfg (.rsa 1 65537) (.parsed [⟨1, .rsa 2 65537⟩])) "k" = .err "mismatch" ∧
    signCfgPgp (cfg (.ecdsa 256 3 103) (.parsed [⟨1, .other 9⟩])) "k" = .err "mismatch" ∧
    signCfgPgp (cfg (.rsa 1 65537) (.parsed [])) "k" = .err "pgpcount" ∧
    signCfgPgp (cfg (.rsa 1 65537) (.parsed [⟨1, .rsa 1 65537⟩, ⟨2, .rsa 1 65537⟩])) "k" = .err "pgpcount" ∧
    signCfgPgp (cfg (.rsa 1 65537) .empty) "k" = .panic "parsePGP:blob[0]" :=
  ⟨rfl, rfl, rfl, rfl, rfl⟩

/-- the X.509 certificate is checked before the PGP one, and a PKCS#12 bundle whose first certificate
    belongs to another key is refused although `ParsePKCS12` itself compares nothing -/
theorem p12_mismatch :
    signCfg [ { name := "k", key := .key (.rsa 1 65537), p12 := some (⟨10, 1, 2, .rsa 2 65537⟩, [⟨11, 2, 2, .rsa 1 65537⟩]),
                x509file := none, pgpfile := none } ] "k" .rawChain = .err "mismatch" := rfl

theorem loadX509KeyPair_mismatch (k : PubKey) (c0 : Cert) (cs : List Cert) (hm : sameKeyPub c0.pub k = false) :
    loadX509KeyPair (.key k) (.parsed (c0 :: cs)) = .err "mismatch" := by
  simp [loadX509KeyPair, parseCertificates, sameKey, KeyArg.public, hm]

theorem loadToken_mismatch (k : PubKey) (file blob : Option CertSrc) (pgp : Option PgpSrc) (c0 : Cert) (cs : List Cert)
    (he : effective file blob = some (.parsed (c0 :: cs))) (hm : sameKeyPub k c0.pub = false) :
    loadTokenCertificates k file blob pgp = .err "mismatch" := by
  simp [loadTokenCertificates, tokenX509, he, parseCertificates, sameKey, KeyArg.public, hm]

/-- file certificate takes precedence over the token-stored blob: a matching blob does not rescue a
    mismatching file, and a mismatching blob is ignored when a matching file is configured -/
theorem file_overrides_blob :
    loadTokenCertificates (.rsa 1 65537) (some (.parsed [⟨10, 1, 1, .rsa 2 65537⟩])) (some (.parsed [⟨11, 1, 1, .rsa 1 65537⟩])) none
      = .err "mismatch" ∧
    (loadTokenCertificates (.rsa 1 65537) (some (.parsed [⟨11, 1, 1, .rsa 1 65537⟩])) (some (.parsed [⟨10, 1, 1, .rsa 2 65537⟩])) none).isOk
      = true ∧
    loadTokenCertificates (.rsa 1 65537) (some (.parsed [])) (some (.parsed [⟨11, 1, 1, .rsa 1 65537⟩])) none = .err "nocerts" :=
  ⟨rfl, rfl, rfl⟩

/-! ### the signature value verifies under the leaf's key, for any signature scheme -/

/-- With any `SigScheme` whose public keys are represented faithfully (`enc` injective): a signature made
    by the private key verifies under the leaf's public key *because* `SameKey` forces the two public keys
    to be equal – provided the curve exception is excluded for this pair. -/
theorem signature_verifies (S : SigScheme) (enc : S.Pub → PubKey) (henc : ∀ p q, enc p = enc q → p = q)
    (k : S.Priv) (leafPub : S.Pub) (m : Bytes)
    (hsame : sameKeyPub (enc (S.pub k)) (enc leafPub) = true)
    (hpt : NoSharedPoint (enc (S.pub k)) (enc leafPub)) :
    S.verify leafPub m (S.sign k m) = true := by
  have : S.pub k = leafPub := henc _ _ (sameKey_sound_partial _ _ hpt hsame)
  rw [← this]; exact S.sound k m

/-- end to end with a signature scheme: whatever artefact `signCfg` emits, the signature value made with
    the configured private key verifies under the embedded leaf's public key -/
theorem emitted_signature_verifies (S : SigScheme) (enc : S.Pub → PubKey) (henc : ∀ p q, enc p = enc q → p = q)
    (c : Config) (n : String) (kind : SignerKind) (b : Bundle) (a : Artefact)
    (k : S.Priv) (leafPub : S.Pub) (m : Bytes)
    (h : signCfg c n kind = .ok (b, a))
    (hk : a.signedBy = enc (S.pub k)) (hl : a.leaf.pub = enc leafPub)
    (hpt : NoSharedPoint (enc (S.pub k)) (enc leafPub)) :
    S.verify leafPub m (S.sign k m) = true := by
  obtain ⟨_, k0, _, _, _, _, _, _, hs, _, _, hsame, _⟩ := emitted_leaf_matches_key c n kind b a h
  rw [hs] at hk
  rw [hk, hl] at hsame
  exact signature_verifies S enc henc k leafPub m hsame hpt

/-- a toy scheme showing the hypotheses are satisfiable: keys are numbers, pub = id, a signature is the pair -/
abbrev toyScheme : SigScheme where
  Priv := Nat
  Pub := Nat
  Sig := Nat × Bytes
  pub := id
  sign := fun k m => (k, m)
  verify := fun p m s => s.1 == p && s.2 == m
  sound := by intro k m; simp

example : toyScheme.verify 1 [1, 2] (toyScheme.sign 1 [1, 2]) = true :=
  signature_verifies toyScheme (fun p => .rsa p 65537) (by intro p q h; injection h) 1 1 [1, 2] (by decide)
    (by intro c1 c2 x y h; cases h)

end Relic.Props.C07

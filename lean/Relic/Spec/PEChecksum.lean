/-
  Relic.Spec.PEChecksum — declarative definition of the PE image checksum (the value stored in
  OptionalHeader.CheckSum; algorithm of imagehlp!CheckSumMappedFile as described in
  "An Analysis of the Windows PE Checksum Algorithm"), written without reference to relic's code:

    * read the file as little-endian 16-bit words, an odd final byte zero-extended;
    * the four bytes of the checksum field itself (`cksumPos .. cksumPos+3`) read as zero;
    * add the words one by one in ones'-complement fashion: after every addition the carry out of
      bit 15 is added back in (end-around carry);
    * fold once more, then add the file length; the result is taken modulo 2^32.
-/
import Relic.Base.Bytes
namespace Relic.Spec
open Relic

/-- byte `i` of the file, with the four bytes of the checksum field read as zero -/
def zeroField (cksumPos : Nat) : Nat → Bytes → Bytes
  | _, [] => []
  | i, b :: bs => (if cksumPos ≤ i ∧ i < cksumPos + 4 then 0 else b) :: zeroField cksumPos (i + 1) bs

/-- little-endian 16-bit words; an odd final byte is zero-extended -/
def words16 : Bytes → List Nat
  | a :: b :: rest => (a.toNat + 256 * b.toNat) :: words16 rest
  | [a] => [a.toNat]
  | [] => []

/-- end-around carry: add the carry out of bit 15 back into the low 16 bits -/
def eac (t : Nat) : Nat := t % 65536 + t / 65536

/-- ones'-complement style sum of the words, carry folded after every addition -/
def wordSum (ws : List Nat) : Nat := ws.foldl (fun acc w => eac (acc + w)) 0

/-- the PE checksum of `file` whose checksum field starts at offset `cksumPos` -/
def peChecksum (file : Bytes) (cksumPos : Nat) : Nat :=
  (eac (wordSum (words16 (zeroField cksumPos 0 file))) + file.length) % 4294967296

/-- the same sum with no field excluded (what a checker computes that does not know the field) -/
def peChecksumPlain (file : Bytes) : Nat :=
  (eac (wordSum (words16 file)) + file.length) % 4294967296

end Relic.Spec

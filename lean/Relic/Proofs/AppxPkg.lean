/-
  Lemmas about `Relic.Model.AppxPkg`: `run` over concatenated step lists, what each group of steps of `Verify` accepts,
  the block loop, the digest list codec.
-/
import Relic.Model.AppxPkg
import Relic.Proofs.Appx
namespace Relic.AppxPkg
open Relic Relic.Appx

/-! ### `run` -/

theorem run_append (H : Nat → Bytes → Bytes) : ∀ (a b : List Step),
    run H (a ++ b) = match run H a with
      | .ok _ => run H b
      | r => r
  | [], b => by simp [run]
  | .cmp cls alg s e :: a, b => by
    simp only [List.cons_append, run]
    split
    · exact run_append H a b
    · rfl
  | .stop (.ok u) :: a, b => by
    simp only [List.cons_append, run]
    exact run_append H a b
  | .stop (.err e) :: a, b => by simp [run]
  | .stop (.panic e) :: a, b => by simp [run]
  | .stop .diverge :: a, b => by simp [run]

theorem run_append_ok {H : Nat → Bytes → Bytes} {a b : List Step} :
    run H (a ++ b) = .ok () ↔ run H a = .ok () ∧ run H b = .ok () := by
  rw [run_append]
  cases h : run H a with
  | ok u => cases u; simp
  | err e => simp
  | panic e => simp
  | diverge => simp

theorem run_nil (H : Nat → Bytes → Bytes) : run H [] = .ok () := rfl

theorem run_stop_err (H : Nat → Bytes → Bytes) (e : String) (r : List Step) : run H (.stop (.err e) :: r) ≠ .ok () := by
  simp [run]

theorem run_stopOf {α} (H : Nat → Bytes → Bytes) (x : Res α) (hx : ∀ a, x ≠ .ok a) : run H [stopOf x] ≠ .ok () := by
  cases x with
  | ok a => exact absurd rfl (hx a)
  | err e => simp [stopOf, run]
  | panic e => simp [stopOf, run]
  | diverge => simp [stopOf, run]

theorem run_cmp_ok {H : Nat → Bytes → Bytes} {cls : String} {alg : Nat} {s e : Bytes} {r : List Step} :
    run H (.cmp cls alg s e :: r) = .ok () ↔ H alg s = e ∧ run H r = .ok () := by
  simp only [run]
  split <;> simp_all

/-! ### `verifyFile` -/

theorem fileSteps_ok {H : Nat → Bytes → Bytes} {v : View} {s : Sig} {tag name : Bytes} {cls : String} :
    run H (fileSteps v s tag name cls) = .ok () ↔
      (v.find name = none ∧ tagValue s.values tag = none) ∨
      (∃ m p e, v.find name = some m ∧ m.content = .ok p ∧ tagValue s.values tag = some e ∧ H s.alg p = e) := by
  unfold fileSteps
  cases hf : v.find name with
  | none =>
    cases ht : tagValue s.values tag with
    | none => simp [run]
    | some e => simp [run]
  | some m =>
    cases ht : tagValue s.values tag with
    | none => simp [run]
    | some e =>
      cases hc : m.content <;> simp [hc, run_cmp_ok, stopOf, run]

/-- two lists related element by element (core has no `List.Forall₂`) -/
inductive All2 {α β : Type} (R : α → β → Prop) : List α → List β → Prop
  | nil : All2 R [] []
  | cons {a b as bs} : R a b → All2 R as bs → All2 R (a :: as) (b :: bs)

/-! ### the block loop -/

/-- blocks of a member: the streams hashed, in order -/
def nblocks (usize : Nat) : Nat := (usize + blockSize - 1) / blockSize

theorem blockSteps_ok {H : Nat → Bytes → Bytes} {alg : Nat} : ∀ {bs : List (Option Bytes)} {s : Bytes} {rem : Nat},
    run H (blockSteps alg s rem bs) = .ok () ↔
      match bs with
      | [] => True
      | b :: bt => min rem blockSize ≤ s.length ∧ b = some (H alg (s.take (min rem blockSize))) ∧
          run H (blockSteps alg (s.drop (min rem blockSize)) (rem - min rem blockSize) bt) = .ok ()
  | [], s, rem => by simp [blockSteps, run]
  | b :: bt, s, rem => by
    simp only [blockSteps]
    by_cases hl : s.length < min rem blockSize
    · simp [hl, run]; omega
    · simp only [hl, if_false]
      cases b with
      | none => simp [run]
      | some e =>
        simp only [run_cmp_ok]
        constructor
        · rintro ⟨h1, h2⟩; exact ⟨by omega, by rw [h1], h2⟩
        · rintro ⟨_, h1, h2⟩; exact ⟨by simpa using h1.symm, h2⟩

/-- a collision of the hash family -/
def Collision (H : Nat → Bytes → Bytes) : Prop := ∃ alg a b, a ≠ b ∧ H alg a = H alg b

/-- two streams that pass the same block list agree on the bytes the blocks cover, unless the hash collides -/
theorem blockSteps_inj {H : Nat → Bytes → Bytes} {alg : Nat} : ∀ (bs : List (Option Bytes)) (p q : Bytes) (rem : Nat),
    run H (blockSteps alg p rem bs) = .ok () → run H (blockSteps alg q rem bs) = .ok () →
    p.take (min rem (bs.length * blockSize)) = q.take (min rem (bs.length * blockSize)) ∨ Collision H
  | [], p, q, rem, _, _ => by simp
  | b :: bt, p, q, rem, hp, hq => by
    rw [blockSteps_ok] at hp hq
    obtain ⟨lp, ep, rp⟩ := hp
    obtain ⟨lq, eq, rq⟩ := hq
    have hh : H alg (p.take (min rem blockSize)) = H alg (q.take (min rem blockSize)) := by
      have := ep.symm.trans eq
      simpa using this
    by_cases hne : p.take (min rem blockSize) = q.take (min rem blockSize)
    · rcases blockSteps_inj bt _ _ _ rp rq with h | h
      · left
        have e1 : ∀ (x : Bytes), x.take (min rem ((bt.length + 1) * blockSize)) =
            x.take (min rem blockSize) ++ (x.drop (min rem blockSize)).take (min (rem - min rem blockSize) (bt.length * blockSize)) := by
          intro x
          rw [← List.take_add]
          congr 1
          have : blockSize > 0 := by decide
          rcases Nat.le_total rem blockSize with h1 | h1
          · rw [Nat.min_eq_left h1]
            have : rem ≤ (bt.length + 1) * blockSize := by
              calc rem ≤ blockSize := h1
                _ ≤ (bt.length + 1) * blockSize := Nat.le_mul_of_pos_left _ (by omega)
            omega
          · rw [Nat.min_eq_right h1, Nat.add_mul, Nat.one_mul]
            omega
        simp only [List.length_cons]
        rw [e1 p, e1 q, hne, h]
      · exact Or.inr h
    · exact Or.inr ⟨alg, _, _, hne, hh⟩

/-- one member against one `File` element -/
def Match (H : Nat → Bytes → Bytes) (alg : Nat) (f : Entry) (b : BmFile) : Prop :=
  b.name = zipToDos f.name ∧ b.size = f.usize ∧ b.blocks.length = nblocks f.usize ∧
    ∃ p, f.content = .ok p ∧ run H (blockSteps alg p f.usize b.blocks) = .ok ()

/-- **what `verifyBlockMap`'s member loop accepts**: the covered members, in order, match a prefix of the `File` list -/
theorem bmLoop_ok {H : Nat → Bytes → Bytes} {alg : Nat} {isBundle : Bool} : ∀ {es : List Entry} {bms : List BmFile},
    run H (bmLoop alg isBundle es bms) = .ok () ↔
      ∃ pre rest, bms = pre ++ rest ∧ All2 (Match H alg) (es.filter fun f => covered isBundle f.name) pre
  | [], bms => by
    simp only [bmLoop, run, List.filter_nil, true_iff]
    exact ⟨[], bms, rfl, .nil⟩
  | f :: fs, bms => by
    simp only [bmLoop]
    by_cases hc : covered isBundle f.name = true
    · simp only [hc, Bool.not_true, Bool.false_eq_true, if_false, List.filter_cons_of_pos]
      cases bms with
      | nil =>
        simp only [run]
        constructor
        · intro h; cases h
        · rintro ⟨pre, rest, he, hf⟩
          have : pre = [] := by
            cases pre with
            | nil => rfl
            | cons => simp at he
          subst this
          cases hf
      | cons b bt =>
        by_cases h1 : b.name ≠ zipToDos f.name ∨ b.size ≠ f.usize
        · simp only [h1, if_true, run]
          constructor
          · intro h; cases h
          · rintro ⟨pre, rest, he, hf⟩
            cases hf with
            | cons hm _ =>
              simp only [List.cons_append, List.cons.injEq] at he
              obtain ⟨rfl, _⟩ := he
              rcases h1 with h1 | h1
              · exact absurd hm.1 h1
              · exact absurd hm.2.1 h1
        · simp only [h1, if_false]
          have h1' : b.name = zipToDos f.name ∧ b.size = f.usize := by
            constructor
            · exact Classical.byContradiction fun h => h1 (Or.inl h)
            · exact Classical.byContradiction fun h => h1 (Or.inr h)
          by_cases h2 : b.blocks.length ≠ (f.usize + blockSize - 1) / blockSize
          · rw [if_pos h2]
            simp only [run]
            constructor
            · intro h; cases h
            · rintro ⟨pre, rest, he, hf⟩
              cases hf with
              | cons hm _ =>
                simp only [List.cons_append, List.cons.injEq] at he
                obtain ⟨rfl, _⟩ := he
                exact absurd hm.2.2.1 h2
          · rw [if_neg h2]
            have h2' : b.blocks.length = nblocks f.usize := Classical.byContradiction fun h => h2 h
            cases hct : f.content with
            | ok p =>
              simp only [run_append_ok, bmLoop_ok (es := fs) (bms := bt)]
              constructor
              · rintro ⟨hb, pre, rest, he, hf⟩
                exact ⟨b :: pre, rest, by simp [he], .cons ⟨h1'.1, h1'.2, h2', p, hct, hb⟩ hf⟩
              · rintro ⟨pre, rest, he, hf⟩
                cases hf with
                | cons hm hr =>
                  simp only [List.cons_append, List.cons.injEq] at he
                  obtain ⟨rfl, he⟩ := he
                  obtain ⟨_, _, _, p', hp', hb⟩ := hm
                  rw [hct] at hp'
                  cases hp'
                  exact ⟨hb, _, rest, he, hr⟩
            | err x =>
              simp only [stopOf, run]
              constructor
              · intro h; cases h
              · rintro ⟨pre, rest, he, hf⟩
                cases hf with
                | cons hm _ =>
                  simp only [List.cons_append, List.cons.injEq] at he
                  obtain ⟨rfl, _⟩ := he
                  obtain ⟨_, _, _, p', hp', _⟩ := hm
                  rw [hct] at hp'; cases hp'
            | panic x =>
              simp only [stopOf, run]
              constructor
              · intro h; cases h
              · rintro ⟨pre, rest, he, hf⟩
                cases hf with
                | cons hm _ =>
                  simp only [List.cons_append, List.cons.injEq] at he
                  obtain ⟨rfl, _⟩ := he
                  obtain ⟨_, _, _, p', hp', _⟩ := hm
                  rw [hct] at hp'; cases hp'
            | diverge =>
              simp only [stopOf, run]
              constructor
              · intro h; cases h
              · rintro ⟨pre, rest, he, hf⟩
                cases hf with
                | cons hm _ =>
                  simp only [List.cons_append, List.cons.injEq] at he
                  obtain ⟨rfl, _⟩ := he
                  obtain ⟨_, _, _, p', hp', _⟩ := hm
                  rw [hct] at hp'; cases hp'
    · have hc' : covered isBundle f.name = false := by simpa using hc
      simp only [hc', Bool.not_false, if_true]
      rw [bmLoop_ok (es := fs) (bms := bms)]
      simp [List.filter_cons, hc']

/-! ### the other groups of steps -/

theorem bmSteps_ok {H : Nat → Bytes → Bytes} {E : Env} {v : View} :
    run H (bmSteps E v) = .ok () ↔
      ∃ m blob bm alg, v.find sBlockMap = some m ∧ m.content = .ok blob ∧ E.parseBM blob = some bm ∧ bm.alg = some alg ∧
        run H (bmLoop alg v.isBundle v.entries bm.files) = .ok () := by
  unfold bmSteps
  cases hf : v.find sBlockMap with
  | none => simp [run]
  | some m =>
    cases hc : m.content with
    | ok blob =>
      cases hp : E.parseBM blob with
      | none => simp [hc, hp, run]
      | some bm =>
        cases ha : bm.alg with
        | none => simp [hc, hp, ha, run]
        | some alg => simp [hc, hp, ha]
    | err x => simp [hc, stopOf, run]
    | panic x => simp [hc, stopOf, run]
    | diverge => simp [hc, stopOf, run]

theorem catSteps_ok {H : Nat → Bytes → Bytes} {E : Env} {v : View} {s : Sig} :
    run H (catSteps E v s) = .ok () ↔
      v.find sCatalog = none ∨
      ∃ m blob c, v.find sCatalog = some m ∧ m.content = .ok blob ∧ E.openCat blob = .ok c ∧ c.raw = s.cert.raw := by
  unfold catSteps
  cases hf : v.find sCatalog with
  | none => simp [run]
  | some m =>
    cases hc : m.content with
    | ok blob =>
      cases ho : E.openCat blob with
      | ok c =>
        by_cases h : c.raw = s.cert.raw
        · simp [hc, ho, h, run]
        · simp [hc, ho, h, run]
      | err x => simp [hc, ho, stopOf, run]
      | panic x => simp [hc, ho, stopOf, run]
      | diverge => simp [hc, ho, stopOf, run]
    | err x => simp [hc, stopOf, run]
    | panic x => simp [hc, stopOf, run]
    | diverge => simp [hc, stopOf, run]

theorem metaSteps_ok {H : Nat → Bytes → Bytes} {v : View} {s : Sig} :
    run H (metaSteps v s) = .ok () ↔
      ∃ pc cd, v.zmeta = .ok (pc, cd) ∧ H s.alg pc = (tagValue s.values tAXPC).getD [] ∧
        H s.alg cd = (tagValue s.values tAXCD).getD [] := by
  unfold metaSteps
  cases hz : v.zmeta with
  | ok pr =>
    obtain ⟨pc, cd⟩ := pr
    simp only [run_cmp_ok, run_nil, and_true, Res.ok.injEq, Prod.mk.injEq]
    constructor
    · rintro ⟨a, b⟩; exact ⟨pc, cd, ⟨rfl, rfl⟩, a, b⟩
    · rintro ⟨_, _, ⟨rfl, rfl⟩, a, b⟩; exact ⟨a, b⟩
  | err x => simp [stopOf, run]
  | panic x => simp [stopOf, run]
  | diverge => simp [stopOf, run]

theorem manifestSteps_ok {H : Nat → Bytes → Bytes} {fx : Fx} {E : Env} {v : View} {s : Sig} :
    run H (manifestSteps fx E v s) = .ok () ↔
      ∃ m blob d, v.find Appx.sManifest = some m ∧ m.content = .ok blob ∧ E.parseManifest blob = some d ∧
        readPublisher fx.pub d = E.fmtName s.cert.subject := by
  unfold manifestSteps
  cases hf : v.find Appx.sManifest with
  | none => simp [run]
  | some m =>
    cases hc : m.content with
    | ok blob =>
      cases hp : E.parseManifest blob with
      | none => simp [hc, hp, run]
      | some d =>
        by_cases h : readPublisher fx.pub d = E.fmtName s.cert.subject
        · simp [hc, hp, h, run]
        · simp [hc, hp, h, run]
    | err x => simp [hc, run]
    | panic x => simp [hc, run]
    | diverge => simp [hc, run]

/-- **what `Verify` accepts** (package that is not a bundle): every check, in the order they run -/
theorem verify_package_ok {H : Nat → Bytes → Bytes} {fx : Fx} {E : Env} {n : Nat} {v : View} (hb : v.isBundle = false) :
    run H (verifySteps fx E n v) = .ok () ↔
      ∃ s, readSig E v = .ok s ∧
        run H (fileSteps v s tAXBM sBlockMap "axbm") = .ok () ∧ run H (fileSteps v s tAXCI sCatalog "axci") = .ok () ∧
        run H (fileSteps v s tAXCT sCTypes "axct") = .ok () ∧ run H (bmSteps E v) = .ok () ∧ run H (catSteps E v s) = .ok () ∧
        run H (metaSteps v s) = .ok () ∧ run H (manifestSteps fx E v s) = .ok () := by
  have core : ∀ bundle, run H (verifyCore fx E bundle v) = .ok () ↔
      ∃ s, readSig E v = .ok s ∧
        run H (fileSteps v s tAXBM sBlockMap "axbm") = .ok () ∧ run H (fileSteps v s tAXCI sCatalog "axci") = .ok () ∧
        run H (fileSteps v s tAXCT sCTypes "axct") = .ok () ∧ run H (bmSteps E v) = .ok () ∧ run H (catSteps E v s) = .ok () ∧
        run H (metaSteps v s) = .ok () ∧ run H (manifestSteps fx E v s) = .ok () := by
    intro bundle
    unfold verifyCore
    cases hs : readSig E v with
    | ok s =>
      simp only [hb, Bool.false_eq_true, if_false, run_append_ok]
      constructor
      · rintro ⟨⟨⟨⟨⟨⟨a, b⟩, c⟩, d⟩, e⟩, f⟩, g⟩
        exact ⟨s, rfl, a, b, c, d, e, f, g⟩
      · rintro ⟨s', hs', a, b, c, d, e, f, g⟩
        cases hs'
        exact ⟨⟨⟨⟨⟨⟨a, b⟩, c⟩, d⟩, e⟩, f⟩, g⟩
    | err x => simp [stopOf, run]
    | panic x => simp [stopOf, run]
    | diverge => simp [stopOf, run]
  cases n with
  | zero => exact core _
  | succ n => exact core _

/-! ### the digest list -/

theorem parseDigestsF_enc (hs : Nat) : ∀ (ds : List (Bytes × Bytes)) (fuel : Nat) (m : SMap),
    (∀ d ∈ ds, d.1.length = 4 ∧ d.2.length = hs) → (ds.flatMap fun d => d.1 ++ d.2).length ≤ fuel →
    parseDigestsF hs fuel (ds.flatMap fun d => d.1 ++ d.2) m = some (ds.foldl (fun m d => Vsix.mset m d.1 d.2) m)
  | [], fuel, m, _, _ => by cases fuel <;> simp [parseDigestsF]
  | d :: ds, fuel, m, hd, hf => by
    obtain ⟨h1, h2⟩ := hd d (by simp)
    have hlen : (d.1 ++ d.2 ++ ds.flatMap fun d => d.1 ++ d.2).length = 4 + hs + (ds.flatMap fun d => d.1 ++ d.2).length := by
      simp [h1, h2]; omega
    simp only [List.flatMap_cons] at hf ⊢
    cases fuel with
    | zero => rw [hlen] at hf; omega
    | succ fuel =>
      have hne : d.1 ++ d.2 ++ (ds.flatMap fun d => d.1 ++ d.2) ≠ [] := by
        intro h; have := congrArg List.length h; rw [hlen] at this; simp at this
      have e1 : (d.1 ++ d.2 ++ ds.flatMap fun d => d.1 ++ d.2).take 4 = d.1 := by
        rw [List.append_assoc, List.take_append_of_le_length (by omega)]
        rw [List.take_of_length_le (by omega)]
      have e2 : ((d.1 ++ d.2 ++ ds.flatMap fun d => d.1 ++ d.2).drop 4).take hs = d.2 := by
        rw [List.append_assoc, List.drop_append_of_le_length (by omega), List.drop_of_length_le (by omega), List.nil_append,
          List.take_append_of_le_length (by omega), List.take_of_length_le (by omega)]
      have e3 : (d.1 ++ d.2 ++ ds.flatMap fun d => d.1 ++ d.2).drop (4 + hs) = ds.flatMap fun d => d.1 ++ d.2 := by
        rw [List.drop_append_of_le_length (by simp [h1, h2])]
        rw [List.drop_of_length_le (by simp [h1, h2]), List.nil_append]
      rw [parseDigestsF, if_neg hne, if_neg (by rw [hlen]; omega), e1, e2, e3]
      rw [parseDigestsF_enc hs ds fuel _ (fun x hx => hd x (by simp [hx])) (by rw [hlen] at hf; omega)]
      rfl

theorem parseDigests_enc (hs : Nat) (ds : List (Bytes × Bytes)) (hd : ∀ d ∈ ds, d.1.length = 4 ∧ d.2.length = hs) :
    parseDigests hs (encDigests ds) = some (ds.foldl (fun m d => Vsix.mset m d.1 d.2) []) := by
  unfold parseDigests encDigests
  have e1 : (tAPPX ++ ds.flatMap fun d => d.1 ++ d.2).take 4 = tAPPX := by
    rw [List.take_append_of_le_length (by decide)]; rfl
  have e2 : (tAPPX ++ ds.flatMap fun d => d.1 ++ d.2).drop 4 = ds.flatMap fun d => d.1 ++ d.2 := by
    rw [List.drop_append_of_le_length (by decide)]; rfl
  rw [e1, e2]
  simp only [ne_eq, not_true_eq_false, if_false]
  exact parseDigestsF_enc hs ds _ [] hd (by simp [tAPPX]; omega)

end Relic.AppxPkg

/-
  Relic.Model.ApkVerify — executable model of the decision logic of relic's APK verifier and of the v2 part of
  its signer.

  Modelled Go code (names as in /repo/signers/apk):
    verify.go      `verify` (walk of the id/value pairs of the APK Signing Block, every v2 pair is unmarshalled and
                   every signer of it verified; "empty APK signing block"; then the v1/JAR result: any error other than
                   not-signed is fatal, a v1 signature file whose `X-Android-APK-Signed` header contains '2' while no
                   v2 signer was verified is fatal, nothing at all = NotSignedError),
                   `getSigBlock` on the bytes between the last member and the central directory,
                   `apkSigner.Verify`, `apkSignature.VerifySignature`
    structs.go     `sigTypes`, `sigTypeByID`, `apkSignedData.ParseCertificates`
    serializer.go  `unmarshal`/`unmarshalR` specialised to `[]apkSigner` and `apkSignedData` (with values), `marshal`
    digest.go      `Digest.Sign` (choice of the signature type, signed data, signer list), `makeSigBlock`

  Cryptography, X.509 parsing and the recomputation of the content digest are a TABLE (`Crypto`): the model computes
  the verdict and the error class from the structure and the table.  Core Lean only (linked into the native driver).
-/
import Relic.Base.Bytes
namespace Relic.ApkVerify
open Relic

/-! ### `sigTypes` / `sigTypeByID` (structs.go) -/

/-- dynamic type of the value `x509.ParsePKIXPublicKey` returns, as the type assertions of `VerifySignature` see it -/
inductive KeyKind where
  | rsa | ecdsa | other
  deriving DecidableEq, Repr

/-- `crypto.SHA256` (5) and `crypto.SHA512` (7): the only hashes in `sigTypes`; both are linked in -/
inductive HashAlg where
  | sha256 | sha512
  deriving DecidableEq, Repr

inductive PkAlg where
  | rsa | ecdsa | dsa
  deriving DecidableEq, Repr

structure SigType where
  hash : HashAlg
  alg : PkAlg
  pss : Bool
  deriving DecidableEq, Repr

/-- `sigTypeByID`: `none` = "unknown signature type" (the zero `sigType`, `st.id == 0`) -/
def sigTypeByID (id : Nat) : Option SigType :=
  if id = 0x0101 then some ⟨.sha256, .rsa, true⟩
  else if id = 0x0102 then some ⟨.sha512, .rsa, true⟩
  else if id = 0x0103 then some ⟨.sha256, .rsa, false⟩
  else if id = 0x0104 then some ⟨.sha512, .rsa, false⟩
  else if id = 0x0201 then some ⟨.sha256, .ecdsa, false⟩
  else if id = 0x0202 then some ⟨.sha512, .ecdsa, false⟩
  else if id = 0x0301 then some ⟨.sha256, .dsa, false⟩
  else none

/-! ### structures (structs.go) -/

/-- `apkAttribute` = `apkSignature` = `apkDigest` -/
structure Attr where
  id : Nat
  value : Bytes
  deriving DecidableEq, Repr

structure Signer where
  /-- `apkRaw`: the signed data INCLUDING its uint32 length prefix -/
  signedData : Bytes
  signatures : List Attr
  publicKey : Bytes
  deriving DecidableEq, Repr

/-- `apkRaw.Bytes()`: `r[4:]` (a parsed `apkRaw` always holds its prefix) -/
def Signer.sdBytes (s : Signer) : Bytes := s.signedData.drop 4

structure SignedData where
  digests : List Attr
  certs : List Bytes
  attrs : List Attr
  deriving DecidableEq, Repr

/-! ### `unmarshalR` (serializer.go) -/

/-- the uint32 length prefix: (content, remainder)
    ```
    if len(blob) < 4 { return ErrUnexpectedEOF }
    size := int(binary.LittleEndian.Uint32(blob))
    if len(blob)-4 < size { return ErrUnexpectedEOF }
    ``` -/
def readPrefix (blob : Bytes) : Res (Bytes × Bytes) :=
  if blob.length < 4 then .err "eof" else
  let size := leVal (blob.take 4)
  if blob.length - 4 < size then .err "eof" else
  .ok ((blob.drop 4).take size, blob.drop (4 + size))

/-- `for len(blob) > 0 { append zero; blob, err = unmarshalR(blob, elem) }`; fuel: an element consumes ≥ 4 bytes -/
def loop {α : Type} (p : Bytes → Res (α × Bytes)) : Nat → Bytes → Res (List α)
  | 0, blob => if blob.isEmpty then .ok [] else .diverge
  | fuel + 1, blob =>
    if blob.isEmpty then .ok [] else
    (p blob).bind fun xr => (loop p fuel xr.2).bind fun xs => .ok (xr.1 :: xs)

/-- `struct { ID uint32; Value []byte }` -/
def parseAttr (blob : Bytes) : Res (Attr × Bytes) :=
  (readPrefix blob).bind fun ir =>
    if ir.1.length < 4 then .err "eof" else
    (readPrefix (ir.1.drop 4)).bind fun vr =>
      if vr.2.isEmpty then .ok (⟨leVal (ir.1.take 4), vr.1⟩, ir.2) else .err "trailing"

/-- `[]byte` -/
def parseBytes (blob : Bytes) : Res (Bytes × Bytes) := readPrefix blob

/-- a slice field: prefix, then the element loop over its content -/
def parseList {α : Type} (p : Bytes → Res (α × Bytes)) (blob : Bytes) : Res (List α × Bytes) :=
  (readPrefix blob).bind fun ir => (loop p ir.1.length ir.1).bind fun xs => .ok (xs, ir.2)

/-- `struct { SignedData apkRaw; Signatures []apkSignature; PublicKey []byte }` -/
def parseSigner (blob : Bytes) : Res (Signer × Bytes) :=
  (readPrefix blob).bind fun ir =>
    (readPrefix ir.1).bind fun sd =>
      (parseList parseAttr sd.2).bind fun sg =>
        (parseBytes sg.2).bind fun pk =>
          if pk.2.isEmpty then .ok (⟨ir.1.take (4 + sd.1.length), sg.1, pk.1⟩, ir.2) else .err "trailing"

/-- `unmarshal(partBlob, &signerList)` -/
def unmarshalSigners (blob : Bytes) : Res (List Signer) :=
  (parseList parseSigner blob).bind fun r => if r.2.isEmpty then .ok r.1 else .err "trailing"

/-- `unmarshal(s.SignedData, &signedData)` with
    `struct { Digests []apkDigest; Certificates [][]byte; Attributes []apkAttribute }` -/
def unmarshalSignedData (raw : Bytes) : Res SignedData :=
  (readPrefix raw).bind fun ir =>
    (parseList parseAttr ir.1).bind fun dg =>
      (parseList parseBytes dg.2).bind fun ce =>
        (parseList parseAttr ce.2).bind fun ar =>
          if !ar.2.isEmpty then .err "trailing"
          else if !ir.2.isEmpty then .err "trailing"
          else .ok ⟨dg.1, ce.1, ar.1⟩

/-! ### `marshal` (serializer.go) -/

/-- content with its uint32 length prefix -/
def lp (b : Bytes) : Bytes := leBytes 4 b.length ++ b

def encAttr (a : Attr) : Bytes := lp (leBytes 4 a.id ++ lp a.value)
def encAttrs (l : List Attr) : Bytes := lp (l.flatMap encAttr)
def encCerts (l : List Bytes) : Bytes := lp (l.flatMap lp)
/-- `marshal(apkSignedData{…})`: an `apkRaw` -/
def encSignedData (sd : SignedData) : Bytes := lp (encAttrs sd.digests ++ encCerts sd.certs ++ encAttrs sd.attrs)
def encSigner (s : Signer) : Bytes := lp (s.signedData ++ encAttrs s.signatures ++ lp s.publicKey)
/-- `marshal([]apkSigner{…})` -/
def encSigners (l : List Signer) : Bytes := lp (l.flatMap encSigner)

/-! ### the table -/

structure Crypto where
  /-- `x509.ParsePKIXPublicKey(s.PublicKey)`: `none` = error -/
  parseKey : Bytes → Option KeyKind
  /-- public key bytes, algorithm id, signed-data bytes, signature value: the primitive the id names
      (`rsa.VerifyPSS` / `rsa.VerifyPKCS1v15` / parse the ECDSA-Sig-Value and `ecdsa.Verify`) over the id's digest of the
      signed-data bytes succeeds -/
  sigValid : Bytes → Nat → Bytes → Bytes → Bool
  /-- the recomputed content digest per hash (`merkleHasher` over the members, the central directory and the end of
      directory); `none` = `Dump` or `Finish` failed -/
  content : Option (HashAlg → Bytes)
  /-- `x509.ParseCertificate(der)`: its `RawSubjectPublicKeyInfo`; `none` = does not parse -/
  certSpki : Bytes → Option Bytes

/-! ### `apkSignature.VerifySignature` -/

def kindOfAlg : PkAlg → Option KeyKind
  | .rsa => some .rsa
  | .ecdsa => some .ecdsa
  | .dsa => none

def verifySignature (C : Crypto) (pub : Bytes) (kind : KeyKind) (data : Bytes) (sig : Attr) : Res HashAlg :=
  match sigTypeByID sig.id with
  | none => .err "unknown-alg"
  | some st =>
    match kindOfAlg st.alg with
    | none => .err "pubalg"                                   -- `default:` (DSA)
    | some k =>
      if kind ≠ k then .err "keytype"                         -- "public key algorithm mismatch"
      else if C.sigValid pub sig.id data sig.value then .ok st.hash
      else .err "sig"

/-- the loop over `s.Signatures`: the first failing record ends it -/
def verifySigs (C : Crypto) (pub : Bytes) (kind : KeyKind) (data : Bytes) : List Attr → Res (List HashAlg)
  | [] => .ok []
  | sig :: rest =>
    (verifySignature C pub kind data sig).bind fun h =>
      (verifySigs C pub kind data rest).bind fun hs => .ok (h :: hs)

/-- `if hash > bestHash { bestHash = hash }` starting from 0 -/
def bestHash (hs : List HashAlg) : HashAlg := if hs.contains .sha512 then .sha512 else .sha256

/-- first loop over the digests: `sigTypeByID(digest.ID)` -/
def digestAlgs : List Attr → Res (List HashAlg)
  | [] => .ok []
  | d :: rest =>
    match sigTypeByID d.id with
    | none => .err "unknown-alg"
    | some st => (digestAlgs rest).bind fun hs => .ok (st.hash :: hs)

/-- second loop: `hmac.Equal(digest.Value, digests[i])` -/
def digestsMatch (cd : HashAlg → Bytes) : List Attr → List HashAlg → Bool
  | d :: ds, h :: hs => d.value == cd h && digestsMatch cd ds hs
  | _, _ => true

/-- `ParseCertificates` -/
def parseCerts (C : Crypto) : List Bytes → Option (List Bytes)
  | [] => some []
  | c :: rest =>
    match C.certSpki c with
    | none => none
    | some k => (parseCerts C rest).map (k :: ·)

/-- index of the last certificate whose SubjectPublicKeyInfo equals the public key (`leaf = cert` overwrites) -/
def lastMatch (pub : Bytes) : List Bytes → Nat → Option Nat → Option Nat
  | [], _, acc => acc
  | k :: rest, i, acc => lastMatch pub rest (i + 1) (if k = pub then some i else acc)

/-- what `verify` reports about a v2 signer -/
structure Report where
  hash : HashAlg
  leaf : Nat       -- index of the reported certificate in the certificate list
  inter : Nat      -- number of intermediates
  deriving DecidableEq, Repr

/-! ### `apkSigner.Verify` (with `inz != nil`) -/

def signerVerify (C : Crypto) (s : Signer) : Res Report :=
  if s.signatures.isEmpty then .err "nosigs" else
  match C.parseKey s.publicKey with
  | none => .err "badkey"
  | some kind =>
    (verifySigs C s.publicKey kind s.sdBytes s.signatures).bind fun hs =>
    match unmarshalSignedData s.signedData with
    | .err _ => .err "sd-parse"
    | .panic p => .panic p
    | .diverge => .diverge
    | .ok sd =>
      if sd.digests.isEmpty then .err "nodigests" else
      (digestAlgs sd.digests).bind fun algs =>
      match C.content with
      | none => .err "content"
      | some cd =>
        if !digestsMatch cd sd.digests algs then .err "digest" else
        match parseCerts C sd.certs with
        | none => .err "badcert"
        | some spkis =>
          match lastMatch s.publicKey spkis 0 none with
          | none => .err "nocert"
          | some leaf => .ok ⟨bestHash hs, leaf, (spkis.filter (· ≠ s.publicKey)).length⟩

/-- `for i, signer := range signerList`: "APK signature #i: …" -/
def verifySigners (C : Crypto) : Nat → List Signer → Res (List Report)
  | _, [] => .ok []
  | i, s :: rest =>
    match signerVerify C s with
    | .ok r => (verifySigners C (i + 1) rest).bind fun rs => .ok (r :: rs)
    | .err e => .err s!"signer {i} {e}"
    | .panic p => .panic p
    | .diverge => .diverge

/-! ### `getSigBlock` and the pair loop of `verify` -/

/-- "APK Sig Block 42" -/
def magic : Bytes := [65, 80, 75, 32, 83, 105, 103, 32, 66, 108, 111, 99, 107, 32, 52, 50]
def sigApkV2 : Nat := 0x7109871a

/-- `getSigBlock` on `gap = f[sigLoc:DirLoc]`; `none` = `sigLoc == DirLoc`, no signing block -/
def getSigBlock (gap : Bytes) : Res (Option Bytes) :=
  if gap.isEmpty then .ok none
  else if gap.length < 32 ∨ gap.drop (gap.length - 16) ≠ magic then .err "malformed"
  else
    let expected := gap.length - 8
    let size1 := leVal (gap.take 8)
    let size2 := leVal ((gap.drop (gap.length - 24)).take 8)
    if size1 ≠ expected ∨ size2 ≠ expected then .err "malformed"
    else .ok (some ((gap.drop 8).take (gap.length - 32)))

/-- the loop over the id-value pairs: every pair with the v2 id is unmarshalled and all its signers verified -/
def walkParts (C : Crypto) : Nat → Bytes → Res (List Report)
  | 0, block => if block.isEmpty then .ok [] else .diverge
  | fuel + 1, block =>
    if block.isEmpty then .ok [] else
    if block.length < 12 then .err "truncated" else
    let partSize := leVal (block.take 8)
    let b1 := block.drop 8
    if partSize < 4 ∨ partSize > b1.length then .err "truncated" else
    let partType := leVal (b1.take 4)
    let partBlob := (b1.take partSize).drop 4
    let rest := b1.drop partSize
    if partType ≠ sigApkV2 then walkParts C fuel rest else
    match unmarshalSigners partBlob with
    | .err _ => .err "parse"
    | .panic p => .panic p
    | .diverge => .diverge
    | .ok signers =>
      if signers.isEmpty then .err "empty" else
      (verifySigners C 1 signers).bind fun rs => (walkParts C fuel rest).bind fun more => .ok (rs ++ more)

/-- the same walk without the table: the signers of all v2 pairs, in order -/
def v2Signers : Nat → Bytes → Res (List Signer)
  | 0, block => if block.isEmpty then .ok [] else .diverge
  | fuel + 1, block =>
    if block.isEmpty then .ok [] else
    if block.length < 12 then .err "truncated" else
    let partSize := leVal (block.take 8)
    let b1 := block.drop 8
    if partSize < 4 ∨ partSize > b1.length then .err "truncated" else
    let partType := leVal (b1.take 4)
    let partBlob := (b1.take partSize).drop 4
    let rest := b1.drop partSize
    if partType ≠ sigApkV2 then v2Signers fuel rest else
    match unmarshalSigners partBlob with
    | .err _ => .err "parse"
    | .panic p => .panic p
    | .diverge => .diverge
    | .ok signers =>
      if signers.isEmpty then .err "empty" else
      (v2Signers fuel rest).bind fun more => .ok (signers ++ more)

/-! ### `verify` -/

/-- result of `signjar.Verify` (a table entry: JAR verification is modelled in `Relic.Model.Jar`) -/
inductive V1 where
  | err                               -- `zip.NewReader` failed, or any error other than NotSignedError
  | notSigned
  | sigs (hdrs : List Bytes)          -- per signature file: the value of `X-Android-APK-Signed` ("" when absent)
  deriving DecidableEq, Repr

/-- `strings.ContainsRune(apk, '2')` -/
def has2 (h : Bytes) : Bool := h.contains 0x32

def V1.hdrs : V1 → List Bytes
  | .sigs l => l
  | _ => []

structure Verdict where
  v2 : List Report
  v1 : Nat
  deriving DecidableEq, Repr

def verify (C : Crypto) (gap : Bytes) (v1 : V1) : Res Verdict :=
  (getSigBlock gap).bind fun area =>
  (match area with
   | none => (.ok [] : Res (List Report))
   | some a => walkParts C a.length a).bind fun v2 =>
  if v1 = V1.err then .err "v1err"
  else if v1.hdrs.any has2 ∧ v2.isEmpty then .err "downgrade"
  else if v2.isEmpty ∧ v1.hdrs.isEmpty then .err "notsigned"
  else .ok ⟨v2, v1.hdrs.length⟩

/-! ### the signing side: `Digest.Sign`, `makeSigBlock` (digest.go) -/

/-- the first entry of `sigTypes` with that hash and key algorithm and `!pss` -/
def selectSigType : HashAlg → PkAlg → Nat
  | .sha256, .rsa => 0x0103
  | .sha512, .rsa => 0x0104
  | .sha256, .ecdsa => 0x0201
  | .sha512, .ecdsa => 0x0202
  | .sha256, .dsa => 0x0301
  | .sha512, .dsa => 0            -- none: "unsupported public key algorithm"

/-- the signed data `Digest.Sign` builds: one digest, the chain, no attributes -/
def signSignedData (id : Nat) (digest : Bytes) (chain : List Bytes) : SignedData := ⟨[⟨id, digest⟩], chain, []⟩

/-- the one signer `Digest.Sign` builds; `sigv` = what `cert.Signer().Sign` returned over the signed-data bytes -/
def signSigner (id : Nat) (digest : Bytes) (chain : List Bytes) (spki sigv : Bytes) : Signer :=
  ⟨encSignedData (signSignedData id digest chain), [⟨id, sigv⟩], spki⟩

/-- one id-value pair -/
def encPair (id : Nat) (v : Bytes) : Bytes := leBytes 8 (4 + v.length) ++ leBytes 4 id ++ v

/-- `makeSigBlock`: size ‖ pair ‖ size ‖ magic -/
def makeSigBlock (sblob : Bytes) : Bytes :=
  leBytes 8 (8 + 4 + sblob.length + 8 + 16) ++ encPair sigApkV2 sblob ++ leBytes 8 (8 + 4 + sblob.length + 8 + 16) ++ magic

/-- the signing block `Digest.Sign` patches in -/
def signBlock (id : Nat) (digest : Bytes) (chain : List Bytes) (spki sigv : Bytes) : Bytes :=
  makeSigBlock (encSigners [signSigner id digest chain spki sigv])

end Relic.ApkVerify

package main

// registration of the time-stamping surroundings (harness/c10/c10x.go; first op token TSX): pools, rate limiter,
// memcache key, attach sites.  Its ops run as a second correspondence of C10 (and of C14 / C16 for the shared-client
// and byte-preservation ops) under the pseudo-properties C10X / C14X / C16X, see checklib/models/tsx.py.

import "verifharness/c10"

func init() {
	handlers["TSX"] = c10.HandleX
	gens["C10X"] = []genFunc{forProp("C10", c10.GenX)}
	gens["C14X"] = []genFunc{forProp("C14", c10.GenX)}
	gens["C16X"] = []genFunc{forProp("C16", c10.GenX)}
}

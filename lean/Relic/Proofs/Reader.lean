/-
  Relic.Proofs.Reader — the primitives of the reader calculus observe only the logical content of the stream.
  `read_spec` is the io.Reader contract of `Stream.read`; every loop is then characterised by the whole buffer.
-/
import Relic.Model.Reader
namespace Relic.Rd
open Relic

namespace Stream

theorem lead_le_maxRun (l : List Bytes) : lead l ≤ maxRun l := by
  cases l with
  | nil => simp [lead, maxRun]
  | cons c r => simp only [maxRun]; omega

theorem maxRun_tail (c : Bytes) (r : List Bytes) : maxRun r ≤ maxRun (c :: r) := by
  simp only [maxRun]; omega

theorem maxRun_head_nonempty (c c' : Bytes) (r : List Bytes) (h : c' ≠ []) :
    maxRun (c' :: r) ≤ maxRun (c :: r) := by
  have : lead (c' :: r) = 0 := by
    simp only [lead]
    cases c' with
    | nil => exact absurd rfl h
    | cons _ _ => simp
  simp only [maxRun, this]; omega

/-- `s'` is what remains of `s` after some reads, with logical content `d` -/
structure After (s' s : Stream) (d : Bytes) : Prop where
  data : s'.data = d
  term : s'.term = s.term
  run : maxRun s'.chunks ≤ maxRun s.chunks
  wt : wt s'.chunks ≤ wt s.chunks
  plain : s.Plain → s'.Plain

theorem After.refl (s : Stream) : After s s s.data := ⟨rfl, rfl, Nat.le_refl _, Nat.le_refl _, id⟩

theorem After.trans {s'' s' s : Stream} {d' d : Bytes} (h2 : After s'' s' d') (h1 : After s' s d) :
    After s'' s d' :=
  ⟨h2.data, h2.term.trans h1.term, Nat.le_trans h2.run h1.run, Nat.le_trans h2.wt h1.wt, fun h => h2.plain (h1.plain h)⟩

/-- the contract of one `Read` -/
structure ReadOk (s : Stream) (k : Nat) (out : Bytes) (e : Option Term) (s' : Stream) : Prop where
  data : out ++ s'.data = s.data
  after : After s' s s'.data
  len : out.length ≤ k
  err : ∀ t, e = some t → t = s.term ∧ s'.chunks = []
  wtlt : e = none → 0 < k → wt s'.chunks < wt s.chunks
  wtout : wt s'.chunks + out.length ≤ wt s.chunks
  stall : e = none → out = [] → 0 < k → lead s'.chunks < lead s.chunks

theorem read_spec (s : Stream) (k : Nat) : ReadOk s k (s.read k).1 (s.read k).2.1 (s.read k).2.2 := by
  obtain ⟨chunks, term, eager⟩ := s
  cases chunks with
  | nil =>
    simp only [read]
    exact ⟨by simp [data], After.refl _, by simp, fun t h => by simp at h; exact ⟨h.symm, rfl⟩,
      by simp, by simp, by simp⟩
  | cons c rest =>
    simp only [read]
    by_cases hc : c.length ≤ k
    · simp only [hc, if_true]
      refine ⟨by simp [data], ⟨rfl, rfl, maxRun_tail c rest, by simp only [wt]; omega,
        fun hp => ⟨fun x hx => hp.1 x (List.mem_cons_of_mem _ hx), hp.2⟩⟩, hc, ?_, ?_, ?_, ?_⟩
      · intro t h
        by_cases hr : (rest.isEmpty && eager) = true
        · simp only [hr, if_true, Option.some.injEq] at h
          simp only [Bool.and_eq_true, List.isEmpty_iff] at hr
          exact ⟨h.symm, hr.1⟩
        · simp [hr] at h
      · intro _ _; simp only [wt]; omega
      · simp only [wt]; omega
      · intro _ hout _
        subst hout
        simp [lead]
    · simp only [hc, if_false]
      have hk : k < c.length := by omega
      have hne : c.drop k ≠ [] := by
        intro h
        have := congrArg List.length h
        simp at this; omega
      refine ⟨by simp [data, ← List.append_assoc], ⟨rfl, rfl, maxRun_head_nonempty c _ rest hne, ?_, ?_⟩, by simp; omega,
        by simp, ?_, ?_, ?_⟩
      · simp only [wt, List.length_drop]; omega
      · intro hp
        refine ⟨fun x hx => ?_, hp.2⟩
        simp only [List.mem_cons] at hx
        rcases hx with hx | hx
        · rw [hx]; exact hne
        · exact hp.1 x (List.mem_cons_of_mem _ hx)
      · intro _ hk0; simp only [wt, List.length_drop]; omega
      · simp only [wt, List.length_drop, List.length_take]; omega
      · intro _ hout hk0
        have := congrArg List.length hout
        rw [List.length_take] at this
        simp only [List.length_nil] at this
        omega

end Stream

open Relic.Rd.Stream

/-! ### `io.ReadFull` -/

theorem readFullLoop_spec (fuel n : Nat) (acc : Bytes) (s : Stream) (hf : wt s.chunks < fuel) :
    (n - acc.length ≤ s.data.length →
        (readFullLoop fuel n acc s).1 = .ok (acc ++ s.data.take (n - acc.length)) ∧
        After (readFullLoop fuel n acc s).2 s (s.data.drop (n - acc.length))) ∧
    (s.data.length < n - acc.length →
        (readFullLoop fuel n acc s).1 = .short (acc ++ s.data) s.term ∧
        After (readFullLoop fuel n acc s).2 s []) := by
  induction fuel generalizing acc s with
  | zero => omega
  | succ fuel ih =>
    simp only [readFullLoop]
    by_cases hn : n ≤ acc.length
    · simp only [hn, if_true]
      have h0 : n - acc.length = 0 := by omega
      simp only [h0, List.take_zero, List.append_nil, List.drop_zero, Nat.zero_le, true_implies]
      exact ⟨⟨trivial, After.refl s⟩, fun h => absurd h (by omega)⟩
    · simp only [hn, if_false]
      have hk : 0 < n - acc.length := by omega
      have hr := read_spec s (n - acc.length)
      generalize hrd : s.read (n - acc.length) = r at hr
      obtain ⟨out, e, s'⟩ := r
      simp only at hr
      have hdata := hr.data
      cases e with
      | some t =>
        obtain ⟨ht, hnil⟩ := hr.err t rfl
        have hs' : s'.data = [] := by simp [data, hnil]
        have hout : out = s.data := by rw [← hdata, hs']; simp
        simp only
        constructor
        · intro hle
          have hlen : out.length = n - acc.length := by
            have := hr.len; rw [hout] at this ⊢; omega
          have : n ≤ (acc ++ out).length := by simp; omega
          simp only [this, if_true]
          refine ⟨?_, ?_⟩
          · rw [← hout, List.take_of_length_le (by omega)]
          · have hd : s.data.drop (n - acc.length) = [] := by
              rw [← hout]; exact List.drop_eq_nil_of_le (by omega)
            rw [hd]; rw [← hs']; exact hr.after
        · intro hlt
          have : ¬ n ≤ (acc ++ out).length := by simp; rw [hout]; omega
          simp only [this, if_false]
          refine ⟨by rw [hout, ht], ?_⟩
          rw [← hs']; exact hr.after
      | none =>
        simp only
        have hwt := hr.wtlt rfl hk
        have ih' := ih (acc ++ out) s' (by omega)
        have hlen := hr.len
        have hneed : n - (acc ++ out).length = n - acc.length - out.length := by simp; omega
        rw [hneed] at ih'
        have hsd : s.data.length = out.length + s'.data.length := by rw [← hdata]; simp
        constructor
        · intro hle
          obtain ⟨h1, h2⟩ := ih'.1 (by omega)
          refine ⟨?_, ?_⟩
          · rw [h1, ← hdata, List.take_append, List.take_of_length_le hlen, List.append_assoc]
          · have : s.data.drop (n - acc.length) = s'.data.drop (n - acc.length - out.length) := by
              rw [← hdata, List.drop_append, List.drop_eq_nil_of_le hlen]; simp
            rw [this]
            exact h2.trans hr.after
        · intro hlt
          obtain ⟨h1, h2⟩ := ih'.2 (by omega)
          refine ⟨?_, h2.trans hr.after⟩
          rw [h1, ← hdata, List.append_assoc, hr.after.term]

/-- `io.ReadFull` sees only the logical content -/
theorem readFull_spec (n : Nat) (s : Stream) :
    (n ≤ s.data.length → (readFull n s).1 = .ok (s.data.take n) ∧ After (readFull n s).2 s (s.data.drop n)) ∧
    (s.data.length < n → (readFull n s).1 = .short s.data s.term ∧ After (readFull n s).2 s []) := by
  have h := readFullLoop_spec (wt s.chunks + 1) n [] s (by omega)
  simpa [readFull] using h

/-! ### `io.Copy`, `io.CopyN`, `io.ReadAll`, … -/

/-- what a copy moves, how it ends and what is left, as a function of the logical content -/
def cf (lim : Option Nat) (d : Bytes) (t : Term) : Bytes × End × Bytes :=
  match lim with
  | some n => if n ≤ d.length then (d.take n, .limit, d.drop n) else (d, .src t, [])
  | none => (d, .src t, [])

theorem copyLoop_spec (sched : Sched) (fuel : Nat) (rem : Option Nat) (hist : List Nat) (acc : Bytes) (s : Stream)
    (hf : wt s.chunks < fuel) :
    (copyLoop sched fuel rem hist acc s).1 = acc ++ (cf rem s.data s.term).1 ∧
    (copyLoop sched fuel rem hist acc s).2.1 = (cf rem s.data s.term).2.1 ∧
    After (copyLoop sched fuel rem hist acc s).2.2 s (cf rem s.data s.term).2.2 := by
  induction fuel generalizing rem hist acc s with
  | zero => omega
  | succ fuel ih =>
    cases rem with
    | none =>
      simp only [copyLoop, reduceCtorEq, if_false, Option.map_none]
      generalize hk : max 1 (sched hist) = k
      have hkpos : 0 < k := by omega
      have hr := read_spec s k
      generalize hrd : s.read k = r at hr
      obtain ⟨out, e, s'⟩ := r
      simp only at hr ⊢
      have hdata := hr.data
      cases e with
      | some t =>
        obtain ⟨ht, hnil⟩ := hr.err t rfl
        have hs' : s'.data = [] := by simp [data, hnil]
        have hout : out = s.data := by rw [← hdata, hs']; simp
        simp only [cf]
        refine ⟨by rw [hout], by rw [ht], ?_⟩
        rw [← hs']; exact hr.after
      | none =>
        simp only
        have hwt := hr.wtlt rfl hkpos
        obtain ⟨i1, i2, i3⟩ := ih none (out.length :: hist) (acc ++ out) s' (by omega)
        simp only [cf] at i1 i2 i3 ⊢
        refine ⟨by rw [i1, ← hdata, List.append_assoc], by rw [i2, hr.after.term], i3.trans hr.after⟩
    | some n =>
      by_cases h0 : n = 0
      · subst h0
        simp only [copyLoop, if_true, cf, Nat.zero_le, List.take_zero, List.append_nil, List.drop_zero]
        exact ⟨trivial, trivial, After.refl s⟩
      · have h0' : ¬ (some n = some 0) := by simp [h0]
        simp only [copyLoop, h0', if_false, Option.map_some, Option.some.injEq]
        generalize hk : min (max 1 (sched hist)) n = k
        have hkpos : 0 < k := by omega
        have hkn : k ≤ n := by omega
        have hr := read_spec s k
        generalize hrd : s.read k = r at hr
        obtain ⟨out, e, s'⟩ := r
        simp only at hr ⊢
        have hdata := hr.data
        have hlen := hr.len
        have hsd : s.data.length = out.length + s'.data.length := by rw [← hdata]; simp
        by_cases hz : n - out.length = 0
        · simp only [hz, if_true]
          have hon : out.length = n := by omega
          have hle : n ≤ s.data.length := by omega
          simp only [cf, hle, if_true]
          refine ⟨?_, trivial, ?_⟩
          · rw [← hdata, List.take_append, List.take_of_length_le (by omega)]; simp [hon]
          · have : s.data.drop n = s'.data := by
              rw [← hdata, List.drop_append, List.drop_eq_nil_of_le (by omega)]; simp [hon]
            rw [this]; exact hr.after
        · simp only [hz, if_false]
          have hlt : out.length < n := by omega
          cases e with
          | some t =>
            obtain ⟨ht, hnil⟩ := hr.err t rfl
            have hs' : s'.data = [] := by simp [data, hnil]
            have hout : out = s.data := by rw [← hdata, hs']; simp
            have hnl : ¬ n ≤ s.data.length := by rw [← hout]; omega
            simp only [cf, hnl, if_false]
            refine ⟨by rw [hout], by rw [ht], ?_⟩
            rw [← hs']; exact hr.after
          | none =>
            simp only
            have hwt := hr.wtlt rfl hkpos
            obtain ⟨i1, i2, i3⟩ := ih (some (n - out.length)) (out.length :: hist) (acc ++ out) s' (by omega)
            by_cases hle : n ≤ s.data.length
            · have hle' : n - out.length ≤ s'.data.length := by omega
              simp only [cf, hle, hle', if_true] at i1 i2 i3 ⊢
              refine ⟨?_, i2, ?_⟩
              · have ht : (out ++ s'.data).take n = out ++ s'.data.take (n - out.length) := by
                  rw [List.take_append, List.take_of_length_le (Nat.le_of_lt hlt)]
                rw [i1, ← hdata, ht, List.append_assoc]
              · have : s.data.drop n = s'.data.drop (n - out.length) := by
                  rw [← hdata, List.drop_append, List.drop_eq_nil_of_le (by omega)]; simp
                rw [this]; exact i3.trans hr.after
            · have hle' : ¬ n - out.length ≤ s'.data.length := by omega
              simp only [cf, hle, hle', if_false] at i1 i2 i3 ⊢
              refine ⟨by rw [i1, ← hdata, List.append_assoc], by rw [i2, hr.after.term], i3.trans hr.after⟩

theorem copy_spec (lim : Option Nat) (sched : Sched) (s : Stream) :
    (copy lim sched s).1 = (cf lim s.data s.term).1 ∧
    (copy lim sched s).2.1 = (cf lim s.data s.term).2.1 ∧
    After (copy lim sched s).2.2 s (cf lim s.data s.term).2.2 := by
  have h := copyLoop_spec sched (wt s.chunks + 1) lim [] [] s (by omega)
  simpa [copy] using h

end Relic.Rd

/-
  C02 — Any change to signed content or to the signature makes verification fail.   CAB part: the hashed stream
  determines every protected field (injectivity of the digest input).
-/
import Relic.Proofs.CabSign
import Relic.Props.C08_Cab
namespace Relic.Props.C02
open Relic Relic.Cab
open Relic.PE (seg u16 u32)

/-- **cab_hashed_injective.** Two cabinets whose digests succeed with the same hashed stream agree on everything the
    format protects: Magic, Reserved2, Reserved3, Version, NumFolders, NumFiles, SetID, Unknown3, the *canonical*
    TotalSize and OffsetFiles (as they are in the signed layout), every folder header (offset rebased to the signed
    layout) and every data byte.  Not protected (and absent from the conclusion): Reserved1, CabNumber, the reserve
    header, Unknown1/Unknown2, the signature blob. -/
theorem cab_hashed_injective (a b : Bytes) (da db : Digest) (ea : DigestCab a = .ok da) (eb : DigestCab b = .ok db)
    (hs : da.hashed = db.hashed) :
    seg a 0 4 = seg b 0 4 ∧ seg a 12 16 = seg b 12 16 ∧ seg a 20 26 = seg b 20 26 ∧ seg a 26 28 = seg b 26 28 ∧
    seg a 28 30 = seg b 28 30 ∧ seg a 32 34 = seg b 32 34 ∧ da.hdr.u3 = db.hdr.u3 ∧
    rebase da.delta da.total = rebase db.delta db.total ∧ rebase da.delta da.offFiles = rebase db.delta db.offFiles ∧
    da.nFolders = db.nFolders ∧
    rebaseFolders a da.delta da.foldersStart da.nFolders = rebaseFolders b db.delta db.foldersStart db.nFolders ∧
    seg a (da.foldersStart + 8 * da.nFolders) da.dataEnd = seg b (db.foldersStart + 8 * db.nFolders) db.dataEnd := by
  have A := DigestCab_spec a da ea
  have B := DigestCab_spec b db eb
  obtain ⟨h1, h2, h3, h4, h5, h6⟩ := hashed_inj a b da db A B hs
  obtain ⟨g1, _, g3, _, g5, g6, g7, _, g9, g10⟩ := sigBlob_inj _ _ (hdr_lens a da A) (hdr_lens b db B) h1
  have ha := A.hdr; have hb := B.hdr
  refine ⟨?_, ?_, ?_, ?_, ?_, ?_, g10, h5, h6, h4, ?_, ?_⟩
  · exact (congrArg Hdr60.magic ha).symm.trans (g1.trans (congrArg Hdr60.magic hb))
  · exact (congrArg Hdr60.r2 ha).symm.trans (g3.trans (congrArg Hdr60.r2 hb))
  · exact (congrArg Hdr60.r3ver ha).symm.trans (g5.trans (congrArg Hdr60.r3ver hb))
  · exact (congrArg Hdr60.nf ha).symm.trans (g6.trans (congrArg Hdr60.nf hb))
  · exact (congrArg Hdr60.nfiles ha).symm.trans (g7.trans (congrArg Hdr60.nfiles hb))
  · exact (congrArg Hdr60.setid ha).symm.trans (g9.trans (congrArg Hdr60.setid hb))
  · rw [← A.folders, ← B.folders]; exact h2
  · rw [← A.data, ← B.data]; exact h3

/-- consequence under collision-freeness of the hash *on these two streams*: equal imprints ⇒ equal data and folders -/
theorem cab_tamper_evident (H : Bytes → Bytes) (a b : Bytes) (da db : Digest) (ea : DigestCab a = .ok da)
    (eb : DigestCab b = .ok db) (collisionFree : H da.hashed = H db.hashed → da.hashed = db.hashed)
    (himp : H da.hashed = H db.hashed) :
    seg a (da.foldersStart + 8 * da.nFolders) da.dataEnd = seg b (db.foldersStart + 8 * db.nFolders) db.dataEnd ∧
    rebaseFolders a da.delta da.foldersStart da.nFolders = rebaseFolders b db.delta db.foldersStart db.nFolders :=
  let r := cab_hashed_injective a b da db ea eb (collisionFree himp)
  ⟨r.2.2.2.2.2.2.2.2.2.2.2, r.2.2.2.2.2.2.2.2.2.2.1⟩

/-- **cab_no_trailing.** A cabinet that digests successfully ends exactly where the hashed data (and the old
    signature, if any) ends: appended payloads are refused ("trailing garbage after cabinet"). -/
theorem cab_no_trailing (f : Bytes) (d : Digest) (e : DigestCab f = .ok d) : f.length = d.dataEnd + d.oldSigSize :=
  (DigestCab_spec f d e).stop

set_option maxRecDepth 100000 in
example : (DigestCab C08.minimalCab).isOk = true ∧ (DigestCab (C08.minimalCab ++ [0])) = .err "trailing" := by decide

end Relic.Props.C02

package daemon

import (
	"bufio"
	"encoding/hex"
	"fmt"
	"strings"

	"verifharness/hx"
)

func hexs(s string) string {
	if s == "" {
		return "-"
	}
	return hex.EncodeToString([]byte(s))
}

func envField(kv ...string) string {
	if len(kv) == 0 {
		return "-"
	}
	var p []string
	for i := 0; i+1 < len(kv); i += 2 {
		p = append(p, hexs(kv[i])+":"+hexs(kv[i+1]))
	}
	return strings.Join(p, ",")
}

// genShScript: a random walk that respects what the harness can drive (no second Close while one is waiting)
func genShScript(r *hx.Rng, nl int) string {
	var ev []string
	served, closed, pending := false, false, false
	failed := make([]bool, nl)
	var infl []int
	next := 1
	if r.Intn(10) == 0 {
		ev = append(ev, "c")
		closed = true
	}
	ev = append(ev, "s")
	served = true
	steps := 3 + r.Intn(8)
	for i := 0; i < steps; i++ {
		switch k := r.Intn(10); {
		case k < 5:
			ev = append(ev, fmt.Sprintf("a%d.%d", r.Intn(nl), next))
			li := 0
			fmt.Sscanf(ev[len(ev)-1], "a%d.", &li)
			if served && !closed && !failed[li] {
				infl = append(infl, next)
			}
			next++
		case k < 7 && len(infl) > 0:
			j := r.Intn(len(infl))
			ev = append(ev, fmt.Sprintf("t%d", infl[j]))
			infl = append(infl[:j], infl[j+1:]...)
			if len(infl) == 0 {
				pending = false
			}
		case k < 9:
			if pending {
				continue
			}
			ev = append(ev, "c")
			closed = true
			pending = len(infl) > 0
		default:
			li := r.Intn(nl)
			ev = append(ev, fmt.Sprintf("f%d", li))
			if served && !closed {
				failed[li] = true
			}
		}
	}
	if r.Intn(4) != 0 {
		for _, id := range infl {
			ev = append(ev, fmt.Sprintf("t%d", id))
		}
	}
	return strings.Join(ev, ",")
}

var curatedSh = []string{
	"K=th S=s,a0.1,a1.2,c,a0.3,a1.4,t1,t2",          // Close with two in flight, new attempts on both listeners refused, both finish
	"K=t S=s,a0.1,a0.2,a0.3,c,t3,a0.4,t1,t2",         // three in flight
	"K=h S=s,c,c",                                     // Close twice
	"K=th S=c,s,a0.1",                                 // Close before Serve
	"K=th S=c",                                        // Close without Serve
	"K=th S=s,f0,a1.1,a0.2,t1",                        // one listener fails: the other keeps serving, Serve keeps blocking
	"K=th S=s,f0,f1",                                  // all listeners fail: Serve returns the error, the server stays open
	"K=th S=s,f0,a1.1,c,t1",                           // the first error surfaces when Close ends Serve
	"K=h S=s,a0.1,t1,a0.2,t2,c,a0.3,c",                // sequential requests, Close, refused, Close again
	"K=t S=s",                                         // nothing happens: Serve blocks
	"K=t S=-",                                         // New only
	"K=th S=s,a0.1,c,t1,c,a1.2",                       // second Close after the first completed
}

func genSh(w *bufio.Writer, r *hx.Rng, tier string, onlyClose bool) {
	for _, c := range curatedSh {
		if onlyClose && !strings.Contains(c, "c") {
			continue
		}
		n := len(strings.TrimPrefix(strings.Fields(c)[0], "K="))
		fmt.Fprintf(w, "DAEMON sh n=%d %s\n", n, c)
	}
	k := 30
	if onlyClose {
		k = 10
	}
	if tier == "thorough" {
		k *= 8
	}
	for i := 0; i < k; i++ {
		kinds := []string{"t", "h", "th", "th"}[r.Intn(4)]
		sc := genShScript(r, len(kinds))
		if onlyClose && !strings.Contains(sc, "c") {
			continue
		}
		fmt.Fprintf(w, "DAEMON sh n=%d K=%s S=%s\n", len(kinds), kinds, sc)
	}
}

func genMx(w *bufio.Writer, r *hx.Rng, tier string) {
	eps := []string{"health", "directory", "home", "list", "getkey", "sign"}
	for _, T := range []string{"0", "1"} {
		for _, X := range []string{"0", "1"} {
			for _, L := range []string{"tls", "plain"} {
				for _, C := range []string{"none", "known", "unknown"} {
					if L == "plain" && C == "unknown" {
						continue
					}
					for _, H := range []string{"none", "known", "unknown", "bad", "empty"} {
						for _, E := range eps {
							if tier != "thorough" && r.Intn(3) != 0 && !(H == "known" || C == "known" || (H == "none" && C == "none")) {
								continue
							}
							fmt.Fprintf(w, "DAEMON mx T=%s X=%s L=%s C=%s H=%s E=%s\n", T, X, L, C, H, E)
						}
					}
				}
			}
		}
	}
}

func genAct(w *bufio.Writer, r *hx.Rng, tier string) {
	emit := func(p, f string, kv ...string) { fmt.Fprintf(w, "DAEMON act P=%s E=%s F=%s\n", p, envField(kv...), f) }
	// systemd: the documented protocol
	emit("thm", "TTT", "LISTEN_PID", "@PID", "LISTEN_FDS", "3")
	emit("th", "TT", "LISTEN_PID", "@PID", "LISTEN_FDS", "2")
	emit("hm", "TT", "LISTEN_PID", "@PID", "LISTEN_FDS", "2")
	emit("t", "T", "LISTEN_FDS", "1") // no LISTEN_PID: accepted
	emit("thm", "TTT", "LISTEN_PID", "@OTHER", "LISTEN_FDS", "3") // wrong pid: ignored
	emit("thm", "TTT", "LISTEN_PID", "@PID", "LISTEN_FDS", "2")   // fewer fds than listeners: metrics listens itself
	emit("thm", "TTT", "LISTEN_PID", "@PID", "LISTEN_FDS", "1")
	emit("thm", "TTT", "LISTEN_PID", "@PID", "LISTEN_FDS", "0")
	emit("th", "TT", "LISTEN_PID", "-1", "LISTEN_FDS", "2") // "-1" reads as "unset"
	emit("th", "UT", "LISTEN_PID", "@PID", "LISTEN_FDS", "2") // TLS on a unix socket: refused
	emit("th", "TU", "LISTEN_PID", "@PID", "LISTEN_FDS", "2") // plaintext on a unix socket: taken
	emit("h", "B", "LISTEN_PID", "@PID", "LISTEN_FDS", "1")   // not a socket
	emit("h", "", "LISTEN_PID", "@PID", "LISTEN_FDS", "1")    // fd 3 closed
	emit("th", "TB", "LISTEN_PID", "@PID", "LISTEN_FDS", "2")
	emit("h", "T", "LISTEN_PID", "@PID", "LISTEN_FDS", "1000000")
	// einhorn / socketmaster
	emit("th", "TT", "EINHORN_MASTER_PID", "@PPID", "EINHORN_FD_COUNT", "2", "EINHORN_FD_0", "3", "EINHORN_FD_1", "4")
	emit("th", "TT", "EINHORN_MASTER_PID", "@OTHER", "EINHORN_FD_COUNT", "2", "EINHORN_FD_0", "3", "EINHORN_FD_1", "4")
	emit("th", "TT", "EINHORN_FD_COUNT", "2", "EINHORN_FD_0", "4", "EINHORN_FD_1", "3")
	emit("th", "TT", "EINHORN_FD_COUNT", "2", "EINHORN_FD_0", "3") // EINHORN_FD_1 missing
	emit("th", "TT", "EINHORN_FD_COUNT", "1", "EINHORN_FD_0", "3") // second listener falls through
	emit("th", "TT", "EINHORN_FDS", "3 4")
	emit("th", "TT", "EINHORN_FDS", "4")
	emit("th", "TT", "EINHORN_FDS", "3  4") // double space: empty element
	emit("th", "TT", "EINHORN_FDS", " ")
	emit("h", "T", "EINHORN_FDS", "-3")
	emit("h", "T", "EINHORN_FDS", "3", "LISTEN_FDS", "garbage") // socketmaster wins: systemd variables never read
	// hostile values
	hostile := []string{"", "x", "1x", " 1", "1 ", "+1", "-1", "-0", "00001", "0x1", "1e3", "1_0", "9223372036854775807", "9223372036854775808",
		"-9223372036854775808", "-9223372036854775809", "99999999999999999999999999", "١", "1\t", "²", "--1", "+-1", "+", "-", "3.0", "NaN", "１"}
	vars := []string{"LISTEN_FDS", "LISTEN_PID", "EINHORN_FD_COUNT", "EINHORN_MASTER_PID", "EINHORN_FD_0", "EINHORN_FDS"}
	n := 26
	if tier == "thorough" {
		n = 160
	}
	for i := 0; i < n; i++ {
		v := vars[r.Intn(len(vars))]
		h := hostile[r.Intn(len(hostile))]
		if r.Intn(6) == 0 {
			h = string(r.Bytes(1 + r.Intn(4)))
			h = strings.Map(func(c rune) rune {
				if c == 0 || c == 0xfffd {
					return 'z'
				}
				return c
			}, strings.ToValidUTF8(h, "z"))
		}
		kv := []string{v, h}
		switch v {
		case "LISTEN_PID":
			kv = append(kv, "LISTEN_FDS", "2")
		case "LISTEN_FDS":
			if r.Bool() {
				kv = append(kv, "LISTEN_PID", "@PID")
			}
		case "EINHORN_MASTER_PID":
			kv = append(kv, "EINHORN_FD_COUNT", "2", "EINHORN_FD_0", "3", "EINHORN_FD_1", "4")
		case "EINHORN_FD_0":
			kv = append(kv, "EINHORN_FD_COUNT", "1")
		case "EINHORN_FD_COUNT":
			kv = append(kv, "EINHORN_FD_0", "3", "EINHORN_FD_1", "4")
		}
		emit([]string{"h", "th", "thm"}[r.Intn(3)], "TTT", kv...)
	}
}

func genNewErr(w *bufio.Writer) {
	for _, k := range []string{"tls", "listen", "none", "test", "server", "metrics", "loglevel", "ok"} {
		fmt.Fprintf(w, "DAEMON newerr K=%s\n", k)
	}
}

// Gen writes the ops of one property (C14: shutdown histories, C20: close ends the health loop + New's error paths,
// C04: listener matrix, C11: activation environment + panics in the handler chain).
func Gen(w *bufio.Writer, seed uint64, tier string, prop string) {
	r := hx.NewRng(seed ^ 0xdae3007)
	switch prop {
	case "C14":
		genSh(w, r, tier, false)
		fmt.Fprintln(w, "DAEMON wt ctx=0")
	case "C20":
		genSh(w, r, tier, true)
		genNewErr(w)
	case "C04":
		genMx(w, r, tier)
	case "C11":
		genAct(w, r, tier)
		fmt.Fprintln(w, "DAEMON panic V=str L=tls")
		fmt.Fprintln(w, "DAEMON panic V=abort L=tls")
	}
}

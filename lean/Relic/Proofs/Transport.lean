/- helper lemmas for C09: client fail-over loop and encoding selection -/
import Relic.Model.Transport
namespace Relic.Transport
open Relic

/-! ### `selectEncoding` -/

theorem gzip_ne_snappy : gzip ≠ snappy := by decide

theorem pref_le (e : Str) : pref e ≤ 2 := by
  unfold pref; split <;> (try split) <;> omega

theorem pref_eq_two (e : Str) : pref e = 2 ↔ e = snappy := by
  unfold pref
  by_cases h1 : e = gzip
  · simp [h1, gzip_ne_snappy]
  · by_cases h2 : e = snappy
    · simp [h2, Ne.symm gzip_ne_snappy]
    · simp [h1, h2]

theorem pref_eq_one (e : Str) : pref e = 1 ↔ e = gzip := by
  unfold pref
  by_cases h1 : e = gzip
  · simp [h1]
  · by_cases h2 : e = snappy
    · simp [h2, Ne.symm gzip_ne_snappy]
    · simp [h1, h2]

theorem fold_snappy (ts : List Str) : ts.foldl pick (2, snappy) = (2, snappy) := by
  induction ts with
  | nil => rfl
  | cons e ts ih =>
    have : pick (2, snappy) e = (2, snappy) := by
      unfold pick
      have := pref_le e
      simp only []
      split
      · omega
      · rfl
    simp only [List.foldl_cons, this, ih]

theorem fold_gzip (ts : List Str) :
    ts.foldl pick (1, gzip) = if snappy ∈ ts then (2, snappy) else (1, gzip) := by
  induction ts with
  | nil => simp
  | cons e ts ih =>
    simp only [List.foldl_cons]
    by_cases h : e = snappy
    · have : pick (1, gzip) e = (2, snappy) := by
        subst h
        have := (pref_eq_two snappy).mpr rfl
        simp [pick, this]
      rw [this, fold_snappy]; simp [h]
    · have : pick (1, gzip) e = (1, gzip) := by
        unfold pick
        have h2 : pref e ≠ 2 := fun x => h ((pref_eq_two e).mp x)
        have := pref_le e
        simp only []
        split
        · omega
        · rfl
      rw [this, ih]
      have : (snappy ∈ e :: ts) = (snappy ∈ ts) := by
        simp [List.mem_cons, Ne.symm h]
      simp only [this]

theorem fold_zero (ts : List Str) :
    ts.foldl pick (0, []) =
      if snappy ∈ ts then (2, snappy) else if gzip ∈ ts then (1, gzip) else (0, []) := by
  induction ts with
  | nil => simp
  | cons e ts ih =>
    simp only [List.foldl_cons]
    by_cases h : e = snappy
    · have : pick (0, []) e = (2, snappy) := by
        subst h
        have := (pref_eq_two snappy).mpr rfl
        simp [pick, this]
      rw [this, fold_snappy]; simp [h]
    · by_cases g : e = gzip
      · have : pick (0, []) e = (1, gzip) := by
          subst g
          have := (pref_eq_one gzip).mpr rfl
          simp [pick, this]
        rw [this, fold_gzip]
        have e1 : (snappy ∈ e :: ts) = (snappy ∈ ts) := by simp [List.mem_cons, Ne.symm h]
        have e2 : (gzip ∈ e :: ts) = True := by simp [g]
        simp only [e1, e2, if_true]
      · have : pick (0, []) e = (0, []) := by
          unfold pick
          have h2 : pref e ≠ 2 := fun x => h ((pref_eq_two e).mp x)
          have h1 : pref e ≠ 1 := fun x => g ((pref_eq_one e).mp x)
          have := pref_le e
          simp only []
          split
          · omega
          · rfl
        rw [this, ih]
        have e1 : (snappy ∈ e :: ts) = (snappy ∈ ts) := by simp [List.mem_cons, Ne.symm h]
        have e2 : (gzip ∈ e :: ts) = (gzip ∈ ts) := by simp [List.mem_cons, Ne.symm g]
        simp only [e1, e2]

theorem selectEncoding_nil : selectEncoding [] = [] := by decide

/-! ### the request body of one attempt -/

/-- a faulting source never makes the request body end in EOF, whatever encoding was selected:
    `io.Copy` hands the error to `pw.CloseWithError` -/
theorem srcFault_bodyEnd (enc : Str) (file : Bytes) (k : Nat) (t : Bool) :
    bodyEnd enc (sourceOf file (.srcFault k t)).2 = .error t := by
  simp [bodyEnd, sourceOf, closeWithError, compressResult]

theorem roundTrip_status (enc : Str) (file : Bytes) (c : Nat) :
    roundTrip enc file (.status c) = (.response c, .complete file) := by
  simp [roundTrip, bodyEnd, sourceOf, closeWithError, compressResult, getReader]

theorem roundTrip_neterr (enc : Str) (file : Bytes) (t : Bool) :
    roundTrip enc file (.neterr t) = (.error t, .none) := by
  simp [roundTrip, bodyEnd, sourceOf, closeWithError, compressResult]

theorem roundTrip_srcFault (enc : Str) (file : Bytes) (k : Nat) (t : Bool) :
    roundTrip enc file (.srcFault k t) = (.error t, .aborted) := by
  simp [roundTrip, bodyEnd, sourceOf, closeWithError, compressResult]

/-- a handler reads a clean end of body only for the whole file, and only when the attempt's event
    is an answer of the server (not a transport error, not a source fault) -/
theorem roundTrip_complete (enc : Str) (file : Bytes) (o : Outcome) (body : Bytes)
    (h : (roundTrip enc file o).2 = .complete body) : body = file ∧ ∃ c, o = .status c := by
  cases o with
  | status c => rw [roundTrip_status] at h; simp at h; exact ⟨h.symm, c, rfl⟩
  | neterr t => rw [roundTrip_neterr] at h; simp at h
  | srcFault k t => rw [roundTrip_srcFault] at h; simp at h

/-- `cli.cli.Do` returns a response exactly for an answer of the server -/
theorem roundTrip_response (enc : Str) (file : Bytes) (o : Outcome) (c : Nat)
    (h : (roundTrip enc file o).1 = .response c) : o = .status c := by
  cases o with
  | status c' => rw [roundTrip_status] at h; simp at h; rw [h]
  | neterr t => rw [roundTrip_neterr] at h; simp at h
  | srcFault k t => rw [roundTrip_srcFault] at h; simp at h

/-! ### one pass of the loop -/

theorem pass_attempts (file : Bytes) (encs : Str) (bs : List Nat) (sc : List Outcome) :
    ∀ a ∈ (pass file encs bs sc).1,
      a.offered = file ∧ a.accept = encs ∧ a.enc = selectEncoding encs ∧ a.server ∈ bs := by
  induction bs generalizing sc with
  | nil => simp [pass]
  | cons b rest ih =>
    intro a ha
    unfold pass at ha
    simp only [] at ha
    split at ha
    · split at ha
      · simp at ha; subst ha; simp [getReader]
      · split at ha
        · simp at ha; subst ha; simp [getReader]
        · split at ha
          · simp only [List.mem_cons] at ha
            rcases ha with rfl | ha
            · simp [getReader]
            · obtain ⟨h1, h2, h3, h4⟩ := ih _ a ha
              exact ⟨h1, h2, h3, by simp [h4]⟩
          · simp at ha; subst ha; simp [getReader]
    · split at ha
      · simp only [List.mem_cons] at ha
        rcases ha with rfl | ha
        · simp [getReader]
        · obtain ⟨h1, h2, h3, h4⟩ := ih _ a ha
          exact ⟨h1, h2, h3, by simp [h4]⟩
      · simp at ha; subst ha; simp [getReader]

theorem pass_length (file : Bytes) (encs : Str) (bs : List Nat) (sc : List Outcome) :
    (pass file encs bs sc).1.length ≤ bs.length := by
  induction bs generalizing sc with
  | nil => simp [pass]
  | cons b rest ih =>
    unfold pass
    simp only []
    split
    · split
      · simp
      · split
        · simp
        · split
          · simp only [List.length_cons]; have := ih sc.tail; omega
          · simp
    · split
      · simp only [List.length_cons]; have := ih sc.tail; omega
      · simp

theorem pass_no_restart (file : Bytes) (bs : List Nat) (sc : List Outcome) :
    (pass file [] bs sc).2.1 ≠ .restart := by
  induction bs generalizing sc with
  | nil => simp [pass]
  | cons b rest ih =>
    unfold pass
    simp only []
    split
    · split
      · simp
      · split
        · next h => simp at h
        · split
          · exact ih sc.tail
          · simp
    · split
      · exact ih sc.tail
      · simp

/-- a restart happens on a 406 answer to a request that advertised encodings: the last attempt of
    the pass -/
theorem pass_restart_nonempty (file : Bytes) (encs : Str) (bs : List Nat) (sc : List Outcome)
    (h : (pass file encs bs sc).2.1 = .restart) : encs ≠ [] := by
  intro he
  subst he
  exact pass_no_restart file bs sc h

theorem tail_drop (sc : List Outcome) (n : Nat) : sc.tail.drop n = sc.drop (n + 1) := by
  cases sc <;> simp

theorem getD_tail (sc : List Outcome) (n : Nat) (d : Outcome) : sc.tail.getD n d = sc.getD (n + 1) d := by
  cases sc <;> simp

theorem getD_zero (sc : List Outcome) (d : Outcome) : sc.getD 0 d = sc.headD d := by
  cases sc <;> simp

theorem getD_drop (sc : List Outcome) (m j : Nat) (d : Outcome) : (sc.drop m).getD j d = sc.getD (m + j) d := by
  simp [List.getD_eq_getElem?_getD, List.getElem?_drop]

/-- attempt `i` of a pass consumes script entry `i` -/
theorem pass_consumed (file : Bytes) (encs : Str) (bs : List Nat) (sc : List Outcome) :
    (pass file encs bs sc).2.2 = sc.drop (pass file encs bs sc).1.length := by
  induction bs generalizing sc with
  | nil => simp [pass]
  | cons b rest ih =>
    unfold pass
    simp only []
    split
    · split
      · simp
      · split
        · simp
        · split
          · simp only [List.length_cons]; rw [ih sc.tail, tail_drop]
          · simp
    · split
      · simp only [List.length_cons]; rw [ih sc.tail, tail_drop]
      · simp

/-- a pass ends with a response only when its last attempt was answered by a server with a status
    below 300: the event of that attempt is `status c`, not a transport error and not a source fault -/
theorem pass_response (file : Bytes) (encs : Str) (bs : List Nat) (sc : List Outcome) (c s : Nat)
    (h : (pass file encs bs sc).2.1 = .final (.response c s)) :
    (pass file encs bs sc).1 ≠ [] ∧
    sc.getD ((pass file encs bs sc).1.length - 1) (.status 200) = .status c ∧ c < 300 := by
  induction bs generalizing sc with
  | nil => simp [pass] at h
  | cons b rest ih =>
    unfold pass at h ⊢
    simp only [] at h ⊢
    split at h
    · next c' hrt =>
      have ho := roundTrip_response _ _ _ _ hrt
      split at h
      · next hlt =>
        simp only [PassRes.final.injEq, Final.response.injEq] at h
        simp only [hrt, hlt, if_true, List.length_cons, List.length_nil, ne_eq, List.cons_ne_nil,
          not_false_eq_true, true_and]
        rw [getD_zero, ho, h.1]
        exact ⟨rfl, h.1 ▸ hlt⟩
      · split at h
        · simp at h
        · split at h
          · next hnl h406 htmp =>
            obtain ⟨i1, i2, i3⟩ := ih sc.tail h
            simp only [hrt, hnl, h406, htmp, if_false, if_true, List.length_cons, ne_eq, List.cons_ne_nil,
              not_false_eq_true, true_and]
            have hpos : 0 < (pass file encs rest sc.tail).1.length := List.length_pos_iff.mpr i1
            refine ⟨?_, i3⟩
            rw [getD_tail] at i2
            have e : (pass file encs rest sc.tail).1.length + 1 - 1 = (pass file encs rest sc.tail).1.length - 1 + 1 := by omega
            rw [e]; exact i2
          · simp at h
    · next t hrt =>
      split at h
      · next htmp =>
        obtain ⟨i1, i2, i3⟩ := ih sc.tail h
        simp only [hrt, htmp, if_true, List.length_cons, ne_eq, List.cons_ne_nil,
          not_false_eq_true, true_and]
        have hpos : 0 < (pass file encs rest sc.tail).1.length := List.length_pos_iff.mpr i1
        refine ⟨?_, i3⟩
        rw [getD_tail] at i2
        have e : (pass file encs rest sc.tail).1.length + 1 - 1 = (pass file encs rest sc.tail).1.length - 1 + 1 := by omega
        rw [e]; exact i2
      · simp at h

def isTemp : Outcome → Bool
  | .status c => statusIsTemporary c
  | .neterr t => t
  | .srcFault _ t => t

theorem temp_status (c : Nat) (h : statusIsTemporary c = true) : ¬ c < 300 ∧ ¬ (c = 406 ∨ c = 415) := by
  unfold statusIsTemporary at h
  simp at h
  omega

/-- the first `k` servers fail transiently, the next one answers below 300 -/
theorem pass_first_healthy (file : Bytes) (encs : Str) (fails : List Outcome) (c : Nat)
    (more : List Outcome) (bs : List Nat) (hf : ∀ o ∈ fails, isTemp o = true)
    (hk : fails.length < bs.length) (hc : c < 300) :
    pass file encs bs (fails ++ .status c :: more) =
      ((bs.take (fails.length + 1)).map (fun b => ⟨b, encs, selectEncoding encs, file⟩),
        .final (.response c (bs.getD fails.length 0)), more) := by
  induction fails generalizing bs with
  | nil =>
    match bs, hk with
    | b :: rest, _ =>
      simp [pass, hc, getReader, roundTrip_status]
  | cons o fails ih =>
    match bs, hk with
    | b :: rest, hk =>
      have hrest : rest ≠ [] := by
        intro h; subst h; simp at hk
      have hk' : fails.length < rest.length := by simp at hk; omega
      have iht := ih rest (fun x hx => hf x (by simp [hx])) hk'
      have ho := hf o (by simp)
      unfold pass
      cases o with
      | status c' =>
        simp only [isTemp] at ho
        obtain ⟨t1, t2⟩ := temp_status c' ho
        simp only [List.cons_append, List.headD_cons, List.tail_cons, roundTrip_status, t1, t2, ho, hrest,
          if_false, false_and, ne_eq, not_false_eq_true, and_self, if_true, iht]
        simp [getReader]
      | neterr t =>
        simp only [isTemp] at ho
        subst ho
        simp only [List.cons_append, List.headD_cons, List.tail_cons, roundTrip_neterr, hrest,
          ne_eq, not_false_eq_true, and_self, if_true, iht]
        simp [getReader]
      | srcFault k t =>
        simp only [isTemp] at ho
        subst ho
        simp only [List.cons_append, List.headD_cons, List.tail_cons, roundTrip_srcFault, hrest,
          ne_eq, not_false_eq_true, and_self, if_true, iht]
        simp [getReader]

theorem expand_length (bases : List Nat) (retries : Int) (bs : List Nat)
    (h : expand bases retries = some bs) : bases ≠ [] → bs ≠ [] := by
  intro hne
  unfold expand at h
  split at h
  · simp only [Option.some.injEq] at h
    subst h
    -- at least one copy is appended
    have hpos : 0 < retries.toNat := by omega
    match hr : retries.toNat, hpos with
    | n + 1, _ =>
      unfold repeatTo
      simp only [List.length_nil, List.nil_append]
      have : 0 < n + 1 := by omega
      simp only [this, if_true]
      -- after the first append the accumulator is non-empty and only grows
      have grow : ∀ fuel (acc : List Nat), acc ≠ [] → repeatTo bases (n + 1) fuel acc ≠ [] := by
        intro fuel
        induction fuel with
        | zero => intro acc ha; simpa [repeatTo] using ha
        | succ f ihf =>
          intro acc ha
          unfold repeatTo
          split
          · apply ihf; simp [ha]
          · exact ha
      exact grow n bases hne
  · simp at h; subst h; exact hne

end Relic.Transport

package main

// C16 reuses the C10 ops that embed tokens of every length residue into ClickOnce manifests (as:Timestamp is base64 in
// lines of 48 bytes) and CMS attributes: pseudo-property C16MF (checklib/models/mfpad.py, composite.second).

import (
	"bufio"
	"bytes"
	"fmt"
	"strings"

	"verifharness/c10"
)

func init() {
	handlers["C10"] = c10.Handle
	gens["C16MF"] = []genFunc{func(w *bufio.Writer, seed uint64, tier string) {
		var buf bytes.Buffer
		bw := bufio.NewWriter(&buf)
		c10.Gen(bw, seed, tier)
		bw.Flush()
		for _, line := range strings.Split(buf.String(), "\n") {
			if strings.HasPrefix(line, "C10 ts ") && strings.Contains(line, " pad") {
				fmt.Fprintln(w, line)
			}
		}
	}}
}

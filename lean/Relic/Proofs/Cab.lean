/- lemmas about the CAB model: the characterisation of a successful digest -/
import Relic.Model.Cab
import Relic.Proofs.PE
import Relic.Proofs.Codec
set_option linter.unusedSimpArgs false
namespace Relic.Cab
open Relic
open Relic.PE (seg u16 u32 ceil8 seg_length seg_append seg_self)

/-! ### bytes -/

theorem leVal_lt (b : Bytes) : leVal b < 256 ^ b.length := by
  induction b with
  | nil => simp [leVal]
  | cons x xs ih =>
    have hx := x.toNat_lt
    simp only [leVal, List.length_cons, Nat.pow_succ]
    omega

theorem leBytes_leVal (b : Bytes) : leBytes b.length (leVal b) = b := by
  induction b with
  | nil => rfl
  | cons x xs ih =>
    have hx := x.toNat_lt
    simp only [leVal, List.length_cons, leBytes]
    have e1 : (x.toNat + 256 * leVal xs) % 256 = x.toNat := by omega
    have e2 : (x.toNat + 256 * leVal xs) / 256 = leVal xs := by omega
    rw [e1, e2, ih]
    simp

theorem seg_append_left (x y : Bytes) (a b : Nat) (hb : b ≤ x.length) : seg (x ++ y) a b = seg x a b := by
  unfold seg
  by_cases hab : a ≤ b
  · rw [List.drop_append_of_le_length (by omega), List.take_append_of_le_length (by simp [List.length_drop]; omega)]
  · have : b - a = 0 := by omega
    simp [this]

theorem seg_at (pre m post : Bytes) (a b : Nat) (ha : a = pre.length) (hb : b = a + m.length) :
    seg (pre ++ (m ++ post)) a b = m := by
  subst ha; subst hb
  simp [seg]

theorem seg_full (x : Bytes) (b : Nat) (h : b = x.length) : seg x 0 b = x := by
  subst h; simp [seg]

theorem u32_lt (f : Bytes) (o : Nat) : u32 f o < 2 ^ 32 := by
  have h := leVal_lt (seg f o (o + 4))
  have l : (seg f o (o + 4)).length ≤ 4 := by simp [seg, List.length_take]; omega
  have : 256 ^ (seg f o (o + 4)).length ≤ 256 ^ 4 := Nat.pow_le_pow_right (by decide) l
  unfold u32; omega

theorem u16_lt (f : Bytes) (o : Nat) : u16 f o < 2 ^ 16 := by
  have h := leVal_lt (seg f o (o + 2))
  have l : (seg f o (o + 2)).length ≤ 2 := by simp [seg, List.length_take]; omega
  have : 256 ^ (seg f o (o + 2)).length ≤ 256 ^ 2 := Nat.pow_le_pow_right (by decide) l
  unfold u16; omega

theorem leBytes4_u32 (f : Bytes) (o : Nat) (h : o + 4 ≤ f.length) : leBytes 4 (u32 f o) = seg f o (o + 4) := by
  have l : (seg f o (o + 4)).length = 4 := by rw [seg_length f _ _ h]; omega
  have := leBytes_leVal (seg f o (o + 4))
  rw [l] at this
  exact this

/-! ### folder headers -/

theorem rebaseFolders_length (f : Bytes) (delta pos n : Nat) (h : pos + 8 * n ≤ f.length) :
    (rebaseFolders f delta pos n).length = 8 * n := by
  induction n generalizing pos with
  | zero => simp [rebaseFolders]
  | succ n ih =>
    simp only [rebaseFolders, List.length_append, leBytes_length]
    rw [seg_length f _ _ (by omega), ih (pos + 8) (by omega)]
    omega

/-- with `addOffset = 0` the folder loop writes back what it read -/
theorem rebaseFolders_zero (f : Bytes) (pos n : Nat) (h : pos + 8 * n ≤ f.length) :
    rebaseFolders f 0 pos n = seg f pos (pos + 8 * n) := by
  induction n generalizing pos with
  | zero => simp [rebaseFolders, seg_self]
  | succ n ih =>
    simp only [rebaseFolders]
    have e : rebase 0 (u32 f pos) = u32 f pos := by
      unfold rebase; have := u32_lt f pos; omega
    rw [e, leBytes4_u32 f pos (by omega), ih (pos + 8) (by omega), seg_append f _ _ _ (by omega) (by omega),
      seg_append f _ _ _ (by omega) (by omega)]
    congr 1; omega

/-! ### the 60-byte header record -/

/-- every field has the width `binary.Write` gives it -/
structure Hdr60.Lens (h : Hdr60) : Prop where
  magic : h.magic.length = 4
  r1 : h.r1.length = 4
  total : h.total.length = 4
  r2 : h.r2.length = 4
  off : h.off.length = 4
  r3ver : h.r3ver.length = 6
  nf : h.nf.length = 2
  nfiles : h.nfiles.length = 2
  flags : h.flags.length = 2
  setid : h.setid.length = 2
  cabnum : h.cabnum.length = 2
  hs : h.hs.length = 2
  fsz : h.fsz.length = 1
  dsz : h.dsz.length = 1
  u1 : h.u1.length = 4
  cs : h.cs.length = 4
  ss : h.ss.length = 4
  u2 : h.u2.length = 4
  u3 : h.u3.length = 4

theorem Hdr60.enc_length (h : Hdr60) (L : h.Lens) : h.enc.length = 60 := by
  simp [Hdr60.enc, L.magic, L.r1, L.total, L.r2, L.off, L.r3ver, L.nf, L.nfiles, L.flags, L.setid, L.cabnum, L.hs, L.fsz,
    L.dsz, L.u1, L.cs, L.ss, L.u2, L.u3]

theorem Hdr60.sigBlob_length (h : Hdr60) (L : h.Lens) : h.sigBlob.length = 34 := by
  simp [Hdr60.sigBlob, L.magic, L.total, L.r2, L.off, L.r3ver, L.nf, L.nfiles, L.flags, L.setid, L.u3]

/-- reading the fields back from the encoded header (followed by anything) -/
theorem Hdr60.read_enc (h : Hdr60) (L : h.Lens) (rest : Bytes) :
    seg (h.enc ++ rest) 0 4 = h.magic ∧ seg (h.enc ++ rest) 4 8 = h.r1 ∧ seg (h.enc ++ rest) 8 12 = h.total ∧
    seg (h.enc ++ rest) 12 16 = h.r2 ∧ seg (h.enc ++ rest) 16 20 = h.off ∧ seg (h.enc ++ rest) 20 26 = h.r3ver ∧
    seg (h.enc ++ rest) 26 28 = h.nf ∧ seg (h.enc ++ rest) 28 30 = h.nfiles ∧ seg (h.enc ++ rest) 30 32 = h.flags ∧
    seg (h.enc ++ rest) 32 34 = h.setid ∧ seg (h.enc ++ rest) 34 36 = h.cabnum ∧ seg (h.enc ++ rest) 36 38 = h.hs ∧
    seg (h.enc ++ rest) 38 39 = h.fsz ∧ seg (h.enc ++ rest) 39 40 = h.dsz ∧ seg (h.enc ++ rest) 40 44 = h.u1 ∧
    seg (h.enc ++ rest) 44 48 = h.cs ∧ seg (h.enc ++ rest) 48 52 = h.ss ∧ seg (h.enc ++ rest) 52 56 = h.u2 ∧
    seg (h.enc ++ rest) 56 60 = h.u3 := by
  have l1 := L.magic; have l2 := L.r1; have l3 := L.total; have l4 := L.r2; have l5 := L.off; have l6 := L.r3ver
  have l7 := L.nf; have l8 := L.nfiles; have l9 := L.flags; have l10 := L.setid; have l11 := L.cabnum; have l12 := L.hs
  have l13 := L.fsz; have l14 := L.dsz; have l15 := L.u1; have l16 := L.cs; have l17 := L.ss; have l18 := L.u2
  have l19 := L.u3
  refine ⟨?_, ?_, ?_, ?_, ?_, ?_, ?_, ?_, ?_, ?_, ?_, ?_, ?_, ?_, ?_, ?_, ?_, ?_, ?_⟩ <;>
    simp [Hdr60.enc, seg, List.drop_append, List.take_append, List.drop_eq_nil_of_le, List.take_of_length_le, l1, l2, l3, l4, l5, l6, l7, l8, l9, l10, l11, l12, l13, l14,
      l15, l16, l17, l18, l19]

/-- `PutUint32(hdr[48:], n)` replaces exactly the `SignatureSize` field -/
theorem setSigSize_enc (h : Hdr60) (L : h.Lens) (rest : Bytes) (n : Nat) :
    setSigSize (h.enc ++ rest) n = ({ h with ss := leBytes 4 n } : Hdr60).enc ++ rest := by
  have l1 := L.magic; have l2 := L.r1; have l3 := L.total; have l4 := L.r2; have l5 := L.off; have l6 := L.r3ver
  have l7 := L.nf; have l8 := L.nfiles; have l9 := L.flags; have l10 := L.setid; have l11 := L.cabnum; have l12 := L.hs
  have l13 := L.fsz; have l14 := L.dsz; have l15 := L.u1; have l16 := L.cs; have l17 := L.ss; have l18 := L.u2
  have l19 := L.u3
  simp [setSigSize, Hdr60.enc, List.drop_append, List.take_append, List.drop_eq_nil_of_le, List.take_of_length_le, l1, l2, l3, l4, l5, l6, l7, l8, l9, l10, l11, l12, l13, l14,
      l15, l16, l17, l18, l19]

theorem outHdr_lens (f : Bytes) (t o fl : Nat) (u1 u2 u3 : Bytes) (h : 36 ≤ f.length)
    (h1 : u1.length = 4) (h2 : u2.length = 4) (h3 : u3.length = 4) : (outHdr f t o fl u1 u2 u3).Lens := by
  constructor <;> simp only [outHdr, leBytes_length, List.length_cons, List.length_nil] <;>
    first | assumption | (rw [seg_length f _ _ (by omega)])

/-! ### the reserve area -/

structure ReserveOk (f : Bytes) (rv : Reserve) : Prop where
  shift : (rv.cur + rv.delta) % 2 ^ 32 = 60
  curGe : 36 ≤ rv.cur
  curLt : rv.cur < 2 ^ 17
  curLe : rv.cur ≤ f.length
  deltaLe : rv.delta ≤ 2 ^ 32
  l1 : rv.u1.length = 4
  l2 : rv.u2.length = 4
  l3 : rv.u3.length = 4
  noSig : rv.hasSig = false → rv.sigSize = 0
  kind : (rv.cur = 36 ∧ rv.delta = 24) ∨ 60 ≤ rv.cur

theorem noReserve_ok (f : Bytes) (h : 36 ≤ f.length) : ReserveOk f noReserve := by
  constructor <;> simp [noReserve] <;> omega

theorem readReserve_spec (f : Bytes) (total : Nat) (rv : Reserve) (e : readReserve f total = .ok rv) : ReserveOk f rv := by
  unfold readReserve at e
  by_cases c1 : f.length < 40
  · simp [c1] at e
  rw [if_neg c1] at e
  have hs16 := u16_lt f 36
  generalize u16 f 36 = hs at e hs16
  by_cases c2 : hs < 20 ∨ u8 f 38 ≠ 0 ∨ u8 f 39 ≠ 0
  · simp [c2] at e
  rw [if_neg c2] at e
  by_cases c3 : f.length < 60
  · simp [c3] at e
  rw [if_neg c3] at e
  simp only at e
  by_cases c4 : 0 < hs - 20
  · rw [if_pos c4] at e
    by_cases c5 : u32 f 44 ≠ 0
    · simp [c5] at e
    rw [if_neg c5] at e
    by_cases c6 : f.length < 60 + (hs - 20)
    · simp [c6] at e
    rw [if_neg c6] at e
    split at e
    · contradiction
    · injection e with e
      subst e
      constructor <;> simp <;> omega
  · rw [if_neg c4] at e
    split at e
    · contradiction
    · injection e with e
      subst e
      refine ⟨by simp, by simp, by simp, by simp; omega, by simp, ?_, ?_, ?_, by simp, by simp⟩ <;>
        (simp only; rw [seg_length f _ _ (by omega)])

/-! ### the central characterisation -/

/-- what a successful `cabfile.Digest` guarantees: the new header is the old one with `TotalSize`/`OffsetFiles` rebased and
    the reserve flag set, the folder headers are the file's with rebased offsets, the data is the `TotalSize - OffsetFiles`
    bytes behind the folder headers, and the file ends after the data (and the old signature, if any). -/
structure DigestOk (f : Bytes) (d : Digest) : Prop where
  len : 36 ≤ f.length
  magic : u32 f 0 = 0x4643534d
  total : d.total = u32 f 8
  off : d.offFiles = u32 f 16
  nf : d.nFolders = u16 f 26
  hdr : d.hdr = outHdr f (rebase d.delta d.total) (rebase d.delta d.offFiles) 4 d.hdr.u1 d.hdr.u2 d.hdr.u3
  l1 : d.hdr.u1.length = 4
  l2 : d.hdr.u2.length = 4
  l3 : d.hdr.u3.length = 4
  folders : d.folders = rebaseFolders f d.delta d.foldersStart d.nFolders
  data : d.data = seg f (d.foldersStart + 8 * d.nFolders) d.dataEnd
  dataEnd : d.dataEnd = d.foldersStart + 8 * d.nFolders + (d.total + 2 ^ 32 - d.offFiles) % 2 ^ 32
  stop : f.length = d.dataEnd + d.oldSigSize
  sig : d.signature = seg f d.dataEnd f.length
  shift : (d.foldersStart + d.delta) % 2 ^ 32 = 60
  fsGe : 36 ≤ d.foldersStart
  fsLt : d.foldersStart < 2 ^ 17
  deltaLe : d.delta ≤ 2 ^ 32
  kind : (d.foldersStart = 36 ∧ d.delta = 24) ∨ 60 ≤ d.foldersStart

theorem DigestCab_spec (f : Bytes) (d : Digest) (e : DigestCab f = .ok d) : DigestOk f d := by
  unfold DigestCab at e
  by_cases c1 : f.length < 36
  · simp [c1] at e
  rw [if_neg c1] at e
  by_cases c2 : u32 f 0 ≠ 0x4643534d
  · simp [c2] at e
  rw [if_neg c2] at e
  simp only at e
  generalize hfl : u16 f 30 = fl at e
  have hrv : ∀ rv, (if fl / 4 % 2 = 1 then readReserve f (u32 f 8) else .ok noReserve) = .ok rv → ReserveOk f rv := by
    intro rv h
    by_cases c : fl / 4 % 2 = 1
    · rw [if_pos c] at h; exact readReserve_spec f _ rv h
    · rw [if_neg c] at h; injection h with h; subst h; exact noReserve_ok f (by omega)
  cases hr : (if fl / 4 % 2 = 1 then readReserve f (u32 f 8) else .ok noReserve) with
  | err _ => simp [hr] at e
  | panic _ => simp [hr] at e
  | diverge => simp [hr] at e
  | ok rv =>
    have R := hrv rv hr
    simp only [hr] at e
    by_cases c3 : fl % 4 ≠ 0
    · simp [c3] at e
    rw [if_neg c3] at e
    by_cases c4 : 8 ≤ fl
    · simp [c4] at e
    rw [if_neg c4] at e
    have hof : (if fl / 4 % 2 = 1 then fl else fl + 4) = 4 := by split <;> omega
    rw [hof] at e
    by_cases c5 : f.length < rv.cur + 8 * u16 f 26
    · simp [c5] at e
    rw [if_neg c5] at e
    by_cases c6 : f.length < rv.cur + 8 * u16 f 26 + (u32 f 8 + 2 ^ 32 - u32 f 16) % 2 ^ 32
    · simp [c6] at e
    rw [if_neg c6] at e
    by_cases c7 : rv.hasSig = true ∧ f.length < rv.cur + 8 * u16 f 26 + (u32 f 8 + 2 ^ 32 - u32 f 16) % 2 ^ 32 + rv.sigSize
    · simp [c7] at e
    rw [if_neg c7] at e
    have c2' : u32 f 0 = 0x4643534d := by simpa using c2
    cases hsig : rv.hasSig with
    | true =>
      simp only [hsig, ↓reduceIte, true_and] at e c7
      by_cases c8 : rv.cur + 8 * u16 f 26 + (u32 f 8 + 2 ^ 32 - u32 f 16) % 2 ^ 32 + rv.sigSize < f.length
      · rw [if_pos c8] at e; cases e
      rw [if_neg c8] at e
      injection e with e
      subst e
      have hl : f.length = rv.cur + 8 * u16 f 26 + (u32 f 8 + 2 ^ 32 - u32 f 16) % 2 ^ 32 + rv.sigSize := by omega
      refine ⟨by omega, c2', rfl, rfl, rfl, rfl, R.l1, R.l2, R.l3, rfl, rfl, rfl, hl, ?_, R.shift, R.curGe, R.curLt, R.deltaLe, R.kind⟩
      show seg f _ _ = seg f _ _
      congr 1
      exact hl.symm
    | false =>
      simp only [hsig, ↓reduceIte, Bool.false_eq_true, false_and] at e c7
      by_cases c8 : rv.cur + 8 * u16 f 26 + (u32 f 8 + 2 ^ 32 - u32 f 16) % 2 ^ 32 < f.length
      · rw [if_pos c8] at e; cases e
      rw [if_neg c8] at e
      injection e with e
      subst e
      have hl : f.length = rv.cur + 8 * u16 f 26 + (u32 f 8 + 2 ^ 32 - u32 f 16) % 2 ^ 32 := by omega
      refine ⟨by omega, c2', rfl, rfl, rfl, rfl, R.l1, R.l2, R.l3, rfl, rfl, rfl, ?_, ?_, R.shift, R.curGe, R.curLt, R.deltaLe, R.kind⟩
      · show f.length = _ + 0
        rw [Nat.add_zero]; exact hl
      · show [] = seg f _ _
        rw [← hl, seg_self]

end Relic.Cab

/-
  C08 — Re-signing replaces the signature; digests ignore existing signatures.   RPM part (model `Relic.Model.Rpm`).
-/
import Relic.Props.C01_Rpm
namespace Relic.Props.C08
open Relic Relic.Rpm

/-- **rpm_digest_ignores_signature.** The two packets `sign` makes are functions of the general header bytes and the payload
    alone: two packages that differ in lead and signature header only (unsigned / signed by anyone, any reserved space) get the
    same packets in the same slots. -/
theorem rpm_digest_ignores_signature (mk : Bool → Bytes → Bytes) (p q : Parsed) (hg : p.gen = q.gen) (hp : p.payload = q.payload) :
    get tagRSA (withReserved (signedSig mk p)) = get tagRSA (withReserved (signedSig mk q)) ∧
    get tagPGP (withReserved (signedSig mk p)) = get tagPGP (withReserved (signedSig mk q)) := by
  obtain ⟨a1, a2, _⟩ := C01.rpm_signed_slots mk p
  obtain ⟨b1, b2, _⟩ := C01.rpm_signed_slots mk q
  rw [a1, a2, b1, b2, hg, hp]; exact ⟨rfl, rfl⟩

/-- **rpm_resign_replaces.** Whatever signatures the input carried — in the slots relic writes (268, 1002) or in the legacy
    slots (267 DSA, 1005 GPG) — the output holds exactly the two new packets: old ones are replaced or removed, never kept. -/
theorem rpm_resign_replaces (mk : Bool → Bytes → Bytes) (p : Parsed) (old : Entry) (t : Int)
    (ht : t = tagRSA ∨ t = tagPGP ∨ t = tagDSA ∨ t = tagGPG) (_hold : get t p.sig.ents = some old) :
    get t (withReserved (signedSig mk p)) = (if t = tagRSA then some ⟨7, (mk true p.gen.orig).length, mk true p.gen.orig⟩
      else if t = tagPGP then some ⟨7, (mk false (p.gen.orig ++ p.payload)).length, mk false (p.gen.orig ++ p.payload)⟩ else none) := by
  obtain ⟨a1, a2, a3, a4, _⟩ := C01.rpm_signed_slots mk p
  rcases ht with h | h | h | h <;> subst h
  · simp [a1]
  · rw [a2]; simp [tagPGP, tagRSA]
  · rw [a3]; simp [tagDSA, tagRSA, tagPGP]
  · rw [a4]; simp [tagGPG, tagRSA, tagPGP]

example : get tagDSA ([(267, ⟨7, 1, [1]⟩)] : EMap) = some ⟨7, 1, [1]⟩ := by decide

/-- sign^n on a package: the files after each round -/
def history (H : Nat → Bytes → Bytes) : List (Bool → Bytes → Bytes) → Bytes → Res Bytes
  | [], g => .ok g
  | mk :: r, g =>
    match sign H mk g with
    | .ok o => history H r (signedFile g o)
    | .err e => .err e
    | .panic s => .panic s
    | .diverge => .diverge

/-- the full history statement (not proved; executed per `hist` op, sizes compared exactly): every later round succeeds on
    relic's own output, replaces exactly what the round before wrote, and leaves general header and payload in place -/
def rpm_history_full : Prop :=
  ∀ (H : Nat → Bytes → Bytes) (mks : List (Bool → Bytes → Bytes)) (f : Bytes) (o : SignOut) (mk : Bool → Bytes → Bytes),
    sign H mk f = .ok o → ∃ g, history H mks (signedFile f o) = .ok g ∧ g.drop (g.length - (f.length - o.old)) = f.drop o.old

/-- **rpm_history** (`_partial`: one step, any number of times as long as `sign` succeeds): each successful round keeps every byte
    behind the signature area it found — so a history of successful rounds never touches general header or payload, and each
    round's patch lies inside the file of the round before (C12 applies). -/
theorem rpm_history_partial (H : Nat → Bytes → Bytes) (mk : Bool → Bytes → Bytes) (g : Bytes) (o : SignOut) (hs : sign H mk g = .ok o) :
    (signedFile g o).drop o.blob.length = g.drop o.old ∧ o.old ≤ g.length ∧ applyPatch g o = .ok (signedFile g o) := by
  obtain ⟨_, _, _, h3, _⟩ := C03.rpm_payload_preserved H mk g o hs
  obtain ⟨_, _, _, _, _, h5⟩ := C03.rpm_patch_is_signature_area H mk g o hs
  exact ⟨h3, h5, (C03.rpm_patch_constructible H mk g o hs).2⟩

/-- **rpm_reserved_space.** `DumpSignatureHeader(true)`: when the re-written header plus one index entry fits into the old one,
    a RESERVEDSPACE tag of exactly the missing bytes is inserted; otherwise none is written (the header shrinks by less than
    16 bytes or grows). -/
theorem rpm_reserved_space (s : Hdr) :
    let needed := (writeTo (del tagReserved s.ents)).length
    (needed + 16 ≤ s.orig.length → get tagReserved (withReserved s) = some ⟨7, ((s.orig.length - needed - 16 : Nat) : Int), zeros (s.orig.length - needed - 16)⟩) ∧
    (¬ needed + 16 ≤ s.orig.length → get tagReserved (withReserved s) = none) := by
  intro needed
  constructor
  · intro h
    unfold withReserved
    simp only [needed] at h
    simp only [h, if_true]
    exact get_ins_same _ _ _
  · intro h
    unfold withReserved
    simp only [needed] at h
    simp only [h, if_false]
    exact get_del_same _ _

end Relic.Props.C08

package c17

// Second generator of C17 (boundaries of the streaming / re-emission theorems):
//   - central directories that list the members in another order than they lie in the file (accepted by archive/zip and
//     zipfile; the single forward pass of ReadZipTar must refuse them at the first member that lies behind the stream
//     position: Props/C17_Stream stream_pass_exact, stream_backwards_refused);
//   - end records outside / inside the form WriteDirectory gives them (canonEnds of Props/C17_Reemit): version made by /
//     needed of the ZIP64 end record, classic end record with only some fields at their maximum, disk-count fields;
//   - a member asking for version 4.5 in an archive without ZIP64 records (22 bytes become 98 on re-emission).

import (
	"bufio"
	"bytes"
	"encoding/binary"
	"fmt"

	"github.com/sassoftware/relic/v8/lib/zipslicer"

	"verifharness/hx"
)

// doWdx: `wdx <extralen> <csize> <usize> <offset>` - WriteDirectory on a one-member synthetic directory whose member carries an
// extra field of extralen bytes (0x41): the ZIP64 field GetDirectoryHeader prepends must still fit the 16-bit length
func doWdx(f []string) string {
	u := func(s string) uint64 {
		var v uint64
		fmt.Sscan(s, &v)
		return v
	}
	d := &zipslicer.Directory{DirLoc: 1000}
	d.File = append(d.File, &zipslicer.File{CreatorVersion: 45, ReaderVersion: 20, Name: "a", Extra: bytes.Repeat([]byte{0x41}, int(u(f[1]))),
		CompressedSize: u(f[2]), UncompressedSize: u(f[3]), Offset: u(f[4])})
	var cd, eod bytes.Buffer
	if err := d.WriteDirectory(&cd, &eod, false); err != nil {
		return "err " + classify(err)
	}
	head := cd.Bytes()
	if len(head) > 80 {
		head = head[:80]
	}
	return fmt.Sprintf("ok %d %d %s %s", cd.Len(), ck(cd.Bytes()), hx.Hex(eod.Bytes()), hx.Hex(head))
}

// reorderCD rewrites the central directory of z (no ZIP64 records, no comment) with its records permuted; nil if z has
// not that shape
func reorderCD(z []byte, perm func(n int) []int) []byte {
	if len(z) < 22 || binary.LittleEndian.Uint32(z[len(z)-22:]) != 0x06054b50 {
		return nil
	}
	e := z[len(z)-22:]
	size, off := int(binary.LittleEndian.Uint32(e[12:])), int(binary.LittleEndian.Uint32(e[16:]))
	if off+size+22 != len(z) || binary.LittleEndian.Uint16(e[10:]) == 0xffff {
		return nil
	}
	cd := z[off : off+size]
	var recs [][]byte
	for len(cd) >= 46 && binary.LittleEndian.Uint32(cd) == 0x02014b50 {
		l := 46 + int(binary.LittleEndian.Uint16(cd[28:])) + int(binary.LittleEndian.Uint16(cd[30:])) + int(binary.LittleEndian.Uint16(cd[32:]))
		if l > len(cd) {
			return nil
		}
		recs = append(recs, cd[:l])
		cd = cd[l:]
	}
	if len(cd) != 0 || len(recs) < 2 {
		return nil
	}
	out := append([]byte{}, z[:off]...)
	for _, i := range perm(len(recs)) {
		out = append(out, recs[i]...)
	}
	return append(out, e...)
}

func Gen2(w *bufio.Writer, seed uint64, tier string) {
	r := hx.NewRng(hx.NewRng(seed ^ 0x2c1700).U64())
	// GetDirectoryHeader: the prepended ZIP64 field against the 16-bit extra length (65507 is the last length that fits)
	for _, n := range []int{0, 4, 65506, 65507, 65508, 65520, 65535} {
		fmt.Fprintf(w, "C17 wdx %d 5 7 9\n", n)
		fmt.Fprintf(w, "C17 wdx %d 5 4294967296 9\n", n)
		fmt.Fprintf(w, "C17 wdx %d 4294967295 7 9\n", n)
		fmt.Fprintf(w, "C17 wdx %d 5 7 4294967296\n", n)
	}
	n := 200
	if tier == "thorough" {
		n = 2000
	}
	for i := 0; i < n; i++ {
		a := genArchive(r, true)
		for len(a.members) < 2 {
			a.members = append(a.members, genMember(r))
		}
		z := a.build()
		var zr []byte
		switch r.Intn(3) {
		case 0: // reversed
			zr = reorderCD(z, func(n int) []int {
				p := make([]int, n)
				for i := range p {
					p[i] = n - 1 - i
				}
				return p
			})
		case 1: // two neighbours swapped
			k := r.Intn(len(a.members) - 1)
			zr = reorderCD(z, func(n int) []int {
				p := make([]int, n)
				for i := range p {
					p[i] = i
				}
				p[k], p[k+1] = p[k+1], p[k]
				return p
			})
		default: // rotated
			zr = reorderCD(z, func(n int) []int {
				p := make([]int, n)
				for i := range p {
					p[i] = (i + 1) % n
				}
				return p
			})
		}
		if zr != nil {
			fmt.Fprintf(w, "C17 read %s\n", hx.Hex(zr))
			if i%4 == 0 {
				fmt.Fprintln(w, rewriteOp(r, zr, len(a.members)))
			}
		}
	}
	// end records: the ZIP64 end record's versions, the classic record's fields, with and without a member needing 4.5
	for i := 0; i < n/2; i++ {
		a := genArchive(r, true)
		if len(a.members) == 0 {
			a.members = append(a.members, genMember(r))
		}
		if r.Bool() {
			a.members[0].verNeeded = uint16(r.Pick(20, 44, 45, 45, 46, 63))
		}
		a.z64 = r.Pick(0, 1, 1, 1, 2, 3, 4)
		z := a.build()
		if a.z64 != 0 {
			q := len(z) - 22 - 20 - 56
			if q >= 0 && binary.LittleEndian.Uint32(z[q:]) == 0x06064b50 {
				switch r.Intn(5) {
				case 0:
					binary.LittleEndian.PutUint16(z[q+12:], uint16(r.Pick(20, 30, 63, 0x031e))) // version made by
				case 1:
					binary.LittleEndian.PutUint16(z[q+14:], uint16(r.Pick(20, 46, 63))) // version needed
				case 2: // classic record: disk numbers (valid only when 0)
					binary.LittleEndian.PutUint16(z[len(z)-22+4:], uint16(r.Pick(0, 1)))
				}
			}
		}
		fmt.Fprintf(w, "C17 read %s\n", hx.Hex(z))
		if i%4 == 0 {
			fmt.Fprintln(w, rewriteOp(r, z, len(a.members)))
		}
	}
}

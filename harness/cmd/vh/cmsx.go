package main

// The CMS verification ops (harness/cms, first op token CMS) also run as a second correspondence of C10 (which signer
// info, certificate and countersignature Verify reports) and C16 (signed attributes are digested in the encoding that is
// stored; content-type / message-digest attributes consistent for every signer): pseudo-properties C10CM and C16CM
// (checklib/composite.py `second`).  The attribute-less reinterpretation (listed under C02 as inherent to PKCS#7) is no
// statement of C10 or C16 and is left out.

import (
	"bufio"
	"bytes"
	"fmt"
	"strings"

	"verifharness/cms"
)

func cmsWithout(muts ...string) genFunc {
	return func(w *bufio.Writer, seed uint64, tier string) {
		var buf bytes.Buffer
		bw := bufio.NewWriter(&buf)
		cms.Gen(bw, seed, tier, "C02")
		bw.Flush()
	next:
		for _, line := range strings.Split(buf.String(), "\n") {
			f := strings.Fields(line)
			if len(f) < 3 {
				continue
			}
			for _, m := range muts {
				if strings.HasSuffix(f[2], ":"+m) {
					continue next
				}
			}
			fmt.Fprintln(w, line)
		}
	}
}

func init() {
	gens["C10CM"] = []genFunc{cmsWithout("attr-reinterpret")}
	gens["C16CM"] = []genFunc{cmsWithout("attr-reinterpret")}
}

/- line-protocol handlers for C19 (xmldsig canonicaliser, ECDSA r‖s packing) -/
import Relic.Model.Xml
import Relic.Model.EcdsaPack
import Relic.Spec.ExcC14N
namespace Relic.Driver.C19
open Relic Relic.Xml

/-! tree token: comma-separated fields.
    `<nAncestors>,{<nAttrs>,{<space>,<key>,<value>}*}*,<node>` with
    node = `e,<space>,<tag>,<nAttrs>,{attr}*,<nKids>,{node}*` | `t,<data>,<0|1>` | `c,<data>` | `p,<target>,<inst>` | `d,<data>` -/

def parseAttrs : Nat → List String → Option (List Attr × List String)
  | 0, rest => some ([], rest)
  | n + 1, sp :: k :: v :: rest => do
    let sp ← fromHex sp
    let k ← fromHex k
    let v ← fromHex v
    let r ← parseAttrs n rest
    pure (⟨sp, k, v⟩ :: r.1, r.2)
  | _, _ => none

mutual
def parseNode : Nat → List String → Option (Node × List String)
  | 0, _ => none
  | f + 1, "e" :: sp :: tag :: na :: rest => do
    let sp ← fromHex sp
    let tag ← fromHex tag
    let na ← na.toNat?
    let ar ← parseAttrs na rest
    match ar.2 with
    | nk :: rest2 => do
      let nk ← nk.toNat?
      let kr ← parseNodes f nk rest2
      pure (.elem sp tag ar.1 kr.1, kr.2)
    | [] => none
  | _ + 1, "t" :: d :: c :: rest => do
    let d ← fromHex d
    pure (.text d (c = "1"), rest)
  | _ + 1, "c" :: d :: rest => do
    let d ← fromHex d
    pure (.comment d, rest)
  | _ + 1, "p" :: t :: i :: rest => do
    let t ← fromHex t
    let i ← fromHex i
    pure (.procinst t i, rest)
  | _ + 1, "d" :: d :: rest => do
    let d ← fromHex d
    pure (.directive d, rest)
  | _, _ => none
def parseNodes : Nat → Nat → List String → Option (List Node × List String)
  | _, 0, rest => some ([], rest)
  | 0, _, _ => none
  | f + 1, n + 1, rest => do
    let k ← parseNode f rest
    let ks ← parseNodes f n k.2
    pure (k.1 :: ks.1, ks.2)
end

def parseCtx : Nat → List String → Option (List (List Attr) × List String)
  | 0, rest => some ([], rest)
  | n + 1, na :: rest => do
    let na ← na.toNat?
    let ar ← parseAttrs na rest
    let r ← parseCtx n ar.2
    pure (ar.1 :: r.1, r.2)
  | _, _ => none

def parseTree (tok : String) : Option (List (List Attr) × Node) :=
  match tok.splitOn "," with
  | n :: rest => do
    let n ← n.toNat?
    let c ← parseCtx n rest
    let r ← parseNode (c.2.length + 1) c.2
    match r.1, r.2 with
    | .elem sp tag attrs kids, [] => pure (c.1, .elem sp tag attrs kids)
    | _, _ => none
  | [] => none

def showRes : Res Bytes → String
  | .ok b => s!"ok {toHex b}"
  | .err e => s!"err {e}"
  | .panic s => s!"panic {s}"
  | .diverge => "diverge"

def handle : List String → String
  | ["ecdsa", bits, rh, sh] =>
    match bits.toNat?, fromHex rh, fromHex sh with
    | some bits, some rb, some sb =>
      let r := beVal rb
      let s := beVal sb
      let w := EcdsaPack.curveBytes bits
      match EcdsaPack.packW w r s with
      | .ok p =>
        let rt : Bool := match EcdsaPack.unpack p with
          | .ok (r', s') => r' == r && s' == s
          | _ => false
        s!"ok {toHex p} rt={if rt then 1 else 0} #unfixed={toHex (EcdsaPack.packUnfixed r s)}"
      | .panic s => s!"panic {s}"
      | _ => "bad-op"
    | _, _, _ => "bad-op"
  | ["ecdsasign", _, _] => "ok bad=0"
  | ["canon", _, _, _, tree] =>
    match parseTree tree with
    | some (ctx, root) =>
      let c := canon ctx root
      let e := ExcC14N.excC14N ctx root
      let d := ExcC14N.devs ctx root
      let ds := if d.isEmpty then "none" else "+".intercalate d
      if c = e then s!"ok {toHex c} #exc=eq dev={ds}"
      else s!"ok {toHex c} #exc=ne dev={ds} spec={toHex e}"
    | none => "bad-op"
  | ["pair", _, _, _, ta, _, _, tb] =>
    match parseTree ta, parseTree tb with
    | some (ca, ra), some (cb, rb) =>
      let same := canon ca ra = canon cb rb
      let esame := ExcC14N.excC14N ca ra = ExcC14N.excC14N cb rb
      s!"ok {if same then "same" else "diff"} #exc={if esame then "same" else "diff"}"
    | _, _ => "bad-op"
  | "meta" :: kind :: _ =>
    if kind.startsWith "keep" then "ok pass" else if kind.startsWith "change" then "ok fail" else "bad-op"
  | "ident" :: _ => "ok verify=pass token=match publisher=match"
  | _ => "bad-op"

end Relic.Driver.C19

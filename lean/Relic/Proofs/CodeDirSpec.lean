/- the marshalled code directory satisfies the reader's specification (Relic.Spec.CodeDirectory.Describes) -/
import Relic.Proofs.CodeDir
import Relic.Spec.CodeDirectory
namespace Relic.CodeDir
open Relic
open Relic.Spec.CodeDirectory (Content Describes u8 u32 u64 cstr slot)

theorem render_length (H : Bytes → Bytes) (hs : Nat) (hH : ∀ s, (H s).length = hs) (l : List Seg) :
    (render H hs l).length = segsLen hs l := by
  induction l with
  | nil => rfl
  | cons s t ih =>
    have : render H hs (s :: t) = Seg.render H hs s ++ render H hs t := by simp [render]
    rw [this, List.length_append, ih]
    cases s <;> simp [segsLen, Seg.render, Seg.len, hH]

theorem special_block_len (H : Bytes → Bytes) (hs : Nat) (hH : ∀ s, (H s).length = hs) (o : Option Bytes) :
    (Seg.render H hs (specialSeg o)).length = hs := by
  cases o <;> simp [specialSeg, Seg.render, hH]

theorem flatten_length_blocks (hs : Nat) (bs : List Bytes) (h : ∀ b ∈ bs, b.length = hs) : bs.flatten.length = bs.length * hs := by
  induction bs with
  | nil => simp
  | cons b t ih =>
    simp only [List.flatten_cons, List.length_append, List.length_cons]
    rw [ih (fun x hx => h x (List.mem_cons_of_mem _ hx)), h b List.mem_cons_self, Nat.add_mul]
    omega

/-- the hash sizes `hashType` accepts -/
theorem hashSize_of_type (h ht : Nat) (e : hashTypeOf h = some ht) : hashSizeOf h = 20 ∨ hashSizeOf h = 32 ∨ hashSizeOf h = 48 := by
  unfold hashTypeOf at e
  unfold hashSizeOf
  by_cases h3 : h = 3
  · simp [h3]
  · by_cases h5 : h = 5
    · simp [h5]
    · by_cases h6 : h = 6
      · simp [h6]
      · simp [h3, h5, h6] at e

/-- the content a directory built from `p` is supposed to carry -/
def contentOf (H : Bytes → Bytes) (p : Params) (ht : Nat) : Content :=
  let hs := hashSizeOf p.hash
  { version := if p.execBase ≠ 0 ∨ p.execLimit ≠ 0 ∨ p.execFlags ≠ 0 then 0x20400 else 0x20300
    flags := p.flags
    nSpecial := p.specials.length
    nCode := p.codeSlotCount
    codeLimit := if p.codeLimit > 2 ^ 31 - 2 then 0 else p.codeLimit
    codeLimit64 := if p.codeLimit > 2 ^ 31 - 2 then p.codeLimit else 0
    hashSize := hs
    hashType := ht
    pageShift := if p.single then 0 else 12
    ident := p.ident
    team := p.team
    execBase := p.execBase
    execLimit := p.execLimit
    execFlags := p.execFlags
    code := fun i => Seg.render H hs (p.codeSlots.getD i .zero)
    special := fun k => Seg.render H hs (specialSeg ((p.specials.getD (p.specials.length - k) none))) }

/-- side conditions: everything fits the field widths, strings are C strings, one slot per page -/
structure Fits (H : Bytes → Bytes) (p : Params) : Prop where
  hashLen : ∀ s, (H s).length = hashSizeOf p.hash
  slotLen : ∀ s ∈ p.codeSlots, (Seg.render H (hashSizeOf p.hash) s).length = hashSizeOf p.hash
  count : p.codeSlots.length = p.codeSlotCount
  identNoNul : ∀ x ∈ p.ident, x ≠ 0
  teamNoNul : ∀ x ∈ p.team, x ≠ 0
  flags : p.flags < 2 ^ 32
  size : 88 + p.ident.length + 1 + (p.team.length + 1) + hashSizeOf p.hash * p.specials.length +
           hashSizeOf p.hash * p.codeSlots.length < 2 ^ 32
  limit : p.codeLimit < 2 ^ 63
  execBase : p.execBase < 2 ^ 64
  execLimit : p.execLimit < 2 ^ 64
  execFlags : p.execFlags < 2 ^ 64

theorem segsLen_blocks (H : Bytes → Bytes) (hs : Nat) (hH : ∀ s, (H s).length = hs) (l : List Seg)
    (h : ∀ s ∈ l, (Seg.render H hs s).length = hs) : segsLen hs l = hs * l.length := by
  rw [← render_length H hs hH l, render_blocks, flatten_length_blocks hs _ (by
    intro b hb
    obtain ⟨s, hs', rfl⟩ := List.mem_map.mp hb
    exact h s hs')]
  simp [Nat.mul_comm]

/-- **newCodeDirectory_describes.** What `newCodeDirectory` marshals is, for a reader of Apple's layout, a code
    directory with exactly the intended content. -/
theorem newCodeDirectory_describes (H : Bytes → Bytes) (p : Params) (ht : Nat) (segs : List Seg)
    (hht : hashTypeOf p.hash = some ht) (F : Fits H p) (e : newCodeDirectory p = .ok segs) :
    Describes (render H (hashSizeOf p.hash) segs) (contentOf H p ht) := by
  -- abbreviations
  have hsz := hashSize_of_type p.hash ht hht
  have htlt : ht < 256 := by
    unfold hashTypeOf at hht
    by_cases h3 : p.hash = 3
    · simp [h3] at hht; omega
    · by_cases h5 : p.hash = 5
      · simp [h5] at hht; omega
      · by_cases h6 : p.hash = 6
        · simp [h6] at hht; omega
        · simp [h3, h5, h6] at hht
  obtain ⟨hH, fSlot, fCount, fIdent, fTeam, fFlags, hsize, fLimit, fEB, fEL, fEF⟩ := F
  generalize hhs : hashSizeOf p.hash = hs at *
  -- the shape of the output
  let hdr := mkHeader p ht
  let tp : Bytes := if p.team.isEmpty then [] else p.team ++ [0]
  let spB := (p.specials.map (fun o => Seg.render H hs (specialSeg o)))
  let cdB := (p.codeSlots.map (Seg.render H hs))
  have hraw : render H hs segs = hdr.enc ++ (p.ident ++ 0 :: (tp ++ (spB.flatten ++ cdB.flatten))) := by
    unfold newCodeDirectory at e
    rw [hht] at e
    simp only [Res.ok.injEq] at e
    rw [← e, render_append, render_append, render_lit, render_blocks, render_blocks, List.map_map]
    simp only [List.append_assoc, List.cons_append, List.nil_append, hdr, tp, spB, cdB]
    rfl
  have hspl : ∀ b ∈ spB, b.length = hs := by
    intro b hb
    obtain ⟨o, _, rfl⟩ := List.mem_map.mp hb
    exact special_block_len H hs hH o
  have hcdl : ∀ b ∈ cdB, b.length = hs := by
    intro b hb
    obtain ⟨s, hs', rfl⟩ := List.mem_map.mp hb
    exact fSlot s hs'
  have hspL : spB.flatten.length = p.specials.length * hs := by
    rw [flatten_length_blocks hs _ hspl]; simp [spB]
  have hcdL : cdB.flatten.length = p.codeSlots.length * hs := by
    rw [flatten_length_blocks hs _ hcdl]; simp [cdB]
  have htpL : tp.length = if p.team.isEmpty then 0 else p.team.length + 1 := by
    simp only [tp]; split <;> simp
  have hsl : segsLen hs p.codeSlots = hs * p.codeSlots.length := segsLen_blocks H hs hH _ fSlot
  have henc := Header.enc_length hdr
  have hrawL : (render H hs segs).length = 88 + p.ident.length + 1 + tp.length + p.specials.length * hs + p.codeSlots.length * hs := by
    rw [hraw]; simp only [List.length_append, List.length_cons, henc, hspL, hcdL]; omega
  have htpLe : tp.length ≤ p.team.length + 1 := by rw [htpL]; split <;> omega
  -- the position of slot 0
  have hHO : hdr.hashOffset = 88 + p.ident.length + 1 + tp.length + p.specials.length * hs := by
    simp only [hdr, mkHeader, hhs, htpL]
    have h1 : p.specials.length % 2 ^ 32 = p.specials.length := Nat.mod_eq_of_lt (by
      rcases hsz with h | h | h <;> rw [h] at hsize <;> omega)
    have h2 : hs % 256 = hs := Nat.mod_eq_of_lt (by rcases hsz with h | h | h <;> omega)
    rw [h1, h2]
    split <;> simp <;> omega
  have hHOlt : hdr.hashOffset < 2 ^ 32 := by
    rw [hHO]; have := Nat.mul_comm hs p.specials.length; have := Nat.mul_comm hs p.codeSlots.length; omega
  have V : HdrView (render H hs segs) hdr := by rw [hraw]; exact enc_view hdr _
  have hho : u32 (render H hs segs) 16 = hdr.hashOffset := V.hashOffset.trans (Nat.mod_eq_of_lt hHOlt)
  have hio : u32 (render H hs segs) 20 = 88 := V.identOffset
  have hmulc1 := Nat.mul_comm hs p.specials.length
  have hmulc2 := Nat.mul_comm hs p.codeSlots.length
  -- dropping the fixed prefix
  have hdrop88 : (render H hs segs).drop 88 = p.ident ++ 0 :: (tp ++ (spB.flatten ++ cdB.flatten)) := by
    rw [hraw]; exact List.drop_left' henc
  have hdropT : (render H hs segs).drop (88 + p.ident.length + 1) = tp ++ (spB.flatten ++ cdB.flatten) := by
    rw [hraw]
    have : hdr.enc ++ (p.ident ++ 0 :: (tp ++ (spB.flatten ++ cdB.flatten))) =
        (hdr.enc ++ p.ident ++ [0]) ++ (tp ++ (spB.flatten ++ cdB.flatten)) := by simp
    rw [this]
    exact List.drop_left' (by simp [henc]; omega)
  have hdropS : (render H hs segs).drop (88 + p.ident.length + 1 + tp.length) = spB.flatten ++ cdB.flatten := by
    have : 88 + p.ident.length + 1 + tp.length = (88 + p.ident.length + 1) + tp.length := rfl
    rw [this, ← List.drop_drop, hdropT]
    exact List.drop_left' rfl
  have hnsp : p.specials.length < 2 ^ 32 := by rcases hsz with h | h | h <;> rw [h] at hsize <;> omega
  have hncd : p.codeSlots.length < 2 ^ 32 := by rcases hsz with h | h | h <;> rw [h] at hsize <;> omega
  have hhs256 : hs % 256 = hs := Nat.mod_eq_of_lt (by rcases hsz with h | h | h <;> omega)
  have hlen : hdr.length = (render H hs segs).length := by
    rw [hrawL]
    show (mkHeader p ht).length = _
    simp only [mkHeader, hhs, hsl, htpL]
    split <;> omega
  refine
    { magic := V.magic
      length := V.length.trans ((Nat.mod_eq_of_lt (by rw [hlen, hrawL]; omega)).trans hlen)
      version := V.version.trans (Nat.mod_eq_of_lt (by
        show (mkHeader p ht).version < 2 ^ 32
        simp only [mkHeader]; split <;> decide))
      flags := V.flags.trans (Nat.mod_eq_of_lt fFlags)
      nSpecial := V.nSpecial.trans (Nat.mod_eq_of_lt hnsp)
      nCode := V.nCode.trans (Nat.mod_eq_of_lt (by show p.codeSlotCount < 2 ^ 32; rw [← fCount]; exact hncd))
      codeLimit := V.codeLimit.trans (Nat.mod_eq_of_lt (by
        show (mkHeader p ht).codeLimit < 2 ^ 32
        simp only [mkHeader]; split <;> omega))
      hashSize := V.hashSize.trans (by
        show hashSizeOf p.hash % 256 % 2 ^ 8 = (contentOf H p ht).hashSize
        simp only [contentOf, hhs]
        omega)
      hashType := V.hashType.trans (Nat.mod_eq_of_lt htlt)
      platform := V.platform
      pageSize := V.pageShift.trans (Nat.mod_eq_of_lt (by
        show (mkHeader p ht).pageShift < 2 ^ 8
        simp only [mkHeader]; split <;> decide))
      spare2 := V.spare2
      scatter := V.scatter
      spare3 := V.spare3
      codeLimit64 := V.codeLimit64.trans (Nat.mod_eq_of_lt (by
        show (mkHeader p ht).codeLimit64 < 2 ^ 64
        simp only [mkHeader]; split <;> omega))
      execBase := V.execBase.trans (Nat.mod_eq_of_lt fEB)
      execLimit := V.execLimit.trans (Nat.mod_eq_of_lt fEL)
      execFlags := V.execFlags.trans (Nat.mod_eq_of_lt fEF)
      ident := ?_
      team := ?_
      slotsInside := ?_
      codeSlot := ?_
      specialSlot := ?_ }
  · -- ident
    rw [hio]
    unfold cstr
    rw [hdrop88, contains_zero]
    simp only [↓reduceIte, takeWhile_nz p.ident _ fIdent]
    rfl
  · -- team
    show if p.team = [] then _ else _
    by_cases ht0 : p.team = []
    · simp only [ht0, ↓reduceIte]
      refine V.teamOffset.trans ?_
      show (mkHeader p ht).teamOffset % 2 ^ 32 = 0
      simp [mkHeader, ht0]
    · simp only [ht0, ↓reduceIte]
      have hne : p.team.isEmpty = false := by
        cases hpt : p.team with
        | nil => exact absurd hpt ht0
        | cons x xs => rfl
      have hto : u32 (render H hs segs) 48 = 88 + p.ident.length + 1 := by
        refine V.teamOffset.trans ?_
        show (mkHeader p ht).teamOffset % 2 ^ 32 = _
        simp only [mkHeader, hne]
        simp only [Bool.false_eq_true, ↓reduceIte]
        exact Nat.mod_eq_of_lt (by omega)
      rw [hto]
      unfold cstr
      rw [hdropT]
      have htp : tp = p.team ++ [0] := by simp [tp, hne]
      rw [htp]
      have : p.team ++ [0] ++ (spB.flatten ++ cdB.flatten) = p.team ++ 0 :: (spB.flatten ++ cdB.flatten) := by simp
      rw [this, contains_zero]
      simp only [↓reduceIte, takeWhile_nz p.team _ fTeam]
      rfl
  · -- slots inside
    rw [hho, hHO, hrawL]
    show p.specials.length * hashSizeOf p.hash ≤ _ ∧ _ + p.codeSlotCount * hashSizeOf p.hash ≤ _
    rw [hhs, ← fCount]
    omega
  · -- code slots
    intro i hi
    have hi' : i < p.codeSlots.length := by rw [fCount]; exact hi
    rw [hho, hHO]
    show slot _ (_ + i * hashSizeOf p.hash) (hashSizeOf p.hash) = _
    rw [hhs]
    unfold slot
    have e1 : 88 + p.ident.length + 1 + tp.length + p.specials.length * hs + i * hs =
        (88 + p.ident.length + 1 + tp.length) + (spB.flatten.length + i * hs) := by rw [hspL]; omega
    rw [e1, ← List.drop_drop, hdropS, drop_len_add]
    have := block_at hs cdB i [] hcdl (by simpa [cdB] using hi')
    rw [List.append_nil] at this
    rw [this]
    simp only [contentOf, hhs, cdB, List.getElem_map]
    simp [List.getD, hi']
  · -- special slots
    intro k hk1 hk2
    have hk2' : k ≤ p.specials.length := hk2
    rw [hho, hHO]
    show slot _ (_ - k * hashSizeOf p.hash) (hashSizeOf p.hash) = _
    rw [hhs]
    unfold slot
    have e0 : p.specials.length * hs = (p.specials.length - k) * hs + k * hs := by
      rw [← Nat.add_mul]; congr 1; omega
    have e1 : 88 + p.ident.length + 1 + tp.length + p.specials.length * hs - k * hs =
        (88 + p.ident.length + 1 + tp.length) + (p.specials.length - k) * hs := by omega
    rw [e1, ← List.drop_drop, hdropS]
    have hidx : p.specials.length - k < spB.length := by simp [spB]; omega
    rw [block_at hs spB (p.specials.length - k) cdB.flatten hspl hidx]
    simp only [contentOf, hhs, spB, List.getElem_map]
    have hidx' : p.specials.length - k < p.specials.length := by omega
    simp [List.getD, hidx']

end Relic.CodeDir

/- helper lemmas for C09: the streaming PE checksum -/
import Relic.Model.PEChecksum
import Relic.Spec.PEChecksum
namespace Relic.PEChecksum
open Relic

/-- the loop over `w ++ r` continues from where the loop over (even-sized) `w` stopped -/
theorem loop_append (ck : Option Nat) (w r : Bytes) (i sum : Nat) (hw : w.length % 2 = 0) :
    loop ck i sum (w ++ r) = loop ck (i + w.length) (loop ck i sum w) r := by
  induction h : w.length using Nat.strongRecOn generalizing w i sum with
  | _ n ihn =>
    match w, h, hw with
    | [], h, _ => simp at h; subst h; simp [loop]
    | [x], _, hw => simp at hw
    | x :: y :: w', h, hw =>
      simp only [List.cons_append, loop]
      have hl : w'.length < n := by simp at h; omega
      have he' : w'.length % 2 = 0 := by simp at hw; omega
      rw [ihn w'.length hl w' _ _ he' rfl]
      simp only [List.length_cons] at h
      congr 1; omega

/-- with no checksum position the index is irrelevant -/
theorem loop_none_idx (i j sum : Nat) (l : Bytes) : loop none i sum l = loop none j sum l := by
  induction h : l.length using Nat.strongRecOn generalizing l i j sum with
  | _ n ihn =>
    match l, h with
    | [], _ => simp [loop]
    | [x], _ => simp [loop]
    | x :: y :: l', h =>
      simp only [loop]
      have hl : l'.length < n := by simp at h; omega
      have e : ∀ k : Nat, ((none : Option Nat) = some k ∨ Option.map (· + 2) (none : Option Nat) = some k) = False := by
        intro k; simp
      simp only [e, if_false]
      exact ihn l'.length hl (i + 2) (j + 2) _ l' rfl

/-- the checksum position does not matter if no visited index hits it -/
theorem loop_skip (p i sum : Nat) (l : Bytes)
    (hx : ∀ x, i ≤ x → x < i + l.length → x % 2 = i % 2 → x ≠ p ∧ x ≠ p + 2) :
    loop (some p) i sum l = loop none i sum l := by
  induction h : l.length using Nat.strongRecOn generalizing l i sum with
  | _ n ihn =>
    match l, h with
    | [], _ => simp [loop]
    | [x], _ => simp [loop]
    | x :: y :: l', h =>
      simp only [loop]
      have hl : l'.length < n := by simp at h; omega
      have hi := hx i (Nat.le_refl _) (by simp) rfl
      have c1 : ¬ ((some p : Option Nat) = some i ∨ Option.map (· + 2) (some p) = some i) := by
        simp only [Option.map_some, Option.some.injEq]
        omega
      have c2 : ¬ ((none : Option Nat) = some i ∨ Option.map (· + 2) (none : Option Nat) = some i) := by simp
      simp only [c1, c2, if_false]
      apply ihn l'.length hl (i + 2) _ l' _ rfl
      intro x h1 h2 h3
      apply hx x (by omega) (by simp only [List.length_cons]; omega) (by omega)

/-- padding commutes with prepending an even-sized write -/
theorem pad_append (w r : Bytes) (hw : w.length % 2 = 0) :
    (if (w ++ r).length % 2 ≠ 0 then (w ++ r) ++ [0] else w ++ r) =
      w ++ (if r.length % 2 ≠ 0 then r ++ [0] else r) := by
  have : (w ++ r).length % 2 = r.length % 2 := by simp; omega
  rw [this]
  split <;> simp

/-- **one boundary** (fixed code): an even-sized write followed by `r` is the same as writing
    `w ++ r` at once — no side condition -/
theorem write_append (s : St) (w r : Bytes) (ho : s.odd = false) (hw : w.length % 2 = 0) :
    (write s w).bind (fun s1 => write s1 r) = write s (w ++ r) := by
  have padw : (if w.length % 2 ≠ 0 then w ++ [0] else w) = w := by simp [hw]
  unfold write
  simp only [ho, Bool.false_eq_true, if_false, Res.bind, padw]
  have hdec : decide (w.length % 2 ≠ 0) = false := by simp [hw]
  simp only [hdec, Bool.false_eq_true, if_false]
  rw [pad_append w r hw]
  have hpar : decide ((w ++ r).length % 2 ≠ 0) = decide (r.length % 2 ≠ 0) := by
    have : (w ++ r).length % 2 = r.length % 2 := by simp; omega
    rw [this]
  have hsize : ((s.size + w.length) % 4294967296 + r.length) % 4294967296
      = (s.size + (w ++ r).length) % 4294967296 := by simp; omega
  have hpos : s.pos + w.length + r.length = s.pos + (w ++ r).length := by simp; omega
  rw [hpar, hsize, hpos, loop_append s.cksumPos w _ s.pos s.sum hw]

theorem write_ok (s : St) (d : Bytes) (ho : s.odd = false) :
    ∃ s1, write s d = .ok s1 ∧ s1.odd = decide (d.length % 2 ≠ 0) ∧ s1.cksumPos = s.cksumPos := by
  unfold write
  simp only [ho, Bool.false_eq_true, if_false]
  exact ⟨_, rfl, rfl, rfl⟩

theorem writes_append_last (s : St) (ws : List Bytes) (last : Bytes) (ho : s.odd = false)
    (hev : ∀ w ∈ ws, w.length % 2 = 0) :
    writes s (ws ++ [last]) = write s (ws.flatten ++ last) := by
  induction ws generalizing s with
  | nil =>
    simp only [List.nil_append, writes, List.flatten_nil]
    cases write s last <;> rfl
  | cons w ws ih =>
    have hw : w.length % 2 = 0 := hev w (by simp)
    have key := write_append s w (ws.flatten ++ last) ho hw
    simp only [List.cons_append, writes, List.flatten_cons, List.append_assoc]
    rw [← key]
    obtain ⟨s1, h1, hodd, _⟩ := write_ok s w ho
    rw [h1]
    simp only [Res.bind]
    apply ih s1 (by rw [hodd]; simp [hw]) (fun x hx => hev x (by simp [hx]))

/-! ### the streaming loop against the declarative specification -/

open Relic.Spec

theorem fold1_eq_eac (s v : Nat) (hs : s < 65536) (hv : v < 65536) :
    fold1 s v = eac (s + v) ∧ fold1 s v < 65536 := by
  simp only [fold1, eac]
  constructor <;> omega

theorem word_lt (a b : UInt8) : a.toNat + 256 * b.toNat < 65536 := by
  have := a.toNat_lt
  have := b.toNat_lt
  omega

/-- no field: the loop is the carry-folded word sum -/
theorem loop_none_spec (i s : Nat) (l : Bytes) (hl : l.length % 2 = 0) (hs : s < 65536) :
    loop none i s l = (words16 l).foldl (fun acc w => eac (acc + w)) s := by
  induction h : l.length using Nat.strongRecOn generalizing l i s with
  | _ n ihn =>
    match l, h, hl with
    | [], _, _ => simp [loop, words16]
    | [x], _, hl => simp at hl
    | x :: y :: l', h, hl =>
      have hlen : l'.length < n := by simp at h; omega
      have hl' : l'.length % 2 = 0 := by simp at hl; omega
      have e : ¬ ((none : Option Nat) = some i ∨ Option.map (· + 2) (none : Option Nat) = some i) := by simp
      have hw := word_lt x y
      obtain ⟨f1, f2⟩ := fold1_eq_eac s (y.toNat * 256 + x.toNat) hs (by omega)
      simp only [loop, words16, List.foldl_cons, e, if_false]
      rw [ihn l'.length hlen (i + 2) _ l' hl' f2 rfl, f1]
      congr 2; omega

/-- even field position, even start: the loop is the word sum of the bytes with the field zeroed -/
theorem loop_spec_even (P i s : Nat) (l : Bytes) (hP : P % 2 = 0) (hi : i % 2 = 0)
    (hl : l.length % 2 = 0) (hs : s < 65536) :
    loop (some P) i s l = (words16 (zeroField P i l)).foldl (fun acc w => eac (acc + w)) s := by
  induction h : l.length using Nat.strongRecOn generalizing l i s with
  | _ n ihn =>
    match l, h, hl with
    | [], _, _ => simp [loop, words16, zeroField]
    | [x], _, hl => simp at hl
    | x :: y :: l', h, hl =>
      have hlen : l'.length < n := by simp at h; omega
      have hl' : l'.length % 2 = 0 := by simp at hl; omega
      have hw := word_lt x y
      simp only [loop, zeroField, words16, List.foldl_cons, Option.map_some, Option.some.injEq]
      by_cases hz : P = i ∨ P + 2 = i
      · have z1 : P ≤ i ∧ i < P + 4 := by omega
        have z2 : P ≤ i + 1 ∧ i + 1 < P + 4 := by omega
        obtain ⟨f1, f2⟩ := fold1_eq_eac s 0 hs (by omega)
        simp only [hz, z1, z2, and_self, if_true]
        rw [ihn l'.length hlen (i + 2) _ l' (by omega) hl' f2 rfl, f1]
        simp
      · have z1 : ¬ (P ≤ i ∧ i < P + 4) := by omega
        have z2 : ¬ (P ≤ i + 1 ∧ i + 1 < P + 4) := by omega
        obtain ⟨f1, f2⟩ := fold1_eq_eac s (y.toNat * 256 + x.toNat) hs (by omega)
        simp only [hz, z1, z2, if_false]
        rw [ihn l'.length hlen (i + 2) _ l' (by omega) hl' f2 rfl, f1]
        congr 2; omega

theorem zeroField_append (P i : Nat) (x y : Bytes) :
    zeroField P i (x ++ y) = zeroField P i x ++ zeroField P (i + x.length) y := by
  induction x generalizing i with
  | nil => simp [zeroField]
  | cons a x ih =>
    simp only [List.cons_append, zeroField, ih, List.length_cons]
    congr 3; omega

theorem zeroField_length (P i : Nat) (x : Bytes) : (zeroField P i x).length = x.length := by
  induction x generalizing i with
  | nil => simp [zeroField]
  | cons a x ih => simp [zeroField, ih]

/-- zero-extending an odd final byte = appending a zero byte -/
theorem words16_pad (x : Bytes) (hx : x.length % 2 = 1) : words16 (x ++ [0]) = words16 x := by
  induction h : x.length using Nat.strongRecOn generalizing x with
  | _ n ihn =>
    match x, h, hx with
    | [], _, hx => simp at hx
    | [a], _, _ => simp [words16]
    | a :: b :: x', h, hx =>
      have hlen : x'.length < n := by simp at h; omega
      have hx' : x'.length % 2 = 1 := by simp at hx; omega
      simp only [List.cons_append, words16]
      rw [ihn x'.length hlen x' hx' rfl]

theorem zeroField_pad (P i : Nat) (x : Bytes) : zeroField P i (x ++ [0]) = zeroField P i x ++ [0] := by
  rw [zeroField_append]
  simp [zeroField]

theorem wordSum_bound (ws : List Nat) (s : Nat) (hs : s < 65536) (hw : ∀ w ∈ ws, w < 65536) :
    ws.foldl (fun acc w => eac (acc + w)) s < 65536 := by
  induction ws generalizing s with
  | nil => simpa using hs
  | cons w ws ih =>
    simp only [List.foldl_cons]
    apply ih
    · have := hw w (by simp)
      unfold eac; omega
    · intro x hx; exact hw x (by simp [hx])

theorem words16_lt (l : Bytes) : ∀ w ∈ words16 l, w < 65536 := by
  induction h : l.length using Nat.strongRecOn generalizing l with
  | _ n ihn =>
    match l, h with
    | [], _ => simp [words16]
    | [a], _ =>
      intro w hw
      simp [words16] at hw
      have := a.toNat_lt
      omega
    | a :: b :: l', h =>
      intro w hw
      simp only [words16, List.mem_cons] at hw
      rcases hw with rfl | hw
      · exact word_lt a b
      · exact ihn l'.length (by simp at h; omega) l' rfl w hw

/-- the padded data, seen through `words16`, is the unpadded data -/
theorem words_of_padded (f : Bytes → Bytes) (d : Bytes)
    (hf : ∀ x, f (x ++ [0]) = f x ++ [0]) (hlen : ∀ x, (f x).length = x.length) :
    words16 (f (if d.length % 2 ≠ 0 then d ++ [0] else d)) = words16 (f d) := by
  split
  · next h => rw [hf, words16_pad _ (by rw [hlen]; omega)]
  · rfl

/-- one-shot write from a fresh state with an even field position -/
theorem oneshot_even (P : Nat) (file : Bytes) (hP : P % 2 = 0) :
    ∃ s, write ⟨some P, 0, 0, 0, false⟩ file = .ok s ∧ sumVal s = peChecksum file P := by
  refine ⟨_, rfl, ?_⟩
  have hpl : (if file.length % 2 ≠ 0 then file ++ [0] else file).length % 2 = 0 := by
    split <;> (try simp only [List.length_append, List.length_cons, List.length_nil]) <;> omega
  simp only [sumVal, peChecksum, wordSum]
  rw [loop_spec_even P 0 0 _ hP rfl hpl (by omega),
    words_of_padded (zeroField P 0) file (zeroField_pad P 0) (zeroField_length P 0)]
  have hb := wordSum_bound (words16 (zeroField P 0 file)) 0 (by omega) (words16_lt _)
  generalize List.foldl (fun acc w => eac (acc + w)) 0 (words16 (zeroField P 0 file)) = S at hb ⊢
  simp only [eac]
  omega

/-- one-shot write when the field position is odd or absent: nothing is excluded -/
theorem oneshot_plain (ck : Option Nat) (file : Bytes) (hck : ∀ p, ck = some p → p % 2 = 1) :
    ∃ s, write ⟨ck, 0, 0, 0, false⟩ file = .ok s ∧ sumVal s = peChecksumPlain file := by
  refine ⟨_, rfl, ?_⟩
  have hpl : (if file.length % 2 ≠ 0 then file ++ [0] else file).length % 2 = 0 := by
    split <;> (try simp only [List.length_append, List.length_cons, List.length_nil]) <;> omega
  have hnone : loop ck 0 0 (if file.length % 2 ≠ 0 then file ++ [0] else file)
      = loop none 0 0 (if file.length % 2 ≠ 0 then file ++ [0] else file) := by
    cases ck with
    | none => rfl
    | some p =>
      have := hck p rfl
      exact loop_skip p 0 0 _ (by intro x _ _ h3; omega)
  simp only [sumVal, peChecksumPlain, wordSum]
  have hwp : words16 (if file.length % 2 ≠ 0 then file ++ [0] else file) = words16 file := by
    split
    · next h => exact words16_pad file (by omega)
    · rfl
  rw [hnone, loop_none_spec 0 0 _ hpl (by omega), hwp]
  have hb := wordSum_bound (words16 file) 0 (by omega) (words16_lt _)
  generalize List.foldl (fun acc w => eac (acc + w)) 0 (words16 file) = S at hb ⊢
  simp only [eac]
  omega

end Relic.PEChecksum

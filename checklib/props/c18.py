"""C18 — adding a signature stream keeps the compound file valid (lib/comdoc, lib/redblack, MSI digest)."""
import os, subprocess, sys
from collections import Counter
sys.path.insert(0, os.path.join(os.path.dirname(os.path.abspath(__file__)), "..", "models"))
import msi as _msi

import runner
from props import c18w
from runner import Broken, Finding, run_lines, split_tag, corpus_lines, load_known, GOENV, VH, DRIVER, NCPU

TIE = "corr:redblack + corr:comdoc-writer-tables + corr:comdoc-writer-bytes + validator:Spec.Cfb.validate + corr:msi-digest"
TIE_THEOREM = ("Relic.Props.C18.rb_insert_valid / rb_unfixed_plain (model Relic.Model.RedBlack vs lib/redblack: same tree "
               "for the same insertion sequence); Relic.Spec.Cfb.validate evaluated on the bytes lib/comdoc wrote; "
               "Relic.Props.C18.alloc_fresh / chain_of_addStream / addStream_frame / addStream_short_fat / free_then_alloc / "
               "history_preserves_disjoint (model Relic.Model.CfbWriter vs lib/comdoc makeFreeSectors, freeSectors, addStream, "
               "writeShortSector, AddFile, DeleteFile, Close: same tables entry for entry on the same operations); "
               "Relic.Props.C18.tar_equals_direct / msi_digest_ignores_signature / sort_is_permutation / sort_total_no_panic_partial / sort_unique "
               "(model Relic.Model.MsiDigest vs lib/authenticode msiverify.go, msitar.go on the same directory trees); "
               "Relic.Props.C18.streams_preserved / session_streams_preserved / added_stream_reads_back / tables_roundtrip / fat_parses_back / "
               "chain_walks_back / bytes_refine_tables / inv_checkable (model Relic.Model.CfbBytes vs lib/comdoc openFile, AddFile, DeleteFile, "
               "Close: the same FILE BYTES after every session, byte for byte; the invariant the theorems assume is evaluated on every opened input)")
RULE = ("(a) red-black: every insertion order of 0..n-1 (n<=5 quick, <=7 thorough), ascending/descending runs of 8..64, seeded random "
        "sequences with duplicates (<=60 keys) inserted into the real redblack.Tree and into the Lean model (both colour policies); "
        "validity (black root, no red-red, equal black height, search order) evaluated on the implementation's dumped tree. "
        "(b) compound files from the harness' own writer: sector shift 9/12 x mini-stream present/absent x stream sizes "
        "0/1/63/64/65/500/1000/4095/4096/4097/5000/8192/9000 x {plain, scattered chains + free sectors + free mini sectors, "
        "directory exactly full, empty directory slots, nested storages (2 levels), already signed, zero-length stream, spare FAT room, "
        "existing DIFAT sector, mixed-case sibling names} plus every *.msi of the repository; x histories of 1..3 (thorough 1..6) "
        "sessions of {InsertMSISignature(pkcs 1..9000 bytes around the 4096 cutoff, ex 0/20/32/64), AddFile extra/replace existing, "
        "DeleteFile existing/signature, case-variant name} + Close, run with the real code on a temp copy; input and output bytes are "
        "judged by the Lean predicate Spec.Cfb.validate and the stream lists compared (every untouched stream/storage identical in "
        "name, metadata, bytes; touched names hold exactly the new bytes). (c) DigestMSI vs DigestMsiTar(MsiToTar) on input and output, "
        "plain and extended, and digest(out)=digest(in) when only signature streams changed. thorough adds a 7 MiB file whose 109 "
        "header FAT slots are full (DIFAT growth). Non-trivial = distinct rb op with >=3 keys, or distinct file x history whose input "
        "is valid per the Lean predicate and on which the real code ran to completion (output judged), or a digest op. " + c18w.RULE + " (d) " + _msi.RULE)
ASSUMPTIONS = ["allocation tables shorter than 2^31 entries and stream contents shorter than 2^32 bytes (no int32/uint32 wrap in the writer model)",
               "directory names in generated files use ASCII letters, U+0005 and MSI's 0x3800-0x4840 code units; the validator's "
               "upper-casing covers ASCII, Latin-1, Latin Extended-A, basic Greek and Cyrillic only",
               "Go string comparison of valid UTF-8 equals code-point order (used by the model of lessDirEnt)",
               "stream contents up to 9000 bytes (70000 in the DIFAT-growth case); files <= 40 KiB in the quick tier",
               "storages other than the root are never modified by relic (validated as preserved, not modelled)",
               "SHA-256 stands for every crypto.Hash in the tar-vs-direct comparison (the code paths do not depend on the hash)"] + list(_msi.ASSUMPTIONS)
TRUSTED = ["Relic.Spec.Cfb.validate is my reading of [MS-CFB] (strict: exact chain lengths, special FAT marks, no trailing free sector, "
           "unreached directory entries empty); it is executed natively on the output bytes, no theorem connects it to lib/comdoc's writer",
           "the harness' CFB writer only produces *inputs*; every input is itself judged by the Lean predicate and counted only if valid",
           "model Relic.Model.RedBlack is hand-written; tied to lib/redblack by differential execution on every run",
           "model Relic.Model.CfbWriter (tables only: sector contents, directory links and names are not modelled; names enter as "
           "EqualFold classes assigned by the harness) is hand-written; tied to lib/comdoc by differential execution on every run, "
           "unexported functions reached through lib/comdoc/hooks_verif.go (build tag verif)",
           "model Relic.Model.CfbBytes (file = header + sectors; openFile, data placement, writeShortSector, rebuildTree, writeDirStream, "
           "writeSAT, writeMSAT, header, Truncate) is hand-written; its table component is PROVED equal to Relic.Model.CfbWriter "
           "(bytes_refine_tables) and its bytes are tied to lib/comdoc by differential execution (wb ops); os.File.WriteAt / Truncate "
           "semantics (zero fill of gaps) are assumed; strings.EqualFold and unicode.ToUpper are modelled by RedBlack.upperUnit"] + list(_msi.TRUSTED)
UNPROVED = ["add_preserves_valid_full (bytes level; now narrowed: proved over the byte-level model Relic.Model.CfbBytes under the invariant Inv: "
            "streams_preserved / session_streams_preserved (every stream a history of AddFile/DeleteFile + Close does not name keeps slot, name, "
            "class id, state bits, time stamps and reads back the same bytes), added_stream_reads_back, tables_roundtrip (the sectors Close wrote "
            "hold the serialised FAT, DIFAT, mini-FAT, directory, header of the final state; marks, counts, live chains disjoint, file ends "
            "after the last used sector), fat_parses_back / chain_walks_back (the SPEC's u32s? / walk / sectorBytes on the output bytes give the "
            "model's tables, chains and data), close_directory_tree; open: inv_of_valid_full and valid_of_closed_full below)",
            "inv_of_valid_full (Spec.Cfb.validate b = ok -> invB (openFile b) = true: the validator's traversal is not inverted; evaluated on "
            "every wb input and every model-predicted output: tag br)",
            "valid_of_closed_full (the facts of tables_roundtrip + streams_preserved imply Spec.Cfb.validate (output) = ok: the validator's claims / "
            "counts / red-black traversal over the re-parsed bytes, directory entries and header through Cfb.readDirEntry / Cfb.readHeader, "
            "is not replayed in Lean; evaluated on every wb and hist output)",
            "close_counts_full (stated over the table model; superseded at byte level by tables_roundtrip, whose header half is at the level "
            "of the 512 bytes written, not of Cfb.readHeader)",
            "add_preserves_disjoint_full (state level: that AddFile/DeleteFile keep the heads of St a list to which the proved "
            "table-level history_preserves_disjoint applies; evaluated on every dumped state instead)",
            "order_is_mscfb_full (refuted for the original lessDirEnt: order_differs_mixed_case; repaired as F4-order)",
            "msi_digest_ignores_signature_full (over file bytes; proved over directory trees: msi_digest_ignores_signature, tied by the MSI ops)",
            "tar_equals_direct_tree_full_orig (the code before the repair of Fmsi-tar: refuted by tar_differs_encoded_signature_name / "
            "tar_differs_nested_signature_name); for the repaired code tar_equals_direct holds for every document MsiToTar converts, "
            "and msiToTar_refuses characterises the refused ones"]
IMPL_PARALLEL = 16


# ---------------------------------------------------------------------------------------------
# red-black validity, evaluated on the tree the implementation built

def parse_tree(s):
    toks = s.replace("(", " ( ").replace(")", " ) ").split()
    pos = [0]
    def rd():
        t = toks[pos[0]]; pos[0] += 1
        if t == "-":
            return None
        if t != "(":
            raise ValueError(t)
        k = int(toks[pos[0]]); c = toks[pos[0] + 1]; pos[0] += 2
        l = rd(); r = rd()
        if toks[pos[0]] != ")":
            raise ValueError("expected )")
        pos[0] += 1
        return (k, c, l, r)
    t = rd()
    if pos[0] != len(toks):
        raise ValueError("trailing")
    return t


def rb_why(t):
    """first violated rule, same order as Relic.RedBlack.whyInvalid (search order non-strict: duplicates allowed)"""
    if t is not None and t[1] == "R":
        return "root-red"
    def redred(n):
        if n is None:
            return False
        k, c, l, r = n
        if c == "R" and ((l is not None and l[1] == "R") or (r is not None and r[1] == "R")):
            return True
        return redred(l) or redred(r)
    if redred(t):
        return "red-red"
    def bh(n):
        if n is None:
            return 0
        a, b = bh(n[2]), bh(n[3])
        if a is None or b is None or a != b:
            return None
        return a + (0 if n[1] == "R" else 1)
    if bh(t) is None:
        return "black-height"
    keys = []
    def ino(n):
        if n is not None:
            ino(n[2]); keys.append(n[0]); ino(n[3])
    ino(t)
    if any(keys[i] > keys[i + 1] for i in range(len(keys) - 1)):
        return "order"
    return "valid"


# ---------------------------------------------------------------------------------------------

def kv(s):
    return dict(x.split("=", 1) for x in s.split() if "=" in x)


def matches_known(k, op, il, mres, tag):
    ident = k.get("identity", {})
    site, pred = ident.get("site", ""), ident.get("predicate", "")
    if site == "comdoc.lessDirEnt" and pred == "out=dir-order-relic":
        # the written sibling tree is a search tree under the model of lessDirEnt but not under the [MS-CFB] order
        return mres.startswith("ok ") and kv(mres).get("in") == "valid" and kv(mres).get("out") == "dir-order-relic"
    if site == "comdoc.freeSectors/writeShortSAT/addStream" and pred == "index SecIDEndOfChain":
        # an empty chain (start = ENDOFCHAIN = -2) is used as an index: files without a mini-FAT at Close,
        # deleting/replacing a zero-length stream, adding zero-length content
        st = il.split(" ")[0]
        return st.startswith("panic:runtime_error:_index_out_of_range_[-2]") or \
            (st.startswith("err:") and "negative-offset" in st)
    if site == "comdoc.rebuildTree/ListDir" and pred == "storage without children":
        # StorageRoot = -1 used as an index (ListDir), or left dangling at a blanked entry (rebuildTree)
        return ("panic:runtime_error:_index_out_of_range_[-1]" in il) or \
            (mres.startswith("ok ") and kv(mres).get("in") == "valid" and kv(mres).get("out") == "tree-type")
    if site == "redblack.Insert" and pred == "new nodes black, root never re-blackened":
        if op.split(" ")[1] == "rb":
            return tag_variant(mres, tag, il) == "unfixed"
        return mres.startswith("ok ") and kv(mres).get("out") == "dir-black-height"
    return False


def tag_variant(mres, tag, il):
    fixed = "ok " + kv(tag).get("fixed", "?").replace("_", " ")
    if il == mres and il == fixed:
        return "both"
    if il == mres:
        return "unfixed"
    if il == fixed:
        return "fixed"
    return "neither"


def nontrivial(op, mres, tag):
    return True


def branch(op, mres, tag):
    return op.split(" ")[1]


def predicate(op, il, mres, tag):
    return None


def run(ctx):
    prop = "C18"
    env = dict(GOENV, VERIF_SEED=str(ctx["seed"]), VERIF_TIER=ctx["tier"])
    if ctx.get("replay_ops") is not None:
        ops = ctx["replay_ops"]
    else:
        g = subprocess.run([VH, prop, "gen"], stdout=subprocess.PIPE, stderr=subprocess.PIPE, text=True, env=env)
        if g.returncode != 0:
            raise Broken("vh C18 gen failed", g.stderr[-2000:])
        ops = corpus_lines(prop) + [l for l in g.stdout.split("\n") if l]
    if ctx.get("c18_kinds"):
        # another property (C03: payload of MSI containers) reuses the container half of this check
        ops = [l for l in ops if l.split(" ")[0] == "C18" and l.split(" ")[1] in ctx["c18_kinds"]]
    impl = run_lines([VH, prop, "impl"], ops, env=env, parallel=IMPL_PARALLEL, timeout=3600)
    # phase 2: the Lean side.  rb: the model on the same sequence.  hist: the validator on input and output bytes.
    mops = []
    for op, il in zip(ops, impl):
        f = op.split(" ")
        if f[1] == "rb":
            mops.append(op)
        elif f[1] == "hist":
            r = il.split(" ")
            if len(r) >= 4 and r[2].startswith("dg="):
                mops.append("C18 cfb %s %s %s" % (f[3], r[1], " ".join(r[3:])))
            else:
                mops.append("C18 cfbv " + f[3])
        elif f[1] == "digest":
            mops.append("C18 cfbv " + f[3])
        elif f[0] == "MSI":
            mops.append(op)
        elif f[1] in c18w.KINDS:
            mops.append(c18w.model_op(op, il))
        else:
            mops.append("C18 bad")
    model = run_lines([DRIVER], mops, parallel=NCPU)
    known = [k for k in load_known() if k.get("property") == ctx.get("c18_prop", prop) and k.get("status") == "known"]
    findings, known_hits = [], []
    tags, kinds, status_hist, out_classes, sizes = Counter(), Counter(), Counter(), Counter(), Counter()
    seen, nontriv = set(), 0
    inputs_valid = inputs_total = 0
    variants = Counter()
    mixed_reach, shapes, order_variant = {}, Counter(), Counter()
    wstats = Counter()

    def report(kind, theorem, op, expected, observed, note, il, mres, tag):
        kn = next((k for k in known if matches_known(k, op, il, mres, tag)), None)
        if kn is not None:
            known_hits.append((kn, op))
            return
        findings.append(Finding(kind, TIE, theorem, op, expected, observed, note))

    for op, il, ml in zip(ops, impl, model):
        mres, tag = split_tag(ml)
        f = op.split(" ")
        kinds[f[0] + " " + f[1]] += 1
        new = op not in seen
        seen.add(op)
        if f[0] == "MSI" or f[1] in c18w.KINDS:
            if f[0] == "MSI":
                cm = _msi.canon_model(op, mres)
                tags[_msi.branch(op, cm, tag)] += 1
                if new and _msi.nontrivial(op, cm, tag):
                    nontriv += 1
                bad = _msi.predicate("C18", op, il, cm, tag)
                short = " ".join(x if len(x) < 200 else x[:80] + "…(%d)" % len(x) for x in il.split(" "))
                if bad:
                    report("counterexample", bad[0], op, bad[1], short, bad[2], il, mres, tag)
                elif not _msi.equiv(op, il, cm):
                    report("broken-tie", "Relic.Model.MsiDigest vs lib/authenticode (DigestMSI / MsiToTar / DigestMsiTar)", op,
                           " ".join(x if len(x) < 200 else x[:80] + "…(%d)" % len(x) for x in cm.split(" ")), short,
                           "model and implementation disagree on an MSI digest op", il, mres, tag)
            elif f[1] in c18w.KINDS:
                probs, nt = c18w.judge(op, il, mres, tag, wstats)
                for kind, thm, exp, obs, note in probs:
                    report(kind, thm, op, exp, obs, note, il, mres, tag)
                if new and nt:
                    nontriv += 1
            continue
        if f[1] == "rb":
            nkeys = len(f) - 2
            v = tag_variant(mres, tag, il)
            variants[v] += 1
            tags["rb:" + v] += 1
            if v == "neither":
                report("broken-tie", "Relic.Props.C18.rb_unfixed_plain / rb_insert_valid", op,
                       mres + " | ok " + kv(tag).get("fixed", "").replace("_", " "), il,
                       "lib/redblack built a tree that neither colour policy of the model builds", il, mres, tag)
                continue
            try:
                why = rb_why(parse_tree(il[3:]))
            except (ValueError, IndexError):
                report("broken-tie", "Relic.Props.C18.rb_insert_valid", op, mres, il, "unparsable tree dump", il, mres, tag)
                continue
            lean_why = kv(tag).get("vu" if v in ("unfixed", "both") else "vf")
            if why != lean_why:
                report("broken-tie", "Relic.RedBlack.whyInvalid", op, str(lean_why), why,
                       "python and Lean disagree on the validity of the same tree", il, mres, tag)
                continue
            if new and nkeys >= 3:
                nontriv += 1
            if why != "valid":
                report("counterexample", "Relic.Props.C18.rb_insert_valid", op,
                       "a valid red-black tree, e.g. ok " + kv(tag).get("fixed", "").replace("_", " "), il,
                       "tree built by lib/redblack violates: " + why, il, mres, tag)
            continue
        if f[1] == "digest":
            inputs_total += 1
            if mres == "ok valid":
                inputs_valid += 1
            tags["digest:" + il] += 1
            if new:
                nontriv += 1
            if il != "ok dg=ok":
                report("counterexample", "Relic.Props.C18.tar_equals_direct_full", op, "ok dg=ok", il,
                       "DigestMsiTar(MsiToTar(f)) differs from DigestMSI(f)", il, mres, tag)
            continue
        if f[1] != "hist":
            continue
        r = il.split(" ")
        status = r[0]
        sizes[len(f[3]) // 2 // 8192 * 8] += 1
        inputs_total += 1
        status_hist[status.split("@")[0].split(":_index")[0]] += 1
        if not mres.startswith("ok"):
            report("broken-tie", "Relic.Spec.Cfb.validate", op, "a verdict", ml[:200] + " / impl: " + il[:200],
                   "driver or harness failed on this op", il, mres, tag)
            continue
        m = kv(mres)
        if mres == "ok valid" or m.get("in") == "valid":
            inputs_valid += 1
        short_il = " ".join([r[0]] + [x if len(x) < 80 else x[:40] + "…(%d hex)" % len(x) for x in r[1:]])
        if status.startswith("panic") or status.startswith("crash") or status == "not-run":
            tags["hist:panic"] += 1
            if mres == "ok valid" or m.get("in") == "valid":
                report("counterexample", "Relic.Props.C18.add_preserves_valid_full", op,
                       "history completes (or is refused with an error) and leaves a valid file", short_il,
                       "the real code panicked on a valid input", il, mres, tag)
            continue
        if m.get("in") != "valid":
            tags["hist:input-invalid:" + m.get("in", "?")] += 1
            continue
        out_classes[m.get("out", "?")] += 1
        ti, to = kv(tag).get("i", "-"), kv(tag).get("o", "-")
        cls = "mixedcase-files" if f[2].startswith("mixedcase") else "msi-like-and-fixture-files"
        if ti != "-":
            a = [int(x) for x in ti.split("/")]
            if a[1] > 0:
                mixed_reach[cls] = mixed_reach.get(cls, 0) + 1
            else:
                mixed_reach.setdefault(cls, 0)
            shapes["shift%d" % a[4]] += 1
            if a[7] > 0:
                shapes["input-has-difat-sector"] += 1
            if a[8] == 0:
                shapes["input-without-minifat"] += 1
            if to != "-":
                b = [int(x) for x in to.split("/")]
                for name, i in (("fat-grew", 6), ("difat-grew", 7), ("minifat-grew", 8), ("directory-grew", 9), ("file-grew", 5)):
                    if b[i] > a[i]:
                        shapes[name] += 1
                if b[5] < a[5]:
                    shapes["file-shrank"] += 1
                if b[3] > 0:
                    shapes["output-has-leaked-sectors"] += 1
                order_variant["coincide" if b[1] == 0 else ("mscfb-order(fixed)" if b[2] == 0 else "?")] += 1
        if m.get("out") == "dir-order-relic":
            order_variant["lessDirEnt-model-order(unfixed)"] += 1
        tags["hist:%s:out=%s:preserved=%s" % (f[2].split("/")[0], m.get("out"), m.get("preserved", "?").split(":")[0])] += 1
        if new and status == "ok":
            nontriv += 1
        refused = " (after a refused operation: %s)" % status if status.startswith("err") else ""
        if m.get("out") != "valid":
            report("counterexample", "Relic.Props.C18.add_preserves_valid_full", op, "in=valid out=valid preserved=1",
                   mres + " | " + short_il, "output of the real code is not a valid compound file: " + m.get("out", "?") + refused, il, mres, tag)
            continue
        if m.get("preserved") != "1":
            report("counterexample", "Relic.Props.C18.add_preserves_valid_full", op, "in=valid out=valid preserved=1",
                   mres + " | " + short_il, "a pre-existing stream/storage changed or a touched stream has wrong content: "
                   + m.get("preserved", "?") + refused, il, mres, tag)
            continue
        if ti != "-" and to != "-" and int(to.split("/")[3]) > int(ti.split("/")[3]):
            report("counterexample", "Relic.Props.C18.add_preserves_valid_full", op, "no sector allocated in the FAT without an owner",
                   "leaked sectors in/out: %s/%s | %s" % (ti.split("/")[3], to.split("/")[3], short_il),
                   "allocation table disagrees with the file: sectors marked in use that belong to no chain" + refused, il, mres, tag)
            continue
        dg = kv(il).get("dg", "skipped")
        if dg not in ("ok", "skipped"):
            thm = "msi_digest_ignores_signature_full" if dg == "sig-dependent" else "tar_equals_direct_full"
            report("counterexample", "Relic.Props.C18." + thm, op, "dg=ok", short_il, "digest oracle: " + dg, il, mres, tag)
    if ctx.get("replay_ops") is None:
        if set(variants) - {"both"} >= {"fixed", "unfixed"}:
            findings.append(Finding("broken-tie", TIE, "Relic.Props.C18.rb_unfixed_plain", "", "one colour policy on all ops",
                                    str(dict(variants)), "lib/redblack matches different model variants on different ops"))
        if inputs_total and inputs_valid * 10 < inputs_total * 9:
            raise Broken("C18 generator: only %d of %d input files are valid per Spec.Cfb.validate" % (inputs_valid, inputs_total))
    cov = {"evaluations": len(ops), "distinct_nontrivial": nontriv, "rule": RULE,
           "samples": [s[:300] + (" …(%d chars)" % len(s) if len(s) > 300 else "")
                       for s in [ops[i] for i in sorted(set([0, len(ops) // 3, (2 * len(ops)) // 3, len(ops) - 1])) if i < len(ops)]],
           "op_kinds": dict(kinds), "model_branches": dict(tags.most_common(60)),
           "traces_validated_against_impl": len(ops), "redblack_variant_of_repo": dict(variants),
           "history_status": dict(status_hist), "output_verdicts": dict(out_classes),
           "input_files_valid": inputs_valid, "input_files_total": inputs_total,
           "input_size_KiB_histogram": {str(k): v for k, v in sorted(sizes.items())},
           "shapes_exercised": dict(shapes), "writer_model_tie": dict(wstats), "directory_order_variant_of_repo": dict(order_variant),
           "histories_with_sibling_pairs_where_lessDirEnt_and_mscfb_differ": mixed_reach}
    return cov, findings, known_hits

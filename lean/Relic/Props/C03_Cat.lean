/-
  C03 — Signing never corrupts or alters the payload.   Security catalogs: the payload of a catalog is its certificate trust list.
-/
import Relic.Props.C16_Cat
namespace Relic.Props.C03
open Relic Relic.CatSign

/-- **cat_payload_preserved.**  The ContentInfo holding the certificate trust list appears in the output with exactly the
    bytes it had in the input (see `Relic.Props.C16.cat_content_reemitted_verbatim`); everything else of the old file – old
    signer infos, certificates, CRLs, digest algorithms – is signature metadata and is dropped. -/
theorem cat_payload_preserved (H : Bytes → Bytes) (k : Signer) (blob : Bytes) (s : Signed) (h : sign H k blob = .ok s) :
    s.ci <:+: blob ∧ s.ci <:+: s.out ∧ s.content <:+: s.ci :=
  let t := C16.cat_content_reemitted_verbatim H k blob s h
  ⟨t.1, t.2.1, t.2.2.2.2.1⟩

/-- **cat_refusal_is_clean**: `sign` answers ok or a plain error – no partial output exists in the model (the signer returns
    a fresh blob; the input file is replaced only on success) -/
theorem cat_refusal_is_clean (H : Bytes → Bytes) (k : Signer) (blob : Bytes) : Total (sign H k blob) := sign_total H k blob

end Relic.Props.C03

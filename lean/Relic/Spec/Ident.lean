/-
  Relic.Spec.Ident — specification-side definitions for the identity fields, written from the documents
  (not from relic's code):

  * the strong-name public key blob (ECMA-335 II.6.2.1.3 / `PublicKeyBlob` of the CLR's `StrongName.h`: `SigAlgID`,
    `HashAlgID`, `cbPublicKey`, then a CAPI `PUBLICKEYBLOB` = `PUBLICKEYSTRUC` ‖ `RSAPUBKEY` ‖ modulus, all little-endian,
    wincrypt.h) and the public key token (ECMA-335 II.6.3: "the low 8 bytes of the SHA-1 hash of the originator's public
    key", written most significant byte first, i.e. the low 64 bits of the digest read as a little-endian number);
  * the X.500 string form Windows derives from a certificate subject and compares `Publisher` / `publisherIdentity`
    with: `CertNameToStr(CERT_X500_NAME_STR | CERT_NAME_STR_REVERSE_FLAG)` as documented in wincrypt (key-name table,
    quoting rule, separators).  Transcribed from the documentation text; there is no Windows in the sandbox to run it.

  Core Lean only (the driver prints the specification's answer next to the model's).
-/
import Relic.Base.Bytes
import Relic.Model.Ident
namespace Relic.Spec.Ident
open Relic Relic.Ident

/-! ### strong-name key blob -/

/-- number of bytes needed for `n` (0 for 0) -/
def byteLen (n : Nat) : Nat :=
  if h : n = 0 then 0 else byteLen (n / 256) + 1
termination_by n
decreasing_by omega

/-- a little-endian field of `w` bytes -/
def field (w v : Nat) : Bytes := leBytes w v

/-- wincrypt.h `PUBLICKEYSTRUC` (BLOBHEADER): bType, bVersion, reserved, aiKeyAlg -/
def publicKeyStruc (bType bVersion aiKeyAlg : Nat) : Bytes :=
  field 1 bType ++ field 1 bVersion ++ field 2 0 ++ field 4 aiKeyAlg

/-- wincrypt.h `RSAPUBKEY`: magic "RSA1", bitlen, pubexp -/
def rsaPubKey (bitlen pubexp : Nat) : Bytes :=
  [0x52, 0x53, 0x41, 0x31] ++ field 4 bitlen ++ field 4 pubexp

/-- CAPI PUBLICKEYBLOB of an RSA signature key: header, RSAPUBKEY, modulus little-endian on bitlen/8 bytes -/
def capiPublicKeyBlob (n e : Nat) : Bytes :=
  publicKeyStruc 0x06 0x02 0x2400 ++ rsaPubKey (8 * byteLen n) e ++ leBytes (byteLen n) n

/-- `PublicKeyBlob`: SigAlgID = CALG_RSA_SIGN, HashAlgID = CALG_SHA1, cbPublicKey, PublicKey[cbPublicKey] -/
def strongNameBlob (n e : Nat) : Bytes :=
  let pk := capiPublicKeyBlob n e
  field 4 0x2400 ++ field 4 0x8004 ++ field 4 pk.length ++ pk

/-- the low 64 bits of the digest, read little-endian, written as 8 bytes most significant first -/
def tokenOfDigest (d : Bytes) : Bytes := beBytes 8 (leVal (d.drop (d.length - 8)))

/-! ### CertNameToStr(CERT_X500_NAME_STR | CERT_NAME_STR_REVERSE_FLAG) -/

/-- the documented key names of CERT_X500_NAME_STR (first name of each row) -/
def x500Keys : List (List Nat × Bytes) := [
  ([2, 5, 4, 3], ascii "CN"),                                   -- szOID_COMMON_NAME
  ([2, 5, 4, 7], ascii "L"),                                    -- szOID_LOCALITY_NAME
  ([2, 5, 4, 10], ascii "O"),                                   -- szOID_ORGANIZATION_NAME
  ([2, 5, 4, 11], ascii "OU"),                                  -- szOID_ORGANIZATIONAL_UNIT_NAME
  ([1, 2, 840, 113549, 1, 9, 1], ascii "E"),                    -- szOID_RSA_emailAddr
  ([2, 5, 4, 6], ascii "C"),                                    -- szOID_COUNTRY_NAME
  ([2, 5, 4, 8], ascii "S"),                                    -- szOID_STATE_OR_PROVINCE_NAME
  ([2, 5, 4, 9], ascii "STREET"),                               -- szOID_STREET_ADDRESS
  ([2, 5, 4, 12], ascii "T"),                                   -- szOID_TITLE
  ([2, 5, 4, 42], ascii "G"),                                   -- szOID_GIVEN_NAME
  ([2, 5, 4, 43], ascii "I"),                                   -- szOID_INITIALS
  ([2, 5, 4, 4], ascii "SN"),                                   -- szOID_SUR_NAME
  ([0, 9, 2342, 19200300, 100, 1, 25], ascii "DC"),             -- szOID_DOMAIN_COMPONENT
  ([2, 5, 4, 5], ascii "SERIALNUMBER"),                         -- szOID_DEVICE_SERIAL_NUMBER
  ([2, 5, 4, 13], ascii "Description"),                         -- szOID_DESCRIPTION
  ([2, 5, 4, 17], ascii "PostalCode"),                          -- szOID_POSTAL_CODE
  ([2, 5, 4, 18], ascii "POBox"),                               -- szOID_POST_OFFICE_BOX
  ([2, 5, 4, 20], ascii "Phone"),                               -- szOID_TELEPHONE_NUMBER
  ([2, 5, 4, 24], ascii "X21Address"),                          -- szOID_X21_ADDRESS
  ([2, 5, 4, 46], ascii "dnQualifier")]                         -- szOID_DN_QUALIFIER

/-- dotted decimal form of an object identifier -/
def dottedDecimal (oid : List Nat) : Bytes :=
  [46].intercalate (oid.map fun a => (Nat.toDigits 10 a).map fun c => UInt8.ofNat c.toNat)

/-- the key name, or "OID." followed by the dotted decimal form for an identifier without a key name -/
def keyOf (oid : List Nat) : Bytes :=
  match x500Keys.find? (fun e => e.1 == oid) with
  | some e => e.2
  | none => ascii "OID." ++ dottedDecimal oid

/-- "quoted if it contains leading or trailing white space or one of: , + = " \n < > # ;" (and when empty) -/
def quoteChars : Bytes := ascii ",+=\"\n<>#;"

def isWhite (c : UInt8) : Bool := c = 32 || (9 ≤ c.toNat && c.toNat ≤ 13)

def mustQuote (v : Bytes) : Bool :=
  match v with
  | [] => true
  | f :: _ => isWhite f || (match v.getLast? with | some l => isWhite l | none => false)
              || v.any (fun c => quoteChars.contains c)

/-- "the quotation character is ". If the value contains a ", it is enclosed within quotation marks ("")", i.e. doubled -/
def rdnValue (v : Bytes) : Bytes :=
  if mustQuote v then
    [34] ++ (v.flatMap fun c => if c = 34 then [34, 34] else [c]) ++ [34]
  else v

/-- only character-string values are in the scope of this transcription -/
def strOf : AVal → Bytes
  | .str s => s
  | _ => []

def atvStr (a : ATV) : Bytes := keyOf a.oid ++ [61] ++ rdnValue (strOf a.val)

/-- RDNs in reverse order separated by ", ", the attributes of a multi-valued RDN by " + " -/
def certNameToStr (n : Name) : Bytes :=
  (ascii ", ").intercalate (n.reverse.map fun rdn => (ascii " + ").intercalate (rdn.map atvStr))

/-! ### where relic's MS-OSCO style and the transcription above are known to part (decidable triggers) -/

def x21Oid : List Nat := [2, 5, 4, 24]
def dnqOid : List Nat := [2, 5, 4, 46]

def isStr : AVal → Bool
  | .str _ => true
  | _ => false

def hasApostrophe : AVal → Bool
  | .str s => s.contains 39
  | _ => false

def isOtherWhite (c : UInt8) : Bool := c = 9 || c = 11 || c = 12 || c = 13

/-- leading / trailing TAB, VT, FF or CR (relic only looks for the space character) -/
def edgeWhite : AVal → Bool
  | .str s => (match s.head? with | some c => isOtherWhite c | none => false)
              || (match s.getLast? with | some c => isOtherWhite c | none => false)
  | _ => false

/-- the class on which `publisher_is_spec` is stated -/
def agreeATV (a : ATV) : Bool :=
  isStr a.val && !hasApostrophe a.val && !edgeWhite a.val && a.oid != uid && a.oid != x21Oid && a.oid != dnqOid

def Agree (n : Name) : Bool := n.all fun rdn => rdn.all agreeATV

/-- trigger names for the check's histogram and known-finding identities -/
def devs (n : Name) : List String :=
  let atvs := n.flatten
  (if atvs.any (fun a => !isStr a.val) then ["nonstring"] else [])
  ++ (if atvs.any (fun a => hasApostrophe a.val) then ["apostrophe"] else [])
  ++ (if atvs.any (fun a => edgeWhite a.val) then ["edgewhite"] else [])
  ++ (if atvs.any (fun a => a.oid == uid || a.oid == x21Oid || a.oid == dnqOid) then ["keyname"] else [])

end Relic.Spec.Ident

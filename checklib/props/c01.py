"""C01 — see DESIGN.md section 5; format models: PE (more to come)."""
from composite import install
TIE = "corr:pe"
TIE_THEOREM = "Relic.Props.C01 (models Relic.Model.PE vs lib/authenticode)"
UNPROVED = ['Relic.Props.C01.vsix_sign_then_verify_full_orig (code before the repair of FV1): false, witness vsix_uri_roundtrip_gap; for the repaired code vsix_sign_then_verify holds at full strength (sign succeeds => verify accepts; refusals characterised by vsix_sign_refuses_iff), with the XML-DSig layer, encoding/xml and digests as parameters (VsixSound)', 'Relic.Props.C01.macho_sign_then_verify_full (end to end over scan/sign/locate; proved at patch-set level: macho_sign_then_verify_partial)', 'appx_sign_then_verify_full (model verifier accepts what the model signer wrote: needs Read∘WriteDirectory round trip; executed per op)', 'Relic.Props.C01.deb_sign_then_verify_full (text layer: checkSig accepts the canonical text of the message it was built from; proved at the archive layer: deb_sign_then_verify, plus a decided end-to-end instance)']
IMPL_PARALLEL = 16
install(globals(), "C01", ["pe", "e2e", "cab", "ps", "jar", "apk", "xsig", "apkv", "deb", "appx", "pgp", "macho", "magic", "vsix", "ident", "xap", "msisign", "dmg", "cosign", "appxv", "xar", "csvfy"])

# file-type detection and signer dispatch (checklib/models/magic.py): tables re-extracted from the Go source on every run
import magic as _magic


def generate(ctx):
    return _magic.generate(ctx)
UNPROVED += ['Relic.Props.C01.dmg_sign_then_verify_full (end to end through marshalSuperBlob / parseSignature; proved at the container layer for every image and blob: dmg_sign_then_verify + dmg_signed_slots + dmg_verify_single_slot + dmg_verify_rep_slot; executed per sign op)']
UNPROVED += ['Relic.Props.C01.cat_sign_then_verify_full (one statement from the bytes cat.sign emits to SignedData.Verify accepting them: the abstraction from the emitted SignerInfo / certificate bytes to Relic.Cms.SignedData is not formalised; proved at file level: cat_sign_then_verify (the verifier finds the ContentInfo and digests the octets that were signed), at value level: cat_sign_then_verify_cms + cat_signature_accepted)', 'Relic.Props.C01.cosign_sign_then_verify covers relic\'s side only: relic has no verifier for container-image signatures (external verifier = C05, not claimed)']
import appxv as _appxv
UNPROVED = list(UNPROVED) + _appxv.UNPROVED_C01

UNPROVED += ['Relic.Props.C01.xar_sign_then_verify_full (false on the unchanged tree: members without <archived-checksum> (xar_verify_needs_archived_checksum, FXAR1) and members in front of the old signature area (C03.xar_front_member_lost, FXAR3); proved for regular documents: xar_sign_then_verify)']

import csvfy as _csvfy  # Apple code signatures, decision level: Relic.Props.C01.csblob_sign_then_verify (lean/Relic/Props/C01_CsVerify.lean)
UNPROVED += _csvfy.UNPROVED_C01

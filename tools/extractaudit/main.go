// extractaudit: re-emit, as Lean data (Relic.AuditFields.FuncFacts), the def-use facts that decide
// which VALUE ends up in which audit attribute and which value is handed to the signing call.
//
//	extractaudit <repo> <out.lean>
//
// Per function it records (expression texts as printed by go/printer, source order):
//
//	params   parameter names with their type texts
//	assigns  every assignment / short declaration / var spec: (lhs, rhs); a multi-value call gives
//	         each lhs "call#i"; `x op= y`, `x++` are recorded with rhs "<op>"
//	calls    every call: (callee, arguments, innermost enclosing if-conditions, outermost first;
//	         an else branch contributes "!(cond)")
//	attrs    every `X.Attributes["k"] = v` (or `a["k"] = v` on a local map): (map, key, value, guards)
//	fields   every key:value of a composite literal: (type, field, value)
//	returns  the operand lists of the return statements
//	mentions every outermost selector chain (a.b.c) and every bare identifier used as a call argument
//	deletes  arguments of delete(...)
//
// Functions: lib/audit New, SetX509Cert, SetPgpCert, SetTimestamp, SetMimeType, SetCounterSignature,
// Marshal; internal/signinit InitKey, Init; internal/authmodel CertificateInfo.AuditContext;
// signers SignOpts.SetBinPatch, SetPkcs7; server serveSign; cmdline/token signCmd; and for every
// package under signers/ that registers a signers.Signer with a Sign function: the registration
// (Name, Aliases, CertTypes, Sign, Transform) and every function of the package that has a
// parameter of type signers.SignOpts.
//
// Anything the extractor cannot find is a hard error: the Lean file is written without the
// definition, so the obligations fail to elaborate.  stdlib only.
package main

import (
	"bytes"
	"fmt"
	"go/ast"
	"go/parser"
	"go/printer"
	"go/token"
	"os"
	"path/filepath"
	"sort"
	"strconv"
	"strings"
)

type ex struct {
	fset *token.FileSet
}

func (x *ex) text(n ast.Node) string {
	var b bytes.Buffer
	_ = printer.Fprint(&b, x.fset, n)
	return strings.Join(strings.Fields(b.String()), " ")
}

func lstr(s string) string {
	var b strings.Builder
	b.WriteByte('"')
	for _, r := range s {
		switch r {
		case '"':
			b.WriteString("\\\"")
		case '\\':
			b.WriteString("\\\\")
		case '\n':
			b.WriteString("\\n")
		case '\t':
			b.WriteString("\\t")
		default:
			b.WriteRune(r)
		}
	}
	b.WriteByte('"')
	return b.String()
}

func llist(xs []string) string {
	q := make([]string, len(xs))
	for i, s := range xs {
		q[i] = lstr(s)
	}
	return "[" + strings.Join(q, ", ") + "]"
}

type facts struct {
	name     string
	params   [][2]string
	assigns  [][2]string
	calls    []callFact
	attrs    []attrFact
	fields   [][3]string
	returns  [][]string
	mentions []string
	deletes  []string
}

type callFact struct {
	fun    string
	args   []string
	guards []string
}

type attrFact struct {
	m, key, val string
	guards      []string
}

func (x *ex) collect(fd *ast.FuncDecl, name string) *facts {
	f := &facts{name: name}
	if fd.Recv != nil {
		for _, p := range fd.Recv.List {
			for _, n := range p.Names {
				f.params = append(f.params, [2]string{n.Name, x.text(p.Type)})
			}
		}
	}
	for _, p := range fd.Type.Params.List {
		for _, n := range p.Names {
			f.params = append(f.params, [2]string{n.Name, x.text(p.Type)})
		}
	}
	seenMention := map[string]bool{}
	mention := func(s string) {
		if !seenMention[s] {
			seenMention[s] = true
			f.mentions = append(f.mentions, s)
		}
	}
	var walk func(n ast.Node, guards []string)
	walkList := func(l []ast.Stmt, g []string) {
		for _, s := range l {
			walk(s, g)
		}
	}
	var exprs func(e ast.Node, g []string)
	exprs = func(e ast.Node, g []string) {
		if e == nil {
			return
		}
		ast.Inspect(e, func(m ast.Node) bool {
			switch v := m.(type) {
			case *ast.FuncLit:
				walkList(v.Body.List, g)
				return false
			case *ast.SelectorExpr:
				mention(x.text(v))
				// descend only into a non-selector root (call results, index expressions, ...)
				root := v.X
				for {
					if s, ok := root.(*ast.SelectorExpr); ok {
						root = s.X
						continue
					}
					break
				}
				if _, ok := root.(*ast.Ident); !ok {
					exprs(root, g)
				}
				return false
			case *ast.CallExpr:
				cf := callFact{fun: x.text(v.Fun), guards: append([]string(nil), g...)}
				for _, a := range v.Args {
					cf.args = append(cf.args, x.text(a))
					if id, ok := a.(*ast.Ident); ok {
						mention(id.Name)
					}
				}
				f.calls = append(f.calls, cf)
				if id, ok := v.Fun.(*ast.Ident); ok && id.Name == "delete" {
					f.deletes = append(f.deletes, cf.args...)
				}
			case *ast.CompositeLit:
				ty := ""
				if v.Type != nil {
					ty = x.text(v.Type)
				}
				for _, el := range v.Elts {
					if kv, ok := el.(*ast.KeyValueExpr); ok {
						f.fields = append(f.fields, [3]string{ty, x.text(kv.Key), x.text(kv.Value)})
					}
				}
			}
			return true
		})
	}
	assign := func(lhs []ast.Expr, rhs []ast.Expr, tok token.Token, g []string) {
		if tok != token.ASSIGN && tok != token.DEFINE {
			for _, l := range lhs {
				f.assigns = append(f.assigns, [2]string{x.text(l), "<" + tok.String() + ">"})
			}
		} else if len(lhs) == len(rhs) {
			for i, l := range lhs {
				if ix, ok := l.(*ast.IndexExpr); ok {
					if key, ok := ix.Index.(*ast.BasicLit); ok && key.Kind == token.STRING {
						k, _ := strconv.Unquote(key.Value)
						f.attrs = append(f.attrs, attrFact{m: x.text(ix.X), key: k, val: x.text(rhs[i]), guards: append([]string(nil), g...)})
					} else {
						f.attrs = append(f.attrs, attrFact{m: x.text(ix.X), key: "<dynamic:" + x.text(ix.Index) + ">", val: x.text(rhs[i]), guards: append([]string(nil), g...)})
					}
				}
				f.assigns = append(f.assigns, [2]string{x.text(l), x.text(rhs[i])})
			}
		} else if len(rhs) == 1 {
			for i, l := range lhs {
				f.assigns = append(f.assigns, [2]string{x.text(l), fmt.Sprintf("%s#%d", x.text(rhs[0]), i)})
			}
		}
		for _, l := range lhs {
			if _, ok := l.(*ast.Ident); !ok {
				exprs(l, g)
			}
		}
		for _, r := range rhs {
			exprs(r, g)
		}
	}
	walk = func(n ast.Node, g []string) {
		switch s := n.(type) {
		case nil:
		case *ast.BlockStmt:
			walkList(s.List, g)
		case *ast.AssignStmt:
			assign(s.Lhs, s.Rhs, s.Tok, g)
		case *ast.IncDecStmt:
			f.assigns = append(f.assigns, [2]string{x.text(s.X), "<" + s.Tok.String() + ">"})
		case *ast.DeclStmt:
			if gd, ok := s.Decl.(*ast.GenDecl); ok {
				for _, sp := range gd.Specs {
					if vs, ok := sp.(*ast.ValueSpec); ok {
						var lhs []ast.Expr
						for _, nm := range vs.Names {
							lhs = append(lhs, nm)
						}
						if len(vs.Values) > 0 {
							assign(lhs, vs.Values, token.DEFINE, g)
						} else {
							for _, nm := range vs.Names {
								f.assigns = append(f.assigns, [2]string{nm.Name, "<zero>"})
							}
						}
					}
				}
			}
		case *ast.IfStmt:
			walk(s.Init, g)
			exprs(s.Cond, g)
			c := x.text(s.Cond)
			walk(s.Body, append(append([]string(nil), g...), c))
			if s.Else != nil {
				walk(s.Else, append(append([]string(nil), g...), "!("+c+")"))
			}
		case *ast.ReturnStmt:
			var r []string
			for _, e := range s.Results {
				r = append(r, x.text(e))
				exprs(e, g)
			}
			f.returns = append(f.returns, r)
		case *ast.ExprStmt:
			exprs(s.X, g)
		case *ast.DeferStmt:
			exprs(s.Call, g)
		case *ast.GoStmt:
			exprs(s.Call, g)
		case *ast.ForStmt:
			walk(s.Init, g)
			exprs(s.Cond, g)
			walk(s.Post, g)
			walk(s.Body, append(append([]string(nil), g...), "<loop>"))
		case *ast.RangeStmt:
			if s.Key != nil {
				f.assigns = append(f.assigns, [2]string{x.text(s.Key), "<range " + x.text(s.X) + ">"})
			}
			if s.Value != nil {
				f.assigns = append(f.assigns, [2]string{x.text(s.Value), "<range " + x.text(s.X) + ">"})
			}
			exprs(s.X, g)
			walk(s.Body, append(append([]string(nil), g...), "<loop>"))
		case *ast.SwitchStmt:
			walk(s.Init, g)
			exprs(s.Tag, g)
			for _, c := range s.Body.List {
				cc := c.(*ast.CaseClause)
				lbl := "<case"
				for _, e := range cc.List {
					lbl += " " + x.text(e)
					exprs(e, g)
				}
				walkList(cc.Body, append(append([]string(nil), g...), lbl+">"))
			}
		case *ast.TypeSwitchStmt:
			walk(s.Init, g)
			walk(s.Assign, g)
			for _, c := range s.Body.List {
				walkList(c.(*ast.CaseClause).Body, append(append([]string(nil), g...), "<typecase>"))
			}
		case *ast.SelectStmt:
			for _, c := range s.Body.List {
				cc := c.(*ast.CommClause)
				walk(cc.Comm, g)
				walkList(cc.Body, append(append([]string(nil), g...), "<select>"))
			}
		case *ast.LabeledStmt:
			walk(s.Stmt, g)
		case *ast.SendStmt:
			exprs(s.Chan, g)
			exprs(s.Value, g)
		case *ast.BranchStmt, *ast.EmptyStmt:
		default:
			exprs(n, g)
		}
	}
	walkList(fd.Body.List, nil)
	return f
}

func (f *facts) lean(ind string) string {
	var b strings.Builder
	w := func(format string, a ...interface{}) { fmt.Fprintf(&b, ind+format+"\n", a...) }
	w("{ name := %s,", lstr(f.name))
	ps := make([]string, len(f.params))
	for i, p := range f.params {
		ps[i] = fmt.Sprintf("(%s, %s)", lstr(p[0]), lstr(p[1]))
	}
	w("  params := [%s],", strings.Join(ps, ", "))
	w("  assigns := [")
	for i, a := range f.assigns {
		w("    (%s, %s)%s", lstr(a[0]), lstr(a[1]), comma(i, len(f.assigns)))
	}
	w("  ],")
	w("  calls := [")
	for i, c := range f.calls {
		w("    ⟨%s, %s, %s⟩%s", lstr(c.fun), llist(c.args), llist(c.guards), comma(i, len(f.calls)))
	}
	w("  ],")
	w("  attrs := [")
	for i, a := range f.attrs {
		w("    ⟨%s, %s, %s, %s⟩%s", lstr(a.m), lstr(a.key), lstr(a.val), llist(a.guards), comma(i, len(f.attrs)))
	}
	w("  ],")
	w("  fields := [")
	for i, a := range f.fields {
		w("    (%s, %s, %s)%s", lstr(a[0]), lstr(a[1]), lstr(a[2]), comma(i, len(f.fields)))
	}
	w("  ],")
	rs := make([]string, len(f.returns))
	for i, r := range f.returns {
		rs[i] = llist(r)
	}
	w("  returns := [%s],", strings.Join(rs, ", "))
	w("  mentions := %s,", llist(f.mentions))
	w("  deletes := %s }", llist(f.deletes))
	return strings.TrimRight(b.String(), "\n")
}

func comma(i, n int) string {
	if i+1 < n {
		return ","
	}
	return ""
}

// ---------------------------------------------------------------------------------------------

func parseDir(fset *token.FileSet, dir string) ([]*ast.File, error) {
	pkgs, err := parser.ParseDir(fset, dir, func(fi os.FileInfo) bool {
		return !strings.HasSuffix(fi.Name(), "_test.go") && !strings.HasSuffix(fi.Name(), "_verif.go")
	}, 0)
	if err != nil {
		return nil, err
	}
	var files []*ast.File
	var names []string
	byName := map[string]*ast.File{}
	for _, p := range pkgs {
		for fn, f := range p.Files {
			names = append(names, fn)
			byName[fn] = f
		}
	}
	sort.Strings(names)
	for _, n := range names {
		files = append(files, byName[n])
	}
	return files, nil
}

func recvName(fd *ast.FuncDecl) string {
	if fd.Recv == nil || len(fd.Recv.List) != 1 {
		return ""
	}
	ty := fd.Recv.List[0].Type
	if st, ok := ty.(*ast.StarExpr); ok {
		ty = st.X
	}
	if id, ok := ty.(*ast.Ident); ok {
		return id.Name
	}
	return "?"
}

func findFunc(files []*ast.File, recv, name string) (*ast.FuncDecl, error) {
	var hits []*ast.FuncDecl
	for _, f := range files {
		for _, d := range f.Decls {
			if fd, ok := d.(*ast.FuncDecl); ok && fd.Body != nil && fd.Name.Name == name && recvName(fd) == recv {
				hits = append(hits, fd)
			}
		}
	}
	if len(hits) != 1 {
		return nil, fmt.Errorf("expected exactly one definition of %s.%s, found %d", recv, name, len(hits))
	}
	return hits[0], nil
}

type target struct{ dir, recv, name, lean string }

var targets = []target{
	{"lib/audit", "", "New", "auditNew"},
	{"lib/audit", "Info", "SetX509Cert", "setX509Cert"},
	{"lib/audit", "Info", "SetPgpCert", "setPgpCert"},
	{"lib/audit", "Info", "SetTimestamp", "setTimestamp"},
	{"lib/audit", "Info", "SetMimeType", "setMimeType"},
	{"lib/audit", "Info", "SetCounterSignature", "setCounterSignature"},
	{"lib/audit", "Info", "Marshal", "marshal"},
	{"internal/signinit", "", "InitKey", "initKey"},
	{"internal/signinit", "", "Init", "init"},
	{"internal/authmodel", "CertificateInfo", "AuditContext", "auditContext"},
	{"signers", "SignOpts", "SetBinPatch", "setBinPatch"},
	{"signers", "SignOpts", "SetPkcs7", "setPkcs7"},
	{"server", "Server", "serveSign", "serveSign"},
	{"cmdline/token", "", "signCmd", "signCmd"},
}

type signerReg struct {
	pkg, varName, name, certTypes, sign, transform string
	aliases                                        []string
	funcs                                          []*facts
}

func main() {
	if len(os.Args) != 3 {
		fmt.Fprintln(os.Stderr, "usage: extractaudit <repo> <out.lean>")
		os.Exit(2)
	}
	repo, outPath := os.Args[1], os.Args[2]
	var b strings.Builder
	b.WriteString("/- GENERATED by tools/extractaudit from the relic working tree on every ./check C06 run. Do not edit. -/\n")
	b.WriteString("import Relic.Model.AuditFields\nnamespace Relic.Generated.AuditFields\nopen Relic.AuditFields\n\n")
	rc := 0
	bad := func(what string, err error) {
		fmt.Fprintln(os.Stderr, "extractaudit: NOT GENERATED:", what+":", err)
		fmt.Fprintf(&b, "-- %s: not generated: %s\n\n", what, strings.ReplaceAll(err.Error(), "\n", " "))
		rc = 1
	}
	cache := map[string][]*ast.File{}
	fset := token.NewFileSet()
	x := &ex{fset: fset}
	dirFiles := func(dir string) ([]*ast.File, error) {
		if f, ok := cache[dir]; ok {
			return f, nil
		}
		f, err := parseDir(fset, filepath.Join(repo, dir))
		if err == nil {
			cache[dir] = f
		}
		return f, err
	}
	for _, tg := range targets {
		files, err := dirFiles(tg.dir)
		if err != nil {
			bad(tg.lean, err)
			continue
		}
		fd, err := findFunc(files, tg.recv, tg.name)
		if err != nil {
			bad(tg.lean, fmt.Errorf("%s: %w", tg.dir, err))
			continue
		}
		recv := ""
		if tg.recv != "" {
			recv = "(" + tg.recv + ")."
		}
		fmt.Fprintf(&b, "/-- %s: %s%s (line %d) -/\ndef %s : FuncFacts :=\n%s\n\n", tg.dir, recv, tg.name,
			fset.Position(fd.Pos()).Line, tg.lean, x.collect(fd, tg.name).lean("  "))
	}
	// signer modules
	ents, err := os.ReadDir(filepath.Join(repo, "signers"))
	if err != nil {
		bad("signers", err)
	}
	var regs []*signerReg
	for _, e := range ents {
		if !e.IsDir() || e.Name() == "sigerrors" {
			continue
		}
		dir := filepath.Join("signers", e.Name())
		files, err := dirFiles(dir)
		if err != nil {
			bad("signers", err)
			continue
		}
		var pkgRegs []*signerReg
		for _, f := range files {
			ast.Inspect(f, func(n ast.Node) bool {
				cl, ok := n.(*ast.CompositeLit)
				if !ok || cl.Type == nil || x.text(cl.Type) != "signers.Signer" {
					return true
				}
				r := &signerReg{pkg: e.Name()}
				for _, el := range cl.Elts {
					kv, ok := el.(*ast.KeyValueExpr)
					if !ok {
						continue
					}
					v := x.text(kv.Value)
					switch x.text(kv.Key) {
					case "Name":
						if bl, ok := kv.Value.(*ast.BasicLit); ok {
							r.name, _ = strconv.Unquote(bl.Value)
						} else {
							r.name = "<" + v + ">"
						}
					case "Aliases":
						if c2, ok := kv.Value.(*ast.CompositeLit); ok {
							for _, a := range c2.Elts {
								if bl, ok := a.(*ast.BasicLit); ok {
									s, _ := strconv.Unquote(bl.Value)
									r.aliases = append(r.aliases, s)
								} else {
									r.aliases = append(r.aliases, "<"+x.text(a)+">")
								}
							}
						}
					case "CertTypes":
						r.certTypes = v
					case "Sign":
						r.sign = v
					case "Transform":
						r.transform = v
					}
				}
				pkgRegs = append(pkgRegs, r)
				return true
			})
		}
		// functions of the package taking signers.SignOpts
		var fs []*facts
		for _, f := range files {
			for _, d := range f.Decls {
				fd, ok := d.(*ast.FuncDecl)
				if !ok || fd.Body == nil {
					continue
				}
				takes := false
				for _, p := range fd.Type.Params.List {
					if t := x.text(p.Type); t == "signers.SignOpts" || t == "*signers.SignOpts" {
						takes = true
					}
				}
				if takes {
					fs = append(fs, x.collect(fd, fd.Name.Name))
				}
			}
		}
		for _, r := range pkgRegs {
			if r.sign == "" || r.sign == "nil" {
				continue
			}
			r.funcs = fs
			regs = append(regs, r)
		}
	}
	if len(regs) == 0 {
		bad("signers", fmt.Errorf("no signer registration with a Sign function found"))
	} else {
		b.WriteString("/-- every signers.Signer registration that has a Sign function, with the functions of its package that take signers.SignOpts -/\n")
		b.WriteString("def signers : List SignerFacts := [\n")
		for i, r := range regs {
			fmt.Fprintf(&b, "  { pkg := %s, name := %s, aliases := %s, certTypes := %s, sign := %s, transform := %s,\n    funcs := [\n",
				lstr(r.pkg), lstr(r.name), llist(r.aliases), lstr(r.certTypes), lstr(r.sign), lstr(r.transform))
			for j, f := range r.funcs {
				b.WriteString(f.lean("      "))
				b.WriteString(comma(j, len(r.funcs)) + "\n")
			}
			b.WriteString("    ] }" + comma(i, len(regs)) + "\n")
		}
		b.WriteString("]\n\n")
	}
	b.WriteString("end Relic.Generated.AuditFields\n")
	if err := os.WriteFile(outPath, []byte(b.String()), 0o644); err != nil {
		fmt.Fprintln(os.Stderr, err)
		os.Exit(2)
	}
	os.Exit(rc)
}

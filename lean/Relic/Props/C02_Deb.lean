/-
  C02 — Any change to signed content makes verification fail.   DEB part (model `Relic.Model.Deb`).
  What `Verify` compares with the signed text is the table name → "md5 sha1" it builds from the members that are not `_gpg*`.
-/
import Relic.Props.C01_Deb
namespace Relic.Props.C02
open Relic Relic.Deb

/-- **deb_listed_member_protected.** Exchanging a digested member for one with another name, or with another body (hash
    outputs of equal length, no collision between the two bodies), changes the table `Verify` checks the signed lines against —
    at the position of that member. -/
theorem deb_listed_member_protected (H1 H2 : Bytes → Bytes) (es1 es2 : List Entry) (x y : Entry)
    (hx : isGpgName x.name = false) (hy : isGpgName y.name = false)
    (hlen : (H1 x.body).length = (H1 y.body).length)
    (hcoll : H1 x.body = H1 y.body → H2 x.body = H2 y.body → x.body = y.body)
    (hne : x.name ≠ y.name ∨ x.body ≠ y.body) :
    digestsOf H1 H2 (es1 ++ x :: es2) ≠ digestsOf H1 H2 (es1 ++ y :: es2) := by
  intro h
  simp only [digestsOf, List.filter_append, List.filter_cons, hx, hy, Bool.not_false, if_true, List.map_append,
    List.map_cons] at h
  have h2 := List.append_cancel_left h
  simp only [List.cons.injEq, Prod.mk.injEq] at h2
  obtain ⟨⟨hn, hd⟩, _⟩ := h2
  rcases hne with c | c
  · exact c hn
  · apply c
    unfold digestOf at hd
    rw [List.append_assoc, List.append_assoc] at hd
    have h1 := List.append_inj_left hd hlen
    have h3 := List.append_inj_right hd hlen
    simp only [List.cons_append, List.nil_append, List.cons.injEq, true_and] at h3
    exact hcoll h1 h3

example : isGpgName [100, 97, 116, 97] = false := by decide

/-- the full tamper-evidence statement for the archive layer (not proved): two archives that both pass `checkSig` for the same
    signed text have the same table up to order (repetition is excluded by `deb_duplicate_member_rejected`) -/
def deb_hashed_injective_full : Prop :=
  ∀ (text : Bytes) (d d' : List (Bytes × Bytes)), checkSig text d = .ok () → checkSig text d' = .ok () →
    ∀ k, lookup k d = lookup k d'

/-! ### what is *not* protected: witnesses on the unchanged code (each is replayed on the real `Verify`: corpus/C02/deb-gaps.ops) -/

def h1 : Bytes → Bytes := fun b => List.replicate 32 (48 + UInt8.ofNat (b.length % 10))
def h2 : Bytes → Bytes := fun b => List.replicate 40 (97 + UInt8.ofNat (b.sum.toNat % 7))
def pgpId : Bytes → Option Bytes := fun s => some (canonText s)

/-- the sample signed for "builder" with transparent stand-ins for the hashes and for PGP -/
def signedSample : Bytes :=
  match sign h1 h2 (fun m => m) (fun _ _ => true) [49] [65] [64] [98, 117, 105, 108, 100, 101, 114] C03.sampleUnsigned with
  | .ok o => C03.signedBytes C03.sampleUnsigned o
  | _ => []

/-- a member "control.tar" with another body (`xyz`) -/
def evilMember : Bytes :=
  [99, 111, 110, 116, 114, 111, 108, 46, 116, 97, 114, 32, 32, 32, 32, 32, 49, 32, 32, 32, 32, 32, 32, 32, 32, 32, 32, 32, 48, 32, 32, 32, 32, 32,
   48, 32, 32, 32, 32, 32, 49, 48, 48, 54, 52, 52, 32, 32, 51, 32, 32, 32, 32, 32, 32, 32, 32, 32, 96, 10, 120, 121, 122, 10]

/-- **deb_duplicate_member_rejected** (fix for F40). An archive in which two digested members (names not starting with `_gpg`)
    share a name is never accepted by `Verify`, whatever the signatures, the hashes and the PGP layer say: the map
    name → digest that `checkSig` works on holds one entry per name, so a second member of a name would escape the comparison. -/
theorem deb_duplicate_member_rejected (H1 H2 : Bytes → Bytes) (pgp : Bytes → Option Bytes) (f : Bytes)
    (hd : distinctNames (entries f).1 = false) : ∀ rs, verify H1 H2 pgp f ≠ .ok rs := by
  intro rs
  unfold verify
  simp only [hd]
  generalize verifyFail (entries f).1 = vf
  generalize (entries f).2 = st
  cases vf
  · cases st <;> simp
  · simp

/-- acceptance gives the hypothesis `distinctNames` of the sign-then-verify and tamper-evidence statements -/
theorem deb_accept_implies_distinct (H1 H2 : Bytes → Bytes) (pgp : Bytes → Option Bytes) (f : Bytes)
    (rs : List (Bytes × Res Unit)) (h : verify H1 H2 pgp f = .ok rs) : distinctNames (entries f).1 = true := by
  cases hd : distinctNames (entries f).1 with
  | true => rfl
  | false => exact absurd h (deb_duplicate_member_rejected H1 H2 pgp f hd rs)

/-- `Verify` as it was before the fix: no duplicate-name test -/
def verifyOkPre (H1 H2 : Bytes → Bytes) (pgp : Bytes → Option Bytes) (f : Bytes) : Bool :=
  let p := entries f
  !verifyFail p.1 && p.2 == .eof &&
    (rolesOf (sigsOf p.1)).all fun r => checkRole pgp (digestsOf H1 H2 p.1) (sigsOf p.1) r == .ok ()

set_option maxRecDepth 1000000 in
/-- the F40 witness: a member inserted *in front of* a signed member of the same name was accepted by the pre-fix walk
    (the map kept the last digest per name) and is refused now -/
example :
    verifyOk h1 h2 pgpId signedSample = true ∧
    verifyOkPre h1 h2 pgpId (signedSample.take 72 ++ evilMember ++ signedSample.drop 72) = true ∧
    verifyOk h1 h2 pgpId (signedSample.take 72 ++ evilMember ++ signedSample.drop 72) = false ∧
    distinctNames (entries (signedSample.take 72 ++ evilMember ++ signedSample.drop 72)).1 = false ∧
    (entries (signedSample.take 72 ++ evilMember ++ signedSample.drop 72)).1.length = (entries signedSample).1.length + 1 := by
  decide

set_option maxRecDepth 1000000 in
/-- the same member placed *behind* the signed one was always detected (digest mismatch, now the duplicate-name refusal) -/
theorem deb_shadow_after_rejected :
    verifyOk h1 h2 pgpId (signedSample.take 136 ++ evilMember ++ signedSample.drop 136) = false := by
  decide

set_option maxRecDepth 1000000 in
/-- **deb_unprotected_bytes.** Accepted single-byte edits of a signed archive: the global header (never compared with
    `!<arch>\n`), the mtime / uid / gid / mode fields and the two magic bytes of any member header, and the padding byte after an
    odd-sized member. -/
theorem deb_unprotected_bytes :
    verifyOk h1 h2 pgpId (signedSample.set 0 0) = true ∧          -- global header
    verifyOk h1 h2 pgpId (signedSample.set (8 + 17) 57) = true ∧   -- mtime of the first member
    verifyOk h1 h2 pgpId (signedSample.set (8 + 44) 55) = true ∧   -- mode of the first member
    verifyOk h1 h2 pgpId (signedSample.set (8 + 58) 0) = true ∧    -- header magic of the first member
    verifyOk h1 h2 pgpId (signedSample.set 135 65) = true ∧        -- padding byte of control.tar (3 bytes)
    verifyOk h1 h2 pgpId (signedSample.set 132 65) = false ∧       -- … whereas its first data byte is protected
    verifyOk h1 h2 pgpId (signedSample.set 72 65) = false := by    -- … and so is its name
  decide

set_option maxRecDepth 1000000 in
/-- **deb_member_order_unprotected.** The two digested members exchanged: still verifies (the table is a map). -/
theorem deb_member_order_unprotected :
    verifyOk h1 h2 pgpId (signedSample.take 8 ++ (signedSample.drop 72).take 64 ++ (signedSample.drop 8).take 64 ++ signedSample.drop 136) = true := by
  decide

end Relic.Props.C02

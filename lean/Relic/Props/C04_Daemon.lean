/-
  C04 (fragment) — which authentication paths exist per listener kind (server/daemon/daemon.go: TLS listener with
  ClientAuth = RequestClientCert, plaintext `listen_http` listener).  `Relic.Daemon.toReq` is the only place where the
  listener kind enters; everything behind it is Relic.Model.Authz (tied by the C04 ops).  Tie here: DAEMON mx ops.
-/
import Relic.Model.Daemon
import Relic.Props.C04
namespace Relic.Props.C04
open Relic Relic.Authz Relic.RealIP Relic.Daemon

/-- **plain_listener_never_sees_client_cert.** -/
theorem plain_listener_never_sees_client_cert (c : Conn) : (toReq .plain c).tls = none := rfl

/-- **tls_without_cert_is_anonymous.** The TLS listener requests a certificate but does not require one. -/
theorem tls_without_cert_is_anonymous (c : Conn) (h : c.clientCert = none) : (toReq .tls c).tls = none := by
  simp [toReq, h]

/-- the TLS listener hands the handler whatever certificate the client presented (unverified: RequestClientCert) -/
theorem tls_listener_passes_cert (c : Conn) : (toReq .tls c).tls = c.clientCert := rfl

/-- **anonymous_gets_401.** A peer that is not a trusted proxy and reaches the handler without a TLS certificate – every
    request on the plaintext listener, and a certificate-less one on the TLS listener – gets exactly `401
    certificate-required` on every endpoint that is not public, whatever headers it sends. -/
theorem anonymous_gets_401 (cfg : Config) (l : Listener) (c : Conn) (hs : startCheck cfg = none)
    (hu : hopTrusted cfg.inNets (stripPort c.remoteAddr) = false) (hanon : l = .plain ∨ c.clientCert = none)
    (hp : c.ep.isPublic = false) :
    serveOn cfg l c = [.resp { status := 401, problem := "certificate-required", ip := stripPort (stripPort c.remoteAddr) }] := by
  have htls : (toReq l c).tls = none := by
    rcases hanon with h | h
    · subst h; rfl
    · cases l <;> simp [toReq, h]
  have tv : transportView cfg (toReq l c) = (stripPort (stripPort c.remoteAddr), .ok none) := by
    have := (untrusted_headers_ignored true cfg (toReq l c) (toReq l c).xff (toReq l c).sslCert hu).1
    exact (show transportView cfg (toReq l c) = _ from this).trans (by rw [htls]; rfl)
  simp only [serveOn, handle, handleWith, hs, tv]
  have : (toReq l c).ep.isPublic = false := by simpa [toReq] using hp
  simp [this]

example : startCheck { clients := [], keys := [], tokens := [], proxiesOK := true, inNets := fun _ => false } = none := by decide

/-- the public endpoints are exactly /health and /directory (`/` is behind the authentication middleware) -/
theorem public_endpoints (e : Endpoint) : e.isPublic = true ↔ e = .health ∨ e = .directory := by
  cases e <;> simp [Endpoint.isPublic]

/-- **plain_auth_only_via_trusted_proxy.** On the plaintext listener the certificates the authenticator sees are `none`
    unless the direct peer is a trusted proxy: the only authentication path there is `Ssl-Client-Cert` from a trusted proxy. -/
theorem plain_auth_only_via_trusted_proxy (cfg : Config) (c : Conn) (ch : Chain)
    (h : (transportView cfg (toReq .plain c)).2 = .ok (some ch)) :
    hopTrusted cfg.inNets (stripPort c.remoteAddr) = true ∧ c.sslCert = .certs (some ch) := by
  by_cases hu : hopTrusted cfg.inNets (stripPort c.remoteAddr) = true
  · refine ⟨hu, ?_⟩
    simp only [transportView, toReq] at h
    generalize trustedClient cfg.inNets c.remoteAddr c.xff = tc at h
    obtain ⟨a, p⟩ := tc
    cases p <;> simp only [peerCerts] at h
    · simp at h
    · cases hc : c.sslCert <;> simp_all
  · have hu' : hopTrusted cfg.inNets (stripPort c.remoteAddr) = false := by simpa using hu
    have := (untrusted_headers_ignored true cfg (toReq .plain c) c.xff c.sslCert (by simpa [toReq] using hu')).1
    have h2 : transportView cfg (toReq .plain c) = (stripPort (stripPort c.remoteAddr), .ok none) := by simpa [toReq] using this
    rw [h2] at h
    simp at h

end Relic.Props.C04

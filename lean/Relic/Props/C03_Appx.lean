/-
  C03 (APPX): signing leaves every payload member (everything before the first part relic regenerates) untouched:
  the bytes `[0, patchStart)` of the output are those of the input, the members lie back to back in that range, and the
  directory entries `AddFile` re-emits are the input's own entries (same offsets, raw records kept), in order.
-/
import Relic.Props.C05_Appx
namespace Relic.Props.C03
open Relic Relic.Zip Relic.Appx

/-- **appx_payload_preserved.** -/
theorem appx_payload_preserved (c : Codec) (z : Bytes) (ps : Parts) (r : Signed) (h : sign c z ps = .ok r) :
    ∃ g : Digested, digest c z = .ok g ∧ g.patchStart ≤ z.length ∧
      r.out.take g.patchStart = z.take g.patchStart ∧
      contigMs 0 g.p.members g.patchStart ∧
      (d4Of g ps).files.take g.p.members.length = g.p.members.map (·.file) ∧
      (∀ f ∈ g.p.members.map (·.file), f.raw ≠ []) ∧
      g.patchStart ≤ r.sigOff := by
  unfold sign at h
  split at h
  next g hg =>
    obtain ⟨s1, s2, s3, s4, s5, s6⟩ := digest_spec hg
    obtain ⟨_, a2, _, a4, _⟩ := assemble_ok h
    refine ⟨g, hg, s3, ?_, s5, ?_, ?_, ?_⟩
    · rw [a2, List.take_append_of_le_length (by simp [List.length_take]; omega)]
      simp [List.take_take]
    · simp [d4Of, s4]
    · rw [← s4]; exact s6
    · rw [a4]; simp [d4Of, s2]
  all_goals cases h

/-- `newf.Block[j].Size = oldblock.Size` runs off the end when the old block map lists more blocks than the file has -/
theorem setSizes_none : ∀ (bs : List (Bytes × Nat)) (ns : List Nat), bs.length < ns.length → setSizes bs ns = none
  | [], _ :: _, _ => rfl
  | [], [], h => by simp at h
  | _ :: _, [], h => by simp at h
  | (s, k) :: bs, n :: ns, h => by
    simp only [setSizes]
    rw [setSizes_none bs ns (by simpa using h)]
    rfl

/-- **appx_copySizes_refuses (fix-F38).** A package whose old block map lists, for the file at the current index, more
    `Block` elements than the file has 64 KiB blocks is refused (before the fix: index-out-of-range panic). -/
theorem appx_copySizes_refuses (i : Nat) (bm : List BmFile) (nf : BmFile) (name : Bytes) (sizes : List Nat)
    (rest : List (Bytes × List Nat)) (hm : (dosToZip name == Appx.sManifest || dosToZip name == sBundle) = false)
    (hi : bm[i]? = some nf) (hn : nf.name = name) (hb : nf.blocks.length < sizes.length) :
    copySizes i bm ((name, sizes) :: rest) = .err "bmmismatch" := by
  unfold copySizes
  simp only [hm, hi, hn, setSizes_none _ _ hb]
  simp

example : copySizes 0 [⟨[97], 1, 31, [([120], 0)]⟩] [([97], [5, 6])] = .err "bmmismatch" := by decide

end Relic.Props.C03

/- line-protocol handler for the CMS container model (C02): first token `CMS`.

   CMS verify <mut> <prot> <blob> <ext> <skip> <certinfo> <sigtab> <htab>

   The SignedData structure is read from the DER blob *here*, with C16's walker (`Relic.Der.sdWalk`, `siAab`);
   what needs X.509 parsing or cryptography comes from the harness as tables:
     certinfo  per bundled certificate, in order:  bad | issuer:serial:keyid:kind:chain      (';' separated)
     sigtab    per signer info, in order: the (keyid.mode.digest) triples its signature value verifies for
               (',' separated, '/' between signer infos); mode: p1h = PKCS#1 v1.5 with DigestInfo, p10 = without,
               pss, ec
     htab      alg.stream.digest triples: the hash family restricted to the streams that occur  (',' separated)
-/
import Relic.Model.Cms
namespace Relic.Driver.Cms
open Relic Relic.Der Relic.Cms

structure DPub where
  id : Nat
  kind : KeyKind

/-- a signature value is represented by the set of (key, mode, digest) it verifies for -/
abbrev DSig := List (Nat × String × Bytes)

def drvC : Crypto where
  Pub := DPub
  Sig := DSig
  kind := fun p => p.kind
  pkcs1 := fun p h d s => s.contains (p.id, (if h.isSome then "p1h" else "p10"), d)
  pss := fun p _ d s => s.contains (p.id, "pss", d)
  ecdsa := fun p d s => s.contains (p.id, "ec", d)

def algOfName : String → Option Alg
  | "md5" => some .md5
  | "sha1" => some .sha1
  | "sha224" => some .sha224
  | "sha256" => some .sha256
  | "sha384" => some .sha384
  | "sha512" => some .sha512
  | _ => none

abbrev HTab := List (Alg × Bytes × Bytes)

/-- the hash family: table lookup; streams outside the table get a value no real digest equals -/
def hOf (t : HTab) (a : Alg) (s : Bytes) : Bytes :=
  match t.find? (fun e => e.1 == a && e.2.1 == s) with
  | some e => e.2.2
  | none => 0xff :: s

def splitOn1 (s : String) (sep : String) : List String := if s = "-" then [] else s.splitOn sep

def parseHTab (s : String) : Option HTab :=
  (splitOn1 s ",").mapM fun e =>
    match e.splitOn "." with
    | [a, st, d] => do
      let a ← algOfName a
      let st ← fromHex st
      let d ← fromHex d
      pure (a, st, d)
    | _ => none

def parseSig (s : String) : Option DSig :=
  (splitOn1 s ",").mapM fun e =>
    match e.splitOn "." with
    | [k, m, d] => do
      let k ← k.toNat?
      let d ← fromHex d
      pure (k, m, d)
    | _ => none

def kindOfName : String → Option KeyKind
  | "rsa" => some .rsa
  | "ecdsa" => some .ecdsa
  | "other" => some .other
  | _ => none

/-- one entry per bundled certificate: `none` = does not parse -/
def parseCertInfo (s : String) : Option (List (Option (Bytes × Bytes × Nat × KeyKind × Bool))) :=
  (splitOn1 s ";").mapM fun e =>
    if e = "bad" then some none
    else match e.splitOn ":" with
      | [i, sn, k, kd, ch] => do
        let i ← fromHex i
        let sn ← fromHex sn
        let k ← k.toNat?
        let kd ← kindOfName kd
        pure (some (i, sn, k, kd, ch == "1"))
      | _ => none

def parseAttr (full : RawVal) : Res Attr := do
  let els ← orParse (splitTLVs full.bytes)
  match els with
  | o :: v :: _ => if o.tag ≠ 0x06 then .err "parse" else .ok ⟨o.bytes, ⟨[], v.tag, v.bytes⟩⟩
  | _ => .err "parse"

def firstOid (alg : RawVal) : Res Bytes := do
  let els ← orParse (splitTLVs alg.bytes)
  match els with
  | o :: _ => if o.tag ≠ 0x06 then .err "parse" else .ok o.bytes
  | _ => .err "parse"

/-- `UnmarshalRSAPSSParameters`, reduced to the digest the parameters name: NULL = SHA-1 defaults; otherwise
    `[0]` hash algorithm and `[1]` MGF1 with the same hash -/
def pssHash (alg : RawVal) : Option Alg :=
  match splitTLVs alg.bytes with
  | .ok [_, p] =>
    if p.tag = 0x05 then some .sha1
    else if p.tag ≠ 0x30 then none
    else match splitTLVs p.bytes with
      | .ok (h :: m :: _) =>
        if h.tag ≠ 0xA0 || m.tag ≠ 0xA1 then none
        else match splitTLVs h.bytes, splitTLVs m.bytes with
          | .ok [ha], .ok [ma] =>
            match firstOid ha, splitTLVs ma.bytes with
            | .ok ho, .ok [mo, mp] =>
              if mo.bytes ≠ [0x2a, 0x86, 0x48, 0x86, 0xf7, 0x0d, 0x01, 0x01, 0x08] then none
              else match firstOid mp with
                | .ok mh => if mh = ho then algOfOid ho else none
                | _ => none
            | _, _ => none
          | _, _ => none
      | _ => none
  | _ => none

def parseSI (idx : Nat) (full : Bytes) (sig : DSig) : Res (SignerInfo drvC) := do
  let (t, c, _) ← orParse (untlv full)
  if t ≠ 0x30 then .err "parse" else
  let els ← orParse (splitTLVs c)
  match els with
  | _ :: ias :: da :: rest =>
    let iasEls ← orParse (splitTLVs ias.bytes)
    match iasEls with
    | [iss, sn] =>
      let daOid ← firstOid da
      let (attrs, rest) ← (match rest with
        | r :: rest' =>
          if r.tag = 0xA0 then (do
            let raws ← orParse (splitTLVs r.bytes)
            let l ← raws.mapM parseAttr
            pure (some l, rest'))
          else pure (none, rest)
        | [] => pure (none, rest) : Res (Option (List Attr) × List RawVal))
      match rest with
      | sa :: _ :: _ =>
        let saOid ← firstOid sa
        let ab ← siAab full
        .ok ⟨idx, iss.full, sn.bytes, algOfOid daOid, attrs, ab.getD [], sigAlgOfOid saOid (pssHash sa), sig⟩
      | _ => .err "parse"
    | _ => .err "parse"
  | _ => .err "parse"

def parseSIs : Nat → List Bytes → List DSig → Res (List (SignerInfo drvC))
  | _, [], _ => .ok []
  | i, f :: fs, sigs => do
    let si ← parseSI i f (sigs.headD [])
    let l ← parseSIs (i + 1) fs sigs.tail
    .ok (si :: l)

/-- `ContentInfo.Bytes`: eContentType and the embedded content; a syntax error in the `[0]` value reads as "absent" -/
def parseCI (ci : Bytes) : Res (Bytes × Option Bytes) := do
  let (_, c, _) ← orParse (untlv ci)
  let els ← orParse (splitTLVs c)
  match els with
  | [] => .err "parse"
  | [o] => .ok (o.bytes, none)
  | o :: v :: _ =>
    match untlv v.bytes with
    | .ok (_, c', _) => .ok (o.bytes, some c')
    | .err "syntax" => .ok (o.bytes, none)
    | .err _ => .err "content-asn1"
    | .panic s => .panic s
    | .diverge => .diverge

def mkCerts : Nat → List (Option (Bytes × Bytes × Nat × KeyKind × Bool)) → List (Cert drvC)
  | _, [] => []
  | i, none :: l => mkCerts (i + 1) l
  | i, some (iss, sn, k, kd, _) :: l => ⟨i, iss, sn, ⟨k, kd⟩⟩ :: mkCerts (i + 1) l

def chainBit (info : List (Option (Bytes × Bytes × Nat × KeyKind × Bool))) (i : Nat) : Bool :=
  match info[i]? with
  | some (some (_, _, _, _, ch)) => ch
  | _ => false

def wfAll (l : List (SignerInfo drvC)) : Bool :=
  l.all fun si =>
    match si.attrs with
    | some (a :: r) => si.attrsBytes == tlv 0x31 (attrsContent (a :: r))
    | _ => true

def optBytes (s : String) : Option (Option Bytes) :=
  if s = "nil" then some none else (fromHex s).map some

def run (blob : Bytes) (ext : Option Bytes) (skip : Bool) (info : List (Option (Bytes × Bytes × Nat × KeyKind × Bool)))
    (sigs : List DSig) (ht : HTab) : Res String := do
  let w ← sdWalk blob
  let (ct, content) ← parseCI w.ci
  let sis ← parseSIs 0 w.sis sigs
  if w.certs.length ≠ info.length then .err "certinfo-length" else
  let sd : SignedData drvC := ⟨ct, content, mkCerts 0 info, info.any Option.isNone, sis⟩
  let wf := if wfAll sis then "1" else "0"
  match verifyWithChain (hOf ht) (fun id _ _ => chainBit info id) 0 none sd ext skip with
  | .ok (cert, si) => .ok s!"cert={cert.id} si={si.id} #wf={wf}"
  | .err e => .err s!"{e} #wf={wf}"
  | .panic s => .panic s
  | .diverge => .diverge

def handle : List String → String
  | ["verify", _mut, _prot, blob, ext, skip, certinfo, sigtab, htab] =>
    match fromHex blob, optBytes ext, parseCertInfo certinfo, (splitOn1 sigtab "/").mapM parseSig, parseHTab htab with
    | some blob, some ext, some info, some sigs, some ht =>
      match run blob ext (skip == "1") info sigs ht with
      | .ok s => s!"ok {s}"
      | .err e => s!"err {e}"
      | .panic s => s!"panic {s}"
      | .diverge => "diverge"
    | _, _, _, _, _ => "bad-op"
  | _ => "bad-op"

end Relic.Driver.Cms

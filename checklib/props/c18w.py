"""C18, writer half: tie of Relic.Model.CfbWriter to lib/comdoc's allocation layer and the frame /
disjointness / count properties evaluated independently on the tables the IMPLEMENTATION dumped.

Used by checklib/props/c18.py (op kinds alloc, free, adds, wr)."""
from collections import Counter

KINDS = ("alloc", "free", "adds", "atab", "wr", "wb")
FREE, EOC, FATSECT, DIFSECT = -1, -2, -3, -4

RULE = ("(d) allocation layer: makeFreeSectors / freeSectors / addStream (through lib/comdoc/hooks_verif.go) on synthetic tables: "
        "sector size 32..4096, table length 0..3 blocks and irregular, valid chains in random and ascending order, free entries "
        "scattered with density 0..4/8, no free entry at all (table must be extended), FATSECT marks, chains ending exactly at the "
        "table end, requests = 0 / exactly the free entries / +1 / + one block / + one block + 1, content length 0 / 1 / k*sector / "
        "k*sector+-1 / random, mini and regular, mini-stream container absent / full / partly used / shorter than the mini-FAT, "
        "malformed tables (cycles, out-of-range pointers, chains through free entries) for the panic / termination behaviour; the Lean "
        "model must return the same free list IN THE SAME ORDER and the same tables entry for entry. (e) every file x history of (b) "
        "once more (`wr`): relic's in-memory SAT, SSAT, Files (type/start/size), rootFiles, MSAT, msatList and header chain heads "
        "and counts are dumped before and after every AddFile / DeleteFile / Close and after re-opening the written file; the Lean "
        "model replays the operations from the first dump and must agree field by field at every step (Close = writeShortSAT + "
        "writeDirStream + allocSectorTables + counts + truncation; reopen = what relic's reader finds). Independently of the model the "
        "python predicate evaluates on the dumped tables: alloc_fresh, first fit, chain_of_addStream, addStream_frame (every "
        "pre-existing valid chain has the same sector list afterwards), free_then_alloc, pairwise disjointness of all live chains "
        "and FAT/DIFAT sectors in every state, and at Close the header counts against the chain lengths. (f) byte level (`wb`): the Lean "
        "model Relic.Model.CfbBytes (openFile; addFileB = data placement with zero padding, writeShortSector inside the mini-stream "
        "container; deleteFileB; closeB = writeShortSAT, rebuildTree + writeDirStream, allocSectorTables, writeSAT, writeMSAT, header "
        "rewrite, Truncate) predicts the BYTES of the file after every session from the input bytes; compared byte for byte with what "
        "lib/comdoc left in the file: one history per shape of (b) and round, sector size 512 and 4096; mini stream ending at / one mini "
        "sector before a sector boundary x additions of 1 / 64 / 65 / ss-64 / ss / ss+1 / 2ss+1 / 4095 bytes (container grows by 0, 1, "
        "several sectors); 1 / 2 / 5 free mini sectors below the end of the mini stream x additions that fit, fit exactly, need more; a "
        "sub-storage holding streams named like the signature streams; names of 31 / 32 units; sessions without a change; an existing "
        "DIFAT sector; FAT without a free entry with the directory sector exactly full or not; DIFAT growth (109 full FAT sectors, "
        "7 MiB); one, two and three DIFAT sectors on files with 128-byte sectors (sector shift 7, which lib/comdoc accepts and whose writer "
        "code is the same: 139..203 FAT sectors, 0.5-0.8 MiB; thorough: up to 265 FAT sectors = 5 DIFAT sectors; with 512-byte sectors two "
        "DIFAT sectors need 15.5 MiB, beyond what the native model driver holds); "
        "the repository's fixtures; malformed inputs (truncations at 9 offsets, trailing bytes, header fields, dangling / "
        "negative links, name length fields) for the refusal / panic behaviour of openFile. On every session input and every predicted "
        "output the driver also evaluates Spec.Cfb.validate and the executable invariant invB of the byte-level theorems (tag br): a "
        "valid input must satisfy invB, a session on a valid input must leave a valid file. Every file lib/comdoc wrote in a wb op is also "
        "read by an INDEPENDENT compound-file reader (cfb_view: header counts, DIFAT chain and its used-prefix, FAT/DIFAT marks, directory "
        "tree, mini stream; any sector shift): tables must agree with the file and every stream the history did not name must hold its "
        "input bytes, whatever the model predicted.")


def ints(s):
    return [] if s == "_" else [int(x) for x in s.split(",")]


def chain(tbl, s):
    """sector list from s, None unless in bounds, acyclic, ENDOFCHAIN-terminated, no other negative entry"""
    out, seen = [], set()
    while s != EOC:
        if s < 0 or s >= len(tbl) or s in seen:
            return None
        seen.add(s)
        out.append(s)
        s = tbl[s]
    return out


def kv(s):
    return dict(x.split("=", 1) for x in s.split() if "=" in x)


def ceil_div(a, b):
    return (a + b - 1) // b


# ---------------------------------------------------------------------------------------------

def model_op(op, il):
    f = op.split(" ")
    if f[1] == "wb":
        # the byte-level model gets the same input bytes and steps (the tag is dropped)
        return "C18 wbm " + " ".join(f[3:])
    if f[1] != "wr":
        return op
    r = il.split(" ")
    if len(r) < 2 or r[1] == "-" or il.startswith(("crash", "not-run")):
        return "C18 skip"
    return "C18 wrm " + " ".join(r[1:])


class State:
    def __init__(self, s):
        p = s.split(";")
        h = ints(p[0])
        self.ss, self.sss, self.cutoff, self.version, self.root, self.changed = h
        self.sat, self.ssat = ints(p[1]), ints(p[2])
        self.files = [] if p[3] == "_" else [tuple(int(y) for y in x.split(":")) for x in p[3].split(",")]
        self.rootFiles = ints(p[4])
        self.dirStart, self.dirCount, self.ssatStart, self.ssatCount = ints(p[5])
        self.msat, self.msatList = ints(p[6]), ints(p[7])
        self.satSectors, self.msatCount, self.msatNext = ints(p[8])
        self.fileSectors = int(p[9])

    def live(self):
        """(name, table, chain) for every live chain; chain None = invalid"""
        out = [("dir", "sat", chain(self.sat, self.dirStart)), ("ssat", "sat", chain(self.sat, self.ssatStart))]
        rt = self.files[self.root]
        out.append(("container", "sat", [] if rt[2] < 0 else chain(self.sat, rt[2])))
        for i, (typ, key, start, size) in enumerate(self.files):
            if typ != 2:
                continue
            if size >= self.cutoff:
                out.append(("f%d" % i, "sat", chain(self.sat, start)))
            else:
                out.append(("f%d" % i, "ssat", chain(self.ssat, start)))
        return out

    def disjoint_why(self):
        owner = {}
        for s in self.msat:
            if s >= 0:
                if s in owner:
                    return "FAT sector %d listed twice" % s
                owner[s] = "FAT"
        for s in self.msatList:
            if s in owner:
                return "DIFAT sector %d also %s" % (s, owner[s])
            owner[s] = "DIFAT"
        mini = {}
        for name, t, c in self.live():
            if c is None:
                return "chain %s invalid" % name
            o = owner if t == "sat" else mini
            for s in c:
                if s in o:
                    return "%s sector %d shared by %s and %s" % (t, s, o[s], name)
                o[s] = name
        return None


def pred_alloc(f, il):
    ss, n, old = int(f[2]), int(f[4]), ints(f[5])
    if il.startswith("panic"):
        return ("alloc_total", "no panic", "makeFreeSectors panicked") if ss >= 4 else None
    m = kv(il)
    fl, new = ints(m["fl"]), ints(m["tbl"])
    spb = ss // 4
    if len(fl) != n:
        return ("alloc_fresh", "%d sectors" % n, "%d sectors returned" % len(fl))
    if len(set(fl)) != len(fl):
        return ("alloc_fresh", "pairwise distinct", "a sector was handed out twice")
    if new[:len(old)] != old:
        return ("alloc_fresh", "old entries untouched", "an existing entry changed")
    if any(x != FREE for x in new[len(old):]) or (len(new) - len(old)) % spb:
        return ("alloc_fresh", "extension by whole blocks of FREESECT", "table grew by %d" % (len(new) - len(old)))
    for i in fl:
        if not (0 <= i < len(new)) or (i < len(old) and old[i] != FREE):
            return ("alloc_fresh", "every sector free before or beyond the old end", "sector %d was in use" % i)
    if fl != sorted(fl) or any(old[j] == FREE and j not in set(fl) for j in range(min(max(fl, default=0), len(old)))):
        return ("alloc_first_fit", "free entries reused in index order", "a lower free entry was skipped")
    return None


def pred_atab(f, il):
    """allocTables_counts on what the implementation returned: every block of the table has its FAT sector recorded, the
    DIFAT list is long enough for the FAT sectors beyond the 109 header slots, the marks agree with the lists"""
    ss, msat0, ml0, old = int(f[2]), ints(f[3]), ints(f[4]), ints(f[5])
    spb = ss // 4
    if il.startswith("panic"):
        return ("allocTables_counts", "no panic on a regular table", il[:120]) if spb >= 2 and len(old) % spb == 0 else None
    m = kv(il)
    sat, msat, ml = ints(m["sat"]), ints(m["msat"]), ints(m["ml"])
    if len(sat) % spb:
        return ("allocTables_counts", "table length a multiple of %d" % spb, str(len(sat)))
    if len(sat) // spb != len(msat):
        return ("allocTables_counts", "one FAT sector per block: %d" % (len(sat) // spb), "%d FAT sectors recorded" % len(msat))
    need = max(0, -(-(len(msat) - 109) // (spb - 1)))
    if need > len(ml):
        return ("allocTables_counts", ">= %d DIFAT sectors" % need, "%d" % len(ml))
    if msat[:len(msat0)] != msat0 or ml[:len(ml0)] != ml0 or sat[:len(old)] != [sat[i] if old[i] == FREE else old[i] for i in range(len(old))]:
        return ("allocTables_frame", "existing entries and lists kept", "changed")
    new = msat[len(msat0):] + ml[len(ml0):]
    if len(set(new)) != len(new) or any(not (0 <= x < len(sat)) or (x < len(old) and old[x] != FREE) for x in new):
        return ("alloc_fresh", "new table sectors were free and are distinct", str(new)[:100])
    if any(sat[x] != FATSECT for x in msat[len(msat0):]) or any(sat[x] != DIFSECT for x in ml[len(ml0):]):
        return ("allocTables_counts", "new sectors marked FATSECT / DIFSECT", "marks missing")
    return None


def pred_free(f, il):
    start, old = int(f[2]), ints(f[3])
    c = chain(old, start)
    if c is None:
        return None
    if il.startswith("panic"):
        return ("free_then_alloc", "no panic on a valid chain", il)
    new = ints(kv(il)["tbl"])
    exp = [FREE if i in set(c) else v for i, v in enumerate(old)]
    if new != exp:
        return ("free_then_alloc", "exactly the chain's sectors become FREESECT", "other entries changed or chain sectors kept")
    return None


def frame_why(old, new, skip=()):
    """every chain valid in `old` (from every possible start) is the same list in `new`"""
    skip = set(skip)
    for s in range(len(old)):
        c = chain(old, s)
        if c is None or skip & set(c):
            continue
        if chain(new, s) != c:
            return "chain from %d was %s, now %s" % (s, c, chain(new, s))
    for j, v in enumerate(old):
        if v != FREE and j not in skip and (j >= len(new) or new[j] != v):
            return "non-free entry %d changed from %d to %s" % (j, v, new[j] if j < len(new) else "absent")
    return None


def pred_adds(f, il):
    ss, sss, short, ln, rs, rz = (int(x) for x in f[2:8])
    osat, ossat = ints(f[8]), ints(f[9])
    cont = chain(osat, rs)
    if il.startswith("panic"):
        if not short and ss >= 4:
            return ("addStream_total", "no panic", il)
        return None
    if not il.startswith("ok"):
        return None
    m = kv(il)
    first, nsat, nssat, nrs, nrz = int(m["first"]), ints(m["sat"]), ints(m["ssat"]), int(m["rs"]), int(m["rz"])
    old, new, unit = (ossat, nssat, sss) if short else (osat, nsat, ss)
    c = chain(new, first)
    if c is None or len(c) != ceil_div(ln, unit):
        return ("chain_of_addStream", "chain of %d sectors ending in ENDOFCHAIN" % ceil_div(ln, unit), "chain = %s" % c)
    if (first == EOC) != (ln == 0):
        return ("chain_of_addStream", "start ENDOFCHAIN iff empty", "first=%d len=%d" % (first, ln))
    for i in c:
        if i < len(old) and old[i] != FREE:
            return ("chain_of_addStream", "only free sectors allocated", "sector %d was in use (double allocation)" % i)
    w = frame_why(old, new)
    if w:
        return ("addStream_frame", "every pre-existing chain unchanged", w)
    if not short:
        if nssat != ossat or nrs != rs or nrz != rz:
            return ("addStream_frame", "mini-FAT and root untouched by a regular stream", "changed")
        return None
    # the FAT side of a short stream: only the container may change, by growing at its end
    if cont is None:
        return None
    ncont = chain(nsat, nrs) if not (nrs == EOC) else []
    if ncont is None or ncont[:len(cont)] != cont:
        return ("addStream_frame_container", "old container is a prefix of the new", "%s -> %s" % (cont, ncont))
    for i in ncont[len(cont):]:
        if i < len(osat) and osat[i] != FREE:
            return ("addStream_frame_container", "container grows into free sectors", "sector %d was in use" % i)
    if c and len(ncont) * ss < (max(c) + 1) * sss:
        return ("addStream_frame_container", "container covers every allocated mini sector", "%d sectors" % len(ncont))
    w = frame_why(osat, nsat, skip=cont[-1:])
    if w:
        return ("addStream_frame", "every pre-existing FAT chain other than the container unchanged", w)
    return None


def pred_wr(tokens, stats):
    """tokens = state (op state)*; returns first violated property or None"""
    try:
        cur = State(tokens[0])
    except (ValueError, IndexError):
        return None
    if cur.disjoint_why() is not None:
        stats["wr:input-not-disjoint"] += 1
        return None
    i = 1
    while i + 1 < len(tokens):
        op, nxt = tokens[i], tokens[i + 1]
        i += 2
        if op == "x" or nxt.startswith(("err:", "panic:", "open-")):
            return None
        try:
            new = State(nxt)
        except (ValueError, IndexError):
            return None
        kind = op.split(":")[0]
        stats["wr-step:" + kind] += 1
        if kind == "o":
            cur = new
            w = cur.disjoint_why()
            if w:
                return ("add_preserves_disjoint", "live chains pairwise disjoint after reopen", w)
            continue
        live = {n: (t, c) for n, t, c in cur.live()}
        deleted = set()
        if kind in ("a", "d"):
            key = int(op.split(":")[1])
            deleted = {"f%d" % j for j in cur.rootFiles if cur.files[j][1] == key}
        short = kind == "a" and int(op.split(":")[3]) < cur.cutoff
        after = {n: (t, c) for n, t, c in new.live()}
        for n, (t, c) in live.items():
            if n in deleted or (kind == "c" and n in ("dir", "ssat")):
                continue
            if n == "container" and short:
                nc = after["container"][1]
                if nc is None or nc[:len(c)] != c:
                    return ("addStream_frame", "container only grows at its end", "%s -> %s at %s" % (c, nc, op))
                continue
            tbl = new.sat if t == "sat" else new.ssat
            start = c[0] if c else EOC
            if chain(tbl, start) != c or (n in after and n[0] == "f" and after[n][1] != c):
                return ("addStream_frame", "pre-existing chain %s unchanged by %s" % (n, op), "%s -> %s" % (c, chain(tbl, start)))
        if kind == "d" or kind == "a":
            reuse = {"sat": set(), "ssat": set()}
            if kind == "a":
                for j in new.rootFiles:
                    if new.files[j][1] == key and after.get("f%d" % j, (None, None))[1]:
                        reuse[after["f%d" % j][0]] |= set(after["f%d" % j][1])
                reuse["sat"] |= set(after["container"][1] or [])
            for n in deleted:
                t, c = live[n]
                tbl = new.sat if t == "sat" else new.ssat
                for s in c:
                    if tbl[s] != FREE and s not in reuse[t]:
                        return ("free_then_alloc", "sectors of the deleted stream are free", "sector %d of %s still %d after %s" % (s, n, tbl[s], op))
        if kind == "a":
            ln = int(op.split(":")[3])
            slot = [j for j in new.rootFiles if new.files[j][1] == key]
            if len(slot) != 1:
                return ("add_preserves_valid", "exactly one root stream with the name", "%d" % len(slot))
            t, c = after["f%d" % slot[0]]
            unit = cur.sss if short else cur.ss
            if c is None or len(c) != ceil_div(ln, unit):
                return ("chain_of_addStream", "chain of %d sectors" % ceil_div(ln, unit), "%s after %s" % (c, op))
            old = cur.ssat if short else cur.sat
            freed = set()
            for n in deleted:
                if live[n][0] == t:
                    freed |= set(live[n][1])
            for s in c:
                if s < len(old) and old[s] != FREE and s not in freed:
                    return ("chain_of_addStream", "only free sectors allocated", "sector %d was in use (%s)" % (s, op))
        w = new.disjoint_why()
        if w:
            return ("add_preserves_disjoint", "live chains pairwise disjoint after %s" % op, w)
        if kind == "c" and new.changed:
            spb = new.ss // 4
            cl = {n: c for n, t, c in new.live()}
            lu = max([j + 1 for j, v in enumerate(new.sat) if v != FREE], default=0)
            checks = [("SATSectors = FAT sectors listed", new.satSectors, len(new.msat)),
                      ("FAT length = SATSectors blocks", len(new.sat), new.satSectors * spb),
                      ("MSATSectorCount = DIFAT sectors", new.msatCount, len(new.msatList)),
                      ("SSATSectorCount = mini-FAT chain length", new.ssatCount, len(cl["ssat"])),
                      ("mini-FAT length = chain blocks", len(new.ssat), len(cl["ssat"]) * spb),
                      ("directory chain holds all entries", len(cl["dir"]) * (new.ss // 128), len(new.files)),
                      ("file ends after the last used sector", new.fileSectors, lu),
                      ("DIFAT sectors needed", len(new.msatList), max(0, ceil_div(len(new.msat) - 109, spb - 1))),
                      ("FAT marks", sorted(j for j, v in enumerate(new.sat) if v == FATSECT), sorted(new.msat)),
                      ("DIFAT marks", sorted(j for j, v in enumerate(new.sat) if v == DIFSECT), sorted(new.msatList))]
            if new.version >= 4:
                checks.append(("DirSectorCount = directory chain length", new.dirCount, len(cl["dir"])))
            for what, a, b in checks:
                if a != b:
                    return ("close_counts", what, "%s != %s" % (str(a)[:80], str(b)[:80]))
        cur = new
    return None


def status_class(s):
    """ok | err:<class>@s<i> | panic@s<i> | diverge@s<i> (panic sites differ between Go and the model: class only)"""
    if s.startswith("panic"):
        return "panic@" + s.rsplit("@", 1)[-1]
    return s


import struct as _struct


def cfb_view(b):
    """INDEPENDENT reader of a compound file (header, DIFAT chain, FAT, directory tree, mini stream), generic in the sector shift,
    not relic's and not the Lean model's.  Returns (None, why) when the tables do not agree with the file / header counts, else
    ({path: bytes of every stream}, "")."""
    import struct
    if len(b) < 512 or b[:8] != bytes.fromhex("d0cf11e0a1b11ae1") or b[28:30] != b"\xfe\xff":
        return None, "header"
    shift, mshift = struct.unpack("<HH", b[30:34])
    if not (5 <= shift <= 28) or mshift >= shift:
        return None, "shifts"
    ss, mss, spb = 1 << shift, 1 << mshift, (1 << shift) // 4
    first = max(512, ss)
    nsec = (len(b) - first) // ss
    if (len(b) - first) % ss:
        return None, "file does not end at a sector boundary"
    ndirsec, nfat, dirstart, _, cutoff, mfstart, nmf, difstart, ndif = struct.unpack("<IIIIIIIII", b[40:76])
    sec = lambda s_: b[first + s_ * ss:first + (s_ + 1) * ss]
    ents = list(struct.unpack("<109I", b[76:512]))
    nxt, difs = difstart, []
    for _ in range(ndif):
        if nxt >= nsec or nxt in difs:
            return None, "DIFAT chain leaves the file or loops at sector %d" % nxt
        difs.append(nxt)
        v = struct.unpack("<%dI" % spb, sec(nxt))
        ents += v[:-1]
        nxt = v[-1]
    if nxt != 0xFFFFFFFE:
        return None, "DIFAT chain does not end after the %d sectors the header announces (next = %#x)" % (ndif, nxt)
    used = [e for e in ents if e != 0xFFFFFFFF]
    if ents[:len(used)] != used:
        k = next(i for i, e in enumerate(ents) if e == 0xFFFFFFFF)
        return None, "DIFAT entry %d is used after the free entry %d" % (next(i for i in range(k, len(ents)) if ents[i] != 0xFFFFFFFF), k)
    if len(used) != nfat:
        return None, "DIFAT lists %d FAT sectors, the header says %d" % (len(used), nfat)
    if len(set(used)) != len(used) or any(e >= nsec for e in used):
        return None, "DIFAT lists a FAT sector twice or beyond the file"
    fat = []
    for e in used:
        fat += struct.unpack("<%dI" % spb, sec(e))
    if nsec > len(fat):
        return None, "the file has %d sectors, the FAT describes %d" % (nsec, len(fat))
    if sorted(i for i, v in enumerate(fat) if v == 0xFFFFFFFD) != sorted(used):
        return None, "FATSECT marks and the FAT sectors listed in the DIFAT differ"
    if sorted(i for i, v in enumerate(fat) if v == 0xFFFFFFFC) != sorted(difs):
        return None, "DIFSECT marks and the DIFAT chain differ"

    def chain(start, table, limit):
        out, seen = [], set()
        while start != 0xFFFFFFFE:
            if start >= limit or start in seen or start >= len(table):
                return None
            seen.add(start)
            out.append(start)
            start = table[start]
        return out
    dch = chain(dirstart, fat, nsec)
    if not dch:
        return None, "directory chain"
    d = b"".join(sec(x) for x in dch)
    n = len(d) // 128
    E = [d[128 * i:128 * i + 128] for i in range(n)]
    if E[0][66] != 5:
        return None, "no root entry"
    rstart, rsize = struct.unpack("<I", E[0][116:120])[0], struct.unpack("<Q", E[0][120:128])[0]
    mini, minifat = b"", []
    if nmf or rsize:
        mch = chain(mfstart, fat, nsec) if nmf else []
        cch = chain(rstart, fat, nsec) if rsize else []
        if mch is None or cch is None or len(mch) != nmf or len(cch) * ss < rsize:
            return None, "mini FAT / mini stream container chains"
        for x in mch:
            minifat += struct.unpack("<%dI" % spb, sec(x))
        mini = b"".join(sec(x) for x in cch)
    streams, seen = {}, set()

    def walk(i, prefix):
        stack = [i]
        while stack:
            i = stack.pop()
            if i == 0xFFFFFFFF:
                continue
            if i >= n or i in seen:
                return "directory tree leaves the table or loops at entry %d" % i
            seen.add(i)
            e = E[i]
            nl = struct.unpack("<H", e[64:66])[0]
            name = e[:max(0, nl - 2)].decode("utf-16-le", "replace")
            left, right, child = struct.unpack("<III", e[68:80])
            stack += [left, right]
            start, size = struct.unpack("<I", e[116:120])[0], struct.unpack("<Q", e[120:128])[0]
            if e[66] == 1:
                w = walk(child, prefix + name + "/")
                if w:
                    return w
            elif e[66] == 2:
                if size < cutoff:
                    c = chain(start, minifat, len(mini) // mss) if size else []
                    if c is None or len(c) * mss < size:
                        return "mini chain of %r" % (prefix + name)
                    data = b"".join(mini[x * mss:(x + 1) * mss] for x in c)[:size]
                else:
                    c = chain(start, fat, nsec)
                    if c is None or len(c) * ss < size:
                        return "chain of %r (FAT entry out of bounds, loop, or %s sectors for %d bytes)" % (prefix + name, "too few" if c else "no", size)
                    data = b"".join(sec(x) for x in c)[:size]
                streams[prefix + name.upper() if not prefix else prefix + name] = data
            else:
                return "entry %d of type %d in the tree" % (i, e[66])
        return None
    w = walk(struct.unpack("<I", E[0][76:80])[0], "")
    if w:
        return None, w
    return streams, ""


def pred_wb_files(f, outs, status="ok"):
    """C18 on the files lib/comdoc wrote, judged by the independent reader: after every session the header counts, DIFAT, FAT and
    the file agree, and every stream the history did not name holds the bytes it held in the input"""
    inp = bytes.fromhex(f[3]) if f[3] != "-" else b""
    v0, _ = cfb_view(inp)
    if v0 is None:
        return None
    # names the history touches (root level; relic matches them case-insensitively)
    touched, i = set(), 5
    rest = f[4:]
    for j, t in enumerate(rest):
        if t in ("a", "d") and j + 1 < len(rest):
            try:
                touched.add(bytes.fromhex(rest[j + 1]).decode("utf-16-le", "replace").upper() if rest[j + 1] != "-" else "")
            except ValueError:
                pass
    if status.startswith("panic"):
        # Close / AddFile write in place: a panic half way leaves the file partly rewritten
        return ("streams_preserved / tables_roundtrip (the writer must complete on a well-formed file)",
                "ok or a returned error", "the writer panicked on a compound file the independent reader accepts: " + status[:120])
    for n, oh in enumerate(outs):
        v, why = cfb_view(bytes.fromhex(oh))
        if v is None:
            return ("difat_parses_back / fat_parses_back / tables_roundtrip", "header counts, DIFAT, FAT and directory agree with the file "
                    "after session %d (independent reader)" % n, why)
        for name, data in v0.items():
            if name in touched:
                continue
            if name not in v:
                return ("streams_preserved", "stream %r still present after session %d" % (name, n), "missing")
            if v[name] != data:
                k = next((x for x in range(min(len(data), len(v[name]))) if data[x] != v[name][x]), min(len(data), len(v[name])))
                return ("streams_preserved", "stream %r identical after session %d (%d bytes)" % (name, n, len(data)),
                        "%d bytes, first difference at offset %d" % (len(v[name]), k))
    return None


def judge_wb(op, il, mres, tag, stats):
    """byte-level tie: the model's predicted file bytes after every session = the bytes lib/comdoc left in the file;
    bridge: every input that Spec.Cfb.validate accepts opens into a state satisfying invB (hypothesis of the theorems),
    and a session on a valid input leaves a valid file"""
    f = op.split(" ")
    br = kv(tag).get("br", "").split(",") if tag else []
    pre = []
    for n, x in enumerate(br):
        stats["wb-bridge:" + x] += 1
        if x == "vx":
            pre.append(("counterexample", "Relic.Props.C18.inv_of_valid_full", "invB (openFile b) = true for a file Spec.Cfb.validate accepts",
                        "invB false on the input of session %d" % n,
                        "a valid compound file does not satisfy the invariant the byte-level theorems assume"))
        if n > 0 and br[n - 1].startswith("v") and x.startswith("n"):
            pre.append(("counterexample", "Relic.Props.C18.add_preserves_valid_full", "Spec.Cfb.validate accepts the file after session %d" % (n - 1),
                        "rejected (the predicted bytes are the bytes lib/comdoc wrote when the tie holds)",
                        "a session on a valid compound file left an invalid one"))
    tagname = f[2].split("/")[0]
    # the property on what the implementation wrote, whatever the model says
    if il.startswith(("ok", "err", "panic")):
        try:
            bad = pred_wb_files(f, il.split(" ")[1:], il.split(" ")[0])
        except (ValueError, IndexError, KeyError, _struct.error):   # bytes the reader cannot even slice: no verdict
            bad = None
        if bad:
            stats["wb-independent-reader:violation"] += 1
            pre.append(("counterexample", "Relic.Props.C18." + bad[0], bad[1], bad[2][:300],
                        "evaluated on the file lib/comdoc wrote, by an independent reader"))
        else:
            stats["wb-independent-reader:ok-or-skipped"] += 1
    if not mres.startswith("ok "):
        return [("broken-tie", "Relic.CfbB.session", "an answer", mres[:200], "driver failed on this op")], False
    m = mres.split(" ")[1:]
    r = il.split(" ")
    sm, si = status_class(m[0]), status_class(r[0])
    stats["wb:" + si.split("@")[0].split(":_")[0]] += 1
    stats["wb-shape:" + tagname] += 1
    out = list(pre)
    if sm != si:
        out.append(("broken-tie", "Relic.CfbB.session (openFile / addFileB / deleteFileB / closeB)", "status " + sm, "status " + si,
                    "byte-level writer model and lib/comdoc disagree on the outcome of a session"))
        return out, False
    hm, hi = m[1:], r[1:]
    if len(hm) != len(hi):
        out.append(("broken-tie", "Relic.CfbB.session", "%d sessions completed" % len(hm), "%d" % len(hi), "different number of sessions completed"))
        return out, False
    ss = 512
    try:
        ss = 1 << int(f[3][60:62], 16)
    except ValueError:
        pass
    for n, (a, b) in enumerate(zip(hm, hi)):
        stats["wb-sessions-compared"] += 1
        if a == b:
            continue
        k = next((j for j in range(0, min(len(a), len(b)), 2) if a[j:j + 2] != b[j:j + 2]), min(len(a), len(b))) // 2
        where = "header byte %d" % k if k < 512 else "sector %d + %d" % (k // ss - 1, k % ss)
        out.append(("broken-tie", "Relic.CfbB.session (openFile / addFileB / deleteFileB / closeB)",
                    "file of %d bytes, at %s: %s" % (len(a) // 2, where, a[2 * k:2 * k + 32]),
                    "file of %d bytes, at %s: %s" % (len(b) // 2, where, b[2 * k:2 * k + 32]),
                    "the bytes lib/comdoc wrote differ from the byte-level model's prediction after session %d (first difference at offset %d)" % (n, k)))
        break
    return out, si == "ok" and not out and len(hi) > 0


def judge(op, il, mres, tag, stats):
    """-> list of (kind, theorem, expected, observed, note); updates stats; returns (problems, nontrivial)"""
    f = op.split(" ")
    k = f[1]
    out = []
    if il.startswith(("crash", "not-run")):
        return [("broken-tie", "Relic.CfbW (harness)", "an answer", il[:200], "harness crashed on this op")], False
    if k == "wb":
        return judge_wb(op, il, mres, tag, stats)
    if k == "wr":
        r = il.split(" ")
        if mres == "bad-op" and model_op(op, il) == "C18 skip":
            stats["wr:input-unreadable"] += 1
            return [], False
        stats["wr:" + mres.split(" ")[1].split("@")[0] if mres.startswith("ok ") else "wr:?"] += 1
        if not mres.startswith("ok agree"):
            out.append(("broken-tie", "Relic.CfbW.addFile/deleteFile/close", "model state = dumped state at every step",
                        mres[:300], "writer model and lib/comdoc disagree on the tables"))
        for c in tag:
            stats["wr-model-step:" + c] += 1
        bad = pred_wr(r[1:], stats)
        if bad:
            out.append(("counterexample", "Relic.Props.C18." + bad[0], bad[1], bad[2][:300],
                        "evaluated on the tables dumped by the implementation"))
        return out, r[0] == "ok" and not out
    pi = il.startswith("panic")
    pm = mres.startswith("panic")
    same = (pi and pm) or il == mres
    stats["%s:%s" % (k, "panic" if pi else ("same" if same else "differ"))] += 1
    if not same:
        out.append(("broken-tie", "Relic.CfbW.%s" % {"alloc": "makeFree", "free": "freeSectors", "adds": "addStream", "atab": "allocTables"}[k],
                    mres[:300], il[:300], "model and lib/comdoc disagree (free list order or table entries)"))
    bad = {"alloc": pred_alloc, "free": pred_free, "adds": pred_adds, "atab": pred_atab}[k](f, il)
    if bad:
        out.append(("counterexample", "Relic.Props.C18." + bad[0], bad[1], bad[2][:300],
                    "evaluated on the tables returned by the implementation"))
    return out, not pi

/- line-protocol handlers for C17 (zipslicer): model result, then ` #` tags computed from Spec.Zip -/
import Relic.Model.Zip
import Relic.Spec.Zip
import Relic.Model.ZipStream
import Relic.Model.ZipWrite
namespace Relic.Driver.C17
open Relic Relic.Zip

/-- checksum used only to keep protocol lines short (same function in the Go harness) -/
def ck (b : Bytes) : Nat := b.foldl (fun a x => (a * 31 + x.toNat + 1) % 4294967296) 7

def showRes {α} (f : α → String) : Res α → String
  | .ok a => f a
  | .err e => s!"err {e}"
  | .panic s => s!"panic {s}"
  | .diverge => "diverge"

def errTag {α} : Res α → String
  | .ok _ => "ok"
  | .err e => e
  | .panic s => s!"panic-{s}"
  | .diverge => "diverge"

/-- an `int64` computed with wrap-around, printed the way Go prints it -/
def showI64 (n : Nat) : String :=
  let m := n % 2 ^ 64
  if m < 2 ^ 63 then toString m else "-" ++ toString (2 ^ 64 - m)

def showFile (f : File) : String :=
  s!"{toHex f.name} {f.method} {f.flags} {f.crc} {f.csize} {f.usize} {f.offset}"

/-- random-access pass: table, per-member `GetTotalSize`/`GetLocalHeader`/`GetDataDescriptor` -/
def showMembers (r : Rd) (fs : List File) : List String :=
  fs.map fun f =>
    match getTotalSize r f with
    | .ok (m, _) =>
      s!"{showFile f} t:{showI64 m.dataOff}:{showI64 m.total}:{ck (encLfh m.lfh ++ m.lfh.name ++ m.lfh.extra)}:{toHex m.file.ddb}:{m.file.crc}"
    | x => s!"{showFile f} terr:{errTag x}"

def showOrig (x : Res (Bytes × Bytes)) : String :=
  showRes (fun (p : Bytes × Bytes) => s!"ok:{toHex p.1}:{toHex p.2}") x |>.replace " " ":"

def readLine (z : Bytes) : String :=
  let r : Rd := ⟨z, false, 0⟩
  match read r with
  | .ok d =>
    let ms := showMembers r d.files
    let (cd, eod, _) := writeDirectory d false
    let (_, eodf, _) := writeDirectory d true
    s!"ok dirloc={d.dirLoc} n={d.files.length} [ {" ; ".intercalate ms} ] wd={toHex cd}:{toHex eod} wdf={toHex eodf} god={showOrig (getOriginalDirectory d)}"
  | x => showRes (fun _ => "") x

/-- `ZipToTar` + `ReadZipTar`, then `Dump` of every member in directory order; stop at the first error -/
def streamMembers : Rd → List File → List String
  | _, [] => []
  | r, f :: fs =>
    match dump r f with
    | .ok (b, n, _, r') => s!"d:{showI64 n}:{b.length}:{ck b}" :: streamMembers r' fs
    | x => [s!"derr:{errTag x}"]

def streamLine (z : Bytes) : String :=
  -- `readStream`: ZipToTar + ReadZipTar (a directory offset beyond the file is "err tar")
  match readStream z with
  | .ok d => s!"ok n={d.files.length} [ {" ; ".intercalate (streamMembers ⟨z, true, 0⟩ d.files)} ]"
  | x => showRes (fun _ => "") x

/-! tags from the specification -/

def showSpecMember (m : SpecZip.Member) : String :=
  let e := m.entry
  s!"{toHex e.name} {e.method} {e.flags} {e.crc} {e.csize} {e.usize} {e.hoff} {m.dataOff}"

/-- members laid out back to back from offset 0 up to the central directory, in directory order -/
def contiguous (a : SpecZip.Archive) : Bool :=
  let rec go (pos : Nat) : List SpecZip.Member → Bool
    | [] => pos == a.ends.cdOff
    | m :: ms =>
      m.entry.hoff == pos &&
      match m.descWidths with
      | [] => go (m.dataOff + m.entry.csize) ms
      | _ => match SpecZip.trueWidth a m with
        | some w => go (m.dataOff + m.entry.csize + w) ms
        | none => false
  go 0 a.members

/-- members whose descriptor relic measures differently from the contiguous reading -/
def misreadWidths (z : Bytes) (a : SpecZip.Archive) (d : Directory) : Bool :=
  (a.members.zip d.files).any fun (m, f) =>
    match SpecZip.trueWidth a m, getTotalSize ⟨z, false, 0⟩ f with
    | some w, .ok (mm, _) => w != mm.file.ddb.length
    | _, _ => false

def desc24Empty (a : SpecZip.Archive) : Bool :=
  a.members.any fun m => m.entry.usize == 0 && SpecZip.trueWidth a m == some 24

/-- forward order in relic's own measure (`Relic.Zip.forward` on the random-access pass), when that pass succeeds
    with every extent inside the archive: "1" / "0", else "-" -/
def fwdTag (z : Bytes) : String :=
  match read ⟨z, false, 0⟩ with
  | .ok d =>
    match dumpAll ⟨z, false, 0⟩ d.files with
    | .ok outs => if inRange z.length d.files outs then (if forward 0 d.files outs then "1" else "0") else "-"
    | _ => "-"
  | _ => "-"

/-- `canonEnds` (the class on which `WriteDirectory` re-emits the original end records) -/
def canonTag (z : Bytes) (a : SpecZip.Archive) : String :=
  match read ⟨z, false, 0⟩ with
  | .ok d => if decide (canonEnds z a (maxReader d.files)) then "1" else "0"
  | _ => "-"

/-- `Relic.Zip.widthOK` (Proofs/ZipAgree.lean), repeated here because the driver links core modules only -/
def widthOKd (a : SpecZip.Archive) (m : SpecZip.Member) : Bool :=
  m.descWidths.isEmpty ||
  match SpecZip.trueWidth a m with
  | none => false
  | some w =>
    (w != 16 || m.entry.usize != 0xffffffff) &&
    (w != 24 || decide (m.entry.usize ≥ 0xffffffff) ||
      m.entry.csize / 2 ^ 32 % 2 ^ 32 != m.entry.usize % 2 ^ 32)

/-- the class `Props.C17.relicReadable` -/
def readableTag (z : Bytes) (a : SpecZip.Archive) : Bool :=
  SpecZip.noComment a z && SpecZip.descSigned a && SpecZip.zip64Fixed a && a.members.all (widthOKd a) &&
    decide (z.length < 2 ^ 63)

def specTags (z : Bytes) : String :=
  -- what GetOriginalDirectory(false) returns once F7b is repaired (Model.Zip.originalDirectorySpec)
  let godfix := match read ⟨z, false, 0⟩ with
    | .ok d => showOrig (originalDirectorySpec d)
    | _ => "-"
  match SpecZip.parse z with
  | none => s!"spec=invalid godfix={godfix}"
  | some a =>
    let flags :=
      (if a.ends.comment.isEmpty then [] else ["eocd-comment"]) ++
      (if z.length < 42 then ["tiny"] else []) ++
      (if SpecZip.descSigned a then [] else ["desc-nosig"]) ++
      (if SpecZip.zip64Fixed a then [] else ["zip64-partial"]) ++
      (if desc24Empty a then ["desc24-empty"] else []) ++
      (if contiguous a then ["contig"] else []) ++
      (match read ⟨z, false, 0⟩ with
       | .ok d => if misreadWidths z a d then ["width-misread"] else []
       | _ => [])
    let orig := s!"{toHex ((z.drop a.ends.cdOff).take (a.ends.first - a.ends.cdOff))}:{toHex ((z.drop a.ends.first).take (a.ends.eocd + 22 - a.ends.first))}"
    let room := a.members.all fun m => decide (m.entry.extra.length + 28 < 65536)
    s!"spec=valid flags={",".intercalate flags} st=[ {" ; ".intercalate (a.members.map showSpecMember)} ] orig={orig} godfix={godfix} fwd={fwdTag z} fwds={if forwardSpec a 0 a.members then "1" else "0"} canon={canonTag z a} room={if room then "1" else "0"} rdbl={if readableTag z a then "1" else "0"}"

/-! rewrite: the offsets relic's `Mangle`/`AddFile`/`NewFile`/`MakePatch` compute -/

def parseNew : Nat → List String → Option (List NewMember)
  | 0, _ => some []
  | n + 1, a :: b :: c :: u :: k :: dfl :: ud :: rest => do
    let name ← fromHex a
    let extra ← fromHex b
    let compd ← fromHex c
    let us ← u.toNat?
    let crc ← k.toNat?
    let ns ← parseNew n rest
    pure (⟨name, extra, compd, us, crc, dfl = "1", ud = "1"⟩ :: ns)
  | _, _ => none

/-- the output of `Relic.Zip.rewriteWith` (Model/ZipWrite.lean); errors classified by the phase that failed -/
def rewriteLine (z : Bytes) (mask : List Bool) (force : Bool) (mtime mdate : Nat) (news : List NewMember) : String :=
  let r : Rd := ⟨z, false, 0⟩
  match read r with
  | .ok d =>
    match mangle r d.files mask { files := [], size := 0, dirLoc := 0 } [] with
    | .ok _ =>
      match rewriteWith z mask force mtime mdate news with
      | .ok out => s!"ok {toHex out}"
      | x => "err wd-" ++ errTag x      -- read and the member loop succeeded: what is left is `WriteDirectory`
    | x => "err mangle-" ++ errTag x
  | x => "err read-" ++ errTag x

/-- the conclusion of `rewrite_roundtrip_small` evaluated on this instance (model output read by `Spec.Zip`):
    "ok" / "bad", or "-" when the model produced no output -/
def rtTag (z : Bytes) (mask : List Bool) (force : Bool) (mtime mdate : Nat) (news : List NewMember) : String :=
  match rewriteWith z mask force mtime mdate news, specView z with
  | .ok out, some vin =>
    let kept := (vin.zipIdx.filter fun (_, i) => !(mask.getD i false)).map (·.1)
    if specView out == some (kept ++ news.map newView) then "ok" else "bad"
  | _, _ => "-"
/-- `srcdir`: the source directory serialised before and after `Mangle` ran over it.  In the model a `Directory` is a value:
    `mangle` cannot change it, so both serialisations are the same expression; on the Go side the `File`s of the mangled
    directory are struct copies that SHARE the `raw` entry bytes with the source, and the op checks that nothing writes
    through them. -/
def srcdirLine (z : Bytes) (mask : List Bool) : String :=
  let r : Rd := ⟨z, false, 0⟩
  match read r with
  | .ok d =>
    match mangle r d.files mask { files := [], size := 0, dirLoc := 0 } [] with
    | .ok _ =>
      let (cd, eod, _) := writeDirectory d false
      let s := s!"wd={toHex cd}:{toHex eod} god={showOrig (getOriginalDirectory d)}"
      s!"ok before {s} after {s}"
    | x => "err mangle-" ++ errTag x
  | x => "err read-" ++ errTag x

/-- `WriteDirectory` on a synthetic directory (exported fields only): `count` members, the first one
    with the given version/sizes/offset, the others empty; reaches the real 16/32-bit thresholds -/
def wdLine (count dirLoc : Nat) (force : Bool) (reader cs us off : Nat) : String :=
  let f0 : File := { creator := 45, reader := reader, flags := 0, method := 0, mtime := 0, mdate := 0, crc := 0, csize := cs,
                     usize := us, name := [97], extra := [], comment := [], iattrs := 0, eattrs := 0, offset := off, raw := [] }
  let fz : File := { f0 with reader := 20, csize := 0, usize := 0, offset := 0, name := [] }
  let files := if count = 0 then [] else f0 :: List.replicate (count - 1) fz
  let (cd, eod, d') := writeDirectory { files := files, size := 0, dirLoc := dirLoc } force
  let again := (writeDirectory d' force).1
  s!"ok {cd.length} {ck cd} {toHex eod} {toHex (cd.take 120)} {again.length}"

/-- `WriteDirectory` on a one-member synthetic directory whose member carries an extra field of `n` bytes 0x41 -/
def wdxLine (n cs us off : Nat) : String :=
  let f0 : File := { creator := 45, reader := 20, flags := 0, method := 0, mtime := 0, mdate := 0, crc := 0, csize := cs,
                     usize := us, name := [97], extra := List.replicate n 0x41, comment := [], iattrs := 0, eattrs := 0,
                     offset := off, raw := [] }
  -- `WriteDirectory` as it stands (fix-F7g): refused when the ZIP64 field does not fit the 16-bit extra length
  match writeDirectoryFx { files := [f0], size := 0, dirLoc := 1000 } false with
  | .ok (cd, eod, _) => s!"ok {cd.length} {ck cd} {toHex eod} {toHex (cd.take 80)}"
  | x => showRes (fun _ => "") x

def handle : List String → String
  -- an archive of n plain members plus k added through AddFile / NewFile / WriteDirectory: by zip64_thresholds /
  -- zip64_records_emitted the end records are consistent on both sides of 65535 members, so relic and a standard reader
  -- read the result back (the whole-archive statement write_read_roundtrip is checked dynamically on these sizes)
  | ["many", n, k, _desc] =>
    match n.toNat?, k.toNat? with
    | some n, some k => s!"ok members={n + k} relic=ok go=ok"
    | _, _ => "bad-op"
  | ["wd", c, dl, fo, rv, cs, us, off] =>
    match c.toNat?, dl.toNat?, rv.toNat?, cs.toNat?, us.toNat?, off.toNat? with
    | some c, some dl, some rv, some cs, some us, some off => wdLine c dl (fo = "1") rv cs us off
    | _, _, _, _, _, _ => "bad-op"
  | ["wdx", n, cs, us, off] =>
    match n.toNat?, cs.toNat?, us.toNat?, off.toNat? with
    | some n, some cs, some us, some off => wdxLine n cs us off
    | _, _, _, _ => "bad-op"
  | ["read", hex] =>
    match fromHex hex with
    | some z => s!"R {readLine z} | S {streamLine z} #{specTags z}"
    | none => "bad-op"
  | ["srcdir", hex, mask, _force] =>
    match fromHex hex with
    | some z => s!"{srcdirLine z (if mask = "-" then [] else mask.toList.map (· == '1'))} #{specTags z}"
    | none => "bad-op"
  | "rewrite" :: hex :: mask :: force :: mt :: md :: k :: rest =>
    match fromHex hex, k.toNat?, mt.toNat?, md.toNat? with
    | some z, some k, some mt, some md =>
      match parseNew k rest with
      | some news =>
        let m := if mask = "-" then [] else mask.toList.map (· == '1')
        s!"{rewriteLine z m (force = "1") mt md news} #{specTags z} rt={rtTag z m (force = "1") mt md news}"
      | none => "bad-op"
    | _, _, _, _ => "bad-op"
  | _ => "bad-op"

end Relic.Driver.C17

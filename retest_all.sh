#!/bin/bash
# retest_all.sh <nworkers> <idlist-file>: re-evaluate stored seeded changes in parallel.  Each worker has its own scratch
# (/tmp/wk/rt<i>/{repo worktree, verif copy}); a change is applied to the worker's worktree, `./check <prop>` runs there with
# VERIF_REPO pointing at it, the output goes to /verif/seeded/<id>/check_output.final.txt, the change is reverted.
# /repo and /verif themselves are not touched (except for the result files).  Lines of the id list: "<id> [prop ...]".
export GOFLAGS=-mod=mod GOPROXY=off GOSUMDB=off GOTOOLCHAIN=local CGO_ENABLED=0
n="$1"; list="$2"
for i in $(seq 1 $n); do
  [ -d /tmp/wk/rt$i ] || /verif/mkscratch.sh rt$i >/dev/null
done
worker() {
  i=$1
  export VERIF_REPO=/tmp/wk/rt$i/repo
  cd /tmp/wk/rt$i/verif
  awk -v n=$n -v i=$i 'NR % n == i % n' "$list" | while read id props; do
    [ -z "$id" ] && continue
    [ -z "$props" ] && props="${id:0:3}"
    p=/verif/seeded/$id/patch.diff
    if ! git -C $VERIF_REPO apply --check "$p" 2>/dev/null; then echo "$id: PATCH DOES NOT APPLY" > /verif/seeded/$id/check_output.final.txt; echo "== $id does-not-apply"; continue; fi
    git -C $VERIF_REPO apply "$p"
    : > /verif/seeded/$id/check_output.final.txt
    for prop in $props; do
      out=$(timeout 2400 ./check $prop --tier quick 2>&1 | grep -v '^warning\|^Hint\|^Note\|^\s*$\|apply\]\|KNOWN-FINDING')
      echo "### ./check $prop" >> /verif/seeded/$id/check_output.final.txt
      echo "$out" | cut -c1-1500 | head -60 >> /verif/seeded/$id/check_output.final.txt
      echo "== $id $prop: $(echo "$out" | grep -c '^VIOLATION') violations, $(echo "$out" | grep '^VIOLATION' | grep -vc no-failing-input-found) with input :: $(echo "$out" | grep -m1 'counterexample:\|broken-tie:' | cut -c1-120)"
    done
    git -C $VERIF_REPO checkout -- . ; git -C $VERIF_REPO clean -fdq
    git checkout lean/Relic/Generated 2>/dev/null || true
  done
}
for i in $(seq 1 $n); do worker $i & done
wait

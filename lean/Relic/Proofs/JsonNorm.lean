/- canonical listing keeps well-formedness; what `json.Unmarshal` yields has distinct keys; `m[k] = v` keeps them distinct -/
import Relic.Proofs.JsonOrder
import Relic.Proofs.JsonEsc
namespace Relic.Json
open Relic

theorem WFEM_iff (dom : Nat → Bool) (l : List Member) :
    WFEM dom l ↔ ∀ p ∈ l, (∀ c ∈ p.1, dom c = true) ∧ WFE dom p.2 := by
  induction l with
  | nil => simp [WFEM]
  | cons p tl ih =>
    obtain ⟨k, v⟩ := p
    simp only [WFEM, ih, List.mem_cons, forall_eq_or_imp]
    constructor
    · rintro ⟨a, b, c⟩; exact ⟨⟨a, b⟩, c⟩
    · rintro ⟨⟨a, b⟩, c⟩; exact ⟨a, b, c⟩

theorem WFEM_perm (dom : Nat → Bool) (l l' : List Member) (hp : l.Perm l') (h : WFEM dom l) : WFEM dom l' := by
  rw [WFEM_iff] at h ⊢
  intro p hp'
  exact h p (hp.symm.subset hp')

mutual
theorem WFE_canon (dom : Nat → Bool) : ∀ v : JVal, WFE dom v → WFE dom (canon v)
  | .null, _ => by simp [canon, WFE]
  | .bool _, _ => by simp [canon, WFE]
  | .num _, h => by simpa [canon, WFE] using h
  | .str _, h => by simpa [canon, WFE] using h
  | .arr es, h => by
    simp only [canon, WFE] at h ⊢
    exact WFEL_canon dom es h
  | .obj ms, h => by
    simp only [canon, WFE] at h ⊢
    exact WFEM_perm dom _ _ (sortMembers_perm _).symm (WFEM_canon dom ms h)
theorem WFEL_canon (dom : Nat → Bool) : ∀ l : List JVal, WFEL dom l → WFEL dom (canonL l)
  | [], _ => by simp [canonL, WFEL]
  | v :: tl, h => by
    simp only [canonL, WFEL] at h ⊢
    exact ⟨WFE_canon dom v h.1, WFEL_canon dom tl h.2⟩
theorem WFEM_canon (dom : Nat → Bool) : ∀ l : List Member, WFEM dom l → WFEM dom (canonM l)
  | [], _ => by simp [canonM, WFEM]
  | (k, v) :: tl, h => by
    simp only [canonM, WFEM] at h ⊢
    exact ⟨h.1, WFE_canon dom v h.2.1, WFEM_canon dom tl h.2.2⟩
end

/-! ### `m[k] = v` -/

theorem keysOf_filter (k : Key) (m : List Member) :
    keysOf (m.filter (fun p => p.1 ≠ k)) = (keysOf m).filter (· ≠ k) := by
  induction m with
  | nil => rfl
  | cons p tl ih =>
    by_cases h : p.1 = k
    · simp [keysOf, List.filter_cons, h] at ih ⊢; exact ih
    · simp [keysOf, List.filter_cons, h] at ih ⊢; exact ih

theorem keysOf_setKey (k : Key) (v : JVal) (m : List Member) : keysOf (setKey k v m) = (keysOf m).filter (· ≠ k) ++ [k] := by
  unfold setKey
  have : keysOf (m.filter (fun p => p.1 ≠ k) ++ [(k, v)]) = keysOf (m.filter (fun p => p.1 ≠ k)) ++ [k] := by simp [keysOf]
  rw [this, keysOf_filter]

theorem setKey_nodup (k : Key) (v : JVal) (m : List Member) (h : (keysOf m).Nodup) : (keysOf (setKey k v m)).Nodup := by
  rw [keysOf_setKey]
  refine List.nodup_append.mpr ⟨h.filter _, by simp, ?_⟩
  intro a ha b hb
  simp only [List.mem_singleton] at hb
  subst hb
  simp only [List.mem_filter, decide_eq_true_eq] at ha
  exact ha.2

theorem WFEM_setKey (dom : Nat → Bool) (k : Key) (v : JVal) (m : List Member) (hk : ∀ c ∈ k, dom c = true) (hv : WFE dom v)
    (h : WFEM dom m) : WFEM dom (setKey k v m) := by
  rw [WFEM_iff] at h ⊢
  intro p hp
  simp only [setKey, List.mem_append, List.mem_filter, List.mem_singleton] at hp
  rcases hp with ⟨hp, _⟩ | rfl
  · exact h p hp
  · exact ⟨hk, hv⟩

theorem KeysDistinctM_iff (l : List Member) : KeysDistinctM l ↔ ∀ p ∈ l, KeysDistinct p.2 := by
  induction l with
  | nil => simp [KeysDistinctM]
  | cons p tl ih => obtain ⟨k, v⟩ := p; simp [KeysDistinctM, ih]

theorem KeysDistinctM_setKey (k : Key) (v : JVal) (m : List Member) (hv : KeysDistinct v) (h : KeysDistinctM m) :
    KeysDistinctM (setKey k v m) := by
  rw [KeysDistinctM_iff] at h ⊢
  intro p hp
  simp only [setKey, List.mem_append, List.mem_filter, List.mem_singleton] at hp
  rcases hp with ⟨hp, _⟩ | rfl
  · exact h p hp
  · exact hv

/-- a Go map built by successive assignments has distinct keys -/
theorem dedupe_nodup (ms : List Member) : (keysOf (dedupe ms)).Nodup := by
  unfold dedupe
  suffices ∀ (acc : List Member), (keysOf acc).Nodup → (keysOf (ms.foldl (fun m p => setKey p.1 p.2 m) acc)).Nodup from
    this [] (by simp [keysOf])
  induction ms with
  | nil => intro acc h; exact h
  | cons p tl ih => intro acc h; exact ih _ (setKey_nodup _ _ _ h)

theorem foldl_setKey_mem (ms : List Member) (p : Member) :
    ∀ (acc : List Member), p ∈ ms.foldl (fun m q => setKey q.1 q.2 m) acc → p ∈ acc ∨ p ∈ ms := by
  induction ms with
  | nil => intro acc h; exact Or.inl h
  | cons q tl ih =>
    intro acc h
    simp only [List.foldl_cons] at h
    rcases ih _ h with h | h
    · simp only [setKey, List.mem_append, List.mem_filter, List.mem_singleton] at h
      rcases h with ⟨h, _⟩ | rfl
      · exact Or.inl h
      · exact Or.inr (by simp)
    · exact Or.inr (by simp [h])

theorem dedupe_mem (ms : List Member) (p : Member) (h : p ∈ dedupe ms) : p ∈ ms := by
  rcases foldl_setKey_mem ms p [] h with h | h
  · cases h
  · exact h

end Relic.Json

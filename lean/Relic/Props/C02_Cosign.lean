/-
  C02 — Any change to signed content makes verification fail.   What a container-image signature binds: the signed byte
  string is the payload; this file shows that the payload determines the manifest digest and the optional map (as a map),
  and lists the exact collisions at the level of what the caller typed.
-/
import Relic.Props.C01_Cosign
import Relic.Proofs.JsonUnquote
import Relic.Proofs.JsonScan
namespace Relic.Props.C02
open Relic Relic.Json Relic.Cosign

/-! ### the payload as a function of (digest, map) is injective -/

theorem ascii_scalar : (∀ c ∈ ascii "critical", isScalar c = true) ∧ (∀ c ∈ ascii "image", isScalar c = true) ∧
    (∀ c ∈ ascii "docker-manifest-digest", isScalar c = true) ∧ (∀ c ∈ ascii "type", isScalar c = true) ∧
    (∀ c ∈ ascii "optional", isScalar c = true) ∧ (∀ c ∈ signatureType, isScalar c = true) ∧
    (∀ c ∈ ascii "creator", isScalar c = true) := by decide

theorem WFE_payloadVal (d : List Nat) (opt : List Member) (hd : ∀ c ∈ d, isScalar c = true) (ho : WFEM isScalar opt) :
    WFE isScalar (payloadVal d opt) := by
  obtain ⟨a1, a2, a3, a4, a5, a6, _⟩ := ascii_scalar
  have hc := WFE_canon isScalar (.obj opt) (by simpa [WFE] using ho)
  simp only [payloadVal, WFE, WFEM]
  exact ⟨a1, ⟨a2, ⟨a3, hd, trivial⟩, a4, a6, trivial⟩, a5, hc, trivial⟩

/-- **cosign_payload_injective_partial.**  On the class of digests and maps whose strings are Unicode scalar values and whose
    numbers are float-encoder tokens (everything `json.Unmarshal` can produce: `Relic.Json.unquote_scalar`; digest strings and
    `creator` are ASCII): two payloads are the same byte string only if they name the same digest and carry the same optional
    map – the same members, listed canonically.  (`_full`, below, is false: what the *caller typed* is not determined.) -/
theorem cosign_payload_injective_partial (creator d d' : List Nat) (m m' : Option (List Member))
    (hc : ∀ c ∈ creator, isScalar c = true) (hd : ∀ c ∈ d, isScalar c = true) (hd' : ∀ c ∈ d', isScalar c = true)
    (hm : WFEM isScalar (m.getD [])) (hm' : WFEM isScalar (m'.getD []))
    (h : payloadBytes creator d m = payloadBytes creator d' m') :
    d = d' ∧ canon (.obj (withCreator creator m)) = canon (.obj (withCreator creator m')) := by
  have hk := ascii_scalar.2.2.2.2.2.2
  have w := WFE_payloadVal d (withCreator creator m) hd (WFEM_setKey isScalar _ _ _ hk (by simpa [WFE] using hc) hm)
  have w' := WFE_payloadVal d' (withCreator creator m') hd' (WFEM_setKey isScalar _ _ _ hk (by simpa [WFE] using hc) hm')
  have e := enc_injective escRune_prefixCode _ _ w w' h
  simp only [payloadVal, JVal.obj.injEq, List.cons.injEq, Prod.mk.injEq, true_and, and_true, JVal.str.injEq] at e
  exact ⟨e.1, e.2⟩

/-- **cosign_payload_injective_on_parsed.**  The class of `cosign_payload_injective_partial` contains everything the signer can
    meet: for any two `optional` flag texts that `json.Unmarshal` accepts (number table answering float-encoder tokens) and any two
    digest strings of the form `<alg>:<hex>`, equal payloads mean the same digest string and the same map. -/
theorem cosign_payload_injective_on_parsed (cvt : Cvt) (hcvt : CvtOK cvt) (creator d d' : List Nat) (t t' : Bytes)
    (m m' : Option (List Member)) (hc : ∀ c ∈ creator, isScalar c = true)
    (hd : ∀ c ∈ d, isScalar c = true) (hd' : ∀ c ∈ d', isScalar c = true)
    (ht : unmarshalMap cvt t = .ok m) (ht' : unmarshalMap cvt t' = .ok m')
    (h : payloadBytes creator d m = payloadBytes creator d' m') :
    d = d' ∧ canon (.obj (withCreator creator m)) = canon (.obj (withCreator creator m')) :=
  cosign_payload_injective_partial creator d d' m m' hc hd hd' (unmarshalMap_wf cvt hcvt t m ht).1 (unmarshalMap_wf cvt hcvt t' m' ht').1 h

/-- a number table of the admissible kind: every literal becomes the token `1` -/
example : CvtOK (fun _ => some [0x31]) := by
  intro t o h
  simp only [Option.some.injEq] at h
  subst h
  exact ⟨⟨0x31, [], rfl, Or.inl (by decide)⟩, by decide⟩

/-- the canonical listings agree exactly when the maps hold the same members (values compared canonically) -/
theorem canon_obj_eq_iff_perm (a b : List Member) (h : canon (.obj a) = canon (.obj b)) : (canonM a).Perm (canonM b) := by
  simp only [canon, JVal.obj.injEq] at h
  exact (sortMembers_perm _).symm.trans (h ▸ sortMembers_perm _)

/-- the full statement – "the payload determines what was passed in" – … -/
def cosign_payload_injective_full : Prop :=
  ∀ (creator d d' : List Nat) (m m' : Option (List Member)),
    payloadBytes creator d m = payloadBytes creator d' m' → d = d' ∧ m = m'

/-- … is false: no `optional` at all, `optional=null` (both: nil map) and `optional={}` give one payload; a `creator` the
    caller supplied is overwritten; the order of the members is forgotten -/
theorem cosign_payload_injective_full_false : ¬ cosign_payload_injective_full := by
  intro h
  have := (h [] [] [] none (some []) (by decide)).2
  cases this

/-- **cosign_creator_overridden** (collision witness): whatever the caller put under `creator` is replaced by relic's user agent -/
theorem cosign_creator_overridden (creator d : List Nat) (v : JVal) (m : List Member) :
    payloadBytes creator d (some ((ascii "creator", v) :: m)) = payloadBytes creator d (some (m.filter (fun p => p.1 ≠ ascii "creator"))) := by
  unfold payloadBytes withCreator setKey
  simp [List.filter_cons, List.filter_filter]

/-! ### collisions at the level of the flag text (numbers through the identity table: the literal is what is re-emitted) -/

def payloadOfText (t : Bytes) : Option Bytes :=
  match newPayload some (ascii "r") (ascii "sha256:00") t with
  | .ok p => some p
  | _ => none

set_option maxRecDepth 8000 in
/-- duplicate keys: the later one wins; escapes are decoded; key order is forgotten; whitespace is forgotten; a `creator`
    of the caller is dropped; absent / null / {} coincide; a lone surrogate escape is U+FFFD.  (Texts as byte lists: string
    literals do not reduce well in the kernel.) -/
theorem cosign_text_collisions :
    -- {"a":1,"a":2}   =   {"a":2}
    payloadOfText [0x7B, 0x22, 0x61, 0x22, 0x3A, 0x31, 0x2C, 0x22, 0x61, 0x22, 0x3A, 0x32, 0x7D] = payloadOfText [0x7B, 0x22, 0x61, 0x22, 0x3A, 0x32, 0x7D] ∧
    -- {"a":"\u003c"}   =   {"a":"<"}
    payloadOfText [0x7B, 0x22, 0x61, 0x22, 0x3A, 0x22, 0x5C, 0x75, 0x30, 0x30, 0x33, 0x63, 0x22, 0x7D] = payloadOfText [0x7B, 0x22, 0x61, 0x22, 0x3A, 0x22, 0x3C, 0x22, 0x7D] ∧
    -- {"b":1,"a":2}   =   {"a":2,"b":1}
    payloadOfText [0x7B, 0x22, 0x62, 0x22, 0x3A, 0x31, 0x2C, 0x22, 0x61, 0x22, 0x3A, 0x32, 0x7D] = payloadOfText [0x7B, 0x22, 0x61, 0x22, 0x3A, 0x32, 0x2C, 0x22, 0x62, 0x22, 0x3A, 0x31, 0x7D] ∧
    --  { "a" : [ 1 , 2 ] }    =   {"a":[1,2]}
    payloadOfText [0x20, 0x7B, 0x20, 0x22, 0x61, 0x22, 0x20, 0x3A, 0x20, 0x5B, 0x20, 0x31, 0x20, 0x2C, 0x20, 0x32, 0x20, 0x5D, 0x20, 0x7D, 0x20] = payloadOfText [0x7B, 0x22, 0x61, 0x22, 0x3A, 0x5B, 0x31, 0x2C, 0x32, 0x5D, 0x7D] ∧
    -- {"creator":"someone"}   =   {}
    payloadOfText [0x7B, 0x22, 0x63, 0x72, 0x65, 0x61, 0x74, 0x6F, 0x72, 0x22, 0x3A, 0x22, 0x73, 0x6F, 0x6D, 0x65, 0x6F, 0x6E, 0x65, 0x22, 0x7D] = payloadOfText [0x7B, 0x7D] ∧
    -- null   =   {}
    payloadOfText [0x6E, 0x75, 0x6C, 0x6C] = payloadOfText [0x7B, 0x7D] ∧
    -- (flag not given)   =   {}
    payloadOfText [] = payloadOfText [0x7B, 0x7D] ∧
    -- {"\ud800":1}   =   {"\ufffd":1}
    payloadOfText [0x7B, 0x22, 0x5C, 0x75, 0x64, 0x38, 0x30, 0x30, 0x22, 0x3A, 0x31, 0x7D] = payloadOfText [0x7B, 0x22, 0x5C, 0x75, 0x66, 0x66, 0x66, 0x64, 0x22, 0x3A, 0x31, 0x7D] ∧
    -- {"a":1}   ≠   {"a":2}
    payloadOfText [0x7B, 0x22, 0x61, 0x22, 0x3A, 0x31, 0x7D] ≠ payloadOfText [0x7B, 0x22, 0x61, 0x22, 0x3A, 0x32, 0x7D] ∧
    -- {"a":1} is accepted; [1] and {"a":1,} are refused
    payloadOfText [0x7B, 0x22, 0x61, 0x22, 0x3A, 0x31, 0x7D] ≠ none ∧ payloadOfText [0x5B, 0x31, 0x5D] = none ∧ payloadOfText [0x7B, 0x22, 0x61, 0x22, 0x3A, 0x31, 0x2C, 0x7D] = none := by
  decide

/-- numbers: literals that denote one float64 are one token after `convertNumber` + the float encoder (the table `cvt`),
    so they collide: `{"n":1.0}` and `{"n":1}` whenever `cvt "1.0" = cvt "1"` (Go: both are `1`) -/
theorem cosign_number_collision (cvt : Cvt) (creator d : List Nat) (h : cvt [0x31, 0x2E, 0x30] = cvt [0x31]) :
    newPayload cvt creator d [0x7B, 0x22, 0x6E, 0x22, 0x3A, 0x31, 0x2E, 0x30, 0x7D] =
      newPayload cvt creator d [0x7B, 0x22, 0x6E, 0x22, 0x3A, 0x31, 0x7D] := by
  have s1 : scan [0x7B, 0x22, 0x6E, 0x22, 0x3A, 0x31, 0x2E, 0x30, 0x7D] = .ok (.obj [([110], .num [0x31, 0x2E, 0x30])]) := by rfl
  have s2 : scan [0x7B, 0x22, 0x6E, 0x22, 0x3A, 0x31, 0x7D] = .ok (.obj [([110], .num [0x31])]) := by rfl
  have e1 : unmarshalMap cvt [0x7B, 0x22, 0x6E, 0x22, 0x3A, 0x31, 0x2E, 0x30, 0x7D] =
      unmarshalMap cvt [0x7B, 0x22, 0x6E, 0x22, 0x3A, 0x31, 0x7D] := by
    unfold unmarshalMap
    rw [s1, s2]
    simp only [normalize, normalizeM, h]
  unfold newPayload
  rw [e1]
  rfl

/-! ### the digest string determines the digest -/

theorem hexNib_inj (a b : Nat) (ha : a < 16) (hb : b < 16) (h : hexNib a = hexNib b) : a = b := by
  have key : ∀ x : Fin 16, ∀ y : Fin 16, hexNib x.val = hexNib y.val → x = y := by decide
  have := key ⟨a, ha⟩ ⟨b, hb⟩ h
  exact Fin.mk.inj_iff.mp this

theorem hexLower_inj : ∀ (a b : Bytes), hexLower a = hexLower b → a = b
  | [], [], _ => rfl
  | [], _ :: _, h => by simp [hexLower] at h
  | _ :: _, [], h => by simp [hexLower] at h
  | x :: xs, y :: ys, h => by
    simp only [hexLower, List.flatMap_cons, List.cons_append, List.nil_append, List.cons.injEq] at h
    obtain ⟨h1, h2, h3⟩ := h
    have hx := uint8_lt x
    have hy := uint8_lt y
    have a := hexNib_inj _ _ (by omega) (by omega) h1
    have b := hexNib_inj _ _ (Nat.mod_lt _ (by decide)) (Nat.mod_lt _ (by decide)) h2
    have : x.toNat = y.toNat := by omega
    have hxy : x = y := UInt8.toNat_inj.mp this
    subst hxy
    rw [hexLower_inj xs ys h3]

/-- **cosign_payload_binds_digest.**  Payloads for two uploads under one hash algorithm are equal only if the raw digests are
    equal – hence, if the hash does not collide on the two uploads, only if the uploads are the same bytes. -/
theorem cosign_payload_binds_digest (H : Bytes → Bytes) (alg creator : List Nat) (blob blob' : Bytes) (m m' : Option (List Member))
    (hc : ∀ c ∈ creator, isScalar c = true) (ha : ∀ c ∈ alg, isScalar c = true)
    (hm : WFEM isScalar (m.getD [])) (hm' : WFEM isScalar (m'.getD []))
    (hcf : H blob = H blob' → blob = blob')
    (h : payloadBytes creator (fmtDigest alg (H blob)) m = payloadBytes creator (fmtDigest alg (H blob')) m') : blob = blob' := by
  have hs : ∀ (r : Bytes), ∀ c ∈ fmtDigest alg r, isScalar c = true := by
    intro r c hcm
    simp only [fmtDigest, List.mem_append, List.mem_cons] at hcm
    rcases hcm with hcm | rfl | hcm
    · exact ha c hcm
    · decide
    · simp only [hexLower, List.mem_flatMap, List.mem_cons, List.not_mem_nil, or_false] at hcm
      obtain ⟨x, _, hx⟩ := hcm
      have hx8 := uint8_lt x
      have : c < 128 := by
        rcases hx with rfl | rfl <;> (unfold hexNib; split <;> omega)
      exact isScalar_lt c (by omega)
  have e := (cosign_payload_injective_partial creator _ _ m m' hc (hs _) (hs _) hm hm' h).1
  simp only [fmtDigest, List.append_cancel_left_eq, List.cons.injEq, true_and] at e
  exact hcf (hexLower_inj _ _ e)

example : fmtDigest (ascii "sha256") [0xAB, 0x01] = ascii "sha256:ab01" := by decide

end Relic.Props.C02

package c18

// MSI digest ops (token "MSI", kind "dg"), serving C05 (digest order = specification) and C18
// (tar path = direct path, digest ignores the signature streams).
//
//	MSI dg <tag> <file hex> <tree tokens…>
//
// The tree tokens are what lib/comdoc's reader sees in the file (every exported RawDirEnt field, stream
// contents, children in ListDir order); the Lean model Relic.Model.MsiDigest runs on them.  The implementation
// runner re-reads the file, checks that the tree is the one in the op and runs relic's DigestMSI (plain and
// extended), MsiToTar and DigestMsiTar.

import (
	"archive/tar"
	"bufio"
	"bytes"
	"crypto"
	"crypto/sha256"
	"encoding/hex"
	"fmt"
	"io"
	"strings"

	"github.com/sassoftware/relic/v8/lib/authenticode"
	"github.com/sassoftware/relic/v8/lib/comdoc"

	"verifharness/hx"
)

func dumpNode(cdf *comdoc.ComDoc, e *comdoc.DirEnt, sb *strings.Builder) error {
	slots := make([]byte, 64)
	for i, u := range e.NameRunes {
		slots[2*i] = byte(u)
		slots[2*i+1] = byte(u >> 8)
	}
	content := []byte(nil)
	var kids []*comdoc.DirEnt
	switch e.Type {
	case comdoc.DirStream:
		r, err := cdf.ReadStream(e)
		if err != nil {
			return err
		}
		content, err = io.ReadAll(r)
		if err != nil {
			return err
		}
	case comdoc.DirStorage, comdoc.DirRoot:
		var err error
		kids, err = cdf.ListDir(e)
		if err != nil {
			return err
		}
	}
	fmt.Fprintf(sb, " %s %d %d %d %d %d %d %s %d %d %d %d %d %s %d", hex.EncodeToString(slots), e.NameLength, e.Type, e.Color,
		uint32(e.LeftChild), uint32(e.RightChild), uint32(e.StorageRoot), hex.EncodeToString(e.UID[:]), e.UserFlags,
		e.CreateTime, e.ModifyTime, uint32(e.NextSector), e.StreamSize, hx.Hex(content), len(kids))
	for _, k := range kids {
		if err := dumpNode(cdf, k, sb); err != nil {
			return err
		}
	}
	return nil
}

func dumpTree(file []byte) (string, error) {
	cdf, err := comdoc.ReadFile(bytes.NewReader(file))
	if err != nil {
		return "", err
	}
	var sb strings.Builder
	if err := dumpNode(cdf, cdf.RootStorage(), &sb); err != nil {
		return "", err
	}
	return sb.String(), nil
}

func msiEmit(w *bufio.Writer, tag string, file []byte) {
	t, err := dumpTree(file)
	if err != nil {
		return // not readable by comdoc: no op (the C18 hist ops cover refusals)
	}
	fmt.Fprintf(w, "MSI dg %s %s%s\n", tag, hx.Hex(file), t)
}

func newRoot(r *hx.Rng) *ent {
	e := &ent{name: units("Root Entry"), storage: true}
	copy(e.clsid[:], r.Bytes(16))
	e.mtime = r.U64()
	if r.Intn(3) == 0 {
		e.state = uint32(r.U64())
	}
	return e
}

func newStream(r *hx.Rng, name []uint16, size int) *ent {
	e := &ent{name: name, data: r.Bytes(size)}
	if r.Intn(3) == 0 {
		e.state = uint32(r.U64())
	}
	if r.Intn(3) == 0 {
		e.ctime, e.mtime = r.U64(), r.U64()
	}
	if r.Intn(8) == 0 {
		copy(e.clsid[:], r.Bytes(16)) // a CLSID on a stream: not hashed
	}
	return e
}

func newStorage(r *hx.Rng, name []uint16) *ent {
	e := &ent{name: name, storage: true}
	copy(e.clsid[:], r.Bytes(16))
	e.ctime, e.mtime = r.U64(), r.U64()
	if r.Intn(3) == 0 {
		e.state = uint32(r.U64())
	}
	return e
}

var msiSizes = []int{0, 1, 2, 63, 64, 65, 200, 4095, 4096, 4097}

// a name from one of the classes the property quantifies over
func anyName(r *hx.Rng, base []uint16) []uint16 {
	switch r.Intn(9) {
	case 0: // proper prefix / extension of an existing name
		if len(base) > 1 && r.Bool() {
			return append([]uint16{}, base[:1+r.Intn(len(base)-1)]...)
		}
		if len(base) < 28 {
			return append(append([]uint16{}, base...), msiName(r, 1+r.Intn(3))...)
		}
	case 6: // surrogates: a valid pair, a lone high, a lone low (utf16.Decode maps the lone ones to U+FFFD)
		return [][]uint16{{0xd83d, 0xde00, 'x'}, {0xd800, 'y'}, {0xdc00}, {'q', 0xdbff}}[r.Intn(4)]
	case 1: // non-ASCII incl. code units >= 0x8000 and lone surrogates' neighbours (no surrogates: see "surr")
		n := 1 + r.Intn(10)
		u := make([]uint16, n)
		for i := range u {
			u[i] = uint16([]int{0x00e9, 0x0416, 0x3042, 0x8000, 0x8001, 0xa000, 0xfffd, 0xffff, 0xe000, 0x00ff, 0x0100, 0x7fff}[r.Intn(12)])
		}
		return u
	case 2: // same high byte, different low byte and vice versa (low byte is compared first)
		return []uint16{uint16(0x4100 + r.Intn(4)), uint16(r.Intn(4)<<8 | 0x41)}
	case 3: // ASCII
		n := 1 + r.Intn(8)
		u := make([]uint16, n)
		for i := range u {
			u[i] = uint16('A' + r.Intn(26))
		}
		return u
	case 4: // boundaries of the MSI-encoded range
		return []uint16{uint16([]int{0x37ff, 0x3800, 0x3801, 0x47ff, 0x4800, 0x483f, 0x4840, 0x4841}[r.Intn(8)]), uint16(0x3800 + r.Intn(0x1041))}
	case 5: // long names (the bound min(NameLength) > 32 code units is reached only beyond 15 units)
		return msiName(r, 16+r.Intn(16))
	}
	return msiName(r, 1+r.Intn(12))
}

func fillDir(r *hx.Rng, parent *ent, n int, depth int, mini bool) {
	seen := map[string]bool{}
	var last []uint16 = units("Ab")
	for i := 0; i < n; i++ {
		nm := anyName(r, last)
		if seen[upperKey(nm)] || len(nm) == 0 || len(nm) > 31 {
			continue
		}
		seen[upperKey(nm)] = true
		last = nm
		if depth < 2 && r.Intn(6) == 0 {
			st := newStorage(r, nm)
			fillDir(r, st, r.Intn(5), depth+1, mini)
			parent.kids = append(parent.kids, st)
			continue
		}
		sz := msiSizes[r.Intn(len(msiSizes))]
		if !mini && sz > 0 && sz < 4096 {
			sz = 0
		}
		parent.kids = append(parent.kids, newStream(r, nm, sz))
	}
}

// MsiGen writes the MSI digest ops.
func MsiGen(w *bufio.Writer, seed uint64, tier string, prop string) {
	r := hx.NewRng(seed ^ 0x4d5349)
	rounds := 40
	if tier == "thorough" {
		rounds = 400
	}
	// 1. the repository's fixtures (functest/packages/dummy.msi)
	for _, fx := range fixtureFiles() {
		msiEmit(w, "fixture", fx)
	}
	// 2. well-formed trees
	for i := 0; i < rounds; i++ {
		shift := []int{9, 12}[r.Intn(2)]
		c := &cfg{shift: shift, root: newRoot(r)}
		n := 1 + r.Intn(10)
		if i%8 == 0 {
			n = 13 + r.Intn(30) // more than 12 siblings: Go's pdqsort leaves its insertion-sort regime
		}
		fillDir(r, c.root, n, 0, true)
		tag := "wf"
		switch r.Intn(5) {
		case 0:
			c.root.kids = append(c.root.kids, newStream(r, units(sigName), []int{1, 700, 4096}[r.Intn(3)]))
			tag = "wf+sig"
		case 1:
			c.root.kids = append(c.root.kids, newStream(r, units(sigName), 900), newStream(r, units(sigExName), 32))
			tag = "wf+sig+ex"
		}
		if r.Intn(4) == 0 {
			c.scatter = true
		}
		msiEmit(w, tag, build(c, r))
	}
	// 3. the same tree with and without signature streams (digest must not change): consecutive ops, same tag suffix
	for i := 0; i < rounds/4; i++ {
		seedT := r.U64()
		var files [3][]byte
		for v := 0; v < 3; v++ {
			rr := hx.NewRng(seedT)
			c := &cfg{shift: 9, root: newRoot(rr)}
			fillDir(rr, c.root, 2+rr.Intn(8), 0, true)
			r2 := hx.NewRng(seedT + uint64(v))
			switch v {
			case 1:
				c.root.kids = append(c.root.kids, newStream(r2, units(sigName), 1+r2.Intn(5000)))
			case 2:
				c.root.kids = append(c.root.kids, newStream(r2, units(sigExName), 32), newStream(r2, units(sigName), 1+r2.Intn(5000)))
			}
			files[v] = build(c, rr)
			msiEmit(w, fmt.Sprintf("sigvar/%d/%d", i, v), files[v])
		}
		fmt.Fprintf(w, "MSI sv sigvar/%d %s %s %s\n", i, hx.Hex(files[0]), hx.Hex(files[1]), hx.Hex(files[2]))
	}
	// 4. outside the hypotheses: names the tar path treats differently, nested signature names, malformed name fields
	special := func(tag string, kids ...*ent) {
		c := &cfg{shift: 9, root: newRoot(r)}
		c.root.kids = kids
		msiEmit(w, tag, build(c, r))
	}
	enc := func(s string) []uint16 { // MSI-encode an even-length [0-9A-Za-z._] string
		idx := func(b byte) uint16 {
			switch {
			case b >= '0' && b <= '9':
				return uint16(b - '0')
			case b >= 'A' && b <= 'Z':
				return uint16(b-'A') + 10
			case b >= 'a' && b <= 'z':
				return uint16(b-'a') + 36
			case b == '.':
				return 62
			}
			return 63
		}
		var out []uint16
		for i := 0; i+1 < len(s); i += 2 {
			out = append(out, 0x3800+idx(s[i])+idx(s[i+1])<<6)
		}
		return out
	}
	// 4a. a stream whose MSI-decoded name is "\x05DigitalSignature" though its stored name is not
	special("tar-encoded-sig", newStream(r, append([]uint16{5}, enc("DigitalSignature")...), 10), newStream(r, units("Plain"), 5))
	// 4b. a stream named "__exmeta"
	special("tar-exmeta-name", newStream(r, units("__exmeta"), 7), newStream(r, units("Plain"), 5))
	// 4c. a signature name below the root
	{
		st := newStorage(r, units("Sub"))
		st.kids = []*ent{newStream(r, units(sigName), 9), newStream(r, units("x"), 3)}
		special("nested-sig", st, newStream(r, units("Plain"), 5))
	}
	// 4d. a storage carrying a signature name
	{
		st := newStorage(r, units(sigName))
		st.kids = []*ent{newStream(r, units("x"), 3)}
		special("sig-storage", st, newStream(r, units("Plain"), 5))
	}
	// 4e. garbage after the terminator (never looked at for distinct names)
	for i := 0; i < 6; i++ {
		a := newStream(r, msiName(r, 3), 10)
		b := newStream(r, append(append([]uint16{}, a.name...), msiName(r, 1+r.Intn(3))...), 10)
		a.pad = []uint16{uint16(r.U64()) | 1, uint16(r.U64()) | 1, uint16(r.U64())}
		b.pad = []uint16{uint16(r.U64()) | 1, uint16(r.U64())}
		special("padding", a, b, newStream(r, msiName(r, 5), 3))
	}
	// 4f. NameLength field inconsistent with the name: prehashMsiDirent slices enc[:NameLength-2]
	for _, nl := range []int{0x10000, 1, 2, 3, 5, 40, 64, 66, 100, 130, 131, 132, 200, 0xffff} {
		a := newStream(r, msiName(r, 4), 10)
		a.nlOverride = nl
		special(fmt.Sprintf("namelen/%d", nl&0xffff), a, newStream(r, msiName(r, 5), 3))
	}
	// 4g. identical name arrays: sortMsiFiles indexes NameRunes[k] with k up to min(NameLength)-1
	for _, nl := range []int{30, 32, 34, 64, 66} {
		nm := msiName(r, 20)
		a, b := newStream(r, nm, 4), newStream(r, nm, 6)
		a.nlOverride, b.nlOverride = nl, nl
		special(fmt.Sprintf("dup/%d", nl), a, b, newStream(r, msiName(r, 5), 3))
	}
	// identical arrays, different NameLength: the only inputs on which the final `a.NameLength > b.NameLength` decides
	for _, nls := range [][2]int{{30, 32}, {32, 30}, {20, 32}, {32, 64}, {64, 32}, {10, 12}} {
		nm := msiName(r, 20)
		a, b := newStream(r, nm, 4), newStream(r, nm, 6)
		a.nlOverride, b.nlOverride = nls[0], nls[1]
		special(fmt.Sprintf("dupmix/%d-%d", nls[0], nls[1]), a, b, newStream(r, msiName(r, 5), 3))
	}
	{
		nm := msiName(r, 16) // a duplicate name of 16 units with its honest NameLength 34: the smallest trigger
		special("dup/honest16", newStream(r, nm, 4), newStream(r, nm, 6))
		nm = msiName(r, 15) // 15 units, NameLength 32: no panic
		special("dup/honest15", newStream(r, nm, 4), newStream(r, nm, 6))
		nm = msiName(r, 32) // 32 units, no terminator in the array
		a, b := newStream(r, nm, 4), newStream(r, append(append([]uint16{}, nm[:31]...), nm[31]^1), 6)
		special("full32", a, b)
		// many siblings and one duplicate pair: Go's pdqsort regime
		var ks []*ent
		for i := 0; i < 20; i++ {
			ks = append(ks, newStream(r, msiName(r, 17+i%5), 2))
		}
		d := msiName(r, 18)
		ks = append(ks, newStream(r, d, 1), newStream(r, d, 2))
		special("dup/many", ks...)
	}
	// 4h. embedded NUL: "a" and "a\0b" (the specification's "longer wins" would apply)
	{
		a := newStream(r, []uint16{'a'}, 3)
		b := newStream(r, []uint16{'a', 0, 'b'}, 4)
		special("embedded-nul", a, b)
	}
}

func classifyPanic(v interface{}) string {
	s := fmt.Sprint(v)
	switch {
	case strings.Contains(s, "index out of range [32] with length 32"):
		return "panic:sortMsiFiles"
	case strings.Contains(s, "slice bounds out of range") && strings.Contains(s, "capacity 128"):
		return "panic:prehashMsiDirent"
	}
	return "panic:other:" + strings.ReplaceAll(s, " ", "_")
}

func guarded(f func() string) (res string) {
	defer func() {
		if r := recover(); r != nil {
			res = classifyPanic(r)
		}
	}()
	return f()
}

func nameDots(s string) string {
	var parts []string
	for _, c := range s {
		parts = append(parts, fmt.Sprint(int(c)))
	}
	if len(parts) == 0 {
		return "."
	}
	return strings.Join(parts, ".")
}

// MsiHandle runs one MSI op on the real code.  fields: dg <tag> <file hex> <tree…>
func MsiHandle(f []string) string {
	if len(f) == 5 && f[0] == "sv" {
		return msiSigVar(f[2:])
	}
	if len(f) < 4 || f[0] != "dg" {
		return "bad-op"
	}
	file := hx.MustUnHex(f[2])
	tree, err := dumpTree(file)
	if err != nil {
		return "err:read"
	}
	opTree := " " + strings.Join(f[3:], " ")
	th := sha256.Sum256([]byte(opTree))
	if tree != opTree {
		return "err:tree-differs-from-op"
	}
	open := func() *comdoc.ComDoc {
		cdf, err := comdoc.ReadFile(bytes.NewReader(file))
		if err != nil {
			panic(err)
		}
		return cdf
	}
	var pre string
	plain := guarded(func() string {
		cdf := open()
		defer cdf.Close()
		d, _, err := authenticode.DigestMSI(cdf, crypto.SHA256, false)
		if err != nil {
			return "err"
		}
		return hex.EncodeToString(d)
	})
	ext := guarded(func() string {
		cdf := open()
		defer cdf.Close()
		d, ph, err := authenticode.DigestMSI(cdf, crypto.SHA256, true)
		if err != nil {
			return "err"
		}
		pre = hex.EncodeToString(ph)
		return hex.EncodeToString(d)
	})
	if pre == "" {
		pre = ext // the panic / error class
	}
	var tarBytes []byte
	tarStatus := guarded(func() string {
		cdf := open()
		defer cdf.Close()
		var buf bytes.Buffer
		if err := authenticode.MsiToTar(cdf, &buf); err != nil {
			if strings.Contains(err.Error(), "cannot be represented in the tar form") {
				return "err:tar-name" // checkMsiTarNames: a reserved tar name in the root storage
			}
			return "err:" + strings.ReplaceAll(err.Error(), " ", "_")
		}
		tarBytes = buf.Bytes()
		return ""
	})
	members, tarPlain, tarExt := tarStatus, tarStatus, tarStatus
	if tarStatus == "" {
		var ms []string
		tr := tar.NewReader(bytes.NewReader(tarBytes))
		for {
			hdr, err := tr.Next()
			if err == io.EOF {
				break
			}
			if err != nil {
				ms = append(ms, "err")
				break
			}
			c, _ := io.ReadAll(tr)
			h := sha256.Sum256(c)
			ms = append(ms, nameDots(hdr.Name)+":"+hex.EncodeToString(h[:]))
		}
		members = strings.Join(ms, ",")
		if members == "" {
			members = "-"
		}
		dt := func(e bool) string {
			return guarded(func() string {
				d, err := authenticode.DigestMsiTar(bytes.NewReader(tarBytes), crypto.SHA256, e)
				if err != nil {
					return "err"
				}
				return hex.EncodeToString(d)
			})
		}
		tarPlain, tarExt = dt(false), dt(true)
	}
	return fmt.Sprintf("ok tree=%s plain=%s ext=%s pre=%s members=%s tarplain=%s tarext=%s", hex.EncodeToString(th[:8]), plain, ext, pre,
		members, tarPlain, tarExt)
}

// the digests of the three files (no signature stream / signature / signature + extended signature) must coincide
func msiSigVar(files []string) string {
	var first string
	for i, fh := range files {
		file := hx.MustUnHex(fh)
		cur := guarded(func() string {
			var parts []string
			for _, e := range []bool{false, true} {
				cdf, err := comdoc.ReadFile(bytes.NewReader(file))
				if err != nil {
					return "err:read"
				}
				d, ph, err := authenticode.DigestMSI(cdf, crypto.SHA256, e)
				if err != nil {
					return "err:digest"
				}
				parts = append(parts, hex.EncodeToString(d), hex.EncodeToString(ph))
			}
			return strings.Join(parts, "/")
		})
		if i == 0 {
			first = cur
		} else if cur != first {
			return fmt.Sprintf("ok differ:%d:%s:%s", i, first, cur)
		}
	}
	return "ok same"
}

module extractmagic

go 1.22

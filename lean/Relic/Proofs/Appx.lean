/-
  Lemmas about `Relic.Model.Appx`:
  * `hashMember_raw` — what `blockMap.AddFile` feeds to AXPC for a member (local header re-encoded from the parsed
    struct, the data extent, the descriptor) is byte for byte the member's extent in the file;
  * `payloadPass_spec` — after the payload loop AXPC holds exactly `z[0, pos)`, `outz.DirLoc = pos`, and the entries
    given to `AddFile` are the input's entries untouched (same offsets, raw bytes kept);
  * `chunks_flatten` — the 64 KiB blocks of the block map, concatenated, are the contents.
-/
import Relic.Model.Appx
import Relic.Proofs.ZipRewrite
namespace Relic.Appx
open Relic Relic.Zip

/-! ### codecs -/

theorem leBytes_leVal : ∀ (x : Bytes), leBytes x.length (leVal x) = x
  | [] => rfl
  | b :: bs => by
    have hb : b.toNat < 256 := b.toNat_lt
    have h1 : (b.toNat + 256 * leVal bs) % 256 = b.toNat := by omega
    have h2 : (b.toNat + 256 * leVal bs) / 256 = leVal bs := by omega
    simp only [leVal, List.length_cons, leBytes, h1, h2, leBytes_leVal bs]
    simp

theorem fld_enc (b : Bytes) (off w : Nat) (h : off + w ≤ b.length) :
    leBytes w (fld b off w) = (b.drop off).take w := by
  have hl : ((b.drop off).take w).length = w := by simp; omega
  have := leBytes_leVal ((b.drop off).take w)
  rw [hl] at this
  exact this

theorem take_glue (b : Bytes) (i a c : Nat) :
    (b.drop i).take a ++ (b.drop (i + a)).take c = (b.drop i).take (a + c) := by
  rw [List.take_add, List.drop_drop]

theorem take_drop_glue (z : Bytes) (p t : Nat) : z.take p ++ (z.drop p).take t = z.take (p + t) := by
  rw [List.take_add]

/-- re-encoding the parsed local header gives back the 30 bytes that were read -/
theorem encLfh_parse (b name extra : Bytes) (hl : b.length = 30) (hs : fld b 0 4 = sigFile) :
    encLfh { reader := fld b 4 2, flags := fld b 6 2, method := fld b 8 2, mtime := fld b 10 2, mdate := fld b 12 2,
             crc := fld b 14 4, csize := fld b 18 4, usize := fld b 22 4, nameLen := fld b 26 2, extraLen := fld b 28 2,
             name := name, extra := extra } = b := by
  unfold encLfh
  simp only []
  rw [← hs]
  rw [fld_enc b 0 4 (by omega), fld_enc b 4 2 (by omega), fld_enc b 6 2 (by omega), fld_enc b 8 2 (by omega),
      fld_enc b 10 2 (by omega), fld_enc b 12 2 (by omega), fld_enc b 14 4 (by omega), fld_enc b 18 4 (by omega),
      fld_enc b 22 4 (by omega), fld_enc b 26 2 (by omega), fld_enc b 28 2 (by omega)]
  have g := take_glue b
  rw [g 0 4 2, g 0 6 2, g 0 8 2, g 0 10 2, g 0 12 2, g 0 14 4, g 0 18 4, g 0 22 4, g 0 26 2, g 0 28 2]
  simp
  exact List.take_of_length_le (by omega)

theorem encLfh_len (l : Lfh) : (encLfh l).length = 30 := encLfh_length l

/-! ### the forward reader -/

theorem readAt_stream {r r' : Rd} {off n : Nat} {x : Bytes} (hs : r.stream = true) (h : r.readAt off n = .ok (x, r')) :
    x = (r.z.drop off).take n ∧ off + n ≤ r.z.length ∧ r'.z = r.z ∧ r'.stream = true := by
  unfold Rd.readAt at h
  rw [hs] at h
  simp only [if_true] at h
  split at h
  · cases h
  · split at h
    · cases h
    · split at h
      · injection h with h
        injection h with h1 h2
        subst h1; subst h2
        simp [*]
      · cases h

theorem readFullAt_stream {r r' : Rd} {off n : Nat} {x : Bytes} (hs : r.stream = true) (h : r.readFullAt off n = .ok (x, r')) :
    x = (r.z.drop off).take n ∧ x.length = n ∧ r'.z = r.z ∧ r'.stream = true := by
  unfold Rd.readFullAt at h
  split at h
  · injection h with h
    injection h with h1 h2
    subst h1; subst h2
    simp [*]
  · obtain ⟨h1, h2, h3, h4⟩ := readAt_stream hs h
    refine ⟨h1, ?_, h3, h4⟩
    rw [h1]; simp; omega

/-- `readLocalHeader` in the forward pass: the parsed header re-encodes to the bytes at the member's offset -/
theorem readLocalHeader_bytes {r r' : Rd} {f : File} {l : Lfh} (hs : r.stream = true) (hf : f.lfh = none)
    (h : readLocalHeader r f = .ok (l, r')) :
    encLfh l ++ l.name ++ l.extra = (r.z.drop f.offset).take (30 + l.name.length + l.extra.length) ∧
    l.nameLen = l.name.length ∧ l.extraLen = l.extra.length ∧ r'.z = r.z ∧ r'.stream = true := by
  unfold readLocalHeader at h
  rw [hf] at h
  simp only [] at h
  split at h
  next b r1 h1 =>
    split at h
    · cases h
    next hsig =>
      split at h
      next name r2 h2 =>
        split at h
        next extra r3 h3 =>
          injection h with h
          injection h with hl hr
          subst hl; subst hr
          obtain ⟨b1, b2, b3, b4⟩ := readFullAt_stream hs h1
          have hs1 : r1.stream = true := b4
          obtain ⟨n1, n2, n3, n4⟩ := readFullAt_stream hs1 h2
          have hs2 : r2.stream = true := n4
          obtain ⟨e1, e2, e3, e4⟩ := readFullAt_stream hs2 h3
          simp only []
          have hsig' : fld b 0 4 = sigFile := by
            by_cases hh : fld b 0 4 = sigFile
            · exact hh
            · exact absurd hh hsig
          rw [encLfh_parse b name extra b2 hsig']
          refine ⟨?_, n2.symm, e2.symm, by rw [e3, n3, b3], e4⟩
          rw [n2, e2]
          generalize fld b 26 2 = N at *
          generalize fld b 28 2 = E at *
          rw [b1, n1, e1, n3, b3]
          rw [take_glue, Nat.add_assoc f.offset 30, take_glue]
        all_goals cases h
      all_goals cases h
  all_goals cases h

/-- `readDataDesc` in the forward pass: the descriptor kept is the bytes right after the data extent -/
theorem readDataDesc_bytes {r r' : Rd} {f : File} {l : Lfh} {ddb : Bytes} {crc : Nat} (hs : r.stream = true) (hf : f.ddb = [])
    (h : readDataDesc r f l = .ok (ddb, crc, r')) :
    ddb = (r.z.drop (f.offset + (30 + l.name.length + l.extra.length) + f.csize)).take ddb.length ∧
    r'.z = r.z ∧ r'.stream = true := by
  unfold readDataDesc at h
  split at h
  · injection h with h
    injection h with h1 h2
    injection h2 with h2 h3
    subst h1; subst h3
    simp [hs]
  · split at h
    next hne => exact absurd hf hne
    · simp only [] at h
      split at h
      next d16 r1 h1 =>
        obtain ⟨a1, a2, a3, a4⟩ := readAt_stream hs h1
        split at h
        · cases h
        · split at h
          · split at h
            next d8 r2 h2 =>
              obtain ⟨c1, c2, c3, c4⟩ := readAt_stream a4 h2
              split at h
              · cases h
              · injection h with h
                injection h with h1' h2'
                injection h2' with h2' h3'
                subst h1'; subst h3'
                refine ⟨?_, by rw [c3, a3], c4⟩
                have l16 : d16.length = 16 := by rw [a1]; simp; omega
                have l8 : d8.length = 8 := by rw [c1]; simp; omega
                rw [List.length_append, l16, l8, a1, c1, a3, take_glue]
            all_goals cases h
          · injection h with h
            injection h with h1' h2'
            injection h2' with h2' h3'
            subst h1'; subst h3'
            refine ⟨?_, a3, a4⟩
            have l16 : d16.length = 16 := by rw [a1]; simp; omega
            rw [l16]; exact a1
      all_goals cases h

/-- a directory entry as `ReadWithDirectory` makes it: nothing read from the member yet -/
def Fresh (f : File) : Prop := f.lfh = none ∧ f.ddb = []

/-- **hashMember_raw.** What is written to AXPC for a member is the member's extent, as measured by `GetTotalSize`. -/
theorem hashMember_raw {c : Codec} {r r' : Rd} {f : File} {h : Hashed} (hs : r.stream = true) (hf : Fresh f)
    (hh : hashMember c r f = .ok (h, r')) :
    h.raw = (r.z.drop f.offset).take h.m.total ∧ r'.z = r.z ∧ r'.stream = true ∧
    h.m.file = { f with crc := h.m.file.crc, lfh := some h.m.lfh, ddb := h.m.file.ddb } ∧
    h.plain.length = f.usize ∧ f.offset + h.m.total ≤ r.z.length ∧
    contentOf c f.method ((r.z.drop h.m.dataOff).take f.csize) = .ok h.plain := by
  unfold hashMember at hh
  split at hh
  next l r1 h1 =>
    obtain ⟨k1, k2, k3, k4, k5⟩ := readLocalHeader_bytes hs hf.1 h1
    split at hh
    · cases hh
    · simp only [] at hh
      split at hh
      next data r2 h2 =>
        have hd : data = (r.z.drop (f.offset + 30 + l.nameLen + l.extraLen)).take f.csize ∧ r2.z = r.z ∧ r2.stream = true ∧
            data.length = f.csize := by
          split at h2
          next hz =>
            injection h2 with h2
            injection h2 with e1 e2
            subst e1; subst e2
            simp [hz, k4, k5]
          · obtain ⟨q1, q2, q3, q4⟩ := readAt_stream k5 h2
            refine ⟨by rw [q1, k4], by rw [q3, k4], q4, ?_⟩
            rw [q1]; simp; omega
        obtain ⟨d1, d2, d3, d4⟩ := hd
        split at hh
        next plain hp =>
          split at hh
          · cases hh
          next hlen =>
            split at hh
            next ddb crc r3 h3 =>
              obtain ⟨g1, g2, g3⟩ := readDataDesc_bytes d3 hf.2 h3
              injection hh with hh
              injection hh with e1 e2
              subst e1; subst e2
              simp only []
              have hraw : encLfh l ++ l.name ++ l.extra ++ data ++ ddb =
                  (r.z.drop f.offset).take (30 + (l.name.length + l.extra.length + ddb.length) + f.csize) := ?_
              refine ⟨hraw, by rw [g2, d2], g3, trivial, ?_, ?_, ?_⟩
              rotate_left 3
              · generalize hD : ddb.length = D at g1 ⊢
                rw [k1, d1, k2, k3, g1, d2]
                have e1 : f.offset + 30 + l.name.length + l.extra.length = f.offset + (30 + l.name.length + l.extra.length) := by omega
                have e2 : 30 + (l.name.length + l.extra.length + D) + f.csize = (30 + l.name.length + l.extra.length) + f.csize + D := by omega
                have e3 : f.offset + (30 + l.name.length + l.extra.length) + f.csize = f.offset + ((30 + l.name.length + l.extra.length) + f.csize) := by omega
                rw [e1, e2, e3, take_glue, take_glue]
              · by_cases hq : plain.length = f.usize
                · exact hq
                · exact absurd hq hlen
              · have hlen2 := congrArg List.length hraw
                simp only [List.length_append, encLfh_len, List.length_take, List.length_drop, d4] at hlen2
                omega
              · rw [← d1]; exact hp
            all_goals cases hh
        all_goals cases hh
      all_goals cases hh
  all_goals cases hh

/-! ### the payload loop -/

/-- the entry `AddFile` receives for a member whose offset equals the running position: the input's entry, its raw
    bytes kept, with the descriptor's CRC and the cached local header -/
theorem addFile_same (d : Directory) (f : File) (t : Nat) (h : f.offset = d.dirLoc) :
    addFile d f t = { d with dirLoc := d.dirLoc + t, files := d.files ++ [f] } := by
  unfold addFile
  simp [h]
  cases f
  simp_all

/-- invariant of the payload loop -/
structure PInv (z : Bytes) (s : PState) : Prop where
  axpc : s.axpc = z.take s.pos
  loc : s.outz.dirLoc = s.pos
  files : s.outz.files = s.members.map (·.file)
  le : s.pos ≤ z.length

theorem payloadPass_spec {c : Codec} {z : Bytes} : ∀ (fs : List File) (r r' : Rd) (s s' : PState),
    r.stream = true → r.z = z → (∀ f ∈ fs, Fresh f) → PInv z s →
    payloadPass c r fs s = .ok (s', r') →
    PInv z s' ∧ r'.stream = true ∧ r'.z = z ∧ s'.hasPE = (s.hasPE || fs.any fun f => isPE f.name) ∧
    s'.members.length = s.members.length + fs.length ∧
    s'.members.map (·.file.name) = s.members.map (·.file.name) ++ fs.map (·.name) ∧
    contigMs s.pos (s'.members.drop s.members.length) s'.pos := by
  intro fs
  induction fs with
  | nil =>
    intro r r' s s' hs hz _ hi h
    unfold payloadPass at h
    injection h with h
    injection h with h1 h2
    subst h1; subst h2
    simp [hs, hz, hi, contigMs]
  | cons f fs ih =>
    intro r r' s s' hs hz hfr hi h
    unfold payloadPass at h
    split at h
    next hd r1 h1 =>
      obtain ⟨a1, a2, a3, a4, _, a6, _⟩ := hashMember_raw hs (hfr f (by simp)) h1
      split at h
      · cases h
      · split at h
        · cases h
        next hpos =>
          have hoff : f.offset = s.pos := by
            by_cases hq : f.offset = s.pos
            · exact hq
            · exact absurd hq hpos
          have hmo : hd.m.file.offset = s.pos := by rw [a4]; exact hoff
          have hi' : PInv z (s.step c f hd) := by
            refine ⟨?_, ?_, ?_, ?_⟩
            rotate_left 3
            · simp only [PState.step]
              rw [← hoff, ← hz]; exact a6
            · simp only [PState.step]
              rw [hi.axpc, a1, hz, hoff, take_drop_glue]
            · simp only [PState.step]
              rw [addFile_same _ _ _ (by rw [hi.loc]; exact hmo)]
              simp [hi.loc]
            · simp only [PState.step]
              rw [addFile_same _ _ _ (by rw [hi.loc]; exact hmo)]
              simp [hi.files]
          obtain ⟨b1, b2, b3, b4, b5, b6, b7⟩ := ih r1 r' (s.step c f hd) s' a3 (by rw [a2, hz]) (fun g hg => hfr g (by simp [hg])) hi' h
          refine ⟨b1, b2, b3, ?_, ?_, ?_, ?_⟩
          · rw [b4]; simp [PState.step, Bool.or_assoc]
          · rw [b5]; simp [PState.step]; omega
          · rw [b6]; simp [PState.step]
            rw [a4]
          · have hl : (s.step c f hd).members.length = s.members.length + 1 := by simp [PState.step]
            rw [hl] at b7
            have hsplit : s'.members.drop s.members.length = hd.m :: s'.members.drop (s.members.length + 1) := by
              have hm : s'.members.length = s.members.length + 1 + fs.length := by rw [b5, hl]
              have hpre : s'.members.take (s.members.length + 1) = s.members ++ [hd.m] := by
                -- the loop only appends to `members`
                have := payloadPass_members_prefix (c := c) fs r1 r' (s.step c f hd) s' h
                simpa [PState.step] using this
              have : s'.members = (s.members ++ [hd.m]) ++ s'.members.drop (s.members.length + 1) := by
                rw [← hpre, List.take_append_drop]
              conv => lhs; rw [this]
              simp [List.drop_append]
            rw [hsplit]
            exact ⟨hmo, by simpa [PState.step] using b7⟩
    all_goals cases h
where
  payloadPass_members_prefix {c : Codec} : ∀ (fs : List File) (r r' : Rd) (s s' : PState),
      payloadPass c r fs s = .ok (s', r') → s'.members.take s.members.length = s.members := by
    intro fs
    induction fs with
    | nil =>
      intro r r' s s' h
      unfold payloadPass at h
      injection h with h
      injection h with h1 h2
      subst h1
      simp
    | cons f fs ih =>
      intro r r' s s' h
      unfold payloadPass at h
      split at h
      next hd r1 h1 =>
        split at h
        · cases h
        · split at h
          · cases h
          · have := ih r1 r' (s.step c f hd) s' h
            have h2 : (s.step c f hd).members = s.members ++ [hd.m] := by simp [PState.step]
            rw [h2] at this
            have h3 : s'.members.take s.members.length = (s'.members.take (s.members ++ [hd.m]).length).take s.members.length := by
              rw [List.take_take]; simp
            rw [h3, this]; simp
      all_goals cases h

/-! ### blocks -/

theorem chunks_flatten : ∀ (n : Nat) (b : Bytes), b.length ≤ n → (chunks n b).flatten = b
  | 0, b, h => by
    have : b = [] := List.eq_nil_of_length_eq_zero (by omega)
    subst this; rfl
  | n + 1, [], _ => rfl
  | n + 1, x :: xs, h => by
    unfold chunks
    simp only [List.flatten_cons]
    rw [chunks_flatten n ((x :: xs).drop blockSize) (by simp [blockSize]; simp at h; omega)]
    exact List.take_append_drop _ _

theorem blocksOf_flatten (p : Bytes) : ((blocksOf p).map (·.1)).flatten = p := by
  unfold blocksOf
  simp only [List.map_map]
  have : ((fun x : Bytes × Nat => x.1) ∘ fun c : Bytes => (c, 0)) = id := by funext c; rfl
  rw [this, List.map_id]
  exact chunks_flatten _ _ (Nat.le_refl _)

end Relic.Appx

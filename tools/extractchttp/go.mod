module extractchttp

go 1.22

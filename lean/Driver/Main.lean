/- relic_driver: one operation per input line, one canonical result per output line -/
import Relic.Driver.C12
import Relic.Driver.PE
import Relic.Driver.C20
open Relic

def dispatch (line : String) : String :=
  match words line with
  | "C12" :: rest => Relic.Driver.C12.handle rest
  | "PE" :: rest => Relic.Driver.PE.handle rest
  | "C20" :: rest => Relic.Driver.C20.handle rest
  | _ => "bad-op"

partial def loop (h : IO.FS.Stream) (out : IO.FS.Stream) : IO Unit := do
  let line ← h.getLine
  if line.isEmpty then return ()
  out.putStrLn (dispatch line)
  loop h out

def main : IO Unit := do
  let out ← IO.getStdout
  loop (← IO.getStdin) out
  out.flush

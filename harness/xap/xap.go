// Package xap: generator and implementation runner for the XAP (Silverlight) model
// (lib/signxap/{sign,verify,structs}.go, lib/zipslicer/tarzip.go, signers/xap, signers/zipbased).
//
// Op lines (first token XAP):
//
//	XAP digest <tar> <end>                         signxap.DigestXapTar on a tar built from the member list
//	XAP sign <tar> <end> <desc> <url> <s>          DigestXapTar + XapDigest.Sign (fixed RSA key): imprint, patch
//	XAP roundtrip <zip> <desc> <url> <s> <tab>     signer module "xap": transform, sign, apply; then Verify on the output
//	XAP history <zip> <desc:s,…>                   signing rounds through the signer module, each on the output of the one before
//	XAP frame <file>                               signxap.SignatureFrameSize (through removeSignature / DigestXapTar)
//	XAP verify <file> <size|-> <skip> <tab>        signxap.Verify through a recording ReaderAt (and, for '-', the signer's verify on a file)
//	XAP mutate <signed> <tab> <n> <pos:byte>…      C02: single-byte mutants of a really signed file against the real Verify
//
// <tar> = namehex:size:datahex,… (data shorter than size only in the last member = truncated stream); <end> = eof (two zero
// blocks), eof0 (nothing), cut (a partial header).  <tab> = len:sha256(blob):imprint,… – which blobs are real signatures and
// over which SHA-256 imprint (computed by the generator with the real code; used by the python side only).
package xap

import (
	"archive/tar"
	"bufio"
	"bytes"
	"context"
	"crypto"
	"crypto/sha256"
	"crypto/x509"
	"encoding/binary"
	"encoding/hex"
	"encoding/pem"
	"errors"
	"fmt"
	"io"
	"math"
	"os"
	"strconv"
	"strings"
	"sync"

	"github.com/sassoftware/relic/v8/lib/authenticode"
	"github.com/sassoftware/relic/v8/lib/binpatch"
	"github.com/sassoftware/relic/v8/lib/certloader"
	"github.com/sassoftware/relic/v8/lib/signxap"
	"github.com/sassoftware/relic/v8/lib/zipslicer"
	"github.com/sassoftware/relic/v8/signers"
	"github.com/sassoftware/relic/v8/signers/sigerrors"

	"verifharness/c17"
	"verifharness/hx"
	"verifharness/pe"
	"verifharness/sg"
)

const trailerMagic = 0x53706158

var (
	certOnce sync.Once
	fixed    *certloader.Certificate
)

// FixedCert returns the deterministic signing identity (see key.go).
func FixedCert() *certloader.Certificate {
	certOnce.Do(func() {
		kb, _ := pem.Decode([]byte(fixedKeyPEM))
		cb, _ := pem.Decode([]byte(fixedCertPEM))
		key, err := x509.ParsePKCS8PrivateKey(kb.Bytes)
		if err != nil {
			panic(err)
		}
		leaf, err := x509.ParseCertificate(cb.Bytes)
		if err != nil {
			panic(err)
		}
		fixed = &certloader.Certificate{Leaf: leaf, Certificates: []*x509.Certificate{leaf}, PrivateKey: key.(crypto.Signer), KeyName: "verif-xap-fixed"}
	})
	return fixed
}

// ---- tar framing ----------------------------------------------------------------------------------------------------

type member struct {
	name string
	size int64
	data []byte
}

func tarSpec(ms []member) string {
	if len(ms) == 0 {
		return "-"
	}
	var parts []string
	for _, m := range ms {
		parts = append(parts, fmt.Sprintf("%s:%d:%s", hx.Hex([]byte(m.name)), m.size, hx.Hex(m.data)))
	}
	return strings.Join(parts, ",")
}

func parseTarSpec(s string) []member {
	if s == "-" {
		return nil
	}
	var ms []member
	for _, item := range strings.Split(s, ",") {
		p := strings.Split(item, ":")
		if len(p) != 3 {
			panic("bad tar spec")
		}
		ms = append(ms, member{string(hx.MustUnHex(p[0])), hx.Atoi(p[1]), hx.MustUnHex(p[2])})
	}
	return ms
}

func hdrBlock(name string, size int64) []byte {
	var b bytes.Buffer
	tw := tar.NewWriter(&b)
	if err := tw.WriteHeader(&tar.Header{Name: name, Mode: 0644, Size: size}); err != nil {
		panic(err)
	}
	return b.Bytes()[:512]
}

// buildTar serialises the member list; a member whose data is shorter than its size ends the stream.
func buildTar(ms []member, end string) []byte {
	var b bytes.Buffer
	for _, m := range ms {
		b.Write(hdrBlock(m.name, m.size))
		b.Write(m.data)
		if int64(len(m.data)) < m.size {
			return b.Bytes()
		}
		if pad := (512 - len(m.data)%512) % 512; pad > 0 {
			b.Write(make([]byte, pad))
		}
	}
	switch end {
	case "eof":
		b.Write(make([]byte, 1024))
	case "cut":
		b.Write(hdrBlock("next", 5)[:100])
	}
	return b.Bytes()
}

func framing(z []byte, dirLoc int) []member {
	return []member{{zipslicer.TarMemberCD, int64(len(z) - dirLoc), z[dirLoc:]}, {zipslicer.TarMemberZip, int64(len(z)), z}}
}

// ---- the real code --------------------------------------------------------------------------------------------------

func classify(err error) string {
	if err == nil {
		return "ok"
	}
	s := err.Error()
	var ns sigerrors.NotSignedError
	switch {
	case strings.Contains(s, "invalid tarzip"):
		return "invalid-tarzip"
	case strings.Contains(s, "zip central directory not found"), strings.Contains(s, "expected ZIP64 locator"):
		return "transform-" + c17.Classify(err)
	case strings.Contains(s, "reading tar:") && strings.Contains(s, "negative offset"):
		return "transform-io"
	case strings.Contains(s, "reading tar:"):
		return "tar"
	case errors.As(err, &ns):
		return "notsigned"
	case strings.Contains(s, "invalid xap file"):
		return "invalid"
	case strings.Contains(s, "digest mismatch"):
		return "mismatch"
	case strings.Contains(s, "invalid signature"), strings.Contains(s, "pkcs7:"), strings.Contains(s, "pkcs9:"), strings.Contains(s, "asn1:"):
		return "badsig"
	case strings.Contains(s, "negative offset"):
		return "negoff"
	case errors.Is(err, io.ErrUnexpectedEOF):
		return "unexpectedeof"
	case errors.Is(err, io.EOF):
		return "eof"
	}
	return "other:" + strings.ReplaceAll(s, " ", "_")
}

// classifyT: errors of the signer-module path; whatever the transform goroutine reports reaches the signer through the
// tar reader ("reading tar: …")
func classifyT(err error) string {
	if err != nil && strings.Contains(err.Error(), "reading tar:") {
		c := c17.Classify(err)
		if strings.HasPrefix(c, "other:") && strings.Contains(c, "negative") {
			c = "tarsize"
		}
		return "transform-" + c
	}
	return classify(err)
}

func panicSite(v interface{}) string {
	return "other:" + strings.ReplaceAll(fmt.Sprint(v), " ", "_")
}

func opus(desc, url string) *authenticode.OpusParams {
	return &authenticode.OpusParams{Description: desc, URL: url}
}

// digestSign: real DigestXapTar and, when it succeeds, real XapDigest.Sign with the fixed key
func digestSign(tarBytes []byte, desc, url string, sign bool) (d *signxap.XapDigest, patch *binpatch.PatchSet, raw []byte, err error) {
	d, err = signxap.DigestXapTar(bytes.NewReader(tarBytes), crypto.SHA256, false)
	if err != nil || !sign {
		return d, nil, nil, err
	}
	p, ts, err := d.Sign(context.Background(), FixedCert(), opus(desc, url))
	if err != nil {
		return d, nil, nil, err
	}
	return d, p, ts.Raw, nil
}

// genDigestSign: digestSign for the generator – a panic of the code under test must not kill the generator; it becomes an
// error here and the op is emitted all the same, so that the implementation run reproduces the panic on a replayable op
func genDigestSign(tarBytes []byte, desc, url string) (d *signxap.XapDigest, patch *binpatch.PatchSet, raw []byte, err error) {
	defer func() {
		if v := recover(); v != nil {
			err = fmt.Errorf("panic in the code under test: %v", v)
		}
	}()
	return digestSign(tarBytes, desc, url, true)
}

func patchString(p *binpatch.PatchSet) string {
	var parts []string
	for i, h := range p.Patches {
		parts = append(parts, fmt.Sprintf("%d:%d:%s", h.Offset, h.OldSize, hx.Hex(p.Blobs[i])))
	}
	return strings.Join(parts, ",")
}

// realTar: the stream the xap signer's own transform produces for a file (GetTransform, GetReader, drained)
func realTar(z []byte) ([]byte, error) {
	dir, err := os.MkdirTemp("", "vh-xap-")
	if err != nil {
		return nil, err
	}
	defer os.RemoveAll(dir)
	p := dir + "/in.xap"
	if err := os.WriteFile(p, z, 0o644); err != nil {
		return nil, err
	}
	f, err := os.Open(p)
	if err != nil {
		return nil, err
	}
	defer f.Close()
	mod := signers.ByName("xap")
	if mod == nil {
		return nil, errors.New("no xap signer")
	}
	tr, err := mod.GetTransform(f, signers.SignOpts{Path: p, Hash: crypto.SHA256})
	if err != nil {
		return nil, err
	}
	r, err := tr.GetReader()
	if err != nil {
		return nil, err
	}
	return io.ReadAll(r)
}

// signModule: the signer module "xap" end to end (GetTransform, GetReader, Sign, Apply) with the fixed key
func signModule(z []byte, desc, url string) ([]byte, error) {
	dir, err := os.MkdirTemp("", "vh-xap-")
	if err != nil {
		return nil, err
	}
	defer os.RemoveAll(dir)
	in, out := dir+"/in.xap", dir+"/out.xap"
	if err := os.WriteFile(in, z, 0o644); err != nil {
		return nil, err
	}
	flags := map[string]string{}
	if desc != "" {
		flags["description"] = desc
	}
	if url != "" {
		flags["desc-url"] = url
	}
	if err := sg.Sign("xap", in, out, FixedCert(), crypto.SHA256, flags); err != nil {
		// a refusal must leave nothing behind
		if _, e := os.Stat(out); e == nil {
			return nil, fmt.Errorf("dirty-output: %w", err)
		}
		if now, _ := os.ReadFile(in); !bytes.Equal(now, z) {
			return nil, fmt.Errorf("dirty-input: %w", err)
		}
		return nil, err
	}
	return os.ReadFile(out)
}

// fileVerify: the signer's verify() on a real file
func fileVerify(g []byte, skip bool) error {
	dir, err := os.MkdirTemp("", "vh-xap-")
	if err != nil {
		return err
	}
	defer os.RemoveAll(dir)
	p := dir + "/v.xap"
	if err := os.WriteFile(p, g, 0o644); err != nil {
		return err
	}
	_, err = sg.Verify("xap", p, FixedCert(), skip)
	return err
}

type rd struct {
	off  int64
	want int
	got  int
}

type recReader struct {
	r   io.ReaderAt
	log []rd
}

func (x *recReader) ReadAt(p []byte, off int64) (int, error) {
	n, err := x.r.ReadAt(p, off)
	x.log = append(x.log, rd{off, len(p), n})
	return n, err
}

// verifyRec runs the real Verify over a ReaderAt that records every read: the third read (after the 10-byte trailer and the
// 8-byte header) is the blob, everything after it is the digest pass.
func verifyRec(f []byte, size int64, skip bool) (res string) {
	rr := &recReader{r: bytes.NewReader(f)}
	defer func() {
		if v := recover(); v != nil {
			res = "panic " + panicSite(v)
		}
	}()
	_, err := signxap.Verify(rr, size, skip)
	cls := classify(err)
	located := len(rr.log) >= 3 && rr.log[0].want == 10 && rr.log[1].want == 8
	if !located {
		return "err " + cls
	}
	blob := rr.log[2]
	if blob.got < blob.want {
		return "err " + cls
	}
	out := fmt.Sprintf("loc %d %d %s", blob.off, blob.want, cls)
	if len(rr.log) > 3 {
		pos := int64(0)
		contiguous := true
		for _, r := range rr.log[3:] {
			if r.off != pos {
				contiguous = false
			}
			pos += int64(r.got)
		}
		if contiguous {
			out += fmt.Sprintf(" hashed=%d", pos)
		} else {
			out += " hashed=noncontiguous"
		}
	}
	return out
}

// ---- generator ------------------------------------------------------------------------------------------------------

func le32(v uint32) []byte { b := make([]byte, 4); binary.LittleEndian.PutUint32(b, v); return b }
func le16(v uint16) []byte { b := make([]byte, 2); binary.LittleEndian.PutUint16(b, v); return b }

func hdrBytes(u1, u2 uint16, n uint32) []byte {
	return append(append(le16(u1), le16(u2)...), le32(n)...)
}

func trailerBytes(magic uint32, u uint16, t uint32) []byte {
	return append(append(le32(magic), le16(u)...), le32(t)...)
}

func sigBlock(s []byte) []byte {
	b := hdrBytes(1, 1, uint32(len(s)))
	b = append(b, s...)
	return append(b, trailerBytes(trailerMagic, 1, uint32(len(s)+8))...)
}

const alphabet = "abcdefghijklmnopqrstuvwxyz0123456789-_."

func randText(r *hx.Rng, n int) string {
	b := make([]byte, n)
	for i := range b {
		b[i] = alphabet[r.Intn(len(alphabet))]
	}
	return string(b)
}

// smallZip: a real ZIP from the harness-owned raw writer; returns the bytes and the offset of the central directory
func smallZip(r *hx.Rng, z64 bool) []byte {
	var a c17.RawArchive
	for k := r.Pick(0, 1, 1, 1, 1, 2, 2, 3); k > 0; k-- {
		m := c17.RawMember{Name: []byte(randText(r, r.Pick(1, 3, 8, 20))), Data: r.Bytes(r.Pick(0, 1, 5, 16, 40, 120))}
		if r.Intn(3) == 0 {
			m.Deflate, m.Level = true, 6
			for i := range m.Data {
				m.Data[i] = "silverlight "[i%12]
			}
		}
		if r.Intn(4) == 0 {
			m.Desc, m.DescSig = 16, true
		}
		if r.Intn(6) == 0 {
			m.Comment = r.Bytes(r.Pick(1, 4))
		}
		a.Members = append(a.Members, m)
	}
	if z64 {
		a.Z64 = r.Pick(1, 2, 3, 4)
	}
	return a.Build()
}

func dirLocOf(z []byte) (int, error) {
	loc, err := zipslicer.FindDirectory(bytes.NewReader(z), int64(len(z)))
	if err != nil {
		return 0, err
	}
	if loc < 0 || loc > int64(len(z)) {
		return 0, errors.New("directory offset outside the file")
	}
	return int(loc), nil
}

// lookalike: set the EOCD's "size of central directory" to the trailer magic: the last ten bytes of the file now parse as an
// xapTrailer whose TrailerSize is (CDOffset >> 16) | CommentLen << 16
func lookalike(z []byte) []byte {
	g := append([]byte{}, z...)
	if len(g) >= 22 {
		binary.LittleEndian.PutUint32(g[len(g)-10:], trailerMagic)
	}
	return g
}

type sigTab struct{ entries []string }

func (t *sigTab) add(s, imprint []byte) {
	h := sha256.Sum256(s)
	e := fmt.Sprintf("%d:%s:%s", len(s), hex.EncodeToString(h[:]), hex.EncodeToString(imprint))
	for _, x := range t.entries {
		if x == e {
			return
		}
	}
	t.entries = append(t.entries, e)
}

func (t *sigTab) String() string {
	if len(t.entries) == 0 {
		return "-"
	}
	return strings.Join(t.entries, ",")
}

// signedReal: one lib-level round with the fixed key on (z, dirLoc): the signed bytes, the PKCS#7 blob and the imprint
func signedReal(z []byte, dirLoc int, desc, url string) (out, raw, imprint []byte, err error) {
	d, p, raw, err := genDigestSign(buildTar(framing(z, dirLoc), "eof"), desc, url)
	if err != nil {
		return nil, nil, nil, err
	}
	imprint = append([]byte{}, d.Imprint...)
	out = pe.ApplyMem(z, p)
	if out == nil {
		return nil, nil, nil, errors.New("apply")
	}
	return out, raw, imprint, nil
}

func genDigestOps(w *bufio.Writer, r *hx.Rng, n int, withSign bool) {
	for i := 0; i < n; i++ {
		z := smallZip(r, r.Intn(8) == 0)
		loc, err := dirLocOf(z)
		if err != nil {
			loc = len(z) - min(len(z), 22)
		}
		body, cd := z[:loc], append([]byte{}, z[loc:]...)
		ms := framing(z, loc)
		end := "eof"
		withTrailer := func(t uint32) []byte {
			return append(append([]byte{}, cd...), trailerBytes(trailerMagic, uint16(r.Pick(0, 1, 1, 0xffff)), t)...)
		}
		setCD := func(c []byte) {
			full := append(append([]byte{}, body...), c...)
			ms = []member{{zipslicer.TarMemberCD, int64(len(c)), c}, {zipslicer.TarMemberZip, int64(len(full)), full}}
		}
		switch v := r.Intn(20); v {
		case 0, 1: // faithful framing of an unsigned zip
		case 2, 3: // already signed once or twice (fake blob): a consistent header + blob + trailer after the EOCD
			c := append(append([]byte{}, cd...), sigBlock(r.Bytes(r.Pick(0, 1, 8, 9, 100)))...)
			if r.Bool() {
				c = append(c, sigBlock(r.Bytes(r.Pick(1, 30)))...)
			}
			setCD(c)
		case 4, 5, 6: // trailer look-alikes: TrailerSize around every comparison
			n0 := len(cd)
			t := []uint32{0, 1, 7, 8, 9, uint32(n0), uint32(n0 - 1), uint32(n0 + 1), uint32(n0 + 9), uint32(n0 + 10), uint32(n0 + 11), uint32(n0 - 10),
				0x7fffffff, 0x80000000, 0xfffffff5, 0xfffffff6, 0xffffffff}[r.Intn(17)]
			setCD(withTrailer(t))
		case 7: // magic off by one bit / shifted by one byte
			c := withTrailer(uint32(r.Pick(0, 8, 20)))
			if r.Bool() {
				c[len(c)-10+r.Intn(4)] ^= byte(1 << uint(r.Intn(8)))
			} else {
				c = append(c, 0)
			}
			setCD(c)
		case 8: // directory member shorter than a trailer
			k := r.Intn(11)
			c := trailerBytes(trailerMagic, 1, uint32(r.Pick(0, 1, 2)))[10-min(k, 10):]
			if k == 10 && r.Bool() {
				c = trailerBytes(trailerMagic, 1, 0)
			}
			setCD(c)
		case 9: // no directory member / two of them / zip member first
			switch r.Intn(4) {
			case 0:
				ms = ms[1:]
			case 1:
				other := withTrailer(uint32(r.Pick(0, 4)))
				ms = []member{{zipslicer.TarMemberCD, int64(len(other)), other}, ms[0], ms[1]}
			case 2:
				ms = []member{ms[1], ms[0]}
			default:
				ms = []member{ms[0]}
			}
		case 10: // other members before / between; near-miss names
			nm := []string{"other", "zipdir.bin2", "./zipdir.bin", "ZIPDIR.BIN", "contents.zip.", "x/contents.zip"}[r.Intn(6)]
			extra := member{nm, int64(r.Pick(0, 5, 600)), nil}
			extra.data = r.Bytes(int(extra.size))
			if r.Bool() {
				ms = []member{extra, ms[0], ms[1]}
			} else {
				ms = []member{ms[0], extra, ms[1]}
			}
		case 11: // directory member longer than the zip member (bodySize negative)
			c := withTrailer(uint32(r.Pick(0, 3, len(cd))))
			short := z[:r.Intn(min(len(z), len(c)))]
			ms = []member{{zipslicer.TarMemberCD, int64(len(c)), c}, {zipslicer.TarMemberZip, int64(len(short)), short}}
		case 12: // directory member that is not the tail of the zip member
			c := r.Bytes(r.Pick(10, 22, 40))
			if r.Bool() {
				c = append(c, trailerBytes(trailerMagic, 1, uint32(r.Pick(0, 5)))...)
			}
			ms = []member{{zipslicer.TarMemberCD, int64(len(c)), c}, ms[1]}
		case 13, 14: // truncated stream
			switch r.Intn(4) {
			case 0: // inside the zip member, around bodySize
				k := loc + r.Pick(-2, -1, 0, 1, len(cd)-1)
				if k < 0 {
					k = 0
				}
				ms[1].data = z[:min(k, len(z))]
			case 1: // inside the directory member
				if len(cd) > 0 {
					ms = []member{{zipslicer.TarMemberCD, int64(len(cd)), cd[:r.Intn(len(cd))]}}
				}
			case 2:
				end = "cut"
				if r.Bool() {
					ms = ms[:1]
				}
			default: // an unrelated member cut short
				ms = []member{{"other", 700, r.Bytes(r.Intn(700))}}
			}
		case 15:
			end = []string{"eof0", "cut", "eof"}[r.Intn(3)]
			if r.Bool() {
				ms = ms[:r.Intn(2)]
			}
		case 16: // declared size of the zip member larger than what follows
			ms[1].size += int64(r.Pick(1, 512, 100000))
		default:
			if r.Bool() {
				setCD(append(append([]byte{}, cd...), sigBlock(r.Bytes(r.Pick(1, 64)))...))
			}
		}
		spec := tarSpec(ms)
		if !withSign || r.Intn(3) == 0 {
			fmt.Fprintf(w, "XAP digest %s %s\n", spec, end)
			continue
		}
		desc, url := randText(r, r.Pick(0, 0, 1, 10, 40, 130)), ""
		if r.Intn(4) == 0 {
			url = "http://" + randText(r, r.Pick(3, 20)) + "/"
		}
		_, _, raw, err := genDigestSign(buildTar(ms, end), desc, url)
		if err != nil {
			fmt.Fprintf(w, "XAP digest %s %s\n", spec, end)
			continue
		}
		fmt.Fprintf(w, "XAP sign %s %s %s %s %s\n", spec, end, hx.Hex([]byte(desc)), hx.Hex([]byte(url)), hx.Hex(raw))
	}
}

func genZip(r *hx.Rng) (z []byte, kind string) {
	z = smallZip(r, r.Intn(7) == 0)
	switch r.Intn(14) {
	case 0: // archive comment: FindDirectory looks at the last 22 bytes only
		var a c17.RawArchive
		a.Members = []c17.RawMember{{Name: []byte("a"), Data: r.Bytes(5)}}
		a.Comment = r.Bytes(r.Pick(1, 2, 22))
		return a.Build(), "comment"
	case 1:
		return lookalike(z), "lookalike"
	case 2: // shorter than the 42-byte window
		var a c17.RawArchive
		return a.Build(), "tiny"
	case 3: // directory offset beyond the end of the file
		g := append([]byte{}, z...)
		binary.LittleEndian.PutUint32(g[len(g)-6:], uint32(len(g)+r.Pick(1, 100)))
		return g, "offbeyond"
	case 4: // directory offset pointing into the middle of the body / to 0
		g := append([]byte{}, z...)
		loc, err := dirLocOf(z)
		if err == nil && loc > 0 {
			binary.LittleEndian.PutUint32(g[len(g)-6:], uint32(r.Intn(loc)))
		}
		return g, "offearly"
	}
	return z, "plain"
}

// RoundtripOp builds the op line for one file: the PKCS#7 blob and its imprint come from the real code (fixed key).
func RoundtripOp(z []byte, desc, url string) string {
	var tab sigTab
	raw := []byte(nil)
	if t, err := realTar(z); err == nil {
		if d, _, s, err := genDigestSign(t, desc, url); err == nil {
			raw = s
			tab.add(s, d.Imprint)
		}
	}
	return fmt.Sprintf("XAP roundtrip %s %s %s %s %s", hx.Hex(z), hx.Hex([]byte(desc)), hx.Hex([]byte(url)), hx.Hex(raw), tab.String())
}

func genRoundtrips(w *bufio.Writer, r *hx.Rng, n int) {
	for i := 0; i < n; i++ {
		z, _ := genZip(r)
		if r.Intn(6) == 0 { // already signed (foreign blob): the transform has to look in front of the frame
			z = append(append([]byte{}, z...), sigBlock(r.Bytes(r.Pick(0, 1, 12, 13, 100)))...)
		}
		desc, url := randText(r, r.Pick(0, 0, 1, 7, 8, 9, 60, 200)), ""
		if r.Intn(4) == 0 {
			url = "http://" + randText(r, r.Pick(3, 20)) + "/"
		}
		fmt.Fprintln(w, RoundtripOp(z, desc, url))
	}
}

func genHistories(w *bufio.Writer, r *hx.Rng, n, maxRounds int) {
	for i := 0; i < n; i++ {
		z, _ := genZip(r)
		loc, err := dirLocOf(z)
		if err != nil {
			continue
		}
		if r.Intn(4) == 0 { // an input that already carries a (foreign) signature frame, or two
			z = append(append([]byte{}, z...), sigBlock(r.Bytes(r.Pick(0, 1, 12, 100)))...)
			if r.Intn(3) == 0 {
				z = append(z, sigBlock(r.Bytes(r.Pick(1, 30)))...)
			}
		}
		g := z
		var parts []string
		rounds := 2 + r.Intn(maxRounds-1)
		for k := 0; k < rounds; k++ {
			desc := randText(r, r.Pick(0, 1, 5, 33, 90))
			out, raw, _, err := signedReal(g, loc, desc, "")
			if err != nil {
				break
			}
			parts = append(parts, hx.Hex([]byte(desc))+":"+hx.Hex(raw))
			g = out
		}
		if len(parts) > 0 {
			fmt.Fprintf(w, "XAP history %s %s\n", hx.Hex(z), strings.Join(parts, ","))
		}
	}
}

// a really signed small XAP (lib level), its blob and table
func genSigned(r *hx.Rng) (z, g, raw []byte, tab *sigTab, ok bool) {
	z = smallZip(r, false)
	loc, err := dirLocOf(z)
	if err != nil {
		return nil, nil, nil, nil, false
	}
	g, raw, imprint, err := signedReal(z, loc, randText(r, r.Pick(0, 3, 12)), "")
	if err != nil {
		return nil, nil, nil, nil, false
	}
	tab = &sigTab{}
	tab.add(raw, imprint)
	return z, g, raw, tab, true
}

func genVerifies(w *bufio.Writer, r *hx.Rng, n int, malformedOnly bool) {
	for i := 0; i < n; i++ {
		z, g, raw, tab, ok := genSigned(r)
		if !ok {
			continue
		}
		f := g
		size := "-"
		frame := func(base, blob []byte, u1, u2, u3 uint16, n, t uint32) []byte {
			out := append(append([]byte{}, base...), hdrBytes(u1, u2, n)...)
			out = append(out, blob...)
			return append(out, trailerBytes(trailerMagic, u3, t)...)
		}
		v := r.Intn(30)
		if malformedOnly && v < 4 {
			v += 4
		}
		switch v {
		case 0, 1: // as signed
		case 2: // unsigned input: the EOCD test
			f = z
		case 3: // skip digests on a file whose content was changed
			f = append([]byte{}, g...)
			if len(z) > 0 {
				f[r.Intn(len(z))] ^= 1
			}
			fmt.Fprintf(w, "XAP verify %s - 1 %s\n", hx.Hex(f), tab)
		case 4: // appended bytes
			f = append(append([]byte{}, g...), r.Bytes(r.Pick(1, 2, 9, 10, 11, 22, 40))...)
		case 5: // appended bytes that end in a second, consistent frame: the hashed range grows over the first signature
			f = frame(g, raw, 1, 1, 1, uint32(len(raw)), uint32(len(raw)+8))
		case 6: // a frame whose trailer spans the first signature and junk: blob = s ++ trailer ++ junk
			junk := r.Bytes(r.Pick(0, 1, 8))
			inner := append(append(append([]byte{}, raw...), trailerBytes(trailerMagic, 1, uint32(len(raw)+8))...), junk...)
			f = frame(z, inner, 1, 1, 1, uint32(len(inner)), uint32(len(inner)+8))
		case 7: // zero padding between the blob and the trailer (pkcs7.Unmarshal tolerates trailing NULs)
			k := r.Pick(1, 2, 7, 8, 100)
			f = frame(z, append(append([]byte{}, raw...), make([]byte, k)...), 1, 1, 1, uint32(len(raw)+k), uint32(len(raw)+k+8))
		case 8: // non-zero padding
			f = frame(z, append(append([]byte{}, raw...), 0, 1), 1, 1, 1, uint32(len(raw)+2), uint32(len(raw)+10))
		case 9: // the three Unknown fields
			f = frame(z, raw, uint16(r.Pick(0, 1, 2, 0xffff)), uint16(r.Pick(0, 1, 2, 0xffff)), uint16(r.Pick(0, 2, 0xffff)), uint32(len(raw)), uint32(len(raw)+8))
		case 10: // SignatureSize / TrailerSize off by a little, one or both
			d := uint32(r.Pick(-9, -8, -1, 1, 8))
			switch r.Intn(3) {
			case 0:
				f = frame(z, raw, 1, 1, 1, uint32(len(raw))+d, uint32(len(raw)+8))
			case 1:
				f = frame(z, raw, 1, 1, 1, uint32(len(raw)), uint32(len(raw)+8)+d)
			default:
				f = frame(z, raw, 1, 1, 1, uint32(len(raw))+d, uint32(len(raw)+8)+d)
			}
		case 11: // bytes inserted between the zip and the header / removed from the end of the zip
			if r.Bool() {
				f = frame(append(append([]byte{}, z...), r.Bytes(r.Pick(1, 8, 22))...), raw, 1, 1, 1, uint32(len(raw)), uint32(len(raw)+8))
			} else {
				f = frame(z[:len(z)-min(len(z), r.Pick(1, 2, 22))], raw, 1, 1, 1, uint32(len(raw)), uint32(len(raw)+8))
			}
		case 12: // truncations of the signed file
			f = g[:len(g)-min(len(g), r.Pick(1, 4, 9, 10, 11, 18, len(raw)+17, len(raw)+18, len(raw)+19))]
		case 13: // a trailer alone on short / empty prefixes: TrailerSize < 8 wraps in `TrailerSize-8`; size goes negative
			t := uint32(r.Pick(0, 1, 2, 3, 4, 5, 6, 7, 8, 9, 10, 12, 0x7fffffff, 0x80000000, 0xfffffff6, 0xffffffff))
			pre := r.Bytes(r.Pick(0, 1, 7, 8, 9, 12, 18, 30))
			if r.Bool() { // make the bytes in front of the trailer read as a header with SignatureSize = TrailerSize-8 (mod 2^32)
				pre = append(pre, hdrBytes(1, 1, t-8)...)
				if t >= 8 && t < 64 {
					pre = append(pre, r.Bytes(int(t-8))...)
				}
			}
			f = append(pre, trailerBytes(trailerMagic, 1, t)...)
		case 14: // wrap attempt: header bytes chosen so that SignatureSize = 2^32-8+T for T < 8, placed where Verify will look
			t := uint32(r.Intn(8))
			pre := bytes.Repeat([]byte{0xff}, r.Pick(0, 5, 20))
			if r.Bool() {
				pre = append(pre, hdrBytes(1, 1, t-8)...)
			}
			f = append(pre, trailerBytes(trailerMagic, uint16(r.Pick(1, 0xffff, 0xfff8+int(t))), t)...)
		case 15: // explicit sizes around the length of the file and at the int64 extremes
			sz := []int64{0, 1, 9, 10, 11, 21, 22, 23, int64(len(g)) - 1, int64(len(g)) + 1, int64(len(g)) + 9, int64(len(g)) + 10, int64(len(g)) + 11, -1, -10, -22,
				math.MinInt64, math.MinInt64 + 9, math.MinInt64 + 10, math.MinInt64 + 21, math.MinInt64 + 22, math.MaxInt64, math.MaxInt64 - 9, 1 << 32, 1<<32 + int64(len(g))}
			size = strconv.FormatInt(sz[r.Intn(len(sz))], 10)
		case 16: // size = end of an inner prefix that happens to be a whole signed file followed by more bytes
			f = append(append([]byte{}, g...), r.Bytes(r.Pick(1, 30))...)
			size = strconv.Itoa(len(g))
		case 17: // short files of every length 0..23 (size-10 / size-22 negative)
			f = r.Bytes(r.Intn(24))
			if len(f) >= 10 && r.Bool() {
				copy(f[len(f)-10:], trailerBytes(trailerMagic, 1, uint32(r.Pick(0, 8, len(f)-10, len(f)-9))))
			}
		case 18: // EOCD magic at size-22 but not a trailer; or neither
			f = append(r.Bytes(r.Pick(0, 3, 40)), z[len(z)-22:]...)
			if r.Bool() {
				f[len(f)-22] ^= 0x10
			}
		case 19: // a fake (non PKCS#7) blob, consistent framing, many sizes
			blob := r.Bytes(r.Pick(0, 1, 2, 7, 8, 9, 10, 18, 255, 256, 1000))
			f = frame(z, blob, 1, 1, 1, uint32(len(blob)), uint32(len(blob)+8))
		case 20: // one flipped byte in the content (bytes inside the blob are the PKCS#7 layer's business: see the mutate ops)
			f = append([]byte{}, g...)
			if len(z) > 0 {
				f[r.Intn(len(z))] ^= byte(1 << uint(r.Intn(8)))
			}
		case 21: // TrailerSize pointing before the start of the file
			f = append([]byte{}, g...)
			binary.LittleEndian.PutUint32(f[len(f)-4:], uint32(len(f)-10+r.Pick(0, 1, 2, 100)))
		case 22: // the signature of another file
			_, g2, raw2, tab2, ok2 := genSigned(r)
			if ok2 {
				_ = g2
				f = frame(z, raw2, 1, 1, 1, uint32(len(raw2)), uint32(len(raw2)+8))
				tab.entries = append(tab.entries, tab2.entries...)
			}
		default:
			if r.Bool() {
				f = z
			}
		}
		skip := "0"
		if r.Intn(10) == 0 {
			skip = "1"
		}
		fmt.Fprintf(w, "XAP verify %s %s %s %s\n", hx.Hex(f), size, skip, tab)
		if size == "-" && r.Intn(2) == 0 {
			fmt.Fprintf(w, "XAP frame %s\n", hx.Hex(f))
		}
	}
}

func genMutations(w *bufio.Writer, r *hx.Rng, files, per int) {
	for i := 0; i < files; i++ {
		z, g, raw, tab, ok := genSigned(r)
		if !ok {
			continue
		}
		n := len(z)
		var pos []int
		for q := n - 24; q < n+10; q++ { // the EOCD, the header and the first bytes of the blob
			pos = append(pos, q)
		}
		for q := len(g) - 14; q < len(g); q++ { // the end of the blob and the trailer
			pos = append(pos, q)
		}
		pos = append(pos, 0, 1, n/2)
		for len(pos) < per {
			if r.Intn(3) == 0 {
				pos = append(pos, n+8+r.Intn(len(raw)))
			} else {
				pos = append(pos, r.Intn(len(g)))
			}
		}
		var sb strings.Builder
		cnt := 0
		for _, q := range pos {
			if q < 0 || q >= len(g) {
				continue
			}
			nb := g[q] ^ byte(1<<uint(r.Intn(8)))
			if r.Intn(4) == 0 {
				nb = byte(r.U64())
			}
			fmt.Fprintf(&sb, " %d:%d", q, nb)
			cnt++
		}
		fmt.Fprintf(w, "XAP mutate %s %s %d%s\n", hx.Hex(g), tab, cnt, sb.String())
	}
}

// Gen writes the XAP ops for one property.
func Gen(w *bufio.Writer, seed uint64, tier string, prop string) {
	r := hx.NewRng(seed ^ 0x584150)
	k := 1
	if tier == "thorough" {
		k = 12
	}
	switch prop {
	case "C02":
		genMutations(w, r, 5*k, 150)
		genVerifies(w, r, 140*k, false)
	case "C11":
		genVerifies(w, r, 260*k, true)
		genDigestOps(w, r, 160*k, false)
	case "C08":
		genHistories(w, r, 40*k, 4)
		genRoundtrips(w, r, 14*k)
		genDigestOps(w, r, 60*k, true)
	case "C03":
		genRoundtrips(w, r, 40*k)
		genDigestOps(w, r, 120*k, true)
		genHistories(w, r, 8*k, 3)
	default: // C01
		genRoundtrips(w, r, 40*k)
		genDigestOps(w, r, 100*k, true)
		genHistories(w, r, 10*k, 3)
		genVerifies(w, r, 60*k, false)
	}
}

// ---- implementation runner ------------------------------------------------------------------------------------------

func u(s string) string { return string(hx.MustUnHex(s)) }

// Handle runs one op on the real code.
func Handle(f []string) (res string) {
	defer func() {
		if v := recover(); v != nil {
			res = "panic " + panicSite(v)
		}
	}()
	switch f[0] {
	case "digest", "sign":
		sign := f[0] == "sign"
		desc, url := "", ""
		if sign {
			desc, url = u(f[3]), u(f[4])
		}
		d, p, _, err := digestSign(buildTar(parseTarSpec(f[1]), f[2]), desc, url, sign)
		if err != nil {
			return "err " + classify(err)
		}
		out := fmt.Sprintf("ok imprint=%s start=%d len=%d", hex.EncodeToString(d.Imprint), d.PatchStart, d.PatchLen)
		if sign {
			out += " patch=" + patchString(p)
		}
		return out
	case "roundtrip":
		z := hx.MustUnHex(f[1])
		out, err := signModule(z, u(f[2]), u(f[3]))
		if err != nil {
			if strings.Contains(err.Error(), "dirty-") {
				return "err dirty " + classifyT(err)
			}
			return "err " + classifyT(err)
		}
		v := verifyRec(out, int64(len(out)), false)
		// the signer's own verify() on the file must say the same
		fe := fileVerify(out, false)
		if (fe == nil) != strings.Contains(v, " ok") {
			v += " split-file:" + classify(fe)
		}
		return fmt.Sprintf("ok out=%s V %s", hx.Hex(out), v)
	case "history":
		// every round through the signer module (transform, sign, apply); the imprint of each round is observed by digesting
		// the transform's own stream
		z := hx.MustUnHex(f[1])
		var descs []string
		for _, item := range strings.Split(f[2], ",") {
			descs = append(descs, u(strings.SplitN(item, ":", 2)[0]))
		}
		g := z
		same := true
		var first []byte
		for k, desc := range descs {
			t, err := realTar(g)
			if err != nil {
				return fmt.Sprintf("err round%d-%s", k+1, classifyT(fmt.Errorf("reading tar: %w", err)))
			}
			d, err := signxap.DigestXapTar(bytes.NewReader(t), crypto.SHA256, false)
			if err != nil {
				return fmt.Sprintf("err round%d-%s", k+1, classify(err))
			}
			if k == 0 {
				first = append([]byte{}, d.Imprint...)
			} else if !bytes.Equal(first, d.Imprint) {
				same = false
			}
			out, err := signModule(g, desc, "")
			if err != nil {
				return fmt.Sprintf("err round%d-%s", k+1, classifyT(err))
			}
			g = out
		}
		repl := "direct-failed"
		if direct, err := signModule(z, descs[len(descs)-1], ""); err == nil {
			repl = "not-replaced"
			if bytes.Equal(direct, g) {
				repl = "replaced"
			}
		}
		tcls := "ok"
		if _, err := realTar(g); err != nil {
			tcls = strings.TrimPrefix(classifyT(fmt.Errorf("reading tar: %w", err)), "transform-")
		}
		ds := "same"
		if !same {
			ds = "changed"
		}
		return fmt.Sprintf("ok out=%s digests=%s %s t=%s", hx.Hex(g), ds, repl, tcls)
	case "frame":
		// SignatureFrameSize through removeSignature: on a tar whose directory member and zip member are both the given bytes,
		// PatchLen is the number of bytes removeSignature cut off
		g := hx.MustUnHex(f[1])
		d, err := signxap.DigestXapTar(bytes.NewReader(buildTar(framing(g, 0), "eof")), crypto.SHA256, false)
		if err != nil {
			return "err " + classify(err)
		}
		return fmt.Sprintf("ok %d", d.PatchLen)
	case "verify":
		g := hx.MustUnHex(f[1])
		size := int64(len(g))
		if f[2] != "-" {
			size = hx.Atoi(f[2])
		}
		v := verifyRec(g, size, f[3] == "1")
		if f[2] == "-" {
			fe := fileVerify(g, f[3] == "1")
			if (fe == nil) != strings.Contains(v, " ok") {
				v += " split-file:" + classify(fe)
			}
		}
		return v
	case "mutate":
		g := hx.MustUnHex(f[1])
		var out []string
		for _, m := range f[4:] {
			parts := strings.SplitN(m, ":", 2)
			pos, nb := int(hx.Atoi(parts[0])), byte(hx.Atoi(parts[1]))
			if g[pos] == nb {
				out = append(out, "same")
				continue
			}
			h := append([]byte{}, g...)
			h[pos] = nb
			out = append(out, func() (r string) {
				defer func() {
					if v := recover(); v != nil {
						r = "panic:" + panicSite(v)
					}
				}()
				if _, err := signxap.Verify(bytes.NewReader(h), int64(len(h)), false); err != nil {
					return "fail"
				}
				return "pass"
			}())
		}
		return "ok " + strings.Join(out, " ")
	}
	return "bad-op"
}

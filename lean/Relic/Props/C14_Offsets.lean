/-
  C14 / C09 — the upload transform's goroutine and Apply use the same *os.File.  A consumer may stop reading before the
  stream ends (the XAP digester never reads the directory part of the second tar member; any digester with nothing left
  to read returns while the producer's final read is still to come), after which the caller rewinds the file and copies
  it in Apply.  If the goroutine reads through the file OFFSET, its read can run between Apply's seek and Apply's
  reads: Apply then copies from the wrong position (F28 for dmg / mach-o, F51 for every zip-based type).
  * `positional_noninterference`: in the offset model below, a thread that only performs positional reads never changes
    what the other thread's seek/read sequence observes, for EVERY interleaving.
  * `offset_reader_interferes`: one offset-using read in the other thread and an interleaving exists where Apply reads
    other bytes.
  * `transform_goroutines_positional_generated`: the four producer functions, re-extracted from the Go source on every
    run (tools/extractlocks), only use the shared file positionally.
-/
import Relic.Base.Bytes
import Relic.Model.LockSpan
import Relic.Generated.Locks
namespace Relic.Props.C14
open Relic Relic.LockSpan

namespace Offset

/-- file operations of one descriptor shared by two threads -/
inductive Op
  | seek (n : Nat)            -- absolute seek
  | read (k : Nat)            -- read k bytes at the offset, advance it
  | readAt (off k : Nat)      -- positional read: the offset is not involved
  deriving Repr, DecidableEq

def Op.isPositional : Op → Bool
  | .readAt _ _ => true
  | _ => false

/-- one step: new offset and the bytes returned -/
def step (file : Bytes) (off : Nat) : Op → Nat × Bytes
  | .seek n => (n, [])
  | .read k => (off + k, (file.drop off).take k)
  | .readAt o k => (off, (file.drop o).take k)

/-- what thread `true` (Apply) observes along a schedule of (thread, op) pairs -/
def obs (file : Bytes) : Nat → List (Bool × Op) → List Bytes
  | _, [] => []
  | off, (t, op) :: rest =>
    let (off', data) := step file off op
    if t then data :: obs file off' rest else obs file off' rest

end Offset

open Offset in
/-- **positional_noninterference.** -/
theorem positional_noninterference (file : Bytes) (sched : List (Bool × Offset.Op)) (off : Nat)
    (h : ∀ x ∈ sched, x.1 = false → x.2.isPositional = true) :
    obs file off sched = obs file off (sched.filter (·.1)) := by
  induction sched generalizing off with
  | nil => rfl
  | cons x rest ih =>
    obtain ⟨t, op⟩ := x
    have hr : ∀ y ∈ rest, y.1 = false → y.2.isPositional = true := fun y hy => h y (List.mem_cons_of_mem _ hy)
    cases t with
    | true =>
      simp only [obs, List.filter_cons_of_pos]
      simp [ih _ hr]
    | false =>
      have hp := h (false, op) (by simp) rfl
      cases op with
      | readAt o k => simp [obs, step, ih _ hr]
      | seek n => simp [Op.isPositional] at hp
      | read k => simp [Op.isPositional] at hp

open Offset in
/-- **offset_reader_interferes.**  Apply seeks to 0 and reads 2 bytes; the producer's offset-using read in between makes it
    read the NEXT two bytes. -/
theorem offset_reader_interferes :
    obs [1, 2, 3, 4] 0 [(true, .seek 0), (false, .read 2), (true, .read 2)] = [[], [3, 4]] ∧
    obs [1, 2, 3, 4] 0 [(true, .seek 0), (true, .read 2)] = [[], [1, 2]] := by decide

/-- generated obligation: every use the producer functions make of the shared file is positional -/
theorem transform_goroutines_positional_generated :
    positional Generated.Locks.zipToTar = true ∧ positional Generated.Locks.dmgSend = true ∧
    positional Generated.Locks.machoSend = true ∧ positional Generated.Locks.xapWriteTar = true := by decide

/-- the check discriminates: ZipToTar as it was (Seek to the directory, Seek to 0, the file handed to tarAddStream) -/
def zipToTarOrig : FileUse :=
  { name := "ZipToTar"
    methods := [("Seek", "0, io.SeekEnd"), ("Seek", "dirLoc, 0"), ("Seek", "0, 0")]
    passedTo := ["FindDirectory", "tarAddStream", "tarAddStream"]
    escapes := [] }
def sendOrig : FileUse :=
  { name := "send"
    methods := [("Seek", "0, io.SeekEnd"), ("Seek", "0, 0")]
    passedTo := ["io.Copy"]
    escapes := [] }
example : positional zipToTarOrig = false ∧ positional sendOrig = false := by decide

end Relic.Props.C14

/-
  Relic.Proofs.ZipWrite — from a readable input to the pieces of a rewritten archive: the directory entry and
  the bytes a kept member contributes (`kept_pm`), the measured member list of an input (`MeasuredL`), the
  kept segment of an output (`kept_segment`) and the added segment (`news_segment`).
-/
import Relic.Proofs.ZipKept
import Relic.Proofs.ZipRewrite
namespace Relic.Zip
open Relic Relic.SpecZip

/-- the central record a standard reader decodes for a kept member re-emitted at offset `o`: the original
    record if the member did not move (raw re-emission), the synthesised one otherwise -/
def keptEntry (e : Entry) (f' : File) (o : Nat) : Entry := if e.hoff = o then e else synthEntry f'

theorem kept_pm {z : Bytes} {a : Archive} {sm : SpecZip.Member} {e : Entry} {at_ lim o : Nat} {m : Member} {l : Lfh} {ddb : Bytes}
    (hmo : memberOf z a.ends.cdOff e = some sm) (hcdz : a.ends.cdOff ≤ z.length)
    (hat : entryAt z at_ lim = some e)
    (hfile : m.file = { fileOf z at_ e with lfh := some l, ddb := ddb })
    (hT0 : e.flags % 16 / 8 ≠ 1 → e.hoff + m.total = sm.dataOff + e.csize)
    (hT1 : e.flags % 16 / 8 = 1 → ∃ w, w ∈ sm.descWidths ∧ (w = 16 ∨ w = 24) ∧
        e.hoff + m.total = sm.dataOff + e.csize + w)
    (ho : o < 2 ^ 64) (hx : dirHeaderOK (placed o m) = true) :
    Emits (placed o m) (keptEntry e (placed o m) o) ∧ (keptEntry e (placed o m) o).hoff = o ∧
    MemberRec (extent z m) (keptEntry e (placed o m) o).name (keptEntry e (placed o m) o).flags
      (keptEntry e (placed o m) o).crc (keptEntry e (placed o m) o).csize (keptEntry e (placed o m) o).usize ∧
    EntryOK (keptEntry e (placed o m) o) ∧
    (extent z m).length = m.total ∧
    (keptEntry e (placed o m) o).name = e.name ∧ (keptEntry e (placed o m) o).method = e.method ∧
    (keptEntry e (placed o m) o).flags = e.flags ∧ (keptEntry e (placed o m) o).crc = e.crc ∧
    (keptEntry e (placed o m) o).csize = e.csize ∧ (keptEntry e (placed o m) o).usize = e.usize ∧
    (keptEntry e (placed o m) o).comment = e.comment ∧
    (keptEntry e (placed o m) o).extra = (if e.hoff ≠ o ∧ synthBig (placed o m) then z64Extra e.usize e.csize o ++ e.extra
      else e.extra) := by
  generalize hen' : keptEntry e (placed o m) o = en'
  have hoff : m.file.offset = e.hoff := by rw [hfile]; rfl
  have hrec := memberRec_of_memberOf hmo hcdz m.total hT0 hT1
  have hok := memberOf_full hmo
  obtain ⟨b1, b2, b3, b4, b5, b6, b7, b8, b9, b10, b11, b12, b13, b14, b15⟩ := entryAt_bounds hat
  have hext : extent z m = (z.drop e.hoff).take m.total := by unfold extent; rw [hoff]
  -- the extent lies inside the file
  obtain ⟨h30, _, _, _, _, _, _, hdo, hdata, hdesc⟩ := memberOf_some hmo
  have hTle : e.hoff + m.total ≤ a.ends.cdOff := by
    by_cases hd : e.flags % 16 / 8 = 1
    · obtain ⟨w, hw, _, hT⟩ := hT1 hd
      rw [if_pos hd] at hdesc
      rw [hdesc.1] at hw
      obtain ⟨_, _, _, _, hlim, _⟩ := mem_descWidthsAt hw
      omega
    · have := hT0 hd; omega
  have hlen : (extent z m).length = m.total := by
    rw [hext, List.length_take, List.length_drop]; omega
  by_cases hsame : e.hoff = o
  · -- raw re-emission
    have hen : en' = e := by rw [← hen']; simp only [keptEntry, hsame, if_true]
    have hraw : (placed o m).raw = (z.drop at_).take e.len := by
      have : (fileOf z at_ e).offset = o := hsame
      simp only [placed, hfile, this, ne_eq, not_true_eq_false, if_false]
      rfl
    rw [hen]
    refine ⟨emits_raw hat hraw, hsame, by rw [hext]; exact hrec, hok, hlen, rfl, rfl, rfl, rfl, rfl, rfl, rfl, ?_⟩
    simp [hsame]
  · -- synthesised
    have hraw : (placed o m).raw = [] := by
      simp only [placed, hoff, ne_eq, hsame, not_false_eq_true, if_true]
    have hen : en' = synthEntry (placed o m) := by rw [← hen']; simp only [keptEntry, hsame, if_false]
    have hpf : (placed o m).creator = e.verMade ∧ (placed o m).reader = e.verNeeded ∧ (placed o m).flags = e.flags ∧
        (placed o m).method = e.method ∧ (placed o m).mtime = e.mtime ∧ (placed o m).mdate = e.mdate ∧
        (placed o m).crc = e.crc ∧ (placed o m).csize = e.csize ∧ (placed o m).usize = e.usize ∧
        (placed o m).name = e.name ∧ (placed o m).extra = e.extra ∧ (placed o m).comment = e.comment ∧
        (placed o m).iattrs = e.iattrs ∧ (placed o m).eattrs = e.eattrs ∧ (placed o m).offset = o := by
      simp only [placed, hfile, fileOf, and_self]
    obtain ⟨p1, p2, p3, p4, p5, p6, p7, p8, p9, p10, p11, p12, p13, p14, p15⟩ := hpf
    have hsx : synthExtra (placed o m) =
        if synthBig (placed o m) then z64Extra e.usize e.csize o ++ e.extra else e.extra := by
      simp only [synthExtra, p8, p9, p11, p15]
    have hfit : FileFits (placed o m) := by
      refine ⟨by rw [p1]; exact b1, by rw [p2]; exact b2, by rw [p3]; exact b3, by rw [p4]; exact b4,
        by rw [p5]; exact b5, by rw [p6]; exact b6, by rw [p7]; exact b7, by rw [p10]; exact b8, ?_,
        by rw [p12]; exact b10, by rw [p13]; exact b11, by rw [p14]; exact b12, by rw [p8]; exact b13,
        by rw [p9]; exact b14, by rw [p15]; exact ho⟩
      rw [hsx]
      split
      · next hbig =>
        have hroom : (placed o m).extra.length + 28 ≤ 65535 := by
          unfold dirHeaderOK at hx
          rw [hraw] at hx
          have hb' : decide ((placed o m).csize ≥ u32Max ∨ (placed o m).usize ≥ u32Max ∨ (placed o m).offset ≥ u32Max) = true := by
            simpa [synthBig] using hbig
          simpa [hb'] using hx
        rw [p11] at hroom
        simp only [List.length_append, z64Extra_length]; omega
      · exact b9
    rw [hen]
    refine ⟨emits_synth hraw hfit, p15, ?_, ?_, hlen, p10, p4, p3, p7, p8, p9, p12, ?_⟩
    · simp only [synthEntry, p10, p3, p7, p8, p9]; rw [hext]; exact hrec
    · refine ⟨by simp only [synthEntry, p3]; exact hok.enc, by simp only [synthEntry, p3]; exact hok.pat, ?_, ?_,
        by simp only [synthEntry, p4]; exact hok.meth, by simp only [synthEntry, p10, p9]; exact hok.dir,
        by simp only [synthEntry, p4, p8, p9]; exact hok.stored⟩
      · simp only [synthEntry, p2]; split
        · omega
        · exact hok.ver
      · simp only [synthEntry]
        rw [hsx]
        split
        · exact extraWellFormed_z64 _ _ _ _ hok.ext
        · exact hok.ext
    · simp only [synthEntry]
      rw [hsx]
      simp [hsame]

/-! ### the measured member list of an input; the two segments of an output -/


/-- (kept?, the member as the specification sees it, the member as relic measures it) -/
abbrev KM := Bool × SpecZip.Member × Member

/-- the members of the input, from record position `at_` on, each with relic's measurement -/
def MeasuredL (z : Bytes) (a : Archive) : Nat → List KM → Prop
  | _, [] => True
  | at_, (_, sm, m) :: r =>
    memberOf z a.ends.cdOff sm.entry = some sm ∧ entryAt z at_ a.ends.first = some sm.entry ∧
    getTotalSize (RA z) (fileOf z at_ sm.entry) = .ok (m, RA z) ∧
    (∃ l ddb, m.file = { fileOf z at_ sm.entry with lfh := some l, ddb := ddb }) ∧ m.dataOff = sm.dataOff ∧
    (sm.entry.flags % 16 / 8 ≠ 1 → sm.entry.hoff + m.total = sm.dataOff + sm.entry.csize) ∧
    (sm.entry.flags % 16 / 8 = 1 → ∃ w, w ∈ sm.descWidths ∧ (w = 16 ∨ w = 24) ∧
      sm.entry.hoff + m.total = sm.dataOff + sm.entry.csize + w ∧ trueWidth a sm = some w) ∧
    sm.entry.hoff + m.total ≤ a.ends.cdOff ∧
    MeasuredL z a (at_ + sm.entry.len) r

/-- **every readable archive can be measured** (whatever the kept flags) -/
theorem measured_exists {z : Bytes} {a : Archive} (hp : parse z = some a) (h63 : z.length < 2 ^ 63)
    (hsigned : descSigned a = true) (hw : (a.members.all (widthOK a)) = true) :
    ∀ (sms : List SpecZip.Member) (flags : List Bool) (count at_ : Nat), (∀ sm ∈ sms, sm ∈ a.members) →
      entries z count at_ a.ends.first = some (sms.map (·.entry)) →
      ∃ kms : List KM, MeasuredL z a at_ kms ∧ kms.map (·.2.1) = sms ∧
        kms.map (·.1) = (List.range sms.length).map (fun i => flags.getD i false) := by
  obtain ⟨_, _, _, hms, _⟩ := parse_some hp
  intro sms
  induction sms with
  | nil => intro flags count at_ _ _; exact ⟨[], trivial, rfl, rfl⟩
  | cons sm sms ih =>
    intro flags count at_ hmem hent
    cases count with
    | zero =>
      unfold entries at hent
      split at hent <;> cases hent
    | succ count =>
      unfold entries at hent
      simp only [Option.bind_eq_bind, Option.bind_eq_some_iff] at hent
      obtain ⟨e, he, es', hes, hh⟩ := hent
      simp only [List.map_cons, Option.some.injEq, List.cons.injEq] at hh
      obtain ⟨rfl, rfl⟩ := hh
      have hsm := hmem sm (List.mem_cons_self ..)
      obtain ⟨kms, hk1, hk2, hk3⟩ := ih (flags.drop 1) count _ (fun x hx => hmem x (List.mem_cons_of_mem _ hx)) hes
      obtain ⟨m, l, ddb, hg, hfile, hdo, hT0, hT1⟩ := measured_member at_ hp h63 hsigned hw hsm
      have hmo := mapM_memberOf_mem _ _ hms sm hsm
      have hTle : sm.entry.hoff + m.total ≤ a.ends.cdOff := by
        obtain ⟨h30, _, _, _, _, _, _, hdo', hdata, hdesc⟩ := memberOf_some hmo
        by_cases hd : sm.entry.flags % 16 / 8 = 1
        · obtain ⟨w, hw', _, hT, _⟩ := hT1 hd
          rw [if_pos hd] at hdesc
          rw [hdesc.1] at hw'
          obtain ⟨_, _, _, _, hlim, _⟩ := mem_descWidthsAt hw'
          omega
        · have := hT0 hd; omega
      refine ⟨(flags.getD 0 false, sm, m) :: kms, ⟨hmo, he, hg, ⟨l, ddb, hfile⟩, hdo, hT0, hT1, hTle, hk1⟩, by simp [hk2], ?_⟩
      simp only [List.map_cons, List.length_cons, List.range_succ_eq_map, List.map_map, hk3]
      congr 1
      apply List.map_congr_left
      intro i _
      simp [List.getD_eq_getElem?_getD, List.getElem?_drop, Nat.add_comm]

theorem MeasuredL_flags {z : Bytes} {a : Archive} (g : KM → Bool) : ∀ (kms : List KM) (at_ : Nat), MeasuredL z a at_ kms →
    MeasuredL z a at_ (kms.map fun q => (g q, q.2.1, q.2.2)) := by
  intro kms
  induction kms with
  | nil => intro _ _; trivial
  | cons q r ih =>
    intro at_ h
    obtain ⟨k, sm, m⟩ := q
    obtain ⟨h1, h2, h3, h4, h5, h6, h7, h8, h9⟩ := h
    exact ⟨h1, h2, h3, h4, h5, h6, h7, h8, ih _ h9⟩

/-- members back to back, in relic's measure, from `pos` to `stop` -/
def contigK : Nat → List KM → Nat → Prop
  | pos, [], stop => pos = stop
  | pos, (_, _, m) :: r, stop => m.file.offset = pos ∧ contigK (pos + m.total) r stop

def keptBytesK (z : Bytes) : List KM → Bytes
  | [] => []
  | (k, _, m) :: r => (if k then extent z m else []) ++ keptBytesK z r

def keptLenK : List KM → Nat
  | [] => 0
  | (k, _, m) :: r => (if k then m.total else 0) + keptLenK r

/-- the directory entries `AddFile` makes for the kept members, running offset from `o`, each with the
    member it stands for -/
def keptPMs (z : Bytes) : List KM → Nat → List (File × PM)
  | [], _ => []
  | (k, sm, m) :: r, o =>
    if k then (placed o m, ⟨keptEntry sm.entry (placed o m) o, extent z m⟩) :: keptPMs z r (o + m.total)
    else keptPMs z r o

theorem contigK_le : ∀ (kms : List KM) (pos stop : Nat), contigK pos kms stop → pos ≤ stop := by
  intro kms
  induction kms with
  | nil => intro pos stop h; simp [contigK] at h; omega
  | cons q r ih => intro pos stop h; obtain ⟨k, sm, m⟩ := q; have := ih _ _ h.2; omega

/-- **the kept segment.** In an output that holds the kept members' extents back to back from `L`, the
    directory entries `AddFile` makes stand for well-formed members placed back to back. -/
theorem kept_segment {z : Bytes} {a : Archive} (hcdz : a.ends.cdOff ≤ z.length) :
    ∀ (kms : List KM) (at_ : Nat) (pre post : Bytes) (L : Nat), MeasuredL z a at_ kms →
      (∀ q ∈ kms, q.2.1 ∈ a.members) → pre.length = L → L + keptLenK kms < 2 ^ 64 →
      (∀ q ∈ keptPMs z kms L, dirHeaderOK q.1 = true) →
      (∀ q ∈ keptPMs z kms L, Emits q.1 q.2.e) ∧
      PMsSeg (pre ++ keptBytesK z kms ++ post) L ((keptPMs z kms L).map (·.2)) (L + keptLenK kms) := by
  intro kms
  induction kms with
  | nil => intro at_ pre post L _ _ _ _ _; exact ⟨by simp [keptPMs], by simp [keptPMs, PMsSeg, keptLenK]⟩
  | cons q r ih =>
    intro at_ pre post L hM hmem hpre hb hx
    obtain ⟨k, sm, m⟩ := q
    obtain ⟨hmo, hat, hg, ⟨l, ddb, hfile⟩, hdo, hT0, hT1, hTle, hrest⟩ := hM
    have hmem' : ∀ q ∈ r, q.2.1 ∈ a.members := fun q hq => hmem q (List.mem_cons_of_mem _ hq)
    cases k with
    | false =>
      simp only [keptPMs, keptBytesK, keptLenK, Bool.false_eq_true, if_false, List.nil_append, Nat.zero_add] at hb hx ⊢
      exact ih _ pre post L hrest hmem' hpre hb hx
    | true =>
      simp only [keptPMs, keptBytesK, keptLenK, if_true] at hb hx ⊢
      have hT1' : sm.entry.flags % 16 / 8 = 1 → ∃ w, w ∈ sm.descWidths ∧ (w = 16 ∨ w = 24) ∧
          sm.entry.hoff + m.total = sm.dataOff + sm.entry.csize + w := by
        intro hd; obtain ⟨w, h1, h2, h3, _⟩ := hT1 hd; exact ⟨w, h1, h2, h3⟩
      obtain ⟨k1, k2, k3, k4, k5, _⟩ := kept_pm (o := L) hmo hcdz hat hfile hT0 hT1' (by omega)
        (hx _ (List.mem_cons_self ..))
      have hi := ih _ (pre ++ extent z m) post (L + m.total) hrest hmem' (by simp [hpre, k5]) (by omega)
        (fun q hq => hx q (List.mem_cons_of_mem _ hq))
      have hassoc : pre ++ (extent z m ++ keptBytesK z r) ++ post = pre ++ extent z m ++ keptBytesK z r ++ post := by
        simp [List.append_assoc]
      refine ⟨?_, ?_⟩
      · intro q hq
        rcases List.mem_cons.mp hq with rfl | hq
        · exact k1
        · exact hi.1 q hq
      · simp only [List.map_cons, PMsSeg]
        refine ⟨k2, ?_, k3, k4, ?_⟩
        · have := drop_take_mid pre (extent z m) (keptBytesK z r ++ post)
          rw [hpre] at this
          rw [hassoc, List.append_assoc (pre ++ extent z m)]
          exact this
        · rw [k5, hassoc, show L + (m.total + keptLenK r) = L + m.total + keptLenK r by omega]
          exact hi.2

/-- what is assumed of a member handed to `NewFile` (everything the code silently truncates or a standard
    reader would refuse is excluded): -/
structure NewOK (n : NewMember) : Prop where
  name : n.name.length < 2 ^ 16
  extra : n.extra.length + 28 < 2 ^ 16
  extraWF : extraWellFormed n.extra.length n.extra = true
  crc : n.crc < 2 ^ 32
  usize : n.usize < 2 ^ 64
  csize : n.compd.length < 2 ^ 64
  dir : n.name.getLast? = some 0x2f → n.usize = 0
  stored : n.deflate = false → n.usize = n.compd.length

/-- the directory entries `NewFile` makes, from offset `o`, each with the member it stands for -/
def newPMs (mt md : Nat) : List NewMember → Nat → List (File × PM)
  | [], _ => []
  | n :: ns, o => (newEntryAt mt md n o, ⟨synthEntry (newEntryAt mt md n o), newBytes mt md n⟩) ::
      newPMs mt md ns (o + (newBytes mt md n).length)

theorem newPMs_files (mt md : Nat) : ∀ (news : List NewMember) (o : Nat),
    (newPMs mt md news o).map (·.1) = (newEntries mt md news o).1 := by
  intro news
  induction news with
  | nil => intro _; rfl
  | cons n ns ih => intro o; simp [newPMs, newEntries, ih]

theorem new_pm (mt md : Nat) (n : NewMember) (o : Nat) (hn : NewOK n) (hmt : mt < 2 ^ 16) (hmd : md < 2 ^ 16) (ho : o < 2 ^ 64) :
    Emits (newEntryAt mt md n o) (synthEntry (newEntryAt mt md n o)) ∧ (synthEntry (newEntryAt mt md n o)).hoff = o ∧
    MemberRec (newBytes mt md n) (synthEntry (newEntryAt mt md n o)).name (synthEntry (newEntryAt mt md n o)).flags
      (synthEntry (newEntryAt mt md n o)).crc (synthEntry (newEntryAt mt md n o)).csize
      (synthEntry (newEntryAt mt md n o)).usize ∧
    EntryOK (synthEntry (newEntryAt mt md n o)) := by
  have hsx : synthExtra (newEntryAt mt md n o) =
      if synthBig (newEntryAt mt md n o) then z64Extra n.usize n.compd.length o ++ n.extra else n.extra := rfl
  have hfit : FileFits (newEntryAt mt md n o) := by
    refine ⟨by simp [newEntryAt], ?_, ?_, ?_, hmt, hmd, hn.crc, hn.name, ?_, by simp [newEntryAt], by simp [newEntryAt],
      by simp [newEntryAt], hn.csize, hn.usize, ho⟩
    · simp only [newEntryAt]; split <;> omega
    · simp only [newEntryAt]; split <;> omega
    · simp only [newEntryAt]; split <;> omega
    · rw [hsx]; have := hn.extra
      split
      · simp only [List.length_append, z64Extra_length]; omega
      · omega
  refine ⟨emits_synth rfl hfit, rfl, memberRec_newBytes mt md n hn.name (by have := hn.extra; omega), ?_⟩
  apply entryOK_new _ n rfl
  · show (if synthBig (newEntryAt mt md n o) then 45 else (if n.useDesc then 45 else 20)) ≤ 63
    split
    · omega
    · split <;> omega
  · rfl
  · simp only [synthEntry]; rw [hsx]; split
    · exact extraWellFormed_z64 _ _ _ _ hn.extraWF
    · exact hn.extraWF
  · rfl
  · rfl
  · rfl
  · exact hn.dir
  · exact hn.stored

/-- **the added segment.** -/
theorem news_segment (mt md : Nat) (hmt : mt < 2 ^ 16) (hmd : md < 2 ^ 16) :
    ∀ (news : List NewMember) (o : Nat) (pre post : Bytes), (∀ n ∈ news, NewOK n) → pre.length = o →
      o + (newEntries mt md news o).2.length < 2 ^ 64 →
      (∀ q ∈ newPMs mt md news o, Emits q.1 q.2.e) ∧
      PMsSeg (pre ++ (newEntries mt md news o).2 ++ post) o ((newPMs mt md news o).map (·.2))
        (o + (newEntries mt md news o).2.length) := by
  intro news
  induction news with
  | nil => intro o pre post _ _ _; exact ⟨by simp [newPMs], by simp [newPMs, newEntries, PMsSeg]⟩
  | cons n ns ih =>
    intro o pre post hok hpre hb
    simp only [newEntries, List.length_append] at hb ⊢
    obtain ⟨k1, k2, k3, k4⟩ := new_pm mt md n o (hok n (List.mem_cons_self ..)) hmt hmd (by omega)
    have hi := ih (o + (newBytes mt md n).length) (pre ++ newBytes mt md n) post
      (fun x hx => hok x (List.mem_cons_of_mem _ hx)) (by simp [hpre]) (by omega)
    have hassoc : pre ++ (newBytes mt md n ++ (newEntries mt md ns (o + (newBytes mt md n).length)).2) ++ post =
        pre ++ newBytes mt md n ++ (newEntries mt md ns (o + (newBytes mt md n).length)).2 ++ post := by
      simp [List.append_assoc]
    refine ⟨?_, ?_⟩
    · intro q hq
      simp only [newPMs] at hq
      rcases List.mem_cons.mp hq with rfl | hq
      · exact k1
      · exact hi.1 q hq
    · simp only [newPMs, List.map_cons, PMsSeg]
      refine ⟨k2, ?_, k3, k4, ?_⟩
      · have := drop_take_mid pre (newBytes mt md n) ((newEntries mt md ns (o + (newBytes mt md n).length)).2 ++ post)
        rw [hpre] at this
        rw [hassoc, List.append_assoc (pre ++ newBytes mt md n)]
        exact this
      · rw [hassoc, show o + ((newBytes mt md n).length + (newEntries mt md ns (o + (newBytes mt md n).length)).2.length) =
          o + (newBytes mt md n).length + (newEntries mt md ns (o + (newBytes mt md n).length)).2.length by omega]
        exact hi.2

end Relic.Zip

/- helper lemmas for Relic.Model.CompressHttp: laws of the toy codecs (so that `Codec` is inhabited by a
   self-delimiting and by a frame-sequence instance), the `responseCompressor` state machine, the
   middleware and the client's decoding -/
import Relic.Model.CompressHttp
import Relic.Proofs.Transport
import Relic.Proofs.Merkle
namespace Relic.CompressHttp
open Relic Relic.Transport

/-! ### toy gzip -/

theorem parseG_stuff (d : Bytes) (y : UInt8) (rest : Bytes) :
    parseG (stuff d ++ y :: rest) = (parseG (y :: rest)).map (d ++ ·) := by
  induction d with
  | nil => simp [stuff]
  | cons x d ih =>
    have e : stuff (x :: d) ++ y :: rest = 1 :: x :: (stuff d ++ y :: rest) := by simp [stuff]
    rw [e]
    cases h : stuff d ++ y :: rest with
    | nil => cases d <;> simp [stuff] at h
    | cons z zs =>
      rw [← h]
      have : parseG (1 :: x :: (stuff d ++ y :: rest)) = (parseG (stuff d ++ y :: rest)).map (x :: ·) := by
        rw [h]; simp [parseG]
      rw [this, ih]
      cases parseG (y :: rest) <;> simp

theorem parseG_sync (y : UInt8) (rest : Bytes) : parseG (2 :: y :: rest) = parseG (y :: rest) := by
  simp [parseG]

theorem parseG_segs (ws : List WOp) : parseG (ws.flatMap segG ++ [0]) = some (plainOf ws) := by
  induction ws with
  | nil => simp [parseG, plainOf]
  | cons w ws ih =>
    have hne : ∃ y rest, ws.flatMap segG ++ [0] = y :: rest := by
      cases h : ws.flatMap segG ++ [0] with
      | nil => simp at h
      | cons y rest => exact ⟨y, rest, rfl⟩
    obtain ⟨y, rest, hy⟩ := hne
    cases w with
    | write d =>
      simp only [List.flatMap_cons, segG, List.append_assoc, plainOf]
      rw [hy, parseG_stuff, ← hy, ih]; simp
    | flush =>
      simp only [List.flatMap_cons, segG, List.append_assoc, plainOf]
      rw [hy]
      show parseG (2 :: y :: rest) = _
      rw [parseG_sync, ← hy, ih]

theorem decG_encG (ws : List WOp) : decG (encG ws) = some (plainOf ws) := by
  simp [decG, encG, gzMagic, parseG_segs]

theorem opensG_of_decG (w p : Bytes) (h : decG w = some p) : opensG w = true := by
  unfold decG at h
  split at h
  · next a b r =>
    split at h
    · next hab => simp [opensG, hab.1, hab.2]
    · simp at h
  · simp at h

def toyGzip : Codec := ⟨encG, decG, opensG, decG_encG, opensG_of_decG, fun _ h => by simp [decG] at h⟩

theorem parseG_cons2 (t x : UInt8) (r : Bytes) :
    parseG (t :: x :: r) =
      if t = 0 then none else if t = 2 then parseG (x :: r) else if t = 1 then (parseG r).map (x :: ·) else none := by
  simp [parseG]

theorem parseG_single (t : UInt8) : parseG [t] = if t = 0 then some [] else none := by
  simp [parseG]

/-- no proper prefix of a stream that `parseG` accepts is accepted -/
theorem parseG_prefix_none (n : Nat) : ∀ (w p b : Bytes), w.length = n → parseG w = some b → p <+: w → p ≠ w →
    parseG p = none := by
  induction n using Nat.strongRecOn with
  | _ n ih =>
    intro w p b hn h hp hne
    match w, p with
    | _, [] => simp [parseG]
    | [], q :: p => simp at hp
    | [t], q :: p =>
      rw [parseG_single] at h
      have := List.IsPrefix.length_le hp
      have hl : p = [] := by cases p <;> simp_all
      subst hl
      obtain ⟨s, hs⟩ := hp
      simp at hs
      exact absurd (by rw [hs.1]) hne
    | t :: x :: r, [q] =>
      obtain ⟨s, hs⟩ := hp
      simp at hs
      rw [parseG_cons2] at h
      rw [parseG_single, hs.1]
      by_cases h0 : t = 0
      · simp [h0] at h
      · simp [h0]
    | t :: x :: r, q :: y :: p' =>
      obtain ⟨s, hs⟩ := hp
      simp at hs
      obtain ⟨hq, hy, hs⟩ := hs
      subst hq; subst hy
      rw [parseG_cons2] at h
      rw [parseG_cons2]
      by_cases h0 : q = 0
      · simp [h0] at h
      · by_cases h2 : q = 2
        · simp only [h2, if_true] at h ⊢
          have : (2 : UInt8) ≠ 0 := by decide
          simp only [this, if_false] at h ⊢
          refine ih (r.length + 1) (by simp at hn; omega) (y :: r) (y :: p') b (by simp) h ⟨s, by simp [hs]⟩ ?_
          intro e; apply hne; simp at e; simp [e]
        · by_cases h1 : q = 1
          · simp only [h1, if_true] at h ⊢
            have a1 : (1 : UInt8) ≠ 0 := by decide
            have a2 : (1 : UInt8) ≠ 2 := by decide
            simp only [a1, a2, if_false] at h ⊢
            cases hr : parseG r with
            | none => simp [hr] at h
            | some b' =>
              have := ih r.length (by simp at hn; omega) r p' b' rfl hr ⟨s, hs⟩ (by intro e; apply hne; simp [e])
              simp [this]
          · simp [h0, h2, h1] at h

theorem toyGzip_selfDelimiting : SelfDelimiting toyGzip := by
  intro ws p hp hne
  show decG p = none
  have henc : toyGzip.enc ws = 0x1f :: 0x8b :: (ws.flatMap segG ++ [0]) := rfl
  rw [henc] at hp hne
  match p with
  | [] => rfl
  | [a] => rfl
  | a :: b :: p' =>
    obtain ⟨s, hs⟩ := hp
    simp at hs
    obtain ⟨ha, hb, hs⟩ := hs
    subst ha; subst hb
    simp only [decG]
    simp only [and_self, if_true]
    exact parseG_prefix_none _ _ p' _ rfl (parseG_segs ws) ⟨s, hs⟩ (by intro e; apply hne; rw [e])

/-! ### toy snappy -/

theorem parseS_stuff (f : Bytes) (rest : Bytes) :
    parseS true (stuff f ++ 0 :: rest) = (parseS false rest).map (f ++ ·) := by
  induction f with
  | nil =>
    cases rest with
    | nil => simp [stuff, parseS]
    | cons x r => simp [stuff, parseS]
  | cons y f ih =>
    have e : stuff (y :: f) ++ 0 :: rest = 1 :: y :: (stuff f ++ 0 :: rest) := by simp [stuff]
    rw [e]
    have : parseS true (1 :: y :: (stuff f ++ 0 :: rest)) = (parseS true (stuff f ++ 0 :: rest)).map (y :: ·) := by
      simp [parseS]
    rw [this, ih]
    cases parseS false rest <;> simp

theorem parseS_frames (fs : List Bytes) : parseS false (fs.flatMap frame) = some fs.flatten := by
  induction fs with
  | nil => simp [parseS]
  | cons f fs ih =>
    have e : (f :: fs).flatMap frame = 3 :: (stuff f ++ 0 :: fs.flatMap frame) := by
      simp [frame, List.flatMap_cons]
    rw [e]
    have : parseS false (3 :: (stuff f ++ 0 :: fs.flatMap frame)) = parseS true (stuff f ++ 0 :: fs.flatMap frame) := by
      simp [parseS]
    rw [this, parseS_stuff, ih]; simp

theorem decS_encFrames (fs : List Bytes) : decS (encFrames fs) = some fs.flatten := by
  unfold encFrames
  by_cases h : fs = []
  · simp [h, decS]
  · simp only [h, if_false, snMagic]
    show decS (0xff :: 0x06 :: fs.flatMap frame) = _
    simp [decS, parseS_frames]

theorem framesOf_flatten (B : Nat) (hB : 0 < B) (ws : List WOp) : (framesOf B ws).flatten = plainOf ws := by
  induction ws with
  | nil => simp [framesOf, plainOf]
  | cons w ws ih =>
    cases w with
    | write d => simp [framesOf, plainOf, List.flatten_append, Merkle.chunks_flatten B d hB, ih]
    | flush => simp [framesOf, plainOf, ih]

theorem decS_encS (B : Nat) (hB : 0 < B) (ws : List WOp) : decS (encS B ws) = some (plainOf ws) := by
  rw [encS, decS_encFrames, framesOf_flatten B hB]

def toySnappy (B : Nat) (hB : 0 < B) : Codec :=
  ⟨encS B, decS, fun _ => true, decS_encS B hB, fun _ _ _ => rfl, fun _ h => by simp [decS] at h; exact h⟩

/-- a stream cut after any number of whole frames decodes, to the bytes of those frames -/
theorem toySnappy_frame_prefix (fs : List Bytes) (j : Nat) :
    decS (encFrames (fs.take j)) = some (fs.take j).flatten := decS_encFrames _

/-- x-snappy-framed has no end marker: with a block size of one byte, the stream of `[7, 8]` cut after
    its first frame is a proper prefix and decodes to `[7]` -/
theorem toySnappy_not_selfDelimiting : ¬ SelfDelimiting (toySnappy 1 (by decide)) := by
  intro h
  have hc : Merkle.chunks 1 ([7, 8] : Bytes) = [[7], [8]] := by
    rw [Merkle.chunks_cons_of 1 _ (by decide) (by simp)]
    simp only [List.take, List.drop]
    rw [Merkle.chunks_cons_of 1 _ (by decide) (by simp)]
    simp [Merkle.chunks_nil]
  have he : (toySnappy 1 (by decide)).enc [.write [7, 8]] = encFrames [[7], [8]] := by
    show encS 1 [.write [7, 8]] = _
    simp [encS, framesOf, hc]
  have := h [.write [7, 8]] (encFrames [[7]]) (by rw [he]; decide) (by rw [he]; decide)
  revert this
  decide

/-- the codecs the native driver runs -/
def toyCodecs : Codecs := ⟨toyGzip, toySnappy 65536 (by decide)⟩

/-! ### `selectEncoding` yields one of three values -/

theorem selectEncoding_cases (a : Str) :
    selectEncoding a = [] ∨ selectEncoding a = gzip ∨ selectEncoding a = snappy := by
  unfold selectEncoding choose
  rw [fold_zero]
  split
  · exact Or.inr (Or.inr rfl)
  · split
    · exact Or.inr (Or.inl rfl)
    · exact Or.inl rfl

theorem selectEncoding_mem (a : Str) (h : selectEncoding a ≠ []) : selectEncoding a ∈ tokens a := by
  unfold selectEncoding choose at h ⊢
  rw [fold_zero] at h ⊢
  split
  · assumption
  · next h1 =>
    split
    · assumption
    · next h2 => simp [h1, h2] at h

theorem identity_ne_gzip : identity ≠ gzip := by decide
theorem identity_ne_snappy : identity ≠ snappy := by decide
theorem gzip_ne_nil : gzip ≠ [] := by decide
theorem snappy_ne_nil : snappy ≠ [] := by decide

theorem codingOf_nil : codingOf [] = some .identity := by decide
theorem codingOf_identity : codingOf identity = some .identity := by decide
theorem codingOf_gzip : codingOf gzip = some .gzip := by decide
theorem codingOf_snappy : codingOf snappy = some .snappy := by decide

theorem codingOf_name (k : Coding) : codingOf (codingName k) = some k := by
  cases k <;> decide

theorem codingOf_none_iff (v : Str) :
    codingOf v = none ↔ v ≠ [] ∧ v ≠ identity ∧ v ≠ gzip ∧ v ≠ snappy := by
  unfold codingOf
  by_cases h1 : v = [] ∨ v = identity
  · simp only [h1, if_true]
    rcases h1 with h | h <;> simp [h]
  · simp only [h1, if_false]
    have h1' : v ≠ [] ∧ v ≠ identity := by
      constructor
      · intro h; exact h1 (Or.inl h)
      · intro h; exact h1 (Or.inr h)
    by_cases h2 : v = gzip
    · simp [h2]
    · by_cases h3 : v = snappy
      · simp [h3, Ne.symm gzip_ne_snappy]
      · simp [h2, h3, h1'.1, h1'.2]

/-! ### the plain `ResponseWriter` -/

theorem RW.fold_sent (ops : List HOp) (w : RW) (x : Nat × Hdr) (h : w.sent = some x) :
    ops.foldl RW.step w = { w with body := w.body ++ plainOfOps ops } := by
  induction ops generalizing w with
  | nil => simp [plainOfOps]
  | cons o ops ih =>
    cases o with
    | header s =>
      have e : RW.step w (.header s) = w := by simp [RW.step, RW.writeHeader, h]
      simp only [List.foldl_cons, e, ih w h, plainOfOps]
    | write d =>
      have e : RW.step w (.write d) = { w with body := w.body ++ d } := by
        simp [RW.step, RW.write, RW.writeHeader, h]
      simp only [List.foldl_cons, e, plainOfOps]
      rw [ih _ (by simpa using h)]
      simp [List.append_assoc]
    | flush =>
      have e : RW.step w .flush = w := by simp [RW.step, RW.flush, RW.writeHeader, h]
      simp only [List.foldl_cons, e, ih w h, plainOfOps]

/-- a handler on the plain writer: status of the first operation, headers as they were, body = what it wrote -/
theorem RW.fold_fresh (ops : List HOp) (hd : Hdr) :
    (ops.foldl RW.step ⟨hd, none, []⟩).writeHeader 200 = ⟨hd, some (statusOfOps ops, hd), plainOfOps ops⟩ := by
  cases ops with
  | nil => simp [RW.writeHeader, statusOfOps, plainOfOps]
  | cons o ops =>
    cases o with
    | header s =>
      simp only [List.foldl_cons, RW.step]
      rw [RW.fold_sent ops _ (s, hd) (by simp [RW.writeHeader])]
      simp [RW.writeHeader, statusOfOps, plainOfOps]
    | write d =>
      simp only [List.foldl_cons, RW.step]
      rw [RW.fold_sent ops _ (200, hd) (by simp [RW.write, RW.writeHeader])]
      simp [RW.write, RW.writeHeader, statusOfOps, plainOfOps]
    | flush =>
      simp only [List.foldl_cons, RW.step]
      rw [RW.fold_sent ops _ (200, hd) (by simp [RW.flush, RW.writeHeader])]
      simp [RW.flush, RW.writeHeader, statusOfOps, plainOfOps]

/-! ### `responseCompressor` once the header is out -/

def hasWrite : List HOp → Bool
  | [] => false
  | .write _ :: _ => true
  | _ :: r => hasWrite r

/-- what reaches the compressor: flushes before the first `Write` find `wc == nil` -/
def wopsFrom : Bool → List HOp → List WOp
  | _, [] => []
  | st, .header _ :: r => wopsFrom st r
  | _, .write d :: r => .write d :: wopsFrom true r
  | st, .flush :: r => if st then .flush :: wopsFrom st r else wopsFrom st r

theorem plainOf_append (a b : List WOp) : plainOf (a ++ b) = plainOf a ++ plainOf b := by
  induction a with
  | nil => simp [plainOf]
  | cons w a ih => cases w <;> simp [plainOf, ih]

theorem plainOf_wopsFrom (st : Bool) (ops : List HOp) : plainOf (wopsFrom st ops) = plainOfOps ops := by
  induction ops generalizing st with
  | nil => simp [wopsFrom, plainOf, plainOfOps]
  | cons o ops ih =>
    cases o with
    | header s => simp [wopsFrom, plainOfOps, ih]
    | write d => simp [wopsFrom, plainOf, plainOfOps, ih]
    | flush =>
      cases st <;> simp [wopsFrom, plainOf, plainOfOps, ih]

def RC.flushTail (c : RC) : RC :=
  let c1 : RC := if c.started then { c with sched := c.sched ++ [.flush] } else c
  { c1 with rw := c1.rw.flush }

theorem RC.step_flush (fx : Bool) (c : RC) :
    RC.step fx c .flush = RC.flushTail (if fx = true ∧ c.wroteHeader = false then c.headerStep 200 else c) := rfl

theorem RC.step_header (fx : Bool) (c : RC) (s : Nat) : RC.step fx c (.header s) = c.headerStep s := rfl

theorem RC.fold_sent (fx : Bool) (ops : List HOp) (c : RC) (x : Nat × Hdr) (hs : c.rw.sent = some x) (hw : c.wroteHeader = true) :
    ops.foldl (RC.step fx) c =
      { c with started := c.started || hasWrite ops, sched := c.sched ++ wopsFrom c.started ops } := by
  induction ops generalizing c with
  | nil => simp [hasWrite, wopsFrom]
  | cons o ops ih =>
    cases o with
    | header s =>
      have e : RC.step fx c (.header s) = c := by
        obtain ⟨rw, enc, wh, st, sc⟩ := c
        simp only at hs hw
        subst hw
        simp [RC.step, RC.headerStep, RW.writeHeader, hs]
      simp only [List.foldl_cons, e, ih c hs hw, hasWrite, wopsFrom]
    | write d =>
      have e : RC.step fx c (.write d) = { c with started := true, sched := c.sched ++ [.write d] } := by
        cases hst : c.started <;> simp [RC.step, hw, hst]
      simp only [List.foldl_cons, e, hasWrite, wopsFrom]
      rw [ih _ (by simpa using hs) (by simpa using hw)]
      simp [List.append_assoc]
    | flush =>
      have e0 : RC.step fx c .flush = RC.flushTail c := by
        rw [RC.step_flush]; simp [hw]
      cases hst : c.started with
      | false =>
        have e : RC.step fx c .flush = c := by
          rw [e0]
          obtain ⟨rw, enc, wh, st, sc⟩ := c
          simp only at hs hw hst
          subst hst
          simp [RC.flushTail, RW.flush, RW.writeHeader, hs]
        simp only [List.foldl_cons, e, ih c hs hw, hasWrite, wopsFrom, hst]
        simp
      | true =>
        have e : RC.step fx c .flush = { c with sched := c.sched ++ [.flush] } := by
          rw [e0]
          simp [RC.flushTail, hst, RW.flush, RW.writeHeader, hs]
        simp only [List.foldl_cons, e, hasWrite, wopsFrom]
        rw [ih _ (by simpa using hs) (by simpa using hw)]
        simp [hst, List.append_assoc]

/-! ### invariants of `responseCompressor` over arbitrary handler behaviour -/

structure RCInv (e : Str) (ops : List HOp) (c : RC) : Prop where
  enc : c.encoding = e ∨ c.encoding = []
  hce : c.rw.hdr.ce = none ∨ c.rw.hdr.ce = some e
  hcl : c.rw.hdr.cl = none
  sent : ∀ s h, c.rw.sent = some (s, h) →
    (h.ce = none ∨ h.ce = some e) ∧ h.cl = none ∧ (s = 200 ∨ HOp.header s ∈ ops) ∧ (300 ≤ s → h.ce = none)
  unsent : c.rw.sent = none → c.rw.hdr.ce = none
  wrote : c.wroteHeader = true → c.rw.sent ≠ none
  fresh : c.wroteHeader = false → c.encoding = e

theorem RCInv.init (e : Str) (ops : List HOp) : RCInv e ops ⟨⟨⟨none, none⟩, none, []⟩, e, false, false, []⟩ := by
  constructor <;> simp

theorem RCInv.headerStep {e : Str} {ops : List HOp} {c : RC} (s : Nat) (hs : s = 200 ∨ HOp.header s ∈ ops)
    (hi : RCInv e ops c) : RCInv e ops (c.headerStep s) := by
  obtain ⟨⟨⟨ce, cl⟩, snt, body⟩, enc, wh, st, sc⟩ := c
  obtain ⟨i1, i2, i3, i4, i5, i6, i7⟩ := hi
  simp only at i1 i2 i3 i4 i5 i6 i7
  subst i3
  cases snt with
  | some x =>
    cases wh with
    | true =>
      simp only [RC.headerStep, if_true]
      constructor <;> simp_all [RW.writeHeader]
    | false =>
      by_cases h3 : s ≥ 300
      · simp only [RC.headerStep, h3, if_true]
        constructor <;> simp_all [RW.writeHeader]
      · by_cases h4 : enc ≠ [] ∧ enc ≠ identity
        · simp only [RC.headerStep, h3]
          constructor <;> simp_all [RW.writeHeader, RW.setCE]
        · simp only [RC.headerStep, h3, h4]
          constructor <;> simp_all [RW.writeHeader]
  | none =>
    have hce : ce = none := i5 rfl
    subst hce
    have hwh : wh = false := by
      cases wh with
      | false => rfl
      | true => exact absurd rfl (i6 rfl)
    subst hwh
    by_cases h3 : s ≥ 300
    · simp only [RC.headerStep, h3, if_true]
      constructor <;> simp_all [RW.writeHeader]
    · by_cases h4 : enc ≠ [] ∧ enc ≠ identity
      · simp only [RC.headerStep, h3]
        have he : enc = e := by
          rcases i1 with h | h
          · exact h
          · exact absurd h h4.1
        subst he
        constructor <;> simp_all [RW.writeHeader, RW.setCE]
      · simp only [RC.headerStep, h3, h4]
        constructor <;> simp_all [RW.writeHeader]

theorem RCInv.flushTail {e : Str} {ops : List HOp} {c : RC} (hi : RCInv e ops c) : RCInv e ops c.flushTail := by
  obtain ⟨⟨⟨ce, cl⟩, snt, body⟩, enc, wh, st, sc⟩ := c
  obtain ⟨i1, i2, i3, i4, i5, i6, i7⟩ := hi
  simp only at i1 i2 i3 i4 i5 i6 i7
  subst i3
  cases st <;> cases snt <;> simp only [RC.flushTail] <;> constructor <;> simp_all [RW.flush, RW.writeHeader]

theorem RCInv.step {e : Str} {ops : List HOp} {c : RC} (fx : Bool) (o : HOp) (ho : o ∈ ops) (hi : RCInv e ops c) :
    RCInv e ops (c.step fx o) := by
  cases o with
  | header s => exact RCInv.headerStep s (Or.inr ho) hi
  | flush =>
    rw [RC.step_flush]
    apply RCInv.flushTail
    split
    · exact RCInv.headerStep 200 (Or.inl rfl) hi
    · exact hi
  | write d =>
    obtain ⟨⟨⟨ce, cl⟩, snt, body⟩, enc, wh, st, sc⟩ := c
    obtain ⟨i1, i2, i3, i4, i5, i6, i7⟩ := hi
    simp only at i1 i2 i3 i4 i5 i6 i7
    subst i3
    cases st with
    | true =>
      simp only [RC.step, if_true]
      constructor <;> simp_all
    | false =>
      cases wh with
      | true =>
        simp only [RC.step]
        constructor <;> simp_all
      | false =>
        cases snt with
        | some x =>
          simp only [RC.step]
          constructor <;> simp_all [RW.writeHeader, RW.setCE]
        | none =>
          simp only [RC.step]
          constructor <;> simp_all [RW.writeHeader, RW.setCE]

theorem RCInv.fold {e : Str} {all : List HOp} (fx : Bool) (ops : List HOp) (hsub : ∀ o ∈ ops, o ∈ all) (c : RC)
    (hi : RCInv e all c) : RCInv e all (ops.foldl (RC.step fx) c) := by
  induction ops generalizing c with
  | nil => exact hi
  | cons o ops ih =>
    simp only [List.foldl_cons]
    exact ih (fun o' h => hsub o' (List.mem_cons_of_mem _ h)) _ (RCInv.step fx o (hsub o (List.mem_cons_self ..)) hi)

/-- the compressor on a fresh writer -/
def rc0 (e : Str) : RC := ⟨⟨⟨none, none⟩, none, []⟩, e, false, false, []⟩

/-- the body the compressor leaves behind at `Close` -/
def RC.finalBody (fx : Bool) (C : Codecs) (c : RC) : Bytes :=
  if c.started then (C.ofStr c.encoding).enc c.sched
  else if fx = true ∧ c.wroteHeader = true ∧ c.encoding ≠ [] ∧ c.encoding ≠ identity then
    (C.ofStr c.encoding).enc (c.sched ++ [.write []])
  else []

theorem RC.finish_sent (fx : Bool) (C : Codecs) (c : RC) (x : Nat × Hdr) (h : c.rw.sent = some x) :
    c.finish fx C = { c.rw with body := c.finalBody fx C } := by
  obtain ⟨rw, enc, wh, st, sc⟩ := c
  simp only at h
  unfold RC.finish RC.finalBody
  cases st <;> cases fx <;> cases wh <;> by_cases h1 : enc = [] <;> by_cases h2 : enc = identity <;>
    simp [RW.writeHeader, h, h1, h2]

theorem ofStr_nil (C : Codecs) : C.ofStr [] = idCodec := by
  simp [Codecs.ofStr, codingOf_nil, Codecs.of]

theorem plainOfOps_of_not_hasWrite (ops : List HOp) (h : hasWrite ops = false) : plainOfOps ops = [] := by
  induction ops with
  | nil => rfl
  | cons o ops ih => cases o <;> simp_all [hasWrite, plainOfOps]

/-- no operation at all: net/http sends 200 with an empty body and no Content-Encoding -/
theorem RC.run_nil (fx : Bool) (C : Codecs) (e : Str) :
    (([] : List HOp).foldl (RC.step fx) (rc0 e)).finish fx C = ⟨⟨none, none⟩, some (200, ⟨none, none⟩), []⟩ := by
  simp [rc0, RC.finish, RW.writeHeader]

/-- first operation `WriteHeader(s)` with `s ≥ 300`: the answer is not compressed -/
theorem RC.run_header_err (fx : Bool) (C : Codecs) (e : Str) (s : Nat) (rest : List HOp) (hs : 300 ≤ s) :
    ((HOp.header s :: rest).foldl (RC.step fx) (rc0 e)).finish fx C
      = ⟨⟨none, none⟩, some (s, ⟨none, none⟩), plainOfOps rest⟩ := by
  have h1 : RC.step fx (rc0 e) (.header s) = ⟨⟨⟨none, none⟩, some (s, ⟨none, none⟩), []⟩, [], true, false, []⟩ := by
    simp [RC.step, RC.headerStep, rc0, hs, RW.writeHeader]
  simp only [List.foldl_cons, h1]
  rw [RC.fold_sent fx rest _ (s, ⟨none, none⟩) rfl rfl, RC.finish_sent fx C _ (s, ⟨none, none⟩) rfl]
  simp only [RC.finalBody, Bool.false_or, List.nil_append, ofStr_nil]
  cases hw : hasWrite rest with
  | true => simp [idCodec, plainOf_wopsFrom]
  | false => simp [plainOfOps_of_not_hasWrite rest hw]

/-- first operation `WriteHeader(s)` with `s < 300`: Content-Encoding is announced at once; without any
    `Write` the body stays empty (before the repair) / is the coding's empty stream (after) -/
theorem RC.run_header_ok (fx : Bool) (C : Codecs) (e : Str) (s : Nat) (rest : List HOp) (hs : s < 300)
    (he : e ≠ [] ∧ e ≠ identity) :
    ((HOp.header s :: rest).foldl (RC.step fx) (rc0 e)).finish fx C
      = ⟨⟨some e, none⟩, some (s, ⟨some e, none⟩),
          if hasWrite rest then (C.ofStr e).enc (wopsFrom false rest)
          else if fx then (C.ofStr e).enc (wopsFrom false rest ++ [.write []]) else []⟩ := by
  have h3 : ¬ s ≥ 300 := by omega
  have h1 : RC.step fx (rc0 e) (.header s)
      = ⟨⟨⟨some e, none⟩, some (s, ⟨some e, none⟩), []⟩, e, true, false, []⟩ := by
    simp [RC.step, RC.headerStep, rc0, h3, he, RW.writeHeader, RW.setCE]
  simp only [List.foldl_cons, h1]
  rw [RC.fold_sent fx rest _ (s, ⟨some e, none⟩) rfl rfl, RC.finish_sent fx C _ (s, ⟨some e, none⟩) rfl]
  cases hw : hasWrite rest <;> cases fx <;> simp [RC.finalBody, hw, he]

/-- first operation `Write(d)`: 200, Content-Encoding announced, everything goes through the compressor -/
theorem RC.run_write (fx : Bool) (C : Codecs) (e : Str) (d : Bytes) (rest : List HOp) :
    ((HOp.write d :: rest).foldl (RC.step fx) (rc0 e)).finish fx C
      = ⟨⟨some e, none⟩, some (200, ⟨some e, none⟩), (C.ofStr e).enc (.write d :: wopsFrom true rest)⟩ := by
  have h1 : RC.step fx (rc0 e) (.write d)
      = ⟨⟨⟨some e, none⟩, some (200, ⟨some e, none⟩), []⟩, e, true, true, [.write d]⟩ := by
    simp [RC.step, rc0, RW.writeHeader, RW.setCE]
  simp only [List.foldl_cons, h1]
  rw [RC.fold_sent fx rest _ (200, ⟨some e, none⟩) rfl rfl, RC.finish_sent fx C _ (200, ⟨some e, none⟩) rfl]
  simp [RC.finalBody]

/-- **the defect (before the repair)**: first operation `Flush()`, then `Write(d)`: the header went out
    without Content-Encoding, the body is compressed all the same -/
theorem RC.run_flush_write (C : Codecs) (e : Str) (d : Bytes) (rest : List HOp) :
    ((HOp.flush :: HOp.write d :: rest).foldl (RC.step false) (rc0 e)).finish false C
      = ⟨⟨some e, none⟩, some (200, ⟨none, none⟩), (C.ofStr e).enc (.write d :: wopsFrom true rest)⟩ := by
  have h1 : RC.step false (RC.step false (rc0 e) .flush) (.write d)
      = ⟨⟨⟨some e, none⟩, some (200, ⟨none, none⟩), []⟩, e, true, true, [.write d]⟩ := by
    simp [RC.step, rc0, RW.writeHeader, RW.setCE, RW.flush]
  simp only [List.foldl_cons, h1]
  rw [RC.fold_sent false rest _ (200, ⟨none, none⟩) rfl rfl, RC.finish_sent false C _ (200, ⟨none, none⟩) rfl]
  simp [RC.finalBody]

/-- **after the repair**: a first `Flush()` acts like `WriteHeader(200)` -/
theorem RC.run_flush_fixed (C : Codecs) (e : Str) (rest : List HOp) (he : e ≠ [] ∧ e ≠ identity) :
    ((HOp.flush :: rest).foldl (RC.step true) (rc0 e)).finish true C
      = ((HOp.header 200 :: rest).foldl (RC.step true) (rc0 e)).finish true C := by
  have h1 : RC.step true (rc0 e) .flush = RC.step true (rc0 e) (.header 200) := by
    simp [RC.step, RC.headerStep, rc0, he, RW.writeHeader, RW.setCE, RW.flush]
  simp only [List.foldl_cons, h1]

/-! ### the middleware -/

theorem middleware_refuse (fx : Bool) (C : Codecs) (next : Handler) (preCL : Option Nat) (r : Req)
    (h : requestCoding r = none) : middlewareG fx C next preCL r = httpError 415 msg415 := by
  simp [middlewareG, h]

theorem middleware_badopen (fx : Bool) (C : Codecs) (next : Handler) (preCL : Option Nat) (r : Req) (k : Coding)
    (h : requestCoding r = some k) (ho : (C.of k).opens r.body.1 = false) :
    middlewareG fx C next preCL r = httpError 400 msg400 := by
  simp [middlewareG, h, ho]

theorem middleware_plain (fx : Bool) (C : Codecs) (next : Handler) (preCL : Option Nat) (r : Req) (k : Coding)
    (h : requestCoding r = some k) (ho : (C.of k).opens r.body.1 = true)
    (he : responseEncoding r = []) :
    middlewareG fx C next preCL r =
      ⟨statusOfOps (next (readAll (C.of k) r.body)), none, acceptedEncodings, preCL,
        plainOfOps (next (readAll (C.of k) r.body)), some (readAll (C.of k) r.body)⟩ := by
  simp [middlewareG, h, ho, he, RW.fold_fresh, respOf]

theorem middleware_compressed (fx : Bool) (C : Codecs) (next : Handler) (preCL : Option Nat) (r : Req) (k : Coding)
    (h : requestCoding r = some k) (ho : (C.of k).opens r.body.1 = true)
    (he : responseEncoding r ≠ []) :
    middlewareG fx C next preCL r =
      respOf (((next (readAll (C.of k) r.body)).foldl (RC.step fx) (rc0 (responseEncoding r))).finish fx C)
        (some (readAll (C.of k) r.body)) := by
  have hne : responseEncoding r ≠ identity := by
    rcases selectEncoding_cases (headerGet r.ae) with h1 | h1 | h1
    · exact absurd h1 he
    · show selectEncoding _ ≠ identity; rw [h1]; exact Ne.symm identity_ne_gzip
    · show selectEncoding _ ≠ identity; rw [h1]; exact Ne.symm identity_ne_snappy
  simp [middlewareG, h, ho, he, hne, rc0, RW.setCL]

theorem respOf_ran (w : RW) (ran : Option Read) : (respOf w ran).ran = ran := by
  unfold respOf; split <;> rfl

/-- whatever the handler does, the handler's view of the request body is fixed by the request alone -/
theorem middleware_ran (fx : Bool) (C : Codecs) (next : Handler) (preCL : Option Nat) (r : Req) (k : Coding)
    (h : requestCoding r = some k) (ho : (C.of k).opens r.body.1 = true) :
    (middlewareG fx C next preCL r).ran = some (readAll (C.of k) r.body) := by
  by_cases he : responseEncoding r = []
  · rw [middleware_plain fx C next preCL r k h ho he]
  · rw [middleware_compressed fx C next preCL r k h ho he, respOf_ran]

/-! ### the client's decoding -/

theorem ofStr_gzip (C : Codecs) : C.ofStr gzip = C.gz := by
  simp [Codecs.ofStr, codingOf_gzip, Codecs.of]

theorem ofStr_snappy (C : Codecs) : C.ofStr snappy = C.sn := by
  simp [Codecs.ofStr, codingOf_snappy, Codecs.of]

theorem readAll_eof (c : Codec) (w p : Bytes) (h : c.dec w = some p) : readAll c (w, .eof) = .complete p := by
  simp [readAll, h]

theorem readAll_error (c : Codec) (w : Bytes) (t : Bool) : readAll c (w, .error t) = .failed := by
  simp [readAll]

theorem clientRead_plain (C : Codecs) (explicit chunked : Bool) (s : Nat) (ae : Str) (cl : Option Nat) (w : Bytes)
    (ran : Option Read) : clientRead C explicit chunked ⟨s, none, ae, cl, w, ran⟩ .eof = .body s (.complete w) := by
  simp [clientRead, codingOf_nil, Codecs.of, idCodec, readAll]

theorem clientRead_encoded (C : Codecs) (explicit chunked : Bool) (e : Str) (he : e = gzip ∨ e = snappy) (s : Nat)
    (ae : Str) (cl : Option Nat) (w p : Bytes) (ran : Option Read) (hdec : (C.ofStr e).dec w = some p) :
    clientRead C explicit chunked ⟨s, some e, ae, cl, w, ran⟩ .eof = .body s (.complete p) := by
  rcases he with he | he
  · subst he
    rw [ofStr_gzip] at hdec
    have ho := C.gz.opens_of_dec w p hdec
    by_cases hw : w = []
    · subst hw
      have := C.gz.dec_nil p hdec
      subst this
      by_cases hc : explicit = false ∧ chunked = true
      · simp [clientRead, hc.1, hc.2]
      · have : ¬ (explicit = false ∧ some gzip = some gzip ∧ (([] : Bytes) ≠ [] ∨ chunked = true)) := by
          intro h; exact hc ⟨h.1, by simpa using h.2.2⟩
        rw [clientRead, if_neg this]
        simp [codingOf_gzip, Codecs.of, ho, readAll, hdec]
    · cases explicit with
      | false => simp [clientRead, readAll, hdec, hw]
      | true => simp [clientRead, codingOf_gzip, Codecs.of, ho, readAll, hdec]
  · subst he
    rw [ofStr_snappy] at hdec
    have ho := C.sn.opens_of_dec w p hdec
    have hne : snappy ≠ gzip := Ne.symm gzip_ne_snappy
    simp [clientRead, codingOf_snappy, Codecs.of, ho, readAll, hdec, hne]

theorem responseEncoding_cases (r : Req) :
    responseEncoding r = [] ∨ responseEncoding r = gzip ∨ responseEncoding r = snappy :=
  selectEncoding_cases _

theorem requestCoding_name (k : Coding) (ae : List Str) (b : Stream) :
    requestCoding ⟨[codingName k], ae, b⟩ = some k := by
  show codingOf (headerGet [codingName k]) = some k
  cases k <;> decide

/-- the answer the compressor leaves behind, read off its writer -/
theorem respOf_finish (fx : Bool) (C : Codecs) (c : RC) (ran : Option Read) :
    respOf (c.finish fx C) ran =
      match c.rw.sent with
      | some (s, h) => ⟨s, h.ce, acceptedEncodings, h.cl, c.finalBody fx C, ran⟩
      | none => ⟨200, c.rw.hdr.ce, acceptedEncodings, c.rw.hdr.cl, c.finalBody fx C, ran⟩ := by
  cases hs : c.rw.sent with
  | some x =>
    obtain ⟨s, h⟩ := x
    rw [RC.finish_sent fx C c (s, h) hs]
    simp [respOf, hs]
  | none =>
    obtain ⟨rw, enc, wh, st, sc⟩ := c
    simp only at hs
    unfold RC.finish RC.finalBody
    cases st <;> cases fx <;> cases wh <;> by_cases h1 : enc = [] <;> by_cases h2 : enc = identity <;>
      simp [respOf, RW.writeHeader, hs, h1, h2]

/- line-protocol handler for the reader calculus (first token RD; served under C09)

   RD run <digester> <arg> <term> <eager> <chunks>
      digester  pe | pepage | cab | ps | xap | msi | msiex | hashpages | deb | ziptar (arg = script `len@off;len@off;…` of ReadAt calls)
      arg       signature style (ps) or `-`
      term      eof | fail
      eager     1 = the terminal error is delivered together with the last data
      chunks    `.` (none) or hex strings joined by `,` (`-` = an empty read)
   answer: what the program of Relic.Model.ReaderProgs computes on exactly this stream, then `split=same` when the
   same program on the whole buffer (`runFlat`) gives the same result and sink contents, else `split=DIFF:<whole>`.
   RD frag …   implementation-level oracle, no model: the expected line is the property itself
   RD http …   the same, through net/http
   RD e2e  …   the same: transform, fragmenting reader, Sign, Apply, Verify -/
import Relic.Model.ReaderProgs
import Relic.Model.Xap
namespace Relic.Driver.Readers
open Relic Relic.Rd

def parseChunks (s : String) : Option (List Bytes) :=
  if s = "." then some [] else (s.splitOn ",").mapM fromHex

def showFail : Fail → String
  | .err e => s!"err {e}"
  | .panic p => s!"panic {p}"
  | .diverge => "diverge"

def showPages (ps : List (Nat × Bytes)) : String :=
  ",".intercalate (ps.map fun (o, b) => s!"{o}:{toHex b}")

def showPE (r : Res PEOut) (l : Log) : String :=
  match r with
  | .ok d =>
    let base := s!"ok {d.origSize} {d.certStart} hashed={toHex (sinkBytes l hashSink)}"
    match d.pages with
    | some ps => s!"{base} pages={showPages ps}"
    | none => base
  | .err e => s!"err {e}"
  | .panic p => s!"panic {p}"
  | .diverge => "diverge"

def showCab (r : Res Cab.Digest) (l : Log) : String :=
  match r with
  | .ok d => s!"ok hashed={toHex (sinkBytes l hashSink)} patched={toHex (sinkBytes l patchedSink)} sig={d.signature.length}"
  | .err e => s!"err {e}"
  | .panic p => s!"panic {p}"
  | .diverge => "diverge"

def showPS (r : Res PSOut) (l : Log) : String :=
  match r with
  | .ok d => s!"ok {d.textSize} {d.sigSize} {if d.utf16 then 1 else 0} hashed={toHex (sinkBytes l hashSink)}"
  | .err e => s!"err {e}"
  | .panic p => s!"panic {p}"
  | .diverge => "diverge"

def showRes {α} (r : Res α) (f : α → String) : String :=
  match r with
  | .ok a => f a
  | .err e => s!"err {e}"
  | .panic p => s!"panic {p}"
  | .diverge => "diverge"

def showXap (r : Res XapOut) (l : Log) : String :=
  showRes r fun d => s!"ok {d.patchStart} {d.patchLen} hashed={toHex (sinkBytes l hashSink)}"

/-- the writes to `d` in order; `p:` = a blob that is hashed first (the inner digest goes to `d`) -/
def showMsi (r : Res Unit) (l : Log) : String :=
  showRes r fun _ =>
    let segs := l.filterMap fun (i, b) =>
      if i == hashSink then (if b.isEmpty then none else some s!"d:{toHex b}") else if i == preSink then some s!"p:{toHex b}" else none
    s!"ok segs={if segs.isEmpty then "-" else ",".intercalate segs}"

def showCodePages (r : Res (List Bytes × Nat)) (_ : Log) : String :=
  showRes r fun (ps, lim) => s!"ok {lim} {ps.length} pages={if ps.isEmpty then "." else ",".intercalate (ps.map toHex)}"

def showDeb (r : Res DebOut) (_ : Log) : String :=
  showRes r fun d =>
    let fs := d.files.map fun (n, sz, b) => s!"{toHex n}:{sz}:{toHex b}"
    s!"ok {d.patchOffset} {d.patchLength} files={if fs.isEmpty then "." else ",".intercalate fs}"

def showZAns : ZAns → String
  | .ok b => s!"{toHex b}:-"
  | .backwards => "-:backwards"
  | .skipErr e => s!"-:{e}"
  | .short got e => s!"{toHex got}:{e}"

def transportErr : ZAns → Bool
  | .skipErr e => e.startsWith "read:"
  | .short _ e => e.startsWith "read:"
  | _ => false

/-- the scripted ZIP consumer: the given `ReadAt(len, off)` calls, all answers reported; it stops at the first answer
    that carries a transport error (as every real consumer does: after that, whether later calls report io.EOF or the
    transport error again depends on whether the error arrived together with the member's last byte) -/
def scriptClient : List (Nat × Nat) → List String → ZClient String
  | [], acc => .done ("|".intercalate acc)
  | (len, off) :: rest, acc =>
    .readAt len off fun a =>
      if transportErr a then .done ("|".intercalate (acc ++ [showZAns a])) else scriptClient rest (acc ++ [showZAns a])

def parseScript (s : String) : Option (List (Nat × Nat)) :=
  if s = "-" then some [] else
  (s.splitOn ";").mapM fun p =>
    match p.splitOn "@" with
    | [a, b] => do
      let x ← a.toNat?
      let y ← b.toNat?
      pure (x, y)
    | _ => none

def showZip (r : Res String) (_ : Log) : String :=
  showRes r fun t => s!"ok {if t.isEmpty then "-" else t}"

/-- `path.Clean` on the simple names the generator writes: trailing slashes removed -/
def cleanName (n : Bytes) : Bytes :=
  let t := (n.reverse.dropWhile (· = 47)).reverse
  if t.isEmpty then n.take 1 else t

/-- run on the stream and on the whole buffer; tag: is the stream plain / stall-free -/
def both {α} (p : Prog α) (s : Stream) (shw : Res α → Log → String) : String :=
  let (r, l, _) := run p (M.raw s)
  let (r', l', _) := runFlat p (Flat.raw s.data s.term)
  let a := shw r l
  let b := shw r' l'
  let plain := if s.chunks.all (fun c => !c.isEmpty) && !s.eager then 1 else 0
  let stall := if decide s.NoStall then 0 else 1
  let split := if a == b then "split=same" else s!"split=DIFF:{(b.splitOn " ").headD ""}"
  s!"{a} {split} #plain={plain} stall={stall} len={s.data.length}"

def handle : List String → String
  | ["run", dg, arg, term, eager, chunks] =>
    match parseChunks chunks with
    | none => "bad-op"
    | some cs =>
      let t : Term := if term = "eof" then .eof else .fail "injected"
      let s : Stream := ⟨cs, t, eager = "1"⟩
      match dg with
      | "pe" => both (digestPE false) s showPE
      | "pepage" => both (digestPE true) s showPE
      | "cab" => both digestCab s showCab
      | "ps" =>
        match arg.toNat? with
        | some style => both (digestPS style (s.data.length + 2)) s showPS
        | none => "bad-op"
      | "xap" => both (digestXapTar Relic.Xap.removeSignature (s.data.length / 512 + 3)) s showXap
      | "msi" => both (digestMsiTar false (s.data.length / 512 + 3)) s showMsi
      | "msiex" => both (digestMsiTar true (s.data.length / 512 + 3)) s showMsi
      | "hashpages" => both (hashPages 4096 (s.data.length / 4096 + 3)) s showCodePages
      | "ziptar" =>
        match parseScript arg with
        | some sc => both (readZipTar fun cd size => scriptClient sc [s!"cd={cd.length}", s!"size={size}"]) s showZip
        | none => "bad-op"
      | "deb" => both (digestDeb cleanName ("_gpg".toUTF8.toList ++ arg.toUTF8.toList) (s.data.length / 60 + 3)) s showDeb
      | _ => "bad-op"
  -- implementation-level oracles: the expected line is the property itself
  | "frag" :: _ => "ok same #oracle"
  | "http" :: _ => "ok same #oracle"
  | "e2e" :: _ => "ok same #oracle"
  | _ => "bad-op"

end Relic.Driver.Readers

package c11

import (
	"archive/zip"
	"bytes"
	"crypto"
	_ "crypto/sha1"
	_ "crypto/sha256"
	"crypto/x509"
	"errors"
	"fmt"
	"io"
	"net/url"
	"os"
	"path/filepath"
	"strings"
	"time"

	"github.com/ProtonMail/go-crypto/openpgp"
	"github.com/sassoftware/relic/v8/lib/audit"
	"github.com/sassoftware/relic/v8/lib/authenticode"
	"github.com/sassoftware/relic/v8/lib/binpatch"
	"github.com/sassoftware/relic/v8/lib/cabfile"
	"github.com/sassoftware/relic/v8/lib/certloader"
	"github.com/sassoftware/relic/v8/lib/comdoc"
	"github.com/sassoftware/relic/v8/lib/fruit/csblob"
	"github.com/sassoftware/relic/v8/lib/magic"
	"github.com/sassoftware/relic/v8/lib/pkcs7"
	"github.com/sassoftware/relic/v8/lib/signappx"
	"github.com/sassoftware/relic/v8/lib/signjar"
	"github.com/sassoftware/relic/v8/lib/signxap"
	"github.com/sassoftware/relic/v8/lib/zipslicer"
	"github.com/sassoftware/relic/v8/signers"

	"verifharness/sg"
)

// file name under which a signer type sees its input (some signers look at the extension)
var typeExt = map[string]string{
	"pe-coff": "in.exe", "msi": "in.msi", "cab": "in.cab", "ps": "in.ps1", "jar": "in.jar", "apk": "in.apk", "appx": "in.appx",
	"vsix": "in.vsix", "xap": "in.xap", "cat": "in.cat", "deb": "in.deb", "rpm": "in.rpm", "dmg": "in.dmg", "xar": "in.pkg",
	"mach-o": "in.bin", "mach-o-fat": "in.fat", "ipa": "in.ipa", "pgp": "in.txt", "pkcs7": "in.p7s", "appmanifest": "in.manifest",
	"cosign": "in.json",
}

func writeInput(name string, data []byte) (string, error) {
	p := filepath.Join(scratchDir, name)
	if err := os.WriteFile(p, data, 0o644); err != nil {
		return "", err
	}
	return p, nil
}

func signOpts(mod *signers.Signer, path string, cert *certloader.Certificate, flags map[string]string) (signers.SignOpts, error) {
	q := url.Values{}
	for k, v := range flags {
		q.Set(k, v)
	}
	fv, err := mod.FlagsFromQuery(q)
	if err != nil {
		return signers.SignOpts{}, err
	}
	info := audit.New(cert.KeyName, mod.Name, crypto.SHA256)
	now := time.Date(2026, 1, 2, 3, 4, 5, 0, time.UTC)
	info.SetTimestamp(now)
	if cert.Leaf != nil {
		info.SetX509Cert(cert.Leaf)
	}
	if cert.PgpKey != nil {
		info.SetPgpCert(cert.PgpKey)
	}
	return signers.SignOpts{Path: path, Hash: crypto.SHA256, Time: now, Audit: info, Flags: fv}, nil
}

func certFor(mod *signers.Signer) *certloader.Certificate {
	if mod.CertTypes&signers.CertTypePgp != 0 {
		return sg.Cert("rsa")
	}
	return sg.Cert("p256")
}

func typeFlags(typ string) map[string]string {
	if typ == "ps" {
		return map[string]string{"ps-style": ".ps1"}
	}
	return map[string]string{}
}

// transformStream: the client-side transform of `data` as signer type typ would upload it.
func transformStream(typ string, data []byte) ([]byte, error) {
	mod := signers.ByName(typ)
	if mod == nil {
		return nil, errors.New("no signer " + typ)
	}
	p, err := writeInputTmp(typeExt[typ], data)
	if err != nil {
		return nil, err
	}
	defer os.Remove(p)
	f, err := os.Open(p)
	if err != nil {
		return nil, err
	}
	defer f.Close()
	opts, err := signOpts(mod, p, certFor(mod), typeFlags(typ))
	if err != nil {
		return nil, err
	}
	tr, err := mod.GetTransform(f, opts)
	if err != nil {
		return nil, err
	}
	r, err := tr.GetReader()
	if err != nil {
		return nil, err
	}
	return io.ReadAll(r)
}

func writeInputTmp(name string, data []byte) (string, error) {
	dir := scratchDir
	if dir == "" {
		dir = os.TempDir()
	}
	f, err := os.CreateTemp(dir, "b-*-"+name)
	if err != nil {
		return "", err
	}
	defer f.Close()
	if _, err := f.Write(data); err != nil {
		return "", err
	}
	return f.Name(), nil
}

// appxTarWithExe: upload tar (zipslicer.ZipToTar) of a minimal AppX-like zip whose first member is a.exe = peb.
func appxTarWithExe(peb []byte) ([]byte, error) {
	manifest, err := extractZipMember(filepath.Join(fixturesDir(), "App1_1.0.3.0_x64.appx"), "AppxManifest.xml")
	if err != nil {
		return nil, err
	}
	ctypes, err := extractZipMember(filepath.Join(fixturesDir(), "App1_1.0.3.0_x64.appx"), "[Content_Types].xml")
	if err != nil {
		return nil, err
	}
	var zb bytes.Buffer
	zw := zip.NewWriter(&zb)
	add := func(name string, data []byte) error {
		w, err := zw.CreateHeader(&zip.FileHeader{Name: name, Method: zip.Store})
		if err != nil {
			return err
		}
		_, err = w.Write(data)
		return err
	}
	if err := add("a.exe", peb); err != nil {
		return nil, err
	}
	if err := add("AppxManifest.xml", manifest); err != nil {
		return nil, err
	}
	if err := add("[Content_Types].xml", ctypes); err != nil {
		return nil, err
	}
	if err := zw.Close(); err != nil {
		return nil, err
	}
	p, err := writeInputTmp("in.appx", zb.Bytes())
	if err != nil {
		return nil, err
	}
	defer os.Remove(p)
	f, err := os.Open(p)
	if err != nil {
		return nil, err
	}
	defer f.Close()
	var tb bytes.Buffer
	if err := zipslicer.ZipToTar(f, &tb); err != nil {
		return nil, err
	}
	return tb.Bytes(), nil
}

func extractZipMember(path, name string) ([]byte, error) {
	zr, err := zip.OpenReader(path)
	if err != nil {
		return nil, err
	}
	defer zr.Close()
	for _, f := range zr.File {
		if f.Name == name {
			rc, err := f.Open()
			if err != nil {
				return nil, err
			}
			defer rc.Close()
			return io.ReadAll(rc)
		}
	}
	return nil, errors.New("no member " + name)
}

func cls(err error) string {
	if err != nil {
		return "err"
	}
	return "ok"
}

// runEntry: one entry point on one input.
func runEntry(entry string, data []byte) string {
	kind, arg := entry, ""
	if i := strings.IndexByte(entry, ':'); i >= 0 {
		kind, arg = entry[:i], entry[i+1:]
	}
	if kind == "lib" {
		return runLib(arg, data)
	}
	mod := signers.ByName(arg)
	if mod == nil {
		return "bad-op signer"
	}
	name := typeExt[arg]
	if name == "" {
		name = "in.bin"
	}
	p, err := writeInput(name, data)
	if err != nil {
		return "harness-error write"
	}
	f, err := os.Open(p)
	if err != nil {
		return "harness-error open"
	}
	defer f.Close()
	switch kind {
	case "verify":
		if mod.Verify == nil && mod.VerifyStream == nil {
			return "bad-op noverify"
		}
		opts := signers.VerifyOpts{FileName: p, NoChain: true}
		if c := sg.Cert("rsa"); c.PgpKey != nil {
			opts.TrustedPgp = openpgp.EntityList{c.PgpKey}
		}
		opts.TrustedX509 = []*x509.Certificate{sg.Cert("rsa").Leaf}
		if mod.VerifyStream != nil {
			_, err = mod.VerifyStream(f, opts)
		} else {
			_, err = mod.Verify(f, opts)
		}
		return cls(err)
	case "issigned":
		_, err := mod.IsSigned(f)
		return cls(err)
	case "transform", "sign":
		cert := certFor(mod)
		opts, err := signOpts(mod, p, cert, typeFlags(arg))
		if err != nil {
			return "harness-error flags"
		}
		tr, err := mod.GetTransform(f, opts)
		if err != nil {
			return "err"
		}
		r, err := tr.GetReader()
		if err != nil {
			return "err"
		}
		if kind == "transform" {
			_, err = io.Copy(io.Discard, r)
			return cls(err)
		}
		if mod.Sign == nil {
			return "bad-op nosign"
		}
		_, err = mod.Sign(r, cert, opts)
		return cls(err)
	case "signraw": // the bytes as the server would receive them (no client-side transform)
		if mod.Sign == nil {
			return "bad-op nosign"
		}
		cert := certFor(mod)
		opts, err := signOpts(mod, p, cert, typeFlags(arg))
		if err != nil {
			return "harness-error flags"
		}
		_, err = mod.Sign(bytes.NewReader(data), cert, opts)
		return cls(err)
	}
	return "bad-op entry"
}

// LibEntries: direct library entry points.
var LibEntries = []string{"digestpe", "digestpe-ph", "verifype", "binpatch", "zipread", "ziptar", "comdoc", "verifymsi", "cabparse",
	"cabdigest", "psdigest", "psverify", "csblob", "certs", "magic", "jarmanifest", "pkcs7", "appxtar", "xaptar", "msitar", "appxverify", "xapverify"}

func runLib(name string, data []byte) string {
	switch name {
	case "digestpe", "digestpe-ph":
		_, err := authenticode.DigestPE(bytes.NewReader(data), crypto.SHA256, name == "digestpe-ph")
		return cls(err)
	case "verifype":
		_, err := authenticode.VerifyPE(bytes.NewReader(data), false)
		return cls(err)
	case "binpatch":
		_, err := binpatch.Load(data)
		return cls(err)
	case "zipread":
		d, err := zipslicer.Read(bytes.NewReader(data), int64(len(data)))
		if err != nil {
			return "err"
		}
		var first error
		for _, f := range d.File {
			if _, err := f.GetTotalSize(); err != nil && first == nil {
				first = err
			}
			rc, err := f.Open()
			if err != nil {
				if first == nil {
					first = err
				}
				continue
			}
			if _, err := io.Copy(io.Discard, io.LimitReader(rc, 64<<20)); err != nil && first == nil {
				first = err
			}
			rc.Close()
		}
		if _, err := d.NextFileOffset(); err != nil && first == nil {
			first = err
		}
		return cls(first)
	case "ziptar":
		d, err := zipslicer.ReadZipTar(bytes.NewReader(data))
		if err != nil {
			return "err"
		}
		for _, f := range d.File {
			rc, err := f.Open()
			if err != nil {
				return "err"
			}
			_, err = io.Copy(io.Discard, io.LimitReader(rc, 64<<20))
			rc.Close()
			if err != nil {
				return "err"
			}
		}
		return "ok"
	case "comdoc":
		cdf, err := comdoc.ReadFile(bytes.NewReader(data))
		if err != nil {
			return "err"
		}
		var first error
		var walk func(parent *comdoc.DirEnt, depth int)
		walk = func(parent *comdoc.DirEnt, depth int) {
			files, err := cdf.ListDir(parent)
			if err != nil {
				if first == nil {
					first = err
				}
				return
			}
			for _, e := range files {
				switch e.Type {
				case comdoc.DirStream:
					r, err := cdf.ReadStream(e)
					if err == nil {
						_, err = io.Copy(io.Discard, r)
					}
					if err != nil && first == nil {
						first = err
					}
				case comdoc.DirStorage:
					if depth < 8 {
						walk(e, depth+1)
					}
				}
			}
		}
		walk(nil, 0)
		return cls(first)
	case "verifymsi":
		_, err := authenticode.VerifyMSI(bytes.NewReader(data), false)
		return cls(err)
	case "cabparse":
		_, err := cabfile.Parse(bytes.NewReader(data))
		return cls(err)
	case "cabdigest":
		_, err := cabfile.Digest(bytes.NewReader(data), crypto.SHA256)
		return cls(err)
	case "psdigest":
		_, err := authenticode.DigestPowershell(bytes.NewReader(data), authenticode.SigStyleHash, crypto.SHA256)
		return cls(err)
	case "psverify":
		_, err := authenticode.VerifyPowershell(bytes.NewReader(data), authenticode.SigStyleHash, false)
		return cls(err)
	case "csblob":
		_, err := csblob.Verify(data, csblob.VerifyParams{})
		return cls(err)
	case "certs":
		_, err := certloader.ParseX509Certificates(data)
		return cls(err)
	case "magic":
		t := magic.Detect(bytes.NewReader(data))
		return fmt.Sprintf("ok #%d", t)[:2]
	case "jarmanifest":
		if _, err := signjar.ParseManifest(data); err != nil {
			return "err"
		}
		_, err := signjar.DigestManifest(data, crypto.SHA256, false, false)
		return cls(err)
	case "pkcs7":
		psd, err := pkcs7.Unmarshal(data)
		if err != nil {
			return "err"
		}
		_, err = psd.Content.Verify(nil, false)
		return cls(err)
	case "appxtar":
		_, err := signappx.DigestAppxTar(bytes.NewReader(data), crypto.SHA256, false)
		return cls(err)
	case "xaptar":
		_, err := signxap.DigestXapTar(bytes.NewReader(data), crypto.SHA256, false)
		return cls(err)
	case "msitar":
		_, err := authenticode.DigestMsiTar(bytes.NewReader(data), crypto.SHA256, true)
		return cls(err)
	case "appxverify":
		_, err := signappx.Verify(bytes.NewReader(data), int64(len(data)), false)
		return cls(err)
	case "xapverify":
		_, err := signxap.Verify(bytes.NewReader(data), int64(len(data)), false)
		return cls(err)
	}
	return "bad-op lib"
}

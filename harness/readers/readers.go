// Package readers: implementation runner and generator for the reader calculus (Relic.Model.Reader / ReaderProgs;
// first op token RD, served under C09).
//
//	RD run  <digester> <arg> <term> <eager> <chunks>   the real digester on a reader that delivers exactly these chunks
//	RD frag <format> <sched> <seed>                     fixture / generated input through a fragmenting reader
//	RD e2e  <signer> <fixture> <sched> <seed>           transform -> fragmenting reader -> Sign -> Apply -> Verify
//	RD http <format> <garbage> <mode> <seed>            the digester behind a real net/http server
package readers

import (
	"archive/tar"
	"archive/zip"
	"bytes"
	"context"
	"crypto"
	"crypto/sha256"
	"encoding/hex"
	"errors"
	"fmt"
	"io"
	"net/http"
	"net/http/httptest"
	"net/url"
	"os"
	"path/filepath"
	"sort"
	"strings"
	"sync"
	"time"

	"github.com/sassoftware/relic/v8/lib/audit"
	"github.com/sassoftware/relic/v8/lib/authenticode"
	"github.com/sassoftware/relic/v8/lib/cabfile"
	"github.com/sassoftware/relic/v8/lib/comdoc"
	"github.com/sassoftware/relic/v8/lib/fruit/csblob"
	"github.com/sassoftware/relic/v8/lib/signdeb"
	"github.com/sassoftware/relic/v8/lib/signjar"
	"github.com/sassoftware/relic/v8/lib/signxap"
	"github.com/sassoftware/relic/v8/lib/zipslicer"
	"github.com/sassoftware/relic/v8/signers"
	"github.com/sassoftware/relic/v8/signers/apk"

	"verifharness/hx"
	"verifharness/sg"
)

var errInjected = errors.New("injected")

// Scripted delivers exactly the given chunks (an empty chunk = `0, nil`), then `0, term` for ever; with eager the
// terminal error accompanies the delivery that exhausts the chunks.  Same definition as Relic.Rd.Stream.read.
type Scripted struct {
	chunks [][]byte
	term   error
	eager  bool
	reads  int
}

func (s *Scripted) Read(p []byte) (int, error) {
	s.reads++
	if len(s.chunks) == 0 {
		return 0, s.term
	}
	c := s.chunks[0]
	if len(c) <= len(p) {
		n := copy(p, c)
		s.chunks = s.chunks[1:]
		if len(s.chunks) == 0 && s.eager {
			return n, s.term
		}
		return n, nil
	}
	n := copy(p, c[:len(p)])
	s.chunks[0] = c[n:]
	return n, nil
}

func repo() string {
	if r := os.Getenv("VERIF_REPO"); r != "" {
		return r
	}
	return "/repo"
}

func fixture(name string) []byte {
	b, err := os.ReadFile(filepath.Join(repo(), "functest", "packages", name))
	if err != nil {
		panic(err)
	}
	return b
}

// ------------------------------------------------------------------------------------------------
// run: the modelled digesters

func classPE(err error) string {
	s := err.Error()
	switch {
	case errors.Is(err, errInjected):
		return "read:injected"
	case errors.Is(err, io.EOF) || errors.Is(err, io.ErrUnexpectedEOF) || strings.Contains(s, "failed to read data between"):
		return "eof"
	case strings.Contains(s, "not a PE file"):
		return "notpe"
	case strings.Contains(s, "unrecognized optional header magic"):
		return "optmagic"
	case strings.Contains(s, "did not leave room"):
		return "noroom"
	case strings.Contains(s, "overlaps section table"):
		return "secoverlap"
	case strings.Contains(s, "begins at"):
		return "secorder"
	case strings.Contains(s, "existing signature overlaps"):
		return "sigoverlap"
	case strings.Contains(s, "trailing garbage"):
		return "trailing"
	case strings.Contains(s, "file alignment is zero"):
		return "filealign-zero"
	case strings.Contains(s, "larger than a page"):
		return "pagehash-headers"
	}
	return "other:" + strings.ReplaceAll(s, " ", "_")
}

func classCab(err error) string {
	s := err.Error()
	switch {
	case errors.Is(err, errInjected):
		return "read:injected"
	case errors.Is(err, io.EOF) || errors.Is(err, io.ErrUnexpectedEOF):
		return "eof"
	case strings.Contains(s, "not a cab file"):
		return "notcab"
	case strings.Contains(s, "unknown reserved data"):
		return "reserved"
	case strings.Contains(s, "reserve header for signature is"):
		return "reservesize"
	case strings.Contains(s, "invalid padding"):
		return "padding"
	case strings.Contains(s, "cabinet size is"):
		return "sizemismatch"
	case strings.Contains(s, "multipart"):
		return "multipart"
	case strings.Contains(s, "unsupported flags"):
		return "flags"
	case strings.Contains(s, "trailing garbage"):
		return "trailing"
	}
	return "other:" + strings.ReplaceAll(s, " ", "_")
}

func classPS(err error) string {
	s := err.Error()
	switch {
	case errors.Is(err, errInjected):
		return "read:injected"
	case errors.Is(err, io.ErrNoProgress):
		return "noprogress"
	case errors.Is(err, io.EOF) || errors.Is(err, io.ErrUnexpectedEOF):
		return "eof"
	case strings.Contains(s, "malformed powershell signature"):
		return "badsig"
	case strings.Contains(s, "invalid powershell signature style"):
		return "style"
	}
	return "other:" + strings.ReplaceAll(s, " ", "_")
}

func classTar(err error) string {
	s := err.Error()
	switch {
	case errors.Is(err, errInjected):
		return "read:injected"
	case strings.Contains(s, "invalid tarzip"):
		return "invalid-tarzip"
	case errors.Is(err, io.ErrUnexpectedEOF):
		return "tar:unexpected-eof"
	case errors.Is(err, tar.ErrHeader):
		return "tar:header"
	case errors.Is(err, io.EOF):
		return "eof"
	}
	return "other:" + strings.ReplaceAll(s, " ", "_")
}

func classZip(err error) string {
	s := err.Error()
	switch {
	case errors.Is(err, errInjected):
		return "read:injected"
	case strings.Contains(s, "invalid tarzip"):
		return "invalid-tarzip"
	case strings.Contains(s, "seek backwards"):
		return "backwards"
	case errors.Is(err, io.ErrUnexpectedEOF):
		return "tar:unexpected-eof"
	case errors.Is(err, tar.ErrHeader):
		return "tar:header"
	case errors.Is(err, io.EOF):
		return "eof"
	}
	return "other:" + strings.ReplaceAll(s, " ", "_")
}

// runZipTar: the real zipslicer.ReadZipTar on the reader, then the scripted ReadAt calls (len@off;…) on the
// streamReaderAt it built (hook Directory.VerifReaderAt)
func runZipTar(script string, r io.Reader) string {
	dir, err := zipslicer.ReadZipTar(r)
	if err != nil {
		return "err " + classZip(err)
	}
	ra := dir.VerifReaderAt()
	out := []string{fmt.Sprintf("cd=%d", dir.Size-dir.DirLoc), fmt.Sprintf("size=%d", dir.Size)}
	if script != "-" {
		for _, p := range strings.Split(script, ";") {
			q := strings.SplitN(p, "@", 2)
			n, off := hx.Atoi(q[0]), hx.Atoi(q[1])
			buf := make([]byte, n)
			m, err := ra.ReadAt(buf, off)
			e := "-"
			if err != nil {
				e = classZip(err)
			}
			out = append(out, hx.Hex(buf[:m])+":"+e)
			if strings.HasPrefix(e, "read:") {
				// a consumer stops at a transport error; what later calls report (io.EOF or the error again) depends on
				// whether the error arrived with the member's last byte (zipTarReader keeps tr on a non-EOF error)
				break
			}
		}
	}
	return "ok " + strings.Join(out, "|")
}

// runDeb: signdeb.Sign; the clear-signed document is parsed back into the per-member lines
func runDeb(role string, r io.Reader) string {
	ent := sg.Cert("rsa").PgpKey
	if ent == nil {
		return "err no-pgp-key"
	}
	type res struct {
		sig *signdeb.DebSignature
		err error
	}
	ch := make(chan res, 1)
	go func() {
		sig, err := signdeb.Sign(r, ent, crypto.SHA256, role)
		ch <- res{sig, err}
	}()
	var rr res
	select {
	case rr = <-ch:
	case <-time.After(20 * time.Second):
		return "timeout"
	}
	if rr.err != nil {
		s := rr.err.Error()
		switch {
		case errors.Is(rr.err, errInjected):
			return "err read:injected"
		case strings.Contains(s, "no control.tar"):
			return "err control:missing"
		case errors.Is(rr.err, io.ErrUnexpectedEOF) && !strings.Contains(s, "gzip") && !strings.Contains(s, "control"):
			return "err eof"
		}
		return "err control:" + strings.ReplaceAll(s, " ", "_")
	}
	ps := rr.sig.PatchSet
	if len(ps.Patches) != 1 {
		return "err patches"
	}
	blob := ps.Blobs[0]
	var files []string
	for _, line := range strings.Split(string(blob), "\n") {
		if strings.HasPrefix(line, "\t") {
			f := strings.SplitN(line[1:], " ", 4)
			if len(f) == 4 {
				files = append(files, f[0]+":"+f[1]+":"+f[2]+":"+hex.EncodeToString([]byte(f[3])))
			}
		}
	}
	fs := "."
	if len(files) > 0 {
		fs = strings.Join(files, ",")
	}
	return fmt.Sprintf("ok %d %d files=%s", ps.Patches[0].Offset, ps.Patches[0].OldSize, fs)
}

// runDigester: the canonical result line of one digester on one reader
func runDigester(dg, arg string, r io.Reader) (res string) {
	defer func() {
		if v := recover(); v != nil {
			res = "panic " + strings.ReplaceAll(fmt.Sprint(v), " ", "_")
		}
	}()
	switch dg {
	case "pe", "pepage":
		d, err := authenticode.DigestPE(r, crypto.SHA256, dg == "pepage")
		if err != nil {
			return "err " + classPE(err)
		}
		out := fmt.Sprintf("ok %d %d imprint=%s", d.OrigSize, d.CertStart, hex.EncodeToString(d.Imprint))
		if dg == "pepage" {
			out += " pagehashes=" + hex.EncodeToString(d.PageHashes)
		}
		return out
	case "cab":
		d, err := cabfile.Digest(r, crypto.SHA256)
		if err != nil {
			return "err " + classCab(err)
		}
		return fmt.Sprintf("ok imprint=%s patched=%s sig=%d", hex.EncodeToString(d.Imprint), hx.Hex(d.Patched), len(d.Cabinet.Signature))
	case "xap":
		d, err := signxap.DigestXapTar(r, crypto.SHA256, false)
		if err != nil {
			return "err " + classTar(err)
		}
		return fmt.Sprintf("ok %d %d imprint=%s", d.PatchStart, d.PatchLen, hex.EncodeToString(d.Imprint))
	case "msi", "msiex":
		d, err := authenticode.DigestMsiTar(r, crypto.SHA256, dg == "msiex")
		if err != nil {
			return "err " + classTar(err)
		}
		return "ok imprint=" + hex.EncodeToString(d)
	case "hashpages":
		slots, n, lim, err := csblob.VerifHashPages(crypto.SHA256, r, false)
		if err != nil {
			return "err " + classTar(err)
		}
		return fmt.Sprintf("ok %d %d slots=%s", lim, n, hx.Hex(slots))
	case "deb":
		return runDeb(arg, r)
	case "ziptar":
		return runZipTar(arg, r)
	case "ps":
		d, err := authenticode.DigestPowershell(r, authenticode.PsSigStyle(hx.Atoi(arg)), crypto.SHA256)
		if err != nil {
			return "err " + classPS(err)
		}
		u := 0
		if d.IsUtf16 {
			u = 1
		}
		return fmt.Sprintf("ok %d %d %d imprint=%s", d.TextSize, d.SigSize, u, hex.EncodeToString(d.Imprint))
	}
	return "bad-op"
}

func parseChunks(s string) [][]byte {
	if s == "." {
		return nil
	}
	var out [][]byte
	for _, h := range strings.Split(s, ",") {
		out = append(out, hx.MustUnHex(h))
	}
	return out
}

func implRun(f []string) string {
	if len(f) != 5 {
		return "bad-op"
	}
	chunks := parseChunks(f[4])
	var term error = io.EOF
	if f[2] != "eof" {
		term = errInjected
	}
	var whole []byte
	for _, c := range chunks {
		whole = append(whole, c...)
	}
	got := runDigester(f[0], f[1], &Scripted{chunks: chunks, term: term, eager: f[3] == "1"})
	var one [][]byte
	if len(whole) > 0 {
		one = [][]byte{whole}
	}
	ref := runDigester(f[0], f[1], &Scripted{chunks: one, term: term})
	if got == ref {
		return got + " split=same"
	}
	// signdeb.Sign reports the error of its control-tarball parser (outside the reader program) as soon as that member has
	// been copied; which of two failures is reported first is not a digest: two refusals of which one is the parser's count as same
	if f[0] == "deb" && strings.HasPrefix(got, "err ") && strings.HasPrefix(ref, "err ") {
		ctl := func(s string) bool { return strings.HasPrefix(s, "err control:") || s == "err eof" }
		if ctl(got) || ctl(ref) {
			return got + " split=same"
		}
	}
	// a FAILING stream (terminal condition = transport error) read through zipslicer's tar reader: a read of zero bytes at the
	// end of the last member reports io.EOF when the error arrives after the last data and the transport error when it
	// arrives together with it.  Both say "no data here, the stream is over"; every data byte is compared all the same.
	if f[0] == "ziptar" && term != io.EOF {
		norm := func(s string) string { return strings.ReplaceAll(s, "|-:read:injected", "|-:eof") }
		cut := func(s string) string { // what follows the first end-of-stream answer depends on which of the two it was
			if i := strings.Index(s, "|-:eof"); i >= 0 {
				return s[:i+len("|-:eof")]
			}
			return s
		}
		if cut(norm(got)) == cut(norm(ref)) {
			return got + " split=same"
		}
	}
	return got + " split=DIFF:" + strings.SplitN(ref, " ", 2)[0]
}

// ------------------------------------------------------------------------------------------------
// fragmenting readers (no script in the op: a schedule of read sizes, 0 = an empty read)

type fragReader struct {
	r     io.Reader
	sched func() int
	eager bool // return io.EOF together with the last bytes (iotest.DataErrReader)
	buf   []byte
	done  bool
}

func (f *fragReader) Read(p []byte) (int, error) {
	if len(p) == 0 {
		return 0, nil
	}
	n := f.sched()
	if n == 0 {
		return 0, nil
	}
	if n > len(p) {
		n = len(p)
	}
	if !f.eager {
		return f.r.Read(p[:n])
	}
	// one byte of look-ahead so that EOF can be reported with the last data
	if f.done && len(f.buf) == 0 {
		return 0, io.EOF
	}
	for !f.done && len(f.buf) < n+1 {
		tmp := make([]byte, n+1-len(f.buf))
		m, err := f.r.Read(tmp)
		f.buf = append(f.buf, tmp[:m]...)
		if err != nil {
			f.done = true
		}
	}
	m := copy(p[:n], f.buf)
	f.buf = f.buf[m:]
	if f.done && len(f.buf) == 0 {
		return m, io.EOF
	}
	return m, nil
}

var Scheds = []string{"one", "seven", "p4095", "p4096", "p4097", "rand", "onethenall", "empties", "eager", "eagerone"}

func schedule(kind string, seed uint64) func() int {
	i := 0
	rng := hx.NewRng(seed)
	switch kind {
	case "one", "eagerone":
		return func() int { return 1 }
	case "seven":
		return func() int { return 7 }
	case "p4095":
		return func() int { return 4095 }
	case "p4096":
		return func() int { return 4096 }
	case "p4097":
		return func() int { return 4097 }
	case "rand":
		return func() int { return rng.Pick(1, 1, 2, 3, 7, 64, 511, 512, 513, 4095, 4096, 4097, 32768, 70001) }
	case "onethenall":
		return func() int {
			i++
			if i == 1 {
				return 1
			}
			return 1 << 30
		}
	case "empties":
		// empty reads between the data, never 100 in a row (bufio gives up then)
		return func() int {
			i++
			if i%3 != 0 {
				return 0
			}
			return rng.Pick(1, 5, 64, 4096, 70001)
		}
	}
	return func() int { return 1 << 30 }
}

func wrap(kind string, seed uint64, data []byte) io.Reader {
	if kind == "full" {
		return bytes.NewReader(data)
	}
	return &fragReader{r: bytes.NewReader(data), sched: schedule(kind, seed), eager: strings.HasPrefix(kind, "eager")}
}

// ------------------------------------------------------------------------------------------------
// frag: digesters with an exported entry point

func tarOf(zipBytes []byte, tmp string) ([]byte, error) {
	p := filepath.Join(tmp, "in.zip")
	if err := os.WriteFile(p, zipBytes, 0600); err != nil {
		return nil, err
	}
	defer os.Remove(p)
	fh, err := os.Open(p)
	if err != nil {
		return nil, err
	}
	defer fh.Close()
	var out bytes.Buffer
	if err := zipslicer.ZipToTar(fh, &out); err != nil {
		return nil, err
	}
	return out.Bytes(), nil
}

func jarDigestString(jd *signjar.JarDigest) string {
	var names []string
	for k := range jd.Digests {
		names = append(names, k)
	}
	sort.Strings(names)
	h := sha256.New()
	for _, n := range names {
		fmt.Fprintf(h, "%s=%s\n", n, jd.Digests[n])
	}
	h.Write(jd.Manifest)
	return hex.EncodeToString(h.Sum(nil))
}

func genJar(seed uint64, nMembers int, big bool) []byte {
	r := hx.NewRng(seed)
	var buf bytes.Buffer
	zw := zip.NewWriter(&buf)
	w, _ := zw.CreateHeader(&zip.FileHeader{Name: "META-INF/MANIFEST.MF", Method: zip.Deflate})
	w.Write([]byte("Manifest-Version: 1.0\r\nCreated-By: verif\r\n\r\n"))
	for i := 0; i < nMembers; i++ {
		sz := r.Pick(0, 1, 17, 300, 4095, 4096, 4097, 5000)
		if big && i == 0 {
			sz = 200000
		}
		meth := zip.Deflate
		if i%2 == 1 {
			meth = zip.Store
		}
		w, _ := zw.CreateHeader(&zip.FileHeader{Name: fmt.Sprintf("pkg%d/Class%02d.class", i%3, i), Method: meth})
		w.Write(r.Bytes(sz))
	}
	zw.Close()
	return buf.Bytes()
}

func genPS(seed uint64) []byte {
	r := hx.NewRng(seed)
	var sb bytes.Buffer
	n := 5 + r.Intn(200)
	for i := 0; i < n; i++ {
		fmt.Fprintf(&sb, "Write-Host \"line %d %x\"", i, r.U64())
		// lines around the 4096-byte buffer of bufio.Reader
		sb.WriteString(strings.Repeat(" #", r.Pick(0, 3, 40, 2030, 2040, 2048, 2060, 5000)))
		if r.Intn(5) == 0 {
			sb.WriteString("\n")
		} else {
			sb.WriteString("\r\n")
		}
	}
	return sb.Bytes()
}

// digestOf: a canonical string of everything that gets signed
func digestOf(format string, r io.Reader) (string, error) {
	switch format {
	case "pe", "dll", "pe-page", "dll-page":
		d, err := authenticode.DigestPE(r, crypto.SHA256, strings.HasSuffix(format, "-page"))
		if err != nil {
			return "", err
		}
		return fmt.Sprintf("%x/%x/%d/%d", d.Imprint, sha256.Sum256(d.PageHashes), d.OrigSize, d.CertStart), nil
	case "ps1", "ps1-gen", "ps1xml", "mof":
		name := map[string]string{"ps1": "x.ps1", "ps1-gen": "x.ps1", "ps1xml": "x.ps1xml", "mof": "x.mof"}[format]
		style, _ := authenticode.GetSigStyle(name)
		d, err := authenticode.DigestPowershell(r, style, crypto.SHA256)
		if err != nil {
			return "", err
		}
		return fmt.Sprintf("%x/%d/%d/%v", d.Imprint, d.TextSize, d.SigSize, d.IsUtf16), nil
	case "cab":
		d, err := cabfile.Digest(r, crypto.SHA256)
		if err != nil {
			return "", err
		}
		return fmt.Sprintf("%x/%x", d.Imprint, sha256.Sum256(d.Patched)), nil
	case "jar", "jar-gen", "jar-big":
		jd, err := signjar.DigestJarStream(r, crypto.SHA256)
		if err != nil {
			return "", err
		}
		return jarDigestString(jd), nil
	case "apk":
		d, err := apk.VerifDigestApkStream(r, crypto.SHA256)
		if err != nil {
			return "", err
		}
		return hex.EncodeToString(d), nil
	case "xap":
		d, err := signxap.DigestXapTar(r, crypto.SHA256, false)
		if err != nil {
			return "", err
		}
		return fmt.Sprintf("%x/%d/%d", d.Imprint, d.PatchStart, d.PatchLen), nil
	case "msi", "msi-ex":
		d, err := authenticode.DigestMsiTar(r, crypto.SHA256, format == "msi-ex")
		if err != nil {
			return "", err
		}
		return hex.EncodeToString(d), nil
	}
	return "", errors.New("unknown format")
}

func inputOf(format string, seed uint64, tmp string) ([]byte, error) {
	switch format {
	case "pe", "pe-page":
		return fixture("WindowsFormsApplication1.exe"), nil
	case "dll", "dll-page":
		return fixture("ClassLibrary1.dll"), nil
	case "ps1":
		return fixture("hello.ps1"), nil
	case "ps1xml":
		return fixture("hello.ps1xml"), nil
	case "mof":
		return fixture("hello.mof"), nil
	case "ps1-gen":
		return genPS(seed), nil
	case "cab":
		return fixture("dummy.cab"), nil
	case "jar":
		return tarOf(fixture("hello.jar"), tmp)
	case "jar-gen":
		return tarOf(genJar(seed, 9, false), tmp)
	case "jar-big":
		return tarOf(genJar(seed, 5, true), tmp)
	case "apk":
		return tarOf(fixture("dummy.apk"), tmp)
	case "xap":
		return tarOf(fixture("dummy.xap"), tmp)
	case "msi", "msi-ex":
		cdf, err := comdoc.ReadFile(bytes.NewReader(fixture("dummy.msi")))
		if err != nil {
			return nil, err
		}
		var out bytes.Buffer
		if err := authenticode.MsiToTar(cdf, &out); err != nil {
			return nil, err
		}
		return out.Bytes(), nil
	}
	return nil, errors.New("unknown format")
}

var FragFormats = []string{"pe", "pe-page", "dll", "dll-page", "ps1", "ps1xml", "mof", "ps1-gen", "cab", "jar", "jar-gen", "jar-big",
	"apk", "xap", "msi", "msi-ex"}

// frag <format> <sched> <seed>
func implFrag(f []string, tmp string) string {
	if len(f) != 3 {
		return "bad-op"
	}
	seed := uint64(hx.Atoi(f[2]))
	in, err := inputOf(f[0], seed, tmp)
	if err != nil {
		return "err input " + strings.ReplaceAll(err.Error(), " ", "_")
	}
	ref, err := digestOf(f[0], wrap("full", seed, in))
	if err != nil {
		return "err reference-digest " + strings.ReplaceAll(err.Error(), " ", "_")
	}
	got, err := digestOf(f[0], wrap(f[1], seed, in))
	if err != nil {
		return "ok DIFF fragmented-read-error:" + strings.ReplaceAll(err.Error(), " ", "_")
	}
	if got != ref {
		return "ok DIFF digest"
	}
	return "ok same"
}

// ------------------------------------------------------------------------------------------------
// e2e: sign through a fragmenting reader, apply, verify with relic's own verifier

// E2E: signer type -> fixture, key, flags
var E2E = [][3]string{
	{"pe-coff", "WindowsFormsApplication1.exe", ""}, {"pe-coff", "ClassLibrary1.dll", "page-hashes=true"},
	{"msi", "dummy.msi", ""}, {"cab", "dummy.cab", ""}, {"ps", "hello.ps1", ""}, {"ps", "hello.mof", ""},
	{"jar", "hello.jar", ""}, {"apk", "dummy.apk", ""}, {"appx", "App1_1.0.3.0_x64.appx", ""},
	{"vsix", "VSIXProject1.vsix", ""}, {"xap", "dummy.xap", ""}, {"deb", "zlib1g_1.2.8.dfsg-5_i386.deb", ""},
	{"rpm", "rocky-basesystem-11-13.el9.noarch.rpm", ""}, {"dmg", "dummy.dmg", ""}, {"xar", "dummy.pkg", ""},
	{"mach-o", "slimfile.app/dummyapp", ""}, {"cat", "hyperv.cat", ""},
}

func implE2E(f []string, tmp string) string {
	if len(f) != 5 {
		return "bad-op"
	}
	modName, fx, flagStr, sched := f[0], f[1], f[2], f[3]
	seed := uint64(hx.Atoi(f[4]))
	mod := signers.ByName(modName)
	if mod == nil || mod.Sign == nil {
		return "err no-such-signer"
	}
	// "<fixture>+N": N bytes of garbage behind the fixture
	extra := 0
	if i := strings.LastIndex(fx, "+"); i > 0 {
		extra = int(hx.Atoi(fx[i+1:]))
		fx = fx[:i]
	}
	src := filepath.Join(repo(), "functest", "packages", fx)
	st, err := os.Stat(src)
	if err != nil {
		return "err fixture"
	}
	inPath := filepath.Join(tmp, "e2e-"+filepath.Base(fx))
	os.RemoveAll(inPath)
	defer os.RemoveAll(inPath)
	if st.IsDir() {
		return "err fixture-is-a-directory"
	}
	if err := os.WriteFile(inPath, append(fixture(fx), bytes.Repeat([]byte{0x55}, extra)...), 0600); err != nil {
		return "err io"
	}
	q := url.Values{}
	if flagStr != "-" && flagStr != "" {
		for _, kv := range strings.Split(flagStr, ";") {
			p := strings.SplitN(kv, "=", 2)
			q.Set(p[0], p[1])
		}
	}
	fv, err := mod.FlagsFromQuery(q)
	if err != nil {
		return "err flags"
	}
	cert := sg.Cert("rsa")
	info := audit.New(cert.KeyName, mod.Name, crypto.SHA256)
	now := time.Now().UTC()
	info.SetTimestamp(now)
	info.SetX509Cert(cert.Leaf)
	if cert.PgpKey != nil {
		info.SetPgpCert(cert.PgpKey)
	}
	opts := signers.SignOpts{Path: inPath, Hash: crypto.SHA256, Time: now, Audit: info, Flags: fv}
	opts = opts.WithContext(context.Background())
	infile, err := os.OpenFile(inPath, os.O_RDWR, 0)
	if err != nil {
		return "err io"
	}
	defer infile.Close()
	transform, err := mod.GetTransform(infile, opts)
	if err != nil {
		return "err transform " + strings.ReplaceAll(err.Error(), " ", "_")
	}
	stream, err := transform.GetReader()
	if err != nil {
		return "err getreader"
	}
	var rd io.Reader = stream
	if sched != "full" {
		rd = &fragReader{r: stream, sched: schedule(sched, seed), eager: strings.HasPrefix(sched, "eager")}
	}
	blob, err := mod.Sign(rd, cert, opts)
	if err != nil {
		if sched == "full" {
			return "err sign " + strings.ReplaceAll(err.Error(), " ", "_")
		}
		// a refusal is fine when the unfragmented stream is refused the same way
		if t2, e2 := mod.GetTransform(infile, opts); e2 == nil {
			if st2, e3 := t2.GetReader(); e3 == nil {
				if _, e4 := mod.Sign(st2, cert, opts); e4 != nil && e4.Error() == err.Error() {
					return "ok same"
				}
			}
		}
		return "ok DIFF sign:" + strings.ReplaceAll(err.Error(), " ", "_")
	}
	if err := transform.Apply(inPath, opts.Audit.GetMimeType(), bytes.NewReader(blob)); err != nil {
		return "ok DIFF apply:" + strings.ReplaceAll(err.Error(), " ", "_")
	}
	infile.Close()
	if mod.Fixup != nil {
		fh, err := os.OpenFile(inPath, os.O_RDWR, 0)
		if err == nil {
			err = mod.Fixup(fh)
			fh.Close()
		}
		if err != nil {
			return "ok DIFF fixup:" + strings.ReplaceAll(err.Error(), " ", "_")
		}
	}
	if _, err := sg.Verify(modName, inPath, cert, false); err != nil {
		return "ok DIFF verify:" + strings.ReplaceAll(err.Error(), " ", "_")
	}
	return "ok same"
}

// ------------------------------------------------------------------------------------------------
// http: the digester reading a real request body

// http <format> <garbage> <mode> <seed>: POST fixture ++ garbage bytes; mode cl = Content-Length, chunked = unknown length
func implHTTP(f []string) string {
	if len(f) != 4 {
		return "bad-op"
	}
	format := f[0]
	garbage := int(hx.Atoi(f[1]))
	body := append([]byte{}, fixture("dummy.cab")...)
	if format != "cab" {
		return "bad-op"
	}
	for i := 0; i < garbage; i++ {
		body = append(body, 0x55)
	}
	var mu sync.Mutex
	got := ""
	srv := httptest.NewServer(http.HandlerFunc(func(w http.ResponseWriter, r *http.Request) {
		res := runDigester("cab", "-", r.Body)
		mu.Lock()
		got = res
		mu.Unlock()
		w.WriteHeader(200)
	}))
	defer srv.Close()
	var rd io.Reader = bytes.NewReader(body)
	if f[2] == "chunked" {
		rd = struct{ io.Reader }{rd} // hide the length: Transfer-Encoding: chunked
	}
	req, err := http.NewRequest("POST", srv.URL, rd)
	if err != nil {
		return "err request"
	}
	resp, err := http.DefaultClient.Do(req)
	if err != nil {
		return "err do"
	}
	io.Copy(io.Discard, resp.Body)
	resp.Body.Close()
	ref := runDigester("cab", "-", bytes.NewReader(body))
	mu.Lock()
	defer mu.Unlock()
	if got == ref {
		return "ok same"
	}
	return "ok DIFF " + strings.SplitN(got, " ", 2)[0] + "/" + strings.SplitN(ref, " ", 2)[0] + ":" + strings.SplitN(strings.SplitN(ref, " ", 3)[1], " ", 2)[0]
}

// ------------------------------------------------------------------------------------------------

var (
	once sync.Once
	tmpD string
)

func Handle(f []string) string {
	once.Do(func() {
		t, err := os.MkdirTemp("", "verif-readers-")
		if err != nil {
			panic(err)
		}
		tmpD = t
		hx.OnExit(func() { os.RemoveAll(t) })
	})
	if len(f) < 1 {
		return "bad-op"
	}
	switch f[0] {
	case "run":
		return implRun(f[1:])
	case "frag":
		return implFrag(f[1:], tmpD)
	case "e2e":
		return implE2E(f[1:], tmpD)
	case "http":
		return implHTTP(f[1:])
	}
	return "bad-op"
}

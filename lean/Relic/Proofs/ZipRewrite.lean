/-
  Lemmas about the ZIP rewriters of `Relic.Model.ZipRewrite` (C03): what the shared loop (`walk`)
  computes, what the cut ranges leave of the input (`applyDels`), and where each kept and each added
  member ends up in the output.
-/
import Relic.Model.ZipRewrite
import Relic.Proofs.ZipCodec
namespace Relic.Zip
open Relic

/-- the bytes of a member as relic measured it: local header, name, extra, data, descriptor -/
def extent (z : Bytes) (m : Member) : Bytes := (z.drop m.file.offset).take m.total

/-- members laid out back to back from `pos` up to `e` (relic's own measure: `GetTotalSize`) -/
def contigMs : Nat → List Member → Nat → Prop
  | pos, [], e => pos = e
  | pos, m :: ms, e => m.file.offset = pos ∧ contigMs (pos + m.total) ms e

instance : (pos : Nat) → (ms : List Member) → (e : Nat) → Decidable (contigMs pos ms e)
  | pos, [], e => by unfold contigMs; infer_instance
  | pos, m :: ms, e => by
    unfold contigMs
    have := instDecidableContigMs (pos + m.total) ms e
    infer_instance

/-- the directory entry `AddFile` makes for member `m` at running offset `o` -/
def placed (o : Nat) (m : Member) : File :=
  { m.file with raw := if m.file.offset ≠ o then [] else m.file.raw, offset := o }

/-- kept members with the offsets the running `DirLoc` gives them, in input order -/
def assign (keep : File → Bool) : List Member → Nat → List (Nat × Member)
  | [], _ => []
  | m :: ms, o => if keep m.file then (o, m) :: assign keep ms (o + m.total) else assign keep ms o

def keptLen (keep : File → Bool) : List Member → Nat
  | [] => 0
  | m :: ms => (if keep m.file then m.total else 0) + keptLen keep ms

def totalLen : List Member → Nat
  | [] => 0
  | m :: ms => m.total + totalLen ms

def delRanges (keep : File → Bool) : List Member → List (Nat × Nat)
  | [] => []
  | m :: ms => if keep m.file then delRanges keep ms else (m.file.offset, m.total) :: delRanges keep ms

/-- the kept members' extents, concatenated -/
def keptBytes (z : Bytes) (keep : File → Bool) : List Member → Bytes
  | [] => []
  | m :: ms => (if keep m.file then extent z m else []) ++ keptBytes z keep ms

theorem addFile_files (nd : Directory) (f : File) (t : Nat) :
    (addFile nd f t).files = nd.files ++ [{ f with raw := if f.offset ≠ nd.dirLoc then [] else f.raw, offset := nd.dirLoc }] ∧
    (addFile nd f t).dirLoc = nd.dirLoc + t := by
  simp [addFile]

/-- **walk_spec.** What the loop of `insertSignature` / `Mangle` returns when it returns. -/
theorem walk_spec (fixed limit : Bool) (keep : File → Bool) :
    ∀ (ms : List Member) (pos : Nat) (nd : Directory) (dels : List (Nat × Nat)) (nd' : Directory)
      (dels' : List (Nat × Nat)) (pos' : Nat),
      walk fixed limit keep ms pos nd dels = .ok (nd', dels', pos') →
      nd'.files = nd.files ++ (assign keep ms nd.dirLoc).map (fun p => placed p.1 p.2) ∧
      nd'.dirLoc = nd.dirLoc + keptLen keep ms ∧
      dels' = dels ++ delRanges keep ms ∧
      pos' = pos + totalLen ms ∧
      (fixed = true → contigMs pos ms pos') := by
  intro ms
  induction ms with
  | nil =>
    intro pos nd dels nd' dels' pos' h
    simp only [walk, Res.ok.injEq, Prod.mk.injEq] at h
    obtain ⟨rfl, rfl, rfl⟩ := h
    simp [assign, keptLen, delRanges, totalLen, contigMs]
  | cons m ms ih =>
    intro pos nd dels nd' dels' pos' h
    unfold walk at h
    split at h
    · cases h
    · rename_i hfix
      split at h
      · rename_i hk
        obtain ⟨h1, h2, h3, h4, h5⟩ := ih _ _ _ _ _ _ h
        have ha := addFile_files nd m.file m.total
        refine ⟨?_, ?_, ?_, ?_, ?_⟩
        · rw [h1, ha.1, ha.2]
          simp [assign, hk, placed]
        · rw [h2, ha.2]; simp [keptLen, hk]; omega
        · rw [h3]; simp [delRanges, hk]
        · rw [h4]; simp [totalLen]; omega
        · intro hf
          have h5' := h5 hf
          simp [hf] at hfix
          rw [h4] at h5'
          simp only [contigMs]
          refine ⟨hfix, ?_⟩
          rw [h4]
          exact h5'
      · rename_i hk
        split at h
        · cases h
        · obtain ⟨h1, h2, h3, h4, h5⟩ := ih _ _ _ _ _ _ h
          refine ⟨?_, ?_, ?_, ?_, ?_⟩
          · rw [h1]; simp [assign, hk]
          · rw [h2]; simp [keptLen, hk]
          · rw [h3]; simp [delRanges, hk]
          · rw [h4]; simp [totalLen]; omega
          · intro hf
            have h5' := h5 hf
            simp [hf] at hfix
            simp only [contigMs]
            exact ⟨hfix, h5'⟩

/-! ### what the cut ranges leave -/

theorem take_split (z : Bytes) (p q r : Nat) (h1 : p ≤ q) (h2 : q ≤ r) :
    (z.drop p).take (r - p) = (z.drop p).take (q - p) ++ (z.drop q).take (r - q) := by
  have e : r - p = (q - p) + (r - q) := by omega
  rw [e, List.take_add, List.drop_drop]
  congr 3
  omega

def firstStart (ds : List (Nat × Nat)) (e : Nat) : Nat :=
  match ds with
  | [] => e
  | (o, _) :: _ => o

theorem applyDels_split (z : Bytes) (p q : Nat) (ds : List (Nat × Nat)) (e : Nat) (h1 : p ≤ q) (h2 : q ≤ firstStart ds e) :
    applyDels z p ds e = (z.drop p).take (q - p) ++ applyDels z q ds e := by
  cases ds with
  | nil =>
    simp only [applyDels, firstStart] at *
    exact take_split z p q e h1 h2
  | cons d ds =>
    obtain ⟨o, n⟩ := d
    simp only [applyDels, firstStart] at *
    rw [take_split z p q o h1 h2, List.append_assoc]

theorem contig_le : ∀ (ms : List Member) (pos e : Nat), contigMs pos ms e → pos ≤ e := by
  intro ms
  induction ms with
  | nil => intro pos e h; simp [contigMs] at h; omega
  | cons m ms ih =>
    intro pos e h
    have := ih _ _ h.2
    omega

theorem firstStart_ge (keep : File → Bool) : ∀ (ms : List Member) (pos e : Nat), contigMs pos ms e →
    pos ≤ firstStart (delRanges keep ms) e := by
  intro ms
  induction ms with
  | nil => intro pos e h; simp [contigMs] at h; simp [delRanges, firstStart, h]
  | cons m ms ih =>
    intro pos e h
    obtain ⟨h1, h2⟩ := h
    by_cases hk : keep m.file = true
    · have := ih _ _ h2
      simp [delRanges, hk]
      omega
    · simp [delRanges, hk, firstStart, h1]

/-- **applyDels_contig.** On members laid out back to back from `pos` to `e`, cutting the deleted
    ones leaves exactly the kept members' extents, in order. -/
theorem applyDels_contig (z : Bytes) (keep : File → Bool) : ∀ (ms : List Member) (pos e : Nat), contigMs pos ms e →
    applyDels z pos (delRanges keep ms) e = keptBytes z keep ms := by
  intro ms
  induction ms with
  | nil => intro pos e h; simp [contigMs] at h; simp [delRanges, applyDels, keptBytes, h]
  | cons m ms ih =>
    intro pos e h
    obtain ⟨h1, h2⟩ := h
    by_cases hk : keep m.file = true
    · have hs := applyDels_split z pos (pos + m.total) (delRanges keep ms) e (by omega) (firstStart_ge keep ms _ _ h2)
      simp only [delRanges, hk, if_true, keptBytes]
      rw [hs, ih _ _ h2, extent, h1]
      congr 2
      omega
    · have hk' : keep m.file = false := by simpa using hk
      simp only [delRanges, hk', keptBytes, Bool.false_eq_true, if_false, applyDels, h1]
      rw [Nat.sub_self, List.take_zero, List.nil_append, ih _ _ h2]
      simp

theorem keptBytes_length (z : Bytes) (keep : File → Bool) : ∀ (ms : List Member) (pos e : Nat), contigMs pos ms e →
    e ≤ z.length → (keptBytes z keep ms).length = keptLen keep ms := by
  intro ms
  induction ms with
  | nil => intro pos e _ _; simp [keptBytes, keptLen]
  | cons m ms ih =>
    intro pos e h he
    obtain ⟨h1, h2⟩ := h
    have hle := contig_le ms _ _ h2
    by_cases hk : keep m.file = true
    · simp only [keptBytes, keptLen, hk, if_true, List.length_append, ih _ _ h2 he, extent, List.length_take, List.length_drop]
      omega
    · simp [keptBytes, keptLen, hk, ih _ _ h2 he]

/-! ### where the kept members are -/

/-- every pair (offset, member) of the list: the output holds the member's extent at that offset -/
def locatedAt (z out : Bytes) (shift : Nat) (l : List (Nat × Member)) : Prop :=
  ∀ p ∈ l, (out.drop (p.1 + shift)).take p.2.total = extent z p.2

theorem drop_take_mid (pre x post : Bytes) : ((pre ++ x ++ post).drop pre.length).take x.length = x := by
  rw [List.append_assoc, List.drop_left, List.take_left]

/-- **assign_located.** With `pre.length = L + shift`, the i-th kept member's extent sits at the
    offset `assign` gives it (plus `shift`) in `pre ++ keptBytes ++ post`. -/
theorem assign_located (z : Bytes) (keep : File → Bool) (shift : Nat) :
    ∀ (ms : List Member) (pos e : Nat) (pre post : Bytes) (L : Nat), contigMs pos ms e → e ≤ z.length →
      pre.length = L + shift →
      locatedAt z (pre ++ keptBytes z keep ms ++ post) shift (assign keep ms L) := by
  intro ms
  induction ms with
  | nil => intro pos e pre post L _ _ _ p hp; simp [assign] at hp
  | cons m ms ih =>
    intro pos e pre post L h he hpre
    obtain ⟨h1, h2⟩ := h
    have hle := contig_le ms _ _ h2
    have hext : (extent z m).length = m.total := by
      simp only [extent, List.length_take, List.length_drop]; omega
    by_cases hk : keep m.file = true
    · simp only [assign, hk, if_true, keptBytes]
      intro p hp
      rcases List.mem_cons.mp hp with rfl | hp
      · simp only
        have := drop_take_mid pre (extent z m) (keptBytes z keep ms ++ post)
        rw [hext, hpre] at this
        simpa [List.append_assoc] using this
      · have := ih _ _ (pre ++ extent z m) post (L + m.total) h2 he (by simp [hext, hpre]; omega) p hp
        simpa [List.append_assoc] using this
    · simp only [assign, hk, keptBytes]
      intro p hp
      have := ih _ _ pre post L h2 he hpre p hp
      simpa using this

/-! ### the added members -/

theorem encLfh_length (l : Lfh) : (encLfh l).length = 30 := by
  simp [encLfh, leBytes_length]

/-- local header `NewFile` writes -/
def newLfh (mt md : Nat) (n : NewMember) : Lfh :=
  { reader := if n.useDesc then 45 else 20, flags := if n.useDesc then 8 else 0, method := if n.deflate then 8 else 0,
    mtime := mt, mdate := md, crc := if n.useDesc then 0 else n.crc,
    csize := if n.useDesc then 0 else n.compd.length % 2 ^ 32, usize := if n.useDesc then 0 else n.usize % 2 ^ 32,
    nameLen := n.name.length % 2 ^ 16, extraLen := n.extra.length % 2 ^ 16, name := n.name, extra := n.extra }

def newDdb (n : NewMember) : Bytes :=
  if n.useDesc then leBytes 4 sigDesc ++ leBytes 4 n.crc ++ leBytes 8 n.compd.length ++ leBytes 8 n.usize else []

/-- the bytes `NewFile` writes for a requested member -/
def newBytes (mt md : Nat) (n : NewMember) : Bytes :=
  encLfh (newLfh mt md n) ++ n.name ++ n.extra ++ n.compd ++ newDdb n

/-- the directory entry `NewFile` makes for a requested member written at offset `o` -/
def newEntryAt (mt md : Nat) (n : NewMember) (o : Nat) : File :=
  { creator := 45, reader := if n.useDesc then 45 else 20, flags := if n.useDesc then 8 else 0,
    method := if n.deflate then 8 else 0, mtime := mt, mdate := md, crc := n.crc, csize := n.compd.length, usize := n.usize,
    name := n.name, extra := n.extra, comment := [], iattrs := 0, eattrs := 0, offset := o, raw := [],
    lfh := some (newLfh mt md n), ddb := newDdb n, compd := some n.compd }

theorem newBytes_length (mt md : Nat) (n : NewMember) :
    (newBytes mt md n).length = 30 + (n.name.length + n.extra.length + (newDdb n).length) + n.compd.length := by
  simp only [newBytes, List.length_append, encLfh_length]
  omega

theorem newFile_eq (mt md : Nat) (d : Directory) (n : NewMember) :
    newFile d n.name n.extra n.compd n.usize n.crc mt md n.deflate n.useDesc =
      (newBytes mt md n, { d with dirLoc := d.dirLoc + (newBytes mt md n).length,
                                  files := d.files ++ [newEntryAt mt md n d.dirLoc] }) := by
  rw [newBytes_length]
  simp only [newFile, addFile, newBytes, newEntryAt, newLfh, newDdb]
  refine Prod.ext rfl ?_
  simp

/-- entries and bytes of consecutive `NewFile` calls starting at offset `o` -/
def newEntries (mt md : Nat) : List NewMember → Nat → List File × Bytes
  | [], _ => ([], [])
  | n :: ns, o =>
    let r := newEntries mt md ns (o + (newBytes mt md n).length)
    (newEntryAt mt md n o :: r.1, newBytes mt md n ++ r.2)

/-- **addNews_spec.** Consecutive `NewFile` calls append the requested entries, each at the offset
    where its bytes were written, and advance `DirLoc` by the bytes written. -/
theorem addNews_spec (mt md : Nat) : ∀ (news : List NewMember) (body : Bytes) (d : Directory),
    (addNews mt md news (body, d)).1 = body ++ (newEntries mt md news d.dirLoc).2 ∧
    (addNews mt md news (body, d)).2.files = d.files ++ (newEntries mt md news d.dirLoc).1 ∧
    (addNews mt md news (body, d)).2.dirLoc = d.dirLoc + (newEntries mt md news d.dirLoc).2.length ∧
    (addNews mt md news (body, d)).2.size = d.size := by
  intro news
  induction news with
  | nil => intro body d; simp [addNews, newEntries]
  | cons n ns ih =>
    intro body d
    simp only [addNews, newEntries, newFile_eq]
    obtain ⟨i1, i2, i3, i4⟩ := ih (body ++ newBytes mt md n)
      { d with dirLoc := d.dirLoc + (newBytes mt md n).length, files := d.files ++ [newEntryAt mt md n d.dirLoc] }
    refine ⟨?_, ?_, ?_, ?_⟩
    · rw [i1]; simp [List.append_assoc]
    · rw [i2]; simp [List.append_assoc]
    · rw [i3]; simp [List.length_append]; omega
    · rw [i4]

/-- every added member: its bytes are in `body` at the offset its entry carries (relative to `o`) -/
theorem newEntries_located (mt md : Nat) : ∀ (news : List NewMember) (o : Nat) (pre post : Bytes), pre.length = o →
    ∀ p ∈ (newEntries mt md news o).1.zip news,
      ((pre ++ (newEntries mt md news o).2 ++ post).drop p.1.offset).take (newBytes mt md p.2).length = newBytes mt md p.2 ∧
      p.1 = newEntryAt mt md p.2 p.1.offset := by
  intro news
  induction news with
  | nil => intro o pre post _ p hp; simp [newEntries] at hp
  | cons n ns ih =>
    intro o pre post hpre p hp
    simp only [newEntries, List.zip_cons_cons] at hp
    rcases List.mem_cons.mp hp with rfl | hp
    · refine ⟨?_, rfl⟩
      simp only [newEntries, newEntryAt]
      have := drop_take_mid pre (newBytes mt md n) ((newEntries mt md ns (o + (newBytes mt md n).length)).2 ++ post)
      rw [hpre] at this
      simpa [List.append_assoc] using this
    · have := ih (o + (newBytes mt md n).length) (pre ++ newBytes mt md n) post (by simp [hpre]) p hp
      simpa [newEntries, List.append_assoc] using this

end Relic.Zip

namespace Relic.Zip

/-- the fields of a directory entry that measuring a member (`GetTotalSize`) never changes -/
def fileMeta (f : File) : Bytes × Nat × Nat × Nat × Nat × Bytes × Bytes × Nat × Nat × Nat × Nat × Nat :=
  (f.name, f.method, f.flags, f.csize, f.usize, f.extra, f.comment, f.offset, f.creator, f.reader, f.iattrs, f.eattrs)

theorem getTotalSize_meta (r : Rd) (f : File) (m : Member) (r' : Rd) (h : getTotalSize r f = .ok (m, r')) :
    fileMeta m.file = fileMeta f := by
  unfold getTotalSize at h
  split at h
  · split at h
    · simp only [Res.ok.injEq, Prod.mk.injEq] at h
      obtain ⟨rfl, _⟩ := h
      rfl
    all_goals cases h
  all_goals cases h

theorem passMember_meta (r : Rd) (f : File) (b : Bool) (m : Member) (r' : Rd) (h : passMember r f b = .ok (m, r')) :
    fileMeta m.file = fileMeta f := by
  unfold passMember at h
  split at h
  · simp only at h
    split at h
    · split at h
      · exact (getTotalSize_meta _ _ _ _ h).trans rfl
      all_goals cases h
    · exact (getTotalSize_meta _ _ _ _ h).trans rfl
  all_goals cases h

/-- **passMembers_meta.** The forward pass returns one measured member per directory entry, in
    directory order, with name, method, flags, sizes, extra, comment and offset as in the directory. -/
theorem passMembers_meta (rd : File → Bool) : ∀ (fs : List File) (r : Rd) (ms : List Member),
    passMembers rd r fs = .ok ms → ms.map (fun m => fileMeta m.file) = fs.map fileMeta := by
  intro fs
  induction fs with
  | nil => intro r ms h; simp [passMembers] at h; simp [h]
  | cons f fs ih =>
    intro r ms h
    unfold passMembers at h
    split at h
    · rename_i m r' hm
      split at h
      · rename_i ms' hms
        simp only [Res.ok.injEq] at h
        subst h
        simp [passMember_meta _ _ _ _ _ hm, ih _ _ hms]
      all_goals cases h
    all_goals cases h

end Relic.Zip

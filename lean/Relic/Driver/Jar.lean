/- line-protocol handlers for the JAR manifest / signature-file model (used by C01, C02, C03, C05, C08) -/
import Relic.Model.Jar
namespace Relic.Driver.Jar
open Relic Relic.Jar

def showRes {α} (r : Res α) (f : α → String) : String :=
  match r with
  | .ok a => f a
  | .err e => s!"err {e}"
  | .panic p => s!"panic {p}"
  | .diverge => "diverge"

/-- list of byte strings: `_` = empty list, items separated by `sep`, each hex (`-` = empty) -/
def showList (sep : String) (l : List Bytes) : String :=
  if l.isEmpty then "_" else sep.intercalate (l.map toHex)

def parseList (sep : String) (s : String) : Option (List Bytes) :=
  if s = "_" then some [] else (s.splitOn sep).mapM fromHex

def showHdr (h : Hdr) : String :=
  if h.isEmpty then "_" else ";".intercalate ((sortByKey h).map fun kv => s!"{toHex kv.1}:{toHex kv.2}")

def showFiles (fs : List (Bytes × Hdr)) : String :=
  if fs.isEmpty then "_" else "|".intercalate ((sortByKey fs).map fun kv => s!"{toHex kv.1}/{showHdr kv.2}")

def showFm (fm : FilesMap) : String :=
  s!"main={showHdr fm.main} order={showList "," fm.order} files={showFiles fm.files}"

def bit (b : Bool) : String := if b then "1" else "0"

/-! abstract hash used by the driver: a table (content ↦ digest text, from the op line) and otherwise a
    placeholder naming the content by its FNV-1a/64 value in the byte alphabet F6..FD (octal digits),
    FF = start, FE = padding.  The python side replaces each placeholder by the real digest of the byte
    range of the model's manifest that has this FNV value. -/
def fnv64 (b : Bytes) : UInt64 :=
  b.foldl (fun h c => (h ^^^ c.toUInt64) * 1099511628211) 14695981039346656037

def octal (h : UInt64) : Nat → Bytes
  | 0 => []
  | n + 1 => (0xF6 + (h &&& 7).toUInt8) :: octal (h >>> 3) n

def placeholder (len : Nat) (b : Bytes) : Bytes :=
  0xFF :: (octal (fnv64 b) 22 ++ List.replicate (len - 23) 0xFE)

def mkHash (table : List (Bytes × Bytes)) (len : Nat) : Bytes → Bytes :=
  fun c => match table.lookup c with
    | some d => d
    | none => placeholder len c

def knownAlgs : List Bytes := [asc "md5", asc "sha1", asc "sha224", asc "sha256", asc "sha384", asc "sha512"]

def mkAlgs (hashName : Bytes) (hash : Bytes → Bytes) : Algs :=
  fun n => if n == normalName hashName then some hash
    else if knownAlgs.contains n then some (fun _ => asc "?foreign") else none

def mkSign (sf : Bytes) : Bytes := asc "SIG:" ++ placeholder 44 sf

def parseMember (s : String) : Option (Member × Bytes) :=
  match s.splitOn ":" with
  | [n, d, g] => do
    let n ← fromHex n
    let d ← fromHex d
    let g ← fromHex g
    pure (⟨n, d⟩, g)
  | _ => none

def parseMembers (s : String) : Option (List (Member × Bytes)) :=
  if s = "_" then some [] else (s.splitOn ",").mapM parseMember

/-- section lengths of a manifest (they partition it when it is not malformed) -/
def secLens (m : Bytes) : String :=
  let l := (splitManifest m).1.map (·.length)
  if l.isEmpty then "_" else ",".intercalate (l.map toString)

def applyPost (ms : List Member) (post : String) : Option (List Member × List (Bytes × Bytes)) :=
  match post.splitOn ":" with
  | ["none"] => some (ms, [])
  | ["resign"] => some (ms, [])
  | ["noneg"] => some (ms, [])
  | ["add", n, d, g] => do
    let n ← fromHex n
    let d ← fromHex d
    let g ← fromHex g
    pure (ms ++ [⟨n, d⟩], [(d, g)])
  | ["mod", n, d, g] => do
    let n ← fromHex n
    let d ← fromHex d
    let g ← fromHex g
    pure (ms.map (fun m => if m.name == n then ⟨n, d⟩ else m), [(d, g)])
  | ["del", n] => do
    let n ← fromHex n
    pure (ms.filter (fun m => m.name != n), [])
  | ["mfadd", n, d, g, sec] => do
    -- after signing: a new member plus a new section for it appended to the (signed) manifest
    let n ← fromHex n
    let d ← fromHex d
    let g ← fromHex g
    let sec ← fromHex sec
    pure (ms.map (fun m => if m.name == manifestName then ⟨m.name, m.data ++ sec⟩ else m) ++ [⟨n, d⟩], [(d, g)])
  | _ => none

def handle : List String → String
  | ["split", mhex] =>
    match fromHex mhex with
    | none => "bad-op"
    | some m =>
      let r := splitManifest m
      let whole := if (pieces m).flatMap (·.1) == m then "cat" else "LOST"
      s!"ok mal={bit r.2} {showList "," r.1} #{whole} n={r.1.length} pieces={(pieces m).length}"
  | ["section", shex] =>
    match fromHex shex with
    | none => "bad-op"
    | some s => showRes (parseSection s) fun h => s!"ok {showHdr h}"
  | ["parse", mhex] =>
    match fromHex mhex with
    | none => "bad-op"
    | some m => showRes (parseManifest m) fun r => s!"ok mal={bit r.2} {showFm r.1}"
  | ["dump", mhex] =>
    match fromHex mhex with
    | none => "bad-op"
    | some m =>
      showRes (parseManifest m) fun r =>
        let d := dump r.1
        let again := match parseManifest d with
          | .ok (fm2, mal2) =>
            if mal2 then "malformed"
            else if fm2 == r.1 then "same"
            else if dump fm2 == d then "fixpoint" else "drift"
          | .err e => s!"err-{e}"
          | _ => "panic"
        let maxl := ((splitLF (replCRLF d)).map (·.length)).foldl max 0
        s!"ok {toHex d} #{again} maxline={maxl}"
  | ["keep", nhex] =>
    match fromHex nhex with
    | none => "bad-op"
    | some n => s!"ok {bit (keepFile n)} #cls={(classify n).1}"
  | ["sf", hn, blen, flags, cbhex, mhex] =>
    match fromHex hn, blen.toNat?, fromHex cbhex, fromHex mhex with
    | some hashName, some len, some createdBy, some m =>
      let hash := mkHash [] len
      let fl := flags.toList
      showRes (digestManifest hash hashName createdBy (fl[0]? == some '1') (fl[2]? == some '1') m) fun sf =>
        let rt := match verifySigFile (mkAlgs hashName hash) sf m with
          | .ok () => "ok"
          | .err e => s!"err-{e}"
          | _ => "panic"
        s!"ok sf={toHex sf} selfverify={rt} secs={secLens m}"
    | _, _, _, _ => "bad-op"
  | ["signx", hn, blen, kk, ahex, flags, cbhex, edhex, mems, post] =>
    match fromHex hn, blen.toNat?, kk.toNat?, fromHex ahex, fromHex cbhex, fromHex edhex, parseMembers mems with
    | some hashName, some len, some keyKind, some alias, some createdBy, some emptyDigest, some mg =>
      let ms := mg.map (·.1)
      match applyPost [] post with
      | none => "bad-op"
      | some (_, extra) =>
        let table := ([], emptyDigest) :: (mg.map fun x => (x.1.data, x.2)) ++ extra
        let hash := mkHash table len
        let fl := flags.toList
        let signOnce := signJar hash mkSign hashName createdBy (fl[0]? == some '1') (fl[2]? == some '1') keyKind alias
        let mfOf (o : List Member) : Bytes := (o.find? (fun m => m.name == manifestName)).map (·.data) |>.getD []
        let r : Res (List Member × String) :=
          if post = "resign" then
            match signOnce ms with
            | .ok o1 =>
              (match signOnce o1 with
              | .ok o2 => .ok (o2, if mfOf o2 == mfOf o1 then " resign=same" else " resign=diff")
              | .err e => .err e
              | .panic p => .panic p
              | .diverge => .diverge)
            | .err e => .err e
            | .panic p => .panic p
            | .diverge => .diverge
          else match signOnce ms with
            | .ok o => .ok (o, "")
            | .err e => .err e
            | .panic p => .panic p
            | .diverge => .diverge
        showRes r fun (out, resign) =>
          match applyPost out post with
          | none => "bad-op"
          | some (out2, _) =>
            let v := match verify (mkAlgs hashName hash) (fun sf blob => blob == mkSign sf) false out2 with
              | .ok () => "ok"
              | .err e => s!"err-{e}"
              | .panic p => s!"panic-{p}"
              | .diverge => "diverge"
            let mf := mfOf out
            let sf := (out.drop 2).head?.map (·.data) |>.getD []
            let changed := match updateManifest hash hashName ms with
              | .ok (_, c) => bit c
              | _ => "?"
            -- re-running updateManifest on the signed archive: must not change the manifest again
            let again := match updateManifest hash hashName out with
              | .ok (mf2, c) => if c then (if mf2 == mf then "rewritten-same" else "rewritten") else "kept"
              | .err e => s!"err-{e}"
              | _ => "panic"
            let names := (out.zipIdx.map fun (m, i) =>
              if i < 4 then toHex m.name else s!"{toHex m.name}:{String.ofList (Nat.toDigits 16 (fnv64 m.data).toNat)}")
            s!"ok names={",".intercalate names} mf={toHex mf} sf={toHex sf} verify={v}{resign} secs={secLens mf} #changed={changed} again={again}"
    | _, _, _, _, _, _, _ => "bad-op"
  | _ => "bad-op"

end Relic.Driver.Jar
